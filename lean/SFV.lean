import SFV.Model.Circuit
import SFV.Model.Compare
import SFV.Proofs.Circuit
import SFV.Proofs.Compare
import SFV.Props.C04
import SFV.Props.C18
import SFV.Driver.K1
