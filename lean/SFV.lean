import SFV.Model.Circuit
import SFV.Proofs.Circuit
import SFV.Props.C04
import SFV.Driver.K1
