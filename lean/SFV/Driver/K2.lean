import SFV.Driver.Json
import SFV.Model.Register
/-! Driver for the K2 register model: `reg.hist` replays a history on program + engine + one back-end
model and reports every observable after every event; `reg.modemap` drives `ModeMap` alone. -/
namespace SFV.Drv.K2
open Lean SFV.Drv SFV.Reg

def errStr : Err → String
  | .regRef => "RegRefError" | .value => "ValueError" | .index => "IndexError"
  | .circuit => "CircuitError" | .runtime => "RuntimeError"

def asRef (j : Json) : R Ref := do
  match j.getObjVal? "i" with
  | .ok v => pure (.int (← v.getInt?))
  | .error _ =>
    match j.getObjVal? "o" with
    | .ok v => pure (.own (← v.getNat?))
    | .error _ => do
      let a ← getArr j "f"
      match a with
      | [i, b] => pure (.foreign (← i.getNat?) (← b.getBool?))
      | _ => throw "ref: expected i / o / f"

def getRefs (j : Json) (k : String) : R (List Ref) :=
  match getArr j k with
  | .ok a => a.mapM asRef
  | .error _ => pure []

def optNat : Option Nat → Json
  | some n => jnat n
  | none => Json.null

def labelled (l : List (Nat × Int)) : Json := jarr (l.map fun (i, d) => jarr [jnat i, jint d])

def resJson {α} (r : SFV.Reg.R α) (f : α → Json) : Json :=
  match r with
  | .ok a => f a
  | .error e => Json.mkObj [("err", Json.str (errStr e))]

def progJson (p : Prog) : List (String × Json) :=
  [("reg", natList p.register),
   ("refs", jarr (p.regRefs.map fun r => jarr [jnat r.ind, Json.bool r.active])),
   ("unused", natList p.unused), ("locked", Json.bool p.locked), ("initNum", jnat p.initNum),
   ("ncmd", jnat p.circuit.length)]

/-- back-end specific observations -/
structure Obs (B : Type) where
  internal : B → Json
  nstore : B → Nat
  probeGate : B → List Nat → SFV.Reg.R B
  probeMeas : B → List Nat → SFV.Reg.R B
  probeDel : B → List Nat → SFV.Reg.R B
  probeMs : B → List Nat → SFV.Reg.R B
  stateModes : B → List Nat → SFV.Reg.R (List (Nat × Int))

def fockObs : Obs (Fock Int) :=
  { internal := fun s => jarr (s.mm.map.map optNat), nstore := fun s => s.axes.length,
    probeGate := fun s ms => s.gate 0 ms, probeMeas := fun s ms => s.measure ms,
    probeDel := fun s ms => s.delMode ms, probeMs := fun s _ => .ok s, stateModes := fun s ms => s.stateModes ms }

def psObs (bos : Bool) : Obs (PS Int) :=
  { internal := fun s => jarr (s.active.map optNat), nstore := fun s => s.nlen,
    probeGate := fun s ms => s.gate 0 ms, probeMeas := fun s ms => s.measure ms,
    probeDel := fun s ms => s.delMode ms, probeMs := fun s _ => .ok s,
    stateModes := fun s ms => if bos then s.stateModesB ms else s.stateModesG ms }

def bosObs : Obs (PS Int × Bool) :=
  { internal := fun s => (psObs true).internal s.1, nstore := fun s => s.1.nlen,
    probeGate := fun s ms => match s.1.gate 0 ms with | .ok x => .ok (x, s.2) | .error e => .error e,
    probeMeas := fun s ms => match s.1.measure ms with | .ok x => .ok (x, s.2) | .error e => .error e,
    probeDel := fun s ms => match s.1.delMode ms with | .ok x => .ok (x, s.2) | .error e => .error e,
    probeMs := fun s ms => match s.1.msSingleShot (ms.headD 0) with | .ok x => .ok (x, s.2) | .error e => .error e,
    stateModes := fun s ms => s.1.stateModesB ms }

def beJson {B} (o : BackendOps Int B) (ob : Obs B) (b : B) : List (String × Json) :=
  [("gm", natList (o.getModes b)), ("internal", ob.internal b), ("nstore", jnat (ob.nstore b)),
   ("state", resJson (o.stateNone b) labelled)]

def probeJson {B} (o : BackendOps Int B) (ob : Obs B) (b : B) (j : Json) : R Json := do
  let t ← getStr j "t"
  let ms ← getNatList j "ms"
  let r := match t with
    | "gate" => ob.probeGate b ms
    | "meas" => ob.probeMeas b ms
    | "ms" => ob.probeMs b ms
    | _ => ob.probeDel b ms
  pure <| match r with
    | .ok b' => Json.mkObj [("r", Json.str "ok"), ("gm", natList (o.getModes b'))]
    | .error e => Json.mkObj [("r", Json.str (errStr e))]

def runHistJson {B} (o : BackendOps Int B) (ob : Obs B) (n0 : Nat) (evs : List Json) : R Json := do
  let s0 ← match Sys.init o n0 with
    | .ok s => pure s
    | .error e => throw s!"init: {errStr e}"
  let mut s := s0
  let mut out : Array Json := #[]
  let mut lastRun : Option Prog := none
  for j in evs do
    let e ← getStr j "e"
    if e == "alien" then
      -- replace the program under construction by `Program(P)` where `P = Program(n)` with `Del` of `dels` was built
      -- independently (never run): same kind of object as `Program(prev)`, another creation / deletion history
      let r := match Prog.fresh (← getNat j "n") with
        | .error er => (.error er : SFV.Reg.R Prog)
        | .ok p0 =>
          let dels := (getNatListD j "dels")
          if dels.isEmpty then .ok p0.lock.child
          else match p0.delOp (dels.map fun i => Ref.int (Int.ofNat i)) with
            | .error er => .error er
            | .ok p1 => .ok p1.lock.child
      match r with
      | .ok p => s := { s with prog := p }; out := out.push (Json.mkObj (("r", Json.str "ok") :: progJson p))
      | .error er => out := out.push (Json.mkObj (("r", Json.str (errStr er)) :: progJson s.prog))
    else if e == "rerun" then
      -- `eng.run(last)` with the program object that was run last; the program under construction stays
      match lastRun with
      | none => out := out.push (Json.mkObj [("r", Json.str "none")])
      | some lp =>
        match engineRun o { s with prog := lp } with
        | .error er => out := out.push (Json.mkObj [("r", Json.str (errStr er))])
        | .ok s' =>
          s := { s with prev := s'.prev, be := s'.be }
          out := out.push (Json.mkObj ((("r", Json.str "ok") :: progJson s.prog) ++ beJson o ob s.be))
    else if e == "fresh" then
      -- replace the program under construction by a fresh `Program(n)`
      match Prog.fresh (← getNat j "n") with
      | .ok p => s := { s with prog := p }; out := out.push (Json.mkObj (("r", Json.str "ok") :: progJson p))
      | .error er => out := out.push (Json.mkObj (("r", Json.str (errStr er)) :: progJson s.prog))
    else if e == "resetkeep" then
      -- `eng.reset()` while the user keeps building on `Program(prev)` (its register may have holes)
      s := { s with prev := none, be := o.reset s.be }
      out := out.push (Json.mkObj ((("r", Json.str "ok") :: progJson s.prog) ++ beJson o ob s.be))
    else if e == "use" && getBoolD j "all" false then
      -- `All(Xgate(k)) | ms`
      match s.prog.allOp (← getRefs j "ms") (← getInt j "k") with
      | .ok p => s := { s with prog := p }; out := out.push (Json.mkObj (("r", Json.str "ok") :: progJson p))
      | .error er => out := out.push (Json.mkObj (("r", Json.str (errStr er)) :: progJson s.prog))
    else if e == "poke" then
      -- append to the program that has just been run (it is locked); nothing is kept
      let locked := s.prog.lock
      let r := locked.useOp [.int 0] 0 []
      let r2 := locked.newOp 1
      out := out.push (Json.mkObj [("use", Json.str (match r with | .ok _ => "ok" | .error er => errStr er)),
                                  ("new", Json.str (match r2 with | .ok _ => "ok" | .error er => errStr er))])
    else
      let ev ← match e with
        | "new" => pure (Ev.new (← getNat j "n"))
        | "del" => pure (Ev.del (← getRefs j "ms"))
        | "use" => pure (Ev.use (← getRefs j "ms") (← getInt j "k") (← getRefs j "deps"))
        | "meas" => pure (Ev.meas (← getRefs j "ms"))
        | "end" => pure Ev.endProg
        | "reset" => pure (Ev.reset (← getNat j "n"))
        | _ => throw s!"unknown event {e}"
      let ranReg := s.prog.register
      let ranCircuit := s.prog.circuit
      let ranProg := s.prog
      match step o s ev with
      | .error er =>
        out := out.push (Json.mkObj (("r", Json.str (errStr er)) :: progJson s.prog))
      | .ok s' =>
        s := s'
        let mut fields := ("r", Json.str "ok") :: progJson s'.prog
        if e == "new" then
          -- the indices handed out: the last `n` created
          let n ← getNat j "n"
          fields := fields ++ [("new", natList (List.range' (s'.prog.regRefs.length - n) n))]
        if e == "end" then lastRun := some ranProg
        if e == "end" || e == "reset" then
          fields := fields ++ beJson o ob s'.be ++ [("ranReg", natList ranReg), ("skeys", natList (samplesKeys ranCircuit))]
          let probes := (getArr j "probe").toOption.getD []
          let ps ← probes.mapM (probeJson o ob s'.be)
          let qs := (getArr j "modes").toOption.getD []
          let ss ← qs.mapM fun q => do
            let ms ← asNatList q
            pure (resJson (ob.stateModes s'.be ms) labelled)
          fields := fields ++ [("probe", jarr ps), ("smodes", jarr ss)]
        out := out.push (Json.mkObj fields)
  pure (Json.arr out)

/-- `ModeMap` alone: a list of calls, the `_map` (or the raised class) after each -/
def modemapJson (n : Nat) (calls : List Json) : R Json := do
  let mut m := ModeMap.new n
  let mut out : Array Json := #[]
  let showMap (m : ModeMap) : Json := jarr (m.map.map optNat)
  for c in calls do
    let f ← getStr c "f"
    match f with
    | "add" => m := m.add (← getNat c "n"); out := out.push (showMap m)
    | "reset" => m := m.reset; out := out.push (showMap m)
    | "delete" =>
      match m.delete (← getNatList c "ms") with
      | .ok m' => m := m'; out := out.push (showMap m)
      | .error e => out := out.push (Json.str (errStr e))
    | "valid" => out := out.push (Json.bool (m.valid (← getNatList c "ms")))
    | "remap" =>
      out := out.push (match m.remap (← getNatList c "ms") with
        | .ok l => jarr (l.map optNat)
        | .error e => Json.str (errStr e))
    | _ => throw s!"unknown ModeMap call {f}"
  pure (Json.arr out)

def handler (op : String) (j : Json) : Option (R Json) :=
  match op with
  | "reg.hist" => some do
    let be ← getStr j "backend"
    let n0 ← getNat j "n0"
    let evs ← getArr j "events"
    match be with
    | "fock" => runHistJson (fockOps Int) fockObs n0 evs
    | "gaussian" => runHistJson (gaussOps Int) (psObs false) n0 evs
    | "bosonic" => runHistJson (bosOps Int) bosObs n0 evs
    | _ => throw s!"unknown backend {be}"
  | "reg.modemap" => some do
    modemapJson (← getNat j "n") (← getArr j "calls")
  | _ => none

end SFV.Drv.K2
