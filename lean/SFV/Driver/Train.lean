import SFV.Driver.Json
import SFV.Model.Train
/-! Driver handler for the trainable-GBS / chemistry skeleton (`train.*` ops).  All scalars are exact
rationals `[num, den]` (every float64 of the implementation is one). -/
namespace SFV.Drv.Train
open Lean SFV SFV.Drv SFV.Train SFV.Gauss

def asRatList (j : Json) : R (Array Rat) := do
  let a ← j.getArr?
  a.mapM asRat

def asRatMat (j : Json) : R (Array (Array Rat)) := do
  let a ← j.getArr?
  a.mapM asRatList

def getVec (j : Json) (k : String) : R (Nat → Rat) := do
  let a ← asRatList (← j.getObjVal? k)
  pure fun i => a.getD i 0

def getMat (j : Json) (k : String) : R (Nat → Nat → Rat) := do
  let a ← asRatMat (← j.getObjVal? k)
  pure fun i l => (a.getD i #[]).getD l 0

def getRat (j : Json) (k : String) : R Rat := do asRat (← j.getObjVal? k)

def jvec (n : Nat) (f : Nat → Rat) : Json := jarr ((List.range n).map fun i => jrat (f i))
def jmat (r c : Nat) (f : Nat → Nat → Rat) : Json :=
  jarr ((List.range r).map fun i => jarr ((List.range c).map fun l => jrat (f i l)))

def asCx (j : Json) : R (Cx Rat) := do
  let a ← j.getArr?
  match a.toList with
  | [p, q] => do pure ⟨(← asRat p), (← asRat q)⟩
  | _ => throw "cx: expected [re, im]"

def jCx (z : Cx Rat) : Json := jarr [jrat z.re, jrat z.im]

def asNatLists (j : Json) : R (List (List Nat)) := do
  let a ← j.getArr?
  a.toList.mapM asNatList

def errStr : Err → String
  | .dimMismatch => "dimMismatch" | .emptySamples => "emptySamples" | .emptyState => "emptyState"
  | .lenMismatch => "lenMismatch"

def getSupport (j : Json) (k : String) : R (Support Rat) := do
  let a ← getArr j k
  a.mapM fun e => do
    match (← e.getArr?).toList with
    | [n, c] => do pure ((← asNatList n), (← asRat c))
    | _ => throw "support entry: expected [pattern, coeff]"

def qop : QOp → Json
  | .interferometer w ms => jarr [Json.str "Interferometer", jnat w, natList ms]
  | .sgate p m => jarr [Json.str "Sgate", jnat p, natList [m]]
  | .dgate p m => jarr [Json.str "Dgate", jnat p, natList [m]]
  | .rgate p m => jarr [Json.str "Rgate", jnat p, natList [m]]
  | .s2gate p a b => jarr [Json.str "S2gate", jnat p, natList [a, b]]
  | .fock p m => jarr [Json.str "Fock", jnat p, natList [m]]
  | .loss m => jarr [Json.str "LossChannel", jnat 0, natList [m]]
  | .measureFock ms => jarr [Json.str "MeasureFock", jnat 0, natList ms]

def getTable (j : Json) : R (List Nat → Rat) := do
  let a ← getArr j "table"
  let l ← a.mapM fun e => do
    match (← e.getArr?).toList with
    | [n, p] => do pure ((← asNatList n), (← asRat p))
    | _ => throw "table entry: expected [pattern, prob]"
  pure fun pat => ((l.find? fun e => e.1 == pat).map (·.2)).getD 0

def handler (op : String) (j : Json) : Option (R Json) :=
  match op with
  | "train.embed" => some do
    let m ← getNat j "m"
    let d ← getNat j "d"
    let F ← getMat j "F"
    let θa ← asRatList (← j.getObjVal? "theta")
    let w ← getVec j "w"
    let ex := match exponents m d F (fun i => θa.getD i 0) θa.size with
      | .ok e => Json.mkObj [("ok", jvec m e)]
      | .error e => Json.mkObj [("err", Json.str (errStr e))]
    pure <| Json.mkObj [("exponents", ex), ("jac", jmat m d (jacobian F w))]
  | "train.expid" => some do
    let n ← getNat j "n"
    pure <| jmat n n (expFeatures : Nat → Nat → Rat)
  | "train.waw" => some do
    let n ← getNat j "n"
    let s ← getVec j "s"
    let A ← getMat j "A"
    pure <| Json.mkObj [("W", jmat n n (vgbsW s)), ("A", jmat n n (vgbsA n s A))]
  | "train.dad" => some do
    let n ← getNat j "n"
    pure <| jmat n n (dAd n (← getVec j "a") (← getMat j "A") (← getVec j "b"))
  | "train.doktorov" => some do
    let n ← getNat j "n"
    pure <| jmat n n (doktorovBlock n (← getMat j "U2") (← getVec j "sigma") (← getMat j "U1"))
  | "train.omat" => some do
    let n ← getNat j "n"
    let rows ← (← getArr j "A").mapM fun r => do (← r.getArr?).toList.mapM asCx
    let A : Nat → Nat → Cx Rat := fun i l => (rows.getD i []).getD l 0
    let O := omat n Cx.conj A
    pure <| jarr ((List.range (2 * n)).map fun i => jarr ((List.range (2 * n)).map fun l => jCx (O i l)))
  | "train.atocov" => some do
    let n ← getNat j "n"
    let A ← getMat j "A"
    let hbar ← getRat j "hbar"
    let O := omat n id A
    let IO : Nat → Nat → Rat := fun i l => (if i = l then 1 else 0) - O i l
    let arr := (Array.range (2 * n)).map fun i => (Array.range (2 * n)).map fun l => IO i l
    match gaussJordan (2 * n) arr with
    | none => pure <| Json.mkObj [("singular", Json.bool true)]
    | some X =>
      let Xf : Nat → Nat → Rat := fun i l => (X.getD i #[]).getD l 0
      pure <| Json.mkObj [("cov", jmat (2 * n) (2 * n) (covOfInverse hbar (1 / 2) Xf)),
                          ("inverseChecked", Json.bool (isInverse (2 * n) Xf IO))]
  | "train.expfam" => some do
    let m ← getNat j "m"
    let w ← getVec j "w"
    let S ← getSupport j "S"
    pure <| Json.mkObj [("Z", jrat (Z m w S)), ("P", jarr (S.map fun e => jrat (prob m w S e))),
      ("mean", jvec m (meanN m w S)), ("dZ", jvec m (dZ m w S)), ("M1", jvec m (M1 m w S)),
      ("num", jarr (S.map fun e => jrat (e.2 * mono m w e.1)))]
  | "train.klgrad" => some do
    let m ← getNat j "m"
    let d ← getNat j "d"
    let data ← asNatLists (← j.getObjVal? "data")
    let nd : Nat → Rat := meanData data
    pure <| Json.mkObj [("grad", jvec d (klGrad m (← getMat j "F") (← getVec j "w") (← getVec j "nModel") nd)),
                        ("meanData", jvec m nd)]
  | "train.klcost" => some do
    let l ← asRatList (← j.getObjVal? "logP")
    pure <| jrat (klCost l.toList)
  | "train.stoch" => some do
    let m ← getNat j "m"
    let d ← getNat j "d"
    let F ← getMat j "F"
    let w ← getVec j "w"
    let nModel ← getVec j "nModel"
    let dets ← getRat j "dets"
    let samples ← (← getArr j "samples").mapM fun e => do
      match (← e.getArr?).toList with
      | [h, n] => do pure ((← asRat h), (← asNatList n))
      | _ => throw "sample entry: expected [h, pattern]"
    let hreps := samples.map fun e => (hRep m e.1 dets w e.2, e.2)
    pure <| Json.mkObj [("hrep", jarr (hreps.map fun e => jrat e.1)),
      ("cost", jrat (stochCost (hreps.map (·.1)))),
      ("one", jarr (hreps.map fun e => jvec d (gradOne m F w nModel e.1 e.2))),
      ("grad", jvec d (stochGrad m F w nModel hreps))]
  | "train.nmean" => some do
    let m ← getNat j "m"
    pure <| jrat (nMean m (← getVec j "v"))
  | "train.prob" => some do
    let samples ← asNatLists (← j.getObjVal? "samples")
    let st ← getNatList j "state"
    match (probState samples st : Except Err Rat) with
    | .ok p => pure <| Json.mkObj [("ok", jrat p)]
    | .error e => pure <| Json.mkObj [("err", Json.str (errStr e))]
  | "train.store" => some do
    -- ops: ["add", k] | ["get", n]; sample ids are consecutive naturals
    let ops ← getArr j "ops"
    let mut store : List Nat := []
    let mut next := 0
    let mut out : List Json := []
    for o in ops do
      match (← o.getArr?).toList with
      | [Json.str "add", k] =>
        let k ← k.getNat?
        store := store ++ (List.range k).map (· + next)
        next := next + k
        out := out ++ [Json.mkObj [("stored", jnat store.length)]]
      | [Json.str "get", n] =>
        let n ← n.getNat?
        let nx := next
        let (st, res, req) := getSamples store n fun k => (List.range k).map (· + nx)
        store := st
        next := next + req
        out := out ++ [Json.mkObj [("stored", jnat store.length), ("result", natList res), ("requested", jnat req)]]
      | _ => throw "store op: expected [\"add\"|\"get\", n]"
    pure <| jarr out
  | "train.sampler" => some do
    pure <| Json.str (samplerName (← getBool j "threshold"))
  | "train.ops" => some do
    let n ← getNat j "n"
    match (← getStr j "kind") with
    | "time" => pure <| jarr ((timeEvolutionOps n).map qop)
    | "vibronic" => pure <| jarr ((vibronicOps n).map qop)
    | k => throw s!"train.ops: unknown kind {k}"
  | "train.theta" => some do
    let n ← getNat j "n"
    pure <| jvec n (theta (← getVec j "w") (← getRat j "kc") (← getRat j "t") (← getRat j "twoPi"))
  | "train.alpha" => some do
    let n ← getNat j "n"
    pure <| jvec n (alphaOf (← getVec j "delta") (← getRat j "invSqrt2"))
  | "train.timeevolve" => some do
    let n ← getNat j "n"
    let rows (k : String) : R (List (List (Cx Rat))) := do
      (← getArr j k).mapM fun r => do (← r.getArr?).toList.mapM asCx
    let N ← rows "N"
    let M ← rows "M"
    let mu ← (← getArr j "mean").mapM asCx
    let rots ← (← getArr j "rots").mapM fun e => do
      match (← e.getArr?).toList with
      | [c, s] => do pure ((← asRat c), (← asRat s))
      | _ => throw "rot: expected [cos, sin]"
    let st0 : GS Rat := { n := n, N := fun i l => (N.getD i []).getD l 0, M := fun i l => (M.getD i []).getD l 0,
                          mean := fun i => mu.getD i 0 }
    let st := timeEvolve st0 rots 0
    let rng := List.range n
    pure <| Json.mkObj [("N", jarr (rng.map fun i => jarr (rng.map fun l => jCx (st.N i l)))),
      ("M", jarr (rng.map fun i => jarr (rng.map fun l => jCx (st.M i l)))),
      ("mean", jarr (rng.map fun i => jCx (st.mean i)))]
  | "train.haf" => some do
    let A ← getMat j "A"
    let pat ← getNatList j "pattern"
    pure <| Json.mkObj [("idx", natList (expand pat 0)), ("haf", jrat (haf A (expand pat 0))),
      ("weight", jrat (gbsWeight A pat))]
  | "train.sampleops" => some do
    let n ← getNat j "n"
    let loss ← getBool j "loss"
    let anyT := getBoolD j "anyT" true
    match (← getStr j "kind") with
    | "vibsample" => pure <| Json.mkObj [("ops", jarr ((vibSampleOps n anyT loss).map qop)),
        ("modes", jnat (vibSampleModes n anyT)), ("pad", jnat (vibSamplePad n anyT))]
    | "dynfock" => pure <| Json.mkObj [("ops", jarr ((dynFockOps n loss).map qop)), ("modes", jnat n), ("pad", jnat 0)]
    | "dyntmsv" => pure <| Json.mkObj [("ops", jarr ((dynTmsvOps n loss).map qop)), ("modes", jnat (2 * n)), ("pad", jnat 0)]
    | "dyncoherent" => pure <| Json.mkObj [("ops", jarr ((dynCoherentOps n loss).map qop)), ("modes", jnat n), ("pad", jnat 0)]
    | k => throw s!"train.sampleops: unknown kind {k}"
  | "train.energy" => some do
    pure <| jrat (energy (← getNatList j "s") (← getVec j "wp") (← getVec j "w"))
  | "train.dusch" => some do
    let a ← getNat j "a"
    let M ← getNat j "M"
    let Lf ← getMat j "Lf"
    let Li ← getMat j "Li"
    let sm ← getVec j "sm"
    let ri ← getVec j "ri"
    let rf ← getVec j "rf"
    let linv ← getVec j "linv"
    pure <| Json.mkObj [("U", jmat M M (duschU a Lf Li)), ("d", jvec M (duschD a Lf sm ri rf)),
      ("delta", jvec M (duschDelta a M Lf sm ri rf linv))]
  | "train.marginals" => some do
    match marginalsShape (← getNat j "lenMu") (← getNat j "rows") (← getNat j "cols") (← getInt j "nMax") with
    | .error e => pure <| Json.mkObj [("err", Json.str (match e with
        | .notSquare => "notSquare" | .lenMismatch => "lenMismatch" | .nMax => "nMax"))]
    | .ok (nm, nx) => pure <| Json.mkObj [("ok", Json.mkObj [("shape", natList [nm, nx]),
        ("calls", jarr ((marginalCalls nm nx).map fun p => natList [p.1, p.2])),
        ("idx", jarr ((List.range nm).map fun mode => natList (reducedIdx nm mode)))])]
  | "train.orbit" => some do
    let orbit ← getNatList j "orbit"
    let modes ← getNat j "modes"
    let P ← getTable j
    pure <| Json.mkObj [("patterns", jarr ((orbitPatterns orbit modes).map natList)), ("p", jrat (probOrbit P orbit modes))]
  | "train.event" => some do
    let P ← getTable j
    pure <| jrat (probEvent P (← getNat j "photons") (← getNat j "max") (← getNat j "modes"))
  | _ => none

end SFV.Drv.Train
