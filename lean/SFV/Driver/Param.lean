import SFV.Driver.Json
import SFV.Model.Param
import SFV.Model.ParamDecomp
/-! Driver handlers of the K5 model (ops `param.*`).  Expressions travel as JSON trees:
`{"n":[p,q]}`, `{"f":name}`, `{"m":mode}`, `{"add":[a,b]}`, `{"mul":[a,b]}`, `{"neg":a}`,
`{"pow":[a,b]}`, `{"fn":name,"a":[x]}` / `{"fn":name,"a":[x,y]}`.  Values are closed terms. -/
namespace SFV.Drv.Param
open Lean SFV.Param SFV.Drv

partial def asExpr (j : Json) : R Expr := do
  if let .ok v := j.getObjVal? "n" then return .num (← asRat v)
  if let .ok v := j.getObjVal? "f" then return .free (← v.getStr?)
  if let .ok v := j.getObjVal? "m" then return .meas (← v.getNat?)
  if let .ok v := j.getObjVal? "neg" then return .neg (← asExpr v)
  if let .ok v := j.getObjVal? "fn" then
    let f ← v.getStr?
    let a ← getArr j "a"
    match a with
    | [x] => return .fn1 f (← asExpr x)
    | [x, y] => return .fn2 f (← asExpr x) (← asExpr y)
    | _ => throw "fn: 1 or 2 arguments"
  for (k, mk) in [("add", Expr.add), ("mul", Expr.mul), ("pow", Expr.pow)] do
    if let .ok v := j.getObjVal? k then
      let a ← v.getArr?
      match a.toList with
      | [x, y] => return mk (← asExpr x) (← asExpr y)
      | _ => throw s!"{k}: 2 arguments"
  throw s!"bad expression {j.compress}"

partial def exprJson : Expr → Json
  | .num q => Json.mkObj [("n", jrat q)]
  | .free n => Json.mkObj [("f", Json.str n)]
  | .meas m => Json.mkObj [("m", jnat m)]
  | .add a b => Json.mkObj [("add", jarr [exprJson a, exprJson b])]
  | .mul a b => Json.mkObj [("mul", jarr [exprJson a, exprJson b])]
  | .neg a => Json.mkObj [("neg", exprJson a)]
  | .pow a b => Json.mkObj [("pow", jarr [exprJson a, exprJson b])]
  | .fn1 f a => Json.mkObj [("fn", Json.str f), ("a", jarr [exprJson a])]
  | .fn2 f a b => Json.mkObj [("fn", Json.str f), ("a", jarr [exprJson a, exprJson b])]

def asScalar (j : Json) : R Scalar := do
  if let .ok v := j.getObjVal? "lit" then return .lit (← asRat v)
  if let .ok v := j.getObjVal? "sym" then return .sym (← asExpr v)
  throw "bad scalar"

def asParam (j : Json) : R Param := do
  if let .ok v := j.getObjVal? "one" then return .one (← asScalar v)
  if let .ok v := j.getObjVal? "arr" then
    let a ← v.getArr?
    return .arr (← a.toList.mapM asScalar)
  if let .ok v := j.getObjVal? "arr2" then
    let a ← v.getArr?
    return .arr2 (← a.toList.mapM fun row => do (← row.getArr?).toList.mapM asScalar)
  throw "bad param"

def scalarJson : Scalar → Json
  | .lit q => Json.mkObj [("lit", jrat q)]
  | .sym e => Json.mkObj [("sym", exprJson e)]

def paramJson : Param → Json
  | .one s => Json.mkObj [("one", scalarJson s)]
  | .arr xs => Json.mkObj [("arr", jarr (xs.map scalarJson))]
  | .arr2 xss => Json.mkObj [("arr2", jarr (xss.map fun xs => jarr (xs.map scalarJson)))]

/-- a value: a rational `[p,q]` or a closed term (e.g. a complex number `re + im * I(1)`) -/
def asVal (j : Json) : R Expr :=
  match asRat j with
  | .ok q => pure (.num q)
  | .error _ => asExpr j

def asStrVals (j : Json) : R (List (String × Expr)) := do
  let a ← j.getArr?
  a.toList.mapM fun x => do
    match (← x.getArr?).toList with
    | [k, v] => pure ((← k.getStr?), (← asVal v))
    | _ => throw "table entry"

def asNatVals (j : Json) : R (List (Nat × Expr)) := do
  let a ← j.getArr?
  a.toList.mapM fun x => do
    match (← x.getArr?).toList with
    | [k, v] => pure ((← k.getNat?), (← asVal v))
    | _ => throw "table entry"

def mkEnvV (fr : List (String × Expr)) (ms : List (Nat × Expr)) : Env Expr :=
  ⟨fun n => (fr.find? (·.1 == n)).map (·.2), fun m => (ms.find? (·.1 == m)).map (·.2)⟩

/-- `[[key, [p,q]], …]` as a finite map to rationals -/
def asStrTab (j : Json) : R (List (String × Rat)) := do
  let a ← j.getArr?
  a.toList.mapM fun x => do
    match (← x.getArr?).toList with
    | [k, v] => pure ((← k.getStr?), (← asRat v))
    | _ => throw "table entry"

def asNatTab (j : Json) : R (List (Nat × Rat)) := do
  let a ← j.getArr?
  a.toList.mapM fun x => do
    match (← x.getArr?).toList with
    | [k, v] => pure ((← k.getNat?), (← asRat v))
    | _ => throw "table entry"

def tabD (j : Json) (k : String) (f : Json → R α) (d : α) : R α :=
  match j.getObjVal? k with
  | .ok v => f v
  | .error _ => pure d

def lookupS (t : List (String × Rat)) (n : String) : Option Rat := (t.find? (·.1 == n)).map (·.2)
def lookupN (t : List (Nat × Rat)) (n : Nat) : Option Rat := (t.find? (·.1 == n)).map (·.2)

def mkEnv (fr : List (String × Rat)) (ms : List (Nat × Rat)) : Env Expr :=
  ⟨fun n => (lookupS fr n).map .num, fun m => (lookupN ms m).map .num⟩

def errStr : PErr → String
  | .unbound n => s!"unbound:{n}"
  | .unmeasured m => s!"unmeasured:{m}"
  | .unknown n => s!"unknown:{n}"
  | .locked n => s!"locked:{n}"

def pvalJson : PVal Expr → Json
  | .one v => Json.mkObj [("one", exprJson v)]
  | .arr vs => Json.mkObj [("arr", jarr (vs.map exprJson))]
  | .arr2 vss => Json.mkObj [("arr2", jarr (vss.map fun vs => jarr (vs.map exprJson)))]

def resJson (r : Except PErr (PVal Expr)) : Json :=
  match r with
  | .ok v => Json.mkObj [("ok", pvalJson v)]
  | .error e => Json.mkObj [("err", Json.str (errStr e))]

def insertSorted (x : Nat) : List Nat → List Nat
  | [] => [x]
  | y :: ys => if x < y then x :: y :: ys else if x = y then y :: ys else y :: insertSorted x ys

def asCmd (j : Json) : R (Cmd Expr) := do
  if let .ok v := j.getObjVal? "measure" then
    let ms ← asNatList v
    let vs ← (← getArr j "vals").mapM asVal
    return .measure ms vs
  if let .ok v := j.getObjVal? "prepare" then return .prepare (← v.getNat?)
  if let .ok v := j.getObjVal? "use" then return .use (← asExpr v)
  if let .ok v := j.getObjVal? "useArr" then return .useArr (← (← v.getArr?).toList.mapM asExpr)
  throw "bad command"

def tcmdJson (c : TCmd) : Json :=
  Json.mkObj [("cls", Json.str c.cls), ("regs", natList c.regs), ("dagger", Json.bool c.dagger),
    ("pars", jarr (c.pars.map exprJson))]

/-- script over the shared free-parameter table and several Programs -/
def runFreeScript (steps : List Json) : R (List Json) := do
  let mut tab : FreeTab Rat := FreeTab.empty
  let mut progs : List (Nat × ProgFree) := []
  let mut out : List Json := []
  for st in steps do
    let kind ← getStr st "do"
    let get := fun (ps : List (Nat × ProgFree)) (i : Nat) => ((ps.find? (·.1 == i)).map (·.2)).getD {}
    let put := fun (ps : List (Nat × ProgFree)) (i : Nat) (p : ProgFree) => (i, p) :: ps.filter (·.1 != i)
    match kind with
    | "params" =>
      let i ← getNat st "prog"
      match params tab (get progs i) (← getStr st "name") with
      | .ok (t', p') => tab := t'; progs := put progs i p'; out := out ++ [Json.str "ok"]
      | .error e => out := out ++ [Json.str (errStr e)]
    | "lock" =>
      let i ← getNat st "prog"
      progs := put progs i { get progs i with locked := true }
      out := out ++ [Json.str "ok"]
    | "bind" =>
      let i ← getNat st "prog"
      let bs ← asStrTab (← st.getObjVal? "binding")
      let (t', err) := bindParams tab (get progs i) bs
      tab := t'
      out := out ++ [match err with | none => Json.str "ok" | some e => Json.str (errStr e)]
    | "default" =>
      -- `prog.params(name).default = v` (attribute of the shared object)
      let n ← getStr st "name"
      let v ← asRat (← st.getObjVal? "val")
      tab := tab.set n { (tab.get n).getD {} with default := some v }
      out := out ++ [Json.str "ok"]
    | "lookup" =>
      out := out ++ [match tab.lookup (← getStr st "name") with | some v => jrat v | none => Json.null]
    | _ => throw s!"unknown step {kind}"
  pure out

def handler (op : String) (j : Json) : Option (R Json) :=
  match op with
  | "param.info" => some do
    let p ← asParam (← j.getObjVal? "p")
    let fr ← tabD j "free" asStrVals []
    let ms ← tabD j "meas" asNatVals []
    let env := mkEnvV fr ms
    -- "dtype": the atoms are cast (closed term `f(v)`, folded by the harness) before evaluation
    let res := match getStr j "dtype" with
      | .ok f => p.evalCast (Expr.fn1 f) env
      | .error _ => p.eval env
    pure <| Json.mkObj [("eval", resJson res),
      ("deps", natList (p.deps.foldr insertSorted [])), ("sym", Json.bool p.isSymbolic)]
  | "param.subst" => some do
    let p ← asParam (← j.getObjVal? "p")
    let bf ← tabD j "bf" asStrTab []
    let bm ← tabD j "bm" asNatTab []
    let fr ← tabD j "free" asStrTab []
    let ms ← tabD j "meas" asNatTab []
    let q := p.subst (numSubst (lookupS bf) (lookupN bm))
    pure <| Json.mkObj [("p", paramJson q), ("eval", resJson (q.eval (mkEnv fr ms))),
      ("deps", natList (q.deps.foldr insertSorted [])), ("sym", Json.bool q.isSymbolic)]
  | "param.decompose" => some do
    let cls ← getStr j "cls"
    let ps ← (← getArr j "ps").mapM asExpr
    match decompose cls ps (getBoolD j "dagger" false) with
    | none => pure Json.null
    | some l => pure <| jarr (l.map tcmdJson)
  | "param.expand" => some do
    let cs ← (← getArr j "cmds").mapM fun c => do
      let ps ← (← getArr c "pars").mapM asExpr
      pure ({ cls := (← getStr c "cls"), pars := ps, regs := getNatListD c "regs", dagger := getBoolD c "dagger" false } : PCmd)
    let dec ← (← getArr j "dec").mapM (·.getStr?)
    let out := expand templateTable (fun c => dec.contains c) (← getNat j "fuel") cs
    pure <| jarr (out.map fun c => Json.mkObj [("cls", Json.str c.cls), ("regs", natList c.regs),
      ("dagger", Json.bool c.dagger), ("pars", jarr (c.pars.map exprJson))])
  | "param.merge" => some do
    let a ← asExpr (← j.getObjVal? "a")
    let b ← asExpr (← j.getObjVal? "b")
    pure <| exprJson (mergeP0 a b (getBoolD j "da" false) (getBoolD j "db" false))
  | "param.engine" => some do
    let fr ← tabD j "free" asStrTab []
    let own0 ← tabD j "own0" asNatVals []
    let segs0 ← (← getArr j "segs").mapM fun s => do
      let cs ← (← s.getArr?).toList.mapM asCmd
      pure ((Regs.empty : Regs Expr), cs)
    -- `own0`: what the RegRefs of the first Program hold before the run
    let segs := match segs0 with
      | (_, cs) :: rest => ((fun m => (own0.find? (·.1 == m)).map (·.2)), cs) :: rest
      | [] => []
    let o := runSegs (fun n => (lookupS fr n).map Expr.num) {} segs
    let last := fun (m : Nat) => match lastOutcome m (segs.flatMap (·.2)) with
      | some v => exprJson v | none => Json.null
    let q := getNatListD j "query"
    pure <| Json.mkObj [("trace", jarr (o.trace.map exprJson)),
      ("err", match o.fin with | .ok _ => Json.null | .error e => Json.str (errStr e)),
      ("regs", match o.fin with | .ok r => jarr (q.map fun m => match r m with | some v => exprJson v | none => Json.null) | .error _ => Json.null),
      ("last", jarr (q.map last))]
  | "param.convert" => some do
    let e ← asExpr (← j.getObjVal? "e")
    pure <| match convert e with
      | some e' => exprJson e'
      | none => Json.null
  | "param.session" => some do
    let fr ← tabD j "free" asStrTab []
    let evs ← (← getArr j "events").mapM fun ev => do
      match ev.getObjVal? "run" with
      | .ok segs => do
        let segs ← (← segs.getArr?).toList.mapM fun s => do
          let own ← tabD s "own" asNatVals []
          let cs ← (← getArr s "cmds").mapM asCmd
          pure ((fun m => (own.find? (·.1 == m)).map (·.2) : Regs Expr), cs)
        pure (Ev.run segs)
      | .error _ => pure Ev.reset
    let outs := runEvents (fun n => (lookupS fr n).map Expr.num) {} evs
    pure <| jarr (outs.map fun o => Json.mkObj [("trace", jarr (o.1.map exprJson)),
      ("err", match o.2 with | none => Json.null | some e => Json.str (errStr e))])
  | "param.free" => some do
    let steps ← getArr j "steps"
    pure <| jarr (← runFreeScript steps)
  | _ => none

end SFV.Drv.Param
