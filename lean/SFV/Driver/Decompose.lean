import SFV.Driver.Json
import SFV.Model.Decompose
import SFV.Gen.Compilers
/-! Driver for the decomposition model of C02.  Ops are prefixed `c02.`; scalars are `Rat` travelling as
`[num, den]`. -/
namespace SFV.Drv.Decompose
open Lean SFV SFV.Drv SFV.Decompose

def ratList (j : Json) (k : String) : R (List Rat) := do
  let a ← getArr j k
  a.mapM asRat

def mkOp (name : String) (a : List Rat) : R (Op Rat) :=
  match name, a with
  | "Dgate", [r, c, s] => pure (.Dg r c s)
  | "Rgate", [c, s] => pure (.Rg c s)
  | "Sgate", [ch, sh, c, s] => pure (.Sg ch sh c s)
  | "BSgate", [ct, sn, c, s] => pure (.BSg ct sn c s)
  | "Xgate", [x] => pure (.Xg x)
  | "Zgate", [p] => pure (.Zg p)
  | "Pgate", [t, ch, ich, sg] => pure (.Pg t ch ich sg)
  | "CXgate", [ch, sh, ct, st] => pure (.CXg ch sh ct st)
  | "CZgate", [ch, sh, ct, st] => pure (.CZg ch sh ct st)
  | "S2gate", [ch, sh, c, s] => pure (.S2g ch sh c s)
  | "MZgate", [ci, si, ce, se] => pure (.MZg ci si ce se)
  | "sMZgate", [c1, s1, c2, s2] => pure (.sMZg c1 s1 c2 s2)
  | "Fouriergate", [] => pure .Fg
  | "Kgate", [k] => pure (.Kg k)
  | "Vacuum", [] => pure .Vac
  | "Squeezed", [ch, sh, c, s] => pure (.Sq ch sh c s)
  | "DisplacedSqueezed", [r, c, s, ch, sh, c2, s2] => pure (.DSq r c s ch sh c2 s2)
  | n, _ => throw s!"c02: unknown op {n} / wrong number of atoms"

def opAtoms : Op Rat → List Rat
  | .Dg r c s => [r, c, s] | .Rg c s => [c, s] | .Sg ch sh c s => [ch, sh, c, s]
  | .BSg ct sn c s => [ct, sn, c, s] | .Xg x => [x] | .Zg p => [p] | .Pg t ch ich sg => [t, ch, ich, sg]
  | .CXg ch sh ct st => [ch, sh, ct, st] | .CZg ch sh ct st => [ch, sh, ct, st]
  | .S2g ch sh c s => [ch, sh, c, s] | .MZg a b c d => [a, b, c, d] | .sMZg a b c d => [a, b, c, d]
  | .Fg => [] | .Kg k => [k] | .Vac => [] | .Sq ch sh c s => [ch, sh, c, s]
  | .DSq r c s ch sh c2 s2 => [r, c, s, ch, sh, c2, s2]

def mkCmd (j : Json) : R (Cmd Rat) := do
  let op ← mkOp (← getStr j "cls") (← ratList j "atoms")
  pure ⟨op, ← getNatList j "regs", getBoolD j "dagger" false⟩

def jCmd (c : Cmd Rat) : Json :=
  Json.mkObj [("cls", Json.str c.op.name), ("regs", natList c.regs), ("dagger", Json.bool c.dagger),
    ("atoms", jarr ((opAtoms c.op).map jrat))]

def getConsts (j : Json) : R (Consts Rat) := do
  match ← ratList j "consts" with
  | [q, h, ih] => pure ⟨q, h, ih⟩
  | _ => throw "consts: expected [q, h, ih]"

def tablesOf (j : Json) : R (List String × List String) := do
  match getStr j "compiler" with
  | .ok short =>
    match Gen.Compilers.tables.find? (·.1 == short) with
    | some (_, p, d) => pure (p, d)
    | none => throw s!"unknown compiler {short}"
  | .error _ => do
    let p ← getArr j "prims"
    let d ← getArr j "decs"
    pure (← p.mapM (·.getStr?), ← d.mapM (·.getStr?))

def jErr : DErr → Json
  | .circuit n => Json.mkObj [("err", jarr [Json.str "CircuitError", Json.str n])]
  | .notImplemented n => Json.mkObj [("err", jarr [Json.str "NotImplementedError", Json.str n])]
  | .fuel => Json.mkObj [("err", jarr [Json.str "fuel", Json.str ""])]

/-- a command whose decomposition is supplied as data (what the real `decompose` returned) -/
inductive Tree
  | node (id : Nat) (name : String) (noDecomp : Bool) (kids : Option (List Tree))

partial def mkTree (j : Json) : R Tree := do
  let id ← getNat j "id"
  let name ← getStr j "name"
  let nd := getBoolD j "nodecomp" false
  match j.getObjVal? "kids" with
  | .ok (Json.arr a) => do
    let ks ← a.toList.mapM mkTree
    pure (.node id name nd (some ks))
  | _ => pure (.node id name nd none)

def Tree.id : Tree → Nat | .node i _ _ _ => i
def Tree.name : Tree → String | .node _ n _ _ => n
def Tree.noDecomp : Tree → Bool | .node _ _ b _ => b
def Tree.kids : Tree → Option (List Tree) | .node _ _ _ k => k

def asAngle (j : Json) : R Rat := asRat j

def mesh (j : Json) : R Json := do
  let kind ← getStr j "kind"
  let reg ← getNatList j "reg"
  let jm (l : List (MCmd Rat)) : Json := jarr (l.map fun c =>
    match c.op with
    | .R a => Json.mkObj [("cls", Json.str "Rgate"), ("regs", natList c.regs), ("pars", jarr [jrat a])]
    | .BS a b => Json.mkObj [("cls", Json.str "BSgate"), ("regs", natList c.regs), ("pars", jarr [jrat a, jrat b])]
    | .MZ a b => Json.mkObj [("cls", Json.str "MZgate"), ("regs", natList c.regs), ("pars", jarr [jrat a, jrat b])]
    | .sMZ a b => Json.mkObj [("cls", Json.str "sMZgate"), ("regs", natList c.regs), ("pars", jarr [jrat a, jrat b])])
  -- a table `[[i, j, value], …]` as a function (default 0); vectors as `[[i, 0, value], …]`
  let table (k : String) : R (Nat → Nat → Rat) := do
    let rows ← getArr j k
    let es ← rows.mapM fun r => do
      let a ← r.getArr?
      match a.toList with
      | [i, jj, v] => do pure ((← i.getNat?), (← jj.getNat?), (← asRat v))
      | _ => throw "table entry"
    pure fun i jj => match es.find? (fun e => e.1 == i && e.2.1 == jj) with
      | some e => e.2.2
      | none => 0
  match kind with
  | "rect_compact" => do
    let m ← getNat j "m"
    let ins ← table "phi_ins"
    let edges ← table "phi_edges"
    let deltas ← table "deltas"
    let sigmas ← table "sigmas"
    let outs ← getArr j "phi_outs"
    let outs ← outs.mapM fun r => do
      let a ← r.getArr?
      match a.toList with
      | [i, v] => do pure ((← i.getNat?), (← asRat v))
      | _ => throw "phi_outs entry"
    pure (jm (rectCompactCmds reg m (fun i => ins i 0) edges deltas sigmas outs))
  | "tri_compact" => do
    let m ← getNat j "m"
    let ins ← table "phi_ins"
    let deltas ← table "deltas"
    let sigmas ← table "sigmas"
    let zetas ← table "zetas"
    pure (jm (triCompactCmds reg m (fun i => ins i 0) deltas sigmas (fun i => zetas i 0)))
  | "sun_compact" => do
    let ps ← getArr j "params"
    let ps ← ps.mapM fun r => do
      let a ← r.getArr?
      match a.toList with
      | [m1, m2, x, y, z] => do pure (((← m1.getNat?), (← m2.getNat?)), ((← asRat x), (← asRat y), (← asRat z)))
      | _ => throw "params entry"
    let gp : Option Rat := match j.getObjVal? "global_phase" with
      | .ok v => (asRat v).toOption
      | .error _ => none
    let n : Rat := (reg.length : Nat)
    match sunCompactCmds (fun x : Rat => x / 2) (fun x => x / n) 0 reg ps gp with
    | some l => pure (jm l)
    | none => pure (Json.mkObj [("err", Json.str "ValueError")])
  | "interferometer" => do
    let tol ← asRat (← j.getObjVal? "tol")
    let clip : Rat → Rat := fun x => if tol ≤ (if x < 0 then -x else x) then x else 0
    let blocks (k : String) : R (List (Nat × Nat × Rat × Rat)) := do
      let rows ← getArr j k
      rows.mapM fun r => do
        let a ← r.getArr?
        match a.toList with
        | [n, m, th, ph] => do pure ((← n.getNat?), (← m.getNat?), (← asRat th), (← asRat ph))
        | _ => throw "block entry"
    let bs1 ← blocks "BS1"
    let bs2 : Option (List (Nat × Nat × Rat × Rat)) ← match j.getObjVal? "BS2" with
      | .ok (Json.arr _) => do pure (some (← blocks "BS2"))
      | _ => pure none
    let rs ← getArr j "R"
    let rs : List (Option Rat) := rs.map fun r => (asRat r).toOption
    pure (jm (interferometerDecompose 0 clip id (← getBool j "identity") (← getBool j "drop_identity")
      (← getBool j "symmetric") (getBoolD j "triangular" false) reg bs1 rs bs2))
  | k => throw s!"unknown mesh kind {k}"

/-! ### matrix-operation templates -/

def jX (c : XCmd Rat) : Json :=
  let o (cls : String) (pars : List Rat) (extra : List (String × Json)) : Json :=
    Json.mkObj ([("cls", Json.str cls), ("regs", natList c.regs), ("pars", jarr (pars.map jrat))] ++ extra)
  match c.op with
  | .sgate r φ => o "Sgate" [r, φ] []
  | .s2gate r φ => o "S2gate" [r, φ] []
  | .interferometer m mesh dr tol =>
    o "Interferometer" [] [("mat", Json.str m), ("mesh", Json.str mesh), ("drop_identity", Json.bool dr), ("tol", jrat tol)]
  | .gaussianTransform m v => o "GaussianTransform" [] [("mat", Json.str m), ("vacuum", Json.bool v)]
  | .squeezed r φ => o "Squeezed" [r, φ] []
  | .thermal n => o "Thermal" [n] []
  | .vac => o "Vacuum" [] []
  | .xgate x => o "Xgate" [x] []
  | .zgate p => o "Zgate" [p] []

def optStr (j : Json) (k : String) : Option String := (getStr j k).toOption
def optBool (j : Json) (k : String) : Option Bool := (getBool j k).toOption
def optRat (j : Json) (k : String) : Option Rat := match j.getObjVal? k with | .ok v => (asRat v).toOption | .error _ => none

/-- `[[value, flag], …]` -/
def valFlags (j : Json) (k : String) : R (List (Rat × Bool)) := do
  (← getArr j k).mapM fun r => do
    match (← r.getArr?).toList with
    | [v, b] => do pure ((← asRat v), (← b.getBool?))
    | _ => throw "valFlags entry"

def getDefaults (j : Json) : R (IDefaults Rat) := do
  let d ← j.getObjVal? "defaults"
  pure ⟨← getStr d "mesh", ← getBool d "drop_identity", ← asRat (← d.getObjVal? "tol")⟩

def matrixTemplate (j : Json) : R Json := do
  let kind ← getStr j "kind"
  let reg ← getNatList j "reg"
  match kind with
  | "graph" => do
    pure (jarr ((graphEmbedCmds (← getDefaults j) 0 (← getBool j "identity") (← valFlags j "sq") (← getBool j "u_identity")
      (optStr j "kw_mesh") reg).map jX))
  | "bipartite" => do
    pure (jarr ((bipartiteCmds 0 (← getBool j "identity") (← getBool j "self_drop") (← asRat (← j.getObjVal? "self_tol"))
      (optStr j "kw_mesh") (optBool j "kw_drop") (optRat j "kw_tol") (← valFlags j "sq") (← getBool j "u_identity")
      (← getBool j "v_identity") reg).map jX))
  | "gtransform" => do
    let sq ← (← getArr j "sq").mapM fun r => do
      match (← r.getArr?).toList with
      | [b, x, y] => do pure ((← b.getBool?), (← asRat x), (← asRat y))
      | _ => throw "sq entry"
    pure (jarr ((gaussianTransformCmds (← getDefaults j) (← getBool j "active") (← getBool j "vacuum") (optStr j "kw_mesh")
      sq reg).map jX))
  | "gaussian" => do
    let modes ← (← getArr j "modes").mapM fun m => do
      let r (k : String) : R Rat := do asRat (← m.getObjVal? k)
      pure (⟨← getBool m "diagBig", ← r "diagR", ← getBool m "diagSmall", ← getBool m "rotBig", ← r "rotR", ← r "rotPhi",
        ← getBool m "thBig", ← r "thNbar", ← getBool m "wBig", ← r "wNbar"⟩ : GMode Rat)
    pure (jarr ((gaussianCmds 0 (← asRat (← j.getObjVal? "pi")) (← getBool j "pure") (← getBool j "is_diag")
      (← getBool j "is_block_diag") (← getBool j "thermal_diag") modes (← valFlags j "xdisp") (← valFlags j "pdisp") reg).map jX))
  | k => throw s!"unknown matrix template {k}"

def handler (op : String) (j : Json) : Option (R Json) :=
  match op with
  | "c02.template" => some do
    let c ← mkCmd j
    let C ← getConsts j
    match decompose C c with
    | some seq => pure (jarr (seq.map jCmd))
    | none => pure Json.null
  | "c02.compile_scalar" => some do
    let C ← getConsts j
    let cmds ← (← getArr j "cmds").mapM mkCmd
    let (p, d) ← tablesOf j
    match compileWith (fun c : Cmd Rat => c.op.name) (fun _ => false) (decompose C) p d 3 cmds with
    | .ok out => pure (Json.mkObj [("ok", jarr (out.map jCmd))])
    | .error e => pure (jErr e)
  | "c02.compile" => some do
    let cmds ← (← getArr j "cmds").mapM mkTree
    let (p, d) ← tablesOf j
    let fuel ← getNat j "fuel"
    match compileWith Tree.name Tree.noDecomp Tree.kids p d fuel cmds with
    | .ok out => pure (Json.mkObj [("ok", natList (out.map Tree.id))])
    | .error e => pure (jErr e)
  | "c02.mesh" => some (mesh j)
  | "c02.matrix_template" => some (matrixTemplate j)
  | _ => none

end SFV.Drv.Decompose
