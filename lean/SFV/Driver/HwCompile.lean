import SFV.Driver.Json
import SFV.Model.HwCompile
/-! Driver for the hardware-compilation model (C12).  Ops are prefixed `hw.`; rationals travel as `[num, den]`. -/
namespace SFV.Drv.HwCompile
open Lean SFV SFV.Drv SFV.Hw

def asRatList (j : Json) : R (List Rat) := do
  let a ← j.getArr?
  a.toList.mapM asRat

def asRanges (j : Json) : R (List (List Rat)) := do
  let a ← j.getArr?
  a.toList.mapM asRatList

def asPair (j : Json) : R (Nat × Nat) := do
  match ← asNatList j with
  | [a, b] => pure (a, b)
  | _ => throw "pair expected"

def asS2 (j : Json) : R S2 := do
  let a ← j.getArr?
  match a.toList with
  | [x, y, r, p] => pure ⟨← x.getNat?, ← y.getNat?, ← asRat r, ← asRat p, false⟩
  | [x, y, r, p, d] => pure ⟨← x.getNat?, ← y.getNat?, ← asRat r, ← asRat p, ← d.getBool?⟩
  | _ => throw "S2: expected [a, b, r, phi(, dagger)]"

def jS2 (c : S2) : Json := jarr [jnat c.a, jnat c.b, jrat c.r, jrat c.phi, Json.bool c.dag]

def asTCmd (j : Json) : R TCmd := do
  let a ← j.getArr?
  match a.toList with
  | [c, w, o] => pure ⟨← c.getStr?, ← asNatList w, ← o.getBool?⟩
  | _ => throw "TCmd: expected [cls, wires, offset]"

def jTCmd (c : TCmd) : Json := jarr [Json.str c.cls, natList c.wires, Json.bool c.offset]

def jSk (c : Sk) : Json := jarr [Json.str c.name, natList c.modes]

def merrStr : MErr → String
  | .circuit => "CircuitError" | .index => "IndexError" | .fuel => "fuel"

def modesErrStr : Option ModesErr → String
  | none => "ok" | some .total => "total" | some .pnr => "pnr" | some .homodyne => "homodyne"
  | some .heterodyne => "heterodyne" | some .temporal => "temporal" | some .concurrent => "concurrent"
  | some .spatial => "spatial"

def kindStr : MeasKind → String
  | .pnr => "pnr" | .homodyne => "homodyne" | .heterodyne => "heterodyne" | .other => "other"

def asKind (s : String) : MeasKind :=
  if s == "pnr" then .pnr else if s == "homodyne" then .homodyne else if s == "heterodyne" then .heterodyne else .other

def asGp (j : Json) : R (Option (List (String × List Range))) := do
  if j.isNull then pure none else
  let a ← j.getArr?
  let l ← a.toList.mapM fun e => do
    let p ← e.getArr?
    match p.toList with
    | [n, rs] => do
      match mkRanges (← asRanges rs) with
      | some r => pure (← n.getStr?, r)
      | none => throw "ValueError"
    | _ => throw "gp entry: expected [name, ranges]"
  pure (some l)

def asRatMat (j : Json) : R (List (List Rat)) := do
  let a ← j.getArr?
  a.toList.mapM asRatList

def asCq (j : Json) : R Cq := do
  let a ← j.getArr?
  match a.toList with
  | [x, y] => pure (← asRat x, ← asRat y)
  | _ => throw "complex: expected [re, im]"

def asCM (j : Json) : R CM := do
  let a ← j.getArr?
  a.toList.mapM fun r => do
    let es ← r.getArr?
    es.toList.mapM asCq

def xerrStr : XErr → String
  | .notInterferometer => "not-interferometer" | .mix => "mix" | .notIdentical => "not-identical"

def asGArg (j : Json) : R GArg := do
  match j.getStr? with
  | .ok s => if s.startsWith "sym:" then pure (.sym (s.drop 4).toString) else pure (.expr s)
  | .error _ =>
    match j.getObjVal? "arr" with
    | .ok v => pure (.arr (← asRatList v))
    | .error _ => pure (.num (← asRat j))

def jLCmd : LCmd → Json
  | .gate c r => jarr [Json.str c, natList r]
  | .loss (.num q) r => jarr [Json.str "LossChannel", natList r, jrat q]
  | .loss .param r => jarr [Json.str "LossChannel", natList r, Json.str "param"]

def asBlock (j : Json) : R (Nat × Nat × Rat × Rat) := do
  let a ← j.getArr?
  match a.toList with
  | [m, n, x, y] => pure (← m.getNat?, ← n.getNat?, ← asRat x, ← asRat y)
  | _ => throw "block: expected [m, n, phi_i, phi_e]"

def jBlock (t : Nat × Nat × Rat × Rat) : Json := jarr [jnat t.1, jnat t.2.1, jrat t.2.2.1, jrat t.2.2.2]

def handler (op : String) (j : Json) : Option (R Json) :=
  match op with
  | "hw.gbsOptions" => some do
    let B ← (← getArr j "B").mapM fun e => do
      let regs ← asNatList (← e.getObjVal? "regs")
      let sel ← match e.getObjVal? "select" with
        | .ok v => if v.isNull then pure none else do pure (some (← asNatList v))
        | .error _ => pure none
      let dk ← match e.getObjVal? "dark" with
        | .ok v => if v.isNull then pure none else do pure (some (← asRatList v))
        | .error _ => pure none
      pure (⟨regs, sel, dk⟩ : FockCmd)
    match gbsOptions B with
    | .error _ => pure (Json.str "CircuitError")
    | .ok (m, s, d) => pure <| Json.mkObj [("modes", natList m),
        ("select", match s with | none => Json.null | some l => natList l),
        ("dark", match d with | none => Json.null | some l => jarr (l.map jrat))]
  | "hw.symPush" => some do
    let ti ← (← getArr j "tilist").mapM asBlock
    let tl ← (← getArr j "tlist").mapM asBlock
    let d ← asRatList (← j.getObjVal? "diags")
    let (nt, nd) := symmetricPush ti d tl
    pure <| Json.mkObj [("tlist", jarr (nt.map jBlock)), ("diags", jarr (nd.map jrat))]
  | "hw.addLoss" => some do
    let circ ← (← getArr j "circ").mapM fun e => do
      let a ← e.getArr?
      match a.toList with
      | [c, r] => pure (← c.getStr?, ← asNatList r)
      | _ => throw "circ entry"
    match addLoss (← asRat (← j.getObjVal? "glob")) (← asRatList (← j.getObjVal? "loops")) 0 circ with
    | none => pure Json.null
    | some out => pure <| jarr (out.map jLCmd)
  | "hw.compatible" => some do
    let len ← getNat j "len"
    let loops ← (← getArr j "loops").mapM fun e => do
      let a ← e.getArr?
      match a.toList with
      | [o, d, ph] => do pure (← asRat o, ← d.getNat?, ← asRatList ph)
      | _ => throw "loop: expected [offset, delay, phis]"
    pure <| jarr ((makeCompatLoops len true (fun _ => 0) loops).map fun l => jarr (l.map jrat))
  | "hw.paramRules" => some do
    let l ← (← getArr j "layout").mapM asGArg
    let p ← (← getArr j "prog").mapM asGArg
    pure <| Json.mkObj [("clash", Json.bool (hardCodedClash l p)), ("fixed", Json.bool (fixedValuesMatch l p))]
  | "hw.close" => some do
    let ps ← (← getArr j "pairs").mapM fun e => do
      let a ← e.getArr?
      match a.toList with
      | [x, y] => pure (← asCq x, ← asCq y)
      | _ => throw "pair expected"
    pure <| jarr (ps.map fun ab => Json.bool (closeC ab.1 ab.2))
  | "hw.expand" => some do
    let S ← asRatMat (← j.getObjVal? "S")
    let out := expandS S (← getNatList j "modes") (← getNat j "N")
    pure <| jarr (out.map fun r => jarr (r.map jrat))
  | "hw.xunitaryCheck" => some do
    let S ← asRatMat (← j.getObjVal? "S")
    match xunitaryCheck (← getNat j "half") S (← getNatList j "used") with
    | .ok _ => pure (Json.str "ok")
    | .error e => pure (Json.str (xerrStr e))
  | "hw.xcovCheck" => some do
    let A ← asCM (← j.getObjVal? "A")
    match xcovCheck (← getNat j "half") A with
    | .ok _ => pure (Json.str "ok")
    | .error e => pure (Json.str (xerrStr e))
  | "hw.xcovSqueezers" => some do
    pure <| jarr ((xcovSqueezers (← getNat j "half")).map fun t => natList [t.1, t.2.1, t.2.2])
  | "hw.ranges" => some do
    let vals ← asRatList (← j.getObjVal? "values")
    match mkRanges (← asRanges (← j.getObjVal? "ranges")) with
    | none => pure (Json.str "ValueError")
    | some rs => pure <| jarr (vals.map fun v => Json.bool (rangesContain rs v))
  | "hw.validate" => some do
    let gp ← asGp (← j.getObjVal? "gp")
    let ps ← (← getArr j "params").mapM fun e => do
      let p ← e.getArr?
      match p.toList with
      | [n, vs] => do pure (← n.getStr?, ← asRatList vs)
      | _ => throw "param entry: expected [name, values]"
    match validateParameters gp ps with
    | none => pure <| Json.mkObj [("err", Json.str "ok")]
    | some (.unknown p) => pure <| Json.mkObj [("err", Json.str "unknown"), ("p", Json.str p)]
    | some (.invalid p v) => pure <| Json.mkObj [("err", Json.str "invalid"), ("p", Json.str p), ("v", jrat v)]
  | "hw.layout" => some do
    let evs ← (← getArr j "events").mapM fun e => do
      let a ← e.getArr?
      match a.toList with
      | [k, l] => if (← k.getStr?) == "init" then pure (LayoutEv.init (← l.getStr?)) else throw "event"
      | [_] => pure LayoutEv.reset
      | _ => throw "event"
    let (s, fl) := runLayout none evs
    pure <| Json.mkObj [("state", match s with | none => Json.null | some l => Json.str l),
      ("flags", jarr (fl.map Json.bool))]
  | "hw.measKind" => some do
    let names ← (← getArr j "names").mapM (·.getStr?)
    pure <| jarr (names.map fun n => Json.str (kindStr (measKind n)))
  | "hw.assertInt" => some do
    pure <| Json.str (modesErrStr (assertModesInt (← getNat j "total") (← getNat j "modes")))
  | "hw.assertDict" => some do
    let circ ← (← getArr j "circ").mapM fun e => do
      let a ← e.getArr?
      match a.toList with
      | [k, n] => do pure (measKind (← k.getStr?), ← n.getNat?)
      | _ => throw "circ entry: expected [opname, nregs]"
    pure <| Json.str (modesErrStr (assertModesDict circ (← getNat j "pnr") (← getNat j "hom") (← getNat j "het")))
  | "hw.assertTdm" => some do
    pure <| Json.str (modesErrStr (tdmAssertModes (← getNat j "timebins") (← getNat j "concurr") (← getNat j "spatial")
      (← getNat j "tmax") (← getNat j "dconc") (← getNat j "dspat")))
  | "hw.mz" => some do
    let n ← getNat j "N"
    pure <| Json.mkObj [("compiled", natList (compiledMZ n)), ("layout", natList (layoutMZ n)),
      ("tilist", natList (tilist n)), ("tlist", natList (tlist n))]
  | "hw.xskel" => some do
    let n ← getNat j "N"
    let o ← getNatList j "s2order"
    pure <| Json.mkObj [("compiled", jarr ((xCompiled n o).map jSk)), ("layout", jarr ((xLayout n).map jSk))]
  | "hw.dups" => some do
    let seq ← (← getArr j "seq").mapM asPair
    pure <| jarr ((listDuplicates seq).map fun (k, l) => jarr [natList [k.1, k.2], natList l])
  | "hw.s2merge" => some do
    let half ← getNat j "half"
    let B ← (← getArr j "B").mapM asS2
    let miss ← getNatList j "missing"
    match xunitaryS2 half B miss with
    | .ok out => pure <| Json.mkObj [("ok", jarr (out.map jS2))]
    | .error e => pure <| Json.mkObj [("err", Json.str (merrStr e))]
  | "hw.offsets" => some do
    let lay ← (← getArr j "layout").mapM asTCmd
    let seq ← (← getArr j "seq").mapM asTCmd
    match offsetInsert lay seq with
    | none => pure Json.null
    | some (s, f) => pure <| Json.mkObj [("seq", jarr (s.map jTCmd)), ("flags", jarr (f.map Json.bool))]
  | "hw.update" => some do
    let len ← getNat j "len"
    let loops ← (← getArr j "loops").mapM fun e => do
      let a ← e.getArr?
      match a.toList with
      | [o, d, u, ph] => do pure (← asRat o, ← d.getNat?, ← u.getBool?, ← asRatList ph)
      | _ => throw "loop: expected [offset, delay, user, phis]"
    pure <| jarr ((updateParams len loops).map fun l => jarr (l.map jrat))
  | _ => none

end SFV.Drv.HwCompile
