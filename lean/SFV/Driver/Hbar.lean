import SFV.Driver.Json
import SFV.Model.HbarObs
/-! Driver for the hbar layer (C15).  Ops: `hbar.compile` (front-end operations → back-end calls at a given
`s = sqrt(hbar/2)`, optionally after `rescale`), `hbar.result` (returned measurement values),
`hbar.state` (a history of observer calls on a `BaseGaussianState` built from hbar = 2 data),
`hbar.utils` (`utils.states` gaussian-basis coherent state). -/
namespace SFV.Drv.Hbar
open Lean SFV SFV.Drv SFV.Hbar

def getRat (j : Json) (k : String) : R Rat := do asRat (← j.getObjVal? k)

def asRatList (j : Json) : R (List Rat) := do
  let a ← j.getArr?
  a.toList.mapM asRat

def asRatMat (j : Json) : R (List (List Rat)) := do
  let a ← j.getArr?
  a.toList.mapM asRatList

def jrats (l : List Rat) : Json := jarr (l.map jrat)

def parseOp (j : Json) : R (FOp Rat String) := do
  let cls ← getStr j "cls"
  let dg := getBoolD j "dagger" false
  match cls with
  | "dgate" => return .dgate (← getRat j "r") (← getRat j "c") (← getRat j "sn") dg (← getNat j "k")
  | "xgate" => return .xgate (← getRat j "x") dg (← getNat j "k")
  | "zgate" => return .zgate (← getRat j "x") dg (← getNat j "k")
  | "vgate" => return .vgate (← getRat j "x") dg (← getNat j "k")
  | "gaussian" =>
    return .gaussian (← asRatMat (← j.getObjVal? "V")) (← asRatList (← j.getObjVal? "r")) (← getNatList j "modes")
  | "homodyne" =>
    let sel ← match j.getObjVal? "select" with
      | .ok Json.null => pure none
      | .ok v => do pure (some (← asRat v))
      | .error _ => pure none
    return .homodyne (← getRat j "c") (← getRat j "sn") sel (← getNat j "k")
  | "free" => return .free (← getStr j "g")
  | _ => throw s!"hbar: unknown op class {cls}"

def jCall : BCall Rat String → Json
  | .displacement r c sn k => Json.mkObj [("call", "displacement"), ("r", jrat r), ("c", jrat c), ("sn", jrat sn), ("k", jnat k)]
  | .cubicPhase γ k => Json.mkObj [("call", "cubic_phase"), ("gamma", jrat γ), ("k", jnat k)]
  | .prepareGaussian r V modes =>
    Json.mkObj [("call", "prepare_gaussian_state"), ("r", jrats r), ("V", jarr (V.map jrats)), ("modes", natList modes)]
  | .measureHomodyne c sn sel k =>
    Json.mkObj [("call", "measure_homodyne"), ("c", jrat c), ("sn", jrat sn),
      ("select", match sel with | none => Json.null | some v => jrat v), ("k", jnat k)]
  | .free g => Json.mkObj [("call", "free"), ("g", Json.str g)]

def compileOp (j : Json) : R Json := do
  let s ← getRat j "s"
  let ops ← (← getArr j "ops").mapM parseOp
  let ops := if getBoolD j "rescale" false then ops.map (rescale s) else ops
  pure <| jarr ((compileProg s ops).map jCall)

def resultOp (j : Json) : R Json := do
  let s ← getRat j "s"
  let q ← getRat j "q"
  pure <| Json.mkObj [("homodyne", jrat (homodyneResult s q)), ("msgate", jrat (msgateResult s q)),
    ("msgateOld", jrat (msgateResultOld s q))]

def parseCall (j : Json) : R (Call Rat) := do
  let m ← getStr j "m"
  match m with
  | "means" => return .means
  | "cov" => return .cov
  | "reduced" => return .reduced (← getNatList j "modes")
  | "displacement" => return .displacement (← getNat j "mode")
  | "isCoherent" => return .isCoherent (← getNat j "mode") (← getRat j "tol")
  | "isSqueezed" => return .isSqueezed (← getNat j "mode") (← getRat j "tol")
  | "squeezing" => return .squeezing (← getNat j "mode")
  | "meanPhoton" => return .meanPhoton (← getNat j "mode")
  | "quad" => return .quad (← getNat j "mode") (← getRat j "c") (← getRat j "sn")
  | _ => throw s!"hbar.state: unknown call {m}"

def jAns : Ans Rat → Json
  | .nums l => jrats l
  | .bool b => Json.bool b

def stateOp (j : Json) : R Json := do
  let s ← getRat j "s"
  let n ← getNat j "n"
  let mu ← asRatList (← j.getObjVal? "mu2")
  let cov ← asRatMat (← j.getObjVal? "cov2")
  let mua := mu.toArray
  let cova := (cov.map List.toArray).toArray
  let st := mkState s n (fun i => mua.getD i 0) (fun i k => (cova.getD i #[]).getD k 0)
  let calls ← (← getArr j "calls").mapM parseCall
  let stp := if getBoolD j "old" false then stepOld else step
  pure <| jarr ((history stp st calls).map jAns)

def utilsOp (j : Json) : R Json := do
  let s ← getRat j "s"
  let u := utilsCoherent s (← getRat j "re") (← getRat j "im")
  pure <| jrats [u.1.1, u.1.2, u.2]

/-! ### part 2 -/

def bstateOp (j : Json) : R Json := do
  let s ← getRat j "s"
  let n ← getNat j "n"
  let w ← asRatList (← j.getObjVal? "w")
  let mu ← asRatMat (← j.getObjVal? "mu2")
  let covs ← (← getArr j "cov2").mapM asRatMat
  let mua := (mu.map List.toArray).toArray
  let cova := (covs.map fun c => (c.map List.toArray).toArray).toArray
  let st := mkBState s n w (fun i k => (mua.getD i #[]).getD k 0) (fun i a b => ((cova.getD i #[]).getD a #[]).getD b 0)
  let calls ← getArr j "calls"
  let out ← calls.mapM fun c => do
    let m ← getStr c "m"
    let mode ← getNat c "mode"
    match m with
    | "meanPhoton" => pure (jrats [(bMeanPhoton st mode).1, (bMeanPhoton st mode).2])
    | "displacement" => pure (jrats [(bDisplacement st mode).1, (bDisplacement st mode).2])
    | "quad" => do
      let q := bQuad st mode (← getRat c "c") (← getRat c "sn")
      pure (jrats [q.1 / s, q.2 / (s * s)])
    | "redIdx" => pure (natList (bRedIdx (← getNatList c "modes")))
    | _ => throw s!"hbar.bstate: unknown call {m}"
  pure (jarr out)

def fockQuadOp (j : Json) : R Json := do
  let s ← getRat j "s"
  let D ← getNat j "D"
  let sq ← asRatList (← j.getObjVal? "sq")
  let rr ← asRatMat (← j.getObjVal? "re")
  let ri ← asRatMat (← j.getObjVal? "im")
  let sqa := sq.toArray
  let rra := (rr.map List.toArray).toArray
  let ria := (ri.map List.toArray).toArray
  let q := fockQuad s (← getRat j "c") (← getRat j "sn") (fun n => sqa.getD n 0) D
    (fun i k => (rra.getD i #[]).getD k 0) (fun i k => (ria.getD i #[]).getD k 0)
  pure (jrats [q.1, q.2])

def decompOp (j : Json) : R Json := do
  let s ← getRat j "s"
  let r ← asRatList (← j.getObjVal? "r")
  let modes ← getNatList j "modes"
  pure <| jarr ((compileProg s (gaussianDecompDisp (G := String) r modes)).map jCall)

def compileAtOp (j : Json) : R Json := do
  let sb ← getRat j "sBuild"
  let s ← getRat j "s"
  let ops ← (← getArr j "ops").mapM parseOp
  pure <| jarr ((ops.flatMap (compileAt sb s)).map jCall)

def pureOp (j : Json) : R Json := do
  let s ← getRat j "s"
  let tol ← getRat j "tol"
  let V ← asRatMat (← j.getObjVal? "V")
  pure <| Json.mkObj [("normalised", Json.bool (pureNormalised detL tol s V)),
    ("unnormalised", Json.bool (pureUnnormalised detL tol s V)), ("det", jrat (detL (normMat (s * s) V)))]

def handler (op : String) (j : Json) : Option (R Json) :=
  match op with
  | "hbar.pure" => some (pureOp j)
  | "hbar.compile" => some (compileOp j)
  | "hbar.result" => some (resultOp j)
  | "hbar.state" => some (stateOp j)
  | "hbar.utils" => some (utilsOp j)
  | "hbar.bstate" => some (bstateOp j)
  | "hbar.fockquad" => some (fockQuadOp j)
  | "hbar.decomp" => some (decompOp j)
  | "hbar.compileAt" => some (compileAtOp j)
  | _ => none

end SFV.Drv.Hbar
