import SFV.Driver.Json
import SFV.Model.FockTensor
import SFV.Model.PhaseSpace
import SFV.Model.Bosonic
import SFV.Model.FockPrep
import SFV.Model.GaussBackend
import SFV.Model.FockLoss
import SFV.Model.BosonicState
/-! Driver for K3 (Gaussian simulator model over `Rat`) and K4 (Fock tensor index algebra over
Gaussian integers).  Ops: `fock.apply`, `gauss.run`. -/
namespace SFV.Drv.Sim
open Lean SFV SFV.Drv SFV.Fock SFV.Gauss

/-! ### Fock -/

def asGInt (j : Json) : R GInt := do
  let a ← j.getArr?
  match a.toList with
  | [p, q] => do pure ⟨(← p.getInt?), (← q.getInt?)⟩
  | _ => throw "gint: expected [re, im]"

def jGInt (z : GInt) : Json := jarr [jint z.re, jint z.im]

/-- flat C-order array of a rank-`r` tensor with cutoff `D` → tensor function -/
def tensOfArray (D r : Nat) (a : Array GInt) : Tens GInt := fun idx =>
  let pos := (List.range r).foldl (fun acc ax => acc * D + idx ax) 0
  a.getD pos 0

/-- all index assignments of rank `r` in C order -/
def allIdx (D : Nat) : Nat → List (List Nat)
  | 0 => [[]]
  | r + 1 => (allIdx D r).flatMap fun pre => (List.range D).map fun v => pre ++ [v]

def arrayOfTens (D r : Nat) (ψ : Tens GInt) : List GInt :=
  (allIdx D r).map fun l => ψ (fun a => l.getD a 0)

def mat2 (D : Nat) (a : Array GInt) : Nat → Nat → GInt := fun o i => a.getD (o * D + i) 0
def mat4 (D : Nat) (a : Array GInt) : Nat → Nat → Nat → Nat → GInt :=
  fun o1 i1 o2 i2 => a.getD (((o1 * D + i1) * D + o2) * D + i2) 0

def getGArr (j : Json) (k : String) : R (Array GInt) := do
  let a ← getArr j k
  let l ← a.mapM asGInt
  pure l.toArray

def fockApply (j : Json) : R Json := do
  let kind ← getStr j "kind"
  let D ← getNat j "D"
  let n ← getNat j "n"
  let modes ← getNatList j "modes"
  let st ← getGArr j "state"
  let m ← getGArr j "mat"
  let mc := m.map GInt.conj
  let kernelName := (getStr j "kernel").toOption.getD "full"
  let kern (a : Array GInt) : Tens GInt → Tens GInt :=
    match kernelName with
    | "passive" => passiveKernel D (mat4 D a)
    | "s2" => s2Kernel D (mat4 D a)
    | _ => applyAt2 D (mat4 D a) 0 1
  match kind, modes with
  | "twoModePure", [t1, t2] =>
    pure <| jarr ((arrayOfTens D n (twoModePure (kern m) t1 t2 (tensOfArray D n st))).map jGInt)
  | "twoModePureOld", [t1, t2] =>
    pure <| jarr ((arrayOfTens D n (twoModePureOld (kern m) t1 t2 (tensOfArray D n st))).map jGInt)
  | "twoModeMixed", [m1, m2] =>
    pure <| jarr ((arrayOfTens D (2 * n) (twoModeMixed (kern m) (kern mc) m1 m2 (tensOfArray D (2 * n) st))).map jGInt)
  | "blasPure", [m1] =>
    pure <| jarr ((arrayOfTens D n (blasPure1 D n (mat2 D m) m1 (tensOfArray D n st))).map jGInt)
  | "blasPure", [m1, m2] =>
    pure <| jarr ((arrayOfTens D n (blasPure2 D n (mat4 D m) m1 m2 (tensOfArray D n st))).map jGInt)
  | "blasMixed", [m1] =>
    pure <| jarr ((arrayOfTens D (2 * n) (blasMixed1 D n (mat2 D m) (mat2 D mc) m1 (tensOfArray D (2 * n) st))).map jGInt)
  | "blasMixed", [m1, m2] =>
    pure <| jarr ((arrayOfTens D (2 * n) (blasMixed2 D n (mat4 D m) (mat4 D mc) m1 m2 (tensOfArray D (2 * n) st))).map jGInt)
  | "spec1Pure", [m1] =>
    pure <| jarr ((arrayOfTens D n (applyAt1 D (mat2 D m) m1 (tensOfArray D n st))).map jGInt)
  | "spec2Pure", [m1, m2] =>
    pure <| jarr ((arrayOfTens D n (applyAt2 D (mat4 D m) m1 m2 (tensOfArray D n st))).map jGInt)
  | "spec2Mixed", [m1, m2] =>
    pure <| jarr ((arrayOfTens D (2 * n) (applyAt2 D (mat4 D mc) (2 * m1 + 1) (2 * m2 + 1)
      (applyAt2 D (mat4 D m) (2 * m1) (2 * m2) (tensOfArray D (2 * n) st)))).map jGInt)
  | "mix", _ =>
    pure <| jarr ((arrayOfTens D (2 * n) (mix GInt.conj (tensOfArray D n st))).map jGInt)
  | "partialTrace", ms =>
    pure <| jarr ((arrayOfTens D (2 * (n - ms.eraseDups.length))
      (partialTrace D n ms (tensOfArray D (2 * n) st))).map jGInt)
  | "projectResetPure", ms => do
    let xs ← getNatList j "xs"
    pure <| jarr ((arrayOfTens D n (projectResetPure ms xs (tensOfArray D n st))).map jGInt)
  | "projectResetMixed", ms => do
    let xs ← getNatList j "xs"
    pure <| jarr ((arrayOfTens D (2 * n) (projectResetMixed ms xs (tensOfArray D (2 * n) st))).map jGInt)
  | "prepareAll", ms => do
    let isPure := getBoolD j "pure" true
    let r := if isPure then n else 2 * n
    pure <| jarr ((arrayOfTens D r (prepareAll isPure n ms (tensOfArray D r st))).map jGInt)
  | "prepareSome", ms => do
    -- `state` = old mixed register state (rank 2n), `mat` = the prepared density matrix (rank 2k, interleaved)
    let σ := tensOfArray D (2 * ms.length) m
    pure <| jarr ((arrayOfTens D (2 * n) (prepareSome D n ms σ (tensOfArray D (2 * n) st))).map jGInt)
  | "dealloc", ms => do
    let isPure := getBoolD j "pure" true
    let r := if isPure then n else 2 * n
    pure <| jarr ((arrayOfTens D (2 * (n - ms.eraseDups.length))
      (dealloc GInt.conj D n isPure ms (tensOfArray D r st))).map jGInt)
  | "alloc", ms => do
    let isPure := getBoolD j "pure" true
    let k := ms.length
    let r := if isPure then n else 2 * n
    let r' := if isPure then n + k else 2 * (n + k)
    pure <| jarr ((arrayOfTens D r' (allocVac isPure n k (tensOfArray D r st))).map jGInt)
  | "channel1", [m1] => do
    -- `mat` holds the Kraus operators one after the other (each D×D)
    let nk := m.size / (D * D)
    let ks := (List.range nk).map fun t =>
      let a := (m.extract (t * D * D) ((t + 1) * D * D))
      (mat2 D a, mat2 D (a.map GInt.conj))
    pure <| jarr ((arrayOfTens D (2 * n) (applyChannel1 D ks m1 (tensOfArray D (2 * n) st))).map jGInt)
  | "axisLists", ms =>
    pure <| Json.mkObj [("pure", natList (blasList n ms)), ("mixed", natList (blasListMixed n ms)),
      ("purePerm", Json.bool (isPermList (blasList n ms) n)),
      ("mixedPerm", Json.bool (isPermList (blasListMixed n ms) (2 * n)))]
  | _, _ => throw s!"fock.apply: unknown kind {kind}"

/-! ### Gaussian -/

def asCx (j : Json) : R (Cx Rat) := do
  let a ← j.getArr?
  match a.toList with
  | [p, q] => do pure ⟨(← asRat p), (← asRat q)⟩
  | _ => throw "cx: expected [re, im]"

def jCx (z : Cx Rat) : Json := jarr [jrat z.re, jrat z.im]

def asCxMat (j : Json) : R (Array (Array (Cx Rat))) := do
  let rows ← j.getArr?
  rows.mapM fun r => do
    let cs ← r.getArr?
    cs.mapM asCx

def asRatMat' (j : Json) : R (Array (Array Rat)) := do
  let rows ← j.getArr?
  rows.mapM fun r => do
    let cs ← r.getArr?
    cs.mapM asRat

/-- memoise a state into arrays (so that closures do not nest across operations) -/
def memo (st : GS Rat) : GS Rat :=
  let n := st.n
  let N := (Array.range n).map fun i => (Array.range n).map fun j => st.N i j
  let M := (Array.range n).map fun i => (Array.range n).map fun j => st.M i j
  let mu := (Array.range n).map fun i => st.mean i
  { n := n
    N := fun i j => (N.getD i #[]).getD j 0
    M := fun i j => (M.getD i #[]).getD j 0
    mean := fun i => mu.getD i 0 }

def getRat (j : Json) (k : String) : R Rat := do asRat (← j.getObjVal? k)

def gaussStep (st : GS Rat) (j : Json) : R (GS Rat) := do
  let op ← getStr j "op"
  let rat (k : String) : R Rat := getRat j k
  let nat (k : String) : R Nat := getNat j k
  if op == "squeeze" then
    return squeeze st (← rat "c") (← rat "s") (← rat "ch") (← rat "sh") (← nat "k")
  else if op == "phase" then
    return phaseShift st (← rat "c") (← rat "s") (← nat "k")
  else if op == "bs" then
    return beamsplitter st (← rat "c") (← rat "s") (← rat "ct") (← rat "sn") (← nat "k") (← nat "l")
  else if op == "displace" then
    return displace st ⟨(← rat "re"), (← rat "im")⟩ (← nat "k")
  else if op == "loss" then
    return loss st (← rat "q") (← nat "k")
  else if op == "thermalLoss" then
    return thermalLoss st (← rat "q") (← rat "add") (← nat "k")
  else if op == "thermalLossOld" then
    return thermalLossOld st (← rat "q") (← rat "add") (← nat "k")
  else if op == "initThermal" then
    return initThermal st (← rat "pop") (← nat "k")
  else if op == "addMode" then
    return addMode st (← nat "m")
  else if op == "bkbs" then
    return bkBeamsplitter st (← rat "c") (← rat "s") (← rat "ct") (← rat "sn") (← nat "k") (← nat "l")
  else if op == "bkcoh" then
    return bkPrepareCoherent st ⟨(← rat "re"), (← rat "im")⟩ (← nat "k")
  else if op == "bksq" then
    return bkPrepareSqueezed st (← rat "c") (← rat "s") (← rat "ch") (← rat "sh") (← nat "k")
  else if op == "bkdsq" then
    return bkPrepareDisplacedSqueezed st ⟨(← rat "re"), (← rat "im")⟩ (← rat "c") (← rat "s") (← rat "ch") (← rat "sh") (← nat "k")
  else if op == "fromCov" then
    let modes ← getNatList j "modes"
    let A ← asRatMat' (← j.getObjVal? "A")
    let B ← asRatMat' (← j.getObjVal? "B")
    let C ← asRatMat' (← j.getObjVal? "C")
    let rx ← (← getArr j "rx").mapM asRat
    let rp ← (← getArr j "rp").mapM asRat
    let rxa := rx.toArray
    let rpa := rp.toArray
    let f (a : Array (Array Rat)) : Nat → Nat → Rat := fun i k => (a.getD i #[]).getD k 0
    return fromCov st (1/4) (1/2) modes (f A) (f B) (f C) (fun i => rxa.getD i 0) (fun i => rpa.getD i 0)
  else if op == "applyU" then
    let modes ← getNatList j "modes"
    let T ← asCxMat (← j.getObjVal? "T")
    return applyU st (expandT modes fun i k => (T.getD i #[]).getD k 0)
  else throw s!"gauss: unknown op {op}"

/-- the same step on the specification side -/
def xpStep (V : XP Rat) (j : Json) : R (XP Rat) := do
  let op ← getStr j "op"
  let rat (k : String) : R Rat := getRat j k
  let nat (k : String) : R Nat := getNat j k
  if op == "squeeze" then
    return linMap (squeezeRows (← nat "k") (← rat "c") (← rat "s") (← rat "ch") (← rat "sh")) V
  else if op == "phase" then
    return linMap (rotRows (← nat "k") (← rat "c") (← rat "s")) V
  else if op == "bs" then
    return linMap (bsRows (← nat "k") (← nat "l") (← rat "c") (← rat "s") (← rat "ct") (← rat "sn")) V
  else if op == "bkbs" then
    return linMap (sfBsRows (← nat "k") (← nat "l") (← rat "c") (← rat "s") (← rat "ct") (← rat "sn")) V
  else if op == "displace" then
    let re ← rat "re"
    let im ← rat "im"
    return shift V (← nat "k") (re + re) (im + im)
  else if op == "loss" then
    let q ← rat "q"
    let k ← nat "k"
    return addNoise (linMap (lossRows k q) V) k (1 - q * q)
  else if op == "thermalLoss" then
    let q ← rat "q"
    let add ← rat "add"
    let k ← nat "k"
    return addNoise (linMap (lossRows k q) V) k (1 - q * q + (add + add))
  else if op == "initThermal" then
    let pop ← rat "pop"
    let k ← nat "k"
    return addNoise (linMap (lossRows k 0) V) k (1 + (pop + pop))
  else throw s!"xp: unknown op {op}"

def memoXP (n : Nat) (V : XP Rat) : XP Rat :=
  let tab (f : Nat → Nat → Rat) := (Array.range n).map fun i => (Array.range n).map fun j => f i j
  let xx := tab V.xx
  let xp := tab V.xp
  let pp := tab V.pp
  let mx := (Array.range n).map V.mx
  let mp := (Array.range n).map V.mp
  { xx := fun i j => (xx.getD i #[]).getD j 0, xp := fun i j => (xp.getD i #[]).getD j 0,
    pp := fun i j => (pp.getD i #[]).getD j 0, mx := fun i => mx.getD i 0, mp := fun i => mp.getD i 0 }

def gaussRun (j : Json) : R Json := do
  let n ← getNat j "n"
  let N ← asCxMat (← j.getObjVal? "N")
  let M ← asCxMat (← j.getObjVal? "M")
  let mu ← (← getArr j "mean").mapM asCx
  let mua := mu.toArray
  let st0 : GS Rat := { n := n, N := fun i j => (N.getD i #[]).getD j 0, M := fun i j => (M.getD i #[]).getD j 0,
                        mean := fun i => mua.getD i 0 }
  let ops ← getArr j "ops"
  let mut st := st0
  let mut V := memoXP n (toXP st0)
  let withSpec := getBoolD j "spec" false
  for o in ops do
    let nOld := st.n
    st := memo (← gaussStep st o)
    if withSpec then
      if (← getStr o "op") == "addMode" then
        V := memoXP st.n (addVacuum V nOld)
      else
        V := memoXP st.n (← xpStep V o)
  let n' := st.n
  let rng := List.range n'
  let mat (f : Nat → Nat → Cx Rat) := jarr (rng.map fun i => jarr (rng.map fun k => jCx (f i k)))
  let rmat (f : Nat → Nat → Rat) := jarr (rng.map fun i => jarr (rng.map fun k => jrat (f i k)))
  let V' := toXP st
  let base := [("n", jnat n'), ("N", mat st.N), ("M", mat st.M), ("mean", jarr (rng.map fun i => jCx (st.mean i))),
    ("xx", rmat V'.xx), ("xp", rmat V'.xp), ("pp", rmat V'.pp),
    ("mx", jarr (rng.map fun i => jrat (V'.mx i))), ("mp", jarr (rng.map fun i => jrat (V'.mp i)))]
  let specAgree := if withSpec then
      [("specAgrees", Json.bool ((rng.all fun i => rng.all fun k =>
        V.xx i k == V'.xx i k && V.xp i k == V'.xp i k && V.pp i k == V'.pp i k) &&
        (rng.all fun i => V.mx i == V'.mx i && V.mp i == V'.mp i)))]
    else []
  pure <| Json.mkObj (base ++ specAgree)

/-! ### bosonic index algebra -/

def asRatMat (j : Json) : R (Array (Array Rat)) := do
  let rows ← j.getArr?
  rows.mapM fun r => do
    let cs ← r.getArr?
    cs.mapM asRat

def matFn (a : Array (Array Rat)) : Nat → Nat → Rat := fun i k => (a.getD i #[]).getD k 0

def bosApply (j : Json) : R Json := do
  let n ← getNat j "n"
  let modes ← getNatList j "modes"
  let X ← asRatMat (← j.getObjVal? "X")
  let Y ← asRatMat (← j.getObjVal? "Y")
  let V ← asRatMat (← j.getObjVal? "V")
  let mu ← (← getArr j "mu").mapM asRat
  let mua := mu.toArray
  let X2 := Bos.expand n modes (matFn X)
  let Y2 := Bos.expandY n modes (matFn Y)
  let rng := List.range (2 * n)
  let mu' := Bos.updateMeans n X2 (fun i => mua.getD i 0)
  let V' := Bos.updateCovs n X2 Y2 (matFn V)
  pure <| Json.mkObj [
    ("fromXp", natList (rng.map (Bos.fromXp n))), ("toXp", natList (rng.map (Bos.toXp n))),
    ("X2", jarr (rng.map fun r => jarr (rng.map fun c => jrat (X2 r c)))),
    ("Y2", jarr (rng.map fun r => jarr (rng.map fun c => jrat (Y2 r c)))),
    ("mu", jarr (rng.map fun r => jrat (mu' r))),
    ("V", jarr (rng.map fun r => jarr (rng.map fun c => jrat (V' r c))))]

/-- `ops.lossChannel(T, D)`: number of Kraus operators and the squared band amplitudes `|E(k)[n−k, n]|²` -/
def fockLossSq (j : Json) : R Json := do
  let D ← getNat j "D"
  let T ← getRat j "T"
  let rng := List.range D
  pure <| Json.mkObj [("count", jnat (lossKrausList (fun _ _ => (0 : Rat)) D).length),
    ("sq", jarr (rng.map fun k => jarr (rng.map fun n => jrat (lossSq T k n))))]

/-- `BosonicBackend.prepare_cat(…, 'complex', …)`: weights, means, covariances of the four components -/
def bosCat (j : Json) : R Json := do
  let st := SFV.BosSt.catComplex (← getRat j "hb2") (← getRat j "s") (← getRat j "ar") (← getRat j "ai")
    ⟨(← getRat j "cre"), (← getRat j "cim")⟩
  let ks := List.range st.N
  pure <| Json.mkObj [
    ("w", jarr (ks.map fun k => jCx (st.comp k).w)),
    ("mu", jarr (ks.map fun k => jarr ((List.range 2).map fun i => jCx ((st.comp k).mu i)))),
    ("cov", jarr (ks.map fun k => jarr ((List.range 2).map fun i => jarr ((List.range 2).map fun l => jCx ((st.comp k).cov i l)))))]

def handler (op : String) (j : Json) : Option (R Json) :=
  match op with
  | "bos.cat" => some (bosCat j)
  | "fock.lossSq" => some (fockLossSq j)
  | "fock.apply" => some (fockApply j)
  | "gauss.run" => some (gaussRun j)
  | "bos.apply" => some (bosApply j)
  | _ => none

end SFV.Drv.Sim
