import SFV.Driver.Json
import SFV.Driver.K1
import SFV.Model.GaussCompile
import SFV.Model.GaussBlocks
/-! Driver ops of the C11 model: `gc.gu`, `gc.passive`, `gc.expand`, `gc.checkMerge`. -/
namespace SFV.Drv.GaussCompile
open Lean SFV SFV.Drv SFV.GC SFV.Gauss

instance : One (Cx Rat) := ⟨⟨1, 0⟩⟩

def matOf {K : Type} [Zero K] (rows : List (List K)) : Mat K := fun i j => (rows.getD i []).getD j 0

def asRatMat (j : Json) : R (Mat Rat) := do
  let a ← j.getArr?
  let rows ← a.toList.mapM fun r => do
    let r ← r.getArr?
    r.toList.mapM asRat
  pure (matOf rows)

def asCx (j : Json) : R (Cx Rat) := do
  let a ← j.getArr?
  match a.toList with
  | [re, im] => do pure ⟨← asRat re, ← asRat im⟩
  | _ => throw "cx: expected [re, im]"

def asCxMat (j : Json) : R (Mat (Cx Rat)) := do
  let a ← j.getArr?
  let rows ← a.toList.mapM fun r => do
    let r ← r.getArr?
    r.toList.mapM asCx
  pure (matOf rows)

def jcx (z : Cx Rat) : Json := jarr [jrat z.re, jrat z.im]

def getRats (j : Json) (k : String) : R (List Rat) := do
  (← getArr j k).mapM asRat

/-- a gate given by its class name and atoms: `gc.gu` / `gc.passive` commands with `"op": "gate"` -/
def asGate (name : String) (a : List Rat) : R (Gate Rat) :=
  match name, a with
  | "D", [ar, ai] => pure (.D ar ai)
  | "R", [c, s] => pure (.R c s)
  | "S", [c, s, ch, sh] => pure (.S c s ch sh)
  | "BS", [ct, st, c, s] => pure (.BS ct st c s)
  | "S2", [c, s, ch, sh] => pure (.S2 c s ch sh)
  | "MZ", [h, cv, sv, cu, su] => pure (.MZ h ⟨cv, sv⟩ ⟨cu, su⟩)
  | "sMZ", [ce, se, cd, sd] => pure (.sMZ ⟨ce, se⟩ cd sd)
  | n, _ => throw s!"unknown gate {n} / wrong number of atoms"

def asPGate (name : String) (a : List Rat) : R (PGate Rat) :=
  match name, a with
  | "R", [c, s] => pure (.R c s)
  | "Loss", [q] => pure (.Loss q)
  | "BS", [ct, st, c, s] => pure (.BS ct st c s)
  | "MZ", [h, cv, sv, cu, su] => pure (.MZ h ⟨cv, sv⟩ ⟨cu, su⟩)
  | "sMZ", [ce, se, cd, sd] => pure (.sMZ ⟨ce, se⟩ cd sd)
  | n, _ => throw s!"unknown passive gate {n} / wrong number of atoms"

def asGCmd (j : Json) : R (GCmd Rat) := do
  let regs ← getNatList j "regs"
  let dagger := getBoolD j "dagger" false
  let kind ← getStr j "op"
  if kind == "gate" then
    let g ← asGate (← getStr j "name") (← getRats j "a")
    return g.cmd regs dagger
  let op ← match kind with
    | "disp" => do pure (GOp.disp (← asRat (← j.getObjVal? "dx")) (← asRat (← j.getObjVal? "dp")))
    | "blk1" => do pure (GOp.blk1 (← asRatMat (← j.getObjVal? "g")) (← asRatMat (← j.getObjVal? "gi")))
    | "blk2" => do pure (GOp.blk2 (← asRatMat (← j.getObjVal? "g")) (← asRatMat (← j.getObjVal? "gi")))
    | "blkN" => do pure (GOp.blkN (← asRatMat (← j.getObjVal? "g")))
    | "skip" => pure GOp.skip
    | k => throw s!"unknown gu op {k}"
  pure { regs := regs, dagger := dagger, op := op }

def asPCmd (j : Json) : R (PCmd (Cx Rat)) := do
  let regs ← getNatList j "regs"
  let dagger := getBoolD j "dagger" false
  let kind ← getStr j "op"
  if kind == "gate" then
    let g ← asPGate (← getStr j "name") (← getRats j "a")
    return g.cmd regs dagger
  let op ← match kind with
    | "one" => do pure (POp.one (← asCx (← j.getObjVal? "g")) (← asCx (← j.getObjVal? "gi")))
    | "two" => do pure (POp.two (← asCxMat (← j.getObjVal? "g")) (← asCxMat (← j.getObjVal? "gi")))
    | "many" => do pure (POp.many (← asCxMat (← j.getObjVal? "g")))
    | "skip" => pure POp.skip
    | k => throw s!"unknown passive op {k}"
  pure { regs := regs, dagger := dagger, op := op }

def asBlock (j : Json) : R MergeBlock := do
  pure { members := ← getNatList j "members", emitted := ← getNatList j "emitted" }

def asSeg (j : Json) : R Seg := do
  match j.getObjVal? "keep" with
  | .ok v => do pure (.keep (← v.getNat?))
  | .error _ => do pure (.block (← getNat j "block"))

def handler (op : String) (j : Json) : Option (R Json) :=
  match op with
  | "gc.gu" => some do
    let regs ← getNatList j "registers"
    let cmds ← (← getArr j "cmds").mapM asGCmd
    let out := compileGUFast regs cmds
    let m := 2 * out.n
    pure <| Json.mkObj [("n", jnat out.n), ("regs", natList out.regs),
      ("S", jarr ((List.range m).map fun i => jarr ((List.range m).map fun k => jrat (out.S i k)))),
      ("r", jarr ((List.range m).map fun i => jrat (out.r i))),
      ("hasGT", Json.bool out.hasGT),
      ("dgates", jarr (out.dgates.map fun e => jarr [jnat e.1, jrat e.2.1, jrat e.2.2]))]
  | "gc.passive" => some do
    let regs ← getNatList j "registers"
    let cmds ← (← getArr j "cmds").mapM asPCmd
    let out := compilePFast regs cmds
    pure <| Json.mkObj [("n", jnat out.n), ("regs", natList out.regs),
      ("T", jarr ((List.range out.n).map fun i => jarr ((List.range out.n).map fun k => jcx (out.T i k))))]
  | "gc.expand" => some do
    let g ← asRatMat (← j.getObjVal? "g")
    let w ← getNatList j "w"
    let n ← getNat j "N"
    let E : Mat Rat := embedRows (xpRows w n) g
    pure <| jarr ((List.range (2 * n)).map fun i => jarr ((List.range (2 * n)).map fun k => jrat (E i k)))
  | "gc.embed" => some do
    let g ← asRatMat (← j.getObjVal? "g")
    let w ← getNatList j "w"
    let n ← getNat j "N"
    let E : Mat Rat := embedRows w g
    pure <| jarr ((List.range n).map fun i => jarr ((List.range n).map fun k => jrat (E i k)))
  | "gc.surgery" => some do
    let l ← K1.getCmds j "l"
    let ms ← K1.byIds l (← getNatList j "ms")
    let es ← K1.getCmds j "emitted"
    let edges := match es with
      | [] => surgeryEdgesNil l ms
      | g :: ds => surgeryEdges l ms g ds
    pure <| jarr (edges.map fun e => jarr [jnat e.1.id, jnat e.2.id])
  | "gc.checkMerge" => some do
    let src ← K1.getCmds j "src"
    let out ← K1.getCmds j "out"
    let blocks ← (← getArr j "blocks").mapM asBlock
    let segs ← (← getArr j "segs").mapM asSeg
    pure <| Json.bool (checkMerge src out blocks segs)
  | _ => none

end SFV.Drv.GaussCompile
