import SFV.Driver.Json
import SFV.Model.Tdm
import SFV.Model.TdmNames
namespace SFV.Drv.Tdm
open Lean SFV SFV.Drv SFV.Tdm

def asPar (j : Json) : R TPar :=
  match j with
  | Json.str s => match (s.drop 1).toNat? with
    | some i => pure (.var i)
    | none => throw s!"bad loop variable {s}"
  | _ => do pure (.const (← j.getInt?))

def asCmd (j : Json) : R TCmd := do
  let cls ← getStr j "cls"
  let regs ← getNatList j "regs"
  let pars ← (← getArr j "pars").mapM asPar
  let sel ← match j.getObjVal? "s" with
    | .ok Json.null => pure none
    | .ok v => do pure (some (← v.getInt?))
    | .error _ => pure none
  pure { cls := cls, regs := regs, pars := pars, meas := getBoolD j "meas" false,
         dagger := getBoolD j "d" false, sel := sel }

def getCmds (j : Json) (k : String) : R (List TCmd) := do (← getArr j k).mapM asCmd

def asShift (j : Json) : R Shift :=
  match j with
  | Json.str "default" => pure .default
  | Json.str _ => pure .other
  | _ => do pure (.int (← j.getInt?))

def asCfg (j : Json) : R Cfg := do
  let N ← getNatList j "N"
  let shift ← asShift (← j.getObjVal? "shift")
  let T ← getNat j "T"
  let params ← (← getArr j "params").mapM asIntList
  pure { N := N, shift := shift, timebins := T, params := params }

def jpar : TPar → Json
  | .const v => jint v
  | .var i => Json.str s!"p{i}"

def jcmd (c : TCmd) : Json :=
  Json.mkObj [("cls", Json.str c.cls), ("regs", natList c.regs), ("pars", jarr (c.pars.map jpar)),
    ("d", Json.bool c.dagger), ("s", match c.sel with | some v => jint v | none => Json.null)]

def jcirc (l : List TCmd) : Json := jarr (l.map jcmd)

def jopt {α : Type} (f : α → Json) : Option α → Json
  | some a => f a
  | none => Json.null

def jst (s : St) : Json :=
  Json.mkObj [("circuit", jcirc s.circuit), ("rolled", jcirc s.rolled),
    ("unrolled", jopt jcirc s.unrolled), ("space", jopt jcirc s.spaceUnrolled),
    ("shots", jopt jnat s.shots), ("added", jint s.numAdded), ("init", jint s.initNum),
    ("refs", jarr (s.regRefs.map fun r => jarr [jnat r.1, Json.bool r.2])),
    ("locked", Json.bool s.locked)]

def asEv (j : Json) : R Ev := do
  let k ← getStr j "ev"
  match k with
  | "unroll" => do pure (.unroll (← getNat j "shots"))
  | "space_unroll" => do pure (.spaceUnroll (← getNat j "shots"))
  | "roll" => pure .roll
  | "lock" => pure .lock
  | "run" => do
    let sh ← match j.getObjVal? "shots" with
      | .ok Json.null => pure none
      | .ok v => do pure (some (← v.getNat?))
      | .error _ => pure (some 1)
    pure (.run sh (getBoolD j "space" false) (getBoolD j "crop" false))
  | _ => throw s!"unknown event {k}"

def jsamples (d : List (Nat × List (List Int))) : Json :=
  jarr (d.map fun kv => jarr [jnat kv.1, jarr (kv.2.map intList)])

/-- run a history, reporting the state after every event and what the event returned -/
def history (cfg : Cfg) : St → List Ev → List Json
  | _, [] => []
  | s, e :: es =>
    let (s', out) : St × Json := match e with
      | .unroll k =>
        let r := s.unroll cfg k
        (r.1, Json.str (match r.2 with | .ok => "ok" | .valueError => "ValueError"))
      | .run sh sp cr =>
        let r := s.run cfg sh sp cr
        (r.1, Json.mkObj [("executed", jcirc r.2.executed), ("backendModes", jint r.2.backendModes),
          ("stateModes", jopt (fun p : Nat × Nat => natList [p.1, p.2]) r.2.stateModes),
          ("samples", jopt jsamples r.2.samples)])
      | e => (s.step cfg e, Json.str "ok")
    Json.mkObj [("out", out), ("st", jst s')] :: history cfg s' es

def asSamples (j : Json) : R (List (Nat × List Int)) := do
  let a ← j.getArr?
  a.toList.mapM fun x => do
    let p ← x.getArr?
    match p.toList with
    | [m, l] => do pure ((← m.getNat?), (← asIntList l))
    | _ => throw "samples entry"

def handler (op : String) (j : Json) : Option (R Json) :=
  match op with
  | "tdm.shiftBy" => some do
    let l ← getNatList j "l"
    let n ← getInt j "n"
    pure <| natList (shiftBy l n)
  | "tdm.shiftBands" => some do
    pure <| natList (shiftBands (← getNatList j "N") (← getNatList j "l"))
  | "tdm.unroll" => some do
    let cfg ← asCfg j
    let rolled ← getCmds j "rolled"
    pure <| jcirc (unrollProgram cfg (← getBool j "space") rolled (← getNat j "shots") (← getNatList j "q"))
  | "tdm.history" => some do
    let cfg ← asCfg j
    let prog ← getCmds j "rolled"
    let evs ← (← getArr j "evs").mapM asEv
    pure <| jarr (history cfg (St.init cfg prog) evs)
  | "tdm.modeOrder" => some do
    pure <| natList (getModeOrder (← getNat j "num") (← getNatList j "modes") (← getNatList j "N"))
  | "tdm.reshape" => some do
    let samples ← asSamples (← j.getObjVal? "samples")
    let modes ← getNatList j "modes"
    let N ← getNatList j "N"
    let T ← getNat j "T"
    let out := match getNatList j "order" with
      | .ok order => reshapeWith samples modes N.length T order
      | .error _ => reshapeSamples samples modes N T
    pure <| jsamples out
  | "tdm.parameters" => some do
    let cfg ← asCfg j
    let look ← match getArr j "lookups" with
      | .ok a => a.mapM fun x => do
          let name ← getStr x "name"
          let t ← getNat x "t"
          pure (jopt jint (resolveNamed cfg t name))
      | .error _ => pure []
    pure <| Json.mkObj [("dict", jarr ((parametersDict cfg).map fun kv => jarr [Json.str kv.1, intList kv.2])),
      ("lookups", jarr look)]
  | "tdm.measOrder" => some do
    let rolled ← getCmds j "rolled"
    let circ ← getCmds j "circ"
    pure <| Json.mkObj [("order", natList (measOrder rolled circ)),
      ("modes", natList (measuredModes rolled)), ("rank", natList (rankOf (measuredRegs rolled)))]
  | "tdm.crop" => some do
    let cfg ← asCfg j
    let rolled ← getCmds j "rolled"
    let d := getDelays (bsPairs rolled)
    pure <| Json.mkObj [("delays", jopt natList d),
      ("crop", jnat (Tdm.cropValue (bsAlphas cfg rolled) (d.getD [])))]
  | "tdm.pad" => some do
    let alphas ← (← getArr j "alphas").mapM asIntList
    let delays ← getNatList j "delays"
    pure <| Json.mkObj [("crop", jnat (padCrop alphas delays)),
      ("padded", jarr ((padded alphas delays).map intList)),
      ("prologues", natList (prologues 0 alphas delays)),
      ("cropOfPadded", jnat (Tdm.cropValue (padded alphas delays) delays))]
  | _ => none

end SFV.Drv.Tdm
