import SFV.Driver.Json
import SFV.Driver.Sim
import SFV.Model.Measure
import SFV.Model.MeasureSample
/-! Driver for the measurement model (C06).  Ops `meas.*`; rationals travel as `[num, den]`. -/
namespace SFV.Drv.Measure
open Lean SFV SFV.Drv SFV.Drv.Sim SFV.Meas SFV.Gauss

def asRatMat (j : Json) : R (Array (Array Rat)) := do
  let rows ← j.getArr?
  rows.mapM fun r => do
    let cs ← r.getArr?
    cs.mapM asRat

def asRatVec (j : Json) : R (Array Rat) := do
  let a ← j.getArr?
  a.mapM asRat

def matOf (a : Array (Array Rat)) : Mat Rat := fun i j => (a.getD i #[]).getD j 0
def vecOf (a : Array Rat) : Vec Rat := fun i => a.getD i 0
def jmat (r c : Nat) (f : Mat Rat) : Json :=
  jarr ((List.range r).map fun i => jarr ((List.range c).map fun k => jrat (f i k)))
def jvec (r : Nat) (f : Vec Rat) : Json := jarr ((List.range r).map fun i => jrat (f i))

def getMat (j : Json) (k : String) : R (Array (Array Rat)) := do asRatMat (← j.getObjVal? k)
def getVec (j : Json) (k : String) : R (Array Rat) := do asRatVec (← j.getObjVal? k)

/-- memoise a matrix of known size -/
def memoM (r c : Nat) (f : Mat Rat) : Mat Rat :=
  let a := (Array.range r).map fun i => (Array.range c).map fun k => f i k
  matOf a

/-- check `W (C+σ) = 1` on the `k × k` block (the hypothesis of the theorems) -/
def isLeftInv (k : Nat) (W S : Mat Rat) : Bool :=
  (List.range k).all fun a => (List.range k).all fun b =>
    (Fock.sumTo k fun c => W a c * S c b) == (if a = b then 1 else 0)

/-- inverse to use: the `W` of the request if present, else the explicit 2×2 inverse -/
def pickW (j : Json) (k : Nat) (S : Mat Rat) : R (Mat Rat) := do
  match j.getObjVal? "W" with
  | .ok w =>
    let W := matOf (← asRatMat w)
    if isLeftInv k W S then pure W else throw "W is not the inverse of C + covmat"
  | .error _ =>
    if k = 2 then
      if S 0 0 * S 1 1 - S 0 1 * S 1 0 == 0 then throw "singular C + covmat" else pure (memoM 2 2 (inv2 S))
    else throw "W required unless exactly one mode is measured"

def chop (j : Json) : R Json := do
  let m ← getMat j "m"
  let del ← getNatList j "del"
  let tot := m.size
  let k := del.length
  let M := matOf m
  pure <| Json.mkObj [("A", jmat (tot - k) (tot - k) (chopA M tot del)), ("B", jmat (tot - k) k (chopB M tot del)),
    ("C", jmat k k (chopC M del))]

def chopvec (j : Json) : R Json := do
  let v ← getVec j "v"
  let del ← getNatList j "del"
  let tot := v.size
  let k := del.length
  pure <| Json.mkObj [("va", jvec (tot - k) (chopVecA (vecOf v) tot del)), ("vb", jvec k (chopVecB (vecOf v) del))]

def reasm (j : Json) : R Json := do
  let A ← getMat j "A"
  let del ← getNatList j "del"
  let kind ← getStr j "kind"
  let ntot := A.size + del.length
  if kind == "b" then pure (jmat ntot ntot (reassembleB (matOf A) ntot del))
  else pure (jmat ntot ntot (reassemble (matOf A) ntot del))

def reasmvec (j : Json) : R Json := do
  let va ← getVec j "va"
  let del ← getNatList j "del"
  let kind ← getStr j "kind"
  let ntot := va.size + del.length
  if kind == "b" then pure (jvec ntot (reassembleVecB (vecOf va) ntot del))
  else pure (jvec ntot (reassembleVec (vecOf va) ntot del))

def half : Rat := 1 / 2

def readGS (j : Json) : R (GS Rat) := do
  let n ← getNat j "n"
  let N ← asCxMat (← j.getObjVal? "N")
  let M ← asCxMat (← j.getObjVal? "M")
  let mu ← (← getArr j "mean").mapM asCx
  let mua := mu.toArray
  pure { n := n, N := fun i k => (N.getD i #[]).getD k 0, M := fun i k => (M.getD i #[]).getD k 0,
         mean := fun i => mua.getD i 0 }

/-- measurement covariance: explicit `sigma`, or `eps` (homodyne), or the identity (heterodyne) -/
def pickSigma (j : Json) : R (Mat Rat) := do
  match j.getObjVal? "sigma" with
  | .ok m => pure (matOf (← asRatMat m))
  | .error _ =>
    match j.getObjVal? "eps" with
    | .ok e =>
      let eps ← asRat e
      if eps == 0 then throw "eps = 0" else pure (homodyneCov eps)
    | .error _ => pure heterodyneCov

def getPair (j : Json) (k : String) : R (Rat × Rat) := do
  let v ← getVec j k
  pure (v.getD 0 0, v.getD 1 0)

/-- outcome vector: `vm` explicit | `het` (Gaussian circuit/back end scaling) | `hetBackend` / `hetCircuit`
(bosonic) | `homSelect = [s, t, select]` with second entry `vc[1] + vm1off` (Gaussian) or `0` (bosonic) |
`vmoff` (sampled outcome = mean handed to the generator + offset) -/
def pickVm (j : Json) (rngMean : Vec Rat) (k : Nat) (bosonic : Bool) : R (Vec Rat) := do
  match j.getObjVal? "vm" with
  | .ok v => pure (vecOf (← asRatVec v))
  | .error _ =>
  match getPair j "het" with
  | .ok (re, im) => let p := gaussHetVm re im; pure fun a => if a = 0 then p.1 else p.2
  | .error _ =>
  match getPair j "hetBackend" with
  | .ok (re, im) => let p := bosonicHetVm re im; pure fun a => if a = 0 then p.1 else p.2
  | .error _ =>
  match getPair j "hetCircuit" with
  | .ok (re, im) => let p := bosonicCircuitHetVals re im; pure fun a => if a = 0 then p.1 else p.2
  | .error _ =>
  match getVec j "homSelect" with
  | .ok v =>
    let s := v.getD 0 1
    let t := v.getD 1 1
    if s == 0 || t == 0 then throw "zero scale"
    let x := homodyneSelectToCircuit s t (v.getD 2 0)
    let off := (getRat j "vm1off").toOption.getD 0
    pure fun a => if a = 0 then x else if bosonic then 0 else rngMean 1 + off
  | .error _ =>
    let off ← getVec j "vmoff"
    pure fun a => if a < k then rngMean a + off.getD a 0 else 0

/-- the values reported to the caller for outcome `vm` -/
def reported (j : Json) (vm : Vec Rat) : List (String × Json) :=
  let st := match getVec j "scale" with
    | .ok v => (v.getD 0 1, v.getD 1 1)
    | .error _ => (1, 1)
  let h := gaussHetReturned half (vm 0) (vm 1)
  [("vm", jvec 2 vm), ("homReturned", jrat (homodyneReturned st.1 st.2 (vm 0))),
   ("hetReturned", jarr [jrat h.1, jrat h.2])]

/-- Gaussian `measure_dyne` / `post_select_*` on modes `modes` with measurement covariance `sigma`
and outcome `vm`; returns the new `(nmat, mmat, mean)` and the arguments handed to the generator -/
def gaussPost (j : Json) : R Json := do
  let st0 ← readGS j
  -- optional prefix of simulator operations (e.g. the `phase_shift(-phi)` of `measure_homodyne`)
  let pre := (getArr j "pre").toOption.getD []
  let mut st := st0
  for o in pre do
    st := memo (← gaussStep st o)
  let modes ← getNatList j "modes"
  let sigma ← pickSigma j
  let k := 2 * modes.length
  let rng := gaussRngArgs st modes sigma
  let S := memoM k k rng.cov
  let rmean := vecOf ((Array.range k).map rng.mean)
  let vm ← pickVm j rmean k false
  let W ← pickW j k S
  let st' := memo (gaussPostSelect half st modes W vm)
  let idx := List.range st.n
  let mat (f : Nat → Nat → Cx Rat) := jarr (idx.map fun i => jarr (idx.map fun l => jCx (f i l)))
  pure <| Json.mkObj ([("N", mat st'.N), ("M", mat st'.M), ("mean", jarr (idx.map fun i => jCx (st'.mean i))),
    ("rngMean", jvec k rmean), ("rngCov", jmat k k S), ("vmAll", jvec k vm)] ++ reported j vm)

/-- what `measure_dyne(covmat, modes)` hands to the generator (any number of modes) -/
def gaussRng (j : Json) : R Json := do
  let st ← readGS j
  let modes ← getNatList j "modes"
  let sigma ← pickSigma j
  let k := 2 * modes.length
  let rng := gaussRngArgs st modes sigma
  pure <| Json.mkObj [("rngMean", jvec k rng.mean), ("rngCov", jmat k k rng.cov)]

/-- bosonic `post_select_generaldyne` on a list of components (one measured mode: explicit inverse) -/
def bosonicPost (j : Json) : R Json := do
  let covs ← (← getArr j "covs").mapM asRatMat
  let means ← (← getArr j "means").mapM asRatVec
  let modes ← getNatList j "modes"
  let sigma ← pickSigma j
  let del := expind modes
  let k := del.length
  let comps := covs.zip means
  let vm0 ← pickVm j (fun _ => 0) k true
  let out ← comps.mapM fun (V, r) => do
    let tot := V.size
    let S := memoM k k (addM (chopC (matOf V) del) sigma)
    let W ← if k = 2 then
        (if S 0 0 * S 1 1 - S 0 1 * S 1 0 == 0 then throw "singular" else pure (memoM 2 2 (inv2 S)))
      else throw "use meas.bosonicPostW for several modes"
    let o := bosonicDyneComp tot del (matOf V) (vecOf r) W vm0
    pure <| Json.mkObj [("cov", jmat tot tot o.cov), ("mean", jvec tot o.mean),
      ("quad", jrat (bosonicQuad del (vecOf r) W vm0)), ("S", jmat k k S)]
  let tot := (covs.head?.map (·.size)).getD 0
  pure <| Json.mkObj ([("comps", jarr out), ("allMeasured", Json.bool (bosonicAllMeasured tot modes))] ++ reported j vm0)

/-- the same with the inverses supplied (several measured modes); each `W` is checked -/
def bosonicPostW (j : Json) : R Json := do
  let covs ← (← getArr j "covs").mapM asRatMat
  let means ← (← getArr j "means").mapM asRatVec
  let Ws ← (← getArr j "Ws").mapM asRatMat
  let modes ← getNatList j "modes"
  let sigma := matOf (← getMat j "sigma")
  let vm := vecOf (← getVec j "vm")
  let del := expind modes
  let k := del.length
  let comps := (covs.zip means).zip Ws
  let out ← comps.mapM fun ((V, r), Wa) => do
    let tot := V.size
    let S := memoM k k (addM (chopC (matOf V) del) sigma)
    let W := matOf Wa
    if !isLeftInv k W S then throw "W is not the inverse of C + covmat"
    let o := bosonicDyneComp tot del (matOf V) (vecOf r) W vm
    pure <| Json.mkObj [("cov", jmat tot tot o.cov), ("mean", jvec tot o.mean),
      ("quad", jrat (bosonicQuad del (vecOf r) W vm)), ("S", jmat k k S)]
  let tot := (covs.head?.map (·.size)).getD 0
  pure <| Json.mkObj [("comps", jarr out), ("allMeasured", Json.bool (bosonicAllMeasured tot modes))]

def scal (j : Json) : R Json := do
  let kind ← getStr j "kind"
  let r (k : String) : R Rat := getRat j k
  let pair (p : Rat × Rat) : Json := jarr [jrat p.1, jrat p.2]
  match kind with
  | "gaussHetVm" => pure (pair (gaussHetVm (← r "re") (← r "im")))
  | "bosonicHetVm" => pure (pair (bosonicHetVm (← r "re") (← r "im")))
  | "bosonicHetVmOld" => pure (pair (bosonicHetVmOld (← r "re") (← r "im")))
  | "bosonicCircuitHetVals" => pure (pair (bosonicCircuitHetVals (← r "re") (← r "im")))
  | "gaussHetReturned" => pure (pair (gaussHetReturned half (← r "x") (← r "p")))
  | "bosonicHetReturned" => pure (pair (bosonicHetReturned half (← r "x") (← r "p")))
  | "homodyneSelect" =>
    let s ← r "s"
    let t ← r "t"
    if s == 0 || t == 0 then throw "zero scale" else pure (jrat (homodyneSelectToCircuit s t (← r "select")))
  | "homodyneReturned" => pure (jrat (homodyneReturned (← r "s") (← r "t") (← r "qs")))
  | _ => throw s!"meas.scal: unknown kind {kind}"

def weights (j : Json) : R Json := do
  let kind ← getStr j "kind"
  let w := (← getVec j "w").toList
  let rw := (← getVec j "rw").toList
  match kind with
  | "reweight" =>
    if (List.zipWith (· * ·) w rw).foldl (· + ·) 0 == 0 then throw "zero norm"
    else pure (jarr ((reweight w rw).map jrat))
  | "click" =>
    let c ← getRat j "c"
    let p0 ← getRat j "p0"
    if p0 == 1 then throw "p0 = 1" else pure (jarr ((thresholdClickWeights w rw c p0).map jrat))
  | _ => throw s!"meas.weights: unknown kind {kind}"

def fockOut (j : Json) : R Json := do
  let measure ← getNatList j "measure"
  let i ← getNat j "i"
  let D ← getNat j "D"
  let n ← getNat j "n"
  pure <| Json.mkObj [("permuted", natList (unIndex i measure.length D)), ("perm", natList (argsort measure)),
    ("outcome", natList (fockOutcome measure i D)), ("unmeasured", natList (unmeasured n measure)),
    ("flat", jnat (flatIndex D (unIndex i measure.length D)))]

def asIntMat (j : Json) : R (List (List Int)) := do
  let rows ← j.getArr?
  rows.toList.mapM asIntList

def collate (j : Json) : R Json := do
  let evs ← (← getArr j "events").mapM fun e => do
    let regs ← getNatList e "regs"
    let val ← asIntMat (← e.getObjVal? "val")
    pure (regs, val)
  let d := runSamples evs
  let jm (m : List (List Int)) := jarr (m.map intList)
  let last := match evs.getLast? with
    | some (regs, val) => jarr ((regVals regs val).map fun p => jarr [jnat p.1, intList p.2])
    | none => jarr []
  pure <| Json.mkObj [("samples", jm (combineAndSort d)),
    ("dict", jarr (d.map fun e => jarr [jnat e.1, jm e.2])), ("lastRegVals", last)]

/-- Fock `measure_fock`: the (unnormalised) distribution `ravel(diagonal(partial_trace(state, n, unmeasured)))` of an
integer-valued density tensor; the real parts are returned -/
def fockDistOp (j : Json) : R Json := do
  let D ← getNat j "D"
  let n ← getNat j "n"
  let measure ← getNatList j "measure"
  let st ← getGArr j "state"
  let ρ := tensOfArray D (2 * n) st
  let d := fockDist D n measure ρ
  pure <| Json.mkObj [("dist", intList (d.map (·.re))), ("im", intList (d.map (·.im)))]

/-- bosonic rejection sampler at one proposed point: `ws` all weights, `peaks = [[w, pref, e], …]`, `u` -/
def samplerOp (j : Json) : R Json := do
  let ws := (← getVec j "ws").toList
  let pk ← (← getArr j "peaks").mapM asRatVec
  let peaks : List (Peak Rat) := pk.map fun a => ⟨a.getD 0 0, a.getD 1 0, a.getD 2 0⟩
  let u ← getRat j "u"
  if (ubWeights ws).foldl (· + ·) 0 == 0 then throw "no upper-bound weight"
  pure <| Json.mkObj [("ubInd", natList (ubIndices ws)), ("ubProb", jarr ((ubWeightsProb ws).map jrat)),
    ("p", jrat (probDistVal peaks)), ("ub", jrat (probUpbnd peaks)), ("accept", Json.bool (accept u peaks))]

/-- Gaussian `measure_fock` / `measure_threshold`: the mean vector and covariance matrix handed to the thewalrus samplers -/
def gaussDiscrete (j : Json) : R Json := do
  let st ← readGS j
  let modes ← getNatList j "modes"
  let k := 2 * modes.length
  let a := gaussDiscreteArgs st modes
  pure <| Json.mkObj [("mean", jvec k a.mean), ("cov", jmat k k a.cov), ("idxs", natList (discreteIdxs st.n modes))]

/-- `ops.hermiteVals(q_mag, num_bins, s², trunc)`: grid points and the table `Hvals[n][k]` -/
def hermiteOp (j : Json) : R Json := do
  let q ← getRat j "q"
  let s ← getRat j "s"
  let nb ← getNat j "nb"
  let trunc ← getNat j "trunc"
  if nb < 2 then throw "nb < 2"
  pure <| Json.mkObj [("grid", jarr ((List.range nb).map fun k => jrat (linspacePt q nb k))),
    ("H", jarr ((List.range trunc).map fun n => jarr ((List.range nb).map fun k => jrat (hermiteVals q s nb n k))))]

def handler (op : String) (j : Json) : Option (R Json) :=
  match op with
  | "meas.chop" => some (chop j)
  | "meas.chopvec" => some (chopvec j)
  | "meas.reassemble" => some (reasm j)
  | "meas.reassemblevec" => some (reasmvec j)
  | "meas.gaussPost" => some (gaussPost j)
  | "meas.gaussRng" => some (gaussRng j)
  | "meas.bosonicPost" => some (bosonicPost j)
  | "meas.bosonicPostW" => some (bosonicPostW j)
  | "meas.scal" => some (scal j)
  | "meas.weights" => some (weights j)
  | "meas.fockOutcome" => some (fockOut j)
  | "meas.collate" => some (collate j)
  | "meas.fockDist" => some (fockDistOp j)
  | "meas.sampler" => some (samplerOp j)
  | "meas.gaussDiscrete" => some (gaussDiscrete j)
  | "meas.hermite" => some (hermiteOp j)
  | _ => none

end SFV.Drv.Measure
