import SFV.Driver.Json
import SFV.Driver.Sim
import SFV.Model.States
/-! Driver for the state-object model (`SFV.Model.States`).  Ops: `st.fock` (Gaussian-integer tensors),
`st.gauss` (rational means / covariances), `st.bosonic` (index lists), `st.post` (integer samples). -/
namespace SFV.Drv.States
open Lean SFV SFV.Drv SFV.Fock SFV.Gauss SFV.States SFV.Drv.Sim

instance : Sub GInt := ⟨fun a b => ⟨a.re - b.re, a.im - b.im⟩⟩
instance : Neg GInt := ⟨fun a => ⟨-a.re, -a.im⟩⟩
instance : One GInt := ⟨⟨1, 0⟩⟩

def gNsq (z : GInt) : GInt := ⟨z.re * z.re + z.im * z.im, 0⟩
def gRe (z : GInt) : GInt := ⟨z.re, 0⟩
def gNat (v : Nat) : GInt := ⟨(v : Int), 0⟩

def errName : Err → String
  | .valueError => "ValueError"
  | .indexError => "IndexError"

def jErr (e : Err) : Json := Json.mkObj [("err", Json.str (errName e))]

def getModesOpt (j : Json) : Option (List Nat) :=
  match getNatList j "modes" with
  | .ok l => some l
  | .error _ => none

def fock (j : Json) : R Json := do
  let kind ← getStr j "kind"
  let D ← getNat j "D"
  let n ← getNat j "n"
  let pure? := getBoolD j "pure" false
  let st ← getGArr j "state"
  let ψ : Tens GInt := tensOfArray D (if pure? then n else 2 * n) st
  let ρ : Tens GInt := if pure? then mix GInt.conj ψ else ψ
  let modes := getNatListD j "modes"
  let flat (r : Nat) (t : Tens GInt) : Json := jarr ((arrayOfTens D r t).map jGInt)
  match kind with
  | "reducedDm" =>
    match fockReducedDm D n modes ρ with
    | .error e => pure (jErr e)
    | .ok (k, t) => pure <| Json.mkObj [("k", jnat k), ("t", flat (2 * k) t)]
  | "backendState" =>
    -- `map`: the ModeMap of the register (`null` = deleted subsystem); default: no holes
    let map : List (Option Nat) := match j.getObjVal? "map" with
      | .ok (Json.arr a) => a.toList.map fun x => x.getNat?.toOption
      | _ => (List.range n).map some
    match fockBackendStateR GInt.conj D n pure? map (getModesOpt j) ψ with
    | .error e => pure (jErr e)
    | .ok (p, k, t, labels) =>
      pure <| Json.mkObj [("pure", Json.bool p), ("k", jnat k), ("t", flat (if p then k else 2 * k) t), ("labels", natList labels)]
  | "reducedDmLetters" =>
    -- the einsum of the letter string itself (valid ascending lists only)
    pure <| Json.mkObj [("k", jnat modes.length), ("t", flat (2 * modes.length)
      (einsumLetters D (indList n modes) (2 * modes.length) ρ)),
      ("ind", jarr ((indList n modes).map fun p => natList [p.1, p.2]))]
  | "dm" => pure <| flat (2 * n) ρ
  | "trace" => pure <| jGInt (fockTrace gNsq gRe D n pure? ψ)
  | "probs" => pure <| flat n (if pure? then probsPure gNsq ψ else probsMixed gRe ψ)
  | "meanPhoton" => do
    let mode ← getNat j "mode"
    match fockMeanPhoton gRe gNat D n mode ρ with
    | .error e => pure (jErr e)
    | .ok (m, v) => pure <| jarr [jGInt m, jGInt v]
  | "numberExp" =>
    match fockNumberExpectation gNsq gRe gNat D n pure? modes ψ with
    | .error e => pure (jErr e)
    | .ok (m, v) => pure <| jarr [jGInt m, jGInt v]
  | "parity" =>
    match fockParity gNsq gRe D n pure? modes ψ with
    | .error e => pure (jErr e)
    | .ok m => pure <| jGInt m
  | "paritySpec" =>
    -- the specification side: Σ_n (Π values) p(n) over all Fock indices
    pure <| jGInt (diagonalSpec D n modes paritySign (if pure? then probsPure gNsq ψ else probsMixed gRe ψ))
  | "fidelity" => do
    let mode ← getNat j "mode"
    let other ← getGArr j "other"
    let red := einsumRoles D (fidelityRoles n mode) ρ
    let o (i : Nat) : GInt := other.getD i 0
    let v := sumTo D fun a => sumTo D fun b =>
      GInt.conj (o a) * (red (fun x => if x = 0 then a else b) * o b)
    pure <| jGInt (gRe v)
  | _ => throw s!"st.fock: unknown kind {kind}"

def getRatList (j : Json) (k : String) : R (Array Rat) := do
  let a ← getArr j k
  let l ← a.mapM asRat
  pure l.toArray

def getRatMat (j : Json) (k : String) : R (Array (Array Rat)) := do
  let rows ← getArr j k
  let l ← rows.mapM fun r => do
    let cs ← r.getArr?
    cs.mapM asRat
  pure l.toArray

def jG (size : Nat) (g : GData Rat) : List (String × Json) :=
  let rng := List.range size
  [("mu", jarr (rng.map fun a => jrat (g.mu a))),
   ("cov", jarr (rng.map fun a => jarr (rng.map fun b => jrat (g.cov a b))))]

def gauss (j : Json) : R Json := do
  let kind ← getStr j "kind"
  let n ← getNat j "n"
  let mu ← getRatList j "mu"
  let cov ← getRatMat j "cov"
  let g : GData Rat := { mu := fun a => mu.getD a 0, cov := fun a b => (cov.getD a #[]).getD b 0 }
  let modes := getNatListD j "modes"
  match kind with
  | "reducedGaussian" =>
    match reducedGaussian n modes g with
    | .error e => pure (jErr e)
    | .ok (k, r) => pure <| Json.mkObj ([("k", jnat k)] ++ jG (2 * k) r)
  | "backendState" =>
    let active := match getNatList j "active" with
      | .ok l => l
      | .error _ => List.range n
    match gaussBackendStateA n active (getModesOpt j) g with
    | .error e => pure (jErr e)
    | .ok (k, r, labels) => pure <| Json.mkObj ([("k", jnat k), ("labels", natList labels)] ++ jG (2 * k) r)
  | "polyQuad" => do
    let A ← getRatMat j "A"
    let d ← getRatList j "d"
    let k ← asRat (← j.getObjVal? "k")
    let hbar ← asRat (← j.getObjVal? "hbar")
    let c ← asRat (← j.getObjVal? "c")
    let s ← asRat (← j.getObjVal? "s")
    let r := gaussPolyQuad hbar n (fun a b => (A.getD a #[]).getD b 0) (fun a => d.getD a 0) k (getBoolD j "rotate" false) c s g
    pure <| jarr [jrat r.1, jrat r.2]
  | "meanPhoton" => do
    let mode ← getNat j "mode"
    let hbar ← asRat (← j.getObjVal? "hbar")
    match gaussMeanPhoton hbar n mode g with
    | .error e => pure (jErr e)
    | .ok (m, v) => pure <| jarr [jrat m, jrat v]
  | "quad" => do
    let mode ← getNat j "mode"
    let c ← asRat (← j.getObjVal? "c")
    let s ← asRat (← j.getObjVal? "s")
    match gaussQuadExpectation c s n mode g with
    | .error e => pure (jErr e)
    | .ok (m, v) => pure <| jarr [jrat m, jrat v]
  | "parityArgs" =>
    match gaussParityArgs n modes g with
    | .error e => pure (jErr e)
    | .ok (e, k, r) =>
      let p1 := parity1 r
      pure <| Json.mkObj ([("e", jnat e), ("k", jnat k), ("p1", jarr [jrat p1.1, jrat p1.2])] ++ jG (2 * k) r)
  | _ => throw s!"st.gauss: unknown kind {kind}"

def bosonic (j : Json) : R Json := do
  let kind ← getStr j "kind"
  let n ← getNat j "n"
  let modes := getNatListD j "modes"
  let out (r : Except Err (Nat × List Nat)) : Json :=
    match r with
    | .error e => jErr e
    | .ok (k, ind) => Json.mkObj [("k", jnat k), ("ind", natList ind)]
  match kind with
  | "reducedBosonic" => pure <| out (reducedBosonic n modes)
  | "backendState" => pure <| out (bosonicBackendState n modes)
  | "labels" => pure <| natList (bosonicBackendLabels modes)
  | "fidelityArgs" | "purityArgs" | "wignerArgs" => do
    -- components over all `n` modes (fidelity, purity) resp. the reduced one-mode components (wigner)
    let comps ← getArr j "comps"
    let cs ← comps.mapM fun cj => do
      let w ← asRat (← cj.getObjVal? "w")
      let mu ← getRatList cj "mu"
      let cov ← getRatMat cj "cov"
      pure (w, ({ mu := fun a => mu.getD a 0, cov := fun a b => (cov.getD a #[]).getD b 0 } : GData Rat))
    let size := 2 * n
    let jcomp (p : Rat × GData Rat) : Json := Json.mkObj ([("w", jrat p.1)] ++ jG size p.2)
    if kind == "fidelityArgs" then
      let are ← getRatList j "are"
      let aim ← getRatList j "aim"
      let sq ← asRat (← j.getObjVal? "sq")
      let h2 ← asRat (← j.getObjVal? "h2")
      pure <| jarr ((bosonicFidelityArgs sq h2 (fun a => are.getD a 0) (fun a => aim.getD a 0) cs).map jcomp)
    else if kind == "purityArgs" then
      pure <| jarr ((bosonicPurityArgs cs).map jcomp)
    else
      let x ← asRat (← j.getObjVal? "x")
      let p ← asRat (← j.getObjVal? "p")
      pure <| jarr ((bosonicWignerArgs x p cs).map fun t => jarr [jrat t.1, jrat t.2.1, jrat t.2.2])
  | "meanPhoton" | "quad" | "marginal" => do
    let comps ← getArr j "comps"
    let cs ← comps.mapM fun cj => do
      let w ← asRat (← cj.getObjVal? "w")
      let mu ← getRatList cj "mu"
      let cov ← getRatMat cj "cov"
      pure (w, ({ mu := fun a => mu.getD a 0, cov := fun a b => (cov.getD a #[]).getD b 0 } : GData Rat))
    if kind == "meanPhoton" then
      let hbar ← asRat (← j.getObjVal? "hbar")
      let r := bosonicMeanPhoton hbar cs
      pure <| jarr [jrat r.1, jrat r.2]
    else
      let c ← asRat (← j.getObjVal? "c")
      let s ← asRat (← j.getObjVal? "s")
      if kind == "quad" then
        let r := bosonicQuad c s cs
        pure <| jarr [jrat r.1, jrat r.2]
      else
        pure <| jarr ((bosonicMarginalParams c s cs).map fun t => jarr [jrat t.1, jrat t.2.1, jrat t.2.2])
  | "ind" => pure <| natList (bosonicInd modes)
  | "displacementInd" => pure <| natList (bosonicDisplacementInd modes)
  | "walrus" =>
    let k := modes.length
    pure <| natList ((List.range (2 * k)).map fun a => (interleaved modes).getD (toXXPP k a) 0)
  | _ => throw s!"st.bosonic: unknown kind {kind}"

def post (j : Json) : R Json := do
  let kind ← getStr j "kind"
  let rows ← getArr j "samples"
  let samples ← rows.mapM asIntList
  let modes := getNatListD j "modes"
  match kind with
  | "expectation" =>
    let r := samplesExpectation samples modes
    pure <| jarr [jint r.1, jnat r.2]
  | "variance" =>
    let r := samplesVariance samples modes
    pure <| jarr [jint r.1, jnat r.2]
  | "pnr" => do
    let pats ← getArr j "pats"
    let pats ← pats.mapM asIntList
    pure <| natList (pats.map fun p => pnrCount samples p)
  | _ => throw s!"st.post: unknown kind {kind}"

/-- Gaussian `dm()` / `reduced_dm(modes)` with scripted thewalrus outputs (`psi`: state vector of `len(modes)` modes, `T`: density
matrix of `len(modes)` modes) -/
def gaussDm (j : Json) : R Json := do
  let D ← getNat j "D"
  let n ← getNat j "n"
  let modes := getNatListD j "modes"
  let k := modes.length
  let psi ← getGArr j "psi"
  let T ← getGArr j "T"
  match gaussReducedDm GInt.conj n modes (getBoolD j "pure" false) (tensOfArray D k psi) (tensOfArray D (2 * k) T) with
  | .error e => pure (jErr e)
  | .ok (k', t) => pure <| Json.mkObj [("k", jnat k'), ("t", jarr ((arrayOfTens D (2 * k') t).map jGInt))]

def handler (op : String) (j : Json) : Option (R Json) :=
  match op with
  | "st.fock" => some (fock j)
  | "st.gauss" => some (gauss j)
  | "st.bosonic" => some (bosonic j)
  | "st.post" => some (post j)
  | "st.gaussdm" => some (gaussDm j)
  | _ => none

end SFV.Drv.States
