import SFV.Driver.Json
import SFV.Model.Apps
/-! Driver handler for the K6 model (`apps.*` ops).  Random choices are scripted: the request carries
`picks : [Nat]`, and the `k`-th call offered `n` alternatives returns position `picks[k] % n`. -/
namespace SFV.Drv.Apps
open Lean SFV SFV.Drv SFV.Apps

def natLists (l : List (List Nat)) : Json := jarr (l.map natList)

def asNatLists (j : Json) : R (List (List Nat)) := do
  let a ← j.getArr?
  a.toList.mapM asNatList

def getNatLists (j : Json) (k : String) : R (List (List Nat)) := do
  asNatLists (← j.getObjVal? k)

def asPair (j : Json) : R (Nat × Nat) := do
  match (← asNatList j) with
  | [a, b] => pure (a, b)
  | _ => throw "pair expected"

def getGraph (j : Json) : R Graph := do
  let gj ← j.getObjVal? "g"
  let nodes ← getNatList gj "nodes"
  let edges ← (← getArr gj "edges").mapM asPair
  pure (Graph.ofEdges nodes edges)

def getSel (j : Json) : R Sel := do
  let s ← j.getObjVal? "sel"
  match s with
  | Json.str "uniform" => pure .uniform
  | Json.str "degree" => pure .degree
  | _ => do
    let w ← asIntList (← s.getObjVal? "w")
    pure (.weight w)

def getPick (j : Json) : Pick :=
  let script := getNatListD j "picks"
  fun step n => if n = 0 then 0 else script.getD step 0 % n

def errStr : Err → String
  | .notSubgraph => "notSubgraph" | .notClique => "notClique" | .weightLen => "weightLen"
  | .notRecognized => "notRecognized" | .minSize => "minSize" | .maxSize => "maxSize"
  | .maxLtMin => "maxLtMin" | .iterations => "iterations"

def exc {α : Type} (f : α → Json) : Except Err α → Json
  | .ok a => Json.mkObj [("ok", f a)]
  | .error e => Json.mkObj [("err", Json.str (errStr e))]

def pairs (l : List (Nat × Nat)) : Json := jarr (l.map fun p => natList [p.1, p.2])

def sizeMap (l : List (Nat × List Nat)) : Json :=
  jarr (l.map fun e => jarr [jnat e.1, natList e.2])

def asEntryInt (j : Json) : R (Int × List Nat) := do
  let a ← j.getArr?
  match a.toList with
  | [d, s] => do pure ((← d.getInt?), (← asNatList s))
  | _ => throw "entry expected"

def entriesInt (l : List (Int × List Nat)) : Json := jarr (l.map fun e => jarr [jint e.1, natList e.2])

def dense (d : Dense) : Json :=
  jarr (d.map fun e => jarr [jnat e.1, jarr (e.2.map fun t => jarr [jrat t.1, natList t.2])])

def handler (op : String) (j : Json) : Option (R Json) :=
  match op with
  | "apps.orbits" => some do
    let n ← getNat j "n"
    pure <| Json.mkObj [("imp", natLists (orbitsImp n)), ("rec", natLists (orbits n))]
  | "apps.sampleToOrbit" => some do
    pure <| natList (sampleToOrbit (← getNatList j "s"))
  | "apps.sampleToEvent" => some do
    match sampleToEvent (← getNatList j "s") (← getNat j "m") with
    | some k => pure (jnat k)
    | none => pure Json.null
  | "apps.orbitCard" => some do
    pure <| jnat (orbitCardinality (← getNatList j "orbit") (← getNat j "modes"))
  | "apps.dpermsLen" => some do
    let s ← getNatList j "s"
    pure <| jnat (dperms s.length s).length
  | "apps.eventCard" => some do
    pure <| jnat (eventCardinality (← getNat j "n") (← getNat j "m") (← getNat j "modes"))
  | "apps.isClique" => some do
    let g ← getGraph j
    let S ← getNatList j "S"
    pure <| Json.mkObj [("count", Json.bool (isCliqueCount g (distinct S))),
                        ("pair", Json.bool (isCliquePair g (distinct S)))]
  | "apps.c0" => some do
    let g ← getGraph j
    pure <| exc (fun l => natList (sortAsc l)) (c0E g (← getNatList j "S"))
  | "apps.c1" => some do
    let g ← getGraph j
    pure <| exc pairs (c1E g (← getNatList j "S"))
  | "apps.grow" => some do
    let g ← getGraph j
    pure <| exc natList (grow g (← getNatList j "S") (← getSel j) (getPick j))
  | "apps.swap" => some do
    let g ← getGraph j
    pure <| exc natList (swap g (← getNatList j "S") (← getSel j) (getPick j))
  | "apps.shrink" => some do
    let g ← getGraph j
    pure <| exc natList (shrink g (← getNatList j "S") (← getSel j) (getPick j))
  | "apps.cliqueSearch" => some do
    let g ← getGraph j
    pure <| exc natList (cliqueSearch g (← getNatList j "S") (← getNat j "it") (← getSel j) (getPick j))
  | "apps.resize" => some do
    let g ← getGraph j
    pure <| exc sizeMap (resize g (← getNatList j "S") (← getNat j "min") (← getNat j "max") (← getSel j) (getPick j))
  | "apps.updateList" => some do
    let l ← (← getArr j "l").mapM asEntryInt
    let t ← asEntryInt (← j.getObjVal? "t")
    let (l', used) := updateList l t (← getNat j "max") (← getBool j "coin")
    pure <| Json.mkObj [("l", entriesInt l'), ("used", Json.bool used)]
  | "apps.search" => some do
    let g ← getGraph j
    pure <| exc dense (search g (← getNatLists j "subs") (← getNat j "min") (← getNat j "max")
      (← getNat j "maxCount") (← getSel j) (getPick j))
  | "apps.density" => some do
    let g ← getGraph j
    pure <| jrat (density g (← getNatList j "S"))
  | "apps.postselect" => some do
    pure <| natLists (postselect (← getNatLists j "samples") (← getNat j "min") (← getNat j "max"))
  | "apps.modesFromCounts" => some do
    pure <| natList (modesFromCounts (← getNatList j "s"))
  | "apps.toSubgraphs" => some do
    let g ← getGraph j
    pure <| natLists (toSubgraphs g (← getNatLists j "samples"))
  | _ => none

end SFV.Drv.Apps
