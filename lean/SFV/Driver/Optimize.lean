import SFV.Driver.Json
import SFV.Driver.K1
import SFV.Model.Optimize
/-! driver ops of the optimiser model: `opt.rows`, `opt.check`, `opt.merge`, `opt.try` -/
namespace SFV.Drv.Optimize
open Lean SFV SFV.Drv

def parJson : Par → Json
  | .num q => Json.mkObj [("n", jrat q)]
  | .meas m k => Json.mkObj [("m", jnat m), ("k", jrat k)]

def cmdJson (c : Cmd) : Json :=
  Json.mkObj [("id", jnat c.id), ("cls", Json.str c.cls), ("regs", natList c.regs),
    ("deps", natList c.deps), ("pars", jarr (c.pars.map parJson)), ("dagger", Json.bool c.dagger)]

def handler (op : String) (j : Json) : Option (R Json) :=
  match op with
  | "opt.rows" => some do
    let l ← K1.getCmds j "l"
    let b ← getNat j "B"
    pure <| jarr ((optGrid b l).map fun r => jarr [jnat r.1, jarr (r.2.map cmdJson)])
  | "opt.check" => some do
    let l ← K1.getCmds j "l"
    let out ← K1.getCmds j "out"
    let b ← getNat j "B"
    pure <| Json.bool (isOptOutput b l out)
  | "opt.merge" => some do
    let a ← K1.asCmd (← j.getObjVal? "a")
    let b ← K1.asCmd (← j.getObjVal? "b")
    pure <| match opMerge a b with
      | .fail => Json.str "fail"
      | .identity => Json.str "identity"
      | .merged c => Json.mkObj [("merged", cmdJson c)]
  | "opt.try" => some do
    let a ← K1.asCmd (← j.getObjVal? "a")
    let b ← K1.asCmd (← j.getObjVal? "b")
    let bb ← getNat j "B"
    pure <| match tryMerge bb a b with
      | .advance => Json.str "advance"
      | .identity => Json.str "identity"
      | .merged c => Json.mkObj [("merged", cmdJson c)]
  | _ => none

end SFV.Drv.Optimize
