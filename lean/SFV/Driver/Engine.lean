import SFV.Driver.Json
import SFV.Model.Engine
/-! Driver handler for the engine model (ops `eng.session`, `eng.compile`, `eng.apply`, `eng.decompose`). -/
namespace SFV.Drv.Engine
open Lean SFV.Eng SFV.Drv

def asNum (j : Json) : R Num := do
  let a ← j.getArr?
  match a.toList with
  | [r, p] => do pure ⟨← asRat r, ← asRat p⟩
  | _ => throw "num: expected [r, p]"

def jnum (n : Num) : Json := jarr [jrat n.r, jrat n.p]

def zeroNum : Num := {}

def asPar (j : Json) : R Par := do
  match j.getObjVal? "n" with
  | .ok n => pure (.num (← asNum n))
  | .error _ =>
    let k ← asRat (← j.getObjVal? "k")
    let c ← match j.getObjVal? "c" with
      | .ok c => asNum c
      | .error _ => pure zeroNum
    match j.getObjVal? "m" with
    | .ok m => pure (.sym (.meas (← m.getNat?)) k c)
    | .error _ => pure (.sym (.free (← getStr j "f")) k c)

def jpar : Par → Json
  | .num c => Json.mkObj [("n", jnum c)]
  | .sym (.meas m) k c => Json.mkObj [("m", jnat m), ("k", jrat k), ("c", jnum c)]
  | .sym (.free f) k c => Json.mkObj [("f", Json.str f), ("k", jrat k), ("c", jnum c)]

def asKind (s : String) : R Kind :=
  match s with
  | "gate" => pure .gate | "plain" => pure .plain | "meas" => pure .meas
  | "new" => pure .newModes | "del" => pure .del
  | _ => throw s!"kind {s}"

def kindStr : Kind → String
  | .gate => "gate" | .plain => "plain" | .meas => "meas" | .newModes => "new" | .del => "del"

def asRatList (j : Json) : R (List Rat) := do
  let a ← j.getArr?
  a.toList.mapM asRat

def optSel (j : Json) : R (Option (List Rat)) :=
  match j.getObjVal? "sel" with
  | .ok (Json.arr a) => do pure (some (← a.toList.mapM asRat))
  | _ => pure none

def asCmd (j : Json) : R Cmd := do
  let pars ← match getArr j "pars" with
    | .ok a => a.mapM asPar
    | .error _ => pure []
  pure { cls := ← getStr j "cls", kind := ← asKind (← getStr j "kind"), pars := pars,
         dagger := getBoolD j "dagger" false, sel := ← optSel j, regs := getNatListD j "regs" }

def jsel : Option (List Rat) → Json
  | none => Json.null
  | some l => jarr (l.map jrat)

def jcmd (c : Cmd) : Json :=
  Json.mkObj [("cls", Json.str c.cls), ("kind", Json.str (kindStr c.kind)), ("pars", jarr (c.pars.map jpar)),
    ("dagger", Json.bool c.dagger), ("sel", jsel c.sel), ("regs", natList c.regs)]

def jcall (c : Call) : Json :=
  Json.mkObj [("name", Json.str c.name), ("args", jarr (c.args.map fun a => jarr (a.map jnum))),
    ("modes", natList c.modes), ("sel", jsel c.sel),
    ("opts", jarr (c.opts.map fun kv => jarr [Json.str kv.1, jint kv.2])),
    ("shots", match c.shots with | none => Json.null | some n => jnat n)]

def asRegs (j : Json) : R (List (Nat × Bool)) := do
  let a ← j.getArr?
  a.toList.mapM fun x => do
    let p ← x.getArr?
    match p.toList with
    | [i, b] => do pure ((← i.getNat?), (← b.getBool?))
    | _ => throw "reg entry"

def jregs (l : List (Nat × Bool)) : Json := jarr (l.map fun r => jarr [jnat r.1, Json.bool r.2])

def asProg (j : Json) : R Prog := do
  let circ ← (← getArr j "circuit").mapM asCmd
  let names ← match getArr j "free" with
    | .ok a => a.mapM (·.getStr?)
    | .error _ => pure []
  pure { name := (getStr j "name").toOption.getD "", initN := ← getNat j "initN",
         initRegs := ← asRegs (← j.getObjVal? "initRegs"), regs := ← asRegs (← j.getObjVal? "regs"),
         circuit := circ, freeNames := names,
         shots := match getNat j "shots" with | .ok n => some n | .error _ => none }

def asOpts (j : Json) : R (List (String × Int)) := do
  let a ← j.getArr?
  a.toList.mapM fun x => do
    let p ← x.getArr?
    match p.toList with
    | [k, v] => do pure ((← k.getStr?), (← v.getInt?))
    | _ => throw "opt entry"

def asCompiler (j : Json) : R Compiler := do
  let strs (k : String) : R (List String) := do (← getArr j k).mapM (·.getStr?)
  pure { name := ← getStr j "name", prims := ← strs "prims", decomps := ← strs "decomps" }

def errStr : Err → String
  | .parameter => "ParameterError" | .circuit => "CircuitError" | .notImplemented => "NotImplementedError"
  | .runtime => "RuntimeError" | .key => "KeyError" | .fuel => "fuel" | .unmodelled => "unmodelled"

def asBK (s : String) : R BK :=
  match s with
  | "fock" => pure .fock | "gaussian" => pure .gaussian | "bosonic" => pure .bosonic
  | _ => throw s!"backend {s}"

def jval : Option Val → Json
  | none => Json.null
  | some v => jarr (v.map jrat)

def jeng (e : Eng) : Json :=
  Json.mkObj [("prev", match e.prev with | none => Json.null | some r => jregs r),
    ("runIds", natList e.runIds),
    ("samples", match e.samples with | none => Json.null | some r => jarr (r.map fun row => jarr (row.map jrat))),
    ("mpos", jnat e.mpos), ("opts", jarr (e.opts.map fun kv => jarr [Json.str kv.1, jint kv.2]))]

/-- run a script of `run` / `reset` actions; stops at the first error -/
def session (cp : Compiler) (progs : Nat → Prog) (outc : Nat → List (List Rat)) (args : List (String × Rat)) :
    List Json → Eng → World → List Json → R (List Json × Eng × World)
  | [], e, w, acc => pure (acc.reverse, e, w)
  | a :: rest, e, w, acc =>
    match a.getObjVal? "run" with
    | .ok ids => do
      let ids ← asNatList ids
      let shots := match getNat a "shots" with | .ok n => some n | .error _ => none
      let modes := match getNatList a "modes" with | .ok l => some l | .error _ => none
      match run cp progs outc args { shots := shots, modes := modes } e w ids with
      | .error err => pure ((Json.mkObj [("err", Json.str (errStr err))] :: acc).reverse, e, w)
      | .ok (e1, w1, t) => session cp progs outc args rest e1 w1 (Json.mkObj [("calls", jarr (t.map jcall))] :: acc)
    | .error _ =>
      match a.getObjVal? "fresh" with
      | .ok o => do
        -- a newly constructed engine (the programs keep their state)
        let o ← asOpts o
        session cp progs outc args rest (fresh e.bk o e.mpos) w (Json.mkObj [("calls", jarr [])] :: acc)
      | .error _ => do
        let o ← asOpts (← a.getObjVal? "reset")
        let (e1, w1, t) := reset e w o
        session cp progs outc args rest e1 w1 (Json.mkObj [("calls", jarr (t.map jcall))] :: acc)

def asHeap (j : Json) : R Heap := do
  let ops ← (← getArr j "ops").mapM fun o => do
    pure ({ cls := ← getStr o "cls", pl := ← getNat o "pl", dagger := ← getBool o "dagger" } : OpObj)
  let pls ← (← getArr j "pls").mapM fun l => do
    let a ← l.getArr?
    a.toList.mapM asPar
  pure ⟨ops, pls⟩

def jheap (h : Heap) : Json :=
  Json.mkObj [("ops", jarr (h.ops.map fun o => Json.mkObj [("cls", Json.str o.cls), ("pl", jnat o.pl),
      ("dagger", Json.bool o.dagger)])),
    ("pls", jarr (h.pls.map fun l => jarr (l.map jpar)))]

def asTmpl (j : Json) : R Tmpl := do
  let news ← (← getArr j "news").mapM fun n => do
    let pars ← match getArr n "pars" with
      | .ok a => a.mapM asPar
      | .error _ => pure []
    let share := match getNat n "share" with
      | .ok k => some k
      | .error _ => none
    pure ({ cls := ← getStr n "cls", pars := pars, share := share, dagger := getBoolD n "dagger" false } : NewOp)
  let cmds ← (← getArr j "cmds").mapM fun c => do
    pure ((← getNat c "i"), getNatListD c "regs")
  pure ⟨news, cmds⟩

def handler (op : String) (j : Json) : Option (R Json) :=
  match op with
  | "eng.session" => some do
    let cp ← asCompiler (← j.getObjVal? "compiler")
    let pl ← (← getArr j "progs").mapM asProg
    let progs : Nat → Prog := fun i => pl.getD i { initN := 0, initRegs := [], regs := [], circuit := [] }
    let ol ← (← getArr j "outcomes").mapM fun x => do
      let a ← x.getArr?
      a.toList.mapM asRatList
    let outc : Nat → List (List Rat) := fun k => ol.getD k []
    let args ← match getArr j "args" with
      | .ok a => a.mapM fun x => do
          let p ← x.getArr?
          match p.toList with
          | [k, v] => do pure ((← k.getStr?), (← asRat v))
          | _ => throw "arg entry"
      | .error _ => pure []
    let bk ← asBK (← getStr j "backend")
    let opts ← match j.getObjVal? "opts" with
      | .ok o => asOpts o
      | .error _ => pure []
    let w0 : World := { vals := fun _ _ => none, free := fun _ _ => none, locked := fun _ => false }
    let (outs, e, w) ← session cp progs outc args (← getArr j "script") (fresh bk opts) w0 []
    let nmodes := getNatListD j "nmodes"
    let world := (List.range pl.length).map fun i =>
      Json.mkObj [("vals", jarr ((List.range (nmodes.getD i 0)).map fun m => jval (w.vals i m))),
                  ("locked", Json.bool (w.locked i))]
    pure <| Json.mkObj [("steps", jarr outs), ("eng", jeng e), ("world", jarr world)]
  | "eng.compile" => some do
    let cp ← asCompiler (← j.getObjVal? "compiler")
    let circ ← (← getArr j "circuit").mapM asCmd
    match decompList compileFuel cp circ with
    | .error err => pure <| Json.mkObj [("err", Json.str (errStr err))]
    | .ok c => pure <| Json.mkObj [("circuit", jarr (c.map jcmd))]
  | "eng.apply" => some do
    let h ← asHeap (← j.getObjVal? "heap")
    let a ← getNat j "a"
    let oc := if getBoolD j "raises" false then Outcome.raises else Outcome.returns
    let r := gateApplyH (getBoolD j "restoreOnRaise" true) h a oc
    pure <| Json.mkObj [("during", jheap r.during), ("after", jheap r.after),
      ("seen", match r.seen with | none => Json.null | some l => jarr (l.map jpar))]
  | "eng.decompose" => some do
    let h ← asHeap (← j.getObjVal? "heap")
    let a ← getNat j "a"
    let t ← asTmpl (← j.getObjVal? "tmpl")
    let (h', seq) := gateDecomposeH h a t
    pure <| Json.mkObj [("heap", jheap h'), ("seq", jarr (seq.map fun c => jarr [jnat c.1, natList c.2]))]
  | "eng.merge" => some do
    let h ← asHeap (← j.getObjVal? "heap")
    let a ← getNat j "a"
    let b ← getNat j "b"
    let (h', r) := if getBoolD j "channel" false then channelMergeH false h a b else gateMergeH false h a b
    let res := match r with
      | .identity => Json.str "identity"
      | .failure => Json.str "failure"
      | .unmodelled => Json.str "unmodelled"
      | .merged x => Json.mkObj [("merged", jnat x)]
    pure <| Json.mkObj [("res", res), ("heap", jheap h')]
  | _ => none

end SFV.Drv.Engine
