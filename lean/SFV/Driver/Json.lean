import Lean.Data.Json
/-! JSON helpers shared by the line-protocol driver. -/
namespace SFV.Drv
open Lean

abbrev R := Except String

def getNat (j : Json) (k : String) : R Nat := do
  let v ← j.getObjVal? k
  v.getNat?

def getInt (j : Json) (k : String) : R Int := do
  let v ← j.getObjVal? k
  v.getInt?

def getStr (j : Json) (k : String) : R String := do
  let v ← j.getObjVal? k
  v.getStr?

def getBool (j : Json) (k : String) : R Bool := do
  let v ← j.getObjVal? k
  v.getBool?

def getBoolD (j : Json) (k : String) (d : Bool) : Bool :=
  match j.getObjVal? k with
  | .ok v => (v.getBool?).toOption.getD d
  | .error _ => d

def getArr (j : Json) (k : String) : R (List Json) := do
  let v ← j.getObjVal? k
  let a ← v.getArr?
  pure a.toList

def asNatList (j : Json) : R (List Nat) := do
  let a ← j.getArr?
  a.toList.mapM (·.getNat?)

def asIntList (j : Json) : R (List Int) := do
  let a ← j.getArr?
  a.toList.mapM (·.getInt?)

def getNatList (j : Json) (k : String) : R (List Nat) := do
  let v ← j.getObjVal? k
  asNatList v

def getNatListD (j : Json) (k : String) : List Nat :=
  match getNatList j k with
  | .ok l => l
  | .error _ => []

def natList (l : List Nat) : Json := Json.arr (l.map (fun n => Json.num (JsonNumber.fromNat n))).toArray
def intList (l : List Int) : Json := Json.arr (l.map (fun n => Json.num (JsonNumber.fromInt n))).toArray
def jnat (n : Nat) : Json := Json.num (JsonNumber.fromNat n)
def jint (n : Int) : Json := Json.num (JsonNumber.fromInt n)
def jarr (l : List Json) : Json := Json.arr l.toArray

/-- rationals travel as `[num, den]` -/
def asRat (j : Json) : R Rat := do
  let a ← j.getArr?
  match a.toList with
  | [p, q] => do
    let p ← p.getInt?
    let q ← q.getNat?
    if q = 0 then throw "zero denominator" else pure (mkRat p q)
  | _ => throw "rat: expected [num, den]"

def jrat (q : Rat) : Json := jarr [jint q.num, jnat q.den]

end SFV.Drv
