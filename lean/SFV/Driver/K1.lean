import SFV.Driver.Json
import SFV.Model.Circuit
import SFV.Model.Compare
namespace SFV.Drv.K1
open Lean SFV SFV.Drv

def asPar (j : Json) : R Par := do
  match j.getObjVal? "m" with
  | .ok m => do
    let m ← m.getNat?
    let k ← asRat (← j.getObjVal? "k")
    pure (.meas m k)
  | .error _ => do
    let q ← asRat (← j.getObjVal? "n")
    pure (.num q)

def asCmd (j : Json) : R Cmd := do
  let id ← getNat j "id"
  let cls := (getStr j "cls").toOption.getD ""
  let pars ← match getArr j "pars" with
    | .ok a => a.mapM asPar
    | .error _ => pure []
  let sel ← match j.getObjVal? "sel" with
    | .ok (Json.arr a) => do
      let l ← a.toList.mapM asRat
      pure (some l)
    | _ => pure none
  pure { id := id, cls := cls, regs := getNatListD j "regs", deps := getNatListD j "deps",
         marked := getBoolD j "marked" false, pars := pars, dagger := getBoolD j "dagger" false,
         sel := sel }

def asReg (j : Json) : R (List (Nat × Bool)) := do
  let a ← j.getArr?
  a.toList.mapM fun x => do
    let p ← x.getArr?
    match p.toList with
    | [i, b] => do pure ((← i.getNat?), (← b.getBool?))
    | _ => throw "reg entry"

def getCmds (j : Json) (k : String) : R (List Cmd) := do
  let a ← getArr j k
  a.mapM asCmd

/-- look commands up by identity -/
def byIds (l : List Cmd) (ids : List Nat) : R (List Cmd) :=
  ids.mapM fun i => match l.find? (fun c => c.id == i) with
    | some c => pure c
    | none => throw s!"unknown command id {i}"

def ids (l : List Cmd) : Json := natList (l.map Cmd.id)

def gbsErrStr : GbsErr → String
  | .following => "following" | .noFock => "noFock"
  | .notConsecutive => "notConsecutive" | .twice => "twice"

def handler (op : String) (j : Json) : Option (R Json) :=
  match op with
  | "grid" => some do
    let l ← getCmds j "l"
    pure <| jarr ((listToGrid l).map fun r => jarr [jnat r.1, ids r.2])
  | "edges" => some do
    let l ← getCmds j "l"
    pure <| jarr ((dagEdges l).map fun e => jarr [jnat e.1.id, jnat e.2.id])
  | "isLinExt" => some do
    let l ← getCmds j "l"
    let out ← byIds l (← getNatList j "out")
    pure <| Json.bool (isLinExt l out)
  | "isLegal" => some do
    let l ← getCmds j "l"
    let out ← byIds l (← getNatList j "out")
    pure <| Json.bool (isLegal l out)
  | "groupSplit" => some do
    let l ← getCmds j "l"
    let c1 ← byIds l (← getNatList j "c1")
    let c2 ← byIds l (← getNatList j "c2")
    let (a, b, c) := groupSplit c1 c2
    pure <| Json.mkObj [("A", ids a), ("B", ids b), ("C", ids c), ("rest", ids (groupRest c1)),
      ("lin1", Json.bool (isLinExt l c1)), ("lin2", Json.bool (isLinExt (groupRest c1) c2))]
  | "gbsCollect" => some do
    let l ← getCmds j "l"
    let a ← byIds l (← getNatList j "A")
    let b ← byIds l (← getNatList j "B")
    let c ← byIds l (← getNatList j "C")
    let newId ← getNat j "newId"
    match gbsCollect a b c newId with
    | .error e => pure <| Json.mkObj [("err", Json.str (gbsErrStr e))]
    | .ok out => pure <| Json.mkObj [("ok", jarr (out.map fun c => jarr [jnat c.id, natList c.regs]))]
  | "programEq" => some do
    let l1 ← getCmds j "l1"
    let l2 ← getCmds j "l2"
    let t1 ← getStr j "t1"
    let t2 ← getStr j "t2"
    let r1 ← asReg (← j.getObjVal? "r1")
    let r2 ← asReg (← j.getObjVal? "r2")
    pure <| Json.bool (programEq t1 t2 r1 r2 l1 l2)
  | "programEquiv" => some do
    let l1 ← getCmds j "l1"
    let l2 ← getCmds j "l2"
    pure <| Json.bool (programEquiv l1 l2)
  | _ => none

end SFV.Drv.K1
