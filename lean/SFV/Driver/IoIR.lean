import SFV.Driver.Json
import SFV.Model.IoIR
import SFV.Model.IoCode
/-! Driver handler for K8 (`io.*` ops).  JSON encodings (shared with `harness/lib/ioir.py`):
`Sc` = `{"i": n}` | `{"f": [num, den]}` | `{"c": [[n, d], [n, d]]}`;
`Val` = `{"sc": Sc}` | `{"str": s}` | `{"lst": [Sc]}` | `{"arr": {"shape": [..], "data": [Sc]}}` |
`{"sym": Sym}` | `{"rrt": Sym}` | `{"pname": i}`; options are `null` when absent. -/
namespace SFV.Drv.IoIR
open Lean SFV.Io SFV.Drv

def optJ (f : α → Json) : Option α → Json
  | some a => f a
  | none => Json.null

def getOpt (j : Json) (k : String) (f : Json → R α) : R (Option α) :=
  match j.getObjVal? k with
  | .ok Json.null => pure none
  | .ok v => do pure (some (← f v))
  | .error _ => pure none

def asSc (j : Json) : R Sc :=
  match j.getObjVal? "i" with
  | .ok v => do pure (.int (← v.getInt?))
  | .error _ => match j.getObjVal? "f" with
    | .ok v => do pure (.flt (← asRat v))
    | .error _ => do
      let a ← (← j.getObjVal? "c").getArr?
      match a.toList with
      | [x, y] => do pure (.cpx (← asRat x) (← asRat y))
      | _ => throw "cpx"

def jSc : Sc → Json
  | .int i => Json.mkObj [("i", jint i)]
  | .flt q => Json.mkObj [("f", jrat q)]
  | .cpx a b => Json.mkObj [("c", jarr [jrat a, jrat b])]

def asScList (j : Json) : R (List Sc) := do (← j.getArr?).toList.mapM asSc
def jScList (l : List Sc) : Json := jarr (l.map jSc)

def asFace (j : Json) : R Face := do
  pure { text := ← getStr j "text", plain := ← getStr j "plain", atom := getBoolD j "atom" false,
         loop := ← getOpt j "loop" (·.getNat?) }

def jFace (f : Face) : Json :=
  Json.mkObj [("text", Json.str f.text), ("plain", Json.str f.plain), ("atom", Json.bool f.atom),
    ("loop", optJ jnat f.loop)]

def asSym (j : Json) : R Sym := do
  let fr ← getArr j "frees"
  pure { pos := ← asFace (← j.getObjVal? "pos"), neg := ← asFace (← j.getObjVal? "neg"),
         meas := getNatListD j "meas", frees := ← fr.mapM (·.getStr?), val := ← getOpt j "val" asSc }

def jSym (e : Sym) : Json :=
  Json.mkObj [("pos", jFace e.pos), ("neg", jFace e.neg), ("meas", natList e.meas),
    ("frees", jarr (e.frees.map Json.str)), ("val", optJ jSc e.val)]

def asISym (j : Json) : R ISym := do
  let ns ← getArr j "names"
  pure { pos := ← asFace (← j.getObjVal? "pos"), neg := ← asFace (← j.getObjVal? "neg"),
         names := ← ns.mapM (·.getStr?), val := ← getOpt j "val" asSc }

def jISym (e : ISym) : Json :=
  Json.mkObj [("pos", jFace e.pos), ("neg", jFace e.neg), ("names", jarr (e.names.map Json.str)),
    ("val", optJ jSc e.val)]

def asVal (j : Json) : R Val :=
  match j.getObjVal? "sc" with
  | .ok v => do pure (.sc (← asSc v))
  | .error _ => match j.getObjVal? "str" with
  | .ok v => do pure (.str (← v.getStr?))
  | .error _ => match j.getObjVal? "lst" with
  | .ok v => do pure (.lst (← asScList v))
  | .error _ => match j.getObjVal? "arr" with
  | .ok v => do pure (.arr (← getNatList v "shape") (← asScList (← v.getObjVal? "data")))
  | .error _ => match j.getObjVal? "sym" with
  | .ok v => do pure (.sym (← asSym v))
  | .error _ => match j.getObjVal? "rrt" with
  | .ok v => do pure (.rrt (← asISym v))
  | .error _ => do pure (.pname (← getNat j "pname"))

def jVal : Val → Json
  | .sc s => Json.mkObj [("sc", jSc s)]
  | .str s => Json.mkObj [("str", Json.str s)]
  | .lst l => Json.mkObj [("lst", jScList l)]
  | .arr sh d => Json.mkObj [("arr", Json.mkObj [("shape", natList sh), ("data", jScList d)])]
  | .sym e => Json.mkObj [("sym", jSym e)]
  | .rrt e => Json.mkObj [("rrt", jISym e)]
  | .pname i => Json.mkObj [("pname", jnat i)]

def asKw (j : Json) : R (List (String × Val)) := do
  (← j.getArr?).toList.mapM fun x => do
    match (← x.getArr?).toList with
    | [k, v] => do pure ((← k.getStr?), (← asVal v))
    | _ => throw "kw entry"

def jKw (l : List (String × Val)) : Json := jarr (l.map fun kv => jarr [Json.str kv.1, jVal kv.2])

def getVals (j : Json) (k : String) : R (List Val) :=
  match getArr j k with
  | .ok a => a.mapM asVal
  | .error _ => pure []

def getKw (j : Json) (k : String) : R (List (String × Val)) :=
  match j.getObjVal? k with
  | .ok Json.null => pure []
  | .ok v => asKw v
  | .error _ => pure []

def asCmd (j : Json) : R Cmd := do
  pure { cls := ← getStr j "cls", regs := getNatListD j "regs", pars := ← getVals j "pars",
         dagger := getBoolD j "dagger" false, select := ← getOpt j "select" asVal,
         dark := ← getOpt j "dark" asVal, kw := ← getKw j "kw" }

def jCmd (c : Cmd) : Json :=
  Json.mkObj [("cls", Json.str c.cls), ("regs", natList c.regs), ("pars", jarr (c.pars.map jVal)),
    ("dagger", Json.bool c.dagger), ("select", optJ jVal c.select), ("dark", optJ jVal c.dark),
    ("kw", jKw c.kw)]

def asScRows (j : Json) : R (List (List Sc)) := do (← j.getArr?).toList.mapM asScList
def jScRows (l : List (List Sc)) : Json := jarr (l.map jScList)

def asTdm (j : Json) : R Tdm := do
  pure { N := ← getNatList j "N", params := ← asScRows (← j.getObjVal? "params") }

def asProg (j : Json) : R Prog := do
  let cs ← getArr j "cmds"
  pure { name := ← getStr j "name", n := ← getNat j "n", target := ← getOpt j "target" (·.getStr?),
         shots := ← getOpt j "shots" (·.getNat?), cutoff := ← getOpt j "cutoff" (·.getNat?),
         tdm := ← getOpt j "tdm" asTdm, extra := ← getKw j "extra", cmds := ← cs.mapM asCmd }

def jProg (p : Prog) : Json :=
  Json.mkObj [("name", Json.str p.name), ("n", jnat p.n), ("target", optJ Json.str p.target),
    ("shots", optJ jnat p.shots), ("cutoff", optJ jnat p.cutoff),
    ("tdm", optJ (fun t => Json.mkObj [("N", natList t.N), ("params", jScRows t.params)]) p.tdm),
    ("extra", jKw p.extra), ("cmds", jarr (p.cmds.map jCmd))]

def asBBOp (j : Json) : R BBOp := do
  pure { op := ← getStr j "op", modes := getNatListD j "modes", args := ← getVals j "args",
         kwargs := ← getKw j "kwargs" }

def jBBOp (o : BBOp) : Json :=
  Json.mkObj [("op", Json.str o.op), ("modes", natList o.modes), ("args", jarr (o.args.map jVal)),
    ("kwargs", jKw o.kwargs)]

def asBB (j : Json) : R BB := do
  let os ← getArr j "ops"
  pure { name := ← getStr j "name", modes := getNatListD j "modes", target := ← getOpt j "target" (·.getStr?),
         shots := ← getOpt j "shots" (·.getNat?), cutoff := ← getOpt j "cutoff" (·.getNat?),
         tdm := ← getOpt j "tdm" (·.getNat?),
         vars := ← (match j.getObjVal? "vars" with | .ok v => asScRows v | .error _ => pure []),
         extra := ← getKw j "extra", ops := ← os.mapM asBBOp }

def jBB (b : BB) : Json :=
  Json.mkObj [("name", Json.str b.name), ("modes", natList b.modes), ("target", optJ Json.str b.target),
    ("shots", optJ jnat b.shots), ("cutoff", optJ jnat b.cutoff), ("tdm", optJ jnat b.tdm),
    ("vars", jScRows b.vars), ("extra", jKw b.extra), ("ops", jarr (b.ops.map jBBOp))]

def asXStmt (j : Json) : R XStmt := do
  let params ← match j.getObjVal? "kw" with
    | .ok Json.null => do pure (XParams.pos (← getVals j "pos"))
    | .ok v => do pure (XParams.kw (← asKw v))
    | .error _ => do pure (XParams.pos (← getVals j "pos"))
  pure { name := ← getStr j "name", params := params, wires := getNatListD j "wires",
         inverse := getBoolD j "inv" false }

def jXStmt (s : XStmt) : Json :=
  let (p, k) := match s.params with
    | .pos l => (jarr (l.map jVal), Json.null)
    | .kw [] => (jarr [], Json.null)       -- canonical form of "no parameters"
    | .kw l => (Json.null, jKw l)
  Json.mkObj [("name", Json.str s.name), ("pos", p), ("kw", k), ("wires", natList s.wires),
    ("inv", Json.bool s.inverse)]

def asXIR (j : Json) : R XIR := do
  let ss ← getArr j "stmts"
  pure { tdmN := ← getOpt j "tdmN" asNatList, name := ← getOpt j "name" (·.getStr?),
         target := ← getOpt j "target" (·.getStr?), cutoff := ← getOpt j "cutoff" (·.getNat?),
         shots := ← getOpt j "shots" (·.getNat?),
         consts := ← (match j.getObjVal? "consts" with | .ok v => asScRows v | .error _ => pure []),
         stmts := ← ss.mapM asXStmt }

def jXIR (x : XIR) : Json :=
  Json.mkObj [("tdmN", optJ natList x.tdmN), ("name", optJ Json.str x.name), ("target", optJ Json.str x.target),
    ("cutoff", optJ jnat x.cutoff), ("shots", optJ jnat x.shots), ("consts", jScRows x.consts),
    ("stmts", jarr (x.stmts.map jXStmt))]

def errStr : Err → String
  | .valueError => "ValueError" | .typeError => "TypeError" | .indexError => "IndexError"
  | .nameError => "NameError" | .unmodelled => "unmodelled"

def res (f : α → Json) : Except Err α → Json
  | .ok a => Json.mkObj [("ok", f a)]
  | .error e => Json.mkObj [("err", Json.str (errStr e))]

/-- the parse table `P` of a request: `"parse": [[string, ISym], …]` -/
def getParse (j : Json) : R (String → Option ISym) := do
  let tbl ← match j.getObjVal? "parse" with
    | .ok (Json.arr a) => a.toList.mapM fun x => do
        match (← x.getArr?).toList with
        | [k, v] => do pure ((← k.getStr?), (← asISym v))
        | _ => throw "parse entry"
    | _ => pure []
  pure fun s => (tbl.find? (·.1 = s)).map (·.2)

def jPyArg : PyArg → Json
  | .lit s => Json.mkObj [("lit", jSc s)]
  | .piMul c d => Json.mkObj [("pi", jarr [jint c, jnat d])]
  | .loopIdx i => Json.mkObj [("loop", jnat i)]
  | .text s => Json.mkObj [("text", Json.str s)]
  | .other => Json.mkObj [("other", Json.bool true)]

def jCode (c : Code) : Json :=
  Json.mkObj [("tdmN", optJ natList c.tdmN), ("n", jnat c.n),
    ("ctx", jarr (c.ctx.map fun r => jarr (r.map jPyArg))),
    ("lines", jarr (c.lines.map fun l => Json.mkObj [("cls", Json.str l.cls), ("args", jarr (l.args.map jPyArg)),
      ("select", optJ jVal l.select), ("dark", optJ jVal l.dark), ("dagger", Json.bool l.dagger),
      ("modes", natList l.modes)]))]

def handler (op : String) (j : Json) : Option (R Json) :=
  match op with
  | "io.toBB" => some do
    let p ← asProg (← j.getObjVal? "prog")
    pure (res jBB (toBB p))
  | "io.reparseBB" => some do
    let b ← asBB (← j.getObjVal? "bb")
    pure (jBB (reparseBB b))
  | "io.fromBB" => some do
    let b ← asBB (← j.getObjVal? "bb")
    pure (res jProg (toProgramBB (← getParse j) b))
  | "io.toXIR" => some do
    let p ← asProg (← j.getObjVal? "prog")
    pure (jXIR (toXIR p))
  | "io.fromXIR" => some do
    let x ← asXIR (← j.getObjVal? "xir")
    pure (res jProg (toProgramXIR (← getParse j) x))
  | "io.genCode" => some do
    let p ← asProg (← j.getObjVal? "prog")
    pure (jCode (genCode p))
  | "io.evalCode" => some do
    let p ← asProg (← j.getObjVal? "prog")
    pure (res jProg (evalCode (genCode p)))
  | "io.genNum" => some do
    let s ← asSc (← j.getObjVal? "x")
    pure (jPyArg (genNum s))
  | "io.names" => some do
    -- the index parsers on symbol names: [measuredIndex, ptypeIndex] for each name, and the printed names of `i`
    let ns ← getArr j "names"
    let names ← ns.mapM (·.getStr?)
    let is := getNatListD j "indices"
    pure (Json.mkObj [
      ("parsed", jarr (names.map fun n => jarr [optJ jnat (measuredIndex n), optJ jnat (ptypeIndex n)])),
      ("printed", jarr (is.map fun i => jarr [Json.str (qName i), Json.str (pName i)]))])
  | "io.piString" => some do
    let m ← getInt j "m"
    pure (Json.str (piString m))
  | _ => none

end SFV.Drv.IoIR
