import SFV.Driver.Json
import SFV.Model.Decomp
/-! Driver for the decomposition model (C17).  Ops are prefixed `dec.`; scalars are `Rat` travelling as
`[num, den]`, complex numbers as `[[num, den], [num, den]]`, matrices as lists of rows. -/
namespace SFV.Drv.Decomp
open Lean SFV SFV.Drv SFV.Decomp

def asCx (j : Json) : R (Cx Rat) := do
  let a ← j.getArr?
  match a.toList with
  | [x, y] => do pure ⟨← asRat x, ← asRat y⟩
  | _ => throw "complex: expected [re, im]"

def jcx (z : Cx Rat) : Json := jarr [jrat z.re, jrat z.im]

def getRat (j : Json) (k : String) : R Rat := do asRat (← j.getObjVal? k)
def getCx (j : Json) (k : String) : R (Cx Rat) := do asCx (← j.getObjVal? k)
def getCxD (j : Json) (k : String) (d : Cx Rat) : Cx Rat :=
  match getCx j k with | .ok z => z | .error _ => d

/-- matrix from a list of rows -/
def asMat (j : Json) : R (Nat × CMat Rat) := do
  let rows ← j.getArr?
  let rs ← rows.toList.mapM fun r => do
    let es ← r.getArr?
    let l ← es.toList.mapM asCx
    pure l.toArray
  let a := rs.toArray
  pure (a.size, fun i k => (a.getD i #[]).getD k 0)

def jmat (n : Nat) (U : CMat Rat) : Json :=
  jarr ((List.range n).map fun i => jarr ((List.range n).map fun k => jcx (U i k)))

def block (j : Json) : R (Blk Rat) := do
  let kind ← getStr j "kind"
  let c ← getRat j "c"
  let s ← getRat j "s"
  let e := getCxD j "e" 1
  match kind with
  | "T" => pure (blkT c s e)
  | "Ti" => pure (blkTi c s e)
  | "MZ" => pure (blkMZ c s e)
  | "MZi" => pure (blkMZi c s e)
  | "M" => pure (blkM c s e)
  | "SU2" => pure (blkSU2 c s (getCxD j "ea" 1) (getCxD j "eg" 1))
  | k => throw s!"unknown block kind {k}"

def schedule (mesh : String) (n : Nat) : R (List Step) :=
  match mesh with
  | "triangular" => pure (triSchedule n)
  | "rectangular" => pure (rectSchedule n)
  | "triangular_compact" => pure (triCompactSchedule n)
  | m => throw s!"unknown mesh {m}"

def jstep (s : Step) : Json := jarr [Json.bool s.rowMix, jnat s.p, jnat s.tr, jnat s.tc]

def branchStr : Branch → String
  | .zero => "zero" | .swap => "swap" | .generic => "generic"

def handler (op : String) (j : Json) : Option (R Json) :=
  match op with
  | "dec.embed" => some do
    let n ← getNat j "n"
    let p ← getNat j "p"
    if (← getStr j "kind") == "P" then
      let e ← getCx j "e"
      pure <| jmat n (leftPhase e p (fun i k => if i = k then 1 else 0))
    else
      let q ← getNat j "q"
      pure <| jmat n (embed (← block j) p q)
  | "dec.mix" => some do
    let (n, U) ← asMat (← j.getObjVal? "U")
    let p ← getNat j "p"
    let q ← getNat j "q"
    let b ← block j
    let left ← getBool j "left"
    pure <| jmat n (if left then leftMix b p q U else rightMix U b p q)
  | "dec.phase" => some do
    let (n, U) ← asMat (← j.getObjVal? "U")
    let p ← getNat j "p"
    let e ← getCx j "e"
    let left ← getBool j "left"
    pure <| jmat n (if left then leftPhase e p U else rightPhase U e p)
  | "dec.branch" => some do
    pure <| Json.str (branchStr (nullBranch (← getCx j "target") (← getCx j "partner")))
  | "dec.schedule" => some do
    let n ← getNat j "n"
    let mesh ← getStr j "mesh"
    if mesh == "sun" then
      pure <| jarr ((sunSchedule n).map fun pq => jarr [jnat pq.1, jnat pq.2])
    else
      pure <| jarr ((← schedule mesh n).map jstep)
  | "dec.pattern" => some do
    let n ← getNat j "n"
    let l ← schedule (← getStr j "mesh") n
    let Z := ofTablePat (runPatTab n (tabulatePat n noZeros) l)
    pure <| Json.mkObj [("lowerDone", Json.bool (lowerDone n Z)),
      ("zeros", jarr ((List.range n).map fun i => jarr ((List.range n).map fun k => Json.bool (Z i k))))]
  | "dec.runExact" => some do
    let (n, U) ← asMat (← j.getObjVal? "U")
    let mz ← getBool j "mz"
    let l ← schedule (← getStr j "mesh") n
    match runExact mz n (tabulate n U) l with
    | none => pure Json.null
    | some (brs, V) =>
      pure <| Json.mkObj [("branches", jarr (brs.map fun b => Json.str (branchStr b))), ("V", jmat n (ofTable V))]
  | "dec.absorb" => some do
    let m ← getNat j "m"
    pure <| jarr ((absorbUpdates m).map fun u => jarr [
      Json.str (match u.slot with | .sigma => "sigma" | .edge => "edge" | .out => "out"),
      jnat u.mode, jnat u.layer, Json.bool u.plus, jnat u.j])
  | "dec.takagiOrder" => some do
    let l ← asIntList (← j.getObjVal? "l")
    pure <| Json.mkObj [("order", jarr ((takagiOrder l).map fun p => jarr [jint p.1, jnat p.2])),
      ("phaseSq", intList (l.map takagiPhaseSq))]
  | "dec.bmPerm" => some do
    let n ← getNat j "n"
    pure <| natList ((List.range (2 * n)).map (bmPerm n))
  | _ => none

end SFV.Drv.Decomp
