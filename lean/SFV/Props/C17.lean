import SFV.Proofs.Decomp
import Mathlib.Algebra.Group.End

/-!
# C17 — matrix decompositions return exact, correctly structured factors

Statements about the model `SFV.Model.Decomp` (the algebraic skeleton of
`strawberryfields/decompositions.py`).  Scalars are an arbitrary commutative ring `K` (so the
statements hold over ℝ), complex numbers are pairs, angles enter through the atoms
`c = cos θ`, `s = sin θ`, `e = e^{iφ}` together with the relation the code establishes by
`arctan` / `angle` / `arctan2`.  LAPACK factors (`eigh`, `svd`, `schur`, `polar`, `sqrtm`) enter
the structure lemmas as hypotheses; they are validated per call by the certificate oracle of
`harness/props/c17.py`.
-/
namespace SFV.C17

open SFV.Decomp SFV.Decomp.Cx

variable {K : Type} [CommRing K]

/-! ## (1) `null_step`: the chosen block zeroes the target entry, in every branch -/

/-- **`nullTi(m, n, U)`** nulls `(U ⋅ Ti(n, n+1, θ, φ))[m, n]`: identity-like branch (`U[m,n] = 0`),
divide-by-zero branch (`U[m,n+1] = 0`), generic branch (`U[m,n] / U[m,n+1] = ρ e`, `tan θ = ρ`, `e = e^{iφ}`). -/
theorem null_step_Ti (U : CMat K) (m n : Nat) :
    (U m n = 0 → rightMix U (blkTi 1 0 1) n (n + 1) m n = 0) ∧
    (U m (n + 1) = 0 → rightMix U (blkTi 0 1 1) n (n + 1) m n = 0) ∧
    (∀ (c s ρ : K) (e : Cx K), e.re * e.re + e.im * e.im = 1 → s = ρ * c →
      U m n = ofReal ρ * e * U m (n + 1) → rightMix U (blkTi c s e) n (n + 1) m n = 0) :=
  ⟨nullTi_zero U m n, nullTi_swap U m n, fun c s ρ e he hs hr => nullTi_generic U m n c s ρ e he hs hr⟩

/-- **`nullT(p+1, m, U)`** nulls `(T(p, p+1, θ, φ) ⋅ U)[p+1, m]` (`−U[p+1,m] / U[p,m] = ρ e`). -/
theorem null_step_T (U : CMat K) (p m : Nat) :
    (U (p + 1) m = 0 → leftMix (blkT 1 0 1) p (p + 1) U (p + 1) m = 0) ∧
    (U p m = 0 → leftMix (blkT 0 1 1) p (p + 1) U (p + 1) m = 0) ∧
    (∀ (c s ρ : K) (e : Cx K), s = ρ * c → U (p + 1) m = -(ofReal ρ * e * U p m) →
      leftMix (blkT c s e) p (p + 1) U (p + 1) m = 0) :=
  ⟨nullT_zero U p m, nullT_swap U p m, fun c s ρ e hs hr => nullT_generic U p m c s ρ e hs hr⟩

/-- **`nullMZi(m, n, U)`** nulls `(U ⋅ mach_zehnder_inv(n, n+1, φ_i, φ_e))[m, n]`
(`−U[m,n+1] / U[m,n] = ρ ε`, `tan(φ_i/2) = ρ`, `e^{iφ_e} = conj ε`; zero branch φ_i = π, swap branch φ_i = 0). -/
theorem null_step_MZi (U : CMat K) (m n : Nat) :
    (U m n = 0 → rightMix U (blkMZi 0 1 1) n (n + 1) m n = 0) ∧
    (U m (n + 1) = 0 → rightMix U (blkMZi 1 0 1) n (n + 1) m n = 0) ∧
    (∀ (c s ρ : K) (e : Cx K), s = ρ * c → U m (n + 1) = -(ofReal ρ * conj e * U m n) →
      rightMix U (blkMZi c s e) n (n + 1) m n = 0) :=
  ⟨nullMZi_zero U m n, nullMZi_swap U m n, fun c s ρ e hs hr => nullMZi_generic U m n c s ρ e hs hr⟩

/-- **`nullMZ(p+1, m, U)`** nulls `(mach_zehnder(p, p+1, φ_i, φ_e) ⋅ U)[p+1, m]`. -/
theorem null_step_MZ (U : CMat K) (p m : Nat) :
    (U (p + 1) m = 0 → leftMix (blkMZ 0 1 1) p (p + 1) U (p + 1) m = 0) ∧
    (U p m = 0 → leftMix (blkMZ 1 0 1) p (p + 1) U (p + 1) m = 0) ∧
    (∀ (c s ρ : K) (e : Cx K), e.re * e.re + e.im * e.im = 1 → s = ρ * c →
      U p m = ofReal ρ * conj e * U (p + 1) m → leftMix (blkMZ c s e) p (p + 1) U (p + 1) m = 0) :=
  ⟨nullMZ_zero U p m, nullMZ_swap U p m, fun c s ρ e he hs hr => nullMZ_generic U p m c s ρ e he hs hr⟩

/-- **sMZI steps of `triangular_compact` / `rectangular_compact`**: once the preceding phase shifter has given
the two entries a common phase `w`, `δ = arctan2(∓β, α)` nulls the target for every `σ` (column and row form;
the `V[x,y] = 0 ⇒ δ = π/2` branch is `α = 0, c = 0`). -/
theorem null_step_sMZI (V : CMat K) (x y : Nat) (c s α β : K) (e w : Cx K) :
    (V x y = ofReal α * w → V x (y + 1) = ofReal β * w → c * β + s * α = 0 →
      rightMix V (blkM c s e) y (y + 1) x y = 0) ∧
    (V (x + 1) y = ofReal α * w → V x y = ofReal β * w → c * β - s * α = 0 →
      leftMix (blkM c s e) x (x + 1) V (x + 1) y = 0) :=
  ⟨fun hA hB h => nullM_cols V x y c s α β e w hA hB h, fun hA hB h => nullM_rows V x y c s α β e w hA hB h⟩

/-- the executable branch selection (`nullBranch` + the atoms of the two non-generic branches), as run by the
driver on permutation-like inputs, nulls its target — all four helpers. -/
theorem null_step_exact [DecidableEq K] (U : CMat K) (m n : Nat) (c s : K) :
    (branchAtomsT (nullBranch (U m n) (U m (n + 1))) = some (c, s) →
      rightMix U (blkTi c s 1) n (n + 1) m n = 0) ∧
    (branchAtomsT (nullBranch (U (m + 1) n) (U m n)) = some (c, s) →
      leftMix (blkT c s 1) m (m + 1) U (m + 1) n = 0) ∧
    (branchAtomsMZ (nullBranch (U m n) (U m (n + 1))) = some (c, s) →
      rightMix U (blkMZi c s 1) n (n + 1) m n = 0) ∧
    (branchAtomsMZ (nullBranch (U (m + 1) n) (U m n)) = some (c, s) →
      leftMix (blkMZ c s 1) m (m + 1) U (m + 1) n = 0) :=
  ⟨exact_branch_Ti U m n c s, exact_branch_T U m n c s, exact_branch_MZi U m n c s, exact_branch_MZ U m n c s⟩

/-! ## (2) `zero_pattern`: mixing two rows / columns keeps the zeros both of them share -/

/-- If the Boolean pattern `Z` marks only genuine zeros of `U`, then after any row mix on `(p, p+1)` that
nulls `(tr, tc)` (resp. any column mix), the updated pattern marks only genuine zeros of the updated matrix.
Phase shifters keep the pattern. -/
theorem zero_pattern (Z : Pat) (U : CMat K) (b : Blk K) (e : Cx K) (p tr tc : Nat) (hd : Describes Z U) :
    (leftMix b p (p + 1) U tr tc = 0 →
      Describes (applyStep Z ⟨true, p, tr, tc⟩) (leftMix b p (p + 1) U)) ∧
    (rightMix U b p (p + 1) tr tc = 0 →
      Describes (applyStep Z ⟨false, p, tr, tc⟩) (rightMix U b p (p + 1))) ∧
    Describes Z (leftPhase e p U) ∧ Describes Z (rightPhase U e p) :=
  ⟨describes_rows Z U b p tr tc hd, describes_cols Z U b p tr tc hd,
   describes_leftPhase Z U e p hd, describes_rightPhase Z U e p hd⟩

/-- hence along a whole run that follows a schedule -/
theorem zero_pattern_run (U U' : CMat K) (l : List Step) (h : Follows U l U') :
    Describes (runPat noZeros l) U' :=
  follows_describes h noZeros (describes_noZeros U)

/-! ## (3) the schedules, for every size

Full statement (DESIGN §4): after the source's loop order every *off-diagonal* entry is zero.  What is proved,
for every `n`: every entry *below* the diagonal is zero (Boolean pattern, and for every run of actual matrices
that follows the schedule).  Missing for the full statement: "an upper triangular unitary matrix is diagonal"
(needs the unitarity of the input, which the Boolean abstraction does not carry); the real code relies on it
when it returns `np.diag(localV)`, and the oracle checks the reconstruction from that diagonal on every call. -/

/-- `triangular` (Reck), any size: after the loop order of the source, all entries below the diagonal are zero. -/
theorem schedule_triangular_partial (n : Nat) (U U' : CMat K) (h : Follows U (triSchedule n) U') :
    ∀ i k, k < i → i < n → U' i k = 0 := by
  intro i k hk hi
  have hp := reckFrom_inv n (n - 1) 0 noZeros (by omega) (by intro i k _ hk; omega)
  exact zero_pattern_run U U' _ h i k (hp i k hi (by omega) hk)

/-- `rectangular` / `rectangular_MZ` / `rectangular_compact` (Clements), any size. -/
theorem schedule_rectangular_partial (n : Nat) (U U' : CMat K) (h : Follows U (rectSchedule n) U') :
    ∀ i k, k < i → i < n → U' i k = 0 := by
  intro i k hk hi
  have hp := clementsFrom_inv n (n - 1) 0 noZeros (by omega) (low_noZeros n)
  exact zero_pattern_run U U' _ h i k (hp i k hi (by omega))

/-- `triangular_compact`, any size. -/
theorem schedule_triangular_compact_partial (n : Nat) (U U' : CMat K)
    (h : Follows U (triCompactSchedule n) U') : ∀ i k, k < i → i < n → U' i k = 0 := by
  intro i k hk hi
  have hp := triCompactFrom_inv n (n - 1) 0 noZeros (by omega) (low_noZeros n)
  exact zero_pattern_run U U' _ h i k (hp i k hi (by omega))

/-- the Boolean statements themselves (what the driver's `dec.pattern` evaluates) -/
theorem schedule_patterns (n : Nat) :
    (∀ i k, k < i → i < n → runPat noZeros (triSchedule n) i k = true) ∧
    (∀ i k, k < i → i < n → runPat noZeros (rectSchedule n) i k = true) ∧
    (∀ i k, k < i → i < n → runPat noZeros (triCompactSchedule n) i k = true) :=
  ⟨fun i k hk hi => reckFrom_inv n (n - 1) 0 noZeros (by omega) (by intro i k _ hk; omega) i k hi (by omega) hk,
   fun i k hk hi => clementsFrom_inv n (n - 1) 0 noZeros (by omega) (low_noZeros n) i k hi (by omega),
   fun i k hk hi => triCompactFrom_inv n (n - 1) 0 noZeros (by omega) (low_noZeros n) i k hi (by omega)⟩

/-! ## (4) `reconstruct`: the recorded factors multiply back to the input -/

/-- In any monoid of matrices: if the elimination loop, multiplying the recorded factors from the left (`inl`)
and from the right (`inr`) in any interleaving, ends in `D`, then the input is
`T₁⁻¹ ⋯ T_k⁻¹ ⋅ D ⋅ R_l⁻¹ ⋯ R₁⁻¹` — the documented meaning of `(tilist, diag, tlist)`. -/
theorem reconstruct {G : Type} [Monoid G] (V D : G) (l : List (G ⊕ G)) (inv : G → G)
    (hl : ∀ t ∈ lefts l, inv t * t = 1) (hr : ∀ t ∈ rights l, t * inv t = 1) (h : runElim V l = D) :
    V = prodL ((lefts l).map inv) * D * prodL ((rights l).reverse.map inv) :=
  reconstruct_eq V D l inv hl hr h

/-- `rectangular_phase_end`: pushing an inverse beamsplitter through the diagonal,
`T(θ,φ)⁻¹ diag(a, b) = diag(a', b') T(θ, φ')` with `e^{iφ'} = −a conj b`, `a' = −b conj f`, `b' = b`. -/
theorem reconstruct_push_phase (c s : K) (a b f : Cx K) (hb : b.re * b.re + b.im * b.im = 1) :
    let f' : Cx K := -(a * conj b)
    let a' : Cx K := -(b * conj f)
    (blkTi c s f).a * a = a' * (blkT c s f').a ∧ (blkTi c s f).b * b = a' * (blkT c s f').b ∧
    (blkTi c s f).c * a = b * (blkT c s f').c ∧ (blkTi c s f).d * b = b * (blkT c s f').d :=
  push_phase c s a b f hb

/-! ## (5) structure lemmas: `williamson`, `bloch_messiah`, `takagi` -/

/-- `williamson`: given `M = V^{-1/2}` symmetric, `K` orthogonal, `R = √Db` symmetric, the returned
`S = ((M K R)⁻¹)ᵀ` satisfies `S Db Sᵀ = V`; and `M K R` preserves `Ω` when the Schur factor satisfies its
defining equations. -/
theorem williamson_structure {G : Type} [Group G] (T : Transp G) (V Ω M Ko R s1 : G) (hM : T.t M = M)
    (hK : T.t Ko = Ko⁻¹) (hR : T.t R = R) (hV : M * V * M = 1)
    (hschur : T.t Ko * (M * Ω * M) * Ko = s1) (hs : R * s1 * R = Ω) :
    T.t (M * Ko * R)⁻¹ * (R * R) * T.t (T.t (M * Ko * R)⁻¹) = V ∧
    T.t (M * Ko * R) * Ω * (M * Ko * R) = Ω :=
  ⟨williamson_factors T V M Ko R hM hK hR hV, williamson_symplectic T Ω M Ko R s1 hM hR hschur hs⟩

/-- `bloch_messiah` (active branch): with `S = σ u`, `σ = W D Wᵀ`, and `Q` orthogonal, the returned triple
`(W Q, Qᵀ D Q, (W Q)ᵀ u)` multiplies back to `S` and its outer factor is orthogonal. -/
theorem bloch_messiah_structure {G : Type} [Monoid G] (W Wt Q Qt D u : G)
    (hQ : Q * Qt = 1) (hQ' : Qt * Q = 1) (hW : Wt * W = 1) :
    (W * Q) * (Qt * D * Q) * ((Qt * Wt) * u) = (W * D * Wt) * u ∧ (Qt * Wt) * (W * Q) = 1 :=
  ⟨bloch_messiah_factors W Wt Q Qt D u hQ, bloch_messiah_orthogonal W Wt Q Qt hW hQ'⟩

/-- Full statement for `bloch_messiah`: the outer factors are also *symplectic*.  Proved under the hypothesis
the proof forces — the basis change `Q` built from the per-group SVDs preserves the restricted form — which
fails for the group of unit singular values (see the counterexample below; known finding). -/
theorem bloch_messiah_symplectic_partial {G : Type} [Monoid G] (W Wt Q Qt Ω Ω' : G)
    (hW : Wt * Ω * W = Ω') (hQ : Qt * Ω' * Q = Ω) : (Qt * Wt) * Ω * (W * Q) = Ω := by
  calc (Qt * Wt) * Ω * (W * Q) = Qt * (Wt * Ω * W) * Q := by simp [mul_assoc]
    _ = Ω := by rw [hW, hQ]

/-- the symplectic form of two modes (xxpp) and an orthonormal basis in the order `(x₁, p₁, x₂, p₂)` -/
def cexΩ : Nat → Nat → Int := fun a b => if a + 2 = b then 1 else if b + 2 = a then -1 else 0
def cexB : Nat → Nat → Int := fun a i =>
  if (a, i) = (0, 0) ∨ (a, i) = (2, 1) ∨ (a, i) = (1, 2) ∨ (a, i) = (3, 3) then 1 else 0

/-- known finding: for two unsqueezed modes an orthonormal eigenbasis of the unit-singular-value subspace may
come in the order `(x₁, p₁, x₂, p₂)`; the block of the restricted form between its first and second half — the
matrix whose SVD `bloch_messiah` uses to build `Q` — is then zero, not orthogonal (while the form itself is
non-degenerate on that basis), so no `Q` of the assumed block shape satisfies the hypothesis of
`bloch_messiah_symplectic_partial`. -/
theorem bloch_messiah_unit_block_counterexample :
    restrictForm 4 cexΩ cexB 0 2 = 0 ∧ restrictForm 4 cexΩ cexB 0 3 = 0 ∧
    restrictForm 4 cexΩ cexB 1 2 = 0 ∧ restrictForm 4 cexΩ cexB 1 3 = 0 ∧
    restrictForm 4 cexΩ cexB 0 1 = 1 ∧ restrictForm 4 cexΩ cexB 2 3 = 1 := by
  decide

/-- `takagi`, real branch: `phase² ⋅ |λ| = λ` for both signs and for zero, hence
`(U diag(phases)) diag(|λ|) (U diag(phases))ᵀ = U diag(λ) Uᵀ`. -/
theorem takagi_real_structure {K : Type} [CommRing K] [LT K] [DecidableRel (fun a b : K => a < b)] (l : K) :
    (if 0 < l then (1 : K) else -1) * (if 0 < l then l else -l) = l :=
  takagi_real_entry l

/-- `takagi`, complex branch groups singular values by `np.round(·, rounding)`.  What holds: values in one
group are closer than one unit of the rounding precision. -/
theorem takagi_grouping_partial (a b : Int) (h : roundKey a = roundKey b) : a - b < 100 ∧ b - a < 100 :=
  roundKey_close a b h

/-- known finding: the converse fails — two singular values that differ by 2 % of the rounding unit can fall
into different groups (…49 and …51), although the SVD cannot separate their singular vectors; the degenerate-subspace
correction is then skipped and the returned `U` is not unitary. -/
theorem takagi_grouping_counterexample : ¬ ∀ a b : Int, a - b < 3 → b - a < 3 → roundKey a = roundKey b := by
  intro h; exact absurd (h 100000000000049 100000000000051 (by decide) (by decide)) (by decide)

/-! ## non-vacuity -/

/-- generic branch of `nullTi` over ℤ: `ρ = 2`, `e = i`, `U[2,2] = 1 + 2i`, `U[2,1] = ρ e U[2,2] = −4 + 2i` -/
example : ∃ U : CMat Int, U 2 1 ≠ 0 ∧ U 2 2 ≠ 0 ∧ U 2 1 = ofReal 2 * ⟨0, 1⟩ * U 2 2 ∧
    rightMix U (blkTi 3 6 ⟨0, 1⟩) 1 2 2 1 = 0 :=
  ⟨fun i j => if i = 2 ∧ j = 1 then ⟨-4, 2⟩ else if i = 2 ∧ j = 2 then ⟨1, 2⟩ else 0,
   by decide, by decide, by decide, by decide⟩
/-- generic branch of `nullT`, `nullMZi`, `nullMZ` -/
example : ∃ U : CMat Int, U 1 0 ≠ 0 ∧ U 2 0 = -(ofReal 2 * ⟨0, 1⟩ * U 1 0) ∧
    leftMix (blkT 3 6 ⟨0, 1⟩) 1 2 U 2 0 = 0 :=
  ⟨fun i j => if i = 1 ∧ j = 0 then ⟨1, 2⟩ else if i = 2 ∧ j = 0 then ⟨4, -2⟩ else 0,
   by decide, by decide, by decide⟩
example : ∃ U : CMat Int, U 2 1 ≠ 0 ∧ U 2 2 = -(ofReal 2 * conj ⟨0, 1⟩ * U 2 1) ∧
    rightMix U (blkMZi 3 6 ⟨0, 1⟩) 1 2 2 1 = 0 :=
  ⟨fun i j => if i = 2 ∧ j = 1 then ⟨1, 2⟩ else if i = 2 ∧ j = 2 then ⟨-4, 2⟩ else 0,
   by decide, by decide, by decide⟩
example : ∃ U : CMat Int, U 2 0 ≠ 0 ∧ U 1 0 = ofReal 2 * conj ⟨0, 1⟩ * U 2 0 ∧
    leftMix (blkMZ 3 6 ⟨0, 1⟩) 1 2 U 2 0 = 0 :=
  ⟨fun i j => if i = 2 ∧ j = 0 then ⟨1, 2⟩ else if i = 1 ∧ j = 0 then ⟨4, -2⟩ else 0,
   by decide, by decide, by decide⟩
/-- sMZI: `α = 3, β = 4`, `(c, s) ∝ (3, −4)`, common phase `w = 1 + i` -/
example : ∃ V : CMat Int, V 3 1 = ofReal 3 * ⟨1, 1⟩ ∧ V 3 2 = ofReal 4 * ⟨1, 1⟩ ∧
    rightMix V (blkM 3 (-4) ⟨0, 1⟩) 1 2 3 1 = 0 :=
  ⟨fun i j => if i = 3 ∧ j = 1 then ⟨3, 3⟩ else if i = 3 ∧ j = 2 then ⟨4, 4⟩ else 0, by decide, by decide, by decide⟩
/-- the exact runner takes the swap branch on the 2×2 exchange matrix -/
example : (runExact false 2 (tabulate 2 fun i j => if i + j = 1 then (1 : Cx Int) else 0) (rectSchedule 2)).map (·.1)
    = some [Branch.swap] := by decide

/-- a pattern that is kept and one that is destroyed by a column mix -/
example : applyStep (fun i j => decide (i = 3 ∧ j ≤ 1)) ⟨false, 0, 2, 0⟩ 3 1 = true ∧
    applyStep (fun i j => decide (i = 3 ∧ j = 0)) ⟨false, 0, 2, 0⟩ 3 0 = false := by decide

/-- the schedules for 5 modes have the documented lengths, zero the lower triangle, and a schedule with one
step missing or with the sweeps in the wrong direction does not (tests by evaluation, not theorems) -/
example : (triSchedule 5).length = 10 ∧ (rectSchedule 5).length = 10 ∧ (triCompactSchedule 5).length = 10 ∧
    lowerDone 5 (runPat noZeros (triSchedule 5)) = true ∧ lowerDone 5 (runPat noZeros (rectSchedule 5)) = true ∧
    lowerDone 5 (runPat noZeros (triCompactSchedule 5)) = true ∧
    lowerDone 5 (runPat noZeros ((rectSchedule 5).drop 1)) = false ∧
    lowerDone 5 (runPat noZeros (rectSchedule 5).reverse) = false := by decide

/-- a run of actual matrices following the 2-mode schedule: the exchange matrix, swap branch -/
example : Follows (fun i j => if i + j = 1 then (1 : Cx Int) else 0) (rectSchedule 2)
    (rightMix (fun i j => if i + j = 1 then (1 : Cx Int) else 0) (blkTi 0 1 1) 0 1) :=
  Follows.col _ (blkTi 0 1 1) 0 1 0 [] _ (by decide) (Follows.nil _)

/-- reconstruction in a non-commutative group (permutations of three points) -/
example : runElim (Equiv.swap (0 : Fin 3) 1) [.inl (Equiv.swap 1 2), .inr (Equiv.swap 0 2)]
    = Equiv.swap 1 2 * Equiv.swap (0 : Fin 3) 1 * Equiv.swap 0 2 := rfl

/-- the rounding key separates …49 from …51 and identifies …51 with …149 -/
example : roundKey 100000000000049 ≠ roundKey 100000000000051 ∧
    roundKey 100000000000051 = roundKey 100000000000149 := by decide

end SFV.C17
