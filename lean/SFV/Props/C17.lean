import SFV.Proofs.DecompMore
import Mathlib.Algebra.Group.End
import Mathlib.Tactic.FinCases

/-!
# C17 — matrix decompositions return exact, correctly structured factors

Statements about the model `SFV.Model.Decomp` (the algebraic skeleton of
`strawberryfields/decompositions.py`).  Scalars are an arbitrary commutative ring `K` (so the
statements hold over ℝ), complex numbers are pairs, angles enter through the atoms
`c = cos θ`, `s = sin θ`, `e = e^{iφ}` together with the relation the code establishes by
`arctan` / `angle` / `arctan2`.  LAPACK factors (`eigh`, `svd`, `schur`, `polar`, `sqrtm`) enter
the structure lemmas as hypotheses; they are validated per call by the certificate oracle of
`harness/props/c17.py`.
-/
namespace SFV.C17

open SFV.Decomp SFV.Decomp.Cx

variable {K : Type} [CommRing K]

/-! ## (1) `null_step`: the chosen block zeroes the target entry, in every branch -/

/-- **`nullTi(m, n, U)`** nulls `(U ⋅ Ti(n, n+1, θ, φ))[m, n]`: identity-like branch (`U[m,n] = 0`),
divide-by-zero branch (`U[m,n+1] = 0`), generic branch (`U[m,n] / U[m,n+1] = ρ e`, `tan θ = ρ`, `e = e^{iφ}`). -/
theorem null_step_Ti (U : CMat K) (m n : Nat) :
    (U m n = 0 → rightMix U (blkTi 1 0 1) n (n + 1) m n = 0) ∧
    (U m (n + 1) = 0 → rightMix U (blkTi 0 1 1) n (n + 1) m n = 0) ∧
    (∀ (c s ρ : K) (e : Cx K), e.re * e.re + e.im * e.im = 1 → s = ρ * c →
      U m n = ofReal ρ * e * U m (n + 1) → rightMix U (blkTi c s e) n (n + 1) m n = 0) :=
  ⟨nullTi_zero U m n, nullTi_swap U m n, fun c s ρ e he hs hr => nullTi_generic U m n c s ρ e he hs hr⟩

/-- **`nullT(p+1, m, U)`** nulls `(T(p, p+1, θ, φ) ⋅ U)[p+1, m]` (`−U[p+1,m] / U[p,m] = ρ e`). -/
theorem null_step_T (U : CMat K) (p m : Nat) :
    (U (p + 1) m = 0 → leftMix (blkT 1 0 1) p (p + 1) U (p + 1) m = 0) ∧
    (U p m = 0 → leftMix (blkT 0 1 1) p (p + 1) U (p + 1) m = 0) ∧
    (∀ (c s ρ : K) (e : Cx K), s = ρ * c → U (p + 1) m = -(ofReal ρ * e * U p m) →
      leftMix (blkT c s e) p (p + 1) U (p + 1) m = 0) :=
  ⟨nullT_zero U p m, nullT_swap U p m, fun c s ρ e hs hr => nullT_generic U p m c s ρ e hs hr⟩

/-- **`nullMZi(m, n, U)`** nulls `(U ⋅ mach_zehnder_inv(n, n+1, φ_i, φ_e))[m, n]`
(`−U[m,n+1] / U[m,n] = ρ ε`, `tan(φ_i/2) = ρ`, `e^{iφ_e} = conj ε`; zero branch φ_i = π, swap branch φ_i = 0). -/
theorem null_step_MZi (U : CMat K) (m n : Nat) :
    (U m n = 0 → rightMix U (blkMZi 0 1 1) n (n + 1) m n = 0) ∧
    (U m (n + 1) = 0 → rightMix U (blkMZi 1 0 1) n (n + 1) m n = 0) ∧
    (∀ (c s ρ : K) (e : Cx K), s = ρ * c → U m (n + 1) = -(ofReal ρ * conj e * U m n) →
      rightMix U (blkMZi c s e) n (n + 1) m n = 0) :=
  ⟨nullMZi_zero U m n, nullMZi_swap U m n, fun c s ρ e hs hr => nullMZi_generic U m n c s ρ e hs hr⟩

/-- **`nullMZ(p+1, m, U)`** nulls `(mach_zehnder(p, p+1, φ_i, φ_e) ⋅ U)[p+1, m]`. -/
theorem null_step_MZ (U : CMat K) (p m : Nat) :
    (U (p + 1) m = 0 → leftMix (blkMZ 0 1 1) p (p + 1) U (p + 1) m = 0) ∧
    (U p m = 0 → leftMix (blkMZ 1 0 1) p (p + 1) U (p + 1) m = 0) ∧
    (∀ (c s ρ : K) (e : Cx K), e.re * e.re + e.im * e.im = 1 → s = ρ * c →
      U p m = ofReal ρ * conj e * U (p + 1) m → leftMix (blkMZ c s e) p (p + 1) U (p + 1) m = 0) :=
  ⟨nullMZ_zero U p m, nullMZ_swap U p m, fun c s ρ e he hs hr => nullMZ_generic U p m c s ρ e he hs hr⟩

/-- **sMZI steps of `triangular_compact` / `rectangular_compact`**: once the preceding phase shifter has given
the two entries a common phase `w`, `δ = arctan2(∓β, α)` nulls the target for every `σ` (column and row form;
the `V[x,y] = 0 ⇒ δ = π/2` branch is `α = 0, c = 0`). -/
theorem null_step_sMZI (V : CMat K) (x y : Nat) (c s α β : K) (e w : Cx K) :
    (V x y = ofReal α * w → V x (y + 1) = ofReal β * w → c * β + s * α = 0 →
      rightMix V (blkM c s e) y (y + 1) x y = 0) ∧
    (V (x + 1) y = ofReal α * w → V x y = ofReal β * w → c * β - s * α = 0 →
      leftMix (blkM c s e) x (x + 1) V (x + 1) y = 0) :=
  ⟨fun hA hB h => nullM_cols V x y c s α β e w hA hB h, fun hA hB h => nullM_rows V x y c s α β e w hA hB h⟩

/-- the executable branch selection (`nullBranch` + the atoms of the two non-generic branches), as run by the
driver on permutation-like inputs, nulls its target — all four helpers. -/
theorem null_step_exact [DecidableEq K] (U : CMat K) (m n : Nat) (c s : K) :
    (branchAtomsT (nullBranch (U m n) (U m (n + 1))) = some (c, s) →
      rightMix U (blkTi c s 1) n (n + 1) m n = 0) ∧
    (branchAtomsT (nullBranch (U (m + 1) n) (U m n)) = some (c, s) →
      leftMix (blkT c s 1) m (m + 1) U (m + 1) n = 0) ∧
    (branchAtomsMZ (nullBranch (U m n) (U m (n + 1))) = some (c, s) →
      rightMix U (blkMZi c s 1) n (n + 1) m n = 0) ∧
    (branchAtomsMZ (nullBranch (U (m + 1) n) (U m n)) = some (c, s) →
      leftMix (blkMZ c s 1) m (m + 1) U (m + 1) n = 0) :=
  ⟨exact_branch_Ti U m n c s, exact_branch_T U m n c s, exact_branch_MZi U m n c s, exact_branch_MZ U m n c s⟩

/-! ## (2) `zero_pattern`: mixing two rows / columns keeps the zeros both of them share -/

/-- If the Boolean pattern `Z` marks only genuine zeros of `U`, then after any row mix on `(p, p+1)` that
nulls `(tr, tc)` (resp. any column mix), the updated pattern marks only genuine zeros of the updated matrix.
Phase shifters keep the pattern. -/
theorem zero_pattern (Z : Pat) (U : CMat K) (b : Blk K) (e : Cx K) (p tr tc : Nat) (hd : Describes Z U) :
    (leftMix b p (p + 1) U tr tc = 0 →
      Describes (applyStep Z ⟨true, p, tr, tc⟩) (leftMix b p (p + 1) U)) ∧
    (rightMix U b p (p + 1) tr tc = 0 →
      Describes (applyStep Z ⟨false, p, tr, tc⟩) (rightMix U b p (p + 1))) ∧
    Describes Z (leftPhase e p U) ∧ Describes Z (rightPhase U e p) :=
  ⟨describes_rows Z U b p tr tc hd, describes_cols Z U b p tr tc hd,
   describes_leftPhase Z U e p hd, describes_rightPhase Z U e p hd⟩

/-- hence along a whole run that follows a schedule -/
theorem zero_pattern_run (U U' : CMat K) (l : List Step) (h : Follows U l U') :
    Describes (runPat noZeros l) U' :=
  follows_describes h noZeros (describes_noZeros U)

/-! ## (3) the schedules, for every size — full strength

A run `UFollows n U sched U'` multiplies, step by step in the order of the source's loops, by *unitary* 2×2
blocks on the scheduled mode pair from the scheduled side (and by unit phases, for the compact meshes), each
nulling its scheduled entry.  If the input passes the code's own test `V V† = 1`, the final matrix is diagonal
with unit-modulus entries — what the code returns as `np.diag(localV)`.  Scalars: any ordered commutative ring
(ℚ, ℝ); the zero lower triangle needs neither order nor unitarity (`schedule_lower`). -/

section full
set_option linter.unusedSectionVars false
variable {K : Type} [CommRing K] [LinearOrder K] [IsStrictOrderedRing K]

/-- `triangular` (Reck), any size. -/
theorem schedule_triangular (n : Nat) (U U' : CMat K) (hu : toM n U * (toM n U).conjTranspose = 1)
    (h : UFollows n U (triSchedule n) U') :
    (∀ i k, i < n → k < n → i ≠ k → U' i k = 0) ∧ (∀ i, i < n → normSq (U' i i) = 1) := by
  have hu' := (h.isU (isU_of_mul_conjTranspose _ hu)).1
  have hlow : ∀ i k, k < i → i < n → U' i k = 0 := fun i k hk hi =>
    follows_describes h.follows noZeros (describes_noZeros U) i k
      (reckFrom_inv n (n - 1) 0 noZeros (by omega) (by intro i k _ hk; omega) i k hi (by omega) hk)
  exact ⟨diagonal_of_lower_unitary U' hu' hlow, diag_normSq_of_lower_unitary U' hu' hlow⟩

/-- `rectangular`, `rectangular_MZ` (hence `rectangular_phase_end`, `rectangular_symmetric`) and
`rectangular_compact` (Clements), any size. -/
theorem schedule_rectangular (n : Nat) (U U' : CMat K) (hu : toM n U * (toM n U).conjTranspose = 1)
    (h : UFollows n U (rectSchedule n) U') :
    (∀ i k, i < n → k < n → i ≠ k → U' i k = 0) ∧ (∀ i, i < n → normSq (U' i i) = 1) := by
  have hu' := (h.isU (isU_of_mul_conjTranspose _ hu)).1
  have hlow : ∀ i k, k < i → i < n → U' i k = 0 := fun i k hk hi =>
    follows_describes h.follows noZeros (describes_noZeros U) i k
      (clementsFrom_inv n (n - 1) 0 noZeros (by omega) (low_noZeros n) i k hi (by omega))
  exact ⟨diagonal_of_lower_unitary U' hu' hlow, diag_normSq_of_lower_unitary U' hu' hlow⟩

/-- `triangular_compact`, any size. -/
theorem schedule_triangular_compact (n : Nat) (U U' : CMat K) (hu : toM n U * (toM n U).conjTranspose = 1)
    (h : UFollows n U (triCompactSchedule n) U') :
    (∀ i k, i < n → k < n → i ≠ k → U' i k = 0) ∧ (∀ i, i < n → normSq (U' i i) = 1) := by
  have hu' := (h.isU (isU_of_mul_conjTranspose _ hu)).1
  have hlow : ∀ i k, k < i → i < n → U' i k = 0 := fun i k hk hi =>
    follows_describes h.follows noZeros (describes_noZeros U) i k
      (triCompactFrom_inv n (n - 1) 0 noZeros (by omega) (low_noZeros n) i k hi (by omega))
  exact ⟨diagonal_of_lower_unitary U' hu' hlow, diag_normSq_of_lower_unitary U' hu' hlow⟩

/-- the two ingredients on their own: unitarity is carried along any run with unitary blocks and unit phases, and
a unitary matrix with a zero lower triangle is diagonal (row/column norms, induction on the row index). -/
theorem run_preserves_unitarity (n : Nat) (U U' : CMat K) (l : List Step) (h : UFollows n U l U')
    (hu : toM n U * (toM n U).conjTranspose = 1) : toM n U' * (toM n U').conjTranspose = 1 :=
  (h.isU (isU_of_mul_conjTranspose _ hu)).1

theorem triangular_unitary_diagonal (n : Nat) (U : CMat K) (hu : toM n U * (toM n U).conjTranspose = 1)
    (hlow : ∀ i k, k < i → i < n → U i k = 0) : ∀ i k, i < n → k < n → i ≠ k → U i k = 0 :=
  diagonal_of_lower_unitary U hu hlow

end full

/-- the blocks the code uses are unitary (so that runs of the real meshes are `UFollows` runs): `T`, `Ti`,
`mach_zehnder`, `mach_zehnder_inv`, the sMZI, the staircase rotation of `sun_compact`. -/
theorem blocks_unitary (c s : K) (e Y Z : Cx K) (hcs : c * c + s * s = 1) (he : e.re * e.re + e.im * e.im = 1)
    (hn : Y * conj Y + Z * conj Z = 1) :
    (blkT c s e).IsUnitary ∧ (blkTi c s e).IsUnitary ∧ (blkMZ c s e).IsUnitary ∧ (blkMZi c s e).IsUnitary ∧
    (blkM c s e).IsUnitary ∧ (⟨conj Y, conj Z, -Z, Y⟩ : Blk K).IsUnitary :=
  ⟨blkT_isUnitary c s e hcs he, blkTi_isUnitary c s e hcs he, blkMZ_isUnitary c s e hcs he,
   blkMZi_isUnitary c s e hcs he, blkM_isUnitary c s e hcs he, staircase_block_unitary Y Z hn⟩

/-- zero lower triangle for runs with arbitrary blocks over any commutative ring (no unitarity needed) -/
theorem schedule_lower (n : Nat) (U U' : CMat K) :
    (Follows U (triSchedule n) U' → ∀ i k, k < i → i < n → U' i k = 0) ∧
    (Follows U (rectSchedule n) U' → ∀ i k, k < i → i < n → U' i k = 0) ∧
    (Follows U (triCompactSchedule n) U' → ∀ i k, k < i → i < n → U' i k = 0) :=
  ⟨fun h i k hk hi => zero_pattern_run U U' _ h i k
      (reckFrom_inv n (n - 1) 0 noZeros (by omega) (by intro i k _ hk; omega) i k hi (by omega) hk),
   fun h i k hk hi => zero_pattern_run U U' _ h i k
      (clementsFrom_inv n (n - 1) 0 noZeros (by omega) (low_noZeros n) i k hi (by omega)),
   fun h i k hk hi => zero_pattern_run U U' _ h i k
      (triCompactFrom_inv n (n - 1) 0 noZeros (by omega) (low_noZeros n) i k hi (by omega))⟩

/-- the pattern the driver evaluates (`dec.pattern`, tabulated after each step) is the proved `runPat` -/
theorem driver_pattern_is_model (n : Nat) (l : List Step) (hl : ∀ s ∈ l, s.p + 1 < n) (i j : Nat) (hi : i < n)
    (hj : j < n) : ofTablePat (runPatTab n (tabulatePat n noZeros) l) i j = runPat noZeros l i j :=
  runPatTab_eq n l _ noZeros hl (fun i j hi hj => ofTablePat_tabulatePat n noZeros i j hi hj) i j hi hj

/-- and the tabulated matrices of `dec.runExact` / `dec.mix` are the model's matrices inside the matrix -/
theorem driver_table_is_model {K : Type} [Zero K] (n : Nat) (U : CMat K) (i j : Nat) (hi : i < n) (hj : j < n) :
    ofTable (tabulate n U) i j = U i j :=
  ofTable_tabulate n U i j hi hj

/-- the Boolean statements themselves (what the driver's `dec.pattern` evaluates) -/
theorem schedule_patterns (n : Nat) :
    (∀ i k, k < i → i < n → runPat noZeros (triSchedule n) i k = true) ∧
    (∀ i k, k < i → i < n → runPat noZeros (rectSchedule n) i k = true) ∧
    (∀ i k, k < i → i < n → runPat noZeros (triCompactSchedule n) i k = true) :=
  ⟨fun i k hk hi => reckFrom_inv n (n - 1) 0 noZeros (by omega) (by intro i k _ hk; omega) i k hi (by omega) hk,
   fun i k hk hi => clementsFrom_inv n (n - 1) 0 noZeros (by omega) (low_noZeros n) i k hi (by omega),
   fun i k hk hi => triCompactFrom_inv n (n - 1) 0 noZeros (by omega) (low_noZeros n) i k hi (by omega)⟩

/-! ## (4) `reconstruct`: the recorded factors multiply back to the input -/

/-- In any monoid of matrices: if the elimination loop, multiplying the recorded factors from the left (`inl`)
and from the right (`inr`) in any interleaving, ends in `D`, then the input is
`T₁⁻¹ ⋯ T_k⁻¹ ⋅ D ⋅ R_l⁻¹ ⋯ R₁⁻¹` — the documented meaning of `(tilist, diag, tlist)`. -/
theorem reconstruct {G : Type} [Monoid G] (V D : G) (l : List (G ⊕ G)) (inv : G → G)
    (hl : ∀ t ∈ lefts l, inv t * t = 1) (hr : ∀ t ∈ rights l, t * inv t = 1) (h : runElim V l = D) :
    V = prodL ((lefts l).map inv) * D * prodL ((rights l).reverse.map inv) :=
  reconstruct_eq V D l inv hl hr h

/-- `rectangular_phase_end`: pushing an inverse beamsplitter through the diagonal,
`T(θ,φ)⁻¹ diag(a, b) = diag(a', b') T(θ, φ')` with `e^{iφ'} = −a conj b`, `a' = −b conj f`, `b' = b`. -/
theorem reconstruct_push_phase (c s : K) (a b f : Cx K) (hb : b.re * b.re + b.im * b.im = 1) :
    let f' : Cx K := -(a * conj b)
    let a' : Cx K := -(b * conj f)
    (blkTi c s f).a * a = a' * (blkT c s f').a ∧ (blkTi c s f).b * b = a' * (blkT c s f').b ∧
    (blkTi c s f).c * a = b * (blkT c s f').c ∧ (blkTi c s f).d * b = b * (blkT c s f').d :=
  push_phase c s a b f hb

/-- `rectangular_symmetric`: the same for Mach-Zehnder blocks, `MZ⁻¹ diag(a, b) = diag(a', b') MZ'` with
`e^{iφ_e'} = a conj b`, `a' = −b conj(e) conj(w)`, `b' = −b conj(w)`, `w = e^{iφ_i}`, `φ_i` unchanged. -/
theorem reconstruct_push_phase_MZ (c s : K) (a b e : Cx K) (hcs : c * c + s * s = 1)
    (hb : b.re * b.re + b.im * b.im = 1) :
    let w : Cx K := ⟨c * c - s * s, 2 * c * s⟩
    let e' : Cx K := a * conj b
    let a' : Cx K := -(b * conj e * conj w)
    let b' : Cx K := -(b * conj w)
    (blkMZi c s e).a * a = a' * (blkMZ c s e').a ∧ (blkMZi c s e).b * b = a' * (blkMZ c s e').b ∧
    (blkMZi c s e).c * a = b' * (blkMZ c s e').c ∧ (blkMZi c s e).d * b = b' * (blkMZ c s e').d :=
  push_phase_MZ c s a b e hcs hb

/-- `_absorb_zeta` (`rectangular_compact`): the relocation step `diag(f, 1) M(σ) = diag(1, conj f) M(σ + ζ)`, and,
for every size, every update goes to a parameter the circuit has: an sMZI position of the rectangular mesh
(mode and layer of equal parity, inside the mesh), an edge phase that is actually applied
(`(layer + m + 1) % 2 = 0`), or `phi_outs[0]` for even `m`; the residual phase index exists. -/
theorem absorb_zeta_structure (c s : K) (e f : Cx K) (hf : f.re * f.re + f.im * f.im = 1) (m : Nat) (hm : 1 ≤ m) :
    (f * (blkM c s e).a = (blkM c s (e * f)).a ∧ f * (blkM c s e).b = (blkM c s (e * f)).b ∧
     (blkM c s e).c = conj f * (blkM c s (e * f)).c ∧ (blkM c s e).d = conj f * (blkM c s (e * f)).d) ∧
    ∀ u ∈ absorbUpdates m, u.Valid m :=
  ⟨absorb_step c s e f hf, absorbUpdates_valid m hm⟩

/-- `sun_compact`: the general staircase rotation (normalised by the two entries it mixes, as after the fix)
sends `(y, z)` to `(cf, 0)`; the SU(2) block of the documented parametrisation is `[[u, −conj v], [v, conj u]]`
with the phases `_su2_parameters` reads off; in the typical SU(3) case `middle† left†` sends the first column to
`(1, 0, 0)`, so the remainder is `1 ⊕ SU(2)`. -/
theorem sun_steps (U : CMat K) (i : Nat) (cf c s : K) (x Y Z ea eg : Cx K) (hn : Y * conj Y + Z * conj Z = 1) :
    (U i 0 = ofReal cf * Y → U (i + 1) 0 = ofReal cf * Z →
      leftMix ⟨conj Y, conj Z, -Z, Y⟩ i (i + 1) U i 0 = ofReal cf ∧
      leftMix ⟨conj Y, conj Z, -Z, Y⟩ i (i + 1) U (i + 1) 0 = 0) ∧
    blkSU2 c s ea eg = ⟨ea * eg * ofReal c, -conj (conj ea * eg * ofReal s), conj ea * eg * ofReal s,
      conj (ea * eg * ofReal c)⟩ ∧
    (x * conj x + ofReal (cf * cf) = 1 →
      conj Y * (ofReal cf * Y) + conj Z * (ofReal cf * Z) = ofReal cf ∧ -Z * (ofReal cf * Y) + Y * (ofReal cf * Z) = 0 ∧
      conj x * x + ofReal cf * ofReal cf = 1 ∧ -(ofReal cf) * x + x * ofReal cf = 0) :=
  ⟨fun hy hz => staircase_step U i cf Y Z hn hy hz, su2_parameters_block c s ea eg,
   fun hx => su3_first_column x Y Z cf hn hx⟩

/-! ## (5) structure lemmas: `williamson`, `bloch_messiah`, `takagi` -/

/-- `williamson`: given `M = V^{-1/2}` symmetric, `K` orthogonal, `R = √Db` symmetric, the returned
`S = ((M K R)⁻¹)ᵀ` satisfies `S Db Sᵀ = V`; and `M K R` preserves `Ω` when the Schur factor satisfies its
defining equations. -/
theorem williamson_structure {G : Type} [Group G] (T : Transp G) (V Ω M Ko R s1 : G) (hM : T.t M = M)
    (hK : T.t Ko = Ko⁻¹) (hR : T.t R = R) (hV : M * V * M = 1)
    (hschur : T.t Ko * (M * Ω * M) * Ko = s1) (hs : R * s1 * R = Ω) :
    T.t (M * Ko * R)⁻¹ * (R * R) * T.t (T.t (M * Ko * R)⁻¹) = V ∧
    T.t (M * Ko * R) * Ω * (M * Ko * R) = Ω :=
  ⟨williamson_factors T V M Ko R hM hK hR hV, williamson_symplectic T Ω M Ko R s1 hM hR hschur hs⟩

/-- `bloch_messiah` (active branch): with `S = σ u`, `σ = W D Wᵀ`, and `Q` orthogonal, the returned triple
`(W Q, Qᵀ D Q, (W Q)ᵀ u)` multiplies back to `S` and its outer factor is orthogonal. -/
theorem bloch_messiah_structure {G : Type} [Monoid G] (W Wt Q Qt D u : G)
    (hQ : Q * Qt = 1) (hQ' : Qt * Q = 1) (hW : Wt * W = 1) :
    (W * Q) * (Qt * D * Q) * ((Qt * Wt) * u) = (W * D * Wt) * u ∧ (Qt * Wt) * (W * Q) = 1 :=
  ⟨bloch_messiah_factors W Wt Q Qt D u hQ, bloch_messiah_orthogonal W Wt Q Qt hW hQ'⟩

/-- `bloch_messiah`: the outer factors are *symplectic* when the basis change `Q` brings the restricted form
into canonical shape.  For `s ≠ 1` that is what the per-group SVD achieves; for the unit subspace the code (after
the fix) builds a symplectic basis of the whole subspace; the hypothesis is certificate-checked on every call. -/
theorem bloch_messiah_symplectic {G : Type} [Monoid G] (W Wt Q Qt Ω Ω' : G)
    (hW : Wt * Ω * W = Ω') (hQ : Qt * Ω' * Q = Ω) : (Qt * Wt) * Ω * (W * Q) = Ω := by
  calc (Qt * Wt) * Ω * (W * Q) = Qt * (Wt * Ω * W) * Q := by simp [mul_assoc]
    _ = Ω := by rw [hW, hQ]

/-- the symplectic form of two modes (xxpp) and an orthonormal basis in the order `(x₁, p₁, x₂, p₂)` -/
def cexΩ : Nat → Nat → Int := fun a b => if a + 2 = b then 1 else if b + 2 = a then -1 else 0
def cexB : Nat → Nat → Int := fun a i =>
  if (a, i) = (0, 0) ∨ (a, i) = (2, 1) ∨ (a, i) = (1, 2) ∨ (a, i) = (3, 3) then 1 else 0

/-- why the unit subspace needs its own construction (the defect repaired in `bloch_messiah`): for two
unsqueezed modes an orthonormal eigenbasis may come in the order `(x₁, p₁, x₂, p₂)`; the block of the restricted
form between its first and second half — whose SVD is used for the groups with `s ≠ 1` — is then zero, not
orthogonal, while the form itself is non-degenerate on that basis. -/
theorem bloch_messiah_unit_block_degenerate :
    restrictForm 4 cexΩ cexB 0 2 = 0 ∧ restrictForm 4 cexΩ cexB 0 3 = 0 ∧
    restrictForm 4 cexΩ cexB 1 2 = 0 ∧ restrictForm 4 cexΩ cexB 1 3 = 0 ∧
    restrictForm 4 cexΩ cexB 0 1 = 1 ∧ restrictForm 4 cexΩ cexB 2 3 = 1 := by
  decide

/-- `bloch_messiah`: the reordering `perm = range(n) + reversed(range(n, 2n))` is an involution of the indices (the
code relies on `pmat` being symmetric), and it turns decreasingly sorted singular values, which come in pairs
`ss(2n-1-i) = 1/ss(i)`, into `(s₁ … s_n, 1/s₁ … 1/s_n)`. -/
theorem bloch_messiah_permutation {α : Type} (n : Nat) (ss : Nat → α) (inv : α → α)
    (hpair : ∀ i, i < n → ss (2 * n - 1 - i) = inv (ss i)) :
    (∀ i, i < 2 * n → bmPerm n (bmPerm n i) = i ∧ bmPerm n i < 2 * n) ∧
    (∀ i, i < n → ss (bmPerm n i) = ss i ∧ ss (bmPerm n (n + i)) = inv (ss i)) :=
  ⟨fun i hi => bmPerm_involutive n i hi, fun i hi => bmPerm_pairs n ss inv hpair i hi⟩

/-- `takagi`, real branch: `phase² ⋅ |λ| = λ` for both signs and for zero, hence
`(U diag(phases)) diag(|λ|) (U diag(phases))ᵀ = U diag(λ) Uᵀ`. -/
theorem takagi_real_structure {K : Type} [CommRing K] [LT K] [DecidableRel (fun a b : K => a < b)] (l : K) :
    (if 0 < l then (1 : K) else -1) * (if 0 < l then l else -l) = l :=
  takagi_real_entry l

/-- `takagi`, real branch: the returned values are a rearrangement of `|λ_i|` (every position once, with its own
value), non-negative and in decreasing order — for every list of eigenvalues. -/
theorem takagi_real_order (l : List Int) :
    (takagiOrder l).Perm ((l.map fun x => (x.natAbs : Int)).zipIdx) ∧
    (∀ p ∈ takagiOrder l, 0 ≤ p.1 ∧ ∃ x, l[p.2]? = some x ∧ p.1 = (x.natAbs : Int)) ∧
    (takagiOrder l).Pairwise fun a b => b.1 ≤ a.1 :=
  ⟨takagiOrder_perm l, fun p hp => ⟨takagiOrder_nonneg l p hp, takagiOrder_index l p hp⟩, takagiOrder_sorted l⟩

/-- `takagi`, complex branch (after the fix: one square root for the whole matrix, no grouping of singular
values): with the SVD written as `N = v d conj(q) vᵀ`, any square root `r` of `conj q` that is symmetric and
commutes with `d` gives `U = v r` with `U d Uᵀ = N`. -/
theorem takagi_complex_structure {G : Type} [Monoid G] (v vt d cq r rt : G)
    (hsq : r * r = cq) (hsym : rt = r) (hcomm : r * d = d * r) :
    (v * r) * d * (rt * vt) = v * d * cq * vt :=
  takagi_complex_factors v vt d cq r rt hsq hsym hcomm

/-! ## non-vacuity -/

/-- generic branch of `nullTi` over ℤ: `ρ = 2`, `e = i`, `U[2,2] = 1 + 2i`, `U[2,1] = ρ e U[2,2] = −4 + 2i` -/
example : ∃ U : CMat Int, U 2 1 ≠ 0 ∧ U 2 2 ≠ 0 ∧ U 2 1 = ofReal 2 * ⟨0, 1⟩ * U 2 2 ∧
    rightMix U (blkTi 3 6 ⟨0, 1⟩) 1 2 2 1 = 0 :=
  ⟨fun i j => if i = 2 ∧ j = 1 then ⟨-4, 2⟩ else if i = 2 ∧ j = 2 then ⟨1, 2⟩ else 0,
   by decide, by decide, by decide, by decide⟩
/-- generic branch of `nullT`, `nullMZi`, `nullMZ` -/
example : ∃ U : CMat Int, U 1 0 ≠ 0 ∧ U 2 0 = -(ofReal 2 * ⟨0, 1⟩ * U 1 0) ∧
    leftMix (blkT 3 6 ⟨0, 1⟩) 1 2 U 2 0 = 0 :=
  ⟨fun i j => if i = 1 ∧ j = 0 then ⟨1, 2⟩ else if i = 2 ∧ j = 0 then ⟨4, -2⟩ else 0,
   by decide, by decide, by decide⟩
example : ∃ U : CMat Int, U 2 1 ≠ 0 ∧ U 2 2 = -(ofReal 2 * conj ⟨0, 1⟩ * U 2 1) ∧
    rightMix U (blkMZi 3 6 ⟨0, 1⟩) 1 2 2 1 = 0 :=
  ⟨fun i j => if i = 2 ∧ j = 1 then ⟨1, 2⟩ else if i = 2 ∧ j = 2 then ⟨-4, 2⟩ else 0,
   by decide, by decide, by decide⟩
example : ∃ U : CMat Int, U 2 0 ≠ 0 ∧ U 1 0 = ofReal 2 * conj ⟨0, 1⟩ * U 2 0 ∧
    leftMix (blkMZ 3 6 ⟨0, 1⟩) 1 2 U 2 0 = 0 :=
  ⟨fun i j => if i = 2 ∧ j = 0 then ⟨1, 2⟩ else if i = 1 ∧ j = 0 then ⟨4, -2⟩ else 0,
   by decide, by decide, by decide⟩
/-- sMZI: `α = 3, β = 4`, `(c, s) ∝ (3, −4)`, common phase `w = 1 + i` -/
example : ∃ V : CMat Int, V 3 1 = ofReal 3 * ⟨1, 1⟩ ∧ V 3 2 = ofReal 4 * ⟨1, 1⟩ ∧
    rightMix V (blkM 3 (-4) ⟨0, 1⟩) 1 2 3 1 = 0 :=
  ⟨fun i j => if i = 3 ∧ j = 1 then ⟨3, 3⟩ else if i = 3 ∧ j = 2 then ⟨4, 4⟩ else 0, by decide, by decide, by decide⟩
/-- the exact runner takes the swap branch on the 2×2 exchange matrix -/
example : (runExact false 2 (tabulate 2 fun i j => if i + j = 1 then (1 : Cx Int) else 0) (rectSchedule 2)).map (·.1)
    = some [Branch.swap] := by decide

/-- a pattern that is kept and one that is destroyed by a column mix -/
example : applyStep (fun i j => decide (i = 3 ∧ j ≤ 1)) ⟨false, 0, 2, 0⟩ 3 1 = true ∧
    applyStep (fun i j => decide (i = 3 ∧ j = 0)) ⟨false, 0, 2, 0⟩ 3 0 = false := by decide

/-- the schedules for 5 modes have the documented lengths, zero the lower triangle, and a schedule with one
step missing or with the sweeps in the wrong direction does not (tests by evaluation, not theorems) -/
example : (triSchedule 5).length = 10 ∧ (rectSchedule 5).length = 10 ∧ (triCompactSchedule 5).length = 10 ∧
    lowerDone 5 (runPat noZeros (triSchedule 5)) = true ∧ lowerDone 5 (runPat noZeros (rectSchedule 5)) = true ∧
    lowerDone 5 (runPat noZeros (triCompactSchedule 5)) = true ∧
    lowerDone 5 (runPat noZeros ((rectSchedule 5).drop 1)) = false ∧
    lowerDone 5 (runPat noZeros (rectSchedule 5).reverse) = false := by decide

/-- a run of actual matrices following the 2-mode schedule: the exchange matrix, swap branch -/
example : Follows (fun i j => if i + j = 1 then (1 : Cx Int) else 0) (rectSchedule 2)
    (rightMix (fun i j => if i + j = 1 then (1 : Cx Int) else 0) (blkTi 0 1 1) 0 1) :=
  Follows.col _ (blkTi 0 1 1) 0 1 0 [] _ (by decide) (Follows.nil _)

/-- reconstruction in a non-commutative group (permutations of three points) -/
example : runElim (Equiv.swap (0 : Fin 3) 1) [.inl (Equiv.swap 1 2), .inr (Equiv.swap 0 2)]
    = Equiv.swap 1 2 * Equiv.swap (0 : Fin 3) 1 * Equiv.swap 0 2 := rfl

/-- a unitary run over ℤ: the 2×2 exchange matrix, swap branch of `nullTi`; the input passes `V V† = 1` -/
example : UFollows 2 (fun i j => if i + j = 1 then (1 : Cx Int) else 0) (rectSchedule 2)
    (rightMix (fun i j => if i + j = 1 then (1 : Cx Int) else 0) (blkTi 0 1 1) 0 1) ∧
    toM 2 (fun i j => if i + j = 1 then (1 : Cx Int) else 0) *
      (toM 2 (fun i j => if i + j = 1 then (1 : Cx Int) else 0)).conjTranspose = 1 := by
  refine ⟨UFollows.col _ (blkTi 0 1 1) 0 1 0 [] _ (by omega) (blkTi_isUnitary 0 1 1 (by norm_num) (by decide))
    (by decide) (UFollows.nil _), ?_⟩
  ext i j
  fin_cases i <;> fin_cases j <;>
    simp [toM, Matrix.mul_apply, Fin.sum_univ_two, Matrix.conjTranspose_apply] <;> decide

/-- the relocation lists of `_absorb_zeta` for 4 and 5 modes (7 resp. 15 updates; all valid by evaluation too) -/
example : (absorbUpdates 4).length = 7 ∧ (absorbUpdates 5).length = 15 ∧
    (absorbUpdates 4)[2]? = some ⟨.sigma, 2, 2, false, 1⟩ := by decide

/-- order logic of the real `takagi` branch on eigenvalues −3, −1, 1, 2, 3: ties |−3| = |3| and |−1| = |1| go to
the larger index first; phases² are the signs -/
example : takagiOrder [-3, -1, 1, 2, 3] = [(3, 4), (3, 0), (2, 3), (1, 2), (1, 1)] ∧
    [-3, -1, 1, 2, 3, 0].map takagiPhaseSq = [-1, -1, 1, 1, 1, -1] := by decide

example : (List.range 6).map (bmPerm 3) = [0, 1, 2, 5, 4, 3] := by decide

end SFV.C17
