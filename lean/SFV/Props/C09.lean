import SFV.Proofs.Engine

/-!
# C09 — running programs is compositional and leaves user programs untouched

Statements about the engine model `SFV.Model.Engine` (`BaseEngine._run`, `reset`, `Gate.apply`,
`Gate.decompose`, `Program.compile`).  The observable is the back-end API call trace: the back end is a
deterministic function of the calls it receives (validated on every run by the state comparison of
`harness/props/c09.py`), so equal traces mean equal final states.  `harness/props/c09.py` ties the
model to the real engine with a recording back end and deep snapshots of the programs.
-/
namespace SFV.C09

open SFV.Eng

variable (cp : Compiler) (progs : Nat → Prog) (outc : Outc) (o : Nat → List (List Rat)) (args : List (String × Rat))
  (kw : RunKw)

/-- **one call with a list = successive calls.**  For every engine state, every world and all lists
of programs: `run (l1 ++ l2)` fails exactly when `run l1; run l2` fails (with the same error) and
otherwise ends in the same engine state and the same programs' state, having made the same back-end
calls except for the read-only `state` query that closes the first `run`. -/
theorem seq_compositional (l1 l2 : List Nat) (e : Eng) (w : World)
    (hs1 : effShots progs kw l1 = effShots progs kw (l1 ++ l2))
    (hs2 : effShots progs kw l2 = effShots progs kw (l1 ++ l2))
    (hpre : preCheck progs (effShots progs kw (l1 ++ l2)) (l1 ++ l2) = false) :
    run cp progs o args kw e w (l1 ++ l2) =
      match run cp progs o args kw e w l1 with
      | .error err => .error err
      | .ok (e1, w1, t1) =>
        match run cp progs o args kw e1 w1 l2 with
        | .error err => .error err
        | .ok (e2, w2, t2) => .ok (e2, w2, t1.take (t1.length - (stateCalls kw).length) ++ t2) :=
  run_append cp progs o args kw l1 l2 e w hs1 hs2 hpre

/-- … hence the same state-changing calls reach the back end. -/
theorem seq_same_mutations (l1 l2 : List Nat) (e e1 e2 : Eng) (w w1 w2 : World) (t1 t2 : List Call)
    (hs1 : effShots progs kw l1 = effShots progs kw (l1 ++ l2))
    (hs2 : effShots progs kw l2 = effShots progs kw (l1 ++ l2))
    (hpre : preCheck progs (effShots progs kw (l1 ++ l2)) (l1 ++ l2) = false)
    (h1 : run cp progs o args kw e w l1 = .ok (e1, w1, t1))
    (h2 : run cp progs o args kw e1 w1 l2 = .ok (e2, w2, t2)) :
    ∃ t, run cp progs o args kw e w (l1 ++ l2) = .ok (e2, w2, t) ∧ mutating t = mutating (t1 ++ t2) := by
  refine ⟨t1.take (t1.length - (stateCalls kw).length) ++ t2,
    by rw [run_append cp progs o args kw l1 l2 e w hs1 hs2 hpre, h1]; simp only [h2], ?_⟩
  conv => rhs; rw [run_trace_ends h1]
  simp only [mutating_append, mutating_stateCalls, List.append_nil]

/-- **two segments = the concatenated program**, at full strength: on every back end, for all programs —
feed-forward across the segment boundary included — and every engine history, `run [p1, p2]` and
`run [p1 ++ p2]` make the same call trace (including the closing `state` query), end at the same
position of the outcome stream and with the same final register.  (Holds since SF commits 1cfe20c —
per-subsystem hand-over — and the bosonic continuation fix; before them the statement needed the
hypotheses `HandOverOK` and "not bosonic".)  Hypotheses, all structural facts true of every constructible
pair of programs: `p12` is the concatenation (`hc hn hir hr`), `p1`/`p2` are different objects, `p1` and
`p12` start with the same stored values and free-parameter bindings (e.g. never run), the compiled
circuits read only subsystems that exist in `p1`'s final register, and `p2`'s register extends it;
on the bosonic engine the first program is not empty unless a computation is already under way
(an empty bosonic first program is initialised with the *second* program's mode count). -/
theorem concat_compositional {e : Eng} {w : World} {i1 i2 i12 : Nat} {circ1 circ2 : List Cmd}
    (hbk : e.bk = .bosonic → e.contd = true ∨ circ1 ≠ [])
    (hc : (progs i12).circuit = (progs i1).circuit ++ (progs i2).circuit)
    (hn : (progs i12).initN = (progs i1).initN)
    (hir : (progs i12).initRegs = (progs i1).initRegs)
    (hr : (progs i12).regs = (progs i2).regs)
    (hne : i2 ≠ i1)
    (hv : ∀ m ∈ idxs (progs i1).regs, w.vals i12 m = w.vals i1 m)
    (hf1 : w.free i1 = w.free i12) (hf2 : w.free i2 = w.free i12)
    (hd1 : decompList compileFuel cp (progs i1).circuit = .ok circ1)
    (hd2 : decompList compileFuel cp (progs i2).circuit = .ok circ2)
    (hsub : ∀ m ∈ idxs (progs i1).regs, m ∈ idxs (progs i2).regs)
    (ho1 : ∀ m ∈ openDeps circ1, m ∈ idxs (progs i1).regs)
    (ho2 : ∀ m ∈ openDeps circ2, m ∈ idxs (progs i1).regs)
    {ea eb : Eng} {wa wb : World} {ta tb : List Call}
    (hsh : effShots progs kw [i1, i2] = effShots progs kw [i12])
    (ha : run cp progs o args kw e w [i1, i2] = .ok (ea, wa, ta))
    (hb : run cp progs o args kw e w [i12] = .ok (eb, wb, tb)) :
    ta = tb ∧ ea.mpos = eb.mpos ∧ ea.prev = eb.prev := by
  obtain ⟨_, t1, h1, rfl⟩ := run_ok ha
  obtain ⟨_, t2, h2, rfl⟩ := run_ok hb
  rw [hsh] at h1
  obtain ⟨ht, hm, hp⟩ := concat_runList hbk hc hn hir hr hne hv hf1 hf2 hd1 hd2 hsub ho1 ho2 h1 h2
  exact ⟨by rw [ht], hm, hp⟩

/- **the two ways of running also fail together**, full statement: on every back end `run [p1, p2]`
   succeeds iff `run [p1 ++ p2]` succeeds.  Proved below for the Fock and Gaussian engines; on the bosonic
   engine the *model* does not cover the initialisation pass (`New` and non-Gaussian preparations in the
   first program are `unmodelled`), and the code itself refuses a non-Gaussian preparation in a later
   program that it accepts in the concatenation (known finding `bosonic-nongaussian-later-segment`,
   `bosonic_later_preparation_counterexample`). -/

/-- **error coincidence** (Fock/Gaussian): under the hypotheses of `concat_compositional`, if moreover `p2`
can follow `p1` and every bound name is a free parameter of all three programs, the two-segment run
succeeds exactly when the concatenated program does (which error is reported may differ: the
segmented run notices a problem of `p2` only after `p1` has been executed). -/
theorem concat_success_iff_partial {e : Eng} {w : World} {i1 i2 i12 : Nat} {circ1 circ2 : List Cmd}
    (hbk : e.bk ≠ .bosonic)
    (hc : (progs i12).circuit = (progs i1).circuit ++ (progs i2).circuit)
    (hn : (progs i12).initN = (progs i1).initN)
    (hir : (progs i12).initRegs = (progs i1).initRegs)
    (hr : (progs i12).regs = (progs i2).regs)
    (hfol : (progs i2).initRegs = (progs i1).regs)
    (hne : i2 ≠ i1)
    (hv : ∀ m ∈ idxs (progs i1).regs, w.vals i12 m = w.vals i1 m)
    (hf1 : w.free i1 = w.free i12) (hf2 : w.free i2 = w.free i12)
    (hargs : ∀ kv ∈ args, kv.1 ∈ (progs i1).freeNames ∧ kv.1 ∈ (progs i2).freeNames ∧ kv.1 ∈ (progs i12).freeNames)
    (hd1 : decompList compileFuel cp (progs i1).circuit = .ok circ1)
    (hd2 : decompList compileFuel cp (progs i2).circuit = .ok circ2)
    (hsub : ∀ m ∈ idxs (progs i1).regs, m ∈ idxs (progs i2).regs)
    (ho1 : ∀ m ∈ openDeps circ1, m ∈ idxs (progs i1).regs)
    (ho2 : ∀ m ∈ openDeps circ2, m ∈ idxs (progs i1).regs)
    (hsh : effShots progs kw [i1, i2] = effShots progs kw [i12]) :
    (∃ r, run cp progs o args kw e w [i1, i2] = .ok r) ↔ (∃ r, run cp progs o args kw e w [i12] = .ok r) := by
  rw [run_ok_iff, run_ok_iff, hsh]
  have hpc : preCheck progs (effShots progs kw [i12]) [i1, i2] = preCheck progs (effShots progs kw [i12]) [i12] := by
    simp [preCheck, hc, List.any_append]
  rw [hpc, concat_ok_iff hbk hc hn hir hr hfol hne hv hf1 hf2 hargs hd1 hd2 hsub ho1 ho2]

/-- **the hand-over delivers the latest value of each subsystem**: after a segment the engine holds, for
every index of the program's register, the value its RegRef holds, and the next program's RegRefs
receive exactly these (subsystems the engine knows nothing about are reset to `None`). -/
theorem handover_latest_values (regs : List (Nat × Bool)) (measured vals : Nat → Option Val) (m : Nat) :
    (m ∈ idxs regs → handOver regs measured vals m = measured m) ∧
    (m ∉ idxs regs → handOver regs measured vals m = vals m) := by
  constructor
  · intro h; simp [handOver, (hasIdx_iff regs m).2 h]
  · intro h
    have : hasIdx regs m = false := by
      cases hh : hasIdx regs m with
      | false => rfl
      | true => exact absurd ((hasIdx_iff regs m).1 hh) h
    simp [handOver, this]

/-- **index, not position**: what the engine records for the hand-over agrees with the RegRef values on every
subsystem index of the program — for all registers, holes included … -/
theorem record_by_index (regs : List (Nat × Bool)) (vals : Nat → Option Val) (m : Nat) (h : m ∈ idxs regs) :
    recordByIndex regs vals m = vals m := by
  simp [recordByIndex, (hasIdx_iff regs m).2 h]

/-- … whereas a record keyed by the position among the valid subsystems (seeded change C09-b1) hands, once
subsystem 0 of three has been deleted, the value of subsystem 2 to the reader of subsystem 1 -/
theorem record_by_position_counterexample :
    recordByPosition [(0, false), (1, true), (2, true)] (fun m => some [(m : Rat)]) 1 = some [2] ∧
    recordByIndex [(0, false), (1, true), (2, true)] (fun m => some [(m : Rat)]) 1 = some [1] := by
  decide +kernel

/-- compilation (recursive decomposition for the target compiler) commutes with concatenation -/
theorem compile_concat (n : Nat) (a b : List Cmd) :
    decompList n cp (a ++ b) = bind2 (decompList n cp a) (decompList n cp b) :=
  decompList_append n cp a b

/-- **reset ⇒ observably fresh.**  Every component of the engine equals that of a newly constructed
engine with the updated options (`mpos` only numbers the outcome stream), the measured values of all
programs run since the last reset are cleared, nothing else in the world changes — so every later
`run` behaves as on a fresh engine — and the back end receives exactly one `reset` call. -/
theorem reset_fresh (e : Eng) (w : World) (no : List (String × Int)) :
    (reset e w no).1 = fresh e.bk (updOpts e.opts no) e.mpos ∧
    (∀ i ∈ e.runIds, ∀ m, (reset e w no).2.1.vals i m = none) ∧
    (∀ i, i ∉ e.runIds → (reset e w no).2.1.vals i = w.vals i) ∧
    (reset e w no).2.1.free = w.free ∧ (reset e w no).2.1.locked = w.locked ∧
    (reset e w no).2.2 = [{ name := "reset", opts := updOpts e.opts no }] ∧
    ∀ w' l, run cp progs o args kw (reset e w no).1 w' l =
            run cp progs o args kw (fresh e.bk (updOpts e.opts no) e.mpos) w' l := by
  refine ⟨rfl, fun i hi m => ?_, fun i hi => ?_, rfl, rfl, rfl, fun _ _ => rfl⟩
  · simp [reset, hi]
  · simp [reset, hi]

/-- the programs cleared by `reset` are exactly those run since the engine was fresh -/
theorem run_records_programs {l : List Nat} {e e1 : Eng} {w w1 : World} {t : List Call}
    (h : runList cp progs outc args e w l = .ok (e1, w1, t)) : e1.runIds = e.runIds ++ l :=
  (runList_runIds h).1

/-- **running again gives the same result.**  A program that measures every value it feeds forward
makes, on a fresh engine, the same back-end calls (or raises the same error) whatever measured values
its RegRefs still hold from earlier runs — in particular when the same `Program` object is run a second
time (`w'` = the world left by the first run). -/
theorem rerun_same_trace {i : Nat} {circ : List Cmd}
    (hc : decompList compileFuel cp (progs i).circuit = .ok circ) (ho : openDeps circ = [])
    (e : Eng) (hp : e.prev = none) (w w' : World) (hf : w.free i = w'.free i) :
    (runOne cp progs outc args e w i).map (fun r => (r.2.2, r.1.mpos, r.1.prev, r.1.samples.isSome)) =
    (runOne cp progs outc args e w' i).map (fun r => (r.2.2, r.1.mpos, r.1.prev, r.1.samples.isSome)) :=
  runOne_world_indep hc ho e hp w w' hf

/-- **`Gate.apply` restores the operation's parameters**: whatever the heap (aliasing between a gate
and its `.H` included), the heap after `apply` is the heap before it — on the normal path, and (code
after the `fix:` commit, `restoreOnRaise = true`) also when the back-end call raises. -/
theorem apply_restores (b : Bool) (h : Heap) (a : Nat) (oc : Outcome) (hb : oc = .returns ∨ b = true) :
    (gateApplyH b h a oc).after = h :=
  gateApplyH_restores b h a oc hb

/-- without the `finally` an exception inside `_apply` leaves `p[0]` negated (the defect repaired by
the `fix:` commit; kept as the reason for the hypothesis above) -/
theorem apply_restores_counterexample :
    (gateApplyH false ⟨[⟨"Dgate", 0, true⟩], [[.sym (.free "a") 1 {}, .num {}]]⟩ 0 .raises).after ≠
      ⟨[⟨"Dgate", 0, true⟩], [[.sym (.free "a") 1 {}, .num {}]]⟩ := by decide

/-- the parameters `_apply` evaluates are `gateArgs` (`p[0]` negated for a daggered gate; nothing for
the identity), which is what the engine-level model sends to the back end -/
theorem apply_sees (b : Bool) (h : Heap) (a : Nat) (oc : Outcome) (o : OpObj) (l : List Par)
    (h1 : h.ops[a]? = some o) (h2 : h.pls[o.pl]? = some l) :
    (gateApplyH b h a oc).seen = gateArgs l o.dagger :=
  gateApplyH_seen b h a oc o l h1 h2

/-- **`Gate.decompose` does not mutate its inputs**: for every heap, gate and decomposition template,
all operation objects and parameter lists that existed before the call are unchanged afterwards, and
every command of the result refers to a newly allocated object (so the in-place dagger flips can only
hit fresh objects). -/
theorem decompose_fresh (h : Heap) (a : Nat) (t : Tmpl) :
    (∀ x < h.ops.length, (gateDecomposeH h a t).1.ops[x]? = h.ops[x]?) ∧
    (∀ j < h.pls.length, (gateDecomposeH h a t).1.pls[j]? = h.pls[j]?) ∧
    (∀ c ∈ (gateDecomposeH h a t).2, h.ops.length ≤ c.1) :=
  gateDecomposeH_fresh h a t

/-- **merging (the optimiser's `Gate.merge` / `Channel.merge`) never modifies its operands**: for every
heap and every pair of operation objects, all objects and parameter lists that existed before the call are
unchanged afterwards, and a merged operation is a newly allocated object with a newly allocated parameter
list (so writing its first parameter cannot reach the user's operations). -/
theorem merge_fresh (h : Heap) (a b : Nat) :
    ((∀ x < h.ops.length, (gateMergeH false h a b).1.ops[x]? = h.ops[x]?) ∧
     (∀ j < h.pls.length, (gateMergeH false h a b).1.pls[j]? = h.pls[j]?) ∧
     (∀ x, (gateMergeH false h a b).2 = .merged x →
        x = h.ops.length ∧ ((gateMergeH false h a b).1.ops[x]?).map (·.pl) = some h.pls.length)) ∧
    ((∀ x < h.ops.length, (channelMergeH false h a b).1.ops[x]? = h.ops[x]?) ∧
     (∀ j < h.pls.length, (channelMergeH false h a b).1.pls[j]? = h.pls[j]?) ∧
     (∀ x, (channelMergeH false h a b).2 = .merged x →
        x = h.ops.length ∧ ((channelMergeH false h a b).1.ops[x]?).map (·.pl) = some h.pls.length)) :=
  ⟨⟨(extends_get (gateMergeH_extends h a b)).1, (extends_get (gateMergeH_extends h a b)).2,
     fun x hx => gateMergeH_new h a b x hx⟩,
   ⟨(extends_get (channelMergeH_extends h a b)).1, (extends_get (channelMergeH_extends h a b)).2,
     fun x hx => channelMergeH_new h a b x hx⟩⟩

/-- two loss channels 1/2 and 1/4 and two squeezers r = 1/2, r = 1/4 (one daggered) -/
def mergeHeap : Heap :=
  ⟨[⟨"LossChannel", 0, false⟩, ⟨"LossChannel", 1, false⟩, ⟨"Sgate", 2, false⟩, ⟨"Sgate", 3, true⟩],
   [[.num ⟨1/2, 0⟩], [.num ⟨1/4, 0⟩], [.num ⟨1/2, 0⟩, .num {}], [.num ⟨1/4, 0⟩, .num {}]]⟩

/-- the shallow-copy-then-assign variant (`temp = copy.copy(self); temp.p[0] = T`, seeded change C09-a1)
overwrites the first parameter of the user's first channel (1/2 becomes 1/8) — the reason `merge_fresh`
insists on a new parameter list -/
theorem merge_inplace_counterexample :
    (channelMergeH true mergeHeap 0 1).1.pls[0]? = some [.num ⟨1/8, 0⟩] ∧ mergeHeap.pls[0]? = some [.num ⟨1/2, 0⟩] ∧
    (gateMergeH true mergeHeap 2 3).1.pls[2]? ≠ mergeHeap.pls[2]? := by
  decide +kernel

/-- merge: the code's variant gives a new channel 1/8 with its own list, a new squeezer r = 1/4 (the daggered
operand counts negatively), leaves the four operands alone; equal-and-opposite operands cancel; different
families fail -/
example : (channelMergeH false mergeHeap 0 1).2 = .merged 4 ∧
    (channelMergeH false mergeHeap 0 1).1.pls = mergeHeap.pls ++ [[.num ⟨1/8, 0⟩]] ∧
    (gateMergeH false mergeHeap 2 3).1.pls[4]? = some [.num ⟨1/4, 0⟩, .num {}] ∧
    (gateMergeH false mergeHeap 3 3).2 = .merged 4 ∧ (gateMergeH false mergeHeap 2 0).2 = .failure ∧
    (gateMergeH false ⟨[⟨"Rgate", 0, false⟩, ⟨"Rgate", 0, true⟩], [[.sym (.meas 1) 2 {}]]⟩ 0 1).2 = .identity := by
  decide +kernel

/-! ### the inputs on which the concatenation statement used to fail -/

def gaussianCp : Compiler :=
  { name := "gaussian", prims := ["MeasureHomodyne", "Dgate", "Rgate", "Sgate", "BSgate"],
    decomps := ["S2gate", "MZgate", "Xgate", "Zgate", "Fouriergate"] }

def regs3 : List (Nat × Bool) := [(0, true), (1, true), (2, true)]
def emptyWorld : World := { vals := fun _ _ => none, free := fun _ _ => none, locked := fun _ => false }

/-- p0 measures modes 0 and 2, p1 displaces mode 1 by the value measured on mode 2, p2 = p0 ++ p1 -/
def hoProgs : Nat → Prog
  | 0 => { initN := 3, initRegs := regs3, regs := regs3, circuit :=
      [{ cls := "MeasureHomodyne", kind := .meas, pars := [.num {}], regs := [0] },
       { cls := "MeasureHomodyne", kind := .meas, pars := [.num {}], regs := [2] }] }
  | 1 => { initN := 3, initRegs := regs3, regs := regs3, circuit :=
      [{ cls := "Dgate", pars := [.sym (.meas 0) 1 {}, .num {}], regs := [1] }] }
  | _ => { initN := 3, initRegs := regs3, regs := regs3, circuit :=
      [{ cls := "MeasureHomodyne", kind := .meas, pars := [.num {}], regs := [0] },
       { cls := "MeasureHomodyne", kind := .meas, pars := [.num {}], regs := [2] },
       { cls := "Dgate", pars := [.sym (.meas 0) 1 {}, .num {}], regs := [1] }] }

def hoOutc : Nat → List (List Rat) := fun k => if k = 0 then [[1/4]] else [[3/4]]

/-- feed-forward across the segment boundary (the input on which the old enumerate-the-shots hand-over
failed): the second segment's `q[0].par` now evaluates to the value measured on mode 0, both runs succeed
and make the same calls; the hypotheses of `concat_compositional_partial` about open dependencies hold -/
example :
    (run gaussianCp hoProgs hoOutc [] {} (fresh .gaussian []) emptyWorld [0, 1]).toOption.map (·.2.2) =
    (run gaussianCp hoProgs hoOutc [] {} (fresh .gaussian []) emptyWorld [2]).toOption.map (·.2.2) ∧
    ((run gaussianCp hoProgs hoOutc [] {} (fresh .gaussian []) emptyWorld [0, 1]).toOption.map (·.2.2)).isSome ∧
    ((decompList compileFuel gaussianCp (hoProgs 1).circuit).toOption.map openDeps) = some [0] ∧
    idxs (hoProgs 0).regs = [0, 1, 2] := by
  decide +kernel

def bosProgs : Nat → Prog
  | 0 => { initN := 3, initRegs := regs3, regs := regs3, circuit :=
      [{ cls := "Dgate", pars := [.num ⟨1/4, 0⟩, .num {}], regs := [2] }] }
  | 1 => { initN := 3, initRegs := regs3, regs := regs3, circuit :=
      [{ cls := "Rgate", pars := [.num ⟨1/2, 0⟩], regs := [1] }] }
  | _ => { initN := 3, initRegs := regs3, regs := regs3, circuit :=
      [{ cls := "Dgate", pars := [.num ⟨1/4, 0⟩, .num {}], regs := [2] },
       { cls := "Rgate", pars := [.num ⟨1/2, 0⟩], regs := [1] }] }

/-- bosonic engine (the input on which every segment used to re-initialise the simulator): the two
segments now make the calls of the concatenated program — one `begin_circuit` from the engine, one from
`init_circuit` of the first program, then the gates — and a non-Gaussian preparation in the second
segment is refused in both … -/
example :
    (run gaussianCp bosProgs (fun _ => []) [] {} (fresh .bosonic []) emptyWorld [0, 1]).toOption.map (·.2.2) =
    (run gaussianCp bosProgs (fun _ => []) [] {} (fresh .bosonic []) emptyWorld [2]).toOption.map (·.2.2) ∧
    ((run gaussianCp bosProgs (fun _ => []) [] {} (fresh .bosonic []) emptyWorld [0, 1]).toOption.map
        fun r => r.2.2.map (·.name)) = some ["begin_circuit", "begin_circuit", "displacement", "rotation", "state"] := by
  decide +kernel

def bosPrepProgs : Nat → Prog
  | 0 => { initN := 3, initRegs := regs3, regs := regs3, circuit :=
      [{ cls := "Dgate", pars := [.num ⟨1/4, 0⟩, .num {}], regs := [2] }] }
  | _ => { initN := 3, initRegs := regs3, regs := regs3, circuit :=
      [{ cls := "Fock", kind := .plain, pars := [.num ⟨1, 0⟩], regs := [1] }] }

/-- bosonic engine: a non-Gaussian preparation in a program that follows another one is refused
(`NotImplementedError`), and the gaussian-only first program alone runs (known finding
`bosonic-nongaussian-later-segment`: the same preparation is accepted in a first/concatenated program) -/
theorem bosonic_later_preparation_counterexample :
    (run { gaussianCp with prims := "Fock" :: gaussianCp.prims } bosPrepProgs (fun _ => []) [] {} (fresh .bosonic [])
        emptyWorld [0, 1]).toOption.isNone ∧
    (run { gaussianCp with prims := "Fock" :: gaussianCp.prims } bosPrepProgs (fun _ => []) [] {} (fresh .bosonic [])
        emptyWorld [0]).toOption.isSome := by
  decide +kernel

/-! ### non-vacuity -/

/-- three modes, a daggered decomposed two-mode gate on modes (2,0), a measurement with feed-forward
inside the second program, a free parameter -/
def exProgs : Nat → Prog
  | 0 => { initN := 3, initRegs := regs3, regs := regs3, freeNames := ["a"], circuit :=
      [{ cls := "Sgate", pars := [.sym (.free "a") 2 {}, .num {}], regs := [2], dagger := true },
       { cls := "S2gate", pars := [.num ⟨1/2, 0⟩, .num ⟨0, 1/4⟩], regs := [2, 0], dagger := true }] }
  | 1 => { initN := 3, initRegs := regs3, regs := regs3, freeNames := ["a"], circuit :=
      [{ cls := "MeasureHomodyne", kind := .meas, pars := [.num {}], regs := [2], sel := some [1/2] },
       { cls := "Xgate", pars := [.sym (.meas 2) (-1) {}], regs := [1] }] }
  | _ => { initN := 3, initRegs := regs3, regs := regs3, freeNames := ["a"], circuit :=
      [{ cls := "Sgate", pars := [.sym (.free "a") 2 {}, .num {}], regs := [2], dagger := true },
       { cls := "S2gate", pars := [.num ⟨1/2, 0⟩, .num ⟨0, 1/4⟩], regs := [2, 0], dagger := true },
       { cls := "MeasureHomodyne", kind := .meas, pars := [.num {}], regs := [2], sel := some [1/2] },
       { cls := "Xgate", pars := [.sym (.meas 2) (-1) {}], regs := [1] }] }

def exArgs : List (String × Rat) := [("a", 1/8)]
def exOutc : Nat → List (List Rat) := fun _ => [[1/2]]
def trace (r : Except Err (Eng × World × List Call)) : Option (List Call) := r.toOption.map (·.2.2)

/-- seq/concat: both runs succeed, make 10 calls (begin_circuit, squeeze(−1/4), the four daggered
products of S2gate in reverse order, measure_homodyne, displacement(−1/4), state) and agree; the
second program's compiled circuit is closed -/
example : trace (run gaussianCp exProgs exOutc exArgs {} (fresh .gaussian []) emptyWorld [0, 1]) =
      trace (run gaussianCp exProgs exOutc exArgs {} (fresh .gaussian []) emptyWorld [2]) ∧
    ((trace (run gaussianCp exProgs exOutc exArgs {} (fresh .gaussian []) emptyWorld [0, 1])).map List.length) = some 9 ∧
    ((decompList compileFuel gaussianCp (exProgs 1).circuit).toOption.map openDeps) = some [] ∧
    ((decompList compileFuel gaussianCp (exProgs 0).circuit).toOption.map fun c => c.map fun x => (x.cls, x.dagger, x.regs)) =
      some [("Sgate", true, [2]), ("BSgate", false, [2, 0]), ("Sgate", false, [0]), ("Sgate", true, [2]),
            ("BSgate", true, [2, 0])] := by
  decide +kernel

/-- error coincidence: the example programs satisfy the extra hypotheses of `concat_success_iff_partial`
(can follow, bound names known everywhere, open dependencies inside the register), and a session in which
both ways fail together: binding an unknown name -/
example : (exProgs 1).initRegs = (exProgs 0).regs ∧
    (∀ kv ∈ exArgs, kv.1 ∈ (exProgs 0).freeNames ∧ kv.1 ∈ (exProgs 1).freeNames ∧ kv.1 ∈ (exProgs 2).freeNames) ∧
    (trace (run gaussianCp exProgs exOutc [("b", 1)] {} (fresh .gaussian []) emptyWorld [0, 1])).isNone ∧
    (trace (run gaussianCp exProgs exOutc [("b", 1)] {} (fresh .gaussian []) emptyWorld [2])).isNone := by
  decide +kernel

/-- reset: after a run on three modes the engine has a previous register, samples and a run list;
reset clears them -/
def afterRun : Option (Eng × World) :=
  (run gaussianCp exProgs exOutc exArgs {} (fresh .gaussian [("cutoff_dim", 5)]) emptyWorld [2]).toOption.map
    fun r => (r.1, r.2.1)

example : (afterRun.map fun r => (r.1.runIds, r.1.prev.isSome)) = some ([2], true) ∧
    (afterRun.map fun r => (r.1.samples, r.2.vals 2 2)) = some (some [[1/2]], some [1/2]) ∧
    (afterRun.map fun r => ((reset r.1 r.2 [("cutoff_dim", 7)]).1.runIds, (reset r.1 r.2 [("cutoff_dim", 7)]).1.opts)) =
      some ([], [("cutoff_dim", 7)]) ∧
    (afterRun.map fun r => ((reset r.1 r.2 []).2.1.vals 2 2, (reset r.1 r.2 []).1.prev.isSome)) = some (none, false) := by
  decide +kernel

/-- run options: two shots (keyword over the program's own `shots = 3`), state of modes (2, 0) only: the
measurement call carries `shots = 2`, the RegRef and `Engine.samples` hold both shots, the `state` query names
the modes; post-selection or feed-forward together with several shots is refused before anything runs -/
def shotProgs : Nat → Prog
  | 0 => { initN := 3, initRegs := regs3, regs := regs3, shots := some 3, circuit :=
      [{ cls := "MeasureHomodyne", kind := .meas, pars := [.num {}], regs := [2] }] }
  | _ => { initN := 3, initRegs := regs3, regs := regs3, circuit :=
      [{ cls := "MeasureHomodyne", kind := .meas, pars := [.num {}], regs := [2], sel := some [1/2] }] }

example :
    ((run gaussianCp shotProgs (fun _ => [[1/4, 3/4]]) [] { shots := some 2, modes := some [2, 0] } (fresh .gaussian [])
        emptyWorld [0]).toOption.map fun r => r.2.2.map fun c => (c.name, c.shots, c.modes)) =
      some [("begin_circuit", none, []), ("measure_homodyne", some 2, [2]), ("state", none, [2, 0])] ∧
    ((run gaussianCp shotProgs (fun _ => [[1/4, 3/4]]) [] { shots := some 2, modes := some [2, 0] } (fresh .gaussian [])
        emptyWorld [0]).toOption.map fun r => (r.1.samples, r.2.1.vals 0 2)) = some (some [[1/4], [3/4]], some [1/4, 3/4]) ∧
    effShots shotProgs {} [1, 0] = 3 ∧ effShots shotProgs {} [0, 1] = 3 ∧ effShots shotProgs {} [1] = 1 ∧
    (run gaussianCp shotProgs (fun _ => [[1/2, 1/2]]) [] {} (fresh .gaussian []) emptyWorld [0, 1]).toOption.isNone ∧
    (run gaussianCp shotProgs (fun _ => [[1/2]]) [] { modes := some [] } (fresh .gaussian []) emptyWorld [1]).toOption.map
        (fun r => r.2.2.map (·.name)) = some ["begin_circuit", "measure_homodyne"] := by
  decide +kernel

/-- rerun: the world left by the first run differs from the initial one (a measured value is stored),
and the hypotheses of `rerun_same_trace` hold for program 2 -/
example : ((decompList compileFuel gaussianCp (exProgs 2).circuit).toOption.map openDeps) = some [] ∧
    ((run gaussianCp exProgs exOutc exArgs {} (fresh .gaussian []) emptyWorld [2]).toOption.map fun r => r.2.1.vals 2 2) =
      some (some [1/2]) := by
  decide +kernel

/-- apply: a squeezer and its `.H` share one parameter list; applying the daggered one shows `−r` to
the back end (and, through the shared list, to the other object) and restores it -/
def exHeap : Heap :=
  ⟨[⟨"Sgate", 0, false⟩, ⟨"Sgate", 0, true⟩, ⟨"Rgate", 1, true⟩], [[.num ⟨1/2, 0⟩, .num ⟨0, 1/4⟩], [.sym (.meas 2) 3 {}]]⟩

example : (gateApplyH true exHeap 1 .returns).seen = some [.num ⟨-1/2, 0⟩, .num ⟨0, 1/4⟩] ∧
    (gateApplyH true exHeap 1 .returns).during ≠ exHeap ∧ (gateApplyH true exHeap 1 .raises).after = exHeap ∧
    (gateApplyH true exHeap 2 .returns).seen = some [.sym (.meas 2) (-3) {}] := by decide +kernel

/-- decompose: the template of `S2gate` (`S` and `S.H` share a list, `BS` and `BS.H` too) applied for
a daggered gate at address 1: four new objects, flags flipped, order reversed, inputs untouched -/
def s2Tmpl : Tmpl :=
  { news := [⟨"BSgate", [.num ⟨0, 1/4⟩, .num {}], none, false⟩, ⟨"Sgate", [.num ⟨1/2, 0⟩, .num {}], none, false⟩,
             ⟨"Sgate", [], some 1, true⟩, ⟨"BSgate", [], some 0, true⟩],
    cmds := [(0, [2, 0]), (1, [2]), (2, [0]), (3, [2, 0])] }

example : (gateDecomposeH exHeap 1 s2Tmpl).2 = [(6, [2, 0]), (5, [0]), (4, [2]), (3, [2, 0])] ∧
    ((gateDecomposeH exHeap 1 s2Tmpl).1.ops.map (·.dagger)) = [false, true, true, true, true, false, false] ∧
    ((gateDecomposeH exHeap 1 s2Tmpl).1.ops.map (·.pl)) = [0, 0, 1, 2, 3, 3, 2] ∧
    (gateDecomposeH exHeap 1 s2Tmpl).1.ops.take 3 = exHeap.ops := by decide +kernel

end SFV.C09
