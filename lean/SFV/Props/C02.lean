import SFV.Proofs.DecomposeDriver
import SFV.Gen.Compilers
import Mathlib.Data.ZMod.Basic

/-!
# C02 — decomposed operations implement exactly the documented transformation

Model: `SFV/Model/Decompose.lean` (templates of the `_decompose` methods of `ops.py` over parameter
atoms, `Gate.decompose`, the recursive `Compiler.decompose`, the mesh command builders, and the
documented action `docAct` of every gate on the quadrature vector, transcribed from the docstrings).
Scalars are an arbitrary commutative ring; an angle enters as `(cos, sin)` with `c² + s² = 1`, a
squeezing amount as `(cosh, sinh)` with `ch² − sh² = 1`; `q = cos π/4` with `2q² = 1`;
`h = √(2ħ)`, `ih = 1/h`.  Where the source applies a function to the parameter the atoms of the
result and the relation the function guarantees are hypotheses (`Op.ok`):
`Pgate`: `ch = √(1+t²)` (`ch² = 1+t²`), `ich = 1/ch`, `sg = sign t` (`sg³ = sg`, `sg²·t = t`);
`CXgate`/`CZgate`: `sh = −s/2`, `ch = √(1+sh²)`, `θ = ½·atan2(−1/ch, −sh/ch)`
(`ch·cos 2θ = −sh`, `ch·sin 2θ = −1`).
The action on the quadrature vector `v ↦ X v + d` is the `(X, d)` domain of DESIGN §4; it fixes the
action on Gaussian states (`μ ↦ Xμ + d`, `V ↦ X V Xᵀ`).  The link Fock space ↔ phase space and the
matrix factorisations themselves (C17) are not part of these theorems; the harness
(`harness/props/c02.py`) checks them on the real code.
-/
namespace SFV.C02
open SFV.Decompose SFV.Gauss

variable {K : Type} [CommRing K]

/-- **Every scalar decomposition is the documented transformation**: for `Xgate, Zgate, Pgate, CXgate,
CZgate, S2gate, MZgate, sMZgate, Fouriergate`, all parameter atoms meeting their relations, every
register size and every ordered choice of distinct targets, the emitted list acts on the quadrature
vector exactly as the docstring of the gate says. -/
theorem scalar_decomposition_doc (C : Consts K) (hC : C.ok) (c : Cmd K) (h : c.ok) (seq : List (Cmd K))
    (hd : decompose1 C c.op c.regs = some seq) : semList C seq = docAct C c.op c.regs :=
  decompose1_sem C hC c h seq hd

/-- **`Gate.apply`'s first-parameter convention**: for every gate the daggered action (negated first
parameter for the primitives) is the inverse of the plain one, on every target choice. -/
theorem gate_apply_inverse (C : Consts K) (hC : C.ok) (c : Cmd K) (h : c.ok) (v : Vec K) :
    semCmd C c.flip (semCmd C c v) = v := semCmd_flip_inv C hC c h v

/-- **dagger handling** (`Gate.decompose`): in any state space, reversing a command list and flipping
every flag undoes the list, given the inverse law of each member — for lists of every length. -/
theorem dagger_decompose {C S : Type} (I : C → S → S) (flip : C → C) (l : List C)
    (hinv : ∀ c ∈ l, ∀ s, I (flip c) (I c s) = s) (s : S) :
    semL I ((l.map flip).reverse) (semL I l s) = s := semL_flip_reverse I flip l hinv s

/-- **`Gate.decompose` is faithful, daggered or not**: the list returned for a (possibly daggered)
decomposable gate acts as the command itself (the inverse documented transformation when daggered),
and consists of well-formed commands again. -/
theorem gate_decompose_faithful (C : Consts K) (hC : C.ok) (c : Cmd K) (h : c.ok) (seq : List (Cmd K))
    (hd : decompose C c = some seq) : (∀ k ∈ seq, k.ok) ∧ ∀ v, semList C seq v = semCmd C c v :=
  decompose_sem C hC c h seq hd

/-- **`Compiler.decompose` is sound** for arbitrary command types, tables and decomposition functions:
if every decomposition preserves the action (on the commands reachable from the input), an accepted
program is compiled to primitives only and acts as the input. -/
theorem driver_sound {C S : Type} (name : C → String) (noDecomp : C → Bool) (dec : C → Option (List C))
    (prims decs : List String) (I : C → S → S) (Good : C → Prop)
    (hdec : ∀ c kids, Good c → dec c = some kids → (∀ k ∈ kids, Good k) ∧ ∀ s, semL I kids s = I c s)
    (fuel : Nat) (l out : List C) (hl : ∀ c ∈ l, Good c)
    (h : compileWith name noDecomp dec prims decs fuel l = .ok out) :
    (∀ s, semL I out s = semL I l s) ∧ (∀ c ∈ out, Good c ∧ name c ∈ prims) :=
  compileWith_sound name noDecomp dec prims decs I Good hdec fuel l out hl h

/-- **termination of the recursion**: a rank decreasing along decompositions bounds the depth. -/
theorem driver_terminates {C : Type} (name : C → String) (noDecomp : C → Bool) (dec : C → Option (List C))
    (prims decs : List String) (rank : C → Nat)
    (hr : ∀ c kids, dec c = some kids → ∀ k ∈ kids, rank k < rank c)
    (fuel : Nat) (l : List C) (hl : ∀ c ∈ l, rank c < fuel) :
    compileWith name noDecomp dec prims decs fuel l ≠ .error .fuel :=
  compileWith_fuel name noDecomp dec prims decs rank hr fuel l hl

/-- **the scalar gates through the real driver and any compiler tables**: depth 3 always suffices,
the result (if accepted) consists of table primitives and acts on the quadrature vector as the
source program — for all programs, parameters, targets, dagger flags. -/
theorem scalar_driver_sound (C : Consts K) (hC : C.ok) (prims decs : List String) (l : List (Cmd K))
    (hl : ∀ c ∈ l, c.ok) :
    compileWith (fun c => c.op.name) (fun _ => false) (decompose C) prims decs 3 l ≠ .error .fuel ∧
    ∀ out, compileWith (fun c => c.op.name) (fun _ => false) (decompose C) prims decs 3 l = .ok out →
      (∀ v, semList C out v = semList C l v) ∧ ∀ c ∈ out, c.op.name ∈ prims := by
  refine ⟨?_, fun out h => ?_⟩
  · refine compileWith_fuel _ _ _ prims decs (fun c => c.op.rank) (fun c kids hk => decompose_rank C c kids hk) 3 l ?_
    intro c _
    cases c.op <;> simp [Op.rank]
  · obtain ⟨h1, h2⟩ := compileWith_sound (fun c : Cmd K => c.op.name) (fun _ => false) (decompose C) prims decs
      (semCmd C) Cmd.ok (fun c kids hc hk => decompose_sem C hC c hc kids hk) 3 l out hl h
    exact ⟨h1, fun c hc => (h2 c hc).2⟩

/-- representatives of every operation class of the model (atoms irrelevant for class names) -/
def repOps : List (Op Int) :=
  [.Dg 0 0 0, .Rg 0 0, .Sg 0 0 0 0, .BSg 0 0 0 0, .Xg 0, .Zg 0, .Pg 0 0 0 0, .CXg 0 0 0 0, .CZg 0 0 0 0,
   .S2g 0 0 0 0, .MZg 0 0 0 0, .sMZg 0 0 0 0, .Fg, .Kg 0, .Vac, .Sq 0 0 0 0, .DSq 0 0 0 0 0 0 0]

/-- class names a template emits -/
def kidNames (op : Op Int) : List String :=
  match decompose1 ⟨0, 0, 0⟩ op [0, 1] with
  | some seq => seq.map fun c => c.op.name
  | none => []

/-- a compiler table is closed if everything a listed scalar decomposition emits is again a primitive
or decomposable, and every listed scalar class has a template -/
def tableClosed (prims decs : List String) : Bool :=
  repOps.all fun op => !decs.contains op.name ||
    ((decompose1 (⟨0, 0, 0⟩ : Consts Int) op [0, 1]).isSome &&
      (kidNames op).all fun k => prims.contains k || decs.contains k)

/-- **generated tables** (`fock`, `gaussian`, `bosonic` of today's checkout): no `CircuitError` and no
`NotImplementedError` can arise from inside a scalar decomposition. -/
theorem tables_closed :
    tableClosed Gen.Compilers.fockPrims Gen.Compilers.fockDecs = true ∧
    tableClosed Gen.Compilers.gaussianPrims Gen.Compilers.gaussianDecs = true ∧
    tableClosed Gen.Compilers.bosonicPrims Gen.Compilers.bosonicDecs = true := by
  refine ⟨?_, ?_, ?_⟩ <;> decide +kernel

/-- **`drop_identity`** of `Interferometer._decompose` removes only identities: same action with the
flag on and off, for all factor lists (`R(0) = BS(0,0) = 1`). -/
theorem interferometer_drop_identity {A S : Type} [DecidableEq A] [Neg A] (I : MCmd A → S → S) (zero : A)
    (clip mod2pi : A → A) (hR : ∀ rs s, I ⟨.R zero, rs⟩ s = s) (hBS : ∀ rs s, I ⟨.BS zero zero, rs⟩ s = s)
    (hneg : -zero = zero) (hmod : mod2pi zero = zero) (symmetric : Bool) (reg : List Nat)
    (BS1 : List (Nat × Nat × A × A)) (R : List (Option A)) (BS2 : Option (List (Nat × Nat × A × A))) (s : S) :
    semL I (interferometerCmds zero clip mod2pi false true symmetric reg BS1 R BS2) s =
      semL I (interferometerCmds zero clip mod2pi false false symmetric reg BS1 R BS2) s :=
  SFV.Decompose.interferometer_drop_identity I zero clip mod2pi hR hBS hneg hmod symmetric reg BS1 R BS2 s

/-- **emission order** of the `T` meshes: `BS1` in list order as `R(φ)` then `BS(θ,0)`, the local
phases, then `BS2` reversed as `BS(−θ,0)` then `R(−φ)` — the documented `U = (∏ T⁻¹) D (∏ T)`. -/
theorem interferometer_cmds_structure {A : Type} [DecidableEq A] [Neg A] (zero : A) (clip mod2pi : A → A)
    (identity : Bool) (reg : List Nat) (BS1 : List (Nat × Nat × A × A)) (R : List (Option A))
    (BS2 : List (Nat × Nat × A × A)) :
    interferometerCmds zero clip mod2pi identity false false reg BS1 R (some BS2) =
      BS1.flatMap (fun e => [⟨.R (clip e.2.2.2), [rg reg e.1]⟩, ⟨.BS (clip e.2.2.1) zero, [rg reg e.1, rg reg e.2.1]⟩]) ++
      (R.zipIdx.map fun qn => ⟨.R (mod2pi (qn.1.getD zero)), [rg reg qn.2]⟩) ++
      BS2.reverse.flatMap (fun e => [⟨.BS (-(clip e.2.2.1)) zero, [rg reg e.1, rg reg e.2.1]⟩, ⟨.R (-(clip e.2.2.2)), [rg reg e.1]⟩]) :=
  SFV.Decompose.interferometer_cmds_structure zero clip mod2pi identity reg BS1 R BS2

/-- **Reck mesh** (`triangular`, after the `fix:`): local phases first, then `T⁻¹ = R(−φ)·BS(−θ,0)` for the
entries of the factor list in list order — the documented `U = T₁⁻¹ ⋯ T_k⁻¹ D` of `decompositions.triangular`. -/
theorem interferometer_triangular_structure {A : Type} [DecidableEq A] [Neg A] (zero : A) (clip mod2pi : A → A)
    (identity symmetric : Bool) (reg : List Nat) (BS1 : List (Nat × Nat × A × A)) (R : List (Option A))
    (BS2 : Option (List (Nat × Nat × A × A))) :
    interferometerDecompose zero clip mod2pi identity false false true reg BS1 R BS2 =
      (R.zipIdx.map fun qn => ⟨.R (mod2pi (qn.1.getD zero)), [rg reg qn.2]⟩) ++
      BS1.flatMap (fun e => [⟨.BS (-(clip e.2.2.1)) zero, [rg reg e.1, rg reg e.2.1]⟩, ⟨.R (-(clip e.2.2.2)), [rg reg e.1]⟩]) := by
  have h := SFV.Decompose.interferometer_cmds_structure zero clip mod2pi identity reg [] R BS1.reverse
  simp only [interferometerDecompose, if_true]
  rw [h]
  simp

/-- **`_sun_compact_cmds`** returns the build (matrix-multiplication) order reversed, for every
parameter list over adjacent pairs. -/
theorem sun_compact_order {A : Type} [DecidableEq A] [Neg A] (half divn : A → A) (zero : A) (reg : List Nat)
    (params : List ((Nat × Nat) × (A × A × A))) (gp : Option A) (h : ∀ p ∈ params, p.1.2 = p.1.1 + 1) :
    ∃ built, sunCompactCmds half divn zero reg params gp = some built.reverse ∧
      built = (match gp with | some g => reg.map fun mode => ⟨.R (divn g), [mode]⟩ | none => []) ++
        params.flatMap fun p => su2Cmds half zero reg p.1.1 p.1.2 p.2.1 p.2.2.1 p.2.2.2 :=
  sunCompact_order half divn zero reg params gp h

/-! ### the repaired pure-diagonal branch of `Gaussian._decompose`

`Squeezed(r, φ)` has `V_xx = cosh 2r − cos φ·sinh 2r`; twice that is `(e^{2r} + e^{−2r}) − cos φ·(e^{2r} − e^{−2r})`.
The branch receives the diagonal entry `e` (and `ie = 1/e`); `small` is the test `e < 1`. -/

/-- atoms `(e^{−2r}, e^{2r}, cos φ)` chosen by the source: `r = |log e|/2`; repaired: `φ = 0` if `e < 1` else `π` -/
def gaussDiag (small : Bool) (e ie : K) : K × K × K := if small then (e, ie, 1) else (ie, e, -1)
/-- before the fix: `φ = 0` always -/
def gaussDiagOld (small : Bool) (e ie : K) : K × K × K := if small then (e, ie, 1) else (ie, e, 1)
def twiceVxx (a : K × K × K) : K := (a.2.1 + a.1) - a.2.2 * (a.2.1 - a.1)

/-- the repaired branch prepares the requested variance for x- and for p-squeezed inputs -/
theorem gaussian_pure_diagonal (small : Bool) (e ie : K) : twiceVxx (gaussDiag small e ie) = e + e := by
  cases small <;> simp [twiceVxx, gaussDiag] <;> ring

/-- the old branch was right only for `e < 1` … -/
theorem gaussian_pure_diagonal_old_partial (e ie : K) : twiceVxx (gaussDiagOld true e ie) = e + e := by
  simp [twiceVxx, gaussDiagOld]

/-- … a p-squeezed input (`V_xx = 4`) was prepared x-squeezed (`V_xx = 1/4`) -/
theorem gaussian_pure_diagonal_old_counterexample :
    twiceVxx (gaussDiagOld false (4 : Rat) (1 / 4)) ≠ 4 + 4 := by decide +kernel

/-! ### non-vacuity (atoms in `ZMod 17`, where `2·3² = 1`, `4² + 6² = 1`, `6² − 1² = 1`) -/

def exC : Consts (ZMod 17) := ⟨3, 2, 9⟩
theorem exC_ok : exC.ok := by unfold Consts.ok; decide
/-- a three-mode program with descending targets, a daggered composite, `CZgate` (two levels) and `Pgate` -/
def exProg : List (Cmd (ZMod 17)) :=
  [⟨.CZg 6 1 4 6, [2, 0], true⟩, ⟨.S2g 6 1 4 6, [1, 2], true⟩, ⟨.MZg 4 6 6 4, [2, 1], false⟩,
   ⟨.Pg 1 6 3 1, [1], false⟩, ⟨.Xg 5, [0], true⟩, ⟨.sMZg 4 6 6 4, [0, 2], true⟩]
theorem exProg_ok : ∀ c ∈ exProg, c.ok := by
  intro c hc
  simp only [exProg, List.mem_cons, List.not_mem_nil, or_false] at hc
  rcases hc with rfl | rfl | rfl | rfl | rfl | rfl <;>
    simp [Cmd.ok, Op.ok, Op.isGate, Op.arity] <;> decide
/-- the hypotheses of `scalar_driver_sound` are met by `exProg`; it compiles for the Gaussian tables -/
example := scalar_driver_sound exC exC_ok Gen.Compilers.gaussianPrims Gen.Compilers.gaussianDecs exProg exProg_ok
example : ∃ seq, decompose exC ⟨.CZg 6 1 4 6, [2, 0], true⟩ = some seq ∧ seq.length = 3 := ⟨_, rfl, rfl⟩
example : semCmd exC ⟨.CZg 6 1 4 6, [2, 0], false⟩ (fun u => if u = (2, false) then 1 else 0) (0, true) ≠ 0 := by decide
example (s : Vec (ZMod 17)) : semCmd exC (Cmd.flip ⟨.BSg 4 6 6 4, [2, 0], true⟩) (semCmd exC ⟨.BSg 4 6 6 4, [2, 0], true⟩ s) = s :=
  gate_apply_inverse exC exC_ok _ (by simp [Cmd.ok, Op.ok, Op.isGate, Op.arity]; decide) s
example : tableClosed ["Rgate"] ["CZgate"] = false := by decide +kernel
example : interferometerCmds (0 : Int) id id false true false [0, 1, 2] [(0, 1, 0, 5), (1, 2, 7, 0)] [some 3, none, some 0]
    (some [(0, 1, 2, 0)]) =
    [⟨.R 5, [0]⟩, ⟨.BS 7 0, [1, 2]⟩, ⟨.R 3, [0]⟩, ⟨.BS (-2) 0, [0, 1]⟩] := by decide
example : interferometerDecompose (0 : Int) id id false false false true [0, 1] [(0, 1, 2, 5)] [some 3, none] none =
    [⟨.R 3, [0]⟩, ⟨.R 0, [1]⟩, ⟨.BS (-2) 0, [0, 1]⟩, ⟨.R (-5), [0]⟩] := by decide
example : (sunCompactCmds (fun x : Int => x) (fun x => x) 0 [3, 4] [((0, 1), (1, 2, 3))] (some 9)).map List.length = some 7 := by
  decide
example : twiceVxx (gaussDiag false (4 : Rat) (1 / 4)) = 8 := by decide +kernel

end SFV.C02
