import SFV.Proofs.DecomposeDriver
import SFV.Proofs.DecomposeState
import SFV.Proofs.DecomposeMesh
import SFV.Gen.Compilers
import Mathlib.Data.ZMod.Basic

/-!
# C02 — decomposed operations implement exactly the documented transformation

Model: `SFV/Model/Decompose.lean` (templates of the `_decompose` methods of `ops.py` over parameter
atoms, `Gate.decompose`, the recursive `Compiler.decompose`, the mesh command builders, and the
documented action `docAct` of every gate on the quadrature vector, transcribed from the docstrings).
Scalars are an arbitrary commutative ring; an angle enters as `(cos, sin)` with `c² + s² = 1`, a
squeezing amount as `(cosh, sinh)` with `ch² − sh² = 1`; `q = cos π/4` with `2q² = 1`;
`h = √(2ħ)`, `ih = 1/h`.  Where the source applies a function to the parameter the atoms of the
result and the relation the function guarantees are hypotheses (`Op.ok`):
`Pgate`: `ch = √(1+t²)` (`ch² = 1+t²`), `ich = 1/ch`, `sg = sign t` (`sg³ = sg`, `sg²·t = t`);
`CXgate`/`CZgate`: `sh = −s/2`, `ch = √(1+sh²)`, `θ = ½·atan2(−1/ch, −sh/ch)`
(`ch·cos 2θ = −sh`, `ch·sin 2θ = −1`).
The action on the quadrature vector `v ↦ X v + d` is the `(X, d)` domain of DESIGN §4; it fixes the
action on Gaussian states (`μ ↦ Xμ + d`, `V ↦ X V Xᵀ`).  The link Fock space ↔ phase space and the
matrix factorisations themselves (C17) are not part of these theorems; the harness
(`harness/props/c02.py`) checks them on the real code.
-/
namespace SFV.C02
open SFV.Decompose SFV.Gauss

variable {K : Type} [CommRing K]

/-- **Every scalar decomposition is the documented transformation**: for `Xgate, Zgate, Pgate, CXgate,
CZgate, S2gate, MZgate, sMZgate, Fouriergate`, all parameter atoms meeting their relations, every
register size and every ordered choice of distinct targets, the emitted list acts on the quadrature
vector exactly as the docstring of the gate says. -/
theorem scalar_decomposition_doc (C : Consts K) (hC : C.ok) (c : Cmd K) (h : c.ok) (seq : List (Cmd K))
    (hd : decompose1 C c.op c.regs = some seq) : semList C seq = docAct C c.op c.regs :=
  decompose1_sem C hC c h seq hd

/-- **`Gate.apply`'s first-parameter convention**: for every gate the daggered action (negated first
parameter for the primitives) is the inverse of the plain one, on every target choice. -/
theorem gate_apply_inverse (C : Consts K) (hC : C.ok) (c : Cmd K) (h : c.ok) (v : Vec K) :
    semCmd C c.flip (semCmd C c v) = v := semCmd_flip_inv C hC c h v

/-- **dagger handling** (`Gate.decompose`): in any state space, reversing a command list and flipping
every flag undoes the list, given the inverse law of each member — for lists of every length. -/
theorem dagger_decompose {C S : Type} (I : C → S → S) (flip : C → C) (l : List C)
    (hinv : ∀ c ∈ l, ∀ s, I (flip c) (I c s) = s) (s : S) :
    semL I ((l.map flip).reverse) (semL I l s) = s := semL_flip_reverse I flip l hinv s

/-- **`Gate.decompose` is faithful, daggered or not**: the list returned for a (possibly daggered)
decomposable gate acts as the command itself (the inverse documented transformation when daggered),
and consists of well-formed commands again. -/
theorem gate_decompose_faithful (C : Consts K) (hC : C.ok) (c : Cmd K) (h : c.ok) (seq : List (Cmd K))
    (hd : decompose C c = some seq) : (∀ k ∈ seq, k.ok) ∧ ∀ v, semList C seq v = semCmd C c v :=
  decompose_sem C hC c h seq hd

/-- **`Compiler.decompose` is sound** for arbitrary command types, tables and decomposition functions:
if every decomposition preserves the action (on the commands reachable from the input), an accepted
program is compiled to primitives only and acts as the input. -/
theorem driver_sound {C S : Type} (name : C → String) (noDecomp : C → Bool) (dec : C → Option (List C))
    (prims decs : List String) (I : C → S → S) (Good : C → Prop)
    (hdec : ∀ c kids, Good c → dec c = some kids → (∀ k ∈ kids, Good k) ∧ ∀ s, semL I kids s = I c s)
    (fuel : Nat) (l out : List C) (hl : ∀ c ∈ l, Good c)
    (h : compileWith name noDecomp dec prims decs fuel l = .ok out) :
    (∀ s, semL I out s = semL I l s) ∧ (∀ c ∈ out, Good c ∧ name c ∈ prims) :=
  compileWith_sound name noDecomp dec prims decs I Good hdec fuel l out hl h

/-- **termination of the recursion**: a rank decreasing along decompositions bounds the depth. -/
theorem driver_terminates {C : Type} (name : C → String) (noDecomp : C → Bool) (dec : C → Option (List C))
    (prims decs : List String) (rank : C → Nat)
    (hr : ∀ c kids, dec c = some kids → ∀ k ∈ kids, rank k < rank c)
    (fuel : Nat) (l : List C) (hl : ∀ c ∈ l, rank c < fuel) :
    compileWith name noDecomp dec prims decs fuel l ≠ .error .fuel :=
  compileWith_fuel name noDecomp dec prims decs rank hr fuel l hl

/-- **the scalar gates through the real driver and any compiler tables**: depth 3 always suffices,
the result (if accepted) consists of table primitives and acts on the quadrature vector as the
source program — for all programs, parameters, targets, dagger flags. -/
theorem scalar_driver_sound (C : Consts K) (hC : C.ok) (prims decs : List String) (l : List (Cmd K))
    (hl : ∀ c ∈ l, c.ok) :
    compileWith (fun c => c.op.name) (fun _ => false) (decompose C) prims decs 3 l ≠ .error .fuel ∧
    ∀ out, compileWith (fun c => c.op.name) (fun _ => false) (decompose C) prims decs 3 l = .ok out →
      (∀ v, semList C out v = semList C l v) ∧ ∀ c ∈ out, c.op.name ∈ prims := by
  refine ⟨?_, fun out h => ?_⟩
  · refine compileWith_fuel _ _ _ prims decs (fun c => c.op.rank) (fun c kids hk => decompose_rank C c kids hk) 3 l ?_
    intro c _
    cases c.op <;> simp [Op.rank]
  · obtain ⟨h1, h2⟩ := compileWith_sound (fun c : Cmd K => c.op.name) (fun _ => false) (decompose C) prims decs
      (semCmd C) Cmd.ok (fun c kids hc hk => decompose_sem C hC c hc kids hk) 3 l out hl h
    exact ⟨h1, fun c hc => (h2 c hc).2⟩

/-- representatives of every operation class of the model (atoms irrelevant for class names) -/
def repOps : List (Op Int) :=
  [.Dg 0 0 0, .Rg 0 0, .Sg 0 0 0 0, .BSg 0 0 0 0, .Xg 0, .Zg 0, .Pg 0 0 0 0, .CXg 0 0 0 0, .CZg 0 0 0 0,
   .S2g 0 0 0 0, .MZg 0 0 0 0, .sMZg 0 0 0 0, .Fg, .Kg 0, .Vac, .Sq 0 0 0 0, .DSq 0 0 0 0 0 0 0]

/-- class names a template emits -/
def kidNames (op : Op Int) : List String :=
  match decompose1 ⟨0, 0, 0⟩ op [0, 1] with
  | some seq => seq.map fun c => c.op.name
  | none => []

/-- a compiler table is closed if everything a listed scalar decomposition emits is again a primitive
or decomposable, and every listed scalar class has a template -/
def tableClosed (prims decs : List String) : Bool :=
  repOps.all fun op => !decs.contains op.name ||
    ((decompose1 (⟨0, 0, 0⟩ : Consts Int) op [0, 1]).isSome &&
      (kidNames op).all fun k => prims.contains k || decs.contains k)

/-- **generated tables** (`fock`, `gaussian`, `bosonic` of today's checkout): no `CircuitError` and no
`NotImplementedError` can arise from inside a scalar decomposition. -/
theorem tables_closed :
    tableClosed Gen.Compilers.fockPrims Gen.Compilers.fockDecs = true ∧
    tableClosed Gen.Compilers.gaussianPrims Gen.Compilers.gaussianDecs = true ∧
    tableClosed Gen.Compilers.bosonicPrims Gen.Compilers.bosonicDecs = true := by
  refine ⟨?_, ?_, ?_⟩ <;> decide +kernel

/-- **`drop_identity`** of `Interferometer._decompose` removes only identities: same action with the
flag on and off, for all factor lists (`R(0) = BS(0,0) = 1`). -/
theorem interferometer_drop_identity {A S : Type} [DecidableEq A] [Neg A] (I : MCmd A → S → S) (zero : A)
    (clip mod2pi : A → A) (hR : ∀ rs s, I ⟨.R zero, rs⟩ s = s) (hBS : ∀ rs s, I ⟨.BS zero zero, rs⟩ s = s)
    (hneg : -zero = zero) (hmod : mod2pi zero = zero) (symmetric : Bool) (reg : List Nat)
    (BS1 : List (Nat × Nat × A × A)) (R : List (Option A)) (BS2 : Option (List (Nat × Nat × A × A))) (s : S) :
    semL I (interferometerCmds zero clip mod2pi false true symmetric reg BS1 R BS2) s =
      semL I (interferometerCmds zero clip mod2pi false false symmetric reg BS1 R BS2) s :=
  SFV.Decompose.interferometer_drop_identity I zero clip mod2pi hR hBS hneg hmod symmetric reg BS1 R BS2 s

/-- **emission order** of the `T` meshes: `BS1` in list order as `R(φ)` then `BS(θ,0)`, the local
phases, then `BS2` reversed as `BS(−θ,0)` then `R(−φ)` — the documented `U = (∏ T⁻¹) D (∏ T)`. -/
theorem interferometer_cmds_structure {A : Type} [DecidableEq A] [Neg A] (zero : A) (clip mod2pi : A → A)
    (identity : Bool) (reg : List Nat) (BS1 : List (Nat × Nat × A × A)) (R : List (Option A))
    (BS2 : List (Nat × Nat × A × A)) :
    interferometerCmds zero clip mod2pi identity false false reg BS1 R (some BS2) =
      BS1.flatMap (fun e => [⟨.R (clip e.2.2.2), [rg reg e.1]⟩, ⟨.BS (clip e.2.2.1) zero, [rg reg e.1, rg reg e.2.1]⟩]) ++
      (R.zipIdx.map fun qn => ⟨.R (mod2pi (qn.1.getD zero)), [rg reg qn.2]⟩) ++
      BS2.reverse.flatMap (fun e => [⟨.BS (-(clip e.2.2.1)) zero, [rg reg e.1, rg reg e.2.1]⟩, ⟨.R (-(clip e.2.2.2)), [rg reg e.1]⟩]) :=
  SFV.Decompose.interferometer_cmds_structure zero clip mod2pi identity reg BS1 R BS2

/-- **Reck mesh** (`triangular`, after the `fix:`): local phases first, then `T⁻¹ = R(−φ)·BS(−θ,0)` for the
entries of the factor list in list order — the documented `U = T₁⁻¹ ⋯ T_k⁻¹ D` of `decompositions.triangular`. -/
theorem interferometer_triangular_structure {A : Type} [DecidableEq A] [Neg A] (zero : A) (clip mod2pi : A → A)
    (identity symmetric : Bool) (reg : List Nat) (BS1 : List (Nat × Nat × A × A)) (R : List (Option A))
    (BS2 : Option (List (Nat × Nat × A × A))) :
    interferometerDecompose zero clip mod2pi identity false false true reg BS1 R BS2 =
      (R.zipIdx.map fun qn => ⟨.R (mod2pi (qn.1.getD zero)), [rg reg qn.2]⟩) ++
      BS1.flatMap (fun e => [⟨.BS (-(clip e.2.2.1)) zero, [rg reg e.1, rg reg e.2.1]⟩, ⟨.R (-(clip e.2.2.2)), [rg reg e.1]⟩]) := by
  have h := SFV.Decompose.interferometer_cmds_structure zero clip mod2pi identity reg [] R BS1.reverse
  simp only [interferometerDecompose, if_true]
  rw [h]
  simp

/-- **`_sun_compact_cmds`** returns the build (matrix-multiplication) order reversed, for every
parameter list over adjacent pairs. -/
theorem sun_compact_order {A : Type} [DecidableEq A] [Neg A] (half divn : A → A) (zero : A) (reg : List Nat)
    (params : List ((Nat × Nat) × (A × A × A))) (gp : Option A) (h : ∀ p ∈ params, p.1.2 = p.1.1 + 1) :
    ∃ built, sunCompactCmds half divn zero reg params gp = some built.reverse ∧
      built = (match gp with | some g => reg.map fun mode => ⟨.R (divn g), [mode]⟩ | none => []) ++
        params.flatMap fun p => su2Cmds half zero reg p.1.1 p.1.2 p.2.1 p.2.2.1 p.2.2.2 :=
  sunCompact_order half divn zero reg params gp h

/-! ### Gaussian states: means and covariances (lift from the quadrature vector) -/

/-- **covariances**: the decomposition of every gate (daggered or not) acts on the covariance data by the same
congruence `V ↦ X V Xᵀ` as the documented gate (`covStep` = `linMap` of the linear part, which
`SFV.Gauss.covMatrix_linMap` identifies with the Mathlib matrix congruence), for every symmetric `V`. -/
theorem gate_decompose_covariance (C : Consts K) (hC : C.ok) (c : Cmd K) (hok : c.ok) (seq : List (Cmd K))
    (hd : decompose C c = some seq) (V : XP K) (hV : SymXP V) : covList C seq V = covStep C V c :=
  decompose_cov C hC c hok seq hd V hV

/-- **Gaussian states**: mean vector and covariance after the emitted list = after the documented gate. -/
theorem gate_decompose_state (C : Consts K) (hC : C.ok) (c : Cmd K) (hok : c.ok) (seq : List (Cmd K))
    (hd : decompose C c = some seq) (V : XP K) (hV : SymXP V) : stateList C seq V = stateStep C V c :=
  decompose_state C hC c hok seq hd V hV

/-- the state semantics used here is the independent phase-space calculation of C01 (`applyXP`, proved equal to the
Gaussian simulator there): rotation, squeezing literally, the beamsplitter at the back end's `(−θ, −φ)` convention -/
theorem primitives_are_C01_spec (C : Consts K) (V : XP K) (k l : Nat) (c s ch sh ct sn : K) :
    covStep C V ⟨.Rg c s, [k], false⟩ = applyXP V (.phase c s k) ∧
    covStep C V ⟨.Sg ch sh c s, [k], false⟩ = applyXP V (.squeeze c s ch sh k) ∧
    covStep C V ⟨.BSg ct sn c s, [k, l], false⟩ = applyXP V (.bs c (-s) ct (-sn) k l) :=
  ⟨covStep_R C c s k V, covStep_S C ch sh c s k V, covStep_BS C ct sn c s k l V⟩

/-- **`DisplacedSqueezed`**: the template `[Squeezed, Dgate]` (reset, squeeze, displace) prepares the documented state
`D(α) S(z)|0⟩`: block `[[cosh 2r − cos φ sinh 2r, −sin φ sinh 2r], [·, cosh 2r + cos φ sinh 2r]]`, mean `√(2ħ)(Re α, Im α)`,
no correlation with the other modes, whose reduced state is untouched — any register, any prior state. -/
theorem displaced_squeezed_doc (C : Consts K) (V : XP K) (k : Nat) (r c s ch sh c2 s2 : K) (hcs : c2 * c2 + s2 * s2 = 1) :
    dsqTemplateState C V k r c s ch sh c2 s2 =
      prepMode V k ((ch * ch + sh * sh) - c2 * (2 * ch * sh)) (-(s2 * (2 * ch * sh)))
        ((ch * ch + sh * sh) + c2 * (2 * ch * sh)) (C.h * (r * c)) (C.h * (r * s)) :=
  displacedSqueezed_doc C V k r c s ch sh c2 s2 hcs

/-! ### the emitted mesh circuits are the factorisations' defining products

Unitary semantics `runM` (`SFV/Model/DecomposeMesh.lean`): every passive gate multiplies the accumulated unitary from
the left by its docstring matrix embedded at its targets.  `cs` gives `(cos, sin)` of an opaque angle, `hf = 1/2`. -/

open SFV.Decomp in
/-- per block: `BSgate(θ,0)·Rgate(φ) = T(θ,φ)`, `Rgate(−φ)·BSgate(−θ,0) = Ti(θ,φ)`, at any two distinct modes -/
theorem clements_blocks {A : Type} [Neg A] (cs : A → K × K) (hf : K) (zero : A) (h0 : cs zero = (1, 0))
    (hneg : ∀ a, cs (-a) = ((cs a).1, -(cs a).2)) (θ φ : A) (p q : Nat) (hpq : p ≠ q) (W : CMat K) :
    applyM cs hf ⟨.BS θ zero, [p, q]⟩ (applyM cs hf ⟨.R φ, [p]⟩ W) = leftMix (blkT (cs θ).1 (cs θ).2 (eOf cs φ)) p q W ∧
    applyM cs hf ⟨.R (-φ), [p]⟩ (applyM cs hf ⟨.BS (-θ) zero, [p, q]⟩ W) = leftMix (blkTi (cs θ).1 (cs θ).2 (eOf cs φ)) p q W :=
  ⟨clements_block cs hf zero h0 θ φ p q hpq W, clements_inv_block cs hf zero h0 hneg θ φ p q hpq W⟩

open SFV.Decomp in
/-- per block: the MZgate docstring matrix is `mach_zehnder(φ_i, φ_e)`; the sMZgate matrix at `(σ+δ, σ−δ)` is the
sMZI matrix `M(σ, δ)` -/
theorem mz_smz_blocks (hf c s cσ sσ : K) (hh : hf + hf = 1) (hcs : c * c + s * s = 1) (e' : SFV.Decomp.Cx K) :
    blkMZdoc hf (⟨c * c - s * s, 2 * c * s⟩ : SFV.Decomp.Cx K) e' = blkMZ c s e' ∧
    blkSMZdoc hf (⟨cσ * c - sσ * s, sσ * c + cσ * s⟩ : SFV.Decomp.Cx K) ⟨cσ * c + sσ * s, sσ * c - cσ * s⟩ = blkM c s ⟨cσ, sσ⟩ :=
  ⟨mz_block hf c s hh hcs e', smz_block hf cσ sσ c s hh⟩

open SFV.Decomp in
/-- **Clements meshes**, `drop_identity=False`: emitted unitary = `Ti(BS2[0]) ⋯ Ti(BS2[-1]) · D · T(BS1[-1]) ⋯ T(BS1[0])`,
for factor lists of every length on any injective target list. -/
theorem interferometer_defining_product {A : Type} [DecidableEq A] [Neg A] (cs : A → K × K) (hf : K) (zero : A)
    (h0 : cs zero = (1, 0)) (hneg : ∀ a, cs (-a) = ((cs a).1, -(cs a).2)) (clip mod2pi : A → A) (identity : Bool)
    (reg : List Nat) (BS1 : List (Nat × Nat × A × A)) (R : List (Option A)) (BS2 : List (Nat × Nat × A × A))
    (h1 : ∀ e ∈ BS1, rg reg e.1 ≠ rg reg e.2.1) (h2 : ∀ e ∈ BS2, rg reg e.1 ≠ rg reg e.2.1) (W : CMat K) :
    runM cs hf (interferometerCmds zero clip mod2pi identity false false reg BS1 R (some BS2)) W =
      prodTi cs (relab reg clip BS2.reverse) (prodPhase cs (phaseList zero mod2pi reg R) (prodT cs (relab reg clip BS1) W)) :=
  SFV.Decompose.interferometer_defining_product cs hf zero h0 hneg clip mod2pi identity reg BS1 R BS2 h1 h2 W

open SFV.Decomp in
/-- **given factors with the promised structure, the emitted circuit is `U`** — with `drop_identity` on or off
(for a non-identity input): if the defining product of `(BS1, R, BS2)` is `U`, so is the unitary of the command list.
C17 (`reconstruct`, `schedule_rectangular`) derives the hypothesis from the elimination run. -/
theorem interferometer_implements_U {A : Type} [DecidableEq A] [Neg A] (cs : A → K × K) (hf : K) (zero : A)
    (h0 : cs zero = (1, 0)) (hneg : ∀ a, cs (-a) = ((cs a).1, -(cs a).2)) (hnz : -zero = zero) (clip mod2pi : A → A)
    (hmod : mod2pi zero = zero) (dropId : Bool) (reg : List Nat) (BS1 : List (Nat × Nat × A × A)) (R : List (Option A))
    (BS2 : List (Nat × Nat × A × A)) (h1 : ∀ e ∈ BS1, rg reg e.1 ≠ rg reg e.2.1) (h2 : ∀ e ∈ BS2, rg reg e.1 ≠ rg reg e.2.1)
    (U : CMat K)
    (hprod : prodTi cs (relab reg clip BS2.reverse) (prodPhase cs (phaseList zero mod2pi reg R)
      (prodT cs (relab reg clip BS1) idM)) = U) :
    runM cs hf (interferometerCmds zero clip mod2pi false dropId false reg BS1 R (some BS2)) idM = U := by
  cases dropId
  · rw [SFV.Decompose.interferometer_defining_product cs hf zero h0 hneg clip mod2pi false reg BS1 R BS2 h1 h2 idM, hprod]
  · rw [interferometer_drop_same_unitary cs hf zero h0 hnz clip mod2pi hmod false reg BS1 R (some BS2) idM,
      SFV.Decompose.interferometer_defining_product cs hf zero h0 hneg clip mod2pi false reg BS1 R BS2 h1 h2 idM, hprod]

open SFV.Decomp in
/-- **the emitted Clements circuit as a product of Mathlib matrices** on `Fin n`:
`Ti(BS2[0]) ⋯ Ti(BS2[-1]) · P(R[-1]) ⋯ P(R[0]) · T(BS1[-1]) ⋯ T(BS1[0])`. -/
theorem emitted_matrix_product {A : Type} [DecidableEq A] [Neg A] {n : Nat} (cs : A → K × K) (hf : K) (zero : A)
    (h0 : cs zero = (1, 0)) (hneg : ∀ a, cs (-a) = ((cs a).1, -(cs a).2)) (clip mod2pi : A → A) (identity : Bool)
    (reg : List Nat) (BS1 : List (Nat × Nat × A × A)) (R : List (Option A)) (BS2 : List (Nat × Nat × A × A))
    (h1 : Inside n (relab reg clip BS1)) (h2 : Inside n (relab reg clip BS2)) :
    toM n (runM cs hf (interferometerCmds zero clip mod2pi identity false false reg BS1 R (some BS2)) idM) =
      prodL ((relab reg clip BS2).map (matTi n cs)) *
        prodL (((phaseList zero mod2pi reg R).map (matP n cs)).reverse) *
        prodL (((relab reg clip BS1).map (matT n cs)).reverse) :=
  SFV.Decompose.emitted_matrix_product cs hf zero h0 hneg clip mod2pi identity reg BS1 R BS2 h1 h2

open SFV.Decomp in
/-- **composed with C17's `reconstruct`** (no product hypothesis left): if the factor lists are the record of an
elimination run on `U` — left factors inverted by the `Ti` blocks of `BS2`, right factors by the `T` blocks of `BS1`,
the run ending in the diagonal of the local phases — the emitted circuit's unitary is `U`. The run itself (its blocks
null the scheduled entries, the final matrix is diagonal with unit-modulus entries) is C17's `null_step_*` and
`schedule_rectangular`. -/
theorem interferometer_from_elimination {A : Type} [DecidableEq A] [Neg A] {n : Nat} (cs : A → K × K) (hf : K) (zero : A)
    (h0 : cs zero = (1, 0)) (hneg : ∀ a, cs (-a) = ((cs a).1, -(cs a).2)) (clip mod2pi : A → A) (identity : Bool)
    (reg : List Nat) (BS1 : List (Nat × Nat × A × A)) (R : List (Option A)) (BS2 : List (Nat × Nat × A × A))
    (h1 : Inside n (relab reg clip BS1)) (h2 : Inside n (relab reg clip BS2))
    (U D : Matrix (Fin n) (Fin n) (SFV.Decomp.Cx K))
    (l : List (Matrix (Fin n) (Fin n) (SFV.Decomp.Cx K) ⊕ Matrix (Fin n) (Fin n) (SFV.Decomp.Cx K)))
    (inv : Matrix (Fin n) (Fin n) (SFV.Decomp.Cx K) → Matrix (Fin n) (Fin n) (SFV.Decomp.Cx K))
    (hl : ∀ t ∈ lefts l, inv t * t = 1) (hr : ∀ t ∈ rights l, t * inv t = 1) (hrun : runElim U l = D)
    (hBS2 : (lefts l).map inv = (relab reg clip BS2).map (matTi n cs))
    (hBS1 : (rights l).reverse.map inv = ((relab reg clip BS1).map (matT n cs)).reverse)
    (hD : D = prodL (((phaseList zero mod2pi reg R).map (matP n cs)).reverse)) :
    toM n (runM cs hf (interferometerCmds zero clip mod2pi identity false false reg BS1 R (some BS2)) idM) = U :=
  SFV.Decompose.interferometer_from_elimination cs hf zero h0 hneg clip mod2pi identity reg BS1 R BS2 h1 h2 U D l inv
    hl hr hrun hBS2 hBS1 hD

open SFV.Decomp in
/-- **compact meshes**: the unitary of the circuits `_rectangular_compact_cmds` / `_triangular_compact_cmds` emit is the
mesh's defining product of phase shifters `P(j, φ)` and sMZIs `M(n, σ, δ)` (`sMZgate(σ+δ, σ−δ) = M(σ, δ)`), every size. -/
theorem compact_defining_products {A : Type} [Add A] [Sub A] (cs : A → K × K) (hf : K) (hh : hf + hf = 1)
    (hadd : AngleAdd cs) (reg : List Nat) (m : Nat) (phiIns : Nat → A) (phiEdges : Nat → Nat → A)
    (deltas sigmas : Nat → Nat → A) (phiOuts : List (Nat × A)) (zetas : Nat → A) (W : CMat K) :
    runM cs hf (rectCompactCmds reg m phiIns phiEdges deltas sigmas phiOuts) W =
      runSpec cs reg (rectCompactSpec m phiIns phiEdges deltas sigmas phiOuts) W ∧
    runM cs hf (triCompactCmds reg m phiIns deltas sigmas zetas) W =
      runSpec cs reg (triCompactSpec m phiIns deltas sigmas zetas) W :=
  ⟨rect_compact_defining_product cs hf hh hadd reg m phiIns phiEdges deltas sigmas phiOuts W,
   tri_compact_defining_product cs hf hh hadd reg m phiIns deltas sigmas zetas W⟩

open SFV.Decomp in
/-- **Reck mesh** (repaired): emitted unitary = `Ti(tl[-1]) ⋯ Ti(tl[0]) · D` (`U = T₁⁻¹ ⋯ T_k⁻¹ D`). -/
theorem triangular_defining_product {A : Type} [DecidableEq A] [Neg A] (cs : A → K × K) (hf : K) (zero : A)
    (h0 : cs zero = (1, 0)) (hneg : ∀ a, cs (-a) = ((cs a).1, -(cs a).2)) (clip mod2pi : A → A) (identity : Bool)
    (reg : List Nat) (BS1 : List (Nat × Nat × A × A)) (R : List (Option A)) (BS2 : Option (List (Nat × Nat × A × A)))
    (h1 : ∀ e ∈ BS1, rg reg e.1 ≠ rg reg e.2.1) (W : CMat K) :
    runM cs hf (interferometerDecompose zero clip mod2pi identity false false true reg BS1 R BS2) W =
      prodTi cs (relab reg clip BS1) (prodPhase cs (phaseList zero mod2pi reg R) W) :=
  SFV.Decompose.triangular_defining_product cs hf zero h0 hneg clip mod2pi identity reg BS1 R BS2 h1 W

open SFV.Decomp in
/-- the Reck factors emitted the *old* way (as a Clements `BS1` list: `T` blocks, then the phases) give
`D · T(tl[-1]) ⋯ T(tl[0])` instead — a different matrix already for one block: -/
theorem triangular_old_counterexample :
    let cs : Int → Int × Int := fun a => if a = 1 then (0, 1) else if a = -1 then (0, -1) else (1, 0)
    runM cs 0 (interferometerCmds 0 id id false false false [0, 1] [(0, 1, 1, 0)] [some 0, some 0] none) idM 0 1 ≠
    runM cs 0 (interferometerDecompose 0 id id false false false true [0, 1] [(0, 1, 1, 0)] [some 0, some 0] none) idM 0 1 := by
  decide

open SFV.Decomp in
/-- **MZ mesh** (`rectangular_symmetric`): emitted unitary = `∏ mach_zehnder(φ_i, φ_e)` in list order. -/
theorem symmetric_defining_product {A : Type} [DecidableEq A] [Neg A] (cs : A → K × K) (hf : K) (hh : hf + hf = 1)
    (zero : A) (clip mod2pi : A → A) (half : A → K × K)
    (hhalf : ∀ a, cs a = ((half a).1 * (half a).1 - (half a).2 * (half a).2, 2 * (half a).1 * (half a).2))
    (hunit : ∀ a, (half a).1 * (half a).1 + (half a).2 * (half a).2 = 1)
    (identity dropId : Bool) (hd : (!identity || !dropId) = true) (reg : List Nat)
    (BS1 : List (Nat × Nat × A × A)) (W : CMat K) :
    runM cs hf (interferometerCmds zero clip mod2pi identity dropId true reg BS1 [] none) W =
      prodMZ cs half (relab reg (fun a => mod2pi (clip a)) BS1) W :=
  SFV.Decompose.symmetric_defining_product cs hf hh zero clip mod2pi half hhalf hunit identity dropId hd reg BS1 W

open SFV.Decomp in
/-- **`sun_compact`**: emitted unitary = global phase · `B₁ B₂ ⋯ B_k` (SU(2) blocks, last factor acting first). -/
theorem sun_compact_defining_product {A : Type} [DecidableEq A] [Neg A] (cs : A → K × K) (hf : K) (zero : A)
    (h0 : cs zero = (1, 0)) (hneg : ∀ a, cs (-a) = ((cs a).1, -(cs a).2)) (half divn : A → A) (reg : List Nat)
    (params : List ((Nat × Nat) × (A × A × A))) (gp : Option A) (hadj : ∀ p ∈ params, p.1.2 = p.1.1 + 1)
    (hl : ∀ p ∈ params, rg reg p.1.1 ≠ rg reg p.1.2) (W : CMat K) :
    ∃ cmds, sunCompactCmds half divn zero reg params gp = some cmds ∧
      runM cs hf cmds W =
        prodPhase cs ((match gp with | some g => reg.map fun mode => (divn g, mode) | none => []).reverse)
          (prodSU2 cs half reg params.reverse W) :=
  SFV.Decompose.sun_compact_defining_product cs hf zero h0 hneg half divn reg params gp hadj hl W

/-! ### templates of the matrix operations -/

/-- `GraphEmbed._decompose` without the `identity` shortcut: the squeezers the factors demand (those not below the
tolerance), then one interferometer with the requested mesh — unless `U` is the identity. -/
theorem graph_embed_cmds_partial {A : Type} (d : IDefaults A) (zero : A) (sq : List (A × Bool)) (uId : Bool)
    (kwMesh : Option String) (reg : List Nat) :
    graphEmbedCmds d zero false sq uId kwMesh reg =
      (sq.zipIdx.flatMap fun (sb, n) => if sb.2 then [(⟨.sgate sb.1 zero, [rg reg n]⟩ : XCmd A)] else []) ++
      (if uId then [] else [⟨.interferometer "U" (kwMesh.getD "rectangular") d.dropId d.tol, reg⟩]) := by
  simp [graphEmbedCmds]

/-- known finding: with `A = 1` the flag `identity` is set and nothing is emitted, although the factors of that `A`
(equal non-zero squeezing on every mode, `U = 1`) demand one squeezer per mode -/
theorem graph_embed_identity_counterexample :
    graphEmbedCmds (⟨"rectangular", true, 0⟩ : IDefaults Int) 0 true [(1, true), (1, true)] true none [0, 1] = [] ∧
    graphEmbedCmds (⟨"rectangular", true, 0⟩ : IDefaults Int) 0 false [(1, true), (1, true)] true none [0, 1] =
      [⟨.sgate 1 0, [0]⟩, ⟨.sgate 1 0, [1]⟩] := by decide

/-- `GaussianTransform._decompose`, active and not on vacuum: interferometer `U2` first, the squeezers not below
tolerance as `Sgate(−r, φ)`, then `U1` — the documented `S = O₁ Z O₂` read from the right — and *both* interferometers
carry the requested mesh (after the `fix:`; the first one used to ignore the option). -/
theorem gaussian_transform_structure {A : Type} [Neg A] (d : IDefaults A) (kwMesh : Option String)
    (sq : List (Bool × A × A)) (reg : List Nat) :
    gaussianTransformCmds d true false kwMesh sq reg =
      [⟨.interferometer "U2" (kwMesh.getD "rectangular") d.dropId d.tol, reg⟩] ++
      (sq.zipIdx.flatMap fun (e, n) => if e.1 then [(⟨.sgate (-e.2.1) e.2.2, [rg reg n]⟩ : XCmd A)] else []) ++
      [⟨.interferometer "U1" (kwMesh.getD "rectangular") d.dropId d.tol, reg⟩] := by
  simp [gaussianTransformCmds]

/-! ### the repaired pure-diagonal branch of `Gaussian._decompose`

`Squeezed(r, φ)` has `V_xx = cosh 2r − cos φ·sinh 2r`; twice that is `(e^{2r} + e^{−2r}) − cos φ·(e^{2r} − e^{−2r})`.
The branch receives the diagonal entry `e` (and `ie = 1/e`); `small` is the test `e < 1`. -/

/-- atoms `(e^{−2r}, e^{2r}, cos φ)` chosen by the source: `r = |log e|/2`; repaired: `φ = 0` if `e < 1` else `π` -/
def gaussDiag (small : Bool) (e ie : K) : K × K × K := if small then (e, ie, 1) else (ie, e, -1)
/-- before the fix: `φ = 0` always -/
def gaussDiagOld (small : Bool) (e ie : K) : K × K × K := if small then (e, ie, 1) else (ie, e, 1)
def twiceVxx (a : K × K × K) : K := (a.2.1 + a.1) - a.2.2 * (a.2.1 - a.1)

/-- the repaired branch prepares the requested variance for x- and for p-squeezed inputs -/
theorem gaussian_pure_diagonal (small : Bool) (e ie : K) : twiceVxx (gaussDiag small e ie) = e + e := by
  cases small <;> simp [twiceVxx, gaussDiag] <;> ring

/-- the old branch was right only for `e < 1` … -/
theorem gaussian_pure_diagonal_old_partial (e ie : K) : twiceVxx (gaussDiagOld true e ie) = e + e := by
  simp [twiceVxx, gaussDiagOld]

/-- … a p-squeezed input (`V_xx = 4`) was prepared x-squeezed (`V_xx = 1/4`) -/
theorem gaussian_pure_diagonal_old_counterexample :
    twiceVxx (gaussDiagOld false (4 : Rat) (1 / 4)) ≠ 4 + 4 := by decide +kernel

/-! ### non-vacuity (atoms in `ZMod 17`, where `2·3² = 1`, `4² + 6² = 1`, `6² − 1² = 1`) -/

def exC : Consts (ZMod 17) := ⟨3, 2, 9⟩
theorem exC_ok : exC.ok := by unfold Consts.ok; decide
/-- a three-mode program with descending targets, a daggered composite, `CZgate` (two levels) and `Pgate` -/
def exProg : List (Cmd (ZMod 17)) :=
  [⟨.CZg 6 1 4 6, [2, 0], true⟩, ⟨.S2g 6 1 4 6, [1, 2], true⟩, ⟨.MZg 4 6 6 4, [2, 1], false⟩,
   ⟨.Pg 1 6 3 1, [1], false⟩, ⟨.Xg 5, [0], true⟩, ⟨.sMZg 4 6 6 4, [0, 2], true⟩]
theorem exProg_ok : ∀ c ∈ exProg, c.ok := by
  intro c hc
  simp only [exProg, List.mem_cons, List.not_mem_nil, or_false] at hc
  rcases hc with rfl | rfl | rfl | rfl | rfl | rfl <;>
    simp [Cmd.ok, Op.ok, Op.isGate, Op.arity] <;> decide
/-- the hypotheses of `scalar_driver_sound` are met by `exProg`; it compiles for the Gaussian tables -/
example := scalar_driver_sound exC exC_ok Gen.Compilers.gaussianPrims Gen.Compilers.gaussianDecs exProg exProg_ok
example : ∃ seq, decompose exC ⟨.CZg 6 1 4 6, [2, 0], true⟩ = some seq ∧ seq.length = 3 := ⟨_, rfl, rfl⟩
example : semCmd exC ⟨.CZg 6 1 4 6, [2, 0], false⟩ (fun u => if u = (2, false) then 1 else 0) (0, true) ≠ 0 := by decide
example (s : Vec (ZMod 17)) : semCmd exC (Cmd.flip ⟨.BSg 4 6 6 4, [2, 0], true⟩) (semCmd exC ⟨.BSg 4 6 6 4, [2, 0], true⟩ s) = s :=
  gate_apply_inverse exC exC_ok _ (by simp [Cmd.ok, Op.ok, Op.isGate, Op.arity]; decide) s
example : tableClosed ["Rgate"] ["CZgate"] = false := by decide +kernel
example : interferometerCmds (0 : Int) id id false true false [0, 1, 2] [(0, 1, 0, 5), (1, 2, 7, 0)] [some 3, none, some 0]
    (some [(0, 1, 2, 0)]) =
    [⟨.R 5, [0]⟩, ⟨.BS 7 0, [1, 2]⟩, ⟨.R 3, [0]⟩, ⟨.BS (-2) 0, [0, 1]⟩] := by decide
example : interferometerDecompose (0 : Int) id id false false false true [0, 1] [(0, 1, 2, 5)] [some 3, none] none =
    [⟨.R 3, [0]⟩, ⟨.R 0, [1]⟩, ⟨.BS (-2) 0, [0, 1]⟩, ⟨.R (-5), [0]⟩] := by decide
example : (sunCompactCmds (fun x : Int => x) (fun x => x) 0 [3, 4] [((0, 1), (1, 2, 3))] (some 9)).map List.length = some 7 := by
  decide
example : twiceVxx (gaussDiag false (4 : Rat) (1 / 4)) = 8 := by decide +kernel
/-- a symmetric, correlated, non-vacuum state over `ZMod 17` meets `SymXP` -/
def exV : XP (ZMod 17) := ⟨fun i j => if i = j then 3 else 2, fun i j => (i + 2 * j : Nat), fun i j => if i = j then 5 else 1,
  fun i => (i + 1 : Nat), fun _ => 4⟩
example : SymXP exV := ⟨fun i j => by simp only [exV, eq_comm], fun i j => by simp only [exV, eq_comm]⟩
example : ∃ seq, decompose exC ⟨.S2g 6 1 4 6, [2, 0], true⟩ = some seq ∧ stateList exC seq exV = stateStep exC exV ⟨.S2g 6 1 4 6, [2, 0], true⟩ :=
  ⟨_, rfl, gate_decompose_state exC exC_ok _ (by simp [Cmd.ok, Op.ok, Op.isGate, Op.arity]; decide) _ rfl exV
    ⟨fun i j => by simp only [exV, eq_comm], fun i j => by simp only [exV, eq_comm]⟩⟩
/-- atoms of the angles `0, ±1` over `ZMod 17` meeting the hypotheses of the mesh theorems -/
def exCs : Int → ZMod 17 × ZMod 17 := fun a => if a = 0 then (1, 0) else if 0 < a then (4, 6) else (4, -6)
example : exCs 0 = (1, 0) ∧ ∀ a, exCs (-a) = ((exCs a).1, -(exCs a).2) := by
  refine ⟨rfl, fun a => ?_⟩
  simp only [exCs]
  rcases lt_trichotomy a 0 with h | h | h
  · have h1 : ¬ a = 0 := by omega
    have h2 : ¬ 0 < a := by omega
    have h3 : ¬ -a = 0 := by omega
    have h4 : 0 < -a := by omega
    simp [h1, h2, h3]
    intro h5; exact absurd h5 (by omega)
  · subst h; simp
  · have h1 : ¬ a = 0 := by omega
    have h3 : ¬ -a = 0 := by omega
    have h4 : ¬ 0 < -a := by omega
    simp [h1, h, h3]
    intro h5; exact absurd h5 (by omega)
example : (9 : ZMod 17) + 9 = 1 := by decide
example : rectCompactSpec 3 (fun j => (j : Int)) (fun _ l => 10 + l) (fun a l => 20 + a + l) (fun a l => 30 + a + l) [(1, 7)] =
    [.phase 0 0, .phase 10 2, .smzi 30 20 0, .smzi 32 22 1, .phase 12 2, .smzi 32 22 0, .phase 7 1] := by decide
example : (triCompactSpec 3 (fun j => (j : Int)) (fun a l => 20 + a + l) (fun a l => 30 + a + l) (fun j => 40 + j)).length = 8 := by decide

end SFV.C02
