import SFV.Proofs.HwCompile
import SFV.Proofs.HwMerge
import SFV.Proofs.HwTemplate
import SFV.Proofs.HwChecks
import SFV.Proofs.HwSymMesh
import SFV.Proofs.HwGbsOpt

/-!
# C12 — hardware compilation conforms to the device and preserves the experiment

Statements about the model `SFV.Model.HwCompile` (transcription of the decision logic of
`compilers/compiler.py` `Range/Ranges/init_circuit`, `device.py` `validate_parameters`, `program.py` /
`tdm/program.py` `assert_modes`, the X-series command skeleton of `xunitary.py` / `xcov.py` with
`rectangular_symmetric`, the S2-merge loop of `xunitary.py`, `Borealis.compile` / `update_params`).
`harness/props/c12.py` ties every modelled function to the real one on generated inputs and states the
property itself on the real code (compile against synthetic device specifications, re-validate the output
independently, compare photon statistics with the source program).

Angles of the phase-compensation theorems are rationals in units of π (`q` stands for `q·π`).
-/
namespace SFV.C12

open SFV SFV.Hw

/-! ## parameter ranges -/

/-- **ranges_sound.**  A value is accepted by `Ranges.__contains__` exactly when it lies within
`[x − atol, y + atol]` of one of the ranges.  In particular every point of a range is accepted, and a
value farther than `atol` from every range is rejected. -/
theorem ranges_sound (rs : List Range) (v : Rat) :
    (rangesContain rs v = true ↔ ∃ r ∈ rs, r.x - r.atol ≤ v ∧ v ≤ r.y + r.atol) ∧
    (∀ r ∈ rs, 0 ≤ r.atol → r.x ≤ v → v ≤ r.y → rangesContain rs v = true) ∧
    ((∀ r ∈ rs, v < r.x - r.atol ∨ r.y + r.atol < v) → rangesContain rs v = false) := by
  refine ⟨rangesContain_iff rs v, ?_, ?_⟩
  · intro r hr ha hx hy
    exact (rangesContain_iff rs v).2 ⟨r, hr, by grind, by grind⟩
  · intro h
    cases hc : rangesContain rs v with
    | false => rfl
    | true =>
      obtain ⟨r, hr, h1, h2⟩ := (rangesContain_iff rs v).1 hc
      rcases h r hr with h3 | h3 <;> grind

example : rangesContain [⟨0, 0, defaultAtol⟩, ⟨1/5, 11/20, defaultAtol⟩, ⟨1, 1, defaultAtol⟩] (17/50) = true ∧
    rangesContain [⟨0, 0, defaultAtol⟩, ⟨1/5, 11/20, defaultAtol⟩, ⟨1, 1, defaultAtol⟩] (1/10) = false := by
  decide +kernel

/-- the ranges a device specification entry produces: a single value or a lower/upper pair with
`lower ≤ upper`, tolerance `1e-5` -/
theorem spec_entry_range {a : List Rat} {r : Range} (h : mkRange a = some r) :
    r.x ≤ r.y ∧ r.atol = defaultAtol ∧ (a = [r.x] ∧ r.y = r.x ∨ a = [r.x, r.y]) := mkRange_spec h

example : mkRange [0, 1] = some ⟨0, 1, defaultAtol⟩ ∧ mkRange [1, 0] = none := by decide +kernel

/-- **parameter validation is exact.**  `Device.validate_parameters` raises nothing exactly when every
supplied parameter is known to the device and each of its values is inside the parameter's ranges; an
error names a parameter that is unknown, or a value that is in none of its ranges. -/
theorem validate_sound (g : List (String × List Range)) (ps : List (String × List Rat)) :
    (validateParameters (some g) ps = none ↔
      ∀ e ∈ ps, ∃ rs, lookup g e.1 = some rs ∧ ∀ v ∈ e.2, rangesContain rs v = true) ∧
    (∀ e, validateParameters (some g) ps = some e →
      (∃ p, e = .unknown p ∧ (∃ vs, (p, vs) ∈ ps) ∧ lookup g p = none) ∨
      (∃ p v rs, e = .invalid p v ∧ lookup g p = some rs ∧ (∃ vs, (p, vs) ∈ ps ∧ v ∈ vs) ∧
        rangesContain rs v = false)) :=
  ⟨validate_none_iff g ps, fun _ h => validate_error_sound h⟩

example : validateParameters (some [("r", [⟨0, 0, defaultAtol⟩, ⟨1, 1, defaultAtol⟩])]) [("r", [1, 0, 1/2])]
    = some (.invalid "r" (1/2)) := by decide +kernel

/-! ## layout cache of a compiler class -/

/-- **init_circuit is stable.**  Once a compiler class holds a layout, any history of further
`init_circuit` calls (without `reset_circuit`) leaves it unchanged, accepting exactly the layouts equal
to it up to newlines; an unset class takes the first layout offered. -/
theorem init_circuit_stable :
    (∀ cur, isSet cur = false → ∀ layout, initCircuit cur layout = some (some layout)) ∧
    (∀ cur, isSet cur = true → ∀ evs : List LayoutEv, (∀ e ∈ evs, ∃ l, e = LayoutEv.init l) →
      (runLayout cur evs).1 = cur ∧
      (runLayout cur evs).2 = evs.map fun e =>
        match e with
        | .init l => decide (cur.map stripNewlines = some (stripNewlines l))
        | .reset => true) :=
  ⟨fun _ h l => initCircuit_unset h l, fun _ h evs hn => runLayout_set h evs hn⟩

example : isSet (some "layout") = true ∧ isSet (some "") = false ∧
    ∀ e ∈ [LayoutEv.init "layout", .init "other"], ∃ l, e = LayoutEv.init l :=
  ⟨by decide, by decide, by simp⟩

/-! ## mode limits -/

/-- **assert_modes is monotone.**  Integer limit: accepted programs stay accepted with fewer modes or a
larger device.  Measurement limits: acceptance is exactly "each count ≤ its limit", counts only shrink
when commands are removed, so sub-circuits and larger limits stay accepted.  TDM limits: accepted exactly
when the time bins fit and the concurrent / spatial mode numbers are the device's. -/
theorem assert_modes_monotone :
    (∀ t t' m m', t' ≤ t → m ≤ m' → assertModesInt t m = none → assertModesInt t' m' = none) ∧
    (∀ (c c' : List (MeasKind × Nat)) (p h t p' h' t' : Nat), c'.Sublist c → p ≤ p' → h ≤ h' → t ≤ t' →
      assertModesDict c p h t = none → assertModesDict c' p' h' t' = none) ∧
    (∀ tb c s tmax dc ds, tdmAssertModes tb c s tmax dc ds = none ↔ tb ≤ tmax ∧ c = dc ∧ s = ds) := by
  refine ⟨fun _ _ _ _ ht hm h => assertModesInt_mono ht hm h, ?_, tdmAssertModes_none_iff⟩
  intro c c' p h t p' h' t' hs hp hh ht hacc
  have h1 := (assertModesDict_none_iff c p h t).1 hacc
  have h2 := countMeas_sublist hs
  exact (assertModesDict_none_iff c' p' h' t').2 ⟨by omega, by omega, by omega⟩

example : assertModesDict [(.pnr, 2), (.homodyne, 1), (.pnr, 1)] 3 1 0 = none ∧
    assertModesDict [(.pnr, 2), (.homodyne, 1), (.pnr, 1)] 2 1 0 = some .pnr := by decide +kernel

/-! ## X-series template -/

/-- **template_conformance.**  For EVERY number `N` of mode pairs, every order `o` in which the squeezers end up
(any arrangement of `0 … N-1` without repetition) and every wire `w`: the circuit `Xunitary` / `Xcov` emit
(`B + U1 + U2 + meas`, `U1` the `rectangular_symmetric` decomposition: column sweeps of the even diagonals,
then the reversed row sweeps of the odd ones, then one `Rgate` per mode) carries on wire `w` the same gates on
the same modes in the same order as the device layout (squeezers, the rectangular mesh written layer by
layer for both halves, all `Rgate`s, `MeasureFock`).  Equality on every wire is equality of the circuit DAGs,
which is what the layout matching (`match_template`, graph isomorphism with name/modes node match) decides. -/
theorem template_conformance (N w : Nat) (o : List Nat) (hn : o.Nodup) (hm : ∀ i, i ∈ o ↔ i < N) :
    onWire w (xCompiled N o) = onWire w (xLayout N) :=
  xCompiled_wire_eq N w o hn hm

example : ([2, 0, 1] : List Nat).Nodup ∧ ∀ i, i ∈ ([2, 0, 1] : List Nat) ↔ i < 3 := by
  refine ⟨by decide, fun i => ?_⟩
  simp only [List.mem_cons, List.not_mem_nil, or_false]
  omega

/-- the combinatorial core of it: the symmetric decomposition emits exactly the layer positions of the layout
(each once — both tagged lists are strictly sorted per wire), and on every wire in the order of the layers -/
theorem template_mesh_order (N w : Nat) :
    (∀ x, x ∈ compiledT N ↔ x ∈ layoutT N) ∧
    (compiledT N).map Prod.snd = compiledMZ N ∧ (layoutT N).map Prod.snd = layoutMZ N ∧
    (compiledMZ N).filter (touchP w) = (layoutMZ N).filter (touchP w) :=
  ⟨mem_compiledT_iff N, compiledT_snd N, layoutT_snd N, mesh_wire_eq N w⟩

example : compiledT 4 = [(0, 0), (0, 2), (1, 1), (2, 0), (2, 2), (3, 1)] ∧ layoutT 4 = compiledT 4 := by
  decide +kernel

/-- **template_mesh_facts.**  For every `N`: (1) every `MZgate` the symmetric decomposition emits acts
on two adjacent modes inside its half, as every `MZgate` of the layout does; (2) every position of the layout's
mesh — layer `l < N`, first mode `p`, `p + 1 < N`, `p ≡ l (mod 2)` — is produced by the decomposition, by the
column sweep of the even diagonal `k = l + p` or the row sweep of the odd diagonal `k = 2N − 3 − l − p`;
(3) the emitted circuit is squeezers ⧺ mesh and one `Rgate` per mode on the signal half ⧺ the same shifted by
`N` ⧺ one `MeasureFock` on all `2N` modes.  (Ingredients of `template_conformance`, kept as stated facts.) -/
theorem template_mesh_facts (N : Nat) :
    (∀ p ∈ compiledMZ N, p + 1 < N) ∧ (∀ p ∈ layoutMZ N, p + 1 < N) ∧
    (∀ l p, l < N → p + 1 < N → p % 2 = l % 2 →
      (∃ k, k < N - 1 ∧ k % 2 = 0 ∧ p ∈ colSweep k ∧ k = l + p) ∨
      (∃ k, k < N - 1 ∧ k % 2 = 1 ∧ p ∈ rowSweep N k ∧ k + l + p + 3 = 2 * N)) ∧
    (∀ o, xCompiled N o = o.map (s2Sk N)
      ++ ((compiledMZ N).map (mzSk 0) ++ (List.range N).map (fun i => rSk (i + 0)))
      ++ ((compiledMZ N).map (mzSk N) ++ (List.range N).map (fun i => rSk (i + N))) ++ [measSk (2 * N)]) :=
  ⟨fun _ h => compiledMZ_adjacent h, fun _ h => layoutMZ_adjacent h,
    fun _ _ hl hp hpar => compiledMZ_covers hl hp hpar, xCompiled_parts N⟩

example : compiledMZ 5 = [0, 2, 1, 0, 3, 2, 1, 0, 3, 2] ∧ layoutMZ 5 = [0, 2, 1, 3, 0, 2, 1, 3, 0, 2] := by
  decide +kernel

/-- test by evaluation of the theorem above for `N ≤ 7`, every wire, squeezers in reversed order -/
example : ∀ N ∈ List.range 8, ∀ w ∈ List.range (2 * N + 1),
    onWire w (xCompiled N (List.range N).reverse) = onWire w (xLayout N) := by
  decide +kernel

/-! ## Xunitary / Xcov: validation of the extracted unitary / adjacency matrix -/

/-- **allclose_exact.**  The model's comparison is `numpy.allclose`'s inequality `|a − b| ≤ atol + rtol·|b|`
(`atol = 1e-8`, `rtol = 1e-5`), decided without square roots: it agrees with the inequality whenever the two
moduli are rational, against zero it is `|a|² ≤ atol²`, and it is reflexive. -/
theorem allclose_exact :
    (∀ (a b : Cq) (d nb : Rat), 0 ≤ d → d * d = (a.1 - b.1) * (a.1 - b.1) + (a.2 - b.2) * (a.2 - b.2) →
      0 ≤ nb → nb * nb = b.1 * b.1 + b.2 * b.2 → (closeC a b = true ↔ d ≤ atolNp + rtolNp * nb)) ∧
    (∀ a : Cq, closeC a (0, 0) = true ↔ a.1 * a.1 + a.2 * a.2 ≤ atolNp * atolNp) ∧
    (∀ A : CM, allcloseM A A = true) :=
  ⟨closeC_iff, closeC_zero, allcloseM_refl⟩

example : closeC (3 / 5 + 3 / 1000000, 4 / 5 + 4 / 1000000) (3 / 5, 4 / 5) = true ∧
    closeC (3 / 5 + 9 / 1000000, 4 / 5 + 12 / 1000000) (3 / 5, 4 / 5) = false := by decide +kernel

/-- **xunitary_verdict.**  For every symplectic matrix handed over by `GaussianUnitary` (any size, acting on any
subset of the modes): `Xunitary` goes on to the decomposition exactly when `S Sᵀ ≈ 1`, both off-diagonal blocks of
`U = S[:n,:n] − i S[:n,n:]` (after expansion to all modes) vanish and `U11 ≈ U22`, all in `numpy.allclose`'s sense;
otherwise the error is the first of "not an interferometer" / "cannot mix" / "must be identical" whose test fails. -/
theorem xunitary_verdict (half : Nat) (S : List (List Rat)) (used : List Nat) :
    ((∃ U11, xunitaryCheck half S used = .ok U11) ↔
      allcloseM (gramR S.length S) (identM S.length) = true ∧
      allcloseM (blockM (xunitaryU half S used) 0 half half (2 * half)) (zerosM half half) = true ∧
      allcloseM (blockM (xunitaryU half S used) half (2 * half) 0 half) (zerosM half half) = true ∧
      allcloseM (blockM (xunitaryU half S used) 0 half 0 half)
        (blockM (xunitaryU half S used) half (2 * half) half (2 * half)) = true) ∧
    (∀ e, xunitaryCheck half S used = .error e →
      (e = .notInterferometer ∧ allcloseM (gramR S.length S) (identM S.length) = false) ∨
      (e = .mix ∧ (allcloseM (blockM (xunitaryU half S used) 0 half half (2 * half)) (zerosM half half) = false ∨
        allcloseM (blockM (xunitaryU half S used) half (2 * half) 0 half) (zerosM half half) = false)) ∨
      (e = .notIdentical ∧ allcloseM (blockM (xunitaryU half S used) 0 half 0 half)
        (blockM (xunitaryU half S used) half (2 * half) half (2 * half)) = false)) :=
  ⟨xunitaryCheck_ok_iff half S used, fun e h => xunitaryCheck_error half S used e h⟩

/-- a rotation by (3/5, 4/5) on mode 0 only, expanded to two modes: asymmetric, so "must be identical" -/
example : (match xunitaryCheck 1 [[3 / 5, -4 / 5], [4 / 5, 3 / 5]] [0] with
    | .error e => decide (e = .notIdentical) | .ok _ => false) = true ∧
    (match xunitaryCheck 1 [[3 / 5, 0, -4 / 5, 0], [0, 3 / 5, 0, -4 / 5], [4 / 5, 0, 3 / 5, 0], [0, 4 / 5, 0, 3 / 5]] [0, 1] with
    | .error _ => false | .ok U11 => decide (U11 = [[(3 / 5, 4 / 5)]])) = true := by decide +kernel

/-- **xcov_verdict.**  `Xcov` hands `B01` to `takagi` exactly when `B00 ≈ 0`, `B11 ≈ 0` and `B01 ≈ B10` (blocks of
`A[:n, :n]`), for every `A` matrix. -/
theorem xcov_verdict (half : Nat) (A : CM) :
    (∃ B01, xcovCheck half A = .ok B01) ↔
      allcloseM (blockM (blockM A 0 (2 * half) 0 (2 * half)) 0 half 0 half) (zerosM half half) = true ∧
      allcloseM (blockM (blockM A 0 (2 * half) 0 (2 * half)) half (2 * half) half (2 * half)) (zerosM half half) = true ∧
      allcloseM (blockM (blockM A 0 (2 * half) 0 (2 * half)) 0 half half (2 * half))
        (blockM (blockM A 0 (2 * half) 0 (2 * half)) half (2 * half) 0 half) = true :=
  xcovCheck_ok_iff half A

example : (match xcovCheck 1 [[(0, 0), (1 / 2, 0), (0, 0), (0, 0)], [(1 / 2, 0), (0, 0), (0, 0), (0, 0)],
      [(0, 0), (0, 0), (0, 0), (1 / 2, 0)], [(0, 0), (0, 0), (1 / 2, 0), (0, 0)]] with
    | .ok B01 => decide (B01 = [[(1 / 2, 0)]]) | .error _ => false) = true := by decide +kernel

/-- **xcov_resynthesis.**  Two-mode squeezers `tanh r = T` on the pairs `(i, i+N)` followed by the same
interferometer `U` on both halves have adjacency block `[[0, U T Uᵀ], [U T Uᵀ, 0]]`; with `U`, `T` Takagi factors of
the source's `B01` this is the source's `[[0, B01], [B01, 0]]` — for every size, over every commutative ring.
(That the `A` matrix determines the photon statistics and transforms by congruence under passive optics is the
documented specification, not proved here.) -/
theorem xcov_resynthesis {m : Type} [Fintype m] [DecidableEq m] {K : Type} [CommRing K]
    (U T B01 : Matrix m m K) (h : U * T * U.transpose = B01) :
    Matrix.fromBlocks U 0 0 U * Matrix.fromBlocks 0 T T 0 * (Matrix.fromBlocks U 0 0 U).transpose
      = Matrix.fromBlocks 0 B01 B01 0 :=
  xcov_block_algebra U T B01 h

example : (Matrix.of fun i j => if i = j then 0 else 1 : Matrix (Fin 2) (Fin 2) Int)
      * (Matrix.of fun i j => if i = j then (i.val + 2 : Int) else 0)
      * Matrix.transpose (Matrix.of fun i j => if i = j then 0 else 1 : Matrix (Fin 2) (Fin 2) Int)
    = (Matrix.of fun i j => if i = j then (3 - i.val : Int) else 0) := by decide +kernel

/-! ## Xunitary: merging repeated two-mode squeezers -/

/-- **s2_merge_spec.**  For EVERY list `B` of `S2gate` commands (any number of pairs carrying any number of
repeated squeezers, in any order) the merge loop of `Xunitary.compile` (pop / insert list surgery, positions
recomputed after every merge) terminates within `len(B)` iterations and
* either returns a list with exactly one squeezer per pair, the pairs in the order of their first
  occurrence in `B` (so commands on other pairs keep their relative order), each squeezer carrying the sum of
  the `r` of all commands on its pair (inverted commands counted negatively: `effR`) and their common phase,
* or raises a `CircuitError`, and then two commands on one pair really have different phases;
when `len(B) ≤ half` the list is returned untouched.  No other error (index error, exhausted loop) is possible. -/
theorem s2_merge_spec (half : Nat) (B : List S2) :
    match mergeS2 half B with
    | .ok out =>
      (B.length ≤ half → out = B) ∧
      (half < B.length →
        (out.map S2.key).Nodup ∧ out.map S2.key = firstOcc (B.map S2.key) ∧
        (∀ c ∈ out, c.effR = sumR c.key B) ∧ (∀ c ∈ out, ∀ d ∈ B, d.key = c.key → d.phi = c.phi))
    | .error e => e = .circuit ∧ half < B.length ∧ ∃ c ∈ B, ∃ d ∈ B, c.key = d.key ∧ c.phi ≠ d.phi :=
  mergeS2_spec half B

/-- two squeezers on each of two pairs, interleaved (the input on which the unrepaired loop used stale
positions), and a phase clash -/
example : (mergeS2 2 [⟨0, 2, 1/2, 0, false⟩, ⟨1, 3, 1/4, 0, false⟩, ⟨0, 2, 1/8, 0, true⟩, ⟨1, 3, 1/2, 0, false⟩]).toOption
      = some [⟨0, 2, 3/8, 0, false⟩, ⟨1, 3, 3/4, 0, false⟩] ∧
    (match mergeS2 2 [⟨1, 3, 1/2, 0, false⟩, ⟨1, 3, 1/2, 0, false⟩, ⟨0, 2, 1/4, 0, false⟩, ⟨0, 2, 1/4, 1/2, false⟩] with
      | .error e => decide (e = .circuit) | .ok _ => false) = true := by
  decide +kernel

/-- one pass of the loop body is the functional merge: the group's commands are removed, the merged
command sits where the first of them was (refinement of the index surgery, for every list and pair) -/
theorem s2_merge_one_refines (B : List S2) (k : Key) (h : k ∈ B.map S2.key) :
    mergeOne B (k, positions k (B.map S2.key)) =
      match accLoop (B.filter (fun c => c.key = k)).reverse 0 0 0 with
      | .ok (r, phi) => .ok (mergeAt k ⟨k.1, k.2, r, phi, false⟩ B)
      | .error e => .error e :=
  mergeOne_spec B k h

example : (0, 2) ∈ ([⟨1, 3, 1, 0, false⟩, ⟨0, 2, 1/2, 0, true⟩, ⟨0, 2, 1/4, 0, false⟩] : List S2).map S2.key := by decide +kernel

/-! ## Borealis: loop-offset insertion -/

/-- **offset insertion conforms.**  When `Borealis.compile`'s insertion loop does not raise, the
resulting sequence carries, position by position, the operation class and wires of the device layout
(as far as both sequences reach) and is at least as long as the layout; it is the user's sequence with
loop-offset gates of the layout inserted — nothing else added, nothing removed or reordered; and there
is exactly one user/compiler flag per loop-offset gate of the layout (what `update_params` indexes). -/
theorem offset_insertion_conforms (lay seq : List TCmd) {out : List TCmd} {fl : List Bool}
    (h : offsetInsert lay seq = some (out, fl)) :
    Conforms lay out ∧ lay.length ≤ out.length ∧ fl.length = (lay.filter (·.offset)).length ∧
    Inserted seq out :=
  offsetInsert_spec lay seq h

example : offsetInsert [⟨"Sgate", [1], false⟩, ⟨"Rgate", [1], true⟩, ⟨"MeasureFock", [0], false⟩]
      [⟨"Sgate", [1], false⟩, ⟨"MeasureFock", [0], false⟩]
    = some ([⟨"Sgate", [1], false⟩, ⟨"Rgate", [1], true⟩, ⟨"MeasureFock", [0], false⟩], [false]) ∧
    offsetInsert [⟨"Sgate", [1], false⟩, ⟨"Rgate", [1], true⟩, ⟨"MeasureFock", [0], false⟩]
      [⟨"Sgate", [1], false⟩] = none := by decide +kernel

/-! ## Borealis: phase compensation -/

/-- **phase_compensation (one phase).**  The compensated phase equals source + this loop's accumulated
offset − the previous loop's accumulated offset modulo π, lies in the modulators' range `[−π/2, π/2]`,
and equals it modulo 2π whenever the 2π-wrapped value is already in range (no π shift needed). -/
theorem phase_compensation (phi corr prev : Rat) :
    (∃ m : Int, compensate phi corr prev = phi + corr - prev + (m : Rat)) ∧
    (-1 / 2 ≤ compensate phi corr prev ∧ compensate phi corr prev ≤ 1 / 2) ∧
    (-1 / 2 ≤ wrapPi (phi + corr - prev) → wrapPi (phi + corr - prev) ≤ 1 / 2 →
      ∃ m : Int, compensate phi corr prev = phi + corr - prev + 2 * (m : Rat)) := by
  obtain ⟨⟨m, hm⟩, h1, h2⟩ := wrapPi_spec (phi + corr - prev)
  obtain ⟨a, b, c, d⟩ := shiftIntoRange_spec _ h1 h2
  unfold compensate
  refine ⟨?_, ⟨a, b⟩, ?_⟩
  · rcases c with c | c | c
    · exact ⟨2 * m, by rw [c, hm]; simp [Rat.intCast_mul]⟩
    · exact ⟨2 * m + 1, by rw [c, hm]; simp [Rat.intCast_mul, Rat.intCast_add]; grind⟩
    · exact ⟨2 * m - 1, by rw [c, hm]; simp [Rat.intCast_mul, Rat.intCast_sub]; grind⟩
  · intro h3 h4
    exact ⟨m, by rw [d h3 h4, hm]⟩

example : compensate (3 / 4) (1 / 3) 0 = 1 / 12 ∧ compensate (1 / 4) (1 / 8) (1 / 2) = -1 / 8 := by decide +kernel

/-- **phase_compensation (whole program).**  For every loop `i` of the device and every time bin `j`:
a loop whose offset the user set keeps its phases; otherwise the new phase is `compensate` of the source
phase with the loop's accumulated offset `offset·⌊j/delay⌋` and the accumulated offset of the last
compensated loop before it. -/
theorem phase_compensation_program (len : Nat) (loops : List (Rat × Nat × Bool × List Rat))
    (i : Nat) (o : Rat) (d : Nat) (u : Bool) (ph : List Rat) (h : loops[i]? = some (o, d, u, ph)) :
    (updateParams len loops).length = loops.length ∧
    (updateParams len loops)[i]? = some (if u then ph else
      (List.range len).map fun j =>
        compensate (ph.getD j 0) (corrAt o d j) (prevAfter (fun _ => 0) (loops.take i) j)) :=
  ⟨updateLoops_length len _ loops, updateLoops_get len _ loops i o d u ph h⟩

example : updateParams 3 [(1 / 10, 1, false, [0, 0, 3 / 4]), (1 / 4, 2, true, [1, 1, 1]), (1 / 2, 2, false, [0, 0, 0])]
    = [[0, 1 / 10, -1 / 20], [1, 1, 1], [0, -1 / 10, 3 / 10]] := by decide +kernel

/- **frame removal — full statement (FALSE of the code, known finding `user-offset-after-compensated-loop`).**  Compensating
loop `i` adds the time-bin dependent rotation `corr_i[j]` to the frame of the pulses it hands on; EVERY later loop — also one
whose own offset the user set — has to remove it again:  `out[i+1][j] ≡ src[i+1][j] + own[i+1][j] − corr_i[j]  (mod π)`  with
`own = 0` for a user-set loop.  `update_params` skips user-set loops altogether. -/

/-- the witness: loop 0 (offset π/4, delay 1) compensated by the compiler, loop 1 set by the user: its phases stay `0`
although the frame of time bin 1 was rotated by `π/4` — no multiple of π makes up for it -/
theorem phase_frame_counterexample :
    (updateParams 3 [(1 / 4, 1, false, [0, 0, 0]), (0, 1, true, [0, 0, 0])])[1]? = some [0, 0, 0] ∧
    ¬ ∃ m : Int, (0 : Rat) = 0 + 0 - corrAt (1 / 4) 1 1 + (m : Rat) := by
  refine ⟨by decide +kernel, ?_⟩
  rintro ⟨m, hm⟩
  have hc : corrAt (1 / 4) 1 1 = 1 / 4 := by decide +kernel
  rw [hc] at hm
  exact quarter_not_int m (by linarith)

/-- **phase_frame_partial**: what does hold — two consecutive loops that are both compensated by the compiler: the later one
removes exactly the accumulated offset of the earlier one (and adds its own), for every program length, offsets and delays.
Missing hypothesis for the full statement: no user-set loop after a compiler-compensated loop with non-zero phase. -/
theorem phase_frame_partial (len : Nat) (loops : List (Rat × Nat × Bool × List Rat))
    (i : Nat) (o o' : Rat) (d d' : Nat) (ph ph' : List Rat)
    (h0 : loops[i]? = some (o', d', false, ph')) (h1 : loops[i + 1]? = some (o, d, false, ph)) :
    (updateParams len loops)[i + 1]? = some
      ((List.range len).map fun j => compensate (ph.getD j 0) (corrAt o d j) (corrAt o' d' j)) :=
  updateLoops_get_succ len _ loops i o o' d d' ph ph' h0 h1

example : ([(1 / 10, 1, false, [0, 0, 3 / 4]), (1 / 2, 2, false, [0, 0, 0])] : List (Rat × Nat × Bool × List Rat))[0]?
    = some (1 / 10, 1, false, [0, 0, 3 / 4]) := by decide +kernel

/-! ## realistic loss, helper functions, parameter rules -/

/-- **add_loss_sound.**  For every circuit: when `Borealis.add_loss` succeeds, removing the loss channels again
(`program_utils.remove_loss`, as `validate_gate_parameters` does) gives back exactly the circuit, and it inserted exactly one
loss channel per `MeasureFock`, `Sgate` and `BSgate`. -/
theorem add_loss_sound (g : Rat) (e : List Rat) (c : List (String × List Nat)) (loop : Nat) (out : List LCmd)
    (h : addLoss g e loop c = some out) :
    removeLoss out = c ∧
    lossCount out = (c.filter fun x => x.1 = "MeasureFock" ∨ x.1 = "Sgate" ∨ x.1 = "BSgate").length :=
  ⟨removeLoss_addLoss g e c loop out h, lossCount_addLoss g e c loop out h⟩

example : addLoss (1 / 2) [9 / 10, 4 / 5] 0 [("Sgate", [1]), ("BSgate", [0, 1]), ("BSgate", [2, 0]), ("MeasureFock", [0])]
    = some [.gate "Sgate" [1], .loss (.num (1 / 2)) [1], .gate "BSgate" [0, 1], .loss (.num (9 / 10)) [1],
            .gate "BSgate" [2, 0], .loss (.num (4 / 5)) [0], .loss .param [0], .gate "MeasureFock" [0]] := by decide +kernel

/-- **phases_compatible.**  `tdm.utils.make_phases_compatible` changes a phase by a multiple of π only, and afterwards the
compiler's compensation needs no π shift: the 2π-wrapped compensated value lies in `[−π/2, π/2]`, hence the compiled phase
equals requested + offsets modulo 2π — for every phase, correction and previous correction. -/
theorem phases_compatible (phi corr prev : Rat) :
    (∃ m : Int, makeCompatible phi corr prev = phi + (m : Rat)) ∧
    (-1 / 2 ≤ wrapPi (makeCompatible phi corr prev + corr - prev) ∧
      wrapPi (makeCompatible phi corr prev + corr - prev) ≤ 1 / 2) ∧
    ∃ m : Int, compensate (makeCompatible phi corr prev) corr prev
      = makeCompatible phi corr prev + corr - prev + 2 * (m : Rat) := by
  obtain ⟨a, b, c⟩ := makeCompatible_spec phi corr prev
  exact ⟨a, ⟨b, c⟩, (phase_compensation _ corr prev).2.2 b c⟩

example : makeCompatible (3 / 4) (1 / 2) 0 = 7 / 4 ∧ compensate (7 / 4) (1 / 2) 0 = 1 / 4 := by decide +kernel

/-- **hard_coded_parameters.**  `Compiler.compile` accepts the parameters of a matched gate exactly when every pair of layout /
program arguments is equal, or the layout's is a bare symbol (template parameter), or the program's is symbolic. -/
theorem hard_coded_parameters (l p : List GArg) :
    hardCodedClash l p = false ↔ ∀ xy ∈ l.zip p, xy.1 = xy.2 ∨ xy.1.isSymbol = true ∨ xy.2.isExpr = true :=
  hardCodedClash_false_iff l p

example : hardCodedClash [.sym "bs", .num 0] [.num (1 / 2), .num 0] = false ∧
    hardCodedClash [.num (5643 / 10000), .num 0] [.num 2, .num 0] = true ∧
    fixedValuesMatch [.sym "r", .num 0] [.num 1, .num (1 / 4)] = false := by decide +kernel

/-! ## `rectangular_symmetric`: the phases it computes -/

/-- **symmetric_push_exact.**  The angles `rectangular_symmetric` computes when it moves a local phase pair past a
Mach-Zehnder block (`φ_e' = α − β`, `α' = β − φ_e − φ_i + π`, `β' = β − φ_i + π`, `φ_i' = φ_i`, all mod 2π) satisfy
`M(φ_i, φ_e)⁻¹ · diag(e^{iα}, e^{iβ}) = diag(e^{iα'}, e^{iβ'}) · M(φ_i', φ_e')` entry by entry — for every angle, over every
commutative ring, for every map `E` with the laws of `x ↦ e^{iπx}` (`PhaseHom`), `c = cos(φ_i/2)`, `s = sin(φ_i/2)`.  (The identity on\natoms is C17's `push_phase_MZ`; new here: the source's angle arithmetic yields exactly those atoms.) -/
theorem symmetric_push_exact {K : Type} [CommRing K] (H : PhaseHom K) (c s : K) (phiI phiE alpha beta : Rat)
    (hc : c * c + s * s = 1) (hcs : (⟨c * c - s * s, 2 * c * s⟩ : Decomp.Cx K) = H.E phiI)
    (hb : (H.E beta).re * (H.E beta).re + (H.E beta).im * (H.E beta).im = 1) :
    let r := pushSymStep phiI phiE alpha beta
    (Decomp.blkMZi c s (H.E phiE)).a * H.E alpha = H.E r.2.2.1 * (Decomp.blkMZ c s (H.E r.2.1)).a ∧
    (Decomp.blkMZi c s (H.E phiE)).b * H.E beta = H.E r.2.2.1 * (Decomp.blkMZ c s (H.E r.2.1)).b ∧
    (Decomp.blkMZi c s (H.E phiE)).c * H.E alpha = H.E r.2.2.2 * (Decomp.blkMZ c s (H.E r.2.1)).c ∧
    (Decomp.blkMZi c s (H.E phiE)).d * H.E beta = H.E r.2.2.2 * (Decomp.blkMZ c s (H.E r.2.1)).d :=
  pushSymStep_sound H c s phiI phiE alpha beta hc hcs hb

example : pushSymStep (1 / 2) (1 / 3) (1 / 4) (3 / 2) = (1 / 2, 3 / 4, 5 / 3, 0) := by decide +kernel

/-! ## GBS measurement collection: options -/

/-- **gbs_options_follow_modes.**  When the Fock measurements of a circuit measure disjoint modes and `GBS.compile` (used by
Xstrict, Xunitary, Xcov) combines them, the single measurement acts on exactly the measured modes and carries, at the place of
every mode, the post-selection value / dark count the source gave for THAT MODE — for every number and order of commands and
every order of the modes inside them (index, not position). -/
theorem gbs_options_follow_modes (B : List FockCmd) (hdis : (B.flatMap (·.regs)).Nodup)
    (modes : List Nat) (sel : Option (List Nat)) (dk : Option (List Rat)) (h : gbsOptions B = .ok (modes, sel, dk)) :
    (∀ m, m ∈ modes ↔ ∃ c ∈ B, m ∈ c.regs) ∧
    (∀ c ∈ B, ∀ s, c.select = some s → ∀ k (h1 : k < c.regs.length) (h2 : k < s.length),
      ∃ out, sel = some out ∧ ∃ j : Nat, modes[j]? = some c.regs[k] ∧ out[j]? = some s[k]) ∧
    (∀ c ∈ B, ∀ d, c.dark = some d → ∀ k (h1 : k < c.regs.length) (h2 : k < d.length),
      ∃ out, dk = some out ∧ ∃ j : Nat, modes[j]? = some c.regs[k] ∧ out[j]? = some d[k]) :=
  gbsOptions_spec B hdis modes sel dk h

example : (match gbsOptions [⟨[3, 1], some [7, 5], none⟩, ⟨[0, 2], some [4, 6], none⟩] with
    | .ok r => decide (r = ([0, 1, 2, 3], some [4, 5, 6, 7], none)) | .error _ => false) = true ∧
    (match gbsOptions [⟨[3, 1], some [7, 5], none⟩, ⟨[0, 2], none, none⟩] with | .ok _ => false | .error _ => true) = true ∧
    (match gbsOptions [⟨[2], none, some [1 / 8]⟩, ⟨[0, 1], none, none⟩] with
    | .ok r => decide (r = ([0, 1, 2], none, some [0, 0, 1 / 8])) | .error _ => false) = true := by decide +kernel

/-- **fixed_layout_values.**  `validate_gate_parameters` matches a gate of the program with a gate of the layout exactly when
every number hard-coded in the layout is met, within `1e-5`, by the program's number — or by EVERY value of the program's
per-time-bin array — at that place; symbolic arguments are left to the template parameters. -/
theorem fixed_layout_values (l p : List GArg) :
    fixedValuesMatch l p = true ↔ ∀ xy ∈ l.zip p,
      (∀ a b, xy = (.num a, .num b) → a - b ≤ defaultAtol ∧ b - a ≤ defaultAtol) ∧
      (∀ a vs, xy = (.num a, .arr vs) → ∀ b ∈ vs, a - b ≤ defaultAtol ∧ b - a ≤ defaultAtol) :=
  fixedValuesMatch_iff l p

example : fixedValuesMatch [.sym "bs1", .num (11 / 7)] [.expr "p4", .arr [11 / 7, 11 / 7, 3 / 10]] = false ∧
    fixedValuesMatch [.sym "bs1", .num (11 / 7)] [.expr "p4", .arr [11 / 7, 11 / 7]] = true := by decide +kernel

end SFV.C12
