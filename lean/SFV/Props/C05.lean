import SFV.Proofs.GaussNM
import SFV.Proofs.FockTensor
import SFV.Proofs.Bosonic
import SFV.Proofs.FockPrep
import SFV.Proofs.FockLoss
import SFV.Proofs.GaussRegister
import Mathlib.Tactic.IntervalCases

/-!
# C05 — operations act only on their target modes

Gaussian simulator (model `SFV.Model.GaussNM`): every update leaves all entries of `nmat`, `mmat`,
`mean` whose indices are outside the targets unchanged — for every register size and target
position, every state, every program; a reset (`loss(0, k)`: vacuum preparation, `Del`, measurement
reset) and `init_thermal` leave the target in the documented state with zero correlations.
Fock simulator (model `SFV.Model.FockTensor`): an exactly unitary one-mode matrix leaves the
partial trace over its target unchanged; `project_reset` puts the measured modes in `|0⟩`.
-/
namespace SFV.C05
open SFV.Gauss SFV.Fock

/-- **every Gaussian operation is local** -/
theorem gaussian_op_local {K : Type} [CommRing K] (st : GS K) (op : GOp K) :
    AgreeOff op.targets (applyNM st op) st := applyNM_local st op

/-- **every program acting on `T` leaves the other modes' data untouched** -/
theorem gaussian_program_local {K : Type} [CommRing K] (T : List Nat) (ops : List (GOp K)) (st : GS K)
    (h : ∀ op ∈ ops, ∀ x ∈ op.targets, x ∈ T) : AgreeOff T (ops.foldl applyNM st) st :=
  program_local T ops st h

/-- … which is what the reduced state of the spectators is computed from: all blocks of the
quadrature covariance and the means restricted to modes outside `T` are unchanged -/
theorem gaussian_spectators_xp {K : Type} [CommRing K] (T : List Nat) (a b : GS K) (h : AgreeOff T a b)
    (i j : Nat) (hi : i ∉ T) (hj : j ∉ T) :
    Vxx a i j = Vxx b i j ∧ Vxp a i j = Vxp b i j ∧ Vpp a i j = Vpp b i j ∧
    meanX a i = meanX b i ∧ meanP a i = meanP b i := by
  obtain ⟨h1, h2⟩ := h
  have e1 := h1 i j hi hj
  have e2 := h1 j i hj hi
  refine ⟨?_, ?_, ?_, ?_, ?_⟩ <;> simp [Vxx, Vxp, Vpp, meanX, meanP, e1.1, e1.2, e2.1, e2.2, h2 i hi]

/-- **reset post-state**: after `loss(0, k)` mode `k` is in vacuum and uncorrelated with every mode -/
theorem gaussian_reset_poststate {K : Type} [CommRing K] (st : GS K) (k j : Nat) :
    (loss st 0 k).N k j = 0 ∧ (loss st 0 k).N j k = 0 ∧ (loss st 0 k).M k j = 0 ∧ (loss st 0 k).M j k = 0 ∧
    (loss st 0 k).mean k = 0 := loss_zero_resets st k j

/-- **thermal preparation post-state** in the quadrature picture: `(2n̄+1)·1₂` on the target, zero
cross-covariance, the rest untouched -/
theorem gaussian_thermal_poststate {K : Type} [CommRing K] (st : GS K) (hI : NMInv st) (pop : K) (k : Nat) :
    toXP (initThermal st pop k) = addNoise (linMap (lossRows k 0) (toXP st)) k (1 + (pop + pop)) :=
  XP.eq_of_Eq (initThermal_refines st hI pop k)

/-- **multi-mode Gaussian preparation** (`prepare_gaussian_state` → `fromscovmat`/`fromsmean`): on the
listed modes, in the listed order, the quadrature covariance and means are exactly the given `(V, r)`;
the prepared modes are uncorrelated with all others; all other modes keep their data -/
theorem gaussian_prepare_poststate {K : Type} [CommRing K] (st : GS K) (quarter half : K)
    (hq : quarter * (1 + 1 + 1 + 1) = 1) (hh : half * (1 + 1) = 1) (modes : List Nat) (hnd : modes.Nodup)
    (A B C : Nat → Nat → K) (rx rp : Nat → K) (hA : ∀ a b, A a b = A b a) (hC : ∀ a b, C a b = C b a)
    {a b : Nat} (ha : a < modes.length) (hb : b < modes.length) :
    let st' := fromCov st quarter half modes A B C rx rp
    Vxx st' modes[a] modes[b] = A a b ∧ Vxp st' modes[a] modes[b] = B a b ∧
    Vpp st' modes[a] modes[b] = C a b ∧ meanX st' modes[a] = rx a ∧ meanP st' modes[a] = rp a :=
  fromCov_poststate st quarter half hq hh modes hnd A B C rx rp hA hC ha hb

theorem gaussian_prepare_uncorrelated {K : Type} [CommRing K] (st : GS K) (quarter half : K) (modes : List Nat)
    (A B C : Nat → Nat → K) (rx rp : Nat → K) {i j : Nat} (hi : i ∈ modes) (hj : ¬ j ∈ modes) :
    let st' := fromCov st quarter half modes A B C rx rp
    st'.N i j = 0 ∧ st'.N j i = 0 ∧ st'.M i j = 0 ∧ st'.M j i = 0 :=
  fromCov_uncorrelated st quarter half modes A B C rx rp hi hj

theorem gaussian_prepare_local {K : Type} [CommRing K] (st : GS K) (quarter half : K) (modes : List Nat)
    (A B C : Nat → Nat → K) (rx rp : Nat → K) :
    AgreeOff modes (fromCov st quarter half modes A B C rx rp) st :=
  fromCov_local st quarter half modes A B C rx rp

/-- **`PassiveChannel` applied natively** (`GaussianBackend.passive` → `T_expand[ix_(modes, modes)] = T`,
`apply_u`): whatever matrix is placed on the listed modes in whatever order, the data of all other
modes are unchanged -/
theorem gaussian_passive_local {K : Type} [CommRing K] (st : GS K) (modes : List Nat) (T : Nat → Nat → Cx K)
    (i j : Nat) (hi : i < st.n) (hj : j < st.n) (hi' : ¬ i ∈ modes) (hj' : ¬ j ∈ modes) :
    (applyU st (expandT modes T)).N i j = st.N i j ∧ (applyU st (expandT modes T)).M i j = st.M i j ∧
    (applyU st (expandT modes T)).mean i = st.mean i :=
  applyU_local st modes T i j hi hj hi' hj'

/-- the defect repaired by the `fix:` commit 4b52a51: the old thermal loss touched spectators -/
theorem thermal_loss_old_counterexample :
    ¬ AgreeOff [0] (thermalLossOld (vacuum 2 : GS Int) 1 1 0) (vacuum 2) := thermalLossOld_not_local

/-- **Fock locality**: for an isometric one-mode matrix (`Σ_v U[v,a]·conj U[v,b] = δ_ab`) the state
traced over the target is unchanged by `ρ ↦ U ρ U†`, for every position `m` and every index of the
other modes -/
theorem fock_trace_local {K : Type} [CommSemiring K] (D : Nat) (mat matc : Nat → Nat → K) (m : Nat)
    (hiso : ∀ a b, a < D → b < D → (∑ v ∈ Finset.range D, mat v a * matc v b) = if a = b then 1 else 0)
    (ρ : Tens K) (idx : Idx) :
    (∑ v ∈ Finset.range D, applyAt1 D matc (2 * m + 1) (applyAt1 D mat (2 * m) ρ)
        (upd (upd idx (2 * m) v) (2 * m + 1) v)) =
      ∑ v ∈ Finset.range D, ρ (upd (upd idx (2 * m) v) (2 * m + 1) v) :=
  trace_conj1 D mat matc m hiso ρ idx

/-- **Fock locality, two-mode gates**: the same for an isometric two-mode matrix on any two distinct
modes (`diag2 idx m1 m2 v1 v2` sets the row and column axes of the two targets to `v1`, `v2`) -/
theorem fock_trace_local2 {K : Type} [CommSemiring K] (D : Nat) (mat matc : Nat → Nat → Nat → Nat → K)
    (m1 m2 : Nat) (h12 : m1 ≠ m2)
    (hiso : ∀ a b : Nat × Nat, a ∈ Finset.range D ×ˢ Finset.range D → b ∈ Finset.range D ×ˢ Finset.range D →
      (∑ v ∈ Finset.range D ×ˢ Finset.range D, mat v.1 a.1 v.2 a.2 * matc v.1 b.1 v.2 b.2) = if a = b then 1 else 0)
    (ρ : Tens K) (idx : Idx) :
    (∑ v ∈ Finset.range D ×ˢ Finset.range D,
      applyAt2 D matc (2 * m1 + 1) (2 * m2 + 1) (applyAt2 D mat (2 * m1) (2 * m2) ρ) (diag2 idx m1 m2 v.1 v.2)) =
      ∑ v ∈ Finset.range D ×ˢ Finset.range D, ρ (diag2 idx m1 m2 v.1 v.2) :=
  trace_conj2 D mat matc m1 m2 h12 hiso ρ idx

/-- **Fock locality, channels**: a Kraus set with `Σ_k K_k† K_k = 1` leaves the state traced over its
target unchanged (`_apply_channel`: loss) — any number of Kraus operators, any position -/
theorem fock_channel_local {K : Type} [CommSemiring K] (D : Nat) (ks : List ((Nat → Nat → K) × (Nat → Nat → K)))
    (m : Nat)
    (hcomplete : ∀ a b, a < D → b < D →
      (ks.map fun k => ∑ v ∈ Finset.range D, k.1 v a * k.2 v b).sum = if a = b then 1 else 0)
    (ρ : Tens K) (idx : Idx) :
    (∑ v ∈ Finset.range D, applyChannel1 D ks m ρ (upd (upd idx (2 * m) v) (2 * m + 1) v)) =
      ∑ v ∈ Finset.range D, ρ (upd (upd idx (2 * m) v) (2 * m + 1) v) :=
  trace_channel1 D ks m hcomplete ρ idx

/-- … and the hypothesis is met by the loss channel the back end builds (`ops.lossChannel(T, D)`, all `D` Kraus operators): a
`LossChannel` on mode `m` leaves the state traced over `m` — every reduced state of the other modes — exactly as it was -/
theorem fock_loss_local {K : Type} [CommRing K] (e : Nat → Nat → K) (T : K)
    (he : ∀ k n, e k n * e k n = SFV.Fock.lossSq T k n) (D m : Nat) (ρ : SFV.Fock.Tens K) (idx : SFV.Fock.Idx) :
    (∑ v ∈ Finset.range D, SFV.Fock.applyChannel1 D (SFV.Fock.lossKrausList e D) m ρ
        (SFV.Fock.upd (SFV.Fock.upd idx (2 * m) v) (2 * m + 1) v)) =
      ∑ v ∈ Finset.range D, ρ (SFV.Fock.upd (SFV.Fock.upd idx (2 * m) v) (2 * m + 1) v) :=
  SFV.Fock.loss_trace_preserving e T he D m ρ idx

/-- **`Del` on the Fock simulator keeps the remaining modes in index order**: `dealloc` traces the listed modes out
(`partialTrace`: kept mode `i` is read at axis position `keptPos traced i`), and those positions are ordered like the indices of
the kept modes — for every register size and every set of deleted modes -/
theorem fock_dealloc_order (traced : List Nat) {i j : Nat} (hij : i < j) (hi : traced.contains i = false) :
    SFV.Fock.keptPos traced i < SFV.Fock.keptPos traced j :=
  SFV.Fock.keptPos_strictMono traced hij hi

/-- **`New` leaves every old mode alone** (Gaussian simulator): all first and second moments among the old modes are kept,
whatever the number of old and new modes -/
theorem gaussian_add_mode_local {K : Type} [CommRing K] (st : SFV.Gauss.GS K) (m i j : Nat) (hi : i < st.n) (hj : j < st.n) :
    (SFV.Gauss.toXP (SFV.Gauss.addMode st m)).xx i j = (SFV.Gauss.toXP st).xx i j ∧
    (SFV.Gauss.toXP (SFV.Gauss.addMode st m)).xp i j = (SFV.Gauss.toXP st).xp i j ∧
    (SFV.Gauss.toXP (SFV.Gauss.addMode st m)).pp i j = (SFV.Gauss.toXP st).pp i j ∧
    (SFV.Gauss.toXP (SFV.Gauss.addMode st m)).mx i = (SFV.Gauss.toXP st).mx i ∧
    (SFV.Gauss.toXP (SFV.Gauss.addMode st m)).mp i = (SFV.Gauss.toXP st).mp i :=
  SFV.Gauss.addMode_keeps_old st m i j hi hj

/-- **`prepare_multimode`, whole register**: axis `a` of the given ket ends up on mode `modes[a]` for
every order of the listed modes (`axisMap modes a = modes[a]`) -/
theorem fock_prepare_all_order {K : Type} (n : Nat) (modes : List Nat) (hnd : modes.Nodup)
    (hlen : modes.length = n) (hlt : ∀ m ∈ modes, m < n) (σ : Tens K) (idx : Idx) :
    prepareAll true n modes σ idx = σ (fun a => idx (axisMap modes a)) :=
  prepareAll_pure n modes hnd hlen hlt σ idx

/-- **`prepare_multimode`, sub-register**: the result is the partial trace of the old state on the other
modes times the prepared state on the listed modes in the listed order — a product, for any register
size, any number and order of prepared modes.  `P = indexPerm (spectators ++ modes)`; by
`indexPerm_getD` and `modePermutation_back`, `P[2(n−k) + a] = 2·modes[a/2] + a%2`. -/
theorem fock_prepare_product {K : Type} [Zero K] [Add K] [Mul K] (D n : Nat) (modes : List Nat) (hnd : modes.Nodup)
    (hlt : ∀ m ∈ modes, m < n) (hne : modes ≠ List.range' (n - modes.length) modes.length)
    (σ ρ : Tens K) (idx : Idx) :
    prepareSome D n modes σ ρ idx =
      partialTrace D n modes ρ (fun a => idx (axisMap (SFV.States.indexPerm (modePermutation n modes)) a)) *
        σ (fun a => idx (axisMap (SFV.States.indexPerm (modePermutation n modes)) (2 * (n - modes.length) + a))) :=
  prepareSome_entry D n modes hnd hlt hne σ ρ idx

theorem fock_prepare_positions (n : Nat) (modes : List Nat) (hnd : modes.Nodup) (hlt : ∀ m ∈ modes, m < n)
    (a : Nat) (ha : a < modes.length) :
    (modePermutation n modes).getD (n - modes.length + a) 0 = modes.getD a 0 :=
  modePermutation_back n modes hnd hlt a ha

/-- **measurement reset**: after `project_reset` every entry with a measured mode outside `|0⟩` vanishes -/
theorem fock_project_reset_vacuum {K : Type} [Zero K] (modes xs : List Nat) (ψ : Tens K) (idx : Idx)
    (m : Nat) (hm : m ∈ modes) (h : idx m ≠ 0) : projectResetPure modes xs ψ idx = 0 := by
  unfold projectResetPure
  rw [if_neg]
  intro hall
  have := List.all_eq_true.mp hall m hm
  simp at this
  exact h this

/-- **bosonic simulator**: whatever `(X, Y)` is expanded from the target modes (`expandXY`/`expandS`,
then the `from_xp` permutation of `update_means`/`update_covs`), the means and covariances of every
component restricted to non-target modes are unchanged — all register sizes, target lists, blocks -/
theorem bosonic_spectators {K : Type} [Semiring K] (n : Nat) (hn : 0 < n) (modes : List Nat)
    (S Y : Nat → Nat → K) (μ : Nat → K) (V : Nat → Nat → K) {r s : Nat} (hr : r < 2 * n) (hs : s < 2 * n)
    (hr' : ¬ (r / 2) ∈ modes) (hs' : ¬ (s / 2) ∈ modes) :
    Bos.updateMeans n (Bos.expand n modes S) μ r = μ r ∧
    Bos.updateCovs n (Bos.expand n modes S) (Bos.expandY n modes Y) V r s = V r s :=
  ⟨Bos.updateMeans_spectator n hn modes S μ hr hr', Bos.updateCovs_spectator n hn modes S Y V hr hs hr' hs'⟩

/-! ### non-vacuity -/
example : (1 / 4 : Rat) * (1 + 1 + 1 + 1) = 1 ∧ (1 / 2 : Rat) * (1 + 1) = 1 ∧ ([2, 0] : List Nat).Nodup := by
  refine ⟨by norm_num, by norm_num, by decide⟩
example : (4 : Nat) < 2 * 3 ∧ ¬ (4 / 2) ∈ [0, 1] := by decide
example : ∀ op ∈ ([.bs 0 1 (3/5) (4/5) 3 1, .loss (1/2) 1] : List (GOp Rat)), ∀ x ∈ op.targets, x ∈ [1, 3] := by
  intro op h; simp at h; rcases h with rfl | rfl <;> simp [GOp.targets]
/-- the bit-flip matrix on cutoff 2 is an isometry in the sense of `fock_trace_local` -/
example : ∀ a b, a < 2 → b < 2 →
    (∑ v ∈ Finset.range 2, (if v + a = 1 then (1 : Int) else 0) * (if v + b = 1 then (1 : Int) else 0))
      = if a = b then 1 else 0 := by
  intro a b ha hb
  interval_cases a <;> interval_cases b <;> simp [Finset.sum_range_succ]

end SFV.C05
