import SFV.Proofs.GaussNM
import SFV.Proofs.FockTensor
import SFV.Proofs.Bosonic
import Mathlib.Tactic.IntervalCases

/-!
# C05 — operations act only on their target modes

Gaussian simulator (model `SFV.Model.GaussNM`): every update leaves all entries of `nmat`, `mmat`,
`mean` whose indices are outside the targets unchanged — for every register size and target
position, every state, every program; a reset (`loss(0, k)`: vacuum preparation, `Del`, measurement
reset) and `init_thermal` leave the target in the documented state with zero correlations.
Fock simulator (model `SFV.Model.FockTensor`): an exactly unitary one-mode matrix leaves the
partial trace over its target unchanged; `project_reset` puts the measured modes in `|0⟩`.
-/
namespace SFV.C05
open SFV.Gauss SFV.Fock

/-- **every Gaussian operation is local** -/
theorem gaussian_op_local {K : Type} [CommRing K] (st : GS K) (op : GOp K) :
    AgreeOff op.targets (applyNM st op) st := applyNM_local st op

/-- **every program acting on `T` leaves the other modes' data untouched** -/
theorem gaussian_program_local {K : Type} [CommRing K] (T : List Nat) (ops : List (GOp K)) (st : GS K)
    (h : ∀ op ∈ ops, ∀ x ∈ op.targets, x ∈ T) : AgreeOff T (ops.foldl applyNM st) st :=
  program_local T ops st h

/-- … which is what the reduced state of the spectators is computed from: all blocks of the
quadrature covariance and the means restricted to modes outside `T` are unchanged -/
theorem gaussian_spectators_xp {K : Type} [CommRing K] (T : List Nat) (a b : GS K) (h : AgreeOff T a b)
    (i j : Nat) (hi : i ∉ T) (hj : j ∉ T) :
    Vxx a i j = Vxx b i j ∧ Vxp a i j = Vxp b i j ∧ Vpp a i j = Vpp b i j ∧
    meanX a i = meanX b i ∧ meanP a i = meanP b i := by
  obtain ⟨h1, h2⟩ := h
  have e1 := h1 i j hi hj
  have e2 := h1 j i hj hi
  refine ⟨?_, ?_, ?_, ?_, ?_⟩ <;> simp [Vxx, Vxp, Vpp, meanX, meanP, e1.1, e1.2, e2.1, e2.2, h2 i hi]

/-- **reset post-state**: after `loss(0, k)` mode `k` is in vacuum and uncorrelated with every mode -/
theorem gaussian_reset_poststate {K : Type} [CommRing K] (st : GS K) (k j : Nat) :
    (loss st 0 k).N k j = 0 ∧ (loss st 0 k).N j k = 0 ∧ (loss st 0 k).M k j = 0 ∧ (loss st 0 k).M j k = 0 ∧
    (loss st 0 k).mean k = 0 := loss_zero_resets st k j

/-- **thermal preparation post-state** in the quadrature picture: `(2n̄+1)·1₂` on the target, zero
cross-covariance, the rest untouched -/
theorem gaussian_thermal_poststate {K : Type} [CommRing K] (st : GS K) (hI : NMInv st) (pop : K) (k : Nat) :
    toXP (initThermal st pop k) = addNoise (linMap (lossRows k 0) (toXP st)) k (1 + (pop + pop)) :=
  XP.eq_of_Eq (initThermal_refines st hI pop k)

/-- the defect repaired by the `fix:` commit 4b52a51: the old thermal loss touched spectators -/
theorem thermal_loss_old_counterexample :
    ¬ AgreeOff [0] (thermalLossOld (vacuum 2 : GS Int) 1 1 0) (vacuum 2) := thermalLossOld_not_local

/-- **Fock locality**: for an isometric one-mode matrix (`Σ_v U[v,a]·conj U[v,b] = δ_ab`) the state
traced over the target is unchanged by `ρ ↦ U ρ U†`, for every position `m` and every index of the
other modes -/
theorem fock_trace_local {K : Type} [CommSemiring K] (D : Nat) (mat matc : Nat → Nat → K) (m : Nat)
    (hiso : ∀ a b, a < D → b < D → (∑ v ∈ Finset.range D, mat v a * matc v b) = if a = b then 1 else 0)
    (ρ : Tens K) (idx : Idx) :
    (∑ v ∈ Finset.range D, applyAt1 D matc (2 * m + 1) (applyAt1 D mat (2 * m) ρ)
        (upd (upd idx (2 * m) v) (2 * m + 1) v)) =
      ∑ v ∈ Finset.range D, ρ (upd (upd idx (2 * m) v) (2 * m + 1) v) :=
  trace_conj1 D mat matc m hiso ρ idx

/-- **measurement reset**: after `project_reset` every entry with a measured mode outside `|0⟩` vanishes -/
theorem fock_project_reset_vacuum {K : Type} [Zero K] (modes xs : List Nat) (ψ : Tens K) (idx : Idx)
    (m : Nat) (hm : m ∈ modes) (h : idx m ≠ 0) : projectResetPure modes xs ψ idx = 0 := by
  unfold projectResetPure
  rw [if_neg]
  intro hall
  have := List.all_eq_true.mp hall m hm
  simp at this
  exact h this

/-- **bosonic simulator**: whatever `(X, Y)` is expanded from the target modes (`expandXY`/`expandS`,
then the `from_xp` permutation of `update_means`/`update_covs`), the means and covariances of every
component restricted to non-target modes are unchanged — all register sizes, target lists, blocks -/
theorem bosonic_spectators {K : Type} [Semiring K] (n : Nat) (hn : 0 < n) (modes : List Nat)
    (S Y : Nat → Nat → K) (μ : Nat → K) (V : Nat → Nat → K) {r s : Nat} (hr : r < 2 * n) (hs : s < 2 * n)
    (hr' : ¬ (r / 2) ∈ modes) (hs' : ¬ (s / 2) ∈ modes) :
    Bos.updateMeans n (Bos.expand n modes S) μ r = μ r ∧
    Bos.updateCovs n (Bos.expand n modes S) (Bos.expandY n modes Y) V r s = V r s :=
  ⟨Bos.updateMeans_spectator n hn modes S μ hr hr', Bos.updateCovs_spectator n hn modes S Y V hr hs hr' hs'⟩

/-! ### non-vacuity -/
example : (4 : Nat) < 2 * 3 ∧ ¬ (4 / 2) ∈ [0, 1] := by decide
example : ∀ op ∈ ([.bs 0 1 (3/5) (4/5) 3 1, .loss (1/2) 1] : List (GOp Rat)), ∀ x ∈ op.targets, x ∈ [1, 3] := by
  intro op h; simp at h; rcases h with rfl | rfl <;> simp [GOp.targets]
/-- the bit-flip matrix on cutoff 2 is an isometry in the sense of `fock_trace_local` -/
example : ∀ a b, a < 2 → b < 2 →
    (∑ v ∈ Finset.range 2, (if v + a = 1 then (1 : Int) else 0) * (if v + b = 1 then (1 : Int) else 0))
      = if a = b then 1 else 0 := by
  intro a b ha hb
  interval_cases a <;> interval_cases b <;> simp [Finset.sum_range_succ]

end SFV.C05
