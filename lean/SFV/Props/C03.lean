import SFV.Proofs.Optimize
import SFV.Proofs.OptimizeExample
import SFV.Proofs.OptimizeGauss
import SFV.Gen.OpTable

/-!
# C03 — circuit optimisation never changes what a program computes

Statements about the model `SFV.Model.Optimize` (`optimize_circuit` of `program_utils.py` and the
merge rules of `ops.py`).  The correspondence check (`harness/props/c03.py`) ties `optRow`,
`isOptOutput`, `opMerge` to the real `optimize_circuit` / `Program.optimize()` /
`Operation.merge`, and the table theorem `optable_agrees` ties the hand-written class table of the
model to `ops.py` on every build.

`sem f [c₁, …, cₙ] = f c₁ * … * f cₙ` in an arbitrary monoid (`c₁` is applied first).
-/
namespace SFV.C03

open SFV

/-- **Optimisation preserves the meaning, for all circuits, all interpretations, all schedules.**
For every monoid interpretation `f` in which independent commands commute and the operation
families are lawful (`Lawful f`: additive gate families with `dagger` = negation, multiplicative
channels, matrix families composing by the matrix product, preparations absorbing a preceding
preparation, Fourier · Fourier† = 1), for every well-formed circuit `l` and **every** list `out`
whose grid is the optimised grid (whatever topological order `DAG_to_list` picks):
`sem f out = sem f l`. -/
theorem optimize_sem {M : Type} [Monoid M] (f : Cmd → M)
    (hcomm : ∀ a b, ¬ dep a b → f a * f b = f b * f a) (L : Lawful (fun r => r.length = 1) f) (B : Nat)
    (l out : List Cmd) (hwf : ∀ c ∈ l, WFc c) (hout : ∀ c ∈ out, c.wires ≠ [])
    (hrows : ∀ w, gridRow out w = optRow B (gridRow l w)) : sem f out = sem f l :=
  optGrid_sem f hcomm WFc (fun _ h => h.2) (tryMerge B) (tryMerge_ok L B) l out hwf hout hrows

/-- the same, through the executable checker the harness runs on every list the real optimiser
returns -/
theorem optimize_checked_sem {M : Type} [Monoid M] (f : Cmd → M)
    (hcomm : ∀ a b, ¬ dep a b → f a * f b = f b * f a) (L : Lawful (fun r => r.length = 1) f) (B : Nat)
    (l out : List Cmd) (hwf : ∀ c ∈ l, WFc c) (h : isOptOutput B l out = true) :
    sem f out = sem f l :=
  optimize_sem f hcomm L B l out hwf (isOptOutput_sound h).1 (isOptOutput_sound h).2

/-- the optimised grid is always the grid of some list (the merge loops never create a cycle), and
that list has the meaning of the input -/
theorem optimize_linearisable {M : Type} [Monoid M] (f : Cmd → M)
    (hcomm : ∀ a b, ¬ dep a b → f a * f b = f b * f a) (L : Lawful (fun r => r.length = 1) f) (B : Nat)
    (l : List Cmd) (hwf : ∀ c ∈ l, WFc c) :
    ∃ out, (∀ w, gridRow out w = optRow B (gridRow l w)) ∧ sem f out = sem f l :=
  let ⟨out, h1, h2, _⟩ := optGrid_linearisable f hcomm WFc (tryMerge B) (tryMerge_ok L B) l hwf
  ⟨out, h1, h2⟩

/-- **merge rules.**  Full statement: for *every* class, `a.merge(b)` on the same targets returns
`None` only if `a` then `b` is the identity, and otherwise an operation equal to `a` then `b`.
Proved for every class except those in `knownUnlawful` (= `MZgate`, which inherits `Gate.merge`
although its first parameter is not additive, see `mzgate_merge_counterexample`); missing hypothesis
for the full statement: `a.cls ∉ knownUnlawful`. -/
theorem merge_sound_partial {M : Type} [Monoid M] (f : Cmd → M) (dom : List Nat → Prop)
    (L : Lawful dom f) (a b : Cmd) (hdom : dom a.regs) (hr : a.regs = b.regs) (hda : a.deps = []) (hdb : b.deps = []) (hK : a.cls ∉ knownUnlawful) :
    (opMerge a b = .identity → f a * f b = 1) ∧
    (∀ op, opMerge a b = .merged op → ∀ i, f a * f b = f { op with id := i, regs := a.regs }) :=
  ⟨(opMerge_sound L a b hdom hr hda hdb hK).1, fun op h => ((opMerge_sound L a b hdom hr hda hdb hK).2 op h).2⟩

/-- the unlawful class is out of reach of the optimiser (`ns = 2`), so `optimize_sem` needs no
assumption about it -/
theorem unlawful_unreachable (c : Cmd) (h : nsOf c = some 1) : c.cls ∉ knownUnlawful :=
  ns1_not_knownUnlawful h

/-! ### the physical instance: Gaussian circuits

`GaussSem.gf θ c` is the channel on first and second moments of all quadratures (hbar = 2) that
the command `c` implements — `μ ↦ Aμ + d`, `V ↦ AVAᵀ + Y` on the quadratures of its targets —
with the documented blocks of `Rgate`, `Sgate`, `Pgate`, `Dgate`, `Xgate`, `Zgate`, `Fouriergate`,
`LossChannel`, `ThermalLossChannel`, the Gaussian preparations, single-mode `GaussianTransform(S)`,
`PassiveChannel([[t]])`, real `Interferometer([[±1]])`, `BSgate`, `S2gate`, `CXgate`, `CZgate`
(non-Gaussian gates / preparations and measurement commands are place holders).  Its family
laws are *proved* (`GaussSem.rot_add`, `sq_add`, `shear_add`, `disp_add`, `x_add`, `z_add`,
`fourier_cancel`, `loss_mul`, `prep_absorb_loc`, `D1_mul`, … from the angle-addition formulas), commands on
disjoint modes commute (`GaussSem.gf_comm`), so the Lawful hypothesis of `optimize_sem` is discharged. -/

/-- **the optimiser does not change the Gaussian channel a circuit implements** — for every circuit,
every valuation `θ` of the symbolic parameters, every linearisation of the optimised grid; no
hypothesis about the interpretation is left -/
theorem optimize_gaussian (θ : Nat → Rat) (B : Nat) (l out : List Cmd) (hwf : ∀ c ∈ l, WFc c)
    (hout : ∀ c ∈ out, c.wires ≠ []) (hrows : ∀ w, gridRow out w = optRow B (gridRow l w)) :
    sem (GaussSem.gf θ) out = sem (GaussSem.gf θ) l :=
  optimize_sem (GaussSem.gf θ) (GaussSem.gf_comm θ) (GaussSem.gaussLawful θ) B l out hwf hout hrows

/-- the same through the executable checker -/
theorem optimize_gaussian_checked (θ : Nat → Rat) (B : Nat) (l out : List Cmd) (hwf : ∀ c ∈ l, WFc c)
    (h : isOptOutput B l out = true) : sem (GaussSem.gf θ) out = sem (GaussSem.gf θ) l :=
  optimize_checked_sem (GaussSem.gf θ) (GaussSem.gf_comm θ) (GaussSem.gaussLawful θ) B l out hwf h

/-- **only true identities may be cancelled**: a `Vacuum` preparation is not the identity channel (it acts
on every input state, the register of a later program segment is not in the vacuum), so deleting a
leading `Vacuum` changes `sem (gf θ)`; the model's optimiser keeps it (`opMerge` never returns
`identity` for a preparation) -/
theorem vacuum_prep_not_identity (θ : Nat → Rat) (k i : Nat) :
    GaussSem.gf θ { id := i, cls := "Vacuum", regs := [k] } ≠ 1 :=
  GaussSem.vacuum_ne_one θ k i

/-- **tie to the K3 specification**: the channel of a single-mode block `[[a, b], [c, d]]` on mode
`k` acts on symmetric xp data exactly as `linMap (rows1 k a b c d)` of `SFV.Model.PhaseSpace`
(`rotRows`, `squeezeRows`, `lossRows` are such blocks; `SFV.Proofs.GaussNM` ties them to the
simulator's entrywise updates) -/
theorem gaussian_block_is_k3_spec (k : Nat) (a b c d : ℝ) (V : Gauss.XP ℝ)
    (hxx : ∀ i j, V.xx i j = V.xx j i) (hpp : ∀ i j, V.pp i j = V.pp j i) :
    (GaussSem.loc1 k (GaussSem.m2 a b c d) GaussSem.zero2 GaussSem.zerov).act.run (GaussSem.ofXP V) =
      GaussSem.ofXP (Gauss.linMap (Gauss.rows1 k a b c d) V) :=
  GaussSem.loc1_eq_linMap k a b c d V hxx hpp

/-- **merge rules are sound for the physical Gaussian interpretation**, on one target or two different
targets: `Rgate`/`Sgate`/`Pgate`/`Dgate`/`Xgate`/`Zgate`/`Fouriergate`/(thermal) loss/preparations and
`BSgate`/`S2gate` (equal phase), `CXgate`, `CZgate` — `None` only for the identity channel, otherwise the
merged command implements the composition (instance of `merge_sound_partial`; the additive laws are
proved in `SFV.Proofs.OptimizeGauss` from the angle-addition formulas) -/
theorem merge_sound_gaussian (θ : Nat → Rat) (a b : Cmd) (hdom : GaussSem.Dom2 a.regs) (hr : a.regs = b.regs)
    (hda : a.deps = []) (hdb : b.deps = []) (hK : a.cls ∉ knownUnlawful) :
    (opMerge a b = .identity → GaussSem.gf θ a * GaussSem.gf θ b = 1) ∧
    (∀ op, opMerge a b = .merged op →
      ∀ i, GaussSem.gf θ a * GaussSem.gf θ b = GaussSem.gf θ { op with id := i, regs := a.regs }) :=
  merge_sound_partial (GaussSem.gf θ) _ (GaussSem.gaussLawful2 θ) a b hdom hr hda hdb hK

/-- twice the documented Mach–Zehnder matrix `U(φ_in, φ_ex)` with `u = e^{iφ_in}`, `v = e^{iφ_ex}`
Gaussian integers `(re, im)`: `[[(-1+u)v, i(1+u)], [i(1+u)v, 1-u]]` -/
def mz2U (u v : Int × Int) : List (Int × Int) :=
  let mul (a b : Int × Int) : Int × Int := (a.1 * b.1 - a.2 * b.2, a.1 * b.2 + a.2 * b.1)
  let i1u : Int × Int := mul (0, 1) (1 + u.1, u.2)
  [mul (-1 + u.1, u.2) v, i1u, mul i1u v, (1 - u.1, -u.2)]

/-- product of two 2×2 Gaussian-integer matrices -/
def mul22 (a b : List (Int × Int)) : List (Int × Int) :=
  let mul (x y : Int × Int) : Int × Int := (x.1 * y.1 - x.2 * y.2, x.1 * y.2 + x.2 * y.1)
  let add (x y : Int × Int) : Int × Int := (x.1 + y.1, x.2 + y.2)
  let g (l : List (Int × Int)) (k : Nat) := l.getD k (0, 0)
  [add (mul (g a 0) (g b 0)) (mul (g a 1) (g b 2)), add (mul (g a 0) (g b 1)) (mul (g a 1) (g b 3)),
   add (mul (g a 2) (g b 0)) (mul (g a 3) (g b 2)), add (mul (g a 2) (g b 1)) (mul (g a 3) (g b 3))]

/-- **known finding.**  `MZgate.merge` (inherited `Gate.merge`) adds the internal phases; at
`φ_in = π` (`u = -1`), `φ_ex = 0`: `MZ(π,0)·MZ(π,0) = 1`, but the merged `MZ(2π,0) = MZ(0,0) = iσₓ`
— not even proportional.  (`(2U)(2U) = 4·1` versus `2·(2U(u²))`.) -/
theorem mzgate_merge_counterexample :
    mul22 (mz2U (-1, 0) (1, 0)) (mz2U (-1, 0) (1, 0)) = [(4, 0), (0, 0), (0, 0), (4, 0)] ∧
    mz2U (1, 0) (1, 0) = [(0, 0), (0, 2), (0, 2), (0, 0)] := by decide

/-- **purity / frame.**  Every command of an optimised row is either a command of the input row,
carried over unchanged in all its fields, or a newly created command (identity `≥ B`); the model has
no other way to produce a command, which is what the code must respect: it must not edit the
commands or operations of the original program in place (checked on the real code by deep
snapshots). -/
theorem optimize_pure (B : Nat) (row : List Cmd) : ∀ c ∈ optRow B row, c ∈ row ∨ B ≤ c.id := by
  intro c hc
  rcases optLoop_frame (tryMerge B) (fun c => B ≤ c.id) (fun _ _ _ h => tryMerge_new_id h)
    _ [] row c hc with h | h | h
  · simp at h
  · exact Or.inl h
  · exact Or.inr h

/-- **termination.**  The `while` loop on a wire with `n` commands exits by its own condition within
`2n + 1` iterations: giving it more iterations does not change the result. -/
theorem optimize_terminates (B : Nat) (row : List Cmd) (k : Nat) :
    optLoop (tryMerge B) (optFuel row.length + k) [] row = optRow B row :=
  optLoop_fuel_add (tryMerge B) row k

/-- **completeness.**  In an optimised row no two neighbours can be merged any more: the loop body
leaves every neighbouring pair alone (the backtracking `i -= 1` is what makes this true) -/
theorem optimize_complete (B : Nat) (row : List Cmd) :
    List.IsChain (fun a b => tryMerge B a b = .advance) (optRow B row) :=
  optRow_chain B row

/-- **idempotence.**  Optimising an optimised row changes nothing (whatever identities new commands
would get) — the harness checks `optimize()` of an optimised program against this -/
theorem optimize_idempotent (B B' : Nat) (row : List Cmd) : optRow B' (optRow B row) = optRow B row :=
  optRow_idem B B' row

/-- the optimiser never lengthens a wire -/
theorem optRow_length_le (B : Nat) (row : List Cmd) : (optRow B row).length ≤ row.length := by
  have := optLoop_length_le (tryMerge B) (optFuel row.length) [] row
  simpa [optRow] using this

/-! ### the class table of the model agrees with `ops.py` (regenerated on every build) -/

/-- what the model's table must say for a generated entry -/
def entryOK (e : String × String × String × String) : Bool :=
  let (name, cats, ns, prov) := e
  match classInfo name with
  | none => false
  | some (rule, nk) =>
    -- ns
    (match ns with
      | "inst" => nk == .perInstance
      | "None" => nk == .absent
      | "0" => nk == .fixed 0
      | "1" => nk == .fixed 1
      | "2" => nk == .fixed 2
      | _ => false) &&
    -- merge provider ↦ rule
    (match prov with
      | "Gate" => rule == .gate
      | "Channel" => (rule == .channel && nk != .perInstance) || (rule == .matrix && nk == .perInstance)
      | "Preparation" => rule == .prep
      | "Decomposition" => rule == .matrix
      | "Measurement" => rule == .never
      | "raise" => rule == .never
      | "custom:Fouriergate" => name == "Fouriergate" && rule == .fourier
      | "Operation" => rule == .never && nk != .fixed 1 && nk != .perInstance  -- NotImplementedError unreachable
      | _ => false) &&
    -- `isinstance(other, Preparation)` is modelled by `ruleOf other = prep`
    ((cats == "Preparation" || cats == "Preparation+Decomposition") == (rule == .prep))

/-- every concrete class of `ops.py` is in the model's table with the rule its `merge` provider
implements and the right `ns`; every class of the model's table exists in `ops.py`; no concrete
class is a subclass of another (so `isinstance` tests in the merge rules are class equalities).
A new or re-parented class, a changed `ns`, or a new `merge` override breaks this theorem. -/
theorem optable_agrees :
    Gen.opTable.all entryOK = true ∧
    classTable.all (fun e => Gen.opTable.any fun g => g.1 == e.1) = true ∧
    Gen.subclassPairs = [] := by decide

/-- the lawful families: every class whose `merge` is the inherited `Gate.merge` is either in the
hand-listed additive families or the known finding -/
theorem inherited_gate_merge_lawful :
    (Gen.opTable.filter fun e => e.2.2.2 == "Gate").all (fun e =>
      ["Rgate", "Sgate", "Dgate", "Xgate", "Zgate", "Pgate", "Vgate", "Kgate", "BSgate", "S2gate",
       "CXgate", "CZgate", "CKgate"].contains e.1 || knownUnlawful.contains e.1) = true := by decide

/-! ### non-vacuity -/

/-- a circuit on 4 modes: mergeable rotations on mode 2 separated (in list order) by operations on
other modes, a cancelling pair (a, −a) on mode 3 written as gate and daggered gate, two loss
channels, two preparations, a measured-parameter gate (not merged), two-mode gates with swapped
targets (not merged) -/
def ex : List Cmd :=
  [ { id := 0, cls := "Rgate", regs := [2], pars := [.num (1/2)] },
    { id := 1, cls := "BSgate", regs := [0, 1], pars := [.num (1/2), .num 0] },
    { id := 2, cls := "Rgate", regs := [2], pars := [.num (1/4)] },
    { id := 3, cls := "Dgate", regs := [3], pars := [.num (3/4), .num 0] },
    { id := 4, cls := "BSgate", regs := [1, 0], pars := [.num (1/2), .num 0] },
    { id := 5, cls := "Dgate", regs := [3], pars := [.num (3/4), .num 0], dagger := true },
    { id := 6, cls := "LossChannel", regs := [2], pars := [.num (1/2)] },
    { id := 7, cls := "LossChannel", regs := [2], pars := [.num (1/2)] },
    { id := 8, cls := "MeasureHomodyne", regs := [0], pars := [.num 0] },
    { id := 9, cls := "Rgate", regs := [3], deps := [0], pars := [.meas 0 1] },
    { id := 10, cls := "Rgate", regs := [3], deps := [0], pars := [.meas 0 1] },
    { id := 11, cls := "Coherent", regs := [1], pars := [.num 1, .num 0] },
    { id := 12, cls := "Vacuum", regs := [1] } ]

/-- one schedule of the optimised grid: 13 commands became 8 -/
def exOut : List Cmd :=
  [ { id := 12, cls := "Rgate", regs := [2], pars := [.num (3/4)] },
    { id := 18, cls := "LossChannel", regs := [2], pars := [.num (1/4)] },
    ex[1]!, ex[4]!, ex[8]!, ex[9]!, ex[10]!,
    { id := 23, cls := "Vacuum", regs := [1] } ]

example : isOptOutput 12 ex exOut = true ∧ (∀ c ∈ ex, WFc c) ∧ exOut.length = 8 := by decide +kernel

/-- the hypotheses of `optimize_sem` are met by the toy interpretation `SFV.Toy.f` (state
transformers on one rational amplitude per mode: translations, scalings, overwriting preparations —
a non-commutative monoid), instantiated at the circuit above -/
example : sem Toy.f exOut = sem Toy.f ex :=
  optimize_checked_sem Toy.f Toy.f_comm (Toy.lawful.mono fun _ _ => trivial) 12 ex exOut (by decide +kernel) (by decide +kernel)

/-- the physical instance at the same circuit: the optimised circuit implements the same Gaussian
channel, for every value of the measured parameter -/
example (θ : Nat → Rat) : sem (GaussSem.gf θ) exOut = sem (GaussSem.gf θ) ex :=
  optimize_gaussian_checked θ 12 ex exOut (by decide +kernel) (by decide +kernel)

/-- a list in which the two rotations were *not* merged, or merged to the wrong angle, is rejected -/
example : isOptOutput 12 ex ex = false ∧
    isOptOutput 12 ex ({ id := 12, cls := "Rgate", regs := [2], pars := [.num 1] } :: exOut.tail) = false := by
  decide +kernel

/-- merge rules on concrete operations: additive with dagger sign, exact cancellation, channel
product, later preparation wins, Fourier cancels only against its inverse, different tail fails,
two-mode gates with swapped targets are not even tried -/
example :
    opMerge ex[0]! ex[2]! = .merged { ex[0]! with pars := [.num (3/4)] } ∧
    opMerge ex[3]! ex[5]! = .identity ∧
    opMerge ex[6]! ex[7]! = .merged { ex[6]! with pars := [.num (1/4)] } ∧
    opMerge ex[11]! ex[12]! = .merged ex[12]! ∧
    opMerge { id := 0, cls := "Fouriergate", regs := [0] } { id := 1, cls := "Fouriergate", regs := [0] } = .fail ∧
    opMerge { id := 0, cls := "Fouriergate", regs := [0] }
      { id := 1, cls := "Fouriergate", regs := [0], dagger := true } = .identity ∧
    opMerge { id := 0, cls := "Sgate", regs := [0], pars := [.num 1, .num 0] }
      { id := 1, cls := "Sgate", regs := [0], pars := [.num 1, .num (1/2)] } = .fail ∧
    tryMerge 12 ex[1]! ex[4]! = .advance ∧
    opMerge { id := 0, cls := "GaussianTransform", regs := [0], pars := [.num 2, .num 0, .num 0, .num (1/2)] }
      { id := 1, cls := "GaussianTransform", regs := [0], pars := [.num (1/2), .num 0, .num 0, .num 2] } = .identity := by
  decide +kernel

example : optRow 40 (optRow 12 (gridRow ex 2)) = optRow 12 (gridRow ex 2) ∧
    (optRow 12 (gridRow ex 2)).length < (gridRow ex 2).length := by decide +kernel

def bsA : Cmd := { id := 0, cls := "BSgate", regs := [2, 0], pars := [.num (1/2), .num (1/4)] }
def bsB : Cmd := { id := 1, cls := "BSgate", regs := [2, 0], pars := [.num (1/4), .num (1/4)], dagger := true }
def bsM : Cmd := { bsA with pars := [.num (1/4), .num (1/4)] }

/-- two beamsplitters on the same (descending) ordered pair, the second daggered, are merged by
`merge` (not by the optimiser) into `BSgate(1/2 − 1/4, 1/4)`, and the physical interpretation agrees -/
example (θ : Nat → Rat) :
    GaussSem.gf θ bsA * GaussSem.gf θ bsB = GaussSem.gf θ { bsM with id := 7, regs := bsA.regs } :=
  (merge_sound_gaussian θ bsA bsB (Or.inr ⟨2, 0, rfl, by decide⟩) rfl rfl rfl (by decide)).2 bsM
    (by decide +kernel) 7

example : optRow 12 (gridRow ex 3) = [ex[9]!, ex[10]!] ∧ (optRow 12 (gridRow ex 2)).length = 2 := by decide +kernel

end SFV.C03
