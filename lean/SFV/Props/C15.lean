import SFV.Proofs.HbarObs
import Mathlib.Algebra.Field.Rat
import Mathlib.Algebra.Order.Ring.Rat
import Mathlib.Tactic.NormNum

/-!
# C15 — physical predictions do not depend on the hbar convention

`s` is the atom `sqrt(hbar/2)` (any non-zero element of a field of characteristic ≠ 2 / an ordered field);
`s = 1` is the internal convention hbar = 2 of all three simulators.

* `hbar_scaling_calls` / `hbar_scaling`: for every program, the front end of `ops.py` run at `s` on the program
  whose dimensionful parameters were rescaled by their documented units emits *the same list of back-end
  calls* as the hbar = 2 program; hence every hbar-free back end ends in the same state, the state object
  reports `means ∝ s`, `cov ∝ s²`, homodyne / ancilla outcomes `∝ s`.
* `observables_invariant`: mean photon number (mean and variance), displacement, the matrix examined by
  `is_coherent / is_squeezed / squeezing`, and the normalised pair `(μ/s, V/s²)` that the Fock-probability and
  fidelity routines are functions of, do not depend on `s`; `quad_expectation` scales as `(s, s²)`.
* `history_invariant`: along *every history* of observer calls on one state object all dimensionless answers
  equal those at hbar = 2 (observers are pure).  `history_old_counterexample`: before the `fix:` commit this
  failed for one-mode states (in-place `cov /= hbar/2`); `history_old_partial`: it held for `N ≠ 1`.
* `homodyne_select_roundtrip`, `msgate_result_scaling` (+ `msgate_old_counterexample`).
* `wigner_scaling`: exponent of the Gaussian Wigner function and the Fock-basis argument are invariant on the
  rescaled grid, the normalisation `sqrt(det(2πV))` scales with `s²`.
-/
namespace SFV.C15
open SFV.Hbar SFV.Gauss

/-- **front end**: same back-end calls at every hbar, for every program of hbar-reading and hbar-free operations -/
theorem hbar_scaling_calls {K G : Type} [Field K] [DecidableEq K] (s : K) (hs : s ≠ 0) (h2 : (2 : K) ≠ 0)
    (prog : List (FOp K G)) : compileProg s (prog.map (rescale s)) = compileProg 1 prog :=
  compileProg_rescale s hs h2 prog

/-- **hbar_scaling**: for *every* hbar-free back end `B` (any transition function on calls, any initial state
`σ₀`) and any read-out `data` of its hbar = 2 means and covariance, the state object built at `s` after the
rescaled program has `means = s · means₂`, `cov = s² · cov₂`, where `means₂, cov₂` belong to the hbar = 2 run. -/
theorem hbar_scaling {K G σ : Type} [Field K] [DecidableEq K] (s : K) (hs : s ≠ 0) (h2 : (2 : K) ≠ 0)
    (B : σ → BCall K G → σ) (σ₀ : σ) (n : Nat) (dataMu : σ → Nat → K) (dataCov : σ → Nat → Nat → K)
    (prog : List (FOp K G)) :
    let stS := runCalls B σ₀ (compileProg s (prog.map (rescale s)))
    let st2 := runCalls B σ₀ (compileProg 1 prog)
    (∀ i, (mkState s n (dataMu stS) (dataCov stS)).mu i = s * (mkState 1 n (dataMu st2) (dataCov st2)).mu i) ∧
    (∀ i j, (mkState s n (dataMu stS) (dataCov stS)).cov i j
        = s * s * (mkState 1 n (dataMu st2) (dataCov st2)).cov i j) := by
  intro stS st2
  have h : stS = st2 := by simp only [stS, st2, compileProg_rescale s hs h2 prog]
  rw [h]
  constructor
  · intro i; simp only [mkState]; ring
  · intro i j; simp only [mkState]; ring

/-- non-vacuity: a three-mode program with every hbar-reading operation (inverted ones, a zero parameter, a
two-mode `Gaussian` on modes (2, 0), a post-selected homodyne) at hbar = 1/2 (`s = 1/2`) -/
example :
    let prog : List (FOp Rat Nat) :=
      [.xgate (3 / 5) false 2, .free 7, .zgate (-1 / 4) true 0, .vgate (1 / 3) true 1, .xgate 0 false 1,
       .gaussian [[2, 0, 1 / 2, 0], [0, 1, 0, 0], [1 / 2, 0, 1, 0], [0, 0, 0, 3]] [1, 0, -2, 1 / 2] [2, 0],
       .homodyne (3 / 5) (4 / 5) (some (7 / 10)) 1, .dgate (1 / 2) 0 1 true 2]
    compileProg (1 / 2 : Rat) (prog.map (rescale (1 / 2))) = compileProg 1 prog ∧
      (compileProg (1 : Rat) prog).length = 7 ∧ compileProg (1 / 2 : Rat) prog ≠ compileProg 1 prog := by
  decide +kernel

/-- **returned values**: a homodyne outcome (and, after the fix, a single-shot `MSgate` ancilla outcome) is the
hbar = 2 outcome times `s` -/
theorem msgate_result_scaling {K : Type} [Field K] (s q : K) :
    homodyneResult s q = s * homodyneResult 1 q ∧ msgateResult s q = s * msgateResult 1 q := by
  simp [homodyneResult, msgateResult]

/-- before the fix the ancilla outcome was divided by `s`: at hbar = 1/2 it came out 4 times too large -/
theorem msgate_old_counterexample :
    msgateResultOld (1 / 2 : Rat) 1 ≠ (1 / 2) * msgateResultOld 1 1 ∧ msgateResultOld (1 / 2 : Rat) 1 = 2 := by
  decide +kernel

/-- **homodyne_select_roundtrip**: the back end post-selects on, and reports, `select / s`; the front end
multiplies the report by `s`: the user gets back exactly the value asked for, and the back end sees the
hbar = 2 value of the rescaled experiment -/
theorem homodyne_select_roundtrip {K : Type} [Field K] (s : K) (hs : s ≠ 0) (sel : K) :
    homodyneResult s (sel / s) = sel ∧ (sel * s) / s = sel := by
  constructor
  · simp only [homodyneResult]; field_simp
  · field_simp

example : homodyneResult (7 / 10 : Rat) ((3 / 5) / (7 / 10)) = 3 / 5 := by norm_num [homodyneResult]

/-- **observables_invariant** (state object built from the same hbar = 2 data at `s` and at 1) -/
theorem observables_invariant {K : Type} [Field K] (s : K) (hs : s ≠ 0) (h2 : (2 : K) ≠ 0) (n : Nat)
    (mu2 : Nat → K) (cov2 : Nat → Nat → K) (m : Nat) :
    meanPhoton (mkState s n mu2 cov2) m = meanPhoton (mkState 1 n mu2 cov2) m ∧
    displacement (mkState s n mu2 cov2) m = displacement (mkState 1 n mu2 cov2) m ∧
    normCov (mkState s n mu2 cov2) m = normCov (mkState 1 n mu2 cov2) m ∧
    squeezingInputs (mkState s n mu2 cov2) m = squeezingInputs (mkState 1 n mu2 cov2) m ∧
    fockInputs (mkState s n mu2 cov2) = fockInputs (mkState 1 n mu2 cov2) ∧
    (∀ re im : K, coherentRef s re im = coherentRef 1 re im) := by
  classical
  refine ⟨meanPhoton_invariant s hs h2 n mu2 cov2 m, displacement_invariant s hs h2 n mu2 cov2 m,
    normCov_invariant s hs n mu2 cov2 m, squeezingInputs_invariant s hs n mu2 cov2 m,
    fockInputs_invariant s hs n mu2 cov2, ?_⟩
  intro re im
  have h11 : (1 : K) + 1 ≠ 0 := by rw [one_add_one_eq_two]; exact h2
  simp only [coherentRef]
  refine Prod.ext (Prod.ext ?_ ?_) ?_ <;> simp only <;> field_simp

/-- `quad_expectation(mode, φ)` returns `(s · mean₂, s² · var₂)` for every angle -/
theorem quad_expectation_scaling {K : Type} [Field K] (s : K) (n : Nat) (mu2 : Nat → K) (cov2 : Nat → Nat → K)
    (m : Nat) (c sn : K) :
    quadExpectation (mkState s n mu2 cov2) m c sn
      = (s * (quadExpectation (mkState 1 n mu2 cov2) m c sn).1,
         s * s * (quadExpectation (mkState 1 n mu2 cov2) m c sn).2) := by
  classical
  exact quadExpectation_scaling s n mu2 cov2 m c sn

/-- non-vacuity: a displaced squeezed thermal mode 1 of a correlated two-mode state, hbar = 2·(3/2)² -/
example :
    let mu2 : Nat → Rat := fun i => [1, -2, 1 / 2, 3].getD i 0
    let cov2 : Nat → Nat → Rat := fun i j => ([[2, 1 / 2, 0, 0], [1 / 2, 3, 0, 1], [0, 0, 1, 0], [0, 1, 0, 2]].getD i []).getD j 0
    meanPhoton (mkState (3 / 2) 2 mu2 cov2) 1 = meanPhoton (mkState 1 2 mu2 cov2) 1 ∧
      (meanPhoton (mkState 1 2 mu2 cov2) 1).1 = 4 ∧ (mkState (3 / 2) 2 mu2 cov2).cov 1 1 ≠ cov2 1 1 := by
  decide +kernel

/-- **history_invariant**: for every history of observer calls on one state object, every dimensionless answer
equals the answer given at hbar = 2 — and equals the answer of a fresh object (no observer changes the state) -/
theorem history_invariant {K : Type} [Field K] [LinearOrder K] [IsStrictOrderedRing K] (s : K) (hs : s ≠ 0) (n : Nat)
    (mu2 : Nat → K) (cov2 : Nat → Nat → K) (calls : List (Call K)) :
    history step (mkState s n mu2 cov2) calls = history step (mkState 1 n mu2 cov2) calls ∧
    history step (mkState s n mu2 cov2) calls = calls.map (answer (mkState s n mu2 cov2)) := by
  classical
  refine ⟨?_, history_step _ calls⟩
  rw [history_step, history_step]
  apply List.map_congr_left
  intro c _
  exact answer_invariant s hs n mu2 cov2 c

/-- the statement `history_invariant` for the code before the fix is false: a one-mode squeezed state at
hbar = 1/2 answers `mean_photon` differently after `is_coherent` was called -/
theorem history_old_counterexample :
    let mu2 : Nat → Rat := fun _ => 0
    let cov2 : Nat → Nat → Rat := fun i j => if i = j then (if i = 0 then 1 / 2 else 2) else 0
    history stepOld (mkState (1 / 2) 1 mu2 cov2) [.isCoherent 0 (1 / 100), .meanPhoton 0]
      ≠ history stepOld (mkState 1 1 mu2 cov2) [.isCoherent 0 (1 / 100), .meanPhoton 0] := by
  decide +kernel

/-- what held before the fix: state objects with `N ≠ 1` modes -/
theorem history_old_partial {K : Type} [Field K] [LinearOrder K] [IsStrictOrderedRing K] (s : K) (hs : s ≠ 0) (n : Nat)
    (hn : n ≠ 1) (mu2 : Nat → K) (cov2 : Nat → Nat → K) (calls : List (Call K)) :
    history stepOld (mkState s n mu2 cov2) calls = history stepOld (mkState 1 n mu2 cov2) calls := by
  classical
  rw [history_stepOld _ (by simpa [mkState] using hn), history_stepOld _ (by simpa [mkState] using hn)]
  exact (history_invariant s hs n mu2 cov2 calls).1

example :
    let mu2 : Nat → Rat := fun i => [1, -2, 1 / 2, 3].getD i 0
    let cov2 : Nat → Nat → Rat := fun i j => ([[2, 1 / 2, 0, 0], [1 / 2, 3, 0, 1], [0, 0, 1, 0], [0, 1, 0, 2]].getD i []).getD j 0
    let calls : List (Call Rat) := [.isSqueezed 1 (1 / 1000), .meanPhoton 1, .squeezing 0, .cov, .quad 1 (3 / 5) (4 / 5),
      .isCoherent 0 (1 / 1000), .reduced [1], .displacement 1, .means]
    history step (mkState (7 / 10) 2 mu2 cov2) calls = history step (mkState 1 2 mu2 cov2) calls ∧
      (history step (mkState 1 2 mu2 cov2) calls).length = 9 := by
  decide +kernel

/-- **wigner_scaling**: on the grid rescaled by `s` the exponent `(r−μ)ᵀV⁻¹(r−μ)` of every Gaussian component is
the hbar = 2 exponent, `det V` (under the square root of the normalisation) scales with `s⁴`, so `W ∝ 1/s²`;
the complex argument of the Fock-basis recursion is unchanged -/
theorem wigner_scaling {K : Type} [Field K] (s : K) (hs : s ≠ 0) (h2 : (2 : K) ≠ 0) (x p mx mp a b d : K)
    (hdet : det2 a b d ≠ 0) :
    wignerExponent (x * s) (p * s) (mx * s) (mp * s) (a * (s * s)) (b * (s * s)) (d * (s * s))
        = wignerExponent x p mx mp a b d ∧
    det2 (a * (s * s)) (b * (s * s)) (d * (s * s)) = s * s * (s * s) * det2 a b d ∧
    wignerFockArg s (x * s) (p * s) = wignerFockArg 1 x p := by
  classical
  exact ⟨wignerExponent_invariant s hs x p mx mp a b d hdet, det2_scaling s a b d, wignerFockArg_invariant s hs h2 x p⟩

example : det2 (2 : Rat) (1 / 2) 3 ≠ 0 ∧
    wignerExponent ((1 : Rat) * (3 / 2)) (-1 * (3 / 2)) (1 / 2 * (3 / 2)) 0 (2 * (3 / 2 * (3 / 2))) (1 / 2 * (3 / 2 * (3 / 2)))
      (3 * (3 / 2 * (3 / 2))) = wignerExponent 1 (-1) (1 / 2) 0 2 (1 / 2) 3 := by
  decide +kernel

/-- `utils.states.coherent_state(basis="gaussian", hbar)` is the state object of the hbar = 2 data `(2 Re a, 2 Im a), 1` -/
theorem utils_coherent_consistent {K : Type} [Field K] (s re im : K) :
    utilsCoherent s re im = (((re + re) * s, (im + im) * s), 1 * (s * s)) := by
  simp only [utilsCoherent]
  refine Prod.ext (Prod.ext ?_ ?_) ?_ <;> simp only <;> ring

example : utilsCoherent (1 / 2 : Rat) 3 (-1) = ((3, -1), 1 / 4) := by decide +kernel

/-! ## part 2: bosonic and Fock state objects, decomposition path, when hbar is read -/

/-- **bosonic_observables_invariant**: for a weighted sum of *any number* of Gaussian components (weights, means and
covariances arbitrary field elements — also complex ones), `mean_photon` (mean and variance) and `displacement` of a
`BaseBosonicState` do not depend on `s`, and `quad_expectation` scales as `(s, s²)` -/
theorem bosonic_observables_invariant {K : Type} [Field K] (s : K) (hs : s ≠ 0) (h2 : (2 : K) ≠ 0) (n : Nat)
    (w : List K) (mu2 : Nat → Nat → K) (cov2 : Nat → Nat → Nat → K) (m : Nat) (c sn : K) :
    bMeanPhoton (mkBState s n w mu2 cov2) m = bMeanPhoton (mkBState 1 n w mu2 cov2) m ∧
    bDisplacement (mkBState s n w mu2 cov2) m = bDisplacement (mkBState 1 n w mu2 cov2) m ∧
    bQuad (mkBState s n w mu2 cov2) m c sn
      = (s * (bQuad (mkBState 1 n w mu2 cov2) m c sn).1, s * s * (bQuad (mkBState 1 n w mu2 cov2) m c sn).2) := by
  classical
  exact ⟨bMeanPhoton_invariant s hs h2 n w mu2 cov2 m, bDisplacement_invariant s hs h2 n w mu2 cov2 m,
    bQuad_scaling s n w mu2 cov2 m c sn⟩

/-- non-vacuity: three components with a negative weight (a cat-like state), mode 1 of two modes, hbar = 2·(3/2)² -/
example :
    let w : List Rat := [3 / 4, 3 / 4, -1 / 2]
    let mu2 : Nat → Nat → Rat := fun i j => ([[1, 0, 2, -1], [-1, 0, -2, 1], [0, 0, 0, 1 / 2]].getD i []).getD j 0
    let cov2 : Nat → Nat → Nat → Rat := fun i j k => if j = k then (if i = 2 then 1 / 2 else 1) else (if j + k = 5 then 1 / 4 else 0)
    bMeanPhoton (mkBState (3 / 2) 2 w mu2 cov2) 1 = bMeanPhoton (mkBState 1 2 w mu2 cov2) 1 ∧
      (bMeanPhoton (mkBState 1 2 w mu2 cov2) 1).1 = 63 / 32 ∧
      (bQuad (mkBState (3 / 2) 2 w mu2 cov2) 1 (3 / 5) (4 / 5)).2 ≠ (bQuad (mkBState 1 2 w mu2 cov2) 1 (3 / 5) (4 / 5)).2 := by
  decide +kernel

/-- **fock_quad_expectation_scaling**: `BaseFockState.quad_expectation` (operators on `cutoff + 5` levels, rotation,
square, truncation, traces) returns `(s · mean₂, s² · var₂)` for every cutoff, every (not necessarily physical) reduced
density matrix, every angle and every value of the `sqrt n` atoms -/
theorem fock_quad_expectation_scaling {K : Type} [Field K] (s c sn : K) (sq : Nat → K) (D : Nat) (ρr ρi : Nat → Nat → K) :
    fockQuad s c sn sq D ρr ρi
      = (s * (fockQuad 1 c sn sq D ρr ρi).1, s * s * (fockQuad 1 c sn sq D ρr ρi).2) := by
  classical
  exact fockQuad_scaling s c sn sq D ρr ρi

/-- non-vacuity: cutoff 3, a non-diagonal complex ρ, φ with (cos, sin) = (3/5, 4/5), rational stand-ins for the roots -/
example :
    let sq : Nat → Rat := fun n => [0, 1, 7 / 5, 26 / 15, 2, 9 / 4, 5 / 2, 8 / 3].getD n 0
    let ρr : Nat → Nat → Rat := fun i j => ([[1 / 2, 1 / 4, 0], [1 / 4, 1 / 3, 1 / 5], [0, 1 / 5, 1 / 6]].getD i []).getD j 0
    let ρi : Nat → Nat → Rat := fun i j => ([[0, 1 / 8, 0], [-1 / 8, 0, 1 / 7], [0, -1 / 7, 0]].getD i []).getD j 0
    fockQuad (1 / 2) (3 / 5) (4 / 5) sq 3 ρr ρi
        = (1 / 2 * (fockQuad 1 (3 / 5) (4 / 5) sq 3 ρr ρi).1, 1 / 2 * (1 / 2) * (fockQuad 1 (3 / 5) (4 / 5) sq 3 ρr ρi).2) ∧
      (fockQuad 1 (3 / 5) (4 / 5) sq 3 ρr ρi).1 ≠ 0 ∧ (fockQuad 1 (3 / 5) (4 / 5) sq 3 ρr ρi).2 ≠ 0 := by
  decide +kernel

/-- **gaussian_decompose_apply_consistent**: the two ways `Gaussian(V, r)` reaches a back end agree on the means.  The
displacement tail of `_decompose` emits `Xgate(u)` / `Zgate(u)` for the non-zero entries `u` of `r`; compiled at `s`
each shifts its quadrature (hbar = 2 units) by exactly `u / s`, the entry of the vector `_apply` hands to
`prepare_gaussian_state` -/
theorem gaussian_decompose_apply_consistent {K G : Type} [Field K] [DecidableEq K] (s : K) (hs : s ≠ 0) (h2 : (2 : K) ≠ 0)
    (u : K) (hu : u ≠ 0) (k : Nat) :
    (compile (G := G) s (.xgate u false k)).map callShift = [some (k, u / s, 0)] ∧
    (compile (G := G) s (.zgate u false k)).map callShift = [some (k, 0, u / s)] :=
  ⟨compile_xgate_shift s hs h2 u hu k, compile_zgate_shift s hs h2 u hu k⟩

/-- non-vacuity: `r = (3/5, 0, -1/4, 2)` on modes (2, 0): three gates (the zero entry is skipped), shifts `u / s` -/
example :
    (gaussianDecompDisp (G := Nat) [(3 / 5 : Rat), 0, -1 / 4, 2] [2, 0]).length = 3 ∧
    (compileProg (G := Nat) (1 / 2 : Rat) (gaussianDecompDisp [3 / 5, 0, -1 / 4, 2] [2, 0])).map callShift
      = [some (2, 6 / 5, 0), some (2, 0, -1 / 2), some (0, 0, 4)] := by
  decide +kernel

/-- **build_time_irrelevant**: which hbar was in force when an operation object was *constructed* does not matter for any
program without `Gaussian(V, r)`: every other operation reads `sf.hbar` when it is applied -/
theorem build_time_irrelevant {K G : Type} [Field K] [DecidableEq K] (sBuild s : K) (prog : List (FOp K G))
    (hp : ∀ op ∈ prog, isGaussianPrep op = false) :
    prog.flatMap (compileAt sBuild s) = compileProg s prog := by
  simp only [compileProg]
  apply List.flatMap_congr
  intro op hop
  exact compileAt_eq_compile sBuild s op (hp op hop)

/-- … and it does matter for `Gaussian(V, r)`: `__init__` normalises `V` with the hbar in force at construction while
`_apply` rescales `r` with the hbar in force at run time.  Built at hbar = 2 and applied at hbar = 1/2, the vacuum
covariance `(1/4)·1` written in the run-time units reaches the back end as `(1/4)·1` instead of `1`.
The property therefore speaks about programs built and run under one value of hbar (`compileAt s s = compile s`). -/
theorem gaussian_build_run_counterexample :
    compileAt (G := Nat) (1 : Rat) (1 / 2) (.gaussian [[1 / 4, 0], [0, 1 / 4]] [1, 0] [0])
      ≠ compile (1 / 2) (.gaussian [[1 / 4, 0], [0, 1 / 4]] [1, 0] [0]) ∧
    (∀ op : FOp Rat Nat, compileAt (1 / 2) (1 / 2) op = compile (1 / 2) op) := by
  refine ⟨by decide +kernel, fun op => compileAt_same _ op⟩

example : (∀ op ∈ ([.xgate (3 / 5) true 2, .homodyne 1 0 (some (1 / 2)) 0, .vgate (1 / 3) false 1] : List (FOp Rat Nat)),
    isGaussianPrep op = false) := by decide

/-! ## part 3: decisions against absolute tolerances -/

/-- **purity_decision_invariant**: the purity flag in the normalised form `|det(V/(hbar/2)) − 1| < tol` (`Gaussian.__init__`,
and `BaseGaussianState.__init__` after the fix) is invariant under the change of convention `V ↦ t²·V`, `hbar ↦ t²·hbar`, for
every tolerance, every matrix size and every determinant routine; in particular a state object built at `s` from hbar = 2
data decides like the hbar = 2 object -/
theorem purity_decision_invariant {K : Type} [Field K] [LinearOrder K] [IsStrictOrderedRing K]
    (det : List (List K) → K) (tol s t : K) (hs : s ≠ 0) (ht : t ≠ 0) (V : List (List K)) :
    pureNormalised det tol (s * t) (V.map fun row => row.map fun v => v * (t * t)) = pureNormalised det tol s V := by
  classical
  exact pureNormalised_rescale det tol s t hs ht V

/-- the un-normalised form `|det V − (hbar/2)^(2N)| < tol` is not: the weakly mixed one-mode state `V₀ = 1.0001·1`
(`det V₀ − 1 = 2·10⁻⁴`, two hundred times the tolerance `10⁻⁶`) is flagged mixed at `s = 1` and pure at `s = 1/5`; for a
three-mode thermal state with `det V₀ − 1 ≈ 0.6` the same happens at `s = 1/5`.  The normalised form decides both correctly. -/
theorem purity_unnormalised_counterexample :
    let V1 : List (List Rat) := [[10001 / 10000, 0], [0, 10001 / 10000]]
    let V3 : List (List Rat) := (List.range 6).map fun i => (List.range 6).map fun j => if i = j then 13 / 12 else 0
    let sc (t : Rat) (V : List (List Rat)) := V.map fun row => row.map fun v => v * (t * t)
    pureUnnormalised detL (1 / 1000000) 1 V1 = false ∧ pureUnnormalised detL (1 / 1000000) (1 / 5) (sc (1 / 5) V1) = true ∧
    pureUnnormalised detL (1 / 1000000) 1 V3 = false ∧ pureUnnormalised detL (1 / 1000000) (1 / 5) (sc (1 / 5) V3) = true ∧
    pureNormalised detL (1 / 1000000) (1 / 5) (sc (1 / 5) V1) = false ∧
    pureNormalised detL (1 / 1000000) (1 / 5) (sc (1 / 5) V3) = false := by
  decide +kernel

example : pureNormalised detL (1 / 1000000 : Rat) (3 / 2) [[9 / 4 * 2, 0], [0, 9 / 4 * (1 / 2)]] = true ∧
    pureNormalised detL (1 / 1000000 : Rat) 1 [[2, 0], [0, 1 / 2]] = true := by decide +kernel

end SFV.C15
