import SFV.Proofs.RegisterFock
import SFV.Proofs.RegisterBos
import SFV.Proofs.RegisterModes
import SFV.Proofs.RegisterAll

/-!
# C08 — register and simulator agree on which modes exist, for every history

Model: `SFV.Model.Register` (program register accounting, engine hand-over, `ModeMap`, the Fock axis
bookkeeping, the `active` lists of the Gaussian and bosonic simulators, each back end's `state`
selection + labelling), after the three `fix:` commits of C08.  Abstract specification: `Rows D` — one
entry per index ever created, `none` once deleted, otherwise the datum the mode carries
(`live`, `created`, `state` are derived).  Every theorem quantifies over all sizes, selections and
histories.

Main theorem (`agree`, `agree_after_run`): for every history over `new | del | use | meas | endProg | reset`, on every
back end that refines the rows (`Refines`; instances `fockRefines`, `gaussRefines`), the concrete system (program under
construction with its deferred commands + engine + simulator) simulates the abstract, immediate semantics `aStep`:
an event is accepted iff the abstract rows accept it, a rejected event changes nothing, running a segment never
raises, and after it `Program.register = get_modes() = live` and `state(modes=None) = Rows.state` (live indices
ascending, each with its own data).  Since the per-segment re-initialisation of the bosonic back end was repaired
(2edf520) all three back ends are instances (`fock_refines`, `gaussian_refines`, `bosonic_refines`).
-/
set_option linter.unusedSectionVars false
namespace SFV.C08
open SFV.Reg

variable {D B : Type} [DataSem D]

/-- **index stability, whole histories, any back end**: along any history without an engine reset (a reset
starts a new register) the keys of `reg_refs` are the positions, the register only grows, every index keeps
denoting the same RegRef index, and a deleted index never becomes active again. -/
theorem index_stable (o : BackendOps D B) (s : Sys B) (hist : List Ev)
    (hnr : hist.all (fun e => !e.isReset) = true) (hi : ProgInv s.prog) :
    ProgInv (runHist o s hist).prog ∧ Extends s.prog.regRefs (runHist o s hist).prog.regRefs :=
  runHist_index_stable o hist s hnr hi

/-- … and the register a reset (or an engine start) begins with satisfies the invariant -/
theorem index_stable_init (n : Nat) (p : Prog) (h : Prog.fresh n = .ok p) :
    ProgInv p ∧ p.regRefs.length = n ∧ p.flags = List.replicate n true :=
  fresh_progInv h

/-- `New(n)` hands out exactly the `n` indices after all indices ever created -/
theorem new_indices (p p' : Prog) (n : Nat) (inds : List Nat) (h : p.newOp n = .ok (p', inds)) (hi : ProgInv p) :
    inds = List.range' p.regRefs.length n ∧ p'.regRefs.length = p.regRefs.length + n :=
  ⟨(newOp_stable h hi).2.2.1, (newOp_stable h hi).2.2.2⟩

/-- **dead or unknown modes are rejected by the program**: a selection containing a reference that does not
resolve to an *active* RegRef of the program (deleted index, index never created, negative index, foreign or
stale RegRef object) makes `_test_regrefs` raise `RegRefError` -/
theorem reject_dead (p : Prog) (reg : List Ref) (rr : Ref) (hm : rr ∈ reg)
    (hbad : ∀ r, p.resolve rr = .ok r → r.active = false) : p.testRegrefs reg = .error .regRef :=
  testRegrefs_rejects hm hbad

/-- … in particular a deleted index, given as an integer -/
theorem reject_deleted_index (p : Prog) (reg : List Ref) (i : Nat) (r : RegRef) (hm : Ref.int i ∈ reg)
    (hr : p.regRefs[i]? = some r) (hd : r.active = false) : p.testRegrefs reg = .error .regRef := by
  apply reject_dead p reg (.int i) hm
  intro r' hres
  simp only [Prog.resolve] at hres
  split at hres
  · cases hres
  · simp only [Int.toNat_natCast, hr] at hres
    cases hres; exact hd

/-- … and an index that was never created -/
theorem reject_unknown_index (p : Prog) (reg : List Ref) (i : Nat) (hm : Ref.int i ∈ reg)
    (hr : p.regRefs.length ≤ i) : p.testRegrefs reg = .error .regRef := by
  apply reject_dead p reg (.int i) hm
  intro r' hres
  simp only [Prog.resolve] at hres
  split at hres
  · cases hres
  · simp [List.getElem?_eq_none hr] at hres

/-- **a rejected event changes nothing** (program, engine, back end): the history continues from the same state -/
theorem reject_keeps_state (o : BackendOps D B) (s : Sys B) (e : Ev) (es : List Ev) (err : Err)
    (h : step o s e = .error err) : runHist o s (e :: es) = runHist o s es :=
  runHist_reject o s e es err h

/-- **ModeMap invariant, every call history**: after any sequence of `add` / `delete` (valid or raising) /
`reset` on `ModeMap(n)` the non-`None` entries of `_map` are exactly `0, 1, …, k-1`, strictly increasing in
the external index — Fock tensor axes are in index order -/
theorem modemap_inv (n : Nat) (calls : List MMCall) : Numbered 0 (calls.foldl mmStep (ModeMap.new n)).map :=
  mm_history_numbered n calls

/-- `Numbered` spelled out: the non-`None` entries, read left to right, are `0 … k-1` -/
theorem modemap_inv_entries (n : Nat) (calls : List MMCall) :
    let m := (calls.foldl mmStep (ModeMap.new n)).map
    m.filterMap id = List.range' 0 (countSome m) :=
  numbered_filterMap _ 0 (mm_history_numbered n calls)

/-- **agreement, Gaussian back end, every command sequence**: whenever the abstract rows accept a command
sequence (New / Del / gates / measurements on live, distinct modes) the simulator executes it without raising,
stays well-formed, its `get_modes()` is the live set and its abstraction is the abstract result -/
theorem agree_gaussian (cs : List Cmd) (n : Nat) (r' : Rows D)
    (h : Rows.run cs (List.replicate n (some DataSem.vac)) = some r') :
    ∃ s' : PS D, PS.runCircuit cs (PS.begin n) = .ok s' ∧ s'.abs = r' ∧ s'.getModes = Rows.live r' := by
  obtain ⟨s', h1, h2, h3⟩ := PS.runCircuit_refines cs (PS.begin n) (PS.begin_inv n) r' (by rw [PS.begin_abs]; exact h)
  exact ⟨s', h1, h3, by rw [PS.getModes_live s' h2, h3]⟩

/-- … from any well-formed simulator state (later program segments) -/
theorem agree_gaussian_from (cs : List Cmd) (s : PS D) (hs : PSInv s) (r' : Rows D)
    (h : Rows.run cs s.abs = some r') :
    ∃ s' : PS D, PS.runCircuit cs s = .ok s' ∧ PSInv s' ∧ s'.abs = r' ∧ s'.getModes = Rows.live r' := by
  obtain ⟨s', h1, h2, h3⟩ := PS.runCircuit_refines cs s hs r' h
  exact ⟨s', h1, h2, h3, by rw [PS.getModes_live s' h2, h3]⟩

/-- **state exactness** (Gaussian after the fix, bosonic): `state(modes=None)` returns exactly the live indices
in ascending order, each labelled with its own index and carrying the data of its own row -/
theorem state_exact_gaussian (s : PS D) (hs : PSInv s) :
    s.stateNone = .ok (Rows.state 0 s.abs) ∧ (Rows.state 0 s.abs).map (·.1) = Rows.live s.abs :=
  ⟨PS.stateNone_exact s hs, Rows.state_labels s.abs 0⟩

/-- **dead modes are rejected by the phase-space simulators**: a gate, a measurement or a deletion naming an
index that is not live raises -/
theorem reject_dead_gate (s : PS D) (hs : PSInv s) (k : Int) (ms : List Nat) (m : Nat) (hm : m ∈ ms)
    (hd : Rows.liveAt s.abs m = false) : ∃ e, s.gate k ms = .error e :=
  PS.gate_rejects s hs k ms ⟨m, hm, hd⟩

theorem reject_dead_measure (s : PS D) (hs : PSInv s) (ms : List Nat) (m : Nat) (hm : m ∈ ms)
    (hd : Rows.liveAt s.abs m = false) : ∃ e, s.measure ms = .error e :=
  PS.measure_rejects s hs ms ⟨m, hm, hd⟩

theorem reject_dead_del (s : PS D) (hs : PSInv s) (ms : List Nat) (m : Nat) (hm : m ∈ ms)
    (hd : Rows.liveAt s.abs m = false) : ∃ e, s.delMode ms = .error e :=
  PS.delMode_rejects ms s hs ⟨m, hm, hd⟩

/-- **`_test_regrefs` decides exactly the abstract selection test**: it succeeds iff every item denotes an index, all
those indices are active subsystems, and none is repeated; it returns their RegRefs in order -/
theorem test_regrefs_exact (p : Prog) (hp : ProgInv p) (reg : List Ref) (out : List RegRef) :
    p.testRegrefs reg = .ok out ↔
      ∃ is, idxAll reg = some is ∧ out = is.map (fun i => (⟨i, true⟩ : RegRef)) ∧
        (∀ i ∈ is, actAt p i = true) ∧ is.Nodup :=
  testRegrefs_iff hp reg out

/-- **one event**: whenever the system represents the rows `a` (`Sim`), an event is accepted by program + engine +
back end iff the abstract rows accept it, and the successors correspond -/
theorem simulation_step (o : BackendOps D B) (abs : B → Rows D) (Inv : B → Prop) (R : Refines o abs Inv)
    (s : Sys B) (a : Rows D) (h : Sim o abs Inv s a) (ev : Ev) :
    match aStep a ev with
    | some a' => ∃ s', step o s ev = .ok s' ∧ Sim o abs Inv s' a'
    | none => ∃ e, step o s ev = .error e :=
  step_sim R h ev

/-- **agreement, every history, every refining back end**: after any history on a new engine the system represents
the rows obtained by applying the accepted events immediately; the program register is the live set; and whenever
the program under construction is still empty after a run, `get_modes()` is the live set and `state(modes=None)` is
the abstract state -/
theorem agree (o : BackendOps D B) (abs : B → Rows D) (Inv : B → Prop) (R : Refines o abs Inv) (n : Nat)
    (s : Sys B) (hist : List Ev) (hinit : Sys.init o n = .ok s) :
    Sim o abs Inv (runHist o s hist) (aRunHist (List.replicate n (some DataSem.vac)) hist) ∧
    (runHist o s hist).prog.register = Rows.live (aRunHist (List.replicate n (some (DataSem.vac : D))) hist) ∧
    ((runHist o s hist).prog.circuit = [] → (runHist o s hist).prev ≠ none →
      o.getModes (runHist o s hist).be = Rows.live (aRunHist (List.replicate n (some (DataSem.vac : D))) hist) ∧
      o.stateNone (runHist o s hist).be = .ok (Rows.state 0 (aRunHist (List.replicate n (some (DataSem.vac : D))) hist))) := by
  have h := runHist_sim R hist s _ (init_sim R.begin_inv R.begin_abs hinit).1
  exact ⟨h, sim_register h, fun hc hp => (sim_boundary R h hc hp).2⟩

/-- **running never raises, and then everything agrees**: after any history, `eng.run` of the program under
construction succeeds, and afterwards `Program.register = get_modes() = live` and the returned state has exactly the
live modes in ascending index order, each labelled with its own index and carrying its own data -/
theorem agree_after_run (o : BackendOps D B) (abs : B → Rows D) (Inv : B → Prop) (R : Refines o abs Inv) (n : Nat)
    (s : Sys B) (hist : List Ev) (hinit : Sys.init o n = .ok s) :
    ∃ t, step o (runHist o s hist) .endProg = .ok t ∧
      t.prog.register = Rows.live (aRunHist (List.replicate n (some (DataSem.vac : D))) hist) ∧
      o.getModes t.be = Rows.live (aRunHist (List.replicate n (some (DataSem.vac : D))) hist) ∧
      o.stateNone t.be = .ok (Rows.state 0 (aRunHist (List.replicate n (some (DataSem.vac : D))) hist)) ∧
      (Rows.state 0 (aRunHist (List.replicate n (some (DataSem.vac : D))) hist)).map (·.1)
        = Rows.live (aRunHist (List.replicate n (some (DataSem.vac : D))) hist) := by
  have h := runHist_sim R hist s _ (init_sim R.begin_inv R.begin_abs hinit).1
  obtain ⟨t, h1, h2, h3, h4⟩ := step_end R h
  have hb := sim_boundary R h2 h3 h4
  exact ⟨t, h1, sim_register h2, hb.2.1, hb.2.2, Rows.state_labels _ 0⟩

/-- **`All(gate) | reg`** is: test the whole selection (so a bad item rejects everything before anything is appended),
then one single-mode `gate | r` per item — each of which is an event of the history alphabet covered by `simulation_step` -/
theorem all_gate_is_uses (p : Prog) (reg : List Ref) (k : Int) :
    p.allOp reg k = match p.testRegrefs reg with
      | .error e => .error e
      | .ok _ => reg.foldlM (fun q r => q.useOp [r] k []) p :=
  allOp_eq p reg k

/-- **`All(gate k) | reg` is simulated by the abstract rows**: it is accepted iff every item denotes a live index and
none is repeated (the empty selection is accepted and does nothing); then the system represents the rows with the
gate applied to every selected subsystem in turn (`aAll`) -/
theorem all_gate_simulated (o : BackendOps D B) (abs : B → Rows D) (Inv : B → Prop) (s : Sys B) (a : Rows D)
    (h : Sim o abs Inv s a) (reg : List Ref) (k : Int) :
    match idxAll reg with
    | some is =>
      if selB a is then ∃ p', s.prog.allOp reg k = .ok p' ∧ Sim o abs Inv { s with prog := p' } (aAll k is a)
      else ∃ e, s.prog.allOp reg k = .error e
    | none => ∃ e, s.prog.allOp reg k = .error e :=
  allOp_sim h reg k

/-- **measurement results are filed by subsystem index**: `i` is a key of `samples_dict` after a segment iff some
measurement command of the segment acted on the subsystem with index `i` -/
theorem samples_keys_are_indices (cs : List Cmd) (i : Nat) :
    i ∈ samplesKeys cs ↔ ∃ c ∈ cs, c.op = .measure ∧ i ∈ c.reg :=
  mem_samplesKeys cs i

/-- the Fock back end (ModeMap + tensor axes) and the Gaussian back end are such back ends -/
theorem fock_refines : Refines (fockOps D) (Fock.abs (D := D)) (FockInv (D := D)) := fockRefines
theorem gaussian_refines : Refines (gaussOps D) (PS.abs (D := D)) (PSInv (D := D)) := gaussRefines

/-- **Fock `state(modes=None)`** (full): one mode per tensor axis, axis `j` labelled with the `j`-th live index and
carrying the data of that index; `get_modes()` is the live set; both invariants (numbering, axis count) hold -/
theorem state_exact_fock (s : Fock D) (hs : FockInv s) :
    s.stateNone = .ok (Rows.state 0 s.abs) ∧ s.getModes = Rows.live s.abs ∧
    (Rows.state 0 s.abs).map (·.1) = Rows.live s.abs :=
  ⟨Fock.stateNone_exact s hs, Fock.getModes_live s hs, Rows.state_labels s.abs 0⟩

/-- every command sequence the rows accept runs on the Fock back end, keeps `FockInv` and ends in the abstract result -/
theorem agree_fock_from (cs : List Cmd) (s : Fock D) (hs : FockInv s) (r' : Rows D) (h : Rows.run cs s.abs = some r') :
    ∃ s' : Fock D, Fock.runCircuit cs s = .ok s' ∧ FockInv s' ∧ s'.abs = r' :=
  Fock.runCircuit_refines cs s hs r' h

/-- **explicit `state(modes=[…])`, all three back ends, one statement**: `modes` are SUBSYSTEM INDICES.  For every
non-empty list of distinct live indices in any order the call succeeds and returns `Rows.pairs` — the requested
indices, each paired with the data of that very subsystem — in the requested order on the Fock and Gaussian back ends
and in ascending index order on the bosonic one; a list naming a deleted or unknown index is rejected (and `state` has
no effect on the simulator: it is a function of it) -/
theorem state_modes_exact :
    StateModesSpec (Fock.abs (D := D)) FockInv Fock.stateModes id ∧
    StateModesSpec (PS.abs (D := D)) PSInv PS.stateModesG id ∧
    StateModesSpec (PS.abs (D := D)) PSInv PS.stateModesB PS.sortAsc :=
  stateModes_spec_all

/-- … where entry `k` of `Rows.pairs a is` is labelled `is[k]` and carries the data of subsystem `is[k]` -/
theorem state_modes_entries (a : Rows D) (is : List Nat) (hl : is.all a.liveAt = true) (k i : Nat) (hk : is[k]? = some i) :
    ∃ d, a[i]? = some (some d) ∧ (Rows.pairs a is)[k]? = some (i, d) :=
  Rows.pairs_get a is hl k i hk

/-- the bosonic order is a rearrangement of the request -/
theorem state_modes_bosonic_order (modes : List Nat) (x : Nat) : x ∈ PS.sortAsc modes ↔ x ∈ modes := mem_sortAsc modes x

/-- dead or unknown indices are rejected by the Fock back end (`_remap_modes`) -/
theorem reject_dead_gate_fock (s : Fock D) (hs : FockInv s) (k : Int) (ms : List Nat) (m : Nat) (hm : m ∈ ms)
    (hd : Rows.liveAt s.abs m = false) : ∃ e, s.gate k ms = .error e :=
  Fock.gate_rejects s hs k ms ⟨m, hm, hd⟩

theorem reject_dead_measure_fock (s : Fock D) (hs : FockInv s) (ms : List Nat) (m : Nat) (hm : m ∈ ms)
    (hd : Rows.liveAt s.abs m = false) : ∃ e, s.measure ms = .error e :=
  Fock.measure_rejects s hs ms ⟨m, hm, hd⟩

theorem reject_dead_del_fock (s : Fock D) (hs : FockInv s) (ms : List Nat) (m : Nat) (hm : m ∈ ms)
    (hd : Rows.liveAt s.abs m = false) : ∃ e, s.delMode ms = .error e :=
  Fock.delMode_rejects s hs ms ⟨m, hm, hd⟩

/-- **a first program whose register starts with deleted subsystems is refused** (no previous segment: the back end
would get `init_num_subsystems` contiguous modes) -/
theorem first_program_with_holes_refused (o : BackendOps D B) (s : Sys B) (hp : s.prev = none)
    (hh : s.prog.initRegRefs.all (·.active) = false) : step o s .endProg = .error .runtime := by
  simp [step, engineRun, engineStart, hp, hh]

/-- **a successor with another creation / deletion history is refused**, even when its ACTIVE subsystems coincide with
those the previous segment ended with (an independently built program, a fragment that creates and deletes a mode run
twice): the whole RegRef table is compared, the run raises `RuntimeError` and nothing is executed -/
theorem successor_mismatch_refused (o : BackendOps D B) (s : Sys B) (pr : List RegRef) (hp : s.prev = some pr)
    (hne : s.prog.initRegRefs ≠ pr) : step o s .endProg = .error .runtime := by
  have : (s.prog.initRegRefs == pr) = false := by simpa using hne
  simp [step, engineRun, engineStart, hp, Prog.canFollow, this]

/-- **hand-over between segments**: `Program(prev)` can always follow `prev` … -/
theorem can_follow_child (p : Prog) : p.child.canFollow p.regRefs = true := canFollow_child p

/-- … and a fresh `Program(n)` can follow exactly when no index was ever deleted and `n` were created -/
theorem can_follow_fresh (n : Nat) (q prev : Prog) (hq : Prog.fresh n = .ok q) (hp : ProgInv prev) :
    q.canFollow prev.regRefs = true ↔ (prev.regRefs.length = n ∧ prev.flags = List.replicate n true) :=
  canFollow_fresh prev hq hp

/-! ### bosonic back end -/

/-- **the bosonic back end refines the rows**: the first non-empty program of a computation runs through `init_circuit`
(new simulator, the `New`s of the segment hoisted), continuations are executed command by command on the simulator as
it is, empty programs do nothing — so `agree` / `agree_after_run` hold for every history on the bosonic engine too -/
theorem bosonic_refines : Refines (bosOps D) (fun b => PS.abs b.1) (BosInv (D := D)) := bosRefines

/-- `run_prog` of the first non-empty segment: any accepted command sequence (with `New`s anywhere) -/
theorem bosonic_run_prog_first_segment (n : Nat) (cs : List Cmd) (r' : Rows D)
    (hr : Rows.run cs (List.replicate n (some (DataSem.vac : D))) = some r') :
    ∃ s', PS.bosLoop cs (PS.bosInit n cs : PS D) = .ok s' ∧ PSInv s' ∧ s'.abs = r' :=
  bosLoop_first n cs r' hr

/-- **ancilla-assisted gate** (`MSgate(avg=False)` → `mb_squeeze_single_shot`): the temporary ancilla mode leaves
`nlen`, `active` and every stored row as they were — in particular deleted modes stay deleted — for every live target;
a deleted or unknown target is rejected -/
theorem msgate_keeps_bookkeeping (s : PS D) (hs : PSInv s) (k : Nat) :
    (Rows.liveAt s.abs k = true → s.msSingleShot k = .ok s) ∧
    (Rows.liveAt s.abs k = false → ∃ e, s.msSingleShot k = .error e) :=
  ⟨PS.msSingleShot_ok s hs k, PS.msSingleShot_rejects s hs k⟩

/-! ### non-vacuity -/

/-- a history with New as first command, New(2), a two-mode Del, rejected re-use of a deleted index, two
segments — accepted and rejected events both occur, the invariant's hypotheses hold at the start -/
def h1 : List Ev :=
  [.new 2, .use [.own 3] 2 [], .use [.own 0, .own 3] 0 [], .del [.own 1, .int 2], .use [.int 1] 1 [],
   .endProg, .new 1, .del [.own 0], .use [.own 4, .own 3] 0 [], .endProg]

example : (match Sys.init (gaussOps Int) 2 with
    | .ok s => let t := runHist (gaussOps Int) s h1
               (t.prog.register, PS.getModes t.be, PS.stateNone t.be, h1.all (fun e => !e.isReset))
    | .error _ => ([], [], .ok [], false))
    = ([3, 4], [3, 4], .ok [(3, 0), (4, 0)], true) := by decide +kernel

example : (match Sys.init (fockOps Int) 2 with
    | .ok s => let t := runHist (fockOps Int) s h1
               (t.prog.register, Fock.getModes t.be, Fock.stateNone t.be, t.be.mm.map)
    | .error _ => ([], [], .ok [], []))
    = ([3, 4], [3, 4], .ok [(3, 0), (4, 0)], [none, none, none, some 0, some 1]) := by decide +kernel

/-- `reject_dead`: index 1 is deleted, the selection `(q[0], 1)` is rejected; `reject_unknown_index` likewise -/
example : ∃ p : Prog, (Prog.fresh 3 >>= fun p => p.delOp [.own 1]) = .ok p ∧
    p.testRegrefs [.own 0, .int 1] = .error .regRef ∧ p.testRegrefs [.int 7] = .error .regRef ∧
    p.testRegrefs [.own 0, .own 2] = .ok [⟨0, true⟩, ⟨2, true⟩] := ⟨_, rfl, by decide, by decide, by decide⟩

/-- `modemap_inv` on a history with an invalid delete in between -/
example : ([MMCall.delete [1], .add 2, .delete [9], .delete [0, 3], .add 1].foldl mmStep (ModeMap.new 3)).map
    = [none, none, some 0, none, some 1, some 2] := by decide

/-- `agree_gaussian` / `state_exact_gaussian`: an accepted command sequence with a deletion in the middle; the
state labelled `q[2]` carries the data of index 2 (the defect fixed in the Gaussian back end) -/
example : Rows.run [⟨.gate 1, [0]⟩, ⟨.gate 2, [1]⟩, ⟨.gate 3, [2]⟩, ⟨.delete, [1]⟩, ⟨.newModes 2, [3, 4]⟩, ⟨.gate 0, [4, 0]⟩]
      (List.replicate 3 (some (0 : Int))) = some [some 0, none, some 3, some 0, some (-1)] ∧
    Rows.state 0 ([some 0, none, some 3, some 0, some (-1)] : Rows Int) = [(0, 0), (2, 3), (3, 0), (4, -1)] := by decide

/-- `reject_dead_gate`: after `Del q[1]` of 3 a gate on index 1 raises `ValueError`, on index 5 `IndexError` -/
example : ∃ s : PS Int, (PS.begin 3 : PS Int).delMode [1] = .ok s ∧ Rows.liveAt s.abs 1 = false ∧
    s.gate 1 [1] = .error .value ∧ s.gate 1 [5] = .error .index ∧ s.delMode [0, 1] = .error .value :=
  ⟨_, rfl, by decide, by decide, by decide, by decide⟩

/-- `can_follow_fresh`: after a deletion no fresh program can follow -/
example : ∃ p q : Prog, (Prog.fresh 2 >>= fun p => p.delOp [.own 0]) = .ok p ∧ Prog.fresh 2 = .ok q ∧
    q.canFollow p.regRefs = false ∧ p.child.canFollow p.regRefs = true := ⟨_, _, rfl, rfl, by decide, by decide⟩

/-- `agree` / `agree_after_run`: the abstract run of `h1` (non-trivial: New first, New(2), two-mode Del, a rejected
re-use, two segments) — what both back-end examples above computed concretely -/
example : aRunHist (List.replicate 2 (some (0 : Int))) h1 = [none, none, none, some 0, some 0] ∧
    Rows.live (aRunHist (List.replicate 2 (some (0 : Int))) h1) = [3, 4] ∧
    (aStep ([some 0, none] : Rows Int) (.use [.int 1] 1 [])).isSome = false := by decide

/-- `test_regrefs_exact`: accepted and rejected selections on a register with a hole -/
example : ∃ p : Prog, (Prog.fresh 3 >>= fun p => p.delOp [.own 1]) = .ok p ∧ actAt p 0 = true ∧ actAt p 1 = false ∧
    idxAll [Ref.own 2, .int 0] = some [2, 0] ∧ p.testRegrefs [.own 2, .int 0] = .ok [⟨2, true⟩, ⟨0, true⟩] ∧
    idxAll [Ref.foreign 0 true] = none := ⟨_, rfl, by decide, by decide, by decide, by decide, by decide⟩

/-- `first_program_with_holes_refused`: `Program(parent)` with a deleted subsystem on a reset engine -/
example : ∃ p : Prog, (Prog.fresh 3 >>= fun p => p.delOp [.own 1]) = .ok p ∧
    (match step (gaussOps Int) ⟨p.lock.child, none, PS.begin 0⟩ .endProg with
      | .error e => some e
      | .ok _ => none) = some .runtime := ⟨_, rfl, by decide⟩

/-- `bosonic_refines`: New(2) as first command, a gate on a new mode, Del of an old one; a second segment goes on with
the data of the first (what used to be the known finding) -/
example : (match Sys.init (bosOps Int) 1 with
    | .ok s => let t := runHist (bosOps Int) s [.new 2, .use [.own 2] 3 [], .del [.own 0], .endProg, .use [.own 1] 1 [],
                                              .new 1, .endProg]
               (t.prog.register, PS.getModes t.be.1, PS.stateNone t.be.1, t.be.2)
    | .error _ => ([], [], .ok [], false))
    = ([1, 2, 3], [1, 2, 3], .ok [(1, 1), (2, 3), (3, 0)], true) := by decide +kernel

/-- `msgate_keeps_bookkeeping`: 3 modes, `Del q[1]`; the single-shot gate on `q[2]` returns the same simulator, on the
deleted `q[1]` it raises -/
example : ∃ s : PS Int, PS.runCircuit [⟨.gate 2, [2]⟩, ⟨.delete, [1]⟩] (PS.begin 3) = .ok s ∧
    s.msSingleShot 2 = .ok s ∧ s.msSingleShot 1 = .error .value ∧ s.msSingleShot 5 = .error .index ∧
    s.active = [some 0, none, some 2] := ⟨_, rfl, by decide, by decide, by decide, by decide⟩

/-- `state_modes_exact`: 4 modes carrying 1,2,3,4; `Del q[1]`; the cyclic request `[3, 0, 2]` returns subsystems 3, 0, 2
with their own data on Fock and Gaussian and `0, 2, 3` on bosonic; the deleted index 1 and the unknown index 7 are refused -/
def cs4 : List Cmd := [⟨.gate 1, [0]⟩, ⟨.gate 2, [1]⟩, ⟨.gate 3, [2]⟩, ⟨.gate 4, [3]⟩, ⟨.delete, [1]⟩]

example : ∃ s : PS Int, PS.runCircuit cs4 (PS.begin 4) = .ok s ∧
    s.stateModesG [3, 0, 2] = .ok [(3, 4), (0, 1), (2, 3)] ∧ s.stateModesB [3, 0, 2] = .ok [(0, 1), (2, 3), (3, 4)] ∧
    Rows.pairs s.abs [3, 0, 2] = [(3, 4), (0, 1), (2, 3)] ∧ [3, 0, 2].all (Rows.liveAt s.abs) = true ∧
    s.stateModesG [0, 1] = .error .value ∧ s.stateModesB [7] = .error .value ∧ Rows.liveAt s.abs 1 = false :=
  ⟨_, rfl, by decide, by decide, by decide, by decide, by decide, by decide, by decide⟩

example : ∃ s : Fock Int, Fock.runCircuit cs4 (Fock.begin 4) = .ok s ∧
    s.stateModes [3, 0, 2] = .ok [(3, 4), (0, 1), (2, 3)] ∧ s.stateModes [0, 1] = .error .value ∧
    s.stateModes [7] = .error .index ∧ s.stateModes [2, 2] = .error .value :=
  ⟨_, rfl, by decide, by decide, by decide, by decide⟩

/-- `all_gate_is_uses`: accepted on two modes (two commands appended), rejected as a whole when one item is deleted -/
example : ∃ p : Prog, (Prog.fresh 3 >>= fun p => p.delOp [.own 1]) = .ok p ∧
    (match p.allOp [.own 2, .int 0] 1 with | .ok q => q.circuit.length | .error _ => 0) = p.circuit.length + 2 ∧
    (match p.allOp [.own 2, .int 1] 1 with | .ok _ => none | .error e => some e) = some .regRef :=
  ⟨_, rfl, by decide, by decide⟩

/-- `successor_mismatch_refused`: after `Program(2)` with `Del q[1]`, an independent `Program(1)` has the same active
subsystem `{0}` but is refused; so is the program that deleted a mode as its own successor -/
example : ∃ p q : Prog, (Prog.fresh 2 >>= fun p => p.delOp [.own 1]) = .ok p ∧ Prog.fresh 1 = .ok q ∧
    q.register = p.register ∧ q.initRegRefs ≠ p.regRefs ∧ p.initRegRefs ≠ p.regRefs ∧
    (match step (gaussOps Int) ⟨q, some p.regRefs, PS.begin 2⟩ .endProg with
      | .error e => some e
      | .ok _ => none) = some .runtime := ⟨_, _, rfl, rfl, by decide, by decide, by decide, by decide⟩

/-- `all_gate_simulated` / `samples_keys_are_indices`: `All(X(2))` on the live modes 3 and 0 of a register with a hole;
measurements of the modes 3 and (0, 2) are filed under 0, 2, 3 -/
example : aAll 2 [3, 0] ([some 1, none, some 0, some 5] : Rows Int) = [some 3, none, some 0, some 7] ∧
    selB ([some 1, none, some 0, some 5] : Rows Int) [3, 0] = true ∧ selB ([some 1, none] : Rows Int) [0, 1] = false ∧
    samplesKeys [⟨.measure, [3]⟩, ⟨.gate 1, [1]⟩, ⟨.measure, [0, 2]⟩, ⟨.measure, [3]⟩] = [0, 2, 3] := by decide

end SFV.C08
