import SFV.Proofs.Register

/-!
# C08 — register and simulator agree on which modes exist, for every history

Model: `SFV.Model.Register` (program register accounting, engine hand-over, `ModeMap`, the Fock axis
bookkeeping, the `active` lists of the Gaussian and bosonic simulators, each back end's `state`
selection + labelling), after the three `fix:` commits of C08.  Abstract specification: `Rows D` — one
entry per index ever created, `none` once deleted, otherwise the datum the mode carries
(`live`, `created`, `state` are derived).  Every theorem quantifies over all sizes, selections and
histories.

Full statement aimed at (kept visible; proved in the parts below, see `notes/C08.md` for what is missing):

  `theorem agree (hist : List Ev) : Sim (runHist o s₀ hist) (aRunHist r₀ hist)` for `o ∈ {fockOps, gaussOps,
   bosOps}` — i.e. after any history the program register, `get_modes()` and `live` coincide, rejected events
   are exactly those the abstract rows reject, and `state(modes=None) = Rows.state`.

Proved: the program side for all histories (`index_stable`, `reject_dead`, `reject_keeps_state`), the `ModeMap`
invariant for all call histories (`modemap_inv`), the back-end side for every command sequence on the
phase-space simulators (`agree_gaussian`, `state_exact_gaussian`, `reject_dead_*`), the Fock labelling under the
axis-count hypothesis (`state_labels_fock_partial`), the hand-over rule (`can_follow_*`).  The known finding
(bosonic re-initialisation per segment) is `bosonic_segment_counterexample`.
-/
set_option linter.unusedSectionVars false
namespace SFV.C08
open SFV.Reg

variable {D B : Type} [DataSem D]

/-- **index stability, whole histories, any back end**: along any history without an engine reset (a reset
starts a new register) the keys of `reg_refs` are the positions, the register only grows, every index keeps
denoting the same RegRef index, and a deleted index never becomes active again. -/
theorem index_stable (o : BackendOps D B) (s : Sys B) (hist : List Ev)
    (hnr : hist.all (fun e => !e.isReset) = true) (hi : ProgInv s.prog) :
    ProgInv (runHist o s hist).prog ∧ Extends s.prog.regRefs (runHist o s hist).prog.regRefs :=
  runHist_index_stable o hist s hnr hi

/-- … and the register a reset (or an engine start) begins with satisfies the invariant -/
theorem index_stable_init (n : Nat) (p : Prog) (h : Prog.fresh n = .ok p) :
    ProgInv p ∧ p.regRefs.length = n ∧ p.flags = List.replicate n true :=
  fresh_progInv h

/-- `New(n)` hands out exactly the `n` indices after all indices ever created -/
theorem new_indices (p p' : Prog) (n : Nat) (inds : List Nat) (h : p.newOp n = .ok (p', inds)) (hi : ProgInv p) :
    inds = List.range' p.regRefs.length n ∧ p'.regRefs.length = p.regRefs.length + n :=
  ⟨(newOp_stable h hi).2.2.1, (newOp_stable h hi).2.2.2⟩

/-- **dead or unknown modes are rejected by the program**: a selection containing a reference that does not
resolve to an *active* RegRef of the program (deleted index, index never created, negative index, foreign or
stale RegRef object) makes `_test_regrefs` raise `RegRefError` -/
theorem reject_dead (p : Prog) (reg : List Ref) (rr : Ref) (hm : rr ∈ reg)
    (hbad : ∀ r, p.resolve rr = .ok r → r.active = false) : p.testRegrefs reg = .error .regRef :=
  testRegrefs_rejects hm hbad

/-- … in particular a deleted index, given as an integer -/
theorem reject_deleted_index (p : Prog) (reg : List Ref) (i : Nat) (r : RegRef) (hm : Ref.int i ∈ reg)
    (hr : p.regRefs[i]? = some r) (hd : r.active = false) : p.testRegrefs reg = .error .regRef := by
  apply reject_dead p reg (.int i) hm
  intro r' hres
  simp only [Prog.resolve] at hres
  split at hres
  · cases hres
  · simp only [Int.toNat_natCast, hr] at hres
    cases hres; exact hd

/-- … and an index that was never created -/
theorem reject_unknown_index (p : Prog) (reg : List Ref) (i : Nat) (hm : Ref.int i ∈ reg)
    (hr : p.regRefs.length ≤ i) : p.testRegrefs reg = .error .regRef := by
  apply reject_dead p reg (.int i) hm
  intro r' hres
  simp only [Prog.resolve] at hres
  split at hres
  · cases hres
  · simp [List.getElem?_eq_none hr] at hres

/-- **a rejected event changes nothing** (program, engine, back end): the history continues from the same state -/
theorem reject_keeps_state (o : BackendOps D B) (s : Sys B) (e : Ev) (es : List Ev) (err : Err)
    (h : step o s e = .error err) : runHist o s (e :: es) = runHist o s es :=
  runHist_reject o s e es err h

/-- **ModeMap invariant, every call history**: after any sequence of `add` / `delete` (valid or raising) /
`reset` on `ModeMap(n)` the non-`None` entries of `_map` are exactly `0, 1, …, k-1`, strictly increasing in
the external index — Fock tensor axes are in index order -/
theorem modemap_inv (n : Nat) (calls : List MMCall) : Numbered 0 (calls.foldl mmStep (ModeMap.new n)).map :=
  mm_history_numbered n calls

/-- `Numbered` spelled out: the non-`None` entries, read left to right, are `0 … k-1` -/
theorem modemap_inv_entries (n : Nat) (calls : List MMCall) :
    let m := (calls.foldl mmStep (ModeMap.new n)).map
    m.filterMap id = List.range' 0 (countSome m) :=
  numbered_filterMap _ 0 (mm_history_numbered n calls)

/-- **agreement, Gaussian back end, every command sequence**: whenever the abstract rows accept a command
sequence (New / Del / gates / measurements on live, distinct modes) the simulator executes it without raising,
stays well-formed, its `get_modes()` is the live set and its abstraction is the abstract result -/
theorem agree_gaussian (cs : List Cmd) (n : Nat) (r' : Rows D)
    (h : Rows.run cs (List.replicate n (some DataSem.vac)) = some r') :
    ∃ s' : PS D, PS.runCircuit cs (PS.begin n) = .ok s' ∧ s'.abs = r' ∧ s'.getModes = Rows.live r' := by
  obtain ⟨s', h1, h2, h3⟩ := PS.runCircuit_refines cs (PS.begin n) (PS.begin_inv n) r' (by rw [PS.begin_abs]; exact h)
  exact ⟨s', h1, h3, by rw [PS.getModes_live s' h2, h3]⟩

/-- … from any well-formed simulator state (later program segments) -/
theorem agree_gaussian_from (cs : List Cmd) (s : PS D) (hs : PSInv s) (r' : Rows D)
    (h : Rows.run cs s.abs = some r') :
    ∃ s' : PS D, PS.runCircuit cs s = .ok s' ∧ PSInv s' ∧ s'.abs = r' ∧ s'.getModes = Rows.live r' := by
  obtain ⟨s', h1, h2, h3⟩ := PS.runCircuit_refines cs s hs r' h
  exact ⟨s', h1, h2, h3, by rw [PS.getModes_live s' h2, h3]⟩

/-- **state exactness** (Gaussian after the fix, bosonic): `state(modes=None)` returns exactly the live indices
in ascending order, each labelled with its own index and carrying the data of its own row -/
theorem state_exact_gaussian (s : PS D) (hs : PSInv s) :
    s.stateNone = .ok (Rows.state 0 s.abs) ∧ (Rows.state 0 s.abs).map (·.1) = Rows.live s.abs :=
  ⟨PS.stateNone_exact s hs, Rows.state_labels s.abs 0⟩

/-- **dead modes are rejected by the phase-space simulators**: a gate, a measurement or a deletion naming an
index that is not live raises -/
theorem reject_dead_gate (s : PS D) (hs : PSInv s) (k : Int) (ms : List Nat) (m : Nat) (hm : m ∈ ms)
    (hd : Rows.liveAt s.abs m = false) : ∃ e, s.gate k ms = .error e :=
  PS.gate_rejects s hs k ms ⟨m, hm, hd⟩

theorem reject_dead_measure (s : PS D) (hs : PSInv s) (ms : List Nat) (m : Nat) (hm : m ∈ ms)
    (hd : Rows.liveAt s.abs m = false) : ∃ e, s.measure ms = .error e :=
  PS.measure_rejects s hs ms ⟨m, hm, hd⟩

theorem reject_dead_del (s : PS D) (hs : PSInv s) (ms : List Nat) (m : Nat) (hm : m ∈ ms)
    (hd : Rows.liveAt s.abs m = false) : ∃ e, s.delMode ms = .error e :=
  PS.delMode_rejects ms s hs ⟨m, hm, hd⟩

/-- Fock `state(modes=None)`, **partial**: under the hypothesis that the number of tensor axes equals the number
of non-`None` map entries (preserved by `begin/add_mode/del_mode`; not yet proved for `del_mode`) the state has
one mode per axis, axis `j` labelled with the `j`-th live index.  Missing for the full `state_exact`: the
axis-count invariant and `axes[j]` = data of that index (scatter lemma over `deleteLoop`/`filterIdxFrom`). -/
theorem state_labels_fock_partial (s : Fock D) (h : s.axes.length = countSome s.mm.map) :
    s.stateNone = .ok (s.getModes.zip s.axes) :=
  Fock.stateNone_labels s h

/-- **hand-over between segments**: `Program(prev)` can always follow `prev` … -/
theorem can_follow_child (p : Prog) : p.child.canFollow p.regRefs = true := canFollow_child p

/-- … and a fresh `Program(n)` can follow exactly when no index was ever deleted and `n` were created -/
theorem can_follow_fresh (n : Nat) (q prev : Prog) (hq : Prog.fresh n = .ok q) (hp : ProgInv prev) :
    q.canFollow prev.regRefs = true ↔ (prev.regRefs.length = n ∧ prev.flags = List.replicate n true) :=
  canFollow_fresh prev hq hp

/-! ### known finding: the bosonic back end re-instantiates the simulator for every non-empty segment -/

/-- 3 modes, `Del q[1]` in the first segment, a displacement of `q[0]` in the second -/
def bosHist : List Ev :=
  [.use [.own 2] 3 [], .del [.own 1], .endProg, .use [.own 0] 1 [], .endProg]

/-- after the second segment the register is `[0, 2]` but the simulator reports modes `[0, 1]` (and has lost the
data of the first segment) -/
theorem bosonic_segment_counterexample :
    (match Sys.init (bosOps Int) 3 with
     | .ok s => let t := runHist (bosOps Int) s bosHist
                (t.prog.register, (bosOps Int).getModes t.be, (bosOps Int).stateNone t.be)
     | .error _ => ([], [], .ok []))
    = ([0, 2], [0, 1], .ok [(0, 1), (1, 0)]) := by decide +kernel

/-- bosonic, **partial** (first non-empty segment on a fresh or reset engine): `run_prog` on a circuit without
`New` behaves like the Gaussian main loop on a new simulator -/
theorem agree_bosonic_first_segment_partial (cs : List Cmd) (n : Nat) (s : PS D) (hne : cs ≠ [])
    (hnew : ∀ c ∈ cs, ∀ k, c.op ≠ .newModes k) :
    PS.bosRun n cs s = PS.bosLoop cs (PS.begin n) := by
  unfold PS.bosRun
  have : cs.isEmpty = false := by cases cs <;> simp_all
  simp only [this, Bool.false_eq_true, if_false]
  congr 1
  unfold PS.bosInit
  generalize (PS.begin n : PS D) = b
  clear this hne
  induction cs generalizing b with
  | nil => rfl
  | cons c cs ih =>
    simp only [List.foldl_cons]
    have hc := hnew c (by simp)
    cases hop : c.op with
    | newModes k => exact absurd hop (hc k)
    | delete => simp only []; exact ih (fun c' hc' => hnew c' (by simp [hc'])) b
    | gate k => simp only []; exact ih (fun c' hc' => hnew c' (by simp [hc'])) b
    | measure => simp only []; exact ih (fun c' hc' => hnew c' (by simp [hc'])) b

/-! ### non-vacuity -/

/-- a history with New as first command, New(2), a two-mode Del, rejected re-use of a deleted index, two
segments — accepted and rejected events both occur, the invariant's hypotheses hold at the start -/
def h1 : List Ev :=
  [.new 2, .use [.own 3] 2 [], .use [.own 0, .own 3] 0 [], .del [.own 1, .int 2], .use [.int 1] 1 [],
   .endProg, .new 1, .del [.own 0], .use [.own 4, .own 3] 0 [], .endProg]

example : (match Sys.init (gaussOps Int) 2 with
    | .ok s => let t := runHist (gaussOps Int) s h1
               (t.prog.register, PS.getModes t.be, PS.stateNone t.be, h1.all (fun e => !e.isReset))
    | .error _ => ([], [], .ok [], false))
    = ([3, 4], [3, 4], .ok [(3, 0), (4, 0)], true) := by decide +kernel

example : (match Sys.init (fockOps Int) 2 with
    | .ok s => let t := runHist (fockOps Int) s h1
               (t.prog.register, Fock.getModes t.be, Fock.stateNone t.be, t.be.mm.map)
    | .error _ => ([], [], .ok [], []))
    = ([3, 4], [3, 4], .ok [(3, 0), (4, 0)], [none, none, none, some 0, some 1]) := by decide +kernel

/-- `reject_dead`: index 1 is deleted, the selection `(q[0], 1)` is rejected; `reject_unknown_index` likewise -/
example : ∃ p : Prog, (Prog.fresh 3 >>= fun p => p.delOp [.own 1]) = .ok p ∧
    p.testRegrefs [.own 0, .int 1] = .error .regRef ∧ p.testRegrefs [.int 7] = .error .regRef ∧
    p.testRegrefs [.own 0, .own 2] = .ok [⟨0, true⟩, ⟨2, true⟩] := ⟨_, rfl, by decide, by decide, by decide⟩

/-- `modemap_inv` on a history with an invalid delete in between -/
example : ([MMCall.delete [1], .add 2, .delete [9], .delete [0, 3], .add 1].foldl mmStep (ModeMap.new 3)).map
    = [none, none, some 0, none, some 1, some 2] := by decide

/-- `agree_gaussian` / `state_exact_gaussian`: an accepted command sequence with a deletion in the middle; the
state labelled `q[2]` carries the data of index 2 (the defect fixed in the Gaussian back end) -/
example : Rows.run [⟨.gate 1, [0]⟩, ⟨.gate 2, [1]⟩, ⟨.gate 3, [2]⟩, ⟨.delete, [1]⟩, ⟨.newModes 2, [3, 4]⟩, ⟨.gate 0, [4, 0]⟩]
      (List.replicate 3 (some (0 : Int))) = some [some 0, none, some 3, some 0, some (-1)] ∧
    Rows.state 0 ([some 0, none, some 3, some 0, some (-1)] : Rows Int) = [(0, 0), (2, 3), (3, 0), (4, -1)] := by decide

/-- `reject_dead_gate`: after `Del q[1]` of 3 a gate on index 1 raises `ValueError`, on index 5 `IndexError` -/
example : ∃ s : PS Int, (PS.begin 3 : PS Int).delMode [1] = .ok s ∧ Rows.liveAt s.abs 1 = false ∧
    s.gate 1 [1] = .error .value ∧ s.gate 1 [5] = .error .index ∧ s.delMode [0, 1] = .error .value :=
  ⟨_, rfl, by decide, by decide, by decide, by decide⟩

/-- `can_follow_fresh`: after a deletion no fresh program can follow -/
example : ∃ p q : Prog, (Prog.fresh 2 >>= fun p => p.delOp [.own 0]) = .ok p ∧ Prog.fresh 2 = .ok q ∧
    q.canFollow p.regRefs = false ∧ p.child.canFollow p.regRefs = true := ⟨_, _, rfl, rfl, by decide, by decide⟩

end SFV.C08
