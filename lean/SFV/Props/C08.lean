import SFV.Proofs.Register
namespace SFV.C08
open SFV.Reg
/-- placeholder while the harness is brought up -/
theorem canFollow_refl (p : Prog) : p.child.canFollow p.regRefs = true := by
  simp [Prog.child, Prog.canFollow]
end SFV.C08
