import SFV.Proofs.Param
import SFV.Model.ParamDecomp

/-!
# C10 — symbolic parameters behave exactly like the values they stand for

Model: `SFV.Model.Param` (`par_evaluate`, `par_regref_deps`, `par_is_symbolic`, the `_eval_evalf`
methods, `Program.params` / `bind_params`, the decomposition templates and `Gate.decompose` /
`Gate.merge`, `Measurement.apply` and the hand-over of measured values in `BaseEngine._run`, after
the `fix:` commits listed in notes/C10.md).  All theorems hold for every value domain `V` with
arbitrary interpretations of `+ * - ** f(·) f(·,·)` (`ValOps V`), every expression, environment,
template, history and segmentation.
-/
namespace SFV.C10
open SFV.Param
variable {V : Type} [ValOps V]

/-! ### symbolic = substituted -/

/-- **evaluation commutes with substitution** (all expressions, all substitutions whose images
evaluate): evaluating the substituted expression is evaluating the original one with the
substituted atoms bound to the values of their images -/
theorem eval_subst (env ρ : Env V) (σ : Subst) (h : Pulls env ρ σ) (e : Expr) :
    eval env (subst σ e) = eval ρ e :=
  eval_subst_gen env ρ σ h e

/-- … in particular for the numeric substitution that turns a template into the "substituted
program": no hypothesis left -/
theorem eval_subst_num (env : Env V) (bf : String → Option Rat) (bm : Nat → Option Rat) (e : Expr) :
    eval env (subst (numSubst bf bm) e) = eval (env.override bf bm) e :=
  eval_subst_gen env _ _ (pulls_numSubst env bf bm) e

/-- … and for whole operation parameters (numbers, symbolic scalars, arrays) as `par_evaluate`
treats them -/
theorem par_evaluate_subst (env : Env V) (bf : String → Option Rat) (bm : Nat → Option Rat) (p : Param) :
    (p.subst (numSubst bf bm)).eval env = p.eval (env.override bf bm) :=
  param_eval_subst env _ _ (pulls_numSubst env bf bm) p

/-- **`dtype`**: `par_evaluate(p, dtype)` casts the values of the atoms, not the constants of the
expression — for the substituted parameter: -/
theorem par_evaluate_dtype_subst (cast : V → V) (env : Env V) (bf : String → Option Rat) (bm : Nat → Option Rat)
    (p : Param) :
    (p.subst (numSubst bf bm)).evalCast cast env = p.eval ((env.cast cast).override bf bm) :=
  param_eval_subst _ _ _ (pulls_numSubst (env.cast cast) bf bm) p

/-- … so symbolic and substituted agree under a `dtype` whenever the substituted numbers are
representable in it (`cast` leaves them alone) -/
theorem par_evaluate_dtype_commutes (cast : V → V) (env : Env V) (bf : String → Option Rat) (bm : Nat → Option Rat)
    (hc : ∀ q : Rat, cast (ValOps.ofRat q) = ValOps.ofRat q) (p : Param) :
    (p.subst (numSubst bf bm)).evalCast cast env = p.evalCast cast (env.override bf bm) := by
  rw [par_evaluate_dtype_subst]
  unfold Param.evalCast
  congr 1
  unfold Env.cast Env.override
  congr 1
  · funext n; cases h : bf n <;> simp [h, hc]
  · funext m; cases h : bm m <;> simp [h, hc]

/-- **`par_convert`**: the converted argument has the value of the Blackbird expression in which
`q<i>` stands for the outcome of subsystem `i` — for every number of digits of `i` — and any other
symbol for the free parameter of that name; it fails exactly when that one fails -/
theorem par_convert_eval (env : Env V) (e e' : Expr) (h : convert e = some e') :
    (eval env e').toOption = (eval env.blackbird e).toOption :=
  eval_convert env e e' h

/-- **`par_regref_deps` is sound**: the value of a parameter depends on the measured subsystems
only through the subsystems `par_regref_deps` reports -/
theorem deps_sound (env₁ env₂ : Env V) (p : Param) (hf : env₁.free = env₂.free)
    (hm : ∀ m ∈ p.deps, env₁.meas m = env₂.meas m) : p.eval env₁ = p.eval env₂ :=
  param_eval_congr env₁ env₂ p hm hf

/-- a parameter that `par_is_symbolic` calls non-symbolic evaluates without looking at any binding
or measurement, and never raises -/
theorem nonsymbolic_constant (env₁ env₂ : Env V) (p : Param) (h : p.isSymbolic = false) :
    p.eval env₁ = p.eval env₂ ∧ ∃ v, p.eval env₁ = .ok v :=
  param_nonsymbolic env₁ env₂ p h

/-- **unbound / unmeasured atoms raise**: evaluation succeeds iff every free atom is bound (or has
a default) and every measured atom has been measured … -/
theorem unbound_errors (env : Env V) (e : Expr) :
    (∃ v, eval env e = .ok v) ↔
      (∀ n ∈ freeAtoms e, (env.free n).isSome) ∧ (∀ m ∈ measAtoms e, (env.meas m).isSome) :=
  eval_ok_iff env e

/-- … and the `ParameterError` names an atom of the expression that has no value (nothing is
defaulted silently) -/
theorem error_names_atom (env : Env V) (e : Expr) (err : PErr) (h : eval env e = .error err) :
    (∃ n ∈ freeAtoms e, env.free n = none ∧ err = .unbound n) ∨
    (∃ m ∈ measAtoms e, env.meas m = none ∧ err = .unmeasured m) :=
  eval_error env e err h

/-- **decomposition is a homomorphism**, for every template built from expression constructors
(in particular the ten that `harness/gen/gen_templates.py` extracts from `ops.py` into `template`), every parameter list and inverse flag: decomposing the
symbolic gate and evaluating the result is the same as evaluating the gate's parameters first and
decomposing numerically (classes, positions, inverse flags and evaluated parameters agree) -/
theorem decompose_eval (env : Env V) (t : List TCmd) (ps : List Expr) (vs : List V) (d : Bool)
    (h : ps.mapM (eval env) = .ok vs) :
    (decomposeWith t ps d).map (TCmd.sem env) = (orient t d).map (TCmd.sem (holeEnv env vs)) := by
  have hp := pulls_holeEnv env ps vs h
  have key : (t.map (TCmd.inst (holeSubst ps))).map (TCmd.sem env) = t.map (TCmd.sem (holeEnv env vs)) := by
    rw [List.map_map]
    apply List.map_congr_left
    intro c _
    exact sem_inst env _ _ hp c
  rw [decomposeWith, sem_orient, sem_orient, key]

/-- **compilation by decomposition commutes with substitution** (syntactically): for every table of
templates that mentions no measured parameter, every substitution that leaves the table's own holes
and constants alone, every compiler (`dec` = its `decompositions`), every recursion depth and every
circuit: decomposing the substituted circuit gives the substituted decomposition -/
theorem compile_subst (tbl : List (String × List TCmd)) (dec : String → Bool) (σ : Subst)
    (hc : closedTable tbl = true) (ha : ∀ n ∈ tableAtoms tbl, σ.free n = none) (fuel : Nat) (cs : List PCmd) :
    expand tbl dec fuel (cs.map (PCmd.subst σ)) = (expand tbl dec fuel cs).map (PCmd.subst σ) :=
  expand_subst tbl dec σ (tblOK_of tbl σ hc ha) fuel cs

/-- **symbolic = substituted through `Compiler.decompose`**, for the table generated from `ops.py`:
the commands the backend sees (class, subsystems, inverse flag, evaluated parameters) after
recursively decomposing the program with the numbers substituted are those of the decomposed
symbolic program evaluated where the atoms have these values — for every compiler, depth, circuit
and every binding that does not use the reserved names `#…` of the table -/
theorem compile_symbolic_eq_substituted (env : Env V) (dec : String → Bool) (bf : String → Option Rat)
    (bm : Nat → Option Rat) (hb : ∀ n ∈ tableAtoms templateTable, bf n = none) (fuel : Nat) (cs : List PCmd) :
    (expand templateTable dec fuel (cs.map (PCmd.subst (numSubst bf bm)))).map (PCmd.sem env) =
      (expand templateTable dec fuel cs).map (PCmd.sem (env.override bf bm)) := by
  have hc : closedTable templateTable = true := by decide +kernel
  have ha : ∀ n ∈ tableAtoms templateTable, (numSubst bf bm).free n = none := fun n hn => by
    simp [numSubst, hb n hn]
  rw [compile_subst templateTable dec _ hc ha, List.map_map]
  apply List.map_congr_left
  intro c _
  exact pcmd_sem_subst env _ _ (pulls_numSubst env bf bm) c

/-- **merging is a homomorphism**: the first parameter of the merged gate evaluates to the sum of
the evaluated first parameters (the second negated when the inverse flags differ) -/
theorem merge_eval (env : Env V) (a b : Expr) (da db : Bool) :
    eval env (mergeP0 a b da db) =
      (do let x ← eval env a; let y ← eval env b
          pure (ValOps.add x (if da == db then y else ValOps.neg y))) := by
  unfold mergeP0
  cases hd : (da == db) <;> cases ha : eval env a <;> cases hb : eval env b <;>
    simp [eval, ha, hb, bind, Except.bind, pure, Except.pure]

/-! ### measured parameters over histories -/

/-- **segmentation is invisible**: running any list of program segments on a fresh engine —
whatever the later Programs' RegRefs held before (`own` of the later segments) — applies the
operations with the same parameter values, and raises the same error at the same place, as running
the concatenated commands as one program in the register of the first Program -/
theorem segments_invisible (free : String → Option V) (own : Regs V) (cmds : List (Cmd V))
    (rest : List (Regs V × List (Cmd V))) :
    runSegs free {} ((own, cmds) :: rest) = runCmds free own (((own, cmds) :: rest).flatMap (·.2)) :=
  runSegs_fresh free own cmds rest

/- Full statement wanted (**latest outcome**): for EVERY list of segments `segs` that ran without
   error on a fresh engine, an operation whose parameter is the measured parameter of subsystem `m`,
   placed in a further segment, is applied with the most recent outcome of `m` itself and raises
   `ParameterError` iff `m` has never been measured:

     (runSegs free {} segs).fin = .ok r →
     runSegs free {} (segs ++ [(own', [.use (.meas m)])]) =
       match lastOutcome m (segs.flatMap (·.2)) with
       | some v => ⟨(runSegs free {} segs).trace ++ [v], .ok r⟩
       | none => ⟨(runSegs free {} segs).trace, .error (.unmeasured m)⟩

   It is FALSE for the code when the RegRefs of the FIRST Program of the computation still hold
   values (known finding `…-last-segment-on-fresh-engine`: an existing test relies on values put
   into the RegRefs by hand before the run, so the engine cannot clear them).  Proved under exactly
   that hypothesis; the RegRefs of all later Programs are arbitrary. -/

/-- **latest outcome** (first Program's RegRefs clear) -/
theorem latest_outcome_partial (free : String → Option V) (cmds : List (Cmd V))
    (rest : List (Regs V × List (Cmd V))) (own' r : Regs V) (m : Nat)
    (h : (runSegs free {} ((Regs.empty, cmds) :: rest)).fin = .ok r) :
    runSegs free {} (((Regs.empty, cmds) :: rest) ++ [(own', [.use (.meas m)])]) =
      (match lastOutcome m (((Regs.empty, cmds) :: rest).flatMap (·.2)) with
       | some v => ⟨(runSegs free {} ((Regs.empty, cmds) :: rest)).trace ++ [v], .ok r⟩
       | none => ⟨(runSegs free {} ((Regs.empty, cmds) :: rest)).trace, .error (.unmeasured m)⟩) := by
  rw [runSegs_fresh] at h ⊢
  rw [List.cons_append, runSegs_fresh, ← List.cons_append, List.flatMap_append, runCmds_append, h]
  have hr := runCmds_fin free Regs.empty r _ h m
  simp only [List.flatMap_cons, List.flatMap_nil, List.append_nil, runCmds, eval]
  cases hl : lastOutcome m (cmds ++ rest.flatMap (·.2)) with
  | some v => simp [List.flatMap_cons, hl] at hr; simp [hr]
  | none => simp [List.flatMap_cons, hl, Regs.empty] at hr; simp [hr]

/-- a Program whose RegRef 1 still holds 7 from an earlier computation, run first on a fresh
engine: subsystem 1 is never measured, yet the operation is applied with 7 -/
theorem latest_outcome_counterexample :
    (runSegs (fun _ => none) {} [((fun k => if k = 1 then some (7 : Rat) else none), [.use (.meas 1)])]).trace = [7] ∧
    lastOutcome 1 ([.use (.meas 1)] : List (Cmd Rat)) = none := by
  decide +kernel

/-- **`run([a…, b…])` is `run(a…)` followed by `run(b…)`**: same applied values, same error, same
engine afterwards -/
theorem calls_compose (free : String → Option V) (e : Eng V) (a b : List (Regs V × List (Cmd V))) (r : Regs V)
    (h : (runCall free e a).1.fin = .ok r) :
    runCall free e (a ++ b) =
      (⟨(runCall free e a).1.trace ++ (runCall free (runCall free e a).2 b).1.trace,
        (runCall free (runCall free e a).2 b).1.fin⟩, (runCall free (runCall free e a).2 b).2) := by
  rw [runCall_append, h]

/-- **a failed segment is rolled back**: when the segments `a` run and the next one raises, the
call reports the values applied so far and the error, and the engine is exactly what it was after
`a` — whatever follows in the list is not run, and a later call continues from there -/
theorem failed_segment_rolled_back (free : String → Option V) (e : Eng V) (a b : List (Regs V × List (Cmd V)))
    (own r : Regs V) (cmds : List (Cmd V)) (err : PErr) (h : (runCall free e a).1.fin = .ok r)
    (hs : (runSeg free (runCall free e a).2 own cmds).1.fin = .error err) :
    runCall free e (a ++ (own, cmds) :: b) =
      (⟨(runCall free e a).1.trace ++ (runSeg free (runCall free e a).2 own cmds).1.trace, .error err⟩,
       (runCall free e a).2) := by
  rw [runCall_append, h]
  simp only [runCall, hs]

/-- a call reports what `runSegs` computes, so the theorems above speak about every call of a session -/
theorem call_is_runSegs (free : String → Option V) (e : Eng V) (segs : List (Regs V × List (Cmd V))) :
    (runCall free e segs).1 = runSegs free e segs :=
  runCall_fst free e segs

/-- `eng.reset()` starts a new computation: what follows does not depend on anything before -/
theorem reset_forgets (free : String → Option V) (e : Eng V) (evs : List (Ev V)) :
    runEvents free e (.reset :: evs) = runEvents free {} evs := rfl

/-- the same inside one program: the register after an error-free run holds the most recent outcome
of every subsystem, and nothing for a subsystem never measured -/
theorem register_latest (free : String → Option V) (cs : List (Cmd V)) (r : Regs V) (m : Nat)
    (h : (runCmds free Regs.empty cs).fin = .ok r) : r m = lastOutcome m cs := by
  have := runCmds_fin free Regs.empty r cs h m
  cases hl : lastOutcome m cs <;> simp [hl, Regs.empty] at this <;> simp [this]

/-! ### free parameters -/

/-- **binding**: after `bind_params` with names the Program owns, every parameter evaluates to its
last bound value, the others keep what they had; no error -/
theorem bind_then_lookup (t : FreeTab V) (p : ProgFree) (bs : List (String × V))
    (h : ∀ b ∈ bs, p.owned.contains b.1 = true) (n : String) :
    (bindParams t p bs).2 = none ∧
    (bindParams t p bs).1.lookup n = (match lastBinding n bs with | some v => some v | none => t.lookup n) :=
  bindParams_owned t p bs h n

/-- **unknown parameters raise**: the first name the Program does not own raises a parameter error -/
theorem bind_unknown_errors (t : FreeTab V) (p : ProgFree) (pre post : List (String × V)) (k : String)
    (v : V) (hpre : ∀ b ∈ pre, p.owned.contains b.1 = true) (hk : p.owned.contains k = false) :
    (bindParams t p (pre ++ (k, v) :: post)).2 = some (.unknown k) :=
  bindParams_unknown t p pre k v post hpre hk

/- Full statement wanted (free parameters belong to ONE Program):
     ∀ t p₁ p₂ n k, (params t p₂ n) = .ok (t', p₂') → t'.lookup k = t.lookup k
   i.e. creating or binding a parameter in another Program never changes what this Program's
   parameters evaluate to.  It is FALSE for the code (known finding `free-parameter-shared-by-name`):
   SymPy hands out one cached `FreeParameter` per name and `__init__` resets it.  Proved part: -/

/-- creating a parameter in any Program leaves every *differently named* parameter alone -/
theorem params_isolated_partial (t t' : FreeTab V) (p p' : ProgFree) (n k : String) (hk : k ≠ n)
    (h : params t p n = .ok (t', p')) : t'.lookup k = t.lookup k := by
  unfold params at h
  split at h
  · cases h; rfl
  · split at h
    · cases h
    · cases h; exact FreeTab.lookup_set_other _ _ _ _ hk

/-- the shared table after Program 1 (owning `a`) bound `a = 3/10` -/
def cxT1 : FreeTab Rat := (bindParams (FreeTab.empty.set "a" {}) { owned := ["a"] } [("a", (3 / 10 : Rat))]).1

/-- … but an equally named parameter of another Program is the same object: Program 1 binds
`a = 3/10`, Program 2 merely asks for its own `a`, and Program 1's `a` is unbound again -/
theorem params_isolated_counterexample :
    cxT1.lookup "a" = some (3 / 10) ∧
    (params cxT1 ({} : ProgFree) "a").toOption.map (fun r => r.1.lookup "a") = some none := by
  decide +kernel

/-! ### non-vacuity -/

/-- `0.5 * q1 + sign(a) ** 2`, an environment where `q1 = 3/2`, `a = -2` -/
def ex : Expr := .add (.mul (.num (1 / 2)) (.meas 1)) (.pow (.fn1 "sign" (.free "a")) (.num 2))
def exEnv : Env Rat := ⟨fun n => if n = "a" then some (-2) else none, fun m => if m = 1 then some (3 / 2) else none⟩

example : eval exEnv ex = .ok (7 / 4) := by decide +kernel
-- substitution by numbers, evaluated where nothing is bound
example : eval (⟨fun _ => none, fun _ => none⟩ : Env Rat)
    (subst (numSubst (fun n => if n = "a" then some (-2) else none) (fun m => if m = 1 then some (3 / 2) else none)) ex)
    = .ok (7 / 4) := by decide +kernel
example : Pulls (⟨fun _ => none, fun _ => none⟩ : Env Rat) (Env.override ⟨fun _ => none, fun _ => none⟩ (fun n => if n = "a" then some (-2) else none) (fun _ => none))
    (numSubst (fun n => if n = "a" then some (-2) else none) (fun _ => none)) := pulls_numSubst _ _ _
-- unmeasured / unbound
example : eval (⟨exEnv.free, fun _ => none⟩ : Env Rat) ex = .error (.unmeasured 1) := by decide +kernel
example : eval (⟨fun _ => none, exEnv.meas⟩ : Env Rat) ex = .error (.unbound "a") := by decide +kernel
example : measAtoms ex = [1] ∧ freeAtoms ex = ["a"] := by decide
example : (Param.arr [.lit 1, .sym ex]).isSymbolic = true ∧ (Param.arr [.lit 1, .lit 2]).isSymbolic = false ∧
    (Param.arr [.lit 1, .sym ex]).deps = [1] := by decide
-- the CX template with a measured parameter, inverted: 4 commands, reversed, flags flipped
example : ((decompose "CXgate" [.mul (.num 2) (.meas 0)] true).map fun l => l.map fun c => (c.cls, c.regs, c.dagger))
    = some [("BSgate", [0, 1], true), ("Sgate", [1], true), ("Sgate", [0], true), ("BSgate", [0, 1], true)] := by
  decide +kernel
example : ([Expr.mul (.num 2) (.meas 1), .free "a"].mapM (eval exEnv)) = .ok [3, -2] := by decide +kernel
-- merging `D(q1)` with `D(a)†`
example : eval exEnv (mergeP0 (.meas 1) (.free "a") false true) = .ok (7 / 2) := by decide +kernel

example : classify "q10".toList = .meas 10 ∧ classify ['q', '1', '2', '3'] = .meas 123 ∧
    classify ['a', 'l', 'p', 'h', 'a'] = .free ∧ classify ['q', 'x'] = .bad := by decide +kernel
-- every index below 300, whatever its number of digits
example : ∀ m < 300, classify ('q' :: Nat.toDigits 10 m) = .meas m := by decide +kernel
-- CZ(2·q10) | (3, 11) inverted, through a compiler that decomposes CZ and CX: depth 2, 6 primitive commands
example : ((expand templateTable (fun c => c == "CZgate" || c == "CXgate") 3
    [⟨"CZgate", [.mul (.num 2) (.meas 10)], [3, 11], true⟩]).map fun c => (c.cls, c.regs, c.dagger))
    = [("Rgate", [11], true), ("BSgate", [3, 11], true), ("Sgate", [11], true), ("Sgate", [3], true),
       ("BSgate", [3, 11], true), ("Rgate", [11], true)] := by decide +kernel
example : tableAtoms templateTable ≠ [] ∧ (tableAtoms templateTable).all (fun n => n.toList.head? == some '#') = true := by
  decide +kernel
example : templateNames.all (fun n => (template n).isSome) = true ∧ templateNames.length = 10 := by decide +kernel
example : (Param.arr2 [[.lit 1, .sym ex], [.lit 2, .lit 3]]).isSymbolic = true ∧
    (Param.arr2 [[.lit 1, .sym ex], [.sym (.meas 11), .lit 3]]).deps = [1, 11] := by decide
-- a failed call in the middle of a session: the outcome 5 measured by the failing segment is not handed over
example : runEvents (fun _ => none) {}
    [.run [(Regs.empty, [.measure [10] [(3 : Rat)]])],
     .run [(Regs.empty, [.measure [10] [5], .use (.meas 2)])],
     .run [(Regs.empty, [.use (.meas 10)])], .reset, .run [(Regs.empty, [.use (.meas 10)])]]
    = [([], none), ([], some (.unmeasured 2)), ([3], none), ([], some (.unmeasured 10))] := by decide +kernel

/-- heterodyne outcome `3/10 + 4/10 i` of subsystem 10: `im(q10)`, `re(conjugate(q10) * I)`, `q10 * conjugate(q10)` -/
def cEnv : Env (Rat × Rat) := ⟨fun _ => none, fun m => if m = 10 then some (3 / 10, 4 / 10) else none⟩
example : eval cEnv (.fn1 "im" (.meas 10)) = .ok (4 / 10, 0) ∧
    eval cEnv (.fn1 "re" (.mul (.fn1 "conjugate" (.meas 10)) (.fn1 "I" (.num 1)))) = .ok (4 / 10, 0) ∧
    eval cEnv (.mul (.meas 10) (.fn1 "conjugate" (.meas 10))) = .ok (1 / 4, 0) := by decide +kernel
-- … and the substituted expression evaluates to the same (`eval_subst` at a complex value)
example : eval (⟨fun _ => none, fun _ => none⟩ : Env (Rat × Rat))
    (subst ⟨fun _ => none, fun m => if m = 10 then some (.add (.num (3 / 10)) (.mul (.num (4 / 10)) (.fn1 "I" (.num 1)))) else none⟩
      (.fn1 "im" (.meas 10))) = .ok (4 / 10, 0) := by decide +kernel

/-- a history over three segments: measure 0 and 2, re-prepare 0, use q0, re-measure 0, use q0+q2 -/
def hist : List (Regs Rat × List (Cmd Rat)) :=
  [ (Regs.empty, [.measure [0, 2] [1 / 2, 5], .prepare 0, .use (.meas 0)]),
    (fun _ => some 99, [.measure [0] [-3]]),
    (fun _ => some 7, [.use (.add (.meas 0) (.meas 2))]) ]

example : (runSegs (fun _ => none) {} hist).trace = [1 / 2, 2] := by decide +kernel
example : lastOutcome 0 (hist.flatMap (·.2)) = some (-3) ∧ lastOutcome 2 (hist.flatMap (·.2)) = some 5 ∧
    lastOutcome 1 (hist.flatMap (·.2)) = (none : Option Rat) := by decide +kernel
example : ∃ r, (runSegs (fun _ => none) {} hist).fin = .ok r := ⟨_, rfl⟩
-- subsystem 1 was never measured: the stale 99 / 7 in the later Programs' own RegRefs are not used
example : (runSegs (fun _ => none) {} (hist ++ [(fun _ => some 7, [.use (.meas 1)])])).err
    = some (.unmeasured 1) := by decide +kernel
example : (bindParams (FreeTab.empty : FreeTab Rat) { owned := ["a", "b"] } [("a", 1), ("b", 2), ("a", 3)]).1.lookup "a" = some 3 := by
  decide +kernel
example : (bindParams (FreeTab.empty : FreeTab Rat) { owned := ["a"] } [("a", 1), ("c", 2)]).2 = some (.unknown "c") := by
  decide +kernel

end SFV.C10
