import SFV.Proofs.Circuit
import SFV.Proofs.CompareGauss

/-!
# C04 — every internal circuit reordering respects mode and measurement dependencies

Statements about the model `SFV.Model.Circuit`; the correspondence check
(`harness/c04.py`) ties `listToGrid`/`dagEdges`/`groupSplit`/`gbsCollect` to
`strawberryfields.program_utils` and `compilers/gbs.py`, and validates every list the real
code returns with the executable checkers `isLinExt` / `isLegal` proved sound here.
-/
namespace SFV.C04

open SFV

/-- **list → grid → DAG → list, for every schedule.**  Whatever topological order of the wire DAG
the sorting routine returns, the result has exactly the commands of the input and keeps the
relative order of any two commands sharing a mode or linked by a measured parameter. -/
theorem dag_roundtrip_respects (l out : List Cmd) (hn : l.Nodup) (h : isLinExt l out = true) :
    out.Perm l ∧ ∀ a b, dep a b → Before l a b → Before out a b :=
  linExt_respects hn h

/-- such a reordering does not change the meaning of the circuit, for any interpretation of
commands in a monoid in which independent commands commute. -/
theorem dag_roundtrip_sem {M : Type} [Monoid M] (f : Cmd → M)
    (hcomm : ∀ a b, ¬ dep a b → f a * f b = f b * f a)
    (l out : List Cmd) (hn : l.Nodup) (h : isLinExt l out = true) : sem f out = sem f l :=
  legal_sem f hcomm (linExt_legal hn h)

/-- … in particular for the physical interpretation of Gaussian circuits: whatever schedule the sort returns, the reordered
circuit is the same Gaussian channel on first and second moments (`GaussSem.g18`: the documented channel of every Gaussian gate
class; independent commands commute there by `g18_comm`), for every circuit and every valuation of symbolic parameters -/
theorem dag_roundtrip_gaussian (θ : Nat → Rat) (l out : List Cmd) (hn : l.Nodup) (h : isLinExt l out = true) :
    sem (GaussSem.g18 θ) out = sem (GaussSem.g18 θ) l :=
  legal_sem (GaussSem.g18 θ) (GaussSem.g18_comm θ) (linExt_legal hn h)

/-- **certificate checker.**  A list accepted by `isLegal` has the same commands and keeps all
dependent pairs in order (used on every list the real code returns). -/
theorem isLegal_respects (l out : List Cmd) (hn : l.Nodup) (h : isLegal l out = true) :
    out.Perm l ∧ ∀ a b, dep a b → Before l a b → Before out a b :=
  legal_respects (isLegal_sound h) hn

/-- **group_operations.**  For every pair of sorts, `A ++ B ++ C` is a dependency-respecting
reordering, no marked operation is in `A` or `C`, all marked ones are in `B`, `B = [] → C = []`. -/
theorem group_partition (seq c1 c2 : List Cmd) (hn : seq.Nodup)
    (h1 : isLinExt seq c1 = true) (h2 : isLinExt (groupRest c1) c2 = true) :
    Respects seq ((groupSplit c1 c2).1 ++ (groupSplit c1 c2).2.1 ++ (groupSplit c1 c2).2.2) ∧
    (∀ c ∈ (groupSplit c1 c2).1, c.marked = false) ∧
    (∀ c ∈ (groupSplit c1 c2).2.2, c.marked = false) ∧
    ((groupSplit c1 c2).2.1 = [] → (groupSplit c1 c2).2.2 = []) ∧
    (∀ c ∈ seq, c.marked = true → c ∈ (groupSplit c1 c2).2.1) :=
  groupSplit_spec hn h1 h2

/-- **GBS measurement collection.**  If it does not raise, the circuit was `A ++ B` with `B` Fock
measurements only, and the output is `A` followed by one measurement of exactly the measured modes. -/
theorem gbs_collect (a b c out : List Cmd) (newId : Nat) (h : gbsCollect a b c newId = .ok out) :
    c = [] ∧ b ≠ [] ∧ (∀ x ∈ b, x.marked = true) ∧
    ∃ m : Cmd, out = a ++ [m] ∧ m.marked = true ∧ (∀ r, r ∈ m.regs ↔ ∃ x ∈ b, r ∈ x.regs) :=
  gbsCollect_spec h

/-! ### non-vacuity: a concrete circuit with a measured-parameter dependency -/

def ex : List Cmd :=
  [ { id := 0, cls := "Sgate", regs := [2] },
    { id := 1, cls := "MeasureX", regs := [0] },
    { id := 2, cls := "BSgate", regs := [2, 1] },
    { id := 3, cls := "Rgate", regs := [1], deps := [0] },
    { id := 4, cls := "MeasureFock", regs := [2], marked := true },
    { id := 5, cls := "MeasureFock", regs := [1], marked := true } ]

/-- a non-identity schedule: the homodyne measurement moved first, the two counters swapped -/
def exOut : List Cmd := [ex[1]!, ex[0]!, ex[2]!, ex[3]!, ex[5]!, ex[4]!]

example : ex.Nodup ∧ isLinExt ex exOut = true ∧ isLegal ex exOut = true ∧ exOut ≠ ex := by decide
/-- and an order violating the measured-parameter link is rejected by both checkers -/
example : isLinExt ex [ex[0]!, ex[2]!, ex[3]!, ex[1]!, ex[4]!, ex[5]!] = false ∧
    isLegal ex [ex[0]!, ex[2]!, ex[3]!, ex[1]!, ex[4]!, ex[5]!] = false := by decide
example : (groupSplit exOut (groupRest exOut)).2.1 = [ex[5]!, ex[4]!] ∧
    isLinExt (groupRest exOut) (groupRest exOut) = true := by decide
example : (gbsCollect (exOut.take 4) [ex[5]!, ex[4]!] [] 9).toOption.map
    (fun out => out.getLast?.map Cmd.regs) = some (some [1, 2]) := by decide

end SFV.C04
