import SFV.Model.Measure
import Mathlib.Tactic.Ring

namespace SFV.C06
open SFV.Meas

/-- Gaussian and (repaired) bosonic back end hand the same phase-space point to the conditional update -/
theorem heterodyne_select_agree {K : Type} [CommRing K] (re im : K) :
    bosonicHetVm re im = gaussHetVm re im := rfl

end SFV.C06
