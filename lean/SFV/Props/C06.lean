import SFV.Proofs.Measure
import SFV.Proofs.MeasureDiscrete
import SFV.Proofs.MeasureSample

/-!
# C06 — measurements sample the Born distribution and condition the rest correctly

Model: `SFV.Model.Measure` (transcription of the Gaussian / bosonic general-dyne code, the outcome
re-ordering of the Fock `measure_fock`, the front-end scalings and the engine's sample collation).

* `dyne_conditional` — the Gaussian simulator (`scovmat → chop → Schur → reassemble → fromscovmat`) and
  one component of the bosonic `post_select_generaldyne` are the *same* function of `(μ, V, outcome, W)`
  for every register size and every set/position of measured modes, and equal the Schur-complement
  specification written in the original row/column labels: measured block reset to vacuum with no
  correlations, every unmeasured entry in its own position.  `W = (C + σ)⁻¹` is an input; for one measured
  mode the explicit inverse satisfies the hypothesis (`inv2_is_inverse`).
* `dyne_rng_marginal` — what `measure_dyne` hands to the generator is the marginal of the measured
  quadratures plus the measurement noise.
* `heterodyne_select_agree`, `heterodyne_sample_select_inverse`, `hbar_select` — scalings of post-selection
  values and reported values are consistent across back ends and inverse to each other.
* `fock_outcome_order` — `outcome[j]` is the photon number of `modes[j]` for any order of `modes`;
  `fock_index_roundtrip` — flat index of the sampled distribution ↔ multi-index.
* `fock_born_rule`, `born_marginal`, `born_total`, `fock_probs_normalised` — the distribution `measure_fock` draws from is
  the Born distribution of the measured modes; it marginalises and sums to the trace.
* `rejection_envelope_dominates`, `rejection_accept_interval`, `rejection_accepted_density` — bosonic rejection sampler:
  the envelope dominates, the accept test accepts with probability target/envelope, accepted density ∝ target.
* `samples_dict_latest`, `samples_layout` — one row per shot, columns in ascending mode order, each column
  the latest outcome of its mode, for all measurement histories and shot counts.
* `threshold_weights`, `reweight_normalised` — bosonic weights after a click / a post-selection sum to one.
-/
namespace SFV.C06
open SFV.Meas SFV.Gauss SFV.Fock

/-! ### general-dyne conditioning -/

/-- **dyne_conditional.**  `h` is `1/2`, `st` any state of the Gaussian simulator satisfying its representation
invariant, `modes` any list of distinct modes of the register (any position, any order), `W` any symmetric
matrix (the inverse handed over by LAPACK), `vm` the outcome.  Then, entry by entry in the quadrature
picture, Gaussian back end = bosonic component = Schur-complement specification. -/
theorem dyne_conditional {K : Type} [CommRing K] (h : K) (hh : h + h = 1) (st : GS K) (hI : NMInv st)
    (modes : List Nat) (hnd : (expind modes).Nodup) (hlt : ∀ d ∈ expind modes, d < 2 * st.n)
    (W : Mat K) (hW : ∀ x y, W x y = W y x) (vm : Vec K) (a b : Nat) (ha : a < 2 * st.n) (hb : b < 2 * st.n) :
    scov (gaussPostSelect h st modes W vm) a b
        = (bosonicDyneComp (2 * st.n) (expind modes) (scov st) (smean st) W vm).cov a b ∧
      scov (gaussPostSelect h st modes W vm) a b = specCov (expind modes) (scov st) W a b ∧
      smean (gaussPostSelect h st modes W vm) a
        = (bosonicDyneComp (2 * st.n) (expind modes) (scov st) (smean st) W vm).mean a ∧
      smean (gaussPostSelect h st modes W vm) a = specMean (expind modes) (scov st) (smean st) W vm a := by
  have hsym := gaussDyneXP_cov_symm (2 * st.n) (expind modes) hnd hlt (scov st) (smean st) W vm
    (scov_symm st hI) hW
  have e1 : scov (gaussPostSelect h st modes W vm) a b
      = (gaussDyneXP (2 * st.n) (expind modes) (scov st) (smean st) W vm).cov a b := by
    unfold gaussPostSelect
    rw [scov_fromSmean]
    exact scov_fromScov h hh st _ hsym a b
  have e2 : smean (gaussPostSelect h st modes W vm) a
      = (gaussDyneXP (2 * st.n) (expind modes) (scov st) (smean st) W vm).mean a := by
    unfold gaussPostSelect
    exact smean_fromSmean h hh _ _ a
  refine ⟨?_, ?_, ?_, ?_⟩
  · rw [e1, bosonicDyneComp_cov _ _ hnd hlt _ _ _ _ a b ha hb]
  · rw [e1]; exact gaussDyneXP_cov _ _ hnd hlt _ _ _ _ a b ha hb
  · rw [e2]; rfl
  · rw [e2]; exact gaussDyneXP_mean _ _ hnd hlt _ _ _ _ a ha

/-- the same for the index algebra alone (any deleted index list, e.g. unsorted): both back ends' chop /
Schur / reassemble pipelines equal the specification in the original labels -/
theorem dyne_conditional_index_algebra {K : Type} [CommRing K] (tot : Nat) (del : List Nat) (hnd : del.Nodup)
    (hlt : ∀ d ∈ del, d < tot) (V : Mat K) (r : Vec K) (W : Mat K) (vm : Vec K) (a b : Nat)
    (ha : a < tot) (hb : b < tot) :
    (gaussDyneXP tot del V r W vm).cov a b = specCov del V W a b ∧
    (bosonicDyneComp tot del V r W vm).cov a b = specCov del V W a b ∧
    (gaussDyneXP tot del V r W vm).mean a = specMean del V r W vm a ∧
    (bosonicDyneComp tot del V r W vm).mean a = specMean del V r W vm a :=
  ⟨gaussDyneXP_cov tot del hnd hlt V r W vm a b ha hb,
   (bosonicDyneComp_cov tot del hnd hlt V r W vm a b ha hb).trans (gaussDyneXP_cov tot del hnd hlt V r W vm a b ha hb),
   gaussDyneXP_mean tot del hnd hlt V r W vm a ha,
   gaussDyneXP_mean tot del hnd hlt V r W vm a ha⟩

/-- **measured modes are reset to vacuum**: identity block, zero mean, no correlation with any other quadrature -/
theorem dyne_measured_reset {K : Type} [CommRing K] (del : List Nat) (V : Mat K) (r : Vec K) (W : Mat K)
    (vm : Vec K) (a b : Nat) (ha : a ∈ del) :
    specCov del V W a b = (if a = b then 1 else 0) ∧ specCov del V W b a = (if b = a then 1 else 0) ∧
      specMean del V r W vm a = 0 := by
  simp [specCov, specMean, ha]

/-- **unmeasured modes that are uncorrelated with the measured ones are untouched, in position** -/
theorem dyne_uncorrelated_untouched {K : Type} [CommRing K] (del : List Nat) (V : Mat K) (r : Vec K)
    (W : Mat K) (vm : Vec K) (a b : Nat) (ha : a ∉ del) (hb : b ∉ del) (h0 : ∀ x, V a (del.getD x 0) = 0) :
    specCov del V W a b = V a b ∧ specMean del V r W vm a = r a := by
  have z1 : ∀ y, (sumTo del.length fun x => V a (del.getD x 0) * W x y) = 0 := fun y => by
    simp only [h0, zero_mul, sumTo_zero]
  simp only [specCov, specMean, ha, hb, or_self, if_false, z1, zero_mul, sumTo_zero, sub_zero, add_zero, and_self]

/-- **dyne_rng_marginal.**  Mean and covariance handed to `multivariate_normal` by `measure_dyne(covmat, modes)`:
the marginal of the measured quadratures (labels `expind modes`) plus the measurement covariance -/
theorem dyne_rng_marginal {K : Type} [CommRing K] (st : GS K) (modes : List Nat) (σ : Mat K) (x y : Nat) :
    (gaussRngArgs st modes σ).mean x = smean st ((expind modes).getD x 0) ∧
    (gaussRngArgs st modes σ).cov x y
      = scov st ((expind modes).getD x 0) ((expind modes).getD y 0) + σ x y := ⟨rfl, rfl⟩

/-- for one measured mode the explicit inverse is a (symmetric) left inverse: the hypothesis on `W` is met -/
theorem inv2_is_inverse {K : Type} [Field K] (m : Mat K) (hdet : m 0 0 * m 1 1 - m 0 1 * m 1 0 ≠ 0)
    (hm : m 0 1 = m 1 0) (a b : Nat) (ha : a < 2) (hb : b < 2) :
    (sumTo 2 fun c => inv2 m a c * m c b) = (if a = b then 1 else 0) ∧ inv2 m a b = inv2 m b a :=
  ⟨inv2_left m hdet a b ha hb, inv2_symm m hm a b⟩

/-! ### scalings -/

/-- Gaussian back end and (repaired) bosonic back end post-select the same phase-space point for `select = α` -/
theorem heterodyne_select_agree {K : Type} [CommRing K] (re im : K) :
    bosonicHetVm re im = gaussHetVm re im := rfl

/-- the defect repaired by the `fix:` commit 521b66f: the bosonic back end passed `α` unscaled -/
theorem heterodyne_select_old_counterexample : bosonicHetVmOld (1 : Int) 0 ≠ gaussHetVm 1 0 := by decide

/-- the scaling applied to a sampled heterodyne outcome and the scaling of `select` are inverse on both back ends -/
theorem heterodyne_sample_select_inverse {K : Type} [CommRing K] (h : K) (hh : h + h = 1) (x p : K) :
    gaussHetVm (gaussHetReturned h x p).1 (gaussHetReturned h x p).2 = (x, p) ∧
    bosonicHetVm (bosonicHetReturned h x p).1 (bosonicHetReturned h x p).2 = (x, p) := by
  have e : ∀ z : K, (1 + 1) * (h * z) = z := fun z => by linear_combination z * hh
  simp [gaussHetVm, gaussHetReturned, bosonicHetVm, bosonicCircuitHetVals, bosonicHetReturned, e]

/-- **hbar_select.**  Front-end scaling of `select` and of the returned value are inverse to each other
(`s = sqrt(hbar/2)`, `t = sqrt(2·hbar_circuit)/2`, both non-zero) -/
theorem hbar_select {K : Type} [Field K] (s t : K) (hs : s ≠ 0) (ht : t ≠ 0) (x : K) :
    homodyneReturned s t (homodyneSelectToCircuit s t x) = x ∧
    homodyneSelectToCircuit s t (homodyneReturned s t x) = x := by
  unfold homodyneReturned homodyneSelectToCircuit
  constructor <;> field_simp

/-- **select_zero_postselects.**  Every supplied post-selection value — zero included — takes the post-selection branch -/
theorem select_zero_postselects {α : Type} (v : α) : postSelects (some v) = true ∧ postSelects (none : Option α) = false :=
  ⟨rfl, rfl⟩

/-- testing the value for truth instead (seeded C06-c2) sends `select = 0` to the sampling branch -/
theorem select_truthiness_counterexample : postSelectsTruthy (some (0 : Int)) ≠ postSelects (some (0 : Int)) := by decide

/-! ### photon counting on the Fock back end -/

/-- **fock_outcome_order.**  For every list `measure` of distinct modes of an `n`-mode register, in any order,
and every sampled flat index `i`: entry `j` of the reported outcome is the entry of the ascending-order
multi-index (`unIndex`, one entry per axis of the reduced density matrix) at the axis that belongs to
`measure[j]` — i.e. the photon number of `modes[j]`. -/
theorem fock_outcome_order (n : Nat) (measure : List Nat) (hnd : measure.Nodup) (hlt : ∀ m ∈ measure, m < n)
    (i D : Nat) (j : Nat) (hj : j < measure.length) :
    (fockOutcome measure i D)[j]?
      = some ((unIndex i measure.length D).getD (keptPos (unmeasured n measure) measure[j]) 0) := by
  unfold fockOutcome
  rw [scatter_argsort measure _ hnd (by simp [unIndex]) j hj,
    rank_eq_keptPos n measure hnd measure[j] (hlt _ (List.getElem_mem hj))]

/-- **fock_index_roundtrip.**  The flat position (`np.ravel`, C order) of every multi-index below the cutoff is
decoded by `unIndex` to that multi-index: entry `i` of the probability vector handed to `choice` is the diagonal
entry of the reduced density matrix at `unIndex i`, for every number of measured modes and every cutoff -/
theorem fock_index_roundtrip (D : Nat) (p : List Nat) (hp : ∀ v ∈ p, v < D) :
    unIndex (flatIndex D p) p.length D = p := unIndex_flatIndex D p hp

/-! ### what `measure_fock` samples from -/

/-- **fock_born_rule.**  Entry `i` of the distribution handed to `choice` (before normalisation) is the Born probability
that every measured mode `m` holds the photon number the decoded multi-index assigns to its axis — for every register
size, cutoff, density tensor and every order of distinct measured modes.  Together with `fock_outcome_order`
(`outcome[j]` = that number for `modes[j]`) this is "the outcome is drawn with its Born probability". -/
theorem fock_born_rule {K : Type} [AddCommMonoid K] (D n : Nat) (measure : List Nat) (hnd : measure.Nodup)
    (hlt : ∀ m ∈ measure, m < n) (ρ : Tens K) (i : Nat) (hi : i < D ^ measure.length) :
    (fockDist D n measure ρ)[i]? =
      some (bornProb D n ρ (measure.map fun m => (m, (unIndex i measure.length D).getD (rank measure m) 0))) := by
  unfold fockDist
  rw [List.getElem?_map, List.getElem?_range hi]
  simp only [Option.map_some]
  rw [reducedDiag_eq_bornProb D n measure hnd hlt ρ _ (by simp [unIndex])]

/-- **born_marginal.**  Summing the Born probability over the photon number of one further mode gives the Born
probability of the smaller selection (so every sub-selection of measured modes is sampled with its own marginal) -/
theorem born_marginal {K : Type} [AddCommMonoid K] (D n : Nat) (ρ : Tens K) (sel : List (Nat × Nat)) (m : Nat)
    (hm : m < n) (hnot : m ∉ sel.map (·.1)) :
    (sumTo D fun v => bornProb D n ρ ((m, v) :: sel)) = bornProb D n ρ sel := bornProb_marginal D n ρ sel m hm hnot

/-- **born_total.**  The empty selection has Born "probability" `tr ρ`; by `born_marginal`, summing over all outcomes
of any measured-mode list therefore gives the trace (the normalisation `dist / sum(dist)` divides by it) -/
theorem born_total {K : Type} [AddCommMonoid K] (D n : Nat) (ρ : Tens K) :
    bornProb D n ρ [] = traceOver D (List.range n) ρ (fun _ => 0) := bornProb_nil D n ρ

/-- the order in which the unmeasured modes are summed over is irrelevant -/
theorem born_sum_order {K : Type} [AddCommMonoid K] (D : Nat) {l1 l2 : List Nat} (h : l1.Perm l2) (ρ : Tens K)
    (idx : Idx) : traceOver D l1 ρ idx = traceOver D l2 ρ idx := traceOver_perm D h ρ idx

/-- **fock_dist_sums_to_trace.**  As a flat list: the entries of the vector `measure_fock` builds (before the division) sum to
`tr ρ` — for every register size, cutoff, density tensor and list of distinct measured modes in any order -/
theorem fock_dist_sums_to_trace {K : Type} [AddCommMonoid K] (D n : Nat) (measure : List Nat) (hnd : measure.Nodup)
    (hlt : ∀ m ∈ measure, m < n) (ρ : Tens K) :
    (fockDist D n measure ρ).sum = traceOver D (List.range n) ρ (fun _ => 0) := by
  rw [fockDist_sum D n measure.length measure rfl hnd hlt ρ, bornProb_nil]

/-- the probabilities handed to `choice` sum to one -/
theorem fock_probs_normalised {K : Type} [Field K] (D n : Nat) (measure : List Nat) (ρ : Tens K)
    (h : (fockDist D n measure ρ).sum ≠ 0) : (fockProbs D n measure ρ).sum = 1 := by
  unfold fockProbs
  simp only [← List.sum_eq_foldl]
  rw [sum_map_div, div_self h]

/-! ### Fock homodyne: grid and Hermite table -/

/-- **homodyne_grid.**  `linspace(-q, q, nb)`: first point `-q`, last point `q`, constant spacing `2q/(nb-1)` (the
normalisation `Δq = q[1] - q[0]` of the pdf relies on it), symmetric about 0 -/
theorem homodyne_grid {K : Type} [Field K] (q : K) (nb : Nat) (hnb : 1 ≤ nb) (h : (nb : K) - 1 ≠ 0) :
    linspacePt q nb 0 = -q ∧ linspacePt q nb (nb - 1) = q ∧
    (∀ k, linspacePt q nb (k + 1) - linspacePt q nb k = (q + q) / ((nb : K) - 1)) ∧
    (∀ k, k ≤ nb - 1 → linspacePt q nb (nb - 1 - k) = -linspacePt q nb k) :=
  ⟨linspace_first q nb, linspace_last q nb hnb h, linspace_step q nb, fun k hk => linspace_symm q nb k hk hnb h⟩

/-- **hermite_table.**  The table obeys the three-term recurrence of the physicists' Hermite polynomials for every
order, with `H₀ = 1`, `H₁ = 2x`, and has the parity `Hₙ(-x) = (-1)ⁿ Hₙ(x)` (mirror points of the grid) -/
theorem hermite_table {K : Type} [Field K] (x : K) (n : Nat) :
    hermiteAt x 0 = 1 ∧ hermiteAt x 1 = (1 + 1) * x ∧
    hermiteAt x (n + 2) = (1 + 1) * x * hermiteAt x (n + 1) - (1 + 1) * ((n : K) + 1) * hermiteAt x n ∧
    hermiteAt (-x) n = (-1) ^ n * hermiteAt x n :=
  ⟨rfl, rfl, rfl, hermiteAt_neg x n⟩

/-! ### Gaussian back end: arguments of the photon-counting / threshold samplers -/

/-- **gauss_discrete_args.**  `GaussianBackend.measure_fock` / `measure_threshold` hand to the thewalrus samplers exactly
the covariances and means of the quadratures `x_{modes[0]}, …, x_{modes[k-1]}, p_{modes[0]}, …, p_{modes[k-1]}` of the
state — for every size `st.n` of the simulator arrays (rows of deleted modes included: a register with holes), every list
of modes below it, in the order listed -/
theorem gauss_discrete_args {K : Type} [CommRing K] (st : GS K) (modes : List Nat) (hlt : ∀ m ∈ modes, m < st.n)
    (a b : Nat) (ha : a < 2 * modes.length) (hb : b < 2 * modes.length) :
    (gaussDiscreteArgs st modes).cov a b = (toXP st).cov (discreteLabel modes a) (discreteLabel modes b) ∧
    (gaussDiscreteArgs st modes).mean a = (toXP st).mean (discreteLabel modes a) :=
  gaussDiscreteArgs_spec st modes hlt a b ha hb

/-- the p-block offset must be the array size: with the number of *live* modes instead (2 of 3 after a deletion)
the p-quadrature of mode 2 is looked up at position 4 (`p_1`) instead of 5 (seeded change C06-b1) -/
theorem gauss_discrete_offset_counterexample : discreteIdxs 2 [2] ≠ discreteIdxs 3 [2] := by decide

/-! ### the bosonic rejection sampler (real weights and means) -/

/-- **rejection_envelope_dominates.**  At every point where the Gaussian factors are non-negative the upper-bounding
mixture (absolute weights of the non-negative peaks) is at least the target density -/
theorem rejection_envelope_dominates {K : Type} [Field K] [LinearOrder K] [IsStrictOrderedRing K]
    (peaks : List (Peak K)) (h : ∀ p ∈ peaks, 0 ≤ p.pref * p.e) : probDistVal peaks ≤ probUpbnd peaks :=
  envelope_dominates peaks h

/-- **rejection_accept_interval.**  The accept test `u·ub < p` holds exactly for `u < p/ub`; under domination
(`0 ≤ p ≤ ub`) this interval lies in `[0, 1]`, i.e. a uniform `u` is accepted with probability `p/ub` -/
theorem rejection_accept_interval {K : Type} [Field K] [LinearOrder K] [IsStrictOrderedRing K]
    (u : K) (peaks : List (Peak K)) (hub : 0 < probUpbnd peaks) (h0 : 0 ≤ probDistVal peaks)
    (h1 : probDistVal peaks ≤ probUpbnd peaks) :
    (accept u peaks = true ↔ u < probDistVal peaks / probUpbnd peaks) ∧
      0 ≤ probDistVal peaks / probUpbnd peaks ∧ probDistVal peaks / probUpbnd peaks ≤ 1 := by
  refine ⟨?_, accept_fraction_unit _ _ hub h0 h1⟩
  unfold accept
  rw [decide_eq_true_iff]
  exact accept_iff u _ _ hub

/-- **rejection_accepted_density.**  Proposal density (peak chosen with `ub_weights_prob = |w|/Z`, point drawn from the
peak) times acceptance probability equals `target / Z` with the same constant at every point: the accepted samples are
distributed as the (normalised) target -/
theorem rejection_accepted_density {K : Type} [Field K] [LinearOrder K] [IsStrictOrderedRing K]
    (peaks : List (Peak K)) (Z : K) (hub : probUpbnd peaks ≠ 0) :
    ((peaks.filter fun p => isUb p.w).map fun p => absK p.w / Z * (p.pref * p.e)).sum
        * (probDistVal peaks / probUpbnd peaks) = probDistVal peaks / Z := accepted_density peaks Z hub

/-- **rejection_complex_mean_exponent.**  For a peak with complex mean `μ_R + iμ_I` the real part of its exponent
`(x−μ)ᵀW(x−μ)` is `(x−μ_R)ᵀW(x−μ_R) − μ_IᵀWμ_I`, for every size and every `W`: the modulus of the peak is the real-mean
Gaussian times `exp(½ μ_IᵀWμ_I)` — exactly the `imag_prefactor` / `ub_exp_arg` replacement the sampler makes -/
theorem rejection_complex_mean_exponent {K : Type} [CommRing K] (W : Mat K) (d m : Vec K) (k : Nat) :
    (quadFormCx W d m k).re = quadForm W d k - quadForm W m k := quadFormCx_re W d m k

/-- without domination the statement fails: every `u ∈ [0,1)` is accepted although `p/ub > 1` -/
theorem rejection_not_dominated_counterexample {K : Type} [Field K] [LinearOrder K] [IsStrictOrderedRing K]
    (u p ub : K) (hu : u < 1) (h0 : 0 ≤ ub) (hp : ub < p) : u * ub < p := accept_not_dominated u p ub hu h0 hp

/-! ### engine: sample collation -/

/-- **samples_dict_latest.**  After any history `evs` followed by a measurement command on the distinct modes
`regs` with result `val` (`shots × len(regs)`): the latest array stored for `regs[j]` is column `j` of `val`;
the entries of all other modes are as before. -/
theorem samples_dict_latest {α : Type} [Inhabited α] (evs : List (List Nat × List (List α))) (regs : List Nat)
    (val : List (List α)) (hnd : regs.Nodup) :
    (∀ j (hj : j < regs.length),
        ((runSamples (evs ++ [(regs, val)])).lookup regs[j]).map (·.getLastD []) = some (column val j)) ∧
    (∀ k, k ∉ regs → (runSamples (evs ++ [(regs, val)])).lookup k = (runSamples evs).lookup k) := by
  have hstep : runSamples (evs ++ [(regs, val)]) = appendAll (runSamples evs) (regVals regs val) := by
    unfold runSamples
    rw [List.foldl_append]
    simp only [List.foldl_cons, List.foldl_nil]
    exact recordCmd_eq_appendAll _ _ _
  constructor
  · intro j hj
    rw [hstep, lookup_appendAll_mem (runSamples evs) (regVals regs val) (by rw [regVals_keys]; exact hnd)
      (regs[j], column val j) (mem_regVals regs val j hj)]
    simp
  · intro k hk
    rw [hstep]
    apply lookup_appendAll_not_mem
    intro p hp e
    apply hk
    have : p.1 ∈ (regVals regs val).map (·.1) := List.mem_map_of_mem hp
    rw [regVals_keys] at this
    exact e ▸ this

/-- **samples_layout.**  For every non-empty samples dictionary whose latest arrays all have `shots` entries:
the collated array has one row per shot; row `s` lists, for the columns `cols` = the (mode, latest array)
pairs sorted by mode, the `s`-th entry of each; `cols` is a rearrangement of the dictionary's entries and its
mode indices are strictly ascending (the dictionary built by the engine has distinct keys, `runSamples_keys`). -/
theorem samples_layout {α : Type} [Inhabited α] (d : SDict α) (hd : d ≠ []) (shots : Nat)
    (hcols : ∀ e ∈ d, (e.2.getLastD []).length = shots) (hkeys : (d.map (·.1)).Nodup) :
    let cols := sortByKey (d.map fun e => (e.1, e.2.getLastD []))
    (combineAndSort d).length = shots ∧
    (∀ s, s < shots → (combineAndSort d)[s]? = some (cols.map fun c => c.2.getD s default)) ∧
    cols.Perm (d.map fun e => (e.1, e.2.getLastD [])) ∧
    (cols.map (·.1)).Pairwise (· < ·) := by
  intro cols
  have hperm : cols.Perm (d.map fun e => (e.1, e.2.getLastD [])) := sortByKey_perm _
  have hne : cols ≠ [] := by
    intro h
    have := hperm.length_eq
    rw [h] at this
    simp at this
    exact hd (List.length_eq_zero_iff.mp this.symm)
  have hlen : ∀ c ∈ cols, c.2.length = shots := by
    intro c hc
    obtain ⟨e, he, rfl⟩ := List.mem_map.mp (hperm.mem_iff.mp hc)
    exact hcols e he
  have hstrict : (cols.map (·.1)).Pairwise (· < ·) := by
    apply sortByKey_strict
    rw [List.map_map]
    exact hkeys
  obtain ⟨c, cs, hcs⟩ := List.exists_cons_of_ne_nil hne
  have hc : c.2.length = shots := hlen c (by rw [hcs]; exact List.mem_cons_self)
  have hcomb : combineAndSort d = transposeCols (c.2 :: cs.map (·.2)) := by
    show transposeCols (cols.map (·.2)) = _
    rw [hcs]; rfl
  refine ⟨?_, ?_, hperm, hstrict⟩
  · rw [hcomb, transposeCols_length, hc]
  · intro s hs
    rw [hcomb, transposeCols_row _ _ s (by omega), hcs]
    simp [List.map_map, Function.comp]

/-- the dictionary the engine builds has one entry per measured mode -/
theorem runSamples_keys {α : Type} [Inhabited α] (evs : List (List Nat × List (List α))) :
    ((runSamples evs).map (·.1)).Nodup := runSamples_keys_nodup evs

/-! ### bosonic weights -/

/-- **threshold_weights.**  After a click the new weights `w/(1−p₀) ++ w·rw·c/(p₀−1)` sum to one whenever the
old ones do and `p₀ = c·Σ wᵢ rwᵢ` is the vacuum probability the code computed (`p₀ ≠ 1`) -/
theorem threshold_weights {K : Type} [Field K] (w rw : List K) (c p0 : K) (hw : w.sum = 1)
    (hp0 : p0 = c * (List.zipWith (· * ·) w rw).sum) (hp : 1 - p0 ≠ 0) :
    (thresholdClickWeights w rw c p0).sum = 1 := by
  rw [thresholdClickWeights_sum, hw, ← hp0, div_self hp]

/-- post-selection re-weighting leaves normalised weights -/
theorem reweight_normalised {K : Type} [Field K] (w rw : List K) (h : (List.zipWith (· * ·) w rw).sum ≠ 0) :
    (reweight w rw).sum = 1 := reweight_sum w rw h

/-! ### non-vacuity: concrete, non-trivial instances of the hypotheses -/

/-- a displaced, squeezed, correlated 3-mode state satisfying the invariant; mode 1 (middle position) measured -/
def exState : GS Rat :=
  { n := 3
    N := fun i j => if i = j then ⟨1, 0⟩ else if (i = 0 ∧ j = 1) then ⟨1/4, 1/8⟩ else if (i = 1 ∧ j = 0) then ⟨1/4, -1/8⟩ else 0
    M := fun i j => if (i = 1 ∧ j = 2) ∨ (i = 2 ∧ j = 1) then ⟨1/8, 1/4⟩ else 0
    mean := fun i => ⟨1/2, (i : Rat)⟩ }

example : NMInv exState := by
  refine ⟨fun i j => ?_, fun i j => ?_, fun i => ?_⟩
  · simp only [exState]; split_ifs <;> first | rfl | omega | (apply Cx.ext' <;> simp [Cx.conj] <;> norm_num)
  · simp only [exState]; split_ifs <;> first | rfl | omega
  · simp only [exState]; split_ifs <;> rfl
example : (expind [1]).Nodup ∧ (∀ d ∈ expind [1], d < 2 * exState.n) ∧ ((1 : Rat) / 2 + 1 / 2 = 1) := by
  refine ⟨by decide, by decide, by norm_num⟩
/-- the model computes something non-trivial there: the conditional mean of mode 0 moves -/
example : smean (gaussPostSelect (1/2) exState [1] (inv2 (addM (chopC (scov exState) (expind [1])) heterodyneCov))
    (fun a => if a = 0 then 1 else 0)) 0 ≠ smean exState 0 := by decide +kernel
/-- unsorted deleted index list, measured quadratures not adjacent -/
example : ([5, 0] : List Nat).Nodup ∧ ∀ d ∈ ([5, 0] : List Nat), d < 6 := by decide
example : (2 : Rat) * 3 - 1 * 1 ≠ 0 := by norm_num
/-- a 3-cycle of the modes (not an involution), register of 4 modes; the axis of mode 3 in the reduced state is 2 -/
example : ([3, 0, 1] : List Nat).Nodup ∧ (∀ m ∈ ([3, 0, 1] : List Nat), m < 4) ∧ unIndex 5 3 3 = [0, 1, 2] ∧
    keptPos (unmeasured 4 [3, 0, 1]) 3 = 2 ∧ keptPos (unmeasured 4 [3, 0, 1]) 0 = 0 := by decide
example : (∀ v ∈ ([2, 0, 3] : List Nat), v < 4) ∧ flatIndex 4 [2, 0, 3] = 35 := by decide
/-- a 3-mode "density tensor" with non-trivial diagonal, modes (2, 0) measured in descending order: the distribution is
not constant and sums to the trace -/
example : fockDist 2 3 [2, 0] (fun idx => if idx 0 = idx 1 ∧ idx 2 = idx 3 ∧ idx 4 = idx 5 then (idx 0 + 2 * idx 2 + 4 * idx 4 + 1 : Int) else 0)
    = [4, 12, 6, 14] ∧ (5 : Nat) < 2 ^ 3 := by decide
example : (1 : Nat) ≤ 5 ∧ ((5 : Nat) : Rat) - 1 ≠ 0 ∧ hermiteAt (3 / 2 : Rat) 3 = 9 ∧ linspacePt (2 : Rat) 5 1 = -1 := by
  refine ⟨by decide, by norm_num, by norm_num [hermiteAt], by norm_num [linspacePt]⟩
/-- array of 4 rows (mode 1 deleted, its row kept), modes (3, 0) measured in descending order -/
example : (∀ m ∈ ([3, 0] : List Nat), m < 4) ∧ discreteIdxs 4 [3, 0] = [3, 0, 7, 4] := by decide
/-- a mixture with a negative-weight peak: envelope 5/8 ≥ target 1/2, accepted at u = 1/2, rejected at u = 9/10 -/
example : let pk : List (Peak Rat) := [⟨3/4, 1/2, 1⟩, ⟨-1/4, 1/2, 1⟩, ⟨1/2, 1/2, 1⟩]
    (∀ p ∈ pk, 0 ≤ p.pref * p.e) ∧ probDistVal pk = 1/2 ∧ probUpbnd pk = 5/8 ∧ accept (1/2) pk = true ∧
      accept (9/10) pk = false ∧ ubIndices [3/4, -1/4, (1/2 : Rat)] = [0, 2] := by
  decide +kernel
/-- two commands, the second re-measures mode 3 and measures in descending order; 2 shots -/
example : combineAndSort (runSamples [([3, 1], [[30, 10], [31, 11]]), ([4, 3], [[40, 33], [41, 34]])])
    = [[10, 33, 40], [11, 34, 41]] := by decide
example : (([1/2, 1/2] : List Rat).sum = 1) ∧ (1 : Rat) - (2 * (List.zipWith (· * ·) [1/2, 1/2] [1/4, 1/8]).sum) ≠ 0 := by
  constructor <;> norm_num
example : (2 : Rat) ≠ 0 ∧ (1 : Rat) / 2 ≠ 0 := by constructor <;> norm_num

end SFV.C06
