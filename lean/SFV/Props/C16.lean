import SFV.Proofs.StatesFock
import SFV.Proofs.StatesGauss
import SFV.Proofs.StatesFock2
import SFV.Proofs.StatesGauss2
import SFV.Proofs.StatesGauss3
import SFV.Proofs.StatesGauss4

/-!
# C16 — the observables of a state object are consistent and answer for exactly the requested modes

Model: `SFV.Model.States` (transcribed from `backends/states.py`, `state(modes)` of the three NumPy back ends and
`utils/post_processing.py`; tied to the code by the exact correspondence of `harness/props/c16.py`).

* subset / order handling — `reduced_dm_subset`, `reduced_dm_raises`, `state_modes_order`, `state_modes_raises` (Fock: the
  result is the reduced state of exactly `modes`, output axes `2a, 2a+1` belong to `modes[a]`, for every duplicate-free
  in-range list in any order; every other list is rejected), `reduced_gaussian_subset`, `reduced_gaussian_raises`,
  `gaussian_state_modes_order`, `reduced_bosonic_subset`, `bosonic_state_modes_sorted`, `bosonic_selection_is_interleaved`,
  `bosonic_walrus_order`;
* polynomial consistency identities — `diagonal_expectation_sum` (number / parity expectation `= Σ_n (Π values n_m) p(n)`
  with `p = all_fock_probs()`), `parity_is_alternating_sum`, `mean_photon_is_number_expectation`,
  `mean_photon_gaussian_local`, `mean_photon_gaussian_NM` (`⟨n_k⟩ = N_kk + |α_k|²` in the simulator's picture),
  `quad_expectation_rotated`, `gaussian_parity_reduced`, `fidelity_vacuum_is_coherent_zero`, `samples_expectation_order`.

All statements quantify over every cutoff, mode count, mode list, tensor / covariance and scalar ring.
-/
namespace SFV.C16
open SFV.States SFV.Fock SFV.Gauss

/-! ## Fock: `reduced_dm(modes)` and `FockBackend.state(modes)` -/

/-- **`BaseFockState.reduced_dm(modes)`** on an ascending in-range list is the reduced state of exactly these modes -/
theorem reduced_dm_subset {K : Type} [Zero K] [Add K] (D n : Nat) (modes : List Nat) (ρ : Tens K) (hρ : RankLe (2 * n) ρ)
    (hs : modes.Pairwise (· < ·)) (hr : ∀ m ∈ modes, m < n) :
    ∃ T, fockReducedDm D n modes ρ = .ok (modes.length, T) ∧ ∀ idx, T idx = reducedSpec D n modes ρ idx :=
  fockReducedDm_subset D n modes ρ hρ hs hr

/-- … and it raises `ValueError` on every other list (unsorted, duplicated, out of range) -/
theorem reduced_dm_raises {K : Type} [Zero K] [Add K] (D n : Nat) (modes : List Nat) (ρ : Tens K)
    (h : ¬ (modes.Pairwise (· < ·) ∧ ∀ m ∈ modes, m < n)) :
    fockReducedDm D n modes ρ = .error .valueError :=
  fockReducedDm_raises D n modes ρ h

/-- **`FockBackend.state(modes)`**: for every duplicate-free in-range list, *in any order*, the state object carries the
reduced density matrix with the axes of `modes[a]` at position `a`, and is flagged mixed -/
theorem state_modes_order {K : Type} [Zero K] [Add K] [Mul K] (cj : K → K) (D n : Nat) (pure : Bool) (modes : List Nat)
    (st : Tens K) (hd : modes.Nodup) (hr : ∀ m ∈ modes, m < n) :
    ∃ T, fockBackendState cj D n pure (some modes) st = .ok (false, modes.length, T) ∧
      ∀ idx, T idx = reducedSpec D n modes (if pure then mix cj st else st) idx :=
  fockBackendState_order cj D n pure modes st hd hr

/-- … and it raises `ValueError` on duplicated or out-of-range lists -/
theorem state_modes_raises {K : Type} [Zero K] [Add K] [Mul K] (cj : K → K) (D n : Nat) (pure : Bool) (modes : List Nat)
    (st : Tens K) (h : ¬ (modes.Nodup ∧ ∀ m ∈ modes, m < n)) :
    fockBackendState cj D n pure (some modes) st = .error .valueError :=
  fockBackendState_raises cj D n pure modes st h

/-- before the `fix:` commit the state object of a mode selection on a pure register kept `pure = True` although its data
is a density matrix -/
theorem state_modes_flag_counterexample :
    fockBackendStateFlagOld true (some [0]) ≠ false := by decide

/-! ## Fock: diagonal observables are sums over `all_fock_probs()` -/

/-- **`diagonal_expectation(modes, values)`** (hence `number_expectation`, `parity_expectation`) equals
`Σ_n (Π_{m ∈ modes} values n_m) · p(n)` with `p = all_fock_probs()`, pure and mixed representation -/
theorem diagonal_expectation_sum {K : Type} [CommSemiring K] (nsq re : K → K) (D n : Nat) (pure : Bool) (modes : List Nat)
    (values : Nat → K) (st : Tens K) (hd : modes.Nodup) (hr : ∀ m ∈ modes, m < n) :
    diagonalExpectation nsq re D n pure modes values st
      = .ok (diagonalSpec D n modes values (if pure then probsPure nsq st else probsMixed re st)) :=
  diagonalExpectation_sum nsq re D n pure modes values st hd hr

/-- **parity `= Σ_n (−1)^{Σ_{m ∈ modes} n_m} p(n)`** -/
theorem parity_is_alternating_sum {K : Type} [CommRing K] (nsq re : K → K) (D n : Nat) (pure : Bool) (modes : List Nat)
    (st : Tens K) (hd : modes.Nodup) (hr : ∀ m ∈ modes, m < n) :
    fockParity nsq re D n pure modes st
      = .ok (diagonalSpec D n modes paritySign (if pure then probsPure nsq st else probsMixed re st)) :=
  diagonalExpectation_sum nsq re D n pure modes paritySign st hd hr

/-- **`mean_photon(mode)[0] = Σ_n n_mode p(n)`**, the value `number_expectation([mode])[0]` has by `diagonal_expectation_sum` -/
theorem mean_photon_is_number_expectation {K : Type} [CommSemiring K] [Sub K] (re : K → K) (nat : Nat → K) (hre0 : re 0 = 0)
    (hre : ∀ a b, re (a + b) = re a + re b) (hnat : ∀ v a, re (nat v * a) = nat v * re a)
    (D n mode : Nat) (ρ : Tens K) (hρ : RankLe (2 * n) ρ) (hm : mode < n) :
    ∃ var, fockMeanPhoton re nat D n mode ρ = .ok (diagonalSpec D n [mode] nat (probsMixed re ρ), var) :=
  fockMeanPhoton_sum re nat hre0 hre hnat D n mode ρ hρ hm

/-! ## Gaussian state object and `GaussianBackend.state(modes)` -/

/-- **`reduced_gaussian(modes)`**: entry `(a, b)` of every block is entry `(modes[a], modes[b])` of that block of the state -/
theorem reduced_gaussian_subset {K : Type} (n : Nat) (modes : List Nat) (g : GData K)
    (hs : modes.Pairwise (· < ·)) (hr : ∀ m ∈ modes, m < n) :
    ∃ r, reducedGaussian n modes g = .ok (modes.length, r) ∧
      ∀ a b, a < modes.length → b < modes.length →
        r.mu a = g.mu (at' modes a) ∧ r.mu (a + modes.length) = g.mu (at' modes a + n) ∧
        r.cov a b = g.cov (at' modes a) (at' modes b) ∧
        r.cov a (b + modes.length) = g.cov (at' modes a) (at' modes b + n) ∧
        r.cov (a + modes.length) b = g.cov (at' modes a + n) (at' modes b) ∧
        r.cov (a + modes.length) (b + modes.length) = g.cov (at' modes a + n) (at' modes b + n) :=
  reducedGaussian_subset n modes g hs hr

/-- unsorted lists raise `ValueError`; out-of-range entries raise (`IndexError`, or `ValueError` when the list is too long) -/
theorem reduced_gaussian_raises {K : Type} (n : Nat) (modes : List Nat) (g : GData K)
    (h : ¬ modes.Pairwise (· ≤ ·) ∨ ∃ m ∈ modes, n ≤ m) :
    ∃ e, reducedGaussian n modes g = .error e :=
  reducedGaussian_raises n modes g h

/-- **`GaussianBackend.state(modes)`** (register without deleted modes): xxpp data of `modes` in the order requested -/
theorem gaussian_state_modes_order {K : Type} (nlen : Nat) (modes : List Nat) (xpxp : GData K) (hr : ∀ m ∈ modes, m < nlen) :
    ∃ r, gaussBackendState nlen modes xpxp = .ok (modes.length, r) ∧
      ∀ a b, a < modes.length → b < modes.length →
        r.mu a = xpxp.mu (2 * at' modes a) ∧ r.mu (a + modes.length) = xpxp.mu (2 * at' modes a + 1) ∧
        r.cov a b = xpxp.cov (2 * at' modes a) (2 * at' modes b) ∧
        r.cov a (b + modes.length) = xpxp.cov (2 * at' modes a) (2 * at' modes b + 1) ∧
        r.cov (a + modes.length) b = xpxp.cov (2 * at' modes a + 1) (2 * at' modes b) ∧
        r.cov (a + modes.length) (b + modes.length) = xpxp.cov (2 * at' modes a + 1) (2 * at' modes b + 1) :=
  gaussBackendState_order nlen modes xpxp hr

/-- **`mean_photon(mode)`** reads exactly the two means and four covariance entries of `mode` -/
theorem mean_photon_gaussian_local {K : Type} [Field K] (hbar : K) (n mode : Nat) (g : GData K) (hm : mode < n) :
    gaussMeanPhoton hbar n mode g = .ok (meanPhoton1 hbar (selectG [mode, mode + n] g)) :=
  gaussMeanPhoton_local hbar n mode g hm

/-- … and agrees with the simulator's `(N, M, α)` picture at hbar = 2: `⟨n_k⟩ = N_kk + |α_k|²` -/
theorem mean_photon_gaussian_NM {K : Type} [Field K] (h2 : (2 : K) ≠ 0) (st : GS K) (k : Nat) (hk : k < st.n) :
    ∃ var, gaussMeanPhoton (2 : K) st.n k (gdataOfXP st.n (toXP st))
      = .ok ((st.N k k).re + ((st.mean k).re * (st.mean k).re + (st.mean k).im * (st.mean k).im), var) :=
  gaussMeanPhoton_NM h2 st k hk

/-- **`quad_expectation(mode, φ)`** is the `x` mean and variance of the state rotated by `−φ` (the K3 specification of a
rotation), for every angle given by its atoms `(c, s)` -/
theorem quad_expectation_rotated {K : Type} [CommRing K] (c s : K) (n k : Nat) (V : XP K) (hk : k < n) :
    gaussQuadExpectation c s n k (gdataOfXP n V)
      = .ok ((linMap (rotRows k c (-s)) V).mx k, (linMap (rotRows k c (-s)) V).xx k k) :=
  gaussQuadExpectation_rotated c s n k V hk

/-- **Gaussian `parity_expectation(modes)`** (after the `fix:` commit) is a function of the rows / columns of the requested
modes only: two states that agree there get the same arguments of the closed form -/
theorem gaussian_parity_reduced {K : Type} (n : Nat) (modes : List Nat) (g g' : GData K) (hd : modes.Nodup)
    (hr : ∀ m ∈ modes, m < n)
    (hmu : ∀ m ∈ modes, g.mu m = g'.mu m ∧ g.mu (m + n) = g'.mu (m + n))
    (hcov : ∀ m ∈ modes, ∀ l ∈ modes, g.cov m l = g'.cov m l ∧ g.cov m (l + n) = g'.cov m (l + n) ∧
      g.cov (m + n) l = g'.cov (m + n) l ∧ g.cov (m + n) (l + n) = g'.cov (m + n) (l + n)) :
    ∃ r r', gaussParityArgs n modes g = .ok (modes.length, modes.length, r) ∧
      gaussParityArgs n modes g' = .ok (modes.length, modes.length, r') ∧
      (∀ a, a < 2 * modes.length → r.mu a = r'.mu a) ∧
      (∀ a b, a < 2 * modes.length → b < 2 * modes.length → r.cov a b = r'.cov a b) :=
  gaussParityArgs_local n modes g g' hd hr hmu hcov

/-- the code before the fix used the full state whatever `modes` was: for `[0]` of two modes it evaluates a two-mode
closed form with the one-mode prefactor -/
theorem gaussian_parity_counterexample :
    (match gaussParityArgsOld 2 [0] (⟨fun _ => (0 : Int), fun _ _ => 0⟩ : GData Int) with
      | .ok (e, k, _) => decide (e = k)
      | .error _ => true) = false := by decide

/-- **`fidelity_vacuum() = fidelity_coherent(0, …, 0)`** over all modes -/
theorem fidelity_vacuum_is_coherent_zero {K : Type} [MulZeroClass K] (sq h2 : K) (n : Nat) :
    fidelityVacuumArgs sq h2 n = fidelityCoherentArgs sq h2 n (fun _ => 0) (fun _ => 0) ∧
    (∀ a, (fidelityVacuumArgs sq h2 n).1 a = 0) ∧ (fidelityVacuumArgs sq h2 n).2.2 = List.range n :=
  fidelityVacuum_zero sq h2 n

/-! ## Bosonic state object and `BosonicBackend.state(modes)` -/

/-- **`reduced_bosonic(modes)`**: rows `2a, 2a+1` of the result are `x, p` of `modes[a]` -/
theorem reduced_bosonic_subset (n : Nat) (modes : List Nat) (hs : modes.Pairwise (· < ·)) (hr : ∀ m ∈ modes, m < n) :
    reducedBosonic n modes = .ok (modes.length, interleaved modes) :=
  reducedBosonic_subset n modes hs hr

theorem bosonic_selection_is_interleaved (modes : List Nat) (a : Nat) (ha : a < modes.length) :
    (interleaved modes).getD (2 * a) 0 = 2 * at' modes a ∧ (interleaved modes).getD (2 * a + 1) 0 = 2 * at' modes a + 1 :=
  interleaved_getD modes a ha

/-- **`BosonicBackend.state(modes)`** returns the documented ascending order whatever order was requested; the same index
computation serves bosonic `parity_expectation` -/
theorem bosonic_state_modes_sorted (nlen : Nat) (modes : List Nat) (hd : modes.Nodup) (hr : ∀ m ∈ modes, m < nlen) :
    bosonicBackendState nlen modes = .ok (modes.length, interleaved (modes.mergeSort fun a b => decide (a ≤ b))) :=
  bosonicBackendState_sorted nlen modes hd hr

/-- **bosonic `displacement(modes)`** (after the `fix:` commit) answers in the order requested: entries `2a, 2a+1` of the
selection are `x, p` of `modes[a]` -/
theorem bosonic_displacement_order (modes : List Nat) (a : Nat) (ha : a < modes.length) :
    (bosonicDisplacementInd modes).getD (2 * a) 0 = 2 * at' modes a ∧
    (bosonicDisplacementInd modes).getD (2 * a + 1) 0 = 2 * at' modes a + 1 :=
  interleaved_getD modes a ha

/-- before the fix the selection was sorted: `displacement([1, 0])` answered for `[0, 1]` -/
theorem bosonic_displacement_counterexample :
    (bosonicDisplacementIndOld [1, 0]).getD 0 0 ≠ 2 * at' [1, 0] 0 := by
  have h := bosonicInd_eq [1, 0] (by decide)
  have hs : ([1, 0] : List Nat).mergeSort (fun a b => decide (a ≤ b)) = [0, 1] := by simp [List.mergeSort]
  simp [bosonicDisplacementIndOld, h, hs, interleaved, at']

/-- **bosonic `reduced_dm` / `fock_prob`** (after the `fix:` commit): after `xpxp_to_xxpp` thewalrus receives `x` of
`modes[a]` at index `a` and `p` of `modes[a]` at index `a + k` -/
theorem bosonic_walrus_order (modes : List Nat) (a : Nat) (ha : a < modes.length) :
    (interleaved modes).getD (toXXPP modes.length a) 0 = 2 * at' modes a ∧
    (interleaved modes).getD (toXXPP modes.length (a + modes.length)) 0 = 2 * at' modes a + 1 :=
  toXXPP_interleaved modes a ha

/-- before the fix the interleaved data went to thewalrus unconverted: for two modes its index 1 (`x` of the second mode
in thewalrus' convention) carried `p` of the first -/
theorem bosonic_walrus_counterexample : (interleaved [0, 1]).getD 1 0 ≠ 2 * at' [0, 1] 1 := by decide

/-! ## `utils/post_processing.py` -/

/-- **`samples_expectation` / `samples_variance`** do not depend on the order in which the modes are listed -/
theorem samples_expectation_order (samples : List (List Int)) (modes modes' : List Nat) (h : modes.Perm modes') :
    samplesExpectation samples modes = samplesExpectation samples modes' ∧
    samplesVariance samples modes = samplesVariance samples modes' :=
  samplesExpectation_perm samples modes modes' h

/-! ## registers with holes: `state(modes)` speaks about subsystem indices (main's fix `986d6a2`) -/

/-- **`FockBackend.state(modes)` after mode deletions**: for a well-formed mode map and every duplicate-free list of *active
subsystem indices* in any order, the result is the reduced state of the axes these subsystems live on, in the requested order,
flagged mixed and labelled with the requested subsystems -/
theorem state_modes_order_holes {K : Type} [Zero K] [Add K] [Mul K] (cj : K → K) (D n : Nat) (pure : Bool)
    (map : List (Option Nat)) (modes : List Nat) (st : Tens K) (hw : WellFormedMap map)
    (hn : (activeModes map).length = n) (hne : modes ≠ []) (hd : modes.Nodup) (ha : ∀ m ∈ modes, m ∈ activeModes map) :
    ∃ T, fockBackendStateR cj D n pure map (some modes) st = .ok (false, modes.length, T, modes) ∧
      ∀ idx, T idx = reducedSpec D n (modes.map (axisOf map)) (if pure then mix cj st else st) idx :=
  fockBackendStateR_order cj D n pure map modes st hw hn hne hd ha

/-- … and every other list (duplicates, deleted subsystems, beyond the register, empty) is rejected -/
theorem state_modes_raises_holes {K : Type} [Zero K] [Add K] [Mul K] (cj : K → K) (D n : Nat) (pure : Bool)
    (map : List (Option Nat)) (modes : List Nat) (st : Tens K)
    (h : ¬ (modes ≠ [] ∧ modes.Nodup ∧ ∀ m ∈ modes, m ∈ activeModes map)) :
    ∃ e, fockBackendStateR cj D n pure map (some modes) st = .error e :=
  fockBackendStateR_raises cj D n pure map modes st h

/-- **`GaussianBackend.state(modes)` after mode deletions**: every list of active subsystems (any order) gives the xxpp data of
exactly these subsystems, labelled with them; `None` is the list of all active subsystems; anything else is a `ValueError` -/
theorem gaussian_state_modes_order_holes {K : Type} (nlen : Nat) (active modes : List Nat) (xpxp : GData K)
    (hact : ∀ m ∈ active, m < nlen) (hm : ∀ m ∈ modes, m ∈ active) :
    ∃ r, gaussBackendStateA nlen active (some modes) xpxp = .ok (modes.length, r, modes) ∧
      ∀ a b, a < modes.length → b < modes.length →
        r.mu a = xpxp.mu (2 * at' modes a) ∧ r.mu (a + modes.length) = xpxp.mu (2 * at' modes a + 1) ∧
        r.cov a b = xpxp.cov (2 * at' modes a) (2 * at' modes b) ∧
        r.cov a (b + modes.length) = xpxp.cov (2 * at' modes a) (2 * at' modes b + 1) ∧
        r.cov (a + modes.length) b = xpxp.cov (2 * at' modes a + 1) (2 * at' modes b) ∧
        r.cov (a + modes.length) (b + modes.length) = xpxp.cov (2 * at' modes a + 1) (2 * at' modes b + 1) :=
  gaussBackendStateA_order nlen active modes xpxp hact hm

theorem gaussian_state_modes_none {K : Type} (nlen : Nat) (active : List Nat) (xpxp : GData K) :
    gaussBackendStateA nlen active none xpxp = gaussBackendStateA nlen active (some active) xpxp :=
  gaussBackendStateA_none nlen active xpxp

theorem gaussian_state_modes_raises_holes {K : Type} (nlen : Nat) (active modes : List Nat) (xpxp : GData K)
    (h : ∃ m ∈ modes, m ∉ active) :
    gaussBackendStateA nlen active (some modes) xpxp = .error .valueError :=
  gaussBackendStateA_raises nlen active modes xpxp h

/-- **`BosonicBackend.state(modes)` labels** (main's fix `d248f7a`): label `a` names the subsystem whose `x, p` are rows
`2a, 2a+1` of the returned data -/
theorem bosonic_state_labels (nlen : Nat) (modes : List Nat) (hd : modes.Nodup) (hr : ∀ m ∈ modes, m < nlen)
    (a : Nat) (ha : a < modes.length) :
    ∃ ind, bosonicBackendState nlen modes = .ok (modes.length, ind) ∧
      ind.getD (2 * a) 0 = 2 * (bosonicBackendLabels modes).getD a 0 ∧
      ind.getD (2 * a + 1) 0 = 2 * (bosonicBackendLabels modes).getD a 0 + 1 :=
  bosonicBackendLabels_data nlen modes hd hr a ha

/-! ## the einsum string and the NumPy sorting contracts -/

/-- **the list `ind` built by the `insert` loop** of `reduced_dm` / `FockBackend.state`, letter by letter: axis pair `m` carries the
`c`-th pair of output letters when its role is `some c`, the doubled `t`-th trace letter when it is the `t`-th traced mode -/
theorem einsum_string_closed_form (n : Nat) (modes : List Nat) (hd : modes.Nodup) (hr : ∀ m ∈ modes, m < n) :
    indList n modes = (List.range n).map fun m =>
      match (roles n modes).getD m none with
      | some c => (2 * c, 2 * c + 1)
      | none => (2 * modes.length + ((List.range m).filter fun x => !modes.contains x).length,
                 2 * modes.length + ((List.range m).filter fun x => !modes.contains x).length) :=
  indList_eq n modes hd hr

/-- **`np.einsum` of that string is the role einsum** every theorem above speaks about -/
theorem einsum_string_is_role_einsum {K : Type} [AddCommMonoid K] (D n : Nat) (modes : List Nat) (ρ : Tens K)
    (hd : modes.Nodup) (hr : ∀ m ∈ modes, m < n) (idx : Idx) :
    einsumLetters D (indList n modes) (2 * modes.length) ρ idx = einsumRoles D (roles n modes) ρ idx :=
  einsumLetters_eq_roles D n modes ρ hd hr idx

/-- **any implementation of `np.argsort`** (a permutation of the positions along which the keys do not decrease) returns the
model's `argsort` on a duplicate-free list — the theorems do not depend on merge sort -/
theorem argsort_contract (l σ : List Nat) (hd : l.Nodup) (h : IsArgsort l σ) : σ = argsort l :=
  argsort_unique l σ hd h

/-- **any implementation of `np.sort`** returns the model's sorted list -/
theorem sort_contract (l s : List Nat) (h : IsSorted l s) : s = l.mergeSort fun a b => decide (a ≤ b) :=
  sort_unique l s h

/-! ## polynomial observables: `poly_quad_expectation` and the bosonic weighted sums -/

/-- **`poly_quad_expectation(A = 0, d = e_{x_m}, k = 0, φ)` is `quad_expectation(m, φ)`** — mean and variance, every state -/
theorem poly_quad_linear_is_quad_expectation {K : Type} [Field K] [DecidableEq K] (hbar : K) (n m : Nat) (c s : K) (g : GData K)
    (hm : m < n) (rotate : Bool) (hrot : rotate = false → c = 1 ∧ s = 0) :
    gaussPolyQuad hbar n (fun _ _ => 0) (fun a => if a = m then 1 else 0) 0 rotate c s g
      = quad1 c s (selectG [m, m + n] g) :=
  gaussPolyQuad_linear hbar n m c s g hm rotate hrot

/-- **`poly_quad_expectation` of `(x_m² + p_m²)/(2ħ) − 1/2` is `mean_photon(m)`** — mean and variance, including the
symmetric-ordering correction term, for every ħ ≠ 0 -/
theorem poly_quad_number_is_mean_photon {K : Type} [Field K] [DecidableEq K] (hbar : K) (hh : hbar ≠ 0) (h2 : (2 : K) ≠ 0)
    (n m : Nat) (g : GData K) (hm : m < n) :
    gaussPolyQuad hbar n (fun a b => if a = b ∧ (a = m ∨ a = m + n) then 1 / (2 * hbar) else 0) (fun _ => 0) (-(1 / 2))
      false 1 0 g
      = meanPhoton1 hbar (selectG [m, m + n] g) :=
  gaussPolyQuad_number hbar hh h2 n m g hm

/-- **bosonic `mean_photon`** of a one-component state is the Gaussian value (mean and variance) … -/
theorem bosonic_mean_photon_single {K : Type} [Field K] (hbar : K) (g : GData K) :
    bosonicMeanPhoton hbar [((1 : K), g)] = meanPhoton1 hbar g :=
  bosonicMeanPhoton_single hbar g

/-- … and in general the weighted sum of the components' Gaussian means (weights summing to one) -/
theorem bosonic_mean_photon_mix {K : Type} [Field K] (hbar : K) (comps : List (K × GData K))
    (hw : wsum (comps.map fun p => p.1) = 1) :
    (bosonicMeanPhoton hbar comps).1 = wsum (comps.map fun p => p.1 * (meanPhoton1 hbar p.2).1) :=
  bosonicMeanPhoton_mix hbar comps hw

/-- **bosonic `quad_expectation`** of a one-component state is the Gaussian value; the mean is the weighted sum in general; the
densities `marginal` mixes have the components' `quad_expectation` as mean and variance (by definition of the model) -/
theorem bosonic_quad_single {K : Type} [CommRing K] (c s : K) (g : GData K) :
    bosonicQuad c s [((1 : K), g)] = quad1 c s g :=
  bosonicQuad_single c s g

theorem bosonic_quad_mix {K : Type} [CommRing K] (c s : K) (comps : List (K × GData K)) :
    (bosonicQuad c s comps).1 = wsum (comps.map fun p => p.1 * (quad1 c s p.2).1) :=
  bosonicQuad_mix c s comps

/-! ## Gaussian `dm()` / `reduced_dm`: the index layout of the state-vector branch -/

/-- **the axis list `[k for m in range(N) for k in (m, m + N)]` turns `|ψ⟩⟨ψ|` (ket axes first, bra axes last) into the documented
layout `ρ[i₀, j₀, i₁, j₁, …]`, for every number of modes** -/
theorem gaussian_dm_layout {K : Type} [Mul K] (k : Nat) (cj : K → K) (ψ : Tens K) (idx : Idx) :
    trList (dmAxes k) (outerKet k cj ψ) idx = dmSpec k cj ψ idx :=
  dm_layout k cj ψ idx

/-- **Gaussian `reduced_dm(modes)` / `dm()`**: for an ascending in-range list the full list of a pure state gives `|ψ⟩⟨ψ|` in the
documented layout, everything else thewalrus' density matrix of the reduced `(μ, V)` as it comes -/
theorem gaussian_reduced_dm {K : Type} [Mul K] (cj : K → K) (n : Nat) (modes : List Nat) (isPure : Bool) (ψ T : Tens K)
    (hs : modes.Pairwise (· < ·)) (hr : ∀ m ∈ modes, m < n) :
    ∃ R, gaussReducedDm cj n modes isPure ψ T = .ok (modes.length, R) ∧
      ∀ idx, R idx = (if isPure ∧ modes.length = n then dmSpec modes.length cj ψ idx else T idx) :=
  gaussReducedDm_ok cj n modes isPure ψ T hs hr

/-- the "evens + odds" idiom (`[0, 2, 4, …, 1, 3, 5, …]`, right for `all_fock_probs`) is the inverse permutation: equal to the
required list for one and two modes, different from three modes on (seeded change C16-a1) -/
theorem gaussian_dm_evens_odds_counterexample (k : Nat) (hk : 3 ≤ k) :
    ((List.range k).map (2 * ·) ++ (List.range k).map (2 * · + 1)) ≠ dmAxes k :=
  evensOdds_ne_dmAxes k hk

/-! ## bosonic `fidelity_coherent`, `purity`, `wigner`: the arguments of `exp` / `det` / `inv` -/

/-- **bosonic `fidelity_coherent`** hands over, per component, the Gaussian arguments (`fidelityCoherentArgs`) read through the
xpxp ordering: `δ[2a] = μ[2a] − mean[a]`, `δ[2a+1] = μ[2a+1] − mean[a+n]`, `cov_sum = cov + (ħ/2)·1` -/
theorem bosonic_fidelity_args_are_gaussian {K : Type} [Ring K] (sq h2 : K) (n : Nat) (alphaRe alphaIm : Nat → K) (w : K)
    (g : GData K) (a : Nat) (ha : a < n) :
    ∃ d, bosonicFidelityArgs sq h2 alphaRe alphaIm [(w, g)] = [(w, d)] ∧
      d.mu (2 * a) = g.mu (2 * a) - (fidelityCoherentArgs sq h2 n alphaRe alphaIm).1 a ∧
      d.mu (2 * a + 1) = g.mu (2 * a + 1) - (fidelityCoherentArgs sq h2 n alphaRe alphaIm).1 (a + n) ∧
      ∀ b c, d.cov b c = g.cov b c + (fidelityCoherentArgs sq h2 n alphaRe alphaIm).2.1 b c :=
  bosonicFidelityArgs_match sq h2 n alphaRe alphaIm w g a ha

theorem bosonic_fidelity_vacuum_args {K : Type} [Ring K] (sq h2 : K) (w : K) (g : GData K) (a : Nat) :
    ∃ d, bosonicFidelityArgs sq h2 (fun _ => 0) (fun _ => 0) [(w, g)] = [(w, d)] ∧ d.mu a = g.mu a :=
  bosonicFidelityArgs_vacuum sq h2 w g a

/-- **bosonic `purity`** of a one-component state evaluates the Gaussian purity: one pair, `δ = 0`, `Σ = 2·cov`, weight `w²`;
in general there are `(number of components)²` pairs -/
theorem bosonic_purity_single {K : Type} [Ring K] (w : K) (g : GData K) :
    ∃ d, bosonicPurityArgs [(w, g)] = [(w * w, d)] ∧ (∀ a, d.mu a = 0) ∧ ∀ a b, d.cov a b = g.cov a b + g.cov a b :=
  bosonicPurityArgs_single w g

theorem bosonic_purity_pairs {K : Type} [Add K] [Sub K] [Mul K] (comps : List (K × GData K)) :
    (bosonicPurityArgs comps).length = comps.length * comps.length :=
  bosonicPurityArgs_length comps

/-- **parity is `πħ · W(0, 0)`**: at the origin bosonic `wigner` evaluates, component by component, the quadratic form and the
determinant of `parity_expectation([mode])`; at a component's own mean the quadratic form vanishes -/
theorem bosonic_parity_is_wigner_at_origin {K : Type} [CommRing K] (comps : List (K × GData K)) :
    bosonicWignerArgs 0 0 comps = bosonicParityArgs1 comps :=
  bosonicWignerArgs_origin comps

theorem bosonic_wigner_peak {K : Type} [CommRing K] (w : K) (g : GData K) :
    bosonicWignerArgs (g.mu 0) (g.mu 1) [(w, g)] = [(w, 0, g.cov 0 0 * g.cov 1 1 - g.cov 0 1 * g.cov 1 0)] :=
  bosonicWignerArgs_peak w g

/-! ## non-vacuity: the hypotheses are met by concrete non-trivial objects (3–4 modes, permuted selections) -/

example : ([0, 2] : List Nat).Pairwise (· < ·) ∧ ∀ m ∈ ([0, 2] : List Nat), m < 3 := by decide
example : ¬ (([2, 0] : List Nat).Pairwise (· < ·) ∧ ∀ m ∈ ([2, 0] : List Nat), m < 3) := by decide
example : ([2, 0, 3] : List Nat).Nodup ∧ ∀ m ∈ ([2, 0, 3] : List Nat), m < 4 := by decide
example : ¬ (([1, 1] : List Nat).Nodup ∧ ∀ m ∈ ([1, 1] : List Nat), m < 3) := by decide
/-- a rank-4 tensor of two modes, cutoff 2: `RankLe` holds for every tabulated tensor -/
example : RankLe (2 * 2) (fun idx : Idx => (idx 0 + 2 * idx 1 + 3 * idx 2 + 5 * idx 3 : Int)) := by
  intro i j h; simp [h 0 (by omega), h 1 (by omega), h 2 (by omega), h 3 (by omega)]
/-- the role loop evaluated: selecting modes `{0, 2}` of three (in whatever order they are listed) -/
example : roles 3 [2, 0] = [some 0, none, some 1] ∧ tracedOf (roles 3 [2, 0]) = [1] ∧ keptCount (roles 3 [2, 0]) = 2 := by decide
example : interleaved [0, 2] = [0, 1, 4, 5] ∧ indexPerm [1, 0] = [2, 3, 0, 1] := by decide
example : gaussInd 3 [0, 2] = [0, 2, 3, 5] ∧ gaussBackendInd [2, 0] = [4, 0, 5, 1] := by decide
example : (2 : Rat) ≠ 0 := by decide
/-- a four-subsystem register with subsystem 1 deleted: well formed, three axes, selection `[3, 0, 2]` is valid -/
example : activeModes [some 0, none, some 1, some 2] = [0, 2, 3] ∧
    [3, 0, 2].map (axisOf [some 0, none, some 1, some 2]) = [2, 0, 1] ∧
    remapModes [some 0, none, some 1, some 2] [3, 0, 2] = .ok [2, 0, 1] ∧
    remapModes [some 0, none, some 1, some 2] [1] = .error .valueError ∧
    remapModes [some 0, none, some 1, some 2] [4] = .error .indexError := by decide
example : WellFormedMap [some 0, none, some 1, some 2] := by
  intro m hm
  have : m = 0 ∨ m = 1 ∨ m = 2 ∨ m = 3 := by simp at hm; omega
  rcases this with h | h | h | h <;> subst h <;> decide
/-- the string of `reduced_dm([0, 2])` on three modes: `ab ee cd -> abcd` -/
example : indList 3 [0, 2] = [(0, 1), (4, 4), (2, 3)] := by decide
example : IsSorted [2, 0, 1] [0, 1, 2] := ⟨by decide, by decide⟩
example : dmAxes 3 = [0, 3, 1, 4, 2, 5] ∧ dmAxes 2 = [0, 2, 1, 3] := by decide
example : IsArgsort [5, 1, 3] [1, 2, 0] := ⟨by decide, by decide⟩
example : ([0, 2, 1] : List Nat).Perm [2, 1, 0] := by decide
example : samplesExpectation [[2, 0, 1], [1, 3, 2]] [0, 2] = (4, 2) := by decide

end SFV.C16
