import SFV.Proofs.Tdm

/-!
# C13 — a time-domain program means its explicit loop, however it is unrolled

Statements about the model `SFV.Model.Tdm` (transcribed from `tdm/program.py`, the TDM part of
`engine.py` and `tdm/utils.py`, *after* the six `fix:` commits listed in `notes/C13.md`).  The
correspondence check (`harness/props/c13.py`) ties every function used here to the real code on
generated call histories, unrollings, sample dictionaries and crop/delay inputs.

Reading guide.  A rolled program is a list of `TCmd` whose `regs` are register *slots*; the unrolled
circuit has subsystem indices there.  `regAt cfg space g q` is the register after `g` end-of-bin
shifts; `binCmds cfg rolled q t` is the loop body instantiated on register `q` with the `t`-th column
of the parameter arrays.
-/
namespace SFV.C13

open SFV SFV.Tdm

/-! ## the unrolled circuit is the flat loop (all N, shifts, time-bin counts, shots) -/

/-- **shots are extra unrolling, parameters are periodic.**  For every band structure, every kind of
shift, every number of bins and shots and every loop body, the circuit built by `_unroll_program`
(register-shift variant) is the loop body repeated over the global bins `g = s·T + i`, applied to the
register shifted `g` times and to parameter column `i` — nothing is dropped, reordered or carried over
between shots except the register. -/
theorem unroll_flat_loop (cfg : Cfg) (rolled : List TCmd) (shots : Nat) (q : List Nat) :
    unrollProgram cfg false rolled shots q =
      (List.range shots).flatMap fun s => (List.range cfg.timebins).flatMap fun i =>
        binCmds cfg rolled (regAt cfg false (s * cfg.timebins + i) q) i :=
  shotsLoop_shift cfg rolled shots q

/-- **slot × time ↦ subsystem is a bijection at every time**, for every shift (default band-wise
rotation, any integer, none) and in the space variant: the register at bin `g` is a rearrangement of
the initial register. -/
theorem register_bijection (cfg : Cfg) (space : Bool) (g : Nat) (q : List Nat) :
    (regAt cfg space g q).Perm q :=
  regAt_perm cfg space g q

/-- **under the renaming "subsystem ↦ slot holding it at that bin" the unrolled command is the loop
body's command**: with the pulse carried by slot `j` at bin `g` called `(g, j)`, every command of bin
`g` acts on exactly the pulses the hand-written loop names (all N, shifts, bins; `q` duplicate-free,
slots in range). -/
theorem unroll_command_iso (cfg : Cfg) (g : Nat) (q : List Nat) (hq : q.Nodup) (c : TCmd)
    (hc : ∀ j ∈ c.regs, j < q.length) :
    (getModes (regAt cfg false g q) c).map (fun m => (regAt cfg false g q).idxOf m) = c.regs := by
  have hp := regAt_perm cfg false g q
  exact getModes_idxOf _ (hp.nodup_iff.mpr hq) c (by rw [hp.length_eq]; exact hc)

/-- **pulses travel towards the head, the head's subsystem re-enters at the tail** (rotation by one
step: the default shift of a single-band program, `shift=1`, and the space variant).  Slot `j` at the
next bin holds what slot `j+1` holds now — so with pulse `(band, g + offset)` in slot `offset` at bin
`g` a subsystem keeps its pulse until it reaches the head, where it is measured, and re-enters in the
last slot as pulse `g + 1 + (len − 1) = g + len`, larger than every pulse index used up to bin `g`.

FULL STATEMENT NOT PROVED for several bands under the default shift (`shiftBands`): there the same two
facts hold band by band (`(shiftBands N q)[j] = q[j+1]` inside a band, band head ↦ same band's tail).
That case is validated on every generated program by the correspondence (circuits compared exactly)
and by the explicit-loop oracle; missing is the index lemma for `shiftBandsFrom`. -/
theorem unroll_pulse_iso_partial (q : List Nat) :
    (∀ j, j + 1 < q.length → (shiftBy q 1).getD j 0 = q.getD (j + 1) 0) ∧
    (0 < q.length → (shiftBy q 1).getD (q.length - 1) 0 = q.getD 0 0) ∧
    (∀ C, shiftBands [C] q = q.take 0 ++ shiftBy ((q.drop 0).take C) 1 ++ q.drop (0 + C)) :=
  ⟨shiftBy_one_getD q, shiftBy_one_last q, fun _ => rfl⟩

/-! ## rolling back, for every call history -/

/-- **`roll` restores circuit and register exactly after ANY history** of
`unroll(k) | space_unroll(k) | roll | run(shots, space_unroll, crop) | lock` calls: the circuit is the
original one, no cache is left, the register (`reg_refs`, all active) and `init_num_subsystems` are
the original ones and no added subsystem remains. -/
theorem roll_restores (cfg : Cfg) (prog : List TCmd) (evs : List Ev) :
    let s := ((St.init cfg prog).steps cfg evs).roll
    s.circuit = prog ∧ s.rolled = prog ∧ s.unrolled = none ∧ s.spaceUnrolled = none ∧
    s.shots = none ∧ s.regRefs = (St.init cfg prog).regRefs ∧
    s.initNum = (St.init cfg prog).initNum ∧ s.numAdded ≤ 0 := by
  have h := (roll_isRolled (steps_inv evs (inv_init cfg prog))).1
  exact ⟨h.circuit, h.rolled, h.unrolled, h.spaceUnrolled, h.shots, h.regRefs, h.initNum, h.numAdded⟩

/-- in every reachable state the rolled circuit is kept, and a program that is not unrolled *is* the
original program (so e.g. `run` hands a rolled program back untouched). -/
theorem reachable_rolled_is_original (cfg : Cfg) (prog : List TCmd) (evs : List Ev) :
    let s := (St.init cfg prog).steps cfg evs
    s.rolled = prog ∧ (s.isUnrolled = false →
      s.circuit = prog ∧ s.regRefs = (St.init cfg prog).regRefs ∧ s.initNum = (St.init cfg prog).initNum) := by
  have h := steps_inv evs (inv_init cfg prog)
  refine ⟨h.rolled, fun hu => ?_⟩
  have := (roll_isRolled h).1
  have hroll : ((St.init cfg prog).steps cfg evs).roll = (St.init cfg prog).steps cfg evs := by
    simp [St.roll, hu]
  rw [hroll] at this
  exact ⟨this.circuit, this.regRefs, this.initNum⟩

/-- **a run only locks the caller's program**: whatever state it is in (any history), whatever
`shots / space_unroll / crop`, the engine's working copy gives the shared register back unchanged. -/
theorem run_leaves_program (cfg : Cfg) (prog : List TCmd) (evs : List Ev)
    (sh : Option Nat) (sp cr : Bool) :
    let s := (St.init cfg prog).steps cfg evs
    (s.run cfg sh sp cr).1 = { s with locked := true } :=
  run_state (steps_inv evs (inv_init cfg prog)) sh sp cr

/-- the lock flag changes only by `lock` and `run`, never by unrolling or rolling (any history) -/
theorem lock_only_by_lock_or_run (cfg : Cfg) (prog : List TCmd) (evs : List Ev) (e : Ev) :
    let s := (St.init cfg prog).steps cfg evs
    (s.step cfg e).locked =
      (s.locked || match e with | .lock => true | .run _ _ _ => true | _ => false) :=
  step_locked (steps_inv evs (inv_init cfg prog)) e

/-- a rejected `unroll` (space-unrolled program) changes nothing -/
theorem rejected_unroll_changes_nothing (cfg : Cfg) (s : St) (k : Nat)
    (h : (s.unroll cfg k).2 = .valueError) : (s.unroll cfg k).1 = s := by
  unfold St.unroll at h ⊢
  split at h
  · split at h <;> simp at h
  · rename_i hsp
    split at h
    · rename_i hs; simp [hs]
    · simp at h

/-! ## samples, space-unrolling, crop: statements kept visible, proved parts and witnesses

FULL STATEMENT `reshape_correct` (NOT PROVED in Lean; checked exactly by the correspondence
`Tdm.reshape` ↔ `reshape_samples` and the placement oracle on every generated case): for every band
list `N` with positive entries, measured band heads `modes = bandStarts N`, `T ≥ 1` and `shots`, if
`samples` is what `_run_program` collects from `unrollProgram cfg false prog shots (range C)` for a
program measuring every band head once per bin, then entry `[shot][bin]` of
`reshapeSamples samples modes N T` under key `modes[b]` is the outcome of the measurement of band `b`
in global bin `shot·T + bin`.

FULL STATEMENT `space_unroll_iso` (NOT PROVED in Lean; oracle `space-state`): for a single band
`N = [C]`, `shots = 1`, register `range (T + C − 1)`,
`unrollProgram cfg true prog 1 q = (range T).flatMap fun g => binCmds cfg prog ((range C).map (· + g)) g`.

-/

/-- **crop/delay consistency.**  For all beamsplitter argument lists and loop delays, the crop value
that `vacuum_padding` announces for the un-padded arguments is the crop value `get_crop_value` computes
from the program built with the padded arguments (prologue and epilogue zeros included; an all-zero
list imposes the full delay). -/
theorem crop_delay (alphas : List (List Int)) (delays : List Nat) :
    cropValue (padded alphas delays) delays = padCrop alphas delays :=
  crop_of_padded alphas delays

/-- the docstring example of `reshape_samples` (two bands, the second measured at its second mode),
evaluated in the model -/
theorem reshape_docstring_instance :
    reshapeSamples [(0, [10, 12, 14, 16]), (2, [11, 15]), (1, [13, 17])] [0, 2] [1, 2] 2 =
      [(0, [[10, 12], [14, 16]]), (2, [[11, 13], [15, 17]])] := by decide

def exCfg : Cfg := { N := [1, 2], shift := .default, timebins := 3, params := [[1, 2, 3], [4, 5, 6]] }
def exProg : List TCmd :=
  [ { cls := "Sgate", regs := [2], pars := [.const 1, .const 0] },
    { cls := "BSgate", regs := [1, 2], pars := [.var 0, .const 1], dagger := true },
    { cls := "MeasureHomodyne", regs := [1], pars := [.var 1], meas := true },
    { cls := "MeasureHomodyne", regs := [0], pars := [.var 0], meas := true } ]

/-- (former finding, repaired by `0f93cf1`) without the mode order read off the circuit,
`reshape_samples` assumes the default shift: for the whole-register rotation `shift = 1` its own guess
misplaces the samples, while the order of `get_mode_order` places them (tags: `k`-th measurement
returns `k`; band 0 must read `1, 3, 5`, band 1 `0, 2, 4`). -/
theorem reshape_needs_true_order_instance :
    let circ := unrollProgram { exCfg with shift := .int 1 } false exProg 1 [0, 1, 2]
    reshapeSamples (collectSamples circ) [0, 1] [1, 2] 3 ≠ [(0, [[1, 3, 5]]), (1, [[0, 2, 4]])] ∧
    runSamples { exCfg with shift := .int 1 } exProg circ none = [(0, [[1, 3, 5]]), (1, [[0, 2, 4]])] := by
  decide

/-- the same program under the default shift is placed correctly -/
theorem reshape_default_shift_instance :
    reshapeSamples (collectSamples (unrollProgram exCfg false exProg 1 [0, 1, 2])) [0, 1] [1, 2] 3 =
      [(0, [[1, 3, 5]]), (1, [[0, 2, 4]])] := by decide

/-- (former finding, repaired by `0f93cf1` and `a6024bf`) samples of a space-unrolled run, two shots -/
theorem reshape_space_unrolled_instance :
    let cfg := { exCfg with N := [2] }
    let prog : List TCmd := [{ cls := "MeasureHomodyne", regs := [0], pars := [.var 1], meas := true }]
    runSamples cfg prog (unrollProgram cfg true prog 2 (List.range 7)) none = [(0, [[0, 1, 2], [3, 4, 5]])] := by
  decide

/-! ## non-vacuity -/

example : padded [[0, 0, 3, 1], [0, 0, 0, 0], [2, 0, 0, 5]] [1, 3, 2] =
      [[0, 0, 3, 1, 0, 0, 0, 0], [0, 0, 0, 0, 0, 0, 0, 0], [0, 0, 0, 0, 2, 0, 0, 5]] ∧
    padCrop [[0, 0, 3, 1], [0, 0, 0, 0], [2, 0, 0, 5]] [1, 3, 2] = 4 := by decide

example : unrollProgram exCfg false exProg 2 [0, 1, 2] ≠ [] ∧
    (unrollProgram exCfg false exProg 2 [0, 1, 2]).length = 24 ∧
    regAt exCfg false 1 [0, 1, 2] = [0, 2, 1] := by decide
example : (regAt exCfg false 2 [0, 1, 2]).Perm [0, 1, 2] ∧ regAt exCfg false 1 [0, 1, 2] ≠ [0, 1, 2] :=
  ⟨register_bijection _ _ _ _, by decide⟩
example : [0, 1, 2].Nodup ∧ (∀ j ∈ (exProg[1]!).regs, j < [0, 1, 2].length) ∧
    getModes (regAt exCfg false 1 [0, 1, 2]) (exProg[1]!) = [2, 1] := by decide
example : shiftBy [5, 6, 7] 1 = [6, 7, 5] ∧ shiftBands [3] [5, 6, 7] = [6, 7, 5] := by decide
/-- a history that leaves the rolled form several times, runs in both modes and re-unrolls with
another shot count; the space-unrolled state really has extra subsystems -/
def exHist : List Ev :=
  [.spaceUnroll 1, .roll, .spaceUnroll 2, .run none true false, .unroll 3, .lock, .unroll 2, .run (some 2) false false]
example : ((St.init exCfg exProg).steps exCfg [.spaceUnroll 1]).regRefs.length = 5 ∧
    ((St.init exCfg exProg).steps exCfg exHist).isUnrolled = true ∧
    ((St.init exCfg exProg).steps exCfg exHist).roll.regRefs.length = 3 := by decide
example : (((St.init exCfg exProg).steps exCfg [.spaceUnroll 1]).run exCfg none false false).2.backendModes = 5 := by decide
example : ((St.init exCfg exProg).step exCfg .lock).locked = true ∧
    (((St.init exCfg exProg).step exCfg .lock).step exCfg (.unroll 1)).locked = true := by decide
example : (((St.init exCfg exProg).steps exCfg [.spaceUnroll 1]).unroll exCfg 2).2 = .valueError := by decide

end SFV.C13
