import SFV.Proofs.TdmReshape
import SFV.Proofs.TdmNames

/-!
# C13 — a time-domain program means its explicit loop, however it is unrolled

Statements about the model `SFV.Model.Tdm` (transcribed from `tdm/program.py`, the TDM part of
`engine.py` and `tdm/utils.py`, *after* the six `fix:` commits listed in `notes/C13.md`).  The
correspondence check (`harness/props/c13.py`) ties every function used here to the real code on
generated call histories, unrollings, sample dictionaries and crop/delay inputs.

Reading guide.  A rolled program is a list of `TCmd` whose `regs` are register *slots*; the unrolled
circuit has subsystem indices there.  `regAt cfg space g q` is the register after `g` end-of-bin
shifts; `binCmds cfg rolled q t` is the loop body instantiated on register `q` with the `t`-th column
of the parameter arrays.
-/
namespace SFV.C13

open SFV SFV.Tdm

/-! ## the unrolled circuit is the flat loop (all N, shifts, time-bin counts, shots) -/

/-- **shots are extra unrolling, parameters are periodic.**  For every band structure, every kind of
shift, every number of bins and shots and every loop body, the circuit built by `_unroll_program`
(register-shift variant) is the loop body repeated over the global bins `g = s·T + i`, applied to the
register shifted `g` times and to parameter column `i` — nothing is dropped, reordered or carried over
between shots except the register. -/
theorem unroll_flat_loop (cfg : Cfg) (rolled : List TCmd) (shots : Nat) (q : List Nat) :
    unrollProgram cfg false rolled shots q =
      (List.range shots).flatMap fun s => (List.range cfg.timebins).flatMap fun i =>
        binCmds cfg rolled (regAt cfg false (s * cfg.timebins + i) q) i :=
  shotsLoop_shift cfg rolled shots q

/-- **a loop variable means the array of its index, whatever its name looks like.**  `apply_op` resolves a
symbolic argument through the *name* of its symbol in `parameters = dict(zip(names, arrays))`, the `i`-th
name being `"p" + str(i)`; for every number of arrays (`p10`, `p11`, … next to `p1`) this is the `i`-th
array, i.e. the model's index-based `resolve` used in all theorems above and below. -/
theorem loop_variable_by_name (cfg : Cfg) (t i : Nat) (h : i < cfg.params.length) :
    lookupName (parametersDict cfg) (SFV.Io.pName i) = some (cfg.params.getD i []) ∧
    resolveNamed cfg t (SFV.Io.pName i) = some ((cfg.params.getD i []).getD (t % cfg.timebins) 0) ∧
    resolve cfg t (.var i) = .const ((resolveNamed cfg t (SFV.Io.pName i)).getD 0) :=
  ⟨lookupName_pName cfg i h, (resolve_eq_named cfg t i h).1, (resolve_eq_named cfg t i h).2⟩

/-- **slot × time ↦ subsystem is a bijection at every time**, for every shift (default band-wise
rotation, any integer, none) and in the space variant: the register at bin `g` is a rearrangement of
the initial register. -/
theorem register_bijection (cfg : Cfg) (space : Bool) (g : Nat) (q : List Nat) :
    (regAt cfg space g q).Perm q :=
  regAt_perm cfg space g q

/-- **under the renaming "subsystem ↦ slot holding it at that bin" the unrolled command is the loop
body's command**: with the pulse carried by slot `j` at bin `g` called `(g, j)`, every command of bin
`g` acts on exactly the pulses the hand-written loop names (all N, shifts, bins; `q` duplicate-free,
slots in range). -/
theorem unroll_command_iso (cfg : Cfg) (g : Nat) (q : List Nat) (hq : q.Nodup) (c : TCmd)
    (hc : ∀ j ∈ c.regs, j < q.length) :
    (getModes (regAt cfg false g q) c).map (fun m => (regAt cfg false g q).idxOf m) = c.regs := by
  have hp := regAt_perm cfg false g q
  exact getModes_idxOf _ (hp.nodup_iff.mpr hq) c (by rw [hp.length_eq]; exact hc)

/-- **the shift-unrolled circuit is the explicit fresh-mode loop (default shift, any number of bands).**
Call the pulse sitting in slot `o` of band `b` during global bin `g` pulse `(b, g + o)`.  Then, for every
band structure, register, bin, band and slot:
1. at bin `g+1` slot `o` of band `b` holds the subsystem that slot `(o+1) mod N_b` of the same band held at
   bin `g` (bands never mix);
2. if `o` is not the band's last slot this is slot `o+1`, and the pulse name is unchanged:
   `(g+1) + o = g + (o+1)` — a subsystem carries its pulse until it reaches the head;
3. if `o` is the last slot the subsystem comes from the band head (slot 0, the one measured in bin `g`) and
   its new pulse index `g + N_b` is larger than every index `g' + o'` used in this band up to bin `g`: a
   fresh pulse;
4. closed form: slot `o` of band `b` at bin `g` holds the subsystem that started in slot `(o+g) mod N_b`.
Together with `register_bijection` and `unroll_command_iso` this is the bijection slot × time ↦ pulse id
under which the unrolled circuit is the hand-written loop. -/
theorem unroll_pulse_iso (cfg : Cfg) (hs : cfg.shift = .default) (q : List Nat)
    (hq : cfg.N.sum ≤ q.length) (g b o : Nat) (hb : b < cfg.N.length) (ho : o < cfg.N.getD b 0) :
    (regAt cfg false (g + 1) q).getD ((cfg.N.take b).sum + o) 0 =
      (regAt cfg false g q).getD ((cfg.N.take b).sum + (o + 1) % cfg.N.getD b 0) 0 ∧
    (o + 1 < cfg.N.getD b 0 → (o + 1) % cfg.N.getD b 0 = o + 1 ∧ (g + 1) + o = g + (o + 1)) ∧
    (o + 1 = cfg.N.getD b 0 → (o + 1) % cfg.N.getD b 0 = 0 ∧
      ∀ g' o', g' ≤ g → o' < cfg.N.getD b 0 → g' + o' < (g + 1) + o) ∧
    (regAt cfg false g q).getD ((cfg.N.take b).sum + o) 0 =
      q.getD ((cfg.N.take b).sum + (o + g) % cfg.N.getD b 0) 0 := by
  refine ⟨regAt_default_step cfg hs q hq g b o hb ho, ?_, ?_, regAt_default_closed cfg hs q hq g b o hb ho⟩
  · intro h; exact ⟨Nat.mod_eq_of_lt h, by omega⟩
  · intro h
    refine ⟨by rw [h, Nat.mod_self], ?_⟩
    intro g' o' hg ho'; omega

/-- the same two facts for a rotation of the whole register by one step (`shift=1`, the space variant,
and the default shift of a single band): slot `j` next bin holds what slot `j+1` holds now, the last
slot what slot 0 held. -/
theorem unroll_pulse_iso_rotation (q : List Nat) :
    (∀ j, j + 1 < q.length → (shiftBy q 1).getD j 0 = q.getD (j + 1) 0) ∧
    (0 < q.length → (shiftBy q 1).getD (q.length - 1) 0 = q.getD 0 0) ∧
    (∀ C, shiftBands [C] q = q.take 0 ++ shiftBy ((q.drop 0).take C) 1 ++ q.drop (0 + C)) :=
  ⟨shiftBy_one_getD q, shiftBy_one_last q, fun _ => rfl⟩

/-! ## space-unrolling -/

/-- **space-unrolling gives the explicit loop with pulse `g + j` in mode `g + j`**, for every loop body
with slots `< C`, every number of bins and shots, on a register of `L ≥ shots·T + C − 1` fresh modes:
no command is filtered out by `has_looped_back`, commands keep their order, flags and parameter column. -/
theorem space_unroll_iso (cfg : Cfg) (rolled : List TCmd) (shots C L : Nat)
    (hc : ∀ c ∈ rolled, ∀ j ∈ c.regs, j < C) (hL : shots * cfg.timebins + C ≤ L + 1) :
    unrollProgram cfg true rolled shots (List.range L) =
      (List.range shots).flatMap fun s => (List.range cfg.timebins).flatMap fun i =>
        rolled.map fun c => applyOp cfg c (c.regs.map (· + (s * cfg.timebins + i))) i :=
  space_unroll_range cfg rolled shots C L hc hL

/-- … and `space_unroll(k)` called on a rolled program (in particular after any history followed by
`roll`) allocates exactly such a register: the circuit it installs is that loop. -/
theorem space_unroll_installs_loop (cfg : Cfg) (prog : List TCmd) (evs : List Ev) (k : Nat)
    (hc : ∀ c ∈ prog, ∀ j ∈ c.regs, j < cfg.concurr) :
    (St.spaceFresh cfg ((St.init cfg prog).steps cfg evs).roll k).circuit =
      (List.range k).flatMap fun sh => (List.range cfg.timebins).flatMap fun i =>
        prog.map fun c => applyOp cfg c (c.regs.map (· + (sh * cfg.timebins + i))) i :=
  spaceFresh_circuit cfg prog _ (roll_isRolled (steps_inv evs (inv_init cfg prog))).1 k hc

/-! ## rolling back, for every call history -/

/-- **`roll` restores circuit and register exactly after ANY history** of
`unroll(k) | space_unroll(k) | roll | run(shots, space_unroll, crop) | lock` calls: the circuit is the
original one, no cache is left, the register (`reg_refs`, all active) and `init_num_subsystems` are
the original ones and no added subsystem remains. -/
theorem roll_restores (cfg : Cfg) (prog : List TCmd) (evs : List Ev) :
    let s := ((St.init cfg prog).steps cfg evs).roll
    s.circuit = prog ∧ s.rolled = prog ∧ s.unrolled = none ∧ s.spaceUnrolled = none ∧
    s.shots = none ∧ s.regRefs = (St.init cfg prog).regRefs ∧
    s.initNum = (St.init cfg prog).initNum ∧ s.numAdded ≤ 0 := by
  have h := (roll_isRolled (steps_inv evs (inv_init cfg prog))).1
  exact ⟨h.circuit, h.rolled, h.unrolled, h.spaceUnrolled, h.shots, h.regRefs, h.initNum, h.numAdded⟩

/-- in every reachable state the rolled circuit is kept, and a program that is not unrolled *is* the
original program (so e.g. `run` hands a rolled program back untouched). -/
theorem reachable_rolled_is_original (cfg : Cfg) (prog : List TCmd) (evs : List Ev) :
    let s := (St.init cfg prog).steps cfg evs
    s.rolled = prog ∧ (s.isUnrolled = false →
      s.circuit = prog ∧ s.regRefs = (St.init cfg prog).regRefs ∧ s.initNum = (St.init cfg prog).initNum) := by
  have h := steps_inv evs (inv_init cfg prog)
  refine ⟨h.rolled, fun hu => ?_⟩
  have := (roll_isRolled h).1
  have hroll : ((St.init cfg prog).steps cfg evs).roll = (St.init cfg prog).steps cfg evs := by
    simp [St.roll, hu]
  rw [hroll] at this
  exact ⟨this.circuit, this.regRefs, this.initNum⟩

/-- **a run only locks the caller's program**: whatever state it is in (any history), whatever
`shots / space_unroll / crop`, the engine's working copy gives the shared register back unchanged. -/
theorem run_leaves_program (cfg : Cfg) (prog : List TCmd) (evs : List Ev)
    (sh : Option Nat) (sp cr : Bool) :
    let s := (St.init cfg prog).steps cfg evs
    (s.run cfg sh sp cr).1 = { s with locked := true } :=
  run_state (steps_inv evs (inv_init cfg prog)) sh sp cr

/-- the lock flag changes only by `lock` and `run`, never by unrolling or rolling (any history) -/
theorem lock_only_by_lock_or_run (cfg : Cfg) (prog : List TCmd) (evs : List Ev) (e : Ev) :
    let s := (St.init cfg prog).steps cfg evs
    (s.step cfg e).locked =
      (s.locked || match e with | .lock => true | .run _ _ _ => true | _ => false) :=
  step_locked (steps_inv evs (inv_init cfg prog)) e

/-- a rejected `unroll` (space-unrolled program) changes nothing -/
theorem rejected_unroll_changes_nothing (cfg : Cfg) (s : St) (k : Nat)
    (h : (s.unroll cfg k).2 = .valueError) : (s.unroll cfg k).1 = s := by
  unfold St.unroll at h ⊢
  split at h
  · split at h <;> simp at h
  · rename_i hsp
    split at h
    · rename_i hs; simp [hs]
    · simp at h

/-! ## samples -/

/-- **entry (shot, band, bin) of the reshaped samples is the outcome of that pulse** — for every mode
order (every shift, shift- and space-unrolled circuits), every number of bands `B`, bins `T`, shots
`S`: if reading the per-subsystem queues of `samples` along `order` (what `idx_tracker` does) yields the
outcomes `val s t b` shot by shot, bin by bin, band by band, then `reshape_samples` returns exactly the
keys `modes` (in order), each with the array `[s][t] ↦ val s t b`. -/
theorem reshape_correct (samples : List (Nat × List Int)) (modes : List Nat) (B T S : Nat)
    (order : List Nat) (val : Nat → Nat → Nat → Int)
    (hm : modes.Nodup) (hl : modes.length = B) (hB : 0 < B) (hT : 0 < T) (hS : 0 < S)
    (hread : readVals samples [] order =
      ((List.range S).map fun s => (List.range T).map fun t => (List.range B).map fun b => val s t b).flatten.flatten) :
    reshapeWith samples modes B T order =
      (List.range B).map fun b => (modes.getD b 0, (List.range S).map fun s => (List.range T).map fun t => val s t b) :=
  reshapeWith_correct samples modes B T S order val hm hl hB hT hS hread

/-- **the samples a run returns sit at (shot, band, bin)** — for shift- and space-unrolled circuits, every
shift, every circuit order of the measurements in the loop body.  Let the loop body contain `n`
measurement commands (on distinct slots, `n` = number of bands) and let the executed circuit perform
`S·T` groups of `n` measurements, the subsystems measured within one group (one time bin) being pairwise
distinct (they are: the register is a permutation at every bin, `register_bijection`).  Then
`_run_program` (samples collected per subsystem, arranged by `reshape_samples` with the order of
`get_mode_order`) returns, under the `b`-th measured mode, the array whose entry `[s][t]` is the outcome
of the measurement of that mode's band in time bin `s·T + t` — the `rank[b]`-th measurement of that bin,
identified by its position `(s·T+t)·n + rank[b]` in the circuit. -/
theorem run_samples_correct (cfg : Cfg) (rolled circ : List TCmd) (S : Nat)
    (hB : cfg.N.length = (measuredRegs rolled).length) (hn0 : 0 < (measuredRegs rolled).length)
    (hT : 0 < cfg.timebins) (hS : 0 < S)
    (hm : (measuredModes rolled).Nodup) (hl : (measuredModes rolled).length = (measuredRegs rolled).length)
    (hlen : (measuredRegs circ).length = S * cfg.timebins * (measuredRegs rolled).length)
    (hn : ∀ g, g < S * cfg.timebins → (grp (measuredRegs circ) (measuredRegs rolled).length g).Nodup) :
    runSamples cfg rolled circ none =
      (List.range (measuredRegs rolled).length).map fun b => ((measuredModes rolled).getD b 0,
        (List.range S).map fun s => (List.range cfg.timebins).map fun t =>
          (((s * cfg.timebins + t) * (measuredRegs rolled).length +
            (rankOf (measuredRegs rolled)).getD b 0 : Nat) : Int)) := by
  unfold runSamples
  simp only [hB]
  exact reshapeWith_correct _ _ _ _ S _ _ hm hl hn0 hT hS
    (run_reads_in_order rolled circ S cfg.timebins hn0 hlen hn)

/-- **samples of the shift-unrolled run, no side condition left**: for every shift kind, every
duplicate-free register `q`, every number of shots, and every loop body whose `n = #bands` measurement
commands act on pairwise distinct slots of the register, running `unroll(S)` returns under the `b`-th
measured mode the array `[s][t] ↦` outcome of that band's measurement in time bin `s·T + t`. -/
theorem run_samples_shift_unrolled (cfg : Cfg) (rolled : List TCmd) (S : Nat) (q : List Nat) (hq : q.Nodup)
    (hne : ∀ c ∈ rolled, c.meas = true → c.regs ≠ []) (hslots : (measuredRegs rolled).Nodup)
    (hlt : ∀ j ∈ measuredRegs rolled, j < q.length)
    (hB : cfg.N.length = (measuredRegs rolled).length) (hn0 : 0 < (measuredRegs rolled).length)
    (hT : 0 < cfg.timebins) (hS : 0 < S)
    (hm : (measuredModes rolled).Nodup) (hl : (measuredModes rolled).length = (measuredRegs rolled).length) :
    runSamples cfg rolled (unrollProgram cfg false rolled S q) none =
      (List.range (measuredRegs rolled).length).map fun b => ((measuredModes rolled).getD b 0,
        (List.range S).map fun s => (List.range cfg.timebins).map fun t =>
          (((s * cfg.timebins + t) * (measuredRegs rolled).length +
            (rankOf (measuredRegs rolled)).getD b 0 : Nat) : Int)) :=
  run_samples_correct cfg rolled _ S hB hn0 hT hS hm hl
    (shift_side_conditions cfg rolled S q hq hne hslots hlt).1
    (shift_side_conditions cfg rolled S q hq hne hslots hlt).2

/-- **samples of the space-unrolled run**, on the register `space_unroll(S)` allocates (`L ≥ S·T + C − 1`) -/
theorem run_samples_space_unrolled (cfg : Cfg) (rolled : List TCmd) (S C L : Nat)
    (hc : ∀ c ∈ rolled, ∀ j ∈ c.regs, j < C) (hL : S * cfg.timebins + C ≤ L + 1)
    (hne : ∀ c ∈ rolled, c.meas = true → c.regs ≠ []) (hslots : (measuredRegs rolled).Nodup)
    (hB : cfg.N.length = (measuredRegs rolled).length) (hn0 : 0 < (measuredRegs rolled).length)
    (hT : 0 < cfg.timebins) (hS : 0 < S)
    (hm : (measuredModes rolled).Nodup) (hl : (measuredModes rolled).length = (measuredRegs rolled).length) :
    runSamples cfg rolled (unrollProgram cfg true rolled S (List.range L)) none =
      (List.range (measuredRegs rolled).length).map fun b => ((measuredModes rolled).getD b 0,
        (List.range S).map fun s => (List.range cfg.timebins).map fun t =>
          (((s * cfg.timebins + t) * (measuredRegs rolled).length +
            (rankOf (measuredRegs rolled)).getD b 0 : Nat) : Int)) :=
  run_samples_correct cfg rolled _ S hB hn0 hT hS hm hl
    (space_side_conditions cfg rolled S C L hc hL hne hslots).1
    (space_side_conditions cfg rolled S C L hc hL hne hslots).2

/-- **crop/delay consistency.**  For all beamsplitter argument lists and loop delays, the crop value
that `vacuum_padding` announces for the un-padded arguments is the crop value `get_crop_value` computes
from the program built with the padded arguments (prologue and epilogue zeros included; an all-zero
list imposes the full delay). -/
theorem crop_delay (alphas : List (List Int)) (delays : List Nat) :
    cropValue (padded alphas delays) delays = padCrop alphas delays :=
  crop_of_padded alphas delays

/-- the docstring example of `reshape_samples` (two bands, the second measured at its second mode),
evaluated in the model -/
theorem reshape_docstring_instance :
    reshapeSamples [(0, [10, 12, 14, 16]), (2, [11, 15]), (1, [13, 17])] [0, 2] [1, 2] 2 =
      [(0, [[10, 12], [14, 16]]), (2, [[11, 13], [15, 17]])] := by decide

def exCfg : Cfg := { N := [1, 2], shift := .default, timebins := 3, params := [[1, 2, 3], [4, 5, 6]] }
def exProg : List TCmd :=
  [ { cls := "Sgate", regs := [2], pars := [.const 1, .const 0] },
    { cls := "BSgate", regs := [1, 2], pars := [.var 0, .const 1], dagger := true },
    { cls := "MeasureHomodyne", regs := [1], pars := [.var 1], meas := true },
    { cls := "MeasureHomodyne", regs := [0], pars := [.var 0], meas := true } ]

/-- (former finding, repaired by `0f93cf1`) without the mode order read off the circuit,
`reshape_samples` assumes the default shift: for the whole-register rotation `shift = 1` its own guess
misplaces the samples, while the order of `get_mode_order` places them (tags: `k`-th measurement
returns `k`; band 0 must read `1, 3, 5`, band 1 `0, 2, 4`). -/
theorem reshape_needs_true_order_instance :
    let circ := unrollProgram { exCfg with shift := .int 1 } false exProg 1 [0, 1, 2]
    reshapeSamples (collectSamples circ) [0, 1] [1, 2] 3 ≠ [(0, [[1, 3, 5]]), (1, [[0, 2, 4]])] ∧
    runSamples { exCfg with shift := .int 1 } exProg circ none = [(0, [[1, 3, 5]]), (1, [[0, 2, 4]])] := by
  decide

/-- the same program under the default shift is placed correctly -/
theorem reshape_default_shift_instance :
    reshapeSamples (collectSamples (unrollProgram exCfg false exProg 1 [0, 1, 2])) [0, 1] [1, 2] 3 =
      [(0, [[1, 3, 5]]), (1, [[0, 2, 4]])] := by decide

/-- (former finding, repaired by `0f93cf1` and `a6024bf`) samples of a space-unrolled run, two shots -/
theorem reshape_space_unrolled_instance :
    let cfg := { exCfg with N := [2] }
    let prog : List TCmd := [{ cls := "MeasureHomodyne", regs := [0], pars := [.var 1], meas := true }]
    runSamples cfg prog (unrollProgram cfg true prog 2 (List.range 7)) none = [(0, [[0, 1, 2], [3, 4, 5]])] := by
  decide

/-! ## non-vacuity -/

example : [0, 1, 2].Nodup ∧ (∀ c ∈ exProg, c.meas = true → c.regs ≠ []) ∧ (measuredRegs exProg).Nodup ∧
    (∀ j ∈ measuredRegs exProg, j < [0, 1, 2].length) ∧ exCfg.N.length = (measuredRegs exProg).length ∧
    (measuredModes exProg).Nodup ∧ (measuredModes exProg).length = (measuredRegs exProg).length ∧
    runSamples exCfg exProg (unrollProgram exCfg false exProg 2 [0, 1, 2]) none =
      [(0, [[1, 3, 5], [7, 9, 11]]), (1, [[0, 2, 4], [6, 8, 10]])] := by decide

/-- twelve arrays: the loop variables `p1`, `p10`, `p11` denote three different arrays -/
def exCfg12 : Cfg :=
  { N := [2], timebins := 2, params := (List.range 12).map fun (i : Nat) => [((10 * i : Nat) : Int), ((10 * i + 1 : Nat) : Int)] }
example : (11 : Nat) < exCfg12.params.length ∧
    resolve exCfg12 3 (.var 1) = .const 11 ∧ resolve exCfg12 3 (.var 10) = .const 101 ∧
    resolve exCfg12 3 (.var 11) = .const 111 := by decide
example : resolveNamed exCfg12 3 (SFV.Io.pName 11) = some 111 ∧ resolveNamed exCfg12 3 (SFV.Io.pName 1) = some 11 :=
  ⟨(loop_variable_by_name exCfg12 3 11 (by decide)).2.1.trans (by decide),
   (loop_variable_by_name exCfg12 3 1 (by decide)).2.1.trans (by decide)⟩

/-- the hypotheses of `reshape_correct` / `run_samples_correct` hold for a real unrolled circuit:
two bands measured in the order (band 1, band 0), two shots, three bins -/
example :
    let circ := unrollProgram exCfg false exProg 2 [0, 1, 2]
    exCfg.N.length = (measuredRegs exProg).length ∧ (measuredModes exProg).Nodup ∧
    (measuredModes exProg).length = (measuredRegs exProg).length ∧
    (measuredRegs circ).length = 2 * exCfg.timebins * (measuredRegs exProg).length ∧
    (∀ g, g < 2 * exCfg.timebins → (grp (measuredRegs circ) (measuredRegs exProg).length g).Nodup) ∧
    rankOf (measuredRegs exProg) = [1, 0] ∧
    readVals (collectSamples circ) [] (measOrder exProg circ) =
      ((List.range 2).map fun s => (List.range 3).map fun t => (List.range 2).map fun b =>
        (((s * 3 + t) * 2 + (if b = 0 then 1 else 0) : Nat) : Int)).flatten.flatten := by decide
example : exCfg.shift = .default ∧ exCfg.N.sum ≤ [0, 1, 2].length ∧ (1 : Nat) < exCfg.N.length ∧
    (1 : Nat) < exCfg.N.getD 1 0 ∧ regAt exCfg false 3 [0, 1, 2] = [0, 2, 1] := by decide
example : (∀ c ∈ exProg, ∀ j ∈ c.regs, j < 3) ∧ 2 * exCfg.timebins + 3 ≤ 8 + 1 ∧
    (unrollProgram exCfg true exProg 2 (List.range 8)).length = 24 := by decide

example : padded [[0, 0, 3, 1], [0, 0, 0, 0], [2, 0, 0, 5]] [1, 3, 2] =
      [[0, 0, 3, 1, 0, 0, 0, 0], [0, 0, 0, 0, 0, 0, 0, 0], [0, 0, 0, 0, 2, 0, 0, 5]] ∧
    padCrop [[0, 0, 3, 1], [0, 0, 0, 0], [2, 0, 0, 5]] [1, 3, 2] = 4 := by decide

example : unrollProgram exCfg false exProg 2 [0, 1, 2] ≠ [] ∧
    (unrollProgram exCfg false exProg 2 [0, 1, 2]).length = 24 ∧
    regAt exCfg false 1 [0, 1, 2] = [0, 2, 1] := by decide
example : (regAt exCfg false 2 [0, 1, 2]).Perm [0, 1, 2] ∧ regAt exCfg false 1 [0, 1, 2] ≠ [0, 1, 2] :=
  ⟨register_bijection _ _ _ _, by decide⟩
example : [0, 1, 2].Nodup ∧ (∀ j ∈ (exProg[1]!).regs, j < [0, 1, 2].length) ∧
    getModes (regAt exCfg false 1 [0, 1, 2]) (exProg[1]!) = [2, 1] := by decide
example : shiftBy [5, 6, 7] 1 = [6, 7, 5] ∧ shiftBands [3] [5, 6, 7] = [6, 7, 5] := by decide
/-- a history that leaves the rolled form several times, runs in both modes and re-unrolls with
another shot count; the space-unrolled state really has extra subsystems -/
def exHist : List Ev :=
  [.spaceUnroll 1, .roll, .spaceUnroll 2, .run none true false, .unroll 3, .lock, .unroll 2, .run (some 2) false false]
example : ((St.init exCfg exProg).steps exCfg [.spaceUnroll 1]).regRefs.length = 5 ∧
    ((St.init exCfg exProg).steps exCfg exHist).isUnrolled = true ∧
    ((St.init exCfg exProg).steps exCfg exHist).roll.regRefs.length = 3 := by decide
example : (((St.init exCfg exProg).steps exCfg [.spaceUnroll 1]).run exCfg none false false).2.backendModes = 5 := by decide
example : ((St.init exCfg exProg).step exCfg .lock).locked = true ∧
    (((St.init exCfg exProg).step exCfg .lock).step exCfg (.unroll 1)).locked = true := by decide
example : (((St.init exCfg exProg).steps exCfg [.spaceUnroll 1]).unroll exCfg 2).2 = .valueError := by decide

end SFV.C13
