import SFV.Model.Tdm
namespace SFV.C13
open SFV.Tdm

theorem placeholder (l : List Nat) : shiftBy l 0 = l := by
  simp [shiftBy, pyCut]

end SFV.C13
