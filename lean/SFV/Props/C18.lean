import SFV.Proofs.Compare
import SFV.Proofs.CompareGauss

/-!
# C18 — programs reported equal or equivalent really compute the same thing

Model: `SFV.Model.Compare` (`Program.__eq__`, `program_equivalence` after the two `fix:` commits
in /repo).  "Compute the same thing" is `sem f l₁ = sem f l₂` for every interpretation `f` of
commands in a monoid that (i) depends only on the compared fields and (ii) lets commands on
disjoint wires commute.
-/
namespace SFV.C18
open SFV

/-- **equality is sound**: equal programs have the same target, the same registers and the same
commands field by field (class, parameters, modes, inverse flag, measurement options) -/
theorem eq_fields (t1 t2 : String) (r1 r2 : List (Nat × Bool)) (l1 l2 : List Cmd)
    (h : programEq t1 t2 r1 r2 l1 l2 = true) :
    t1 = t2 ∧ r1 = r2 ∧ l1.map Cmd.key = l2.map Cmd.key :=
  programEq_keys h

/-- … hence compute the same thing -/
theorem eq_sound {M : Type} [Monoid M] (f : Cmd → M) (hf : ∀ a b, a.key = b.key → f a = f b)
    (t1 t2 : String) (r1 r2 : List (Nat × Bool)) (l1 l2 : List Cmd)
    (h : programEq t1 t2 r1 r2 l1 l2 = true) : sem f l1 = sem f l2 := by
  have hk := (programEq_keys h).2.2
  have hlen : l1.length = l2.length := by simpa using congrArg List.length hk
  refine sem_congr_zip f l1 l2 hlen ?_
  intro ab hab
  apply hf
  -- pointwise equality of keys from equality of the mapped lists
  clear h
  induction l1 generalizing l2 with
  | nil => simp at hab
  | cons a l1 ih => cases l2 with
    | nil => simp at hab
    | cons b l2 =>
      simp only [List.map_cons, List.cons.injEq] at hk
      simp only [List.zip_cons_cons, List.mem_cons] at hab
      rcases hab with rfl | hab
      · exact hk.1
      · exact ih l2 hk.2 (by simpa using congrArg List.length hk.2) hab

theorem eq_refl (t : String) (r : List (Nat × Bool)) (l : List Cmd) : programEq t t r r l l = true := by
  unfold programEq
  simp only [beq_self_eq_true, Bool.true_and, List.all_eq_true]
  intro ab hab
  have := List.of_mem_zip hab
  induction l with
  | nil => simp at hab
  | cons a l ih =>
    simp only [List.zip_cons_cons, List.mem_cons] at hab
    rcases hab with rfl | hab
    · simp [cmdEq]
    · exact ih hab (List.of_mem_zip hab)

theorem eq_symm (t1 t2 : String) (r1 r2 : List (Nat × Bool)) (l1 l2 : List Cmd)
    (h : programEq t1 t2 r1 r2 l1 l2 = true) : programEq t2 t1 r2 r1 l2 l1 = true := by
  obtain ⟨ht, hr, hk⟩ := programEq_keys h
  subst ht; subst hr
  unfold programEq
  have hlen : l2.length = l1.length := by simpa using (congrArg List.length hk).symm
  simp only [beq_self_eq_true, Bool.true_and, hlen, List.all_eq_true]
  clear h
  induction l2 generalizing l1 with
  | nil => intro ab hab; simp at hab
  | cons b l2 ih => cases l1 with
    | nil => simp at hlen
    | cons a l1 =>
      intro ab hab
      simp only [List.map_cons, List.cons.injEq] at hk
      simp only [List.zip_cons_cons, List.mem_cons] at hab
      rcases hab with rfl | hab
      · simp [cmdEq, hk.1]
      · exact ih l1 hk.2 (by simpa using hlen) ab hab

/-- **equivalence is sound**: if the attributed wire DAGs are isomorphic, the two command lists
have the same meaning under every interpretation that depends only on the node attributes and in
which commands on disjoint wires commute. -/
theorem equiv_sound {M : Type} [Monoid M] (f : Cmd → M)
    (hf : ∀ a b, a.nodeKey = b.nodeKey → f a = f b)
    (hcomm : ∀ a b, ¬ dep a b → f a * f b = f b * f a)
    (l1 l2 : List Cmd) (hn : l2.Nodup) (h : programEquiv l1 l2 = true) : sem f l1 = sem f l2 := by
  unfold programEquiv at h
  rw [List.any_eq_true] at h
  obtain ⟨m, hm, h⟩ := h
  simp only [Bool.and_eq_true] at h
  obtain ⟨⟨hal, hsub⟩, _⟩ := h
  have hperm : m.Perm l2 := perms_perm hm
  have hnm : m.Nodup := hperm.nodup_iff.2 hn
  -- l2 is a topological order of the DAG of m
  have hlin : isLinExt m l2 = true := by
    unfold isLinExt
    simp only [Bool.and_eq_true, beq_iff_eq, List.all_eq_true, List.contains_iff_mem,
      decide_eq_true_eq]
    refine ⟨⟨hperm.length_eq.symm, fun c hc => hperm.subset hc⟩, ?_⟩
    intro e he
    unfold subsetEdges at hsub
    rw [List.all_eq_true] at hsub
    have := hsub e he
    simp only [List.contains_iff_mem] at this
    exact self_edges_ordered hn e this
  have h1 : sem f l2 = sem f m := legal_sem f hcomm (linExt_legal hnm hlin)
  unfold aligned at hal
  simp only [Bool.and_eq_true, beq_iff_eq, List.all_eq_true] at hal
  rw [h1]
  exact sem_congr_zip f l1 m hal.1 (fun ab hab => hf _ _ (hal.2 ab hab))

/-- **reordering commuting commands keeps programs equivalent**: any dependency-respecting
reordering `l2` of `l1` is found equivalent. -/
theorem equiv_of_reorder_partial (l1 l2 : List Cmd) (hp : l1 ∈ perms l2)
    (h1 : subsetEdges (dagEdges l1) (dagEdges l2) = true)
    (h2 : subsetEdges (dagEdges l2) (dagEdges l1) = true) : programEquiv l1 l2 = true := by
  unfold programEquiv
  rw [List.any_eq_true]
  refine ⟨l1, hp, ?_⟩
  simp only [Bool.and_eq_true, h1, h2, and_true]
  unfold aligned
  simp only [beq_self_eq_true, Bool.true_and, List.all_eq_true]
  intro ab hab
  have : ab.1 = ab.2 := by
    clear hp h1 h2
    induction l1 with
    | nil => simp at hab
    | cons a l ih =>
      simp only [List.zip_cons_cons, List.mem_cons] at hab
      rcases hab with rfl | hab
      · rfl
      · exact ih hab
  simp [this]

/-! ### the physical instance: Gaussian gates, no hypothesis about the interpretation

`GaussSem.g18 θ` interprets every command as the Gaussian channel (on first and second moments, `hbar = 2`) that the
documentation gives for its class — rotation, squeezing, displacement, shear, beamsplitter, two-mode squeezing, `CX`, `CZ`
(`SFV.Proofs.OptimizeGauss`) — for the values `θ` of the symbolic parameters; classes the comparison treats as mode-symmetric
are read on their sorted modes. -/

open GaussSem in
/-- **the mode-symmetric classes really are symmetric**: `S2(z)` and `CZ(s)` on `(k, l)` and `(l, k)` are the same channel for
all parameter values, `CX(0)` is the identity, and a beamsplitter with `cos φ = 0` is symmetric for every `θ` — these are the
cases in which `program_equivalence` compares the wires as a set -/
theorem symmetric_classes_are_symmetric (k l : Nat) (hkl : k ≠ l) (φ x s ct sn : ℝ) :
    (s2Loc k l φ x).act = (s2Loc l k φ x).act ∧ (czLoc k l x).act = (czLoc l k x).act ∧ (cxLoc k l 0).act = 1 ∧
    (bsLocAt k l 0 s ct sn).act = (bsLocAt l k 0 s ct sn).act :=
  ⟨s2_swap k l hkl φ x, cz_swap k l hkl x, cx_zero k l hkl, bs_swap k l hkl s ct sn⟩

/-- … and a beamsplitter with a *real* reflection coefficient (`φ = 0`) is not: treating it as symmetric (the slip of a seeded
change, `cos 2θ = 0 ∧ sin 2φ = 0` instead of `φ ≡ π/2`) would make the comparison unsound -/
theorem real_beamsplitter_is_not_symmetric :
    (GaussSem.bsLocAt 0 1 1 0 (3/5) (4/5)).act ≠ (GaussSem.bsLocAt 1 0 1 0 (3/5) (4/5)).act :=
  GaussSem.bs_real_reflection_not_symmetric

/-- reading a symmetric class on its sorted modes is reading it on its modes as written -/
theorem symmetric_reading_is_as_written (θ : Nat → Rat) (c : Cmd) (k l : Nat) (hkl : k ≠ l) (hr : c.regs = [k, l])
    (p : Par) (t : List Par) (hp : c.pars = p :: t) (hs : symmetricCls c = true) :
    GaussSem.g18 θ c = (GaussSem.sym2 θ c.cls k l t (GaussSem.par0 θ c p)).act :=
  GaussSem.g18_symmetric_as_written θ c k l hkl hr p t hp hs

/-- **equivalent programs prepare the same Gaussian state**: for every pair of circuits, every valuation of the symbolic
parameters — nothing is assumed about the interpretation any more -/
theorem equiv_sound_gaussian (θ : Nat → Rat) (l1 l2 : List Cmd) (hn : l2.Nodup) (h : programEquiv l1 l2 = true) :
    sem (GaussSem.g18 θ) l1 = sem (GaussSem.g18 θ) l2 :=
  equiv_sound (GaussSem.g18 θ) (GaussSem.g18_nodeKey θ) (GaussSem.g18_comm θ) l1 l2 hn h

/-- **equal programs prepare the same Gaussian state** (`Program.__eq__`, no hypothesis about the interpretation) -/
theorem eq_sound_gaussian (θ : Nat → Rat) (t1 t2 : String) (r1 r2 : List (Nat × Bool)) (l1 l2 : List Cmd)
    (h : programEq t1 t2 r1 r2 l1 l2 = true) : sem (GaussSem.g18 θ) l1 = sem (GaussSem.g18 θ) l2 :=
  eq_sound (GaussSem.g18 θ) (GaussSem.g18_key θ) t1 t2 r1 r2 l1 l2 h

/-! ### non-vacuity -/
def p1 : List Cmd :=
  [ { id := 0, cls := "Sgate", regs := [2], pars := [.num (1/2), .num 0] },
    { id := 1, cls := "BSgate", regs := [2, 0], pars := [.num (1/4), .num (1/8)] },
    { id := 2, cls := "Rgate", regs := [1], pars := [.num (3/8)], dagger := true } ]
/-- the rotation on the idle mode moved to the front -/
def p2 : List Cmd := [ { p1[2]! with id := 10 }, { p1[0]! with id := 11 }, { p1[1]! with id := 12 } ]

example : p2.Nodup ∧ programEquiv p1 p2 = true ∧ programEq "" "" [] [] p1 p2 = false := by decide +kernel
/-- a daggered variant, a prefix and a mode-swapped variant are neither equal nor equivalent -/
example : programEquiv p1 [p2[0]!, p2[1]!, { p2[2]! with regs := [0, 2] }] = false ∧
    programEquiv p1 [{ p2[0]! with dagger := false }, p2[1]!, p2[2]!] = false ∧
    programEq "" "" [] [] p1 (p1.take 2) = false ∧ programEquiv p1 (p2.take 2) = false := by decide +kernel

/-- a two-mode squeezer written on `(1, 0)` instead of `(0, 1)`: equivalent, hence the same Gaussian channel -/
def s2a : List Cmd := [ { id := 0, cls := "S2gate", regs := [0, 1], pars := [.num (1/2), .num (1/4)] } ]
def s2b : List Cmd := [ { id := 7, cls := "S2gate", regs := [1, 0], pars := [.num (1/2), .num (1/4)] } ]
example (θ : Nat → Rat) : sem (GaussSem.g18 θ) s2a = sem (GaussSem.g18 θ) s2b :=
  equiv_sound_gaussian θ s2a s2b (by decide) (by decide +kernel)
example (θ : Nat → Rat) : sem (GaussSem.g18 θ) p1 = sem (GaussSem.g18 θ) p2 :=
  equiv_sound_gaussian θ p1 p2 (by decide) (by decide +kernel)

end SFV.C18
