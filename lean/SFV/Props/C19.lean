import SFV.Proofs.AppsCard
import SFV.Proofs.AppsClique
namespace SFV.C19
open SFV SFV.Apps
theorem orbitCard_eq_perms {orbit : List Nat} {modes : Nat} (h : orbit.length ≤ modes) :
    orbitCardinality orbit modes = (dperms modes (orbitSample orbit modes)).length := orbitCardinality_eq h
end SFV.C19
