import SFV.Proofs.AppsGlue
import SFV.Proofs.AppsSubgraph
import SFV.Proofs.AppsSearch
import SFV.Proofs.AppsCliqueSearch

/-!
# C19 — GBS application helpers are combinatorially exact and structurally sound

Statements about the model `SFV.Model.Apps` (transcription of `apps/similarity.py`, `clique.py`,
`subgraph.py`, `sample.py`); `harness/props/c19.py` ties every modelled function to the real one on
generated inputs (random choices scripted identically on both sides) and states the property itself on
the real code by exact integer arithmetic / brute force.

Random choices are the argument `pick`; every theorem holds for EVERY `pick` that returns a valid
position (`Lawful`).  Graphs are simple (`Simple`: symmetric, loop-free adjacency, duplicate-free nodes).
-/
namespace SFV.C19

open SFV SFV.Apps

/-! ## orbits, events, cardinalities (`similarity.py`) -/

/-- **orbit enumeration.**  For every photon number `n ≥ 1`, `orbits n` lists exactly the partitions of
`n` (non-increasing positive parts summing to `n`), each exactly once. -/
theorem orbits_enumerates_partitions {n : Nat} (hn : 1 ≤ n) :
    (∀ p, p ∈ orbits n ↔ IsPartition n p) ∧ (orbits n).Nodup :=
  ⟨orbits_mem_iff hn, orbits_nodup n⟩

/-- zero photons: the generator yields the single orbit `[0]` (the empty partition padded by a zero) -/
theorem orbits_zero_photons : orbits 0 = [[0]] := orbits_zero

/-- **the generator itself.**  The statement-by-statement transcription of the `while` loops of
`similarity.orbits` (`orbitsImp`) produces, for every `n`, the same sequence as the structurally
recursive enumeration the other theorems speak about (so its fuel `2^n + 1` always suffices). -/
theorem orbits_generator_refines (n : Nat) : orbitsImp n = orbits n := orbitsImp_eq_orbits n

/-- **orbit cardinality = number of distinct arrangements**, for every orbit and every mode count it
fits into: `dperms` lists every rearrangement of `orbit ++ zeros` exactly once, and
`orbitCardinality` is the length of that list. -/
theorem orbitCard_eq_perms {orbit : List Nat} {modes : Nat} (h : orbit.length ≤ modes) :
    orbitCardinality orbit modes = (dperms modes (orbitSample orbit modes)).length ∧
    (∀ w, w ∈ dperms modes (orbitSample orbit modes) ↔ w.Perm (orbitSample orbit modes)) ∧
    (dperms modes (orbitSample orbit modes)).Nodup :=
  ⟨orbitCardinality_eq h, fun w => card_dperms_mem_iff modes _ w (orbitSample_length h),
    card_dperms_nodup modes _⟩

/-- the multinomial identity behind it (exact in `Nat`, no rounding at any size) -/
theorem orbitCard_multinomial {orbit : List Nat} {modes : Nat} (h : orbit.length ≤ modes) :
    orbitCardinality orbit modes * multProd (orbitSample orbit modes) = fact modes := by
  rw [orbitCardinality_eq h]
  exact card_dperms_card modes _ (orbitSample_length h)

/-- an orbit with more parts than modes does not fit: cardinality 0, and indeed no sample of `modes`
counts has its non-zero entries -/
theorem orbitCard_zero_when_too_long {orbit : List Nat} {modes : Nat} (h : modes < orbit.length)
    (hpos : ∀ x ∈ orbit, 1 ≤ x) :
    orbitCardinality orbit modes = 0 ∧
    ∀ w : List Nat, w.length = modes → ¬ (w.filter (fun c => c != 0)).Perm orbit :=
  ⟨orbitCardinality_short h, fun w hw => no_sample_of_short h hpos w hw⟩

/-- **event cardinality = sum over its orbits** of the number of distinct arrangements -/
theorem eventCard_sum (photons maxCount modes : Nat) :
    eventCardinality photons maxCount modes =
      (((orbits photons).filter fun o => listMax o ≤ maxCount).map fun o =>
        if modes < o.length then 0 else (dperms modes (orbitSample o modes)).length).sum :=
  eventCardinality_eq_sum photons maxCount modes

/-- … and that sum counts every sample of the event exactly once: a sample with photon number
`n ≥ 1` and all counts `≤ m` lies in the arrangement list of exactly one admissible orbit (its own) … -/
theorem event_sample_counted_once {s : List Nat} {m : Nat} (hs : 1 ≤ s.sum) (hm : ∀ c ∈ s, c ≤ m) :
    sampleToOrbit s ∈ (orbits s.sum).filter (fun o => listMax o ≤ m) ∧
    s ∈ dperms s.length (orbitSample (sampleToOrbit s) s.length) ∧
    ∀ o ∈ orbits s.sum, o.length ≤ s.length → s ∈ dperms s.length (orbitSample o s.length) →
      o = sampleToOrbit s :=
  event_sample_in_unique_orbit hs hm

/-- … and nothing else is counted: every arrangement of an admissible orbit is a sample of the event -/
theorem event_counts_only_samples {n m modes : Nat} (hn : 1 ≤ n) {o w : List Nat}
    (ho : o ∈ (orbits n).filter (fun o => listMax o ≤ m)) (hfit : o.length ≤ modes)
    (hw : w ∈ dperms modes (orbitSample o modes)) :
    w.length = modes ∧ w.sum = n ∧ ∀ c ∈ w, c ≤ m :=
  event_orbit_members hn ho hfit hw

/-- **sample → orbit → event are mutually consistent**: the orbit of a sample is a partition of its
photon number, is enumerated by `orbits`, and determines the event. -/
theorem sample_orbit_event (s : List Nat) (m : Nat) :
    IsPartition s.sum (sampleToOrbit s) ∧
    (1 ≤ s.sum → sampleToOrbit s ∈ orbits s.sum) ∧
    (∀ k, sampleToEvent s m = some k ↔ (k = (sampleToOrbit s).sum ∧ listMax (sampleToOrbit s) ≤ m)) ∧
    (∀ k, sampleToEvent s m = some k ↔ (k = s.sum ∧ ∀ c ∈ s, c ≤ m)) :=
  ⟨sampleToOrbit_isPartition s, sampleToOrbit_mem_orbits s, sample_event_via_orbit s m,
    sampleToEvent_eq_some s m⟩

/-! ## cliques (`clique.py`) -/

/-- the edge-count test `len(edges) == n(n-1)/2` of `is_clique` is the pairwise definition -/
theorem isClique_count_iff {g : Graph} (hs : Simple g) {S : List Nat} (hS : S.Nodup) :
    isCliqueCount g S = true ↔ IsClique g S := isCliqueCount_iff hs hS

/-- `c_0`: exactly the outside nodes adjacent to every clique node -/
theorem c0_exact (g : Graph) (C : List Nat) (i : Nat) :
    i ∈ c0 g C ↔ i ∈ g.nodes ∧ i ∉ C ∧ ∀ c ∈ C, g.adj i c = true := mem_c0 g C i

/-- `c_1`: exactly the pairs (clique node `c`, outside node adjacent to all clique nodes but `c`) -/
theorem c1_exact {g : Graph} (hn : g.nodes.Nodup) {C : List Nat} (hC : C.Nodup) (c i : Nat) :
    (c, i) ∈ c1 g C ↔
      i ∈ g.nodes ∧ i ∉ C ∧ c ∈ C ∧ g.adj i c = false ∧ ∀ c' ∈ C, c' ≠ c → g.adj i c' = true :=
  mem_c1 hn hC c i

/-- **grow.**  Whatever the random choices, the result is a clique of the input graph that contains the
input clique, is sorted and duplicate-free, and cannot be grown further. -/
theorem grow_clique {g : Graph} (hs : Simple g) {pick : Pick} (hp : Lawful pick)
    {clique r : List Nat} {sel : Sel} (h : grow g clique sel pick = .ok r) :
    IsClique g r ∧ (∀ v ∈ clique, v ∈ r) ∧ (∀ v ∈ r, v ∈ g.nodes) ∧ r.Nodup ∧ r.Pairwise (· ≤ ·) ∧
    c0 g r = [] :=
  grow_spec hs hp h

/-- grow raises exactly on inputs that are not cliques of the graph (or carry a weight vector of the
wrong length) -/
theorem grow_rejects_exactly {g : Graph} (hs : Simple g) (pick : Pick) (clique : List Nat) (sel : Sel) :
    (∃ e, grow g clique sel pick = .error e) ↔
      ¬ ((∀ v ∈ clique, v ∈ g.nodes) ∧ IsClique g clique ∧ selOk g sel = true) :=
  grow_error_iff hs pick clique sel

/-- **selection rule of grow**: at every step, for every lawful choice, the node added is a `C0` node
and, in degree / weight mode, one of greatest degree / weight among `C0`. -/
theorem grow_select_rule (g : Graph) (sel : Sel) {pick : Pick} (hp : Lawful pick) (step : Nat)
    {cs : List Nat} (hcs : cs ≠ []) :
    choose pick step (growCands g sel cs) 0 ∈ cs ∧
    (sel = .degree → ∀ u ∈ cs, degree g u ≤ degree g (choose pick step (growCands g sel cs) 0)) ∧
    (∀ ws, sel = .weight ws →
      ∀ u ∈ cs, weightOf g ws u ≤ weightOf g ws (choose pick step (growCands g sel cs) 0)) :=
  growCands_spec g sel cs _ (choose_mem hp step (growCands_ne_nil g sel hcs) 0)

/-- **swap.**  The result is a clique of the graph of the same size; either `C1` is empty and the clique
comes back unchanged, or exactly one `C1` pair — drawn from the candidates the rule allows — is
exchanged. -/
theorem swap_clique {g : Graph} (hs : Simple g) {pick : Pick} (hp : Lawful pick)
    {clique r : List Nat} {sel : Sel} (h : swap g clique sel pick = .ok r) :
    IsClique g r ∧ (∀ v ∈ r, v ∈ g.nodes) ∧ r.Nodup ∧ r.length = (distinct clique).length ∧
    ((c1 g (distinct clique) = [] ∧ r = sortAsc (distinct clique)) ∨
     (∃ p ∈ swapCands g sel (c1 g (distinct clique)), r.Perm (p.2 :: (distinct clique).erase p.1))) :=
  swap_spec hs hp h

/-- **selection rule of swap**: an allowed candidate is a `C1` pair whose incoming node has greatest
degree / weight among the incoming nodes of `C1`. -/
theorem swap_select_rule (g : Graph) (sel : Sel) (cs : List (Nat × Nat)) (p : Nat × Nat)
    (hp : p ∈ swapCands g sel cs) :
    p ∈ cs ∧ (sel = .degree → ∀ q ∈ cs, degree g q.2 ≤ degree g p.2) ∧
    (∀ ws, sel = .weight ws → ∀ q ∈ cs, weightOf g ws q.2 ≤ weightOf g ws p.2) :=
  swapCands_spec g sel cs p hp

/-- **shrink.**  The result is a clique of the graph inside the input subgraph (sorted, duplicate-free);
an input that already is a clique is returned unchanged. -/
theorem shrink_clique {g : Graph} (hs : Simple g) {pick : Pick} (hp : Lawful pick)
    {sub r : List Nat} {sel : Sel} (h : shrink g sub sel pick = .ok r) :
    IsClique g r ∧ (∀ v ∈ r, v ∈ sub) ∧ r.Nodup ∧ r.Pairwise (· ≤ ·) :=
  shrink_spec hs hp h

theorem shrink_fixes_cliques {g : Graph} (hs : Simple g) (pick : Pick) {sub : List Nat}
    (hsub : ∀ v ∈ sub, v ∈ g.nodes) (hc : IsClique g sub) :
    shrink g sub .uniform pick = .ok (sortAsc (g.nodes.filter fun v => sub.contains v)) :=
  shrink_of_clique hs pick hsub hc

/-- **selection rule of shrink** (and of the shrink phase of `resize`): for every lawful choice the node
removed has lowest degree inside the current subgraph and, with weights, lowest weight among those. -/
theorem shrink_select_rule (g : Graph) (ws : Option (List Int)) {pick : Pick} (hp : Lawful pick)
    (step : Nat) {S : List Nat} (hS : S ≠ []) :
    choose pick step (shrinkCands g ws S) 0 ∈ S ∧
    (∀ u ∈ S, degIn g S (choose pick step (shrinkCands g ws S) 0) ≤ degIn g S u) ∧
    (∀ w, ws = some w → ∀ u ∈ S, degIn g S u = degIn g S (choose pick step (shrinkCands g ws S) 0) →
      weightOf g w (choose pick step (shrinkCands g ws S) 0) ≤ weightOf g w u) :=
  shrinkCands_spec g ws S _ (choose_mem hp step (shrinkCands_ne_nil g ws hS) 0)

/-! ### `clique.search`: every round uses the caller's selection rule -/

/-- **the recursion of `clique.search` is the explicit iteration of `grow` and `swap` with the SAME
`sel`** (and the random choices continuing where the previous call stopped): one round, then either stop
(nothing changed / budget used) or continue from the swapped clique. -/
theorem cliqueSearch_round_equation (g : Graph) (sel : Sel) (pick : Pick) (it step : Nat) (C : List Nat) :
    cliqueSearchLoop g sel pick (it + 1) step C =
      match grow g C sel (shiftPick pick step) with
      | .error e => .error e
      | .ok grown =>
        match swap g grown sel (shiftPick pick (step + (grown.length - (distinct C).length))) with
        | .error e => .error e
        | .ok swapped =>
          if setEq grown swapped || it == 0 then .ok swapped
          else cliqueSearchLoop g sel pick it
            (step + (grown.length - (distinct C).length) +
              (if (c1 g (distinct grown)).isEmpty then 0 else 1)) swapped :=
  cliqueSearchLoop_succ g sel pick it step C

/-- **refinement.**  For every lawful choice function, a successful `clique.search` is a documented run:
a chain of rounds `grow g · sel` / `swap g · sel` (each for some lawful choices), stopped exactly when a
round changes nothing or the iteration budget is used — `sel` is the caller's in EVERY round. -/
theorem cliqueSearch_is_documented_run {g : Graph} {sel : Sel} {pick : Pick} (hp : Lawful pick)
    {clique r : List Nat} {it : Nat} (h : cliqueSearch g clique it sel pick = .ok r) :
    1 ≤ it ∧ SearchRun g sel it clique r :=
  cliqueSearch_run hp h

/-- what every round of such a run guarantees: the grown set is a maximal clique containing the round's
input, the swapped set is a clique of the same size, and the exchange (if any) is one of the `C1` pairs the
rule `sel` allows (`swap_select_rule`); growth obeys `grow_select_rule` with the same `sel`. -/
theorem cliqueSearch_round_rule {g : Graph} (hs : Simple g) {sel : Sel} {C G S : List Nat}
    (h : SearchRound g sel C G S) :
    IsClique g G ∧ (∀ v ∈ C, v ∈ G) ∧ c0 g G = [] ∧
    IsClique g S ∧ (∀ v ∈ S, v ∈ g.nodes) ∧ S.Nodup ∧ S.length = G.length ∧
    (distinct C).length ≤ S.length ∧
    ((c1 g G = [] ∧ S = sortAsc G) ∨ (∃ p ∈ swapCands g sel (c1 g G), S.Perm (p.2 :: G.erase p.1))) :=
  searchRound_spec hs h

/-- the result of `clique.search` is a clique of the input graph at least as large as the input -/
theorem cliqueSearch_clique {g : Graph} (hs : Simple g) {sel : Sel} {pick : Pick} (hp : Lawful pick)
    {clique r : List Nat} {it : Nat} (h : cliqueSearch g clique it sel pick = .ok r) :
    IsClique g r ∧ (∀ v ∈ r, v ∈ g.nodes) ∧ r.Nodup ∧ (distinct clique).length ≤ r.length :=
  searchRun_spec hs (cliqueSearch_run hp h).2

/-- it succeeds exactly for a positive iteration budget on a clique of the graph (no later round raises);
`iterations < 1` raises -/
theorem cliqueSearch_accepts_exactly {g : Graph} (hs : Simple g) {pick : Pick} (hp : Lawful pick)
    (clique : List Nat) (it : Nat) (sel : Sel) :
    ((∃ r, cliqueSearch g clique it sel pick = .ok r) ↔
      (1 ≤ it ∧ (∀ v ∈ clique, v ∈ g.nodes) ∧ IsClique g clique ∧ selOk g sel = true)) ∧
    cliqueSearch g clique 0 sel pick = .error .iterations :=
  ⟨cliqueSearch_ok_iff hs hp clique it sel, cliqueSearch_zero g clique sel pick⟩

/-! ## subgraph resizing and the density-ranked lists (`subgraph.py`) -/

/-- **resize.**  Every requested size occurs exactly once, and its entry is a sorted duplicate-free set
of graph nodes of exactly that size, containing the input when larger and contained in it when smaller. -/
theorem resize_sizes {g : Graph} (hn : g.nodes.Nodup) {pick : Pick} (hp : Lawful pick) {sub : List Nat}
    {minS maxS : Nat} {sel : Sel} {r : List (Nat × List Nat)}
    (h : resize g sub minS maxS sel pick = .ok r) :
    (∀ s, minS ≤ s → s ≤ maxS → ∃ T, (s, T) ∈ r) ∧
    (r.map (·.1)).Nodup ∧
    (∀ e ∈ r, minS ≤ e.1 ∧ e.1 ≤ maxS ∧ e.2.length = e.1 ∧ e.2.Nodup ∧ e.2.Pairwise (· ≤ ·) ∧
      (∀ v ∈ e.2, v ∈ g.nodes) ∧
      ((g.nodes.filter fun v => sub.contains v).length ≤ e.1 → ∀ v ∈ sub, v ∈ e.2) ∧
      (e.1 ≤ (g.nodes.filter fun v => sub.contains v).length → ∀ v ∈ e.2, v ∈ sub)) :=
  resize_spec hn hp h

/-- resize accepts exactly the documented inputs -/
theorem resize_accepts_exactly (g : Graph) (pick : Pick) (sub : List Nat) (minS maxS : Nat) (sel : Sel) :
    (∃ r, resize g sub minS maxS sel pick = .ok r) ↔
      ((∀ v ∈ sub, v ∈ g.nodes) ∧ 1 ≤ minS ∧ maxS < g.nodes.length ∧ minS ≤ maxS ∧
        selOk g sel = true ∧ sel ≠ .degree) :=
  resize_ok_iff g pick sub minS maxS sel

/-- **selection rule of the growth phase**: for every lawful choice the node added is an outside node of
greatest degree relative to the current subgraph and, with weights, of greatest weight among those. -/
theorem resize_grow_rule (g : Graph) (ws : Option (List Int)) {pick : Pick} (hp : Lawful pick)
    (step : Nat) {S : List Nat} (h : ∃ v ∈ g.nodes, v ∉ S) :
    choose pick step (resizeGrowCands g ws S) 0 ∈ g.nodes ∧
    choose pick step (resizeGrowCands g ws S) 0 ∉ S ∧
    (∀ u ∈ g.nodes, u ∉ S → degIn g S u ≤ degIn g S (choose pick step (resizeGrowCands g ws S) 0)) ∧
    (∀ w, ws = some w → ∀ u ∈ g.nodes, u ∉ S →
      degIn g S u = degIn g S (choose pick step (resizeGrowCands g ws S) 0) →
      weightOf g w u ≤ weightOf g w (choose pick step (resizeGrowCands g ws S) 0)) :=
  resizeGrowCands_spec g ws S _ (choose_mem hp step (resizeGrowCands_ne_nil g ws h) 0)

section TopList
variable {D : Type} [LinearOrder D]

/-- **top lists** (`_update_subgraphs_list`), for every density order, list, candidate, bound and coin:
the updated list only holds old entries or the normalised candidate, stays sorted, stays free of repeated
node sets, and never exceeds `max(len, max_count)`. -/
theorem toplist_invariants {l : List (D × List Nat)} (t : D × List Nat) (maxCount : Nat) (coin : Bool) :
    (∀ e ∈ (updateList l t maxCount coin).1, e ∈ l ∨ e = (t.1, sortAsc (distinct t.2))) ∧
    (SortedDesc l → SortedDesc (updateList l t maxCount coin).1) ∧
    (NoDupSets l → NoDupSets (updateList l t maxCount coin).1) ∧
    (updateList l t maxCount coin).1.length ≤ max l.length maxCount :=
  ⟨updateList_subset l t maxCount coin, updateList_sorted t maxCount coin,
    updateList_nodup t maxCount coin, updateList_length l t maxCount coin⟩

/-- whatever is dropped (or refused) is either already listed or no denser than everything kept -/
theorem toplist_keeps_top {l : List (D × List Nat)} (t : D × List Nat) (maxCount : Nat) (coin : Bool)
    (hl : SortedDesc l) :
    ∀ e, (e ∈ l ∨ e = (t.1, sortAsc (distinct t.2))) → e ∉ (updateList l t maxCount coin).1 →
      (∃ e' ∈ l, e'.2 = sortAsc (distinct t.2)) ∨ ∀ k ∈ (updateList l t maxCount coin).1, e.1 ≤ k.1 :=
  updateList_keeps_top t maxCount coin hl

/-- a new candidate denser than everything listed always enters -/
theorem toplist_inserts_denser {l : List (D × List Nat)} (t : D × List Nat) (maxCount : Nat) (coin : Bool)
    (hl : SortedDesc l) (hm : 1 ≤ maxCount) (hlen : l.length ≤ maxCount)
    (hnew : ∀ e ∈ l, e.2 ≠ sortAsc (distinct t.2)) (hd : ∀ e ∈ l, e.1 < t.1) :
    (t.1, sortAsc (distinct t.2)) ∈ (updateList l t maxCount coin).1 :=
  updateList_inserts t maxCount coin hl hm hlen hnew hd

end TopList

/-- **search.**  Whatever the seeds and the random choices, the dictionary returned files every entry
under its size within the requested range (each size once); every entry is a sorted duplicate-free set of
graph nodes of that size listed with its exactly computed density; every per-size list is sorted by
non-increasing (density, nodes), free of repeated subgraphs and no longer than `max_count`. -/
theorem search_sound {g : Graph} (hn : g.nodes.Nodup) {pick : Pick} (hp : Lawful pick)
    {subs : List (List Nat)} {minS maxS maxCount : Nat} {sel : Sel} {d : Dense}
    (h : search g subs minS maxS maxCount sel pick = .ok d) :
    (d.map (·.1)).Nodup ∧
    ∀ e ∈ d, minS ≤ e.1 ∧ e.1 ≤ maxS ∧
      SortedDesc e.2 ∧ NoDupSets e.2 ∧ e.2.length ≤ max maxCount 1 ∧
      ∀ t ∈ e.2, t.1 = density g t.2 ∧ t.2.length = e.1 ∧ t.2.Nodup ∧ t.2.Pairwise (· ≤ ·) ∧
        ∀ v ∈ t.2, v ∈ g.nodes :=
  search_spec hn hp h

/-- with at least one seed subgraph every requested size gets a non-empty list -/
theorem search_covers_sizes {g : Graph} (hn : g.nodes.Nodup) {pick : Pick} (hp : Lawful pick)
    {subs : List (List Nat)} {minS maxS maxCount : Nat} {sel : Sel} {d : Dense} (hne : subs ≠ [])
    (h : search g subs minS maxS maxCount sel pick = .ok d) :
    ∀ s, minS ≤ s → s ≤ maxS → ∃ l, (s, l) ∈ d ∧ l ≠ [] :=
  search_covers hn hp hne h

/-! ## sample post-processing (`sample.py`) -/

/-- `postselect` keeps exactly the samples whose total count is in range, in their original order -/
theorem postselect_exact (samples : List (List Nat)) (a b : Nat) :
    (∀ s, s ∈ postselect samples a b ↔ s ∈ samples ∧ a ≤ s.sum ∧ s.sum ≤ b) ∧
    (postselect samples a b).Sublist samples :=
  ⟨mem_postselect samples a b, postselect_sublist samples a b⟩

/-- `modes_from_counts`: sorted, one entry per photon, mode `i` listed `s[i]` times -/
theorem modesFromCounts_exact (s : List Nat) :
    (modesFromCounts s).Pairwise (· ≤ ·) ∧ (modesFromCounts s).length = s.sum ∧
    ∀ i, (modesFromCounts s).count i = s.getD i 0 :=
  ⟨modesFromCounts_sorted s, modesFromCounts_length s, modesFromCounts_count s⟩

/-- `to_subgraphs`: the duplicate-free set of graph nodes whose mode clicked -/
theorem toSubgraph_exact {g : Graph} (hn : g.nodes.Nodup) {s : List Nat} (hlen : s.length = g.nodes.length) :
    (∀ v, v ∈ toSubgraph g s ↔ ∃ i, i < s.length ∧ 0 < s.getD i 0 ∧ g.nodes.getD i 0 = v) ∧
    (toSubgraph g s).Nodup :=
  ⟨mem_toSubgraph hn hlen, toSubgraph_nodup hn hlen⟩

/-! ## non-vacuity: a concrete graph, a non-constant choice function, concrete samples -/

/-- two triangles `{0,1,2}`, `{3,4,5}` joined by the edges 2–3 and 1–3 -/
def exG : Graph :=
  Graph.ofEdges [0, 1, 2, 3, 4, 5] [(0, 1), (1, 2), (0, 2), (2, 3), (3, 4), (4, 5), (3, 5), (1, 3)]

def exPick : Pick := fun step n => (step + 1) % n

example : Simple exG := ofEdges_simple (by decide) (by decide)
example : Lawful exPick := fun _ _ hn => Nat.mod_lt _ hn

-- orbits / cardinalities
example : orbits 5 = [[1, 1, 1, 1, 1], [2, 1, 1, 1], [3, 1, 1], [2, 2, 1], [4, 1], [3, 2], [5]] ∧
    orbitsImp 5 = orbits 5 := by decide
example : IsPartition 5 [2, 2, 1] ∧ [2, 2, 1] ∈ orbits 5 := by unfold IsPartition; decide
example : orbitCardinality [2, 1, 1] 4 = 12 ∧ (dperms 4 (orbitSample [2, 1, 1] 4)).length = 12 ∧
    orbitCardinality [2, 1, 1] 25 = 6900 ∧ orbitCardinality [2, 1] 1 = 0 := by decide
example : eventCardinality 5 3 7 = 413 := by decide
example : sampleToOrbit [1, 2, 0, 0, 1, 1, 0, 3] = [3, 2, 1, 1, 1] ∧
    sampleToEvent [1, 2, 0, 0, 1, 1, 0, 3] 4 = some 8 ∧ sampleToEvent [1, 2, 0, 0, 1, 1, 0, 3] 2 = none ∧
    [3, 2, 1, 1, 1] ∈ (orbits 8).filter (fun o => listMax o ≤ 4) := by decide
-- cliques: growth by degree and by weight, a real swap, shrinking with weights
example : grow exG [3] .degree exPick = .ok [1, 2, 3] ∧ c0 exG [3] = [1, 2, 4, 5] ∧
    grow exG [0, 3] .uniform exPick = .error .notClique := by decide
example : c1 exG [0, 1, 2] = [(0, 3)] ∧ swap exG [0, 1, 2] .degree exPick = .ok [1, 2, 3] ∧
    swap exG [3, 4, 5] .uniform exPick = .ok [3, 4, 5] := by decide
example : shrink exG [0, 1, 2, 3, 4] (.weight [3, 1, 2, 0, 0, 0]) exPick = .ok [0, 1, 2] ∧
    shrink exG [0, 1, 2, 3, 4] .uniform exPick = .ok [1, 2, 3] := by decide
-- clique.search: the selection rule matters in the SECOND round (first swap succeeds, then C0 = {4, 5, 6}
-- with degrees 3, 5, 4): degree / weight selection reaches the 5-clique, uniform with the same choices does not
/-- triangle {0,1,2}; 3 swaps in for 0; then 4 is a dead end while 5, 6 extend {1,2,3} to a 5-clique -/
def exS : Graph :=
  Graph.ofEdges [0, 1, 2, 3, 4, 5, 6, 7, 8, 9]
    [(0, 1), (0, 2), (1, 2), (3, 1), (3, 2), (3, 8), (3, 9), (4, 1), (4, 2), (4, 3), (5, 1), (5, 2), (5, 3),
     (5, 6), (5, 7), (6, 1), (6, 2), (6, 3)]
example : Simple exS := ofEdges_simple (by decide) (by decide)
example : cliqueSearch exS [0, 1] 1 .degree (fun _ _ => 0) = .ok [1, 2, 3] ∧
    cliqueSearch exS [0, 1] 2 .degree (fun _ _ => 0) = .ok [1, 2, 3, 5, 6] ∧
    cliqueSearch exS [0, 1] 2 (.weight [4, 6, 5, 36, 8, 28, 20, 2, 1, 3]) (fun _ _ => 0) = .ok [1, 2, 3, 5, 6] ∧
    cliqueSearch exS [0, 1] 2 .uniform (fun _ _ => 0) = .ok [1, 2, 3, 5] ∧
    cliqueSearch exS [0, 1] 0 .degree (fun _ _ => 0) = .error .iterations ∧
    cliqueSearch exS [0, 3] 2 .degree (fun _ _ => 0) = .error .notClique := by decide
-- resize with weights over a range on both sides of the starting size
example : resize exG [1, 2, 3] 2 5 (.weight [3, 1, 2, 0, 0, 7]) exPick =
    .ok [(3, [1, 2, 3]), (4, [0, 1, 2, 3]), (5, [0, 1, 2, 3, 5]), (2, [1, 2])] := by decide
-- search over three seeds, two places per size
example : search exG [[1, 2, 3], [3, 4, 5], [0, 5]] 2 4 2 .uniform exPick =
    .ok [(3, [(1, [3, 4, 5]), (1, [1, 2, 3])]),
         (4, [(5 / 6, [0, 1, 2, 3]), (2 / 3, [2, 3, 4, 5])]),
         (2, [(1, [3, 5]), (1, [1, 2])])] := by decide +kernel
-- top list: a tie with the minimum, coin says replace
example : updateList [((3 : Int), [0, 1]), (2, [1, 2])] (2, [4, 3, 3]) 2 true =
    ([(3, [0, 1]), (2, [3, 4])], true) := by decide
example : SortedDesc [((3 : Int), [0, 1]), (2, [1, 2])] ∧ NoDupSets [((3 : Int), [0, 1]), (2, [1, 2])] := by
  unfold SortedDesc NoDupSets; decide
-- sample post-processing on a relabelled graph
example : toSubgraph (Graph.ofEdges [7, 3, 9] []) [2, 0, 1] = [7, 9] ∧
    modesFromCounts [0, 1, 0, 1, 2, 0] = [1, 3, 4, 4] ∧
    postselect [[1, 1, 1, 1, 1], [1, 1, 0, 1, 1], [0, 0, 0, 0, 0], [1, 0, 0, 0, 1]] 2 4 =
      [[1, 1, 0, 1, 1], [1, 0, 0, 0, 1]] := by decide

end SFV.C19
