import SFV.Proofs.GaussNM
import SFV.Proofs.FockTensor
import SFV.Proofs.Bosonic
import SFV.Proofs.GaussBackend
import SFV.Proofs.BosonicRefine
import SFV.Proofs.GaussRegister
import SFV.Proofs.FockPositive

/-!
# C01 — all simulator back ends compute the same physics

* Phase space: the entrywise `(nmat, mmat, mean)` updates of the Gaussian simulator
  (`SFV.Model.GaussNM`, a transcription of `gaussiancircuit.py`) refine the independent phase-space
  calculation `(μ, V) ↦ (Xμ + d, X V Xᵀ + Y)` with the documented block embedded at the target
  mode(s) — for every register size, every target position and order, all parameter values (atoms
  constrained only by `c² + s² = 1`, `ch² − sh² = 1`), and every program (induction over the list).
* Fock space: the axis gymnastics of `apply_twomode_gate` / `apply_gate_BLAS`
  (`SFV.Model.FockTensor`) compute exactly the embedded operator `Σ mat[i_t; j_t] ψ[idx with t ↦ j]`
  whichever modes in whichever order, in the pure and in the mixed representation, and the
  selection-rule kernels equal the full contraction.

The bosonic simulator and the thewalrus matrices are not modelled; they are covered by the oracle
(`harness/props/c01.py`) against an independent reference calculation.
-/
namespace SFV.C01
open SFV.Gauss SFV.Fock

/-- **Gaussian simulator = independent phase-space calculation, for every program.** -/
theorem gaussian_program_refines {K : Type} [CommRing K] (ops : List (GOp K)) (n : Nat)
    (hok : ∀ op ∈ ops, op.ok) :
    toXP (ops.foldl applyNM (vacuum n)) = ops.foldl applyXP (toXP (vacuum n : GS K)) :=
  (applyNM_program ops (vacuum n) (vacuum_inv n) hok).1

/-- … and from any state satisfying the representation invariant (e.g. after `fromscovmat`) -/
theorem gaussian_program_refines_from {K : Type} [CommRing K] (ops : List (GOp K)) (st : GS K)
    (hI : NMInv st) (hok : ∀ op ∈ ops, op.ok) :
    toXP (ops.foldl applyNM st) = ops.foldl applyXP (toXP st) ∧ NMInv (ops.foldl applyNM st) :=
  applyNM_program ops st hI hok

/-- **registers that grow and shrink**: for every sequence of gates, channels, `New` (`add_mode(m)`, any `m`) and `Del`
(`del_mode(k)`) the Gaussian simulator's moments — and its register size — are those of the independent calculation in which
new modes are uncorrelated vacua, old modes keep every entry, and a deleted mode is traced out -/
theorem gaussian_register_program_refines {K : Type} [CommRing K] (ops : List (ROp K)) (n : Nat)
    (hok : ∀ op ∈ ops, op.ok) :
    (toXP (ops.foldl applyNMR (vacuum n)), (ops.foldl applyNMR (vacuum n : GS K)).n) =
      ops.foldl applyXPR (toXP (vacuum n : GS K), n) :=
  (applyNMR_program ops (vacuum n) (vacuum_inv n) hok).1

/-- `add_mode(m)` keeps every moment among the old modes, whatever their number and `m` -/
theorem gaussian_add_mode_keeps_old {K : Type} [CommRing K] (st : GS K) (m i j : Nat) (hi : i < st.n) (hj : j < st.n) :
    (toXP (addMode st m)).xx i j = (toXP st).xx i j ∧ (toXP (addMode st m)).xp i j = (toXP st).xp i j ∧
    (toXP (addMode st m)).pp i j = (toXP st).pp i j ∧ (toXP (addMode st m)).mx i = (toXP st).mx i ∧
    (toXP (addMode st m)).mp i = (toXP st).mp i :=
  addMode_keeps_old st m i j hi hj

/-- **sign convention of the API layer**: `GaussianBackend.beamsplitter(θ, φ, k, l)` (which calls the
circuit with `(−θ, −φ)`) realises the documented `B(θ, φ)`: `a_k ↦ cos θ·a_k − e^{−iφ} sin θ·a_l`,
`a_l ↦ cos θ·a_l + e^{iφ} sin θ·a_k` — all register sizes, ordered pairs, parameter values -/
theorem gaussian_backend_beamsplitter {K : Type} [CommRing K] (st : GS K) (hI : NMInv st) (c s ct sn : K)
    (k l : Nat) (hkl : k ≠ l) (hcs : c * c + s * s = 1) (hts : ct * ct + sn * sn = 1) :
    toXP (bkBeamsplitter st c s ct sn k l) = linMap (sfBsRows k l c s ct sn) (toXP st) :=
  bkBeamsplitter_refines st hI c s ct sn k l hkl hcs hts

/-- **two-mode gates, pure representation**: for all register sizes, cutoffs and distinct targets
in any order the fast path applies the embedded operator (given the kernel is the contraction of
axes 0, 1). -/
theorem fock_twomode_pure {K : Type} [Zero K] [Add K] [Mul K] (D : Nat) (mat : Nat → Nat → Nat → Nat → K)
    (t1 t2 : Nat) (h : t1 ≠ t2) (ψ : Tens K) :
    twoModePure (applyAt2 D mat 0 1) t1 t2 ψ = applyAt2 D mat t1 t2 ψ :=
  twoModePure_applyAt2 D mat t1 t2 h ψ

/-- before the `fix:` commit this held only when the second target is not mode 0 -/
theorem fock_twomode_pure_old_partial {K : Type} [Zero K] [Add K] [Mul K] (D : Nat)
    (mat : Nat → Nat → Nat → Nat → K) (t1 t2 : Nat) (h : t1 ≠ t2) (h0 : t2 ≠ 0) (ψ : Tens K) :
    twoModePureOld (applyAt2 D mat 0 1) t1 t2 ψ = applyAt2 D mat t1 t2 ψ :=
  twoModePureOld_applyAt2_partial D mat t1 t2 h h0 ψ

/-- a concrete witness of the old defect: targets `(1, 0)`, cutoff 2, the "swap" matrix -/
def e10 : Tens Int := fun idx => if idx 0 = 1 ∧ idx 1 = 0 then 1 else 0
def asym : Nat → Nat → Nat → Nat → Int := fun o1 i1 o2 i2 => if o1 = 1 ∧ i1 = 1 ∧ o2 = 0 ∧ i2 = 0 then 1 else 0
theorem fock_twomode_pure_old_counterexample :
    twoModePureOld (applyAt2 2 asym 0 1) 1 0 e10 (fun a => if a = 0 then 1 else 0)
      ≠ applyAt2 2 asym 1 0 e10 (fun a => if a = 0 then 1 else 0) := by decide

/-- **two-mode gates, mixed representation**: `ρ ↦ U ρ U†` on the row and column axes of the targets -/
theorem fock_twomode_mixed {K : Type} [Zero K] [Add K] [Mul K] (D : Nat)
    (mat matc : Nat → Nat → Nat → Nat → K) (m1 m2 : Nat) (h : m1 ≠ m2) (ρ : Tens K) :
    twoModeMixed (applyAt2 D mat 0 1) (applyAt2 D matc 0 1) m1 m2 ρ =
      applyAt2 D matc (2 * m1 + 1) (2 * m2 + 1) (applyAt2 D mat (2 * m1) (2 * m2) ρ) :=
  twoModeMixed_applyAt2 D mat matc m1 m2 h ρ

/-- **selection-rule kernels**: the shortened loops of `_apply_two_mode_passive` and `_apply_S2`
compute the full contraction on every valid index when the matrix obeys the selection rule -/
theorem fock_passive_kernel {K : Type} [Semiring K] (D : Nat) (mat : Nat → Nat → Nat → Nat → K)
    (hsel : ∀ i k j l, i + j ≠ k + l → mat i k j l = 0) (ψ : Tens K) :
    EqOn D (passiveKernel D mat ψ) (applyAt2 D mat 0 1 ψ) := passiveKernel_eq D mat hsel ψ

theorem fock_s2_kernel {K : Type} [Semiring K] (D : Nat) (mat : Nat → Nat → Nat → Nat → K)
    (hsel : ∀ i j k l, i + l ≠ j + k → mat i j k l = 0) (ψ : Tens K) :
    EqOn D (s2Kernel D mat ψ) (applyAt2 D mat 0 1 ψ) := s2Kernel_eq D mat hsel ψ

/-- **`apply_gate_BLAS`**, pure and mixed, one and two targets anywhere in a register of any size -/
theorem fock_blas_pure2 {K : Type} [Zero K] [Add K] [Mul K] (D n : Nat) (mat : Nat → Nat → Nat → Nat → K)
    (m1 m2 : Nat) (h12 : m1 ≠ m2) (h1 : m1 < n) (h2 : m2 < n) (ψ : Tens K) :
    blasPure2 D n mat m1 m2 ψ = applyAt2 D mat m1 m2 ψ := by
  obtain ⟨hp, a, b⟩ := blasList2_facts n m1 m2 h12 h1 h2
  exact blasPure2_applyAt2 D n mat m1 m2 hp a b ψ

theorem fock_blas_pure1 {K : Type} [Zero K] [Add K] [Mul K] (D n : Nat) (mat : Nat → Nat → K)
    (m : Nat) (h1 : m < n) (ψ : Tens K) :
    blasPure1 D n mat m ψ = applyAt1 D mat m ψ := by
  by_cases hn : n = 1
  · have : m = 0 := by omega
    subst this; simp [blasPure1, hn]
  · obtain ⟨hp, a⟩ := blasList1_facts n m h1
    exact blasPure1_applyAt1 D n mat m hn hp a ψ

theorem fock_blas_mixed2 {K : Type} [Zero K] [Add K] [Mul K] (D n : Nat) (mat matc : Nat → Nat → Nat → Nat → K)
    (m1 m2 : Nat) (h12 : m1 ≠ m2) (h1 : m1 < n) (h2 : m2 < n) (ρ : Tens K) :
    blasMixed2 D n mat matc m1 m2 ρ =
      applyAt2 D matc (2 * m1 + 1) (2 * m2 + 1) (applyAt2 D mat (2 * m1) (2 * m2) ρ) := by
  obtain ⟨hp, a, b, c, d⟩ := blasListMixed2_facts n m1 m2 h12 h1 h2
  exact blasMixed2_applyAt2 D n mat matc m1 m2 hp a b c d ρ

theorem fock_blas_mixed1 {K : Type} [Zero K] [Add K] [Mul K] (D n : Nat) (mat matc : Nat → Nat → K)
    (m : Nat) (h1 : m < n) (ρ : Tens K) :
    blasMixed1 D n mat matc m ρ = applyAt1 D matc (2 * m + 1) (applyAt1 D mat (2 * m) ρ) := by
  by_cases hn : n = 1
  · have : m = 0 := by omega
    subst this; simp [blasMixed1, hn]
  · obtain ⟨hp, a, b⟩ := blasListMixed1_facts n m h1
    exact blasMixed1_applyAt1 D n mat matc m hn hp a b ρ

/-- **bosonic simulator = the same phase-space calculation**: for a single-mode block `[[a, b], [c, d]]`
(rotation, squeezing, attenuation … as handed to `symp.expand`), the update of every component's means and
covariances through `expandS`/`update_means`/`update_covs` with the `from_xp` permutation is exactly
`linMap (rows1 k a b c d)` — the specification the Gaussian simulator refines
(`gaussian_program_refines`).  All register sizes, target positions, blocks. -/
theorem bosonic_single_mode_refines {K : Type} [CommRing K] (n k : Nat) (hk : k < n) (a b c d : K)
    (μ : Nat → K) (V : Nat → Nat → K) (hV : ∀ x y, V x y = V y x) (i j : Nat) (hi : i < n) (hj : j < n) :
    let μ' := Bos.updateMeans n (Bos.expand n [k] (Bos.block2 a b c d)) μ
    let V' := Bos.updateCovs n (Bos.expand n [k] (Bos.block2 a b c d)) (fun _ _ => 0) V
    (Bos.toXPb μ' V').mx i = (linMap (rows1 k a b c d) (Bos.toXPb μ V)).mx i ∧
    (Bos.toXPb μ' V').mp i = (linMap (rows1 k a b c d) (Bos.toXPb μ V)).mp i ∧
    (Bos.toXPb μ' V').xx i j = (linMap (rows1 k a b c d) (Bos.toXPb μ V)).xx i j ∧
    (Bos.toXPb μ' V').xp i j = (linMap (rows1 k a b c d) (Bos.toXPb μ V)).xp i j ∧
    (Bos.toXPb μ' V').pp i j = (linMap (rows1 k a b c d) (Bos.toXPb μ V)).pp i j := by
  intro μ' V'
  have hm := Bos.updateMeans_rows1 n k hk a b c d μ V i hi
  have hc := Bos.updateCovs_rows1 n k hk a b c d μ V hV i j hi hj
  exact ⟨hm.1, hm.2, hc.1, hc.2.1, hc.2.2⟩

/-- **bosonic simulator, any number of target modes in any order**: the matrix that `expandXY` hands to `apply_channel`, read
in the simulator's `(x₁, p₁, …)` ordering, is the block `S` embedded at the listed modes *in the listed order* — entry
`(r, c)` is `S[pos(mode r) + quad(r)·k, pos(mode c) + quad(c)·k]` when both modes are listed, `δ_rc` when the row's mode is a
spectator, `0` when only one of them is listed — for every register size, every list of modes, every block -/
theorem bosonic_multimode_embedding {K : Type} [Semiring K] (n : Nat) (hn : 0 < n) (modes : List Nat) (S : Nat → Nat → K)
    {r c : Nat} (hr : r < 2 * n) (hc : c < 2 * n) :
    SFV.Bos.permBoth n (SFV.Bos.expand n modes S) r c =
      if (r / 2) ∈ modes then
        (if (c / 2) ∈ modes then
          S (modes.idxOf (r / 2) + (r % 2) * modes.length) (modes.idxOf (c / 2) + (c % 2) * modes.length)
        else 0)
      else (if r = c then 1 else 0) := by
  by_cases hrm : (r / 2) ∈ modes
  · rw [if_pos hrm]; exact SFV.Bos.permBoth_expand_target_general n hn modes S hr hc hrm
  · rw [if_neg hrm]; exact SFV.Bos.permBoth_expand_spectator n hn modes S hr hc hrm

/-- **quadrature orderings**: the bosonic simulator's `from_xp` permutation is inverted by `to_xp`
(so `X[:, perm][perm, :]` re-expresses an xxpp matrix in the xpxp ordering of its means/covs) and
sends position `2i + a` to mode `i`, quadrature `a` -/
theorem bosonic_ordering {n r : Nat} (hn : 0 < n) (h : r < 2 * n) :
    Bos.toXp n (Bos.fromXp n r) = r ∧ Bos.fromXp n r % n = r / 2 ∧ Bos.fromXp n r < 2 * n :=
  ⟨Bos.toXp_fromXp hn h, Bos.fromXp_mode hn h, Bos.fromXp_lt h⟩

/-- **pure and mixed representation give the same state, for every program of gates**: on the flattened register space, applying
the (possibly truncated, non-unitary) gate matrices to the ket and forming `|ψ⟩⟨ψ|` equals applying `ρ ↦ UρU†` to `|ψ⟩⟨ψ|` —
induction over the gate list; with `fock_blas_pure*` / `fock_blas_mixed*` (both representations compute the embedded operator) this is
the "whether the Fock simulator is in its pure or mixed representation" clause -/
theorem fock_pure_mixed_agree {n : Type} [Fintype n] [DecidableEq n] (Us : List (Matrix n n ℂ)) (ψ : n → ℂ) :
    (let φ := Us.foldl (fun v U => U.mulVec v) ψ; Matrix.vecMulVec φ (star φ)) =
      SFV.FockPos.runOps (Us.map SFV.FockPos.FOp.gate) (Matrix.vecMulVec ψ (star ψ)) :=
  SFV.FockPos.pure_mixed_program Us ψ

/-! ### non-vacuity -/

/-- a three-mode program with a descending beamsplitter pair, a squeezer and thermal loss on a
spectator-carrying register meets the hypotheses (rational atoms: 3-4-5 and 5/4, 3/4) -/
def exProg : List (GOp Rat) :=
  [ .squeeze (3/5) (4/5) (5/4) (3/4) 2, .displace ⟨1/2, -1/3⟩ 1, .bs (4/5) (-3/5) (3/5) (4/5) 2 0,
    .thermalLoss (1/2) (3/8) 1, .phase 0 1 0 ]
example : ∀ op ∈ exProg, op.ok := by
  intro op h
  simp [exProg] at h
  rcases h with rfl | rfl | rfl | rfl | rfl <;> simp [GOp.ok] <;> norm_num
example : (toXP (exProg.foldl applyNM (vacuum 3))).xx 0 2 ≠ 0 := by
  rw [gaussian_program_refines exProg 3 (by
    intro op h; simp [exProg] at h
    rcases h with rfl | rfl | rfl | rfl | rfl <;> simp [GOp.ok] <;> norm_num)]
  decide +kernel
example : (2 : Nat) ≠ 0 ∧ (2 : Nat) < 3 ∧ (0 : Nat) < 3 := by decide

/-- a register program: squeeze mode 1 of two, add one mode, mix old mode 1 with the new mode 2, delete mode 0 -/
def exReg : List (ROp Rat) :=
  [ .op (.squeeze (3/5) (4/5) (5/4) (3/4) 1), .newModes 1, .op (.bs (4/5) (-3/5) (3/5) (4/5) 1 2), .delMode 0 ]
example : ((exReg.foldl applyNMR (vacuum 2)).n = 3) ∧ (toXP (exReg.foldl applyNMR (vacuum 2))).xx 1 2 ≠ 0 := by
  decide +kernel

end SFV.C01
