import SFV.Proofs.GaussCompile

/-!
# C11 — Gaussian-merging compilers return a program with the same net action

Statements about the model `SFV.Model.GaussCompile` (a transcription of `GaussianUnitary.compile`,
`_apply_symp_one_mode_gate`, `_apply_symp_two_mode_gate`, `Passive.compile`, `_apply_one_mode_gate`,
`_apply_two_mode_gate`, with the bookkeeping `used_modes` / `dict_indices` / `ord_reg`), tied to the code
by `harness/props/c11.py`.

* `NetEq n a b` / `EqOn m X Y`: equality of all entries in the `2n` (resp. `m`) rows that exist.
* `netSpecGU pos n cmds`: the ordered product, over the command list, of the documented block of every
  command (the block of the *inverse* when the command carries the dagger flag) embedded
  (`embedRows (xpRows …)` = `thewalrus.symplectic.expand`) at the positions `pos m` of its modes.
* The blocks themselves are inputs (validated numerically by the harness at rational points).

`gaussian_merge` is not modelled as an algorithm (its result depends on NetworkX iteration order); its
output is validated per instance by the certificate checker `checkMerge`, proved sound here in the K1
monoid setting.
-/
namespace SFV.C11
open SFV SFV.GC

/-- **row operations = embedded blocks (one mode).**  `_apply_symp_one_mode_gate(S_G, S, r, i)` on a
`2M × 2M` matrix is the product with the 2×2 block embedded at quadratures `(i, i + M)`. -/
theorem apply_one_mode_embed {K : Type} [CommRing K] (g : Mat K) (a : Net K) (M i : Nat) (hi : i < M) :
    NetEq M (applyOne g a M i)
      { S := mulE (2 * M) (embedRows (xpRows [i] M) g) a.S,
        r := ofCol (mulE (2 * M) (embedRows (xpRows [i] M) g) (asCol a.r)) } :=
  ⟨mix2_eq (2 * M) g i (i + M) (by omega) (by omega) (by omega) (fun _ _ _ => rfl),
   fun k hk => mix2_eq (2 * M) g i (i + M) (by omega) (by omega) (by omega)
     (fun _ _ _ => rfl : EqOn (2 * M) (asCol a.r) (asCol a.r)) k hk ()⟩

/-- **row operations = embedded blocks (two modes)**, for every size and every ordered pair of distinct
modes (ascending or descending). -/
theorem apply_two_mode_embed {K : Type} [CommRing K] (g : Mat K) (a : Net K) (M i j : Nat)
    (hi : i < M) (hj : j < M) (hij : i ≠ j) :
    NetEq M (applyTwo g a M i j)
      { S := mulE (2 * M) (embedRows (xpRows [i, j] M) g) a.S,
        r := ofCol (mulE (2 * M) (embedRows (xpRows [i, j] M) g) (asCol a.r)) } :=
  ⟨mix4_eq (2 * M) g i j (i + M) (j + M) hij (by omega) (by omega) (by omega) (by omega) (by omega)
     (by omega) (by omega) (by omega) (by omega) (fun _ _ _ => rfl),
   fun k hk => mix4_eq (2 * M) g i j (i + M) (j + M) hij (by omega) (by omega) (by omega) (by omega)
     (by omega) (by omega) (by omega) (by omega) (by omega)
     (fun _ _ _ => rfl : EqOn (2 * M) (asCol a.r) (asCol a.r)) k hk ()⟩

/-- **net_symplectic.**  For every register list, every command list over modes of that register
(any index set: non-contiguous, ≥ 9 modes, descending pairs), every dagger pattern and all block
entries: the emitted register list is exactly the set of used modes in ascending order, the matrix has
one x- and one p-row per emitted register, and the accumulated `(S_net, r_net)` equals the ordered
product of the embedded blocks (inverse block for daggered gates, negated displacement for a daggered
`Dgate`) *in the index order of the emitted register list*. -/
theorem net_symplectic {K : Type} [CommRing K] [DecidableEq K] (registers : List Nat)
    (cmds : List (GCmd K)) (hreg : ∀ c ∈ cmds, ∀ m ∈ c.regs, m ∈ registers)
    (hwf : ∀ c ∈ cmds, c.wf) :
    (compileGU registers cmds).regs = usedModes cmds ∧
    (compileGU registers cmds).n = (compileGU registers cmds).regs.length ∧
    NetEq (compileGU registers cmds).n ⟨(compileGU registers cmds).S, (compileGU registers cmds).r⟩
      (netSpecGU (fun m => (compileGU registers cmds).regs.idxOf m) (compileGU registers cmds).n cmds) :=
  compileGU_net registers cmds hreg hwf

/-- the hypothesis `hreg` (every used mode is a register) cannot be dropped: if a used mode is missing from
`registers` (this happened to a mode deleted with `Del`, which both compilers accepted as a primitive and
then ignored) the emitted register list is shorter than the matrix has mode rows.  Since the `fix:` commit
the compilers raise `CircuitError` for circuits with `New`/`Del` (checked by the oracle), and
`gaussian_merge` hands the registers of the merged operations to the inner compiler, which makes `hreg`
true by construction. -/
theorem net_symplectic_deleted_mode_counterexample :
    (compileGU [0] [({ regs := [0, 1], op := .blk2 (ident : Mat Int) ident } : GCmd Int)]).n = 2 ∧
    (compileGU [0] [({ regs := [0, 1], op := .blk2 (ident : Mat Int) ident } : GCmd Int)]).regs = [0] := by
  decide

/-- **emission.**  The `GaussianTransform` is omitted only when the accumulated matrix is the identity;
register `ord_reg[i]` gets a `Dgate` carrying `(r[i], r[i+n])` exactly when that pair is non-zero, and
nothing else is emitted. -/
theorem net_symplectic_emitted {K : Type} [CommRing K] [DecidableEq K] (registers : List Nat)
    (cmds : List (GCmd K)) :
    ((compileGU registers cmds).hasGT = false → ∀ i j, i < 2 * (compileGU registers cmds).n →
      j < 2 * (compileGU registers cmds).n → (compileGU registers cmds).S i j = ident i j) ∧
    (∀ i, i < (compileGU registers cmds).regs.length →
      ((compileGU registers cmds).r i = 0 ∧ (compileGU registers cmds).r (i + (compileGU registers cmds).n) = 0) ∨
      ((compileGU registers cmds).regs.getD i 0, (compileGU registers cmds).r i,
        (compileGU registers cmds).r (i + (compileGU registers cmds).n)) ∈ (compileGU registers cmds).dgates) ∧
    (∀ e ∈ (compileGU registers cmds).dgates, ∃ i, i < (compileGU registers cmds).regs.length ∧
      e = ((compileGU registers cmds).regs.getD i 0, (compileGU registers cmds).r i,
        (compileGU registers cmds).r (i + (compileGU registers cmds).n)) ∧
      ¬ ((compileGU registers cmds).r i = 0 ∧ (compileGU registers cmds).r (i + (compileGU registers cmds).n) = 0)) :=
  compileGU_emit registers cmds

/-- **net_passive.**  The same for the transfer matrix `T` of the `PassiveChannel` emitted by
`Passive.compile` (daggered gates contribute the block of the inverse). -/
theorem net_passive {K : Type} [CommRing K] (registers : List Nat) (cmds : List (PCmd K))
    (hreg : ∀ c ∈ cmds, ∀ m ∈ c.regs, m ∈ registers) (hwf : ∀ c ∈ cmds, c.wf) :
    (compileP registers cmds).regs = usedModesP cmds ∧
    (compileP registers cmds).n = (compileP registers cmds).regs.length ∧
    EqOn (compileP registers cmds).n (compileP registers cmds).T
      (netSpecP (fun m => (compileP registers cmds).regs.idxOf m) (compileP registers cmds).n cmds) :=
  compileP_net registers cmds hreg hwf

/-- the driver evaluates the model with tabulation after every iteration; that is the same function -/
theorem driver_runs_the_model {K : Type} [Zero K] [One K] [Add K] [Mul K] [Neg K] [DecidableEq K]
    (registers : List Nat) (c : List (GCmd K)) (p : List (PCmd K)) :
    compileGUFast registers c = compileGU registers c ∧ compilePFast registers p = compileP registers p :=
  ⟨compileGUFast_eq registers c, compilePFast_eq registers p⟩

/-- **mergeCert_sound.**  If `checkMerge` accepts the witness extracted from a `gaussian_merge` run and
every emitted block means the ordered product of its member commands (this is `net_symplectic` for the
block, re-validated numerically per instance), then the compiled circuit means the same as the source in
every monoid interpretation in which commands without a common wire commute. -/
theorem mergeCert_sound {M : Type} [Monoid M] (f : Cmd → M)
    (hcomm : ∀ a b, ¬ dep a b → f a * f b = f b * f a)
    (src out : List Cmd) (blocks : List MergeBlock) (segs : List Seg)
    (hblk : ∀ b ∈ blocks, ∀ ms es, lookupAll src b.members = some ms →
      lookupAll out b.emitted = some es → sem f es = sem f ms)
    (h : checkMerge src out blocks segs = true) : sem f out = sem f src :=
  checkMerge_sound f hcomm src out blocks segs hblk h

/-- **positions.**  An accepted witness exhibits the compiled circuit as a dependency-respecting
reordering of "source with every block made contiguous and replaced by its emitted commands": every
non-Gaussian command keeps its place relative to the blocks on its wires. -/
theorem mergeCert_positions (src out : List Cmd) (blocks : List MergeBlock) (segs : List Seg)
    (h : checkMerge src out blocks segs = true) :
    ∃ ss os, segs.mapM (segSrc src blocks) = some ss ∧ segs.mapM (segOut out blocks) = some os ∧
      Legal src ss.flatten ∧ Legal os.flatten out :=
  checkMerge_legal src out blocks segs h

/-! ### non-vacuity -/

/-- a rotation-like integer block and its inverse, a shear and its inverse -/
def rot : Mat Int := fun i j => if i = 0 ∧ j = 1 then -1 else if i = 1 ∧ j = 0 then 1 else 0
def roti : Mat Int := fun i j => if i = 0 ∧ j = 1 then 1 else if i = 1 ∧ j = 0 then -1 else 0
/-- a 4×4 block mixing two modes (CX-like): x₂ += x₁, p₁ −= p₂ -/
def cx : Mat Int := fun i j => if i = j then 1 else if i = 1 ∧ j = 0 then 1 else if i = 2 ∧ j = 3 then -1 else 0
def cxi : Mat Int := fun i j => if i = j then 1 else if i = 1 ∧ j = 0 then -1 else if i = 2 ∧ j = 3 then 1 else 0

/-- modes {8, 1} (hash order ≠ numeric order), descending pair, daggered gates, a displacement -/
def exCmds : List (GCmd Int) :=
  [ { regs := [8], op := .blk1 rot roti },
    { regs := [1], op := .disp 2 3, dagger := true },
    { regs := [8, 1], op := .blk2 cx cxi, dagger := true },
    { regs := [1], op := .blk1 rot roti, dagger := true } ]

theorem exCmds_wf : ∀ c ∈ exCmds, c.wf := by
  intro c hc
  simp only [exCmds, List.mem_cons, List.not_mem_nil, or_false] at hc
  rcases hc with rfl | rfl | rfl | rfl <;> simp [GCmd.wf]

example : (∀ c ∈ exCmds, ∀ m ∈ c.regs, m ∈ List.range 10) ∧ (∀ c ∈ exCmds, c.wf) :=
  ⟨by decide, exCmds_wf⟩
/-- the emitted registers are `[1, 8]`; row 0 (x of mode 1) is not an identity row -/
example : (compileGU (List.range 10) exCmds).regs = [1, 8] ∧ (compileGU (List.range 10) exCmds).n = 2 ∧
    (compileGU (List.range 10) exCmds).hasGT = true ∧
    (List.range 4).map ((compileGU (List.range 10) exCmds).S 0) = [0, 0, 1, 0] ∧
    (List.range 4).map (compileGU (List.range 10) exCmds).r = [-3, 0, 2, -3] ∧
    (compileGU (List.range 10) exCmds).dgates = [(1, -3, 2), (8, 0, -3)] := by decide

example : compileGUFast (List.range 10) exCmds = compileGU (List.range 10) exCmds :=
  (driver_runs_the_model (List.range 10) exCmds ([] : List (PCmd Int))).1

def exP : List (PCmd Int) :=
  [ { regs := [8], op := .one 2 3 }, { regs := [8, 1], op := .two cx cxi, dagger := true },
    { regs := [1], op := .one 5 7, dagger := true } ]
example : (∀ c ∈ exP, ∀ m ∈ c.regs, m ∈ List.range 10) ∧ (∀ c ∈ exP, c.wf) :=
  ⟨by decide, by
    intro c hc
    simp only [exP, List.mem_cons, List.not_mem_nil, or_false] at hc
    rcases hc with rfl | rfl | rfl <;> simp [PCmd.wf]⟩
example : (compileP (List.range 10) exP).regs = [1, 8] ∧
    (List.range 2).map ((compileP (List.range 10) exP).T 0) = [7, -14] := by decide

/-- hybrid circuit `R(q0) R(q1) BS(q0,q1) K(q1) R(q1) D(q1)`: the two blocks, the Kerr gate kept in between -/
def mSrc : List Cmd :=
  [ { id := 0, cls := "Rgate", regs := [0] }, { id := 1, cls := "Rgate", regs := [1] },
    { id := 2, cls := "BSgate", regs := [0, 1] }, { id := 3, cls := "Kgate", regs := [1] },
    { id := 4, cls := "Rgate", regs := [1] }, { id := 5, cls := "Dgate", regs := [1] } ]
def mOut : List Cmd :=
  [ { id := 10, cls := "GaussianTransform", regs := [0, 1] }, { id := 3, cls := "Kgate", regs := [1] },
    { id := 11, cls := "GaussianTransform", regs := [1] }, { id := 12, cls := "Dgate", regs := [1] } ]
def mBlocks : List MergeBlock := [⟨[0, 1, 2], [10]⟩, ⟨[4, 5], [11, 12]⟩]
example : checkMerge mSrc mOut mBlocks [.block 0, .keep 3, .block 1] = true := by decide
/-- moving the Kerr gate in front of the block that precedes it on its wire is rejected -/
example : checkMerge mSrc [mOut[1]!, mOut[0]!, mOut[2]!, mOut[3]!] mBlocks [.keep 3, .block 0, .block 1] = false := by
  decide

end SFV.C11
