import SFV.Proofs.GaussCompile
import SFV.Proofs.GaussBlocks
import SFV.Proofs.GaussMerge

/-!
# C11 — Gaussian-merging compilers return a program with the same net action

Statements about the model `SFV.Model.GaussCompile` (a transcription of `GaussianUnitary.compile`,
`_apply_symp_one_mode_gate`, `_apply_symp_two_mode_gate`, `Passive.compile`, `_apply_one_mode_gate`,
`_apply_two_mode_gate`, with the bookkeeping `used_modes` / `dict_indices` / `ord_reg`), tied to the code
by `harness/props/c11.py`.

* `NetEq n a b` / `EqOn m X Y`: equality of all entries in the `2n` (resp. `m`) rows that exist.
* `netSpecGU pos n cmds`: the ordered product, over the command list, of the documented block of every
  command (the block of the *inverse* when the command carries the dagger flag) embedded
  (`embedRows (xpRows …)` = `thewalrus.symplectic.expand`) at the positions `pos m` of its modes.
* The blocks themselves are inputs (validated numerically by the harness at rational points).

`gaussian_merge` is not modelled as an algorithm (its result depends on NetworkX iteration order); its
output is validated per instance by the certificate checker `checkMerge`, proved sound here in the K1
monoid setting.
-/
namespace SFV.C11
open SFV SFV.GC SFV.Gauss Matrix

/-- **row operations = embedded blocks (one mode).**  `_apply_symp_one_mode_gate(S_G, S, r, i)` on a
`2M × 2M` matrix is the product with the 2×2 block embedded at quadratures `(i, i + M)`. -/
theorem apply_one_mode_embed {K : Type} [CommRing K] (g : Mat K) (a : Net K) (M i : Nat) (hi : i < M) :
    NetEq M (applyOne g a M i)
      { S := mulE (2 * M) (embedRows (xpRows [i] M) g) a.S,
        r := ofCol (mulE (2 * M) (embedRows (xpRows [i] M) g) (asCol a.r)) } :=
  ⟨mix2_eq (2 * M) g i (i + M) (by omega) (by omega) (by omega) (fun _ _ _ => rfl),
   fun k hk => mix2_eq (2 * M) g i (i + M) (by omega) (by omega) (by omega)
     (fun _ _ _ => rfl : EqOn (2 * M) (asCol a.r) (asCol a.r)) k hk ()⟩

/-- **row operations = embedded blocks (two modes)**, for every size and every ordered pair of distinct
modes (ascending or descending). -/
theorem apply_two_mode_embed {K : Type} [CommRing K] (g : Mat K) (a : Net K) (M i j : Nat)
    (hi : i < M) (hj : j < M) (hij : i ≠ j) :
    NetEq M (applyTwo g a M i j)
      { S := mulE (2 * M) (embedRows (xpRows [i, j] M) g) a.S,
        r := ofCol (mulE (2 * M) (embedRows (xpRows [i, j] M) g) (asCol a.r)) } :=
  ⟨mix4_eq (2 * M) g i j (i + M) (j + M) hij (by omega) (by omega) (by omega) (by omega) (by omega)
     (by omega) (by omega) (by omega) (by omega) (fun _ _ _ => rfl),
   fun k hk => mix4_eq (2 * M) g i j (i + M) (j + M) hij (by omega) (by omega) (by omega) (by omega)
     (by omega) (by omega) (by omega) (by omega) (by omega)
     (fun _ _ _ => rfl : EqOn (2 * M) (asCol a.r) (asCol a.r)) k hk ()⟩

/-- **net_symplectic.**  For every register list, every command list over modes of that register
(any index set: non-contiguous, ≥ 9 modes, descending pairs), every dagger pattern and all block
entries: the emitted register list is exactly the set of used modes in ascending order, the matrix has
one x- and one p-row per emitted register, and the accumulated `(S_net, r_net)` equals the ordered
product of the embedded blocks (inverse block for daggered gates, negated displacement for a daggered
`Dgate`) *in the index order of the emitted register list*. -/
theorem net_symplectic {K : Type} [CommRing K] [DecidableEq K] (registers : List Nat)
    (cmds : List (GCmd K)) (hreg : ∀ c ∈ cmds, ∀ m ∈ c.regs, m ∈ registers)
    (hwf : ∀ c ∈ cmds, c.wf) :
    (compileGU registers cmds).regs = usedModes cmds ∧
    (compileGU registers cmds).n = (compileGU registers cmds).regs.length ∧
    NetEq (compileGU registers cmds).n ⟨(compileGU registers cmds).S, (compileGU registers cmds).r⟩
      (netSpecGU (fun m => (compileGU registers cmds).regs.idxOf m) (compileGU registers cmds).n cmds) :=
  compileGU_net registers cmds hreg hwf

/-- the hypothesis `hreg` (every used mode is a register) cannot be dropped: if a used mode is missing from
`registers` (this happened to a mode deleted with `Del`, which both compilers accepted as a primitive and
then ignored) the emitted register list is shorter than the matrix has mode rows.  Since the `fix:` commit
the compilers raise `CircuitError` for circuits with `New`/`Del` (checked by the oracle), and
`gaussian_merge` hands the registers of the merged operations to the inner compiler, which makes `hreg`
true by construction. -/
theorem net_symplectic_deleted_mode_counterexample :
    (compileGU [0] [({ regs := [0, 1], op := .blk2 (ident : Mat Int) ident } : GCmd Int)]).n = 2 ∧
    (compileGU [0] [({ regs := [0, 1], op := .blk2 (ident : Mat Int) ident } : GCmd Int)]).regs = [0] := by
  decide

/-- **emission.**  The `GaussianTransform` is omitted only when the accumulated matrix is the identity;
register `ord_reg[i]` gets a `Dgate` carrying `(r[i], r[i+n])` exactly when that pair is non-zero, and
nothing else is emitted. -/
theorem net_symplectic_emitted {K : Type} [CommRing K] [DecidableEq K] (registers : List Nat)
    (cmds : List (GCmd K)) :
    ((compileGU registers cmds).hasGT = false → ∀ i j, i < 2 * (compileGU registers cmds).n →
      j < 2 * (compileGU registers cmds).n → (compileGU registers cmds).S i j = ident i j) ∧
    (∀ i, i < (compileGU registers cmds).regs.length →
      ((compileGU registers cmds).r i = 0 ∧ (compileGU registers cmds).r (i + (compileGU registers cmds).n) = 0) ∨
      ((compileGU registers cmds).regs.getD i 0, (compileGU registers cmds).r i,
        (compileGU registers cmds).r (i + (compileGU registers cmds).n)) ∈ (compileGU registers cmds).dgates) ∧
    (∀ e ∈ (compileGU registers cmds).dgates, ∃ i, i < (compileGU registers cmds).regs.length ∧
      e = ((compileGU registers cmds).regs.getD i 0, (compileGU registers cmds).r i,
        (compileGU registers cmds).r (i + (compileGU registers cmds).n)) ∧
      ¬ ((compileGU registers cmds).r i = 0 ∧ (compileGU registers cmds).r (i + (compileGU registers cmds).n) = 0)) :=
  compileGU_emit registers cmds

/-- **net_passive.**  The same for the transfer matrix `T` of the `PassiveChannel` emitted by
`Passive.compile` (daggered gates contribute the block of the inverse). -/
theorem net_passive {K : Type} [CommRing K] (registers : List Nat) (cmds : List (PCmd K))
    (hreg : ∀ c ∈ cmds, ∀ m ∈ c.regs, m ∈ registers) (hwf : ∀ c ∈ cmds, c.wf) :
    (compileP registers cmds).regs = usedModesP cmds ∧
    (compileP registers cmds).n = (compileP registers cmds).regs.length ∧
    EqOn (compileP registers cmds).n (compileP registers cmds).T
      (netSpecP (fun m => (compileP registers cmds).regs.idxOf m) (compileP registers cmds).n cmds) :=
  compileP_net registers cmds hreg hwf

/-- the driver evaluates the model with tabulation after every iteration; that is the same function -/
theorem driver_runs_the_model {K : Type} [Zero K] [One K] [Add K] [Mul K] [Neg K] [DecidableEq K]
    (registers : List Nat) (c : List (GCmd K)) (p : List (PCmd K)) :
    compileGUFast registers c = compileGU registers c ∧ compilePFast registers p = compileP registers p :=
  ⟨compileGUFast_eq registers c, compilePFast_eq registers p⟩

/-- **mergeCert_sound.**  If `checkMerge` accepts the witness extracted from a `gaussian_merge` run and
every emitted block means the ordered product of its member commands (this is `net_symplectic` for the
block, re-validated numerically per instance), then the compiled circuit means the same as the source in
every monoid interpretation in which commands without a common wire commute. -/
theorem mergeCert_sound {M : Type} [Monoid M] (f : Cmd → M)
    (hcomm : ∀ a b, ¬ dep a b → f a * f b = f b * f a)
    (src out : List Cmd) (blocks : List MergeBlock) (segs : List Seg)
    (hblk : ∀ b ∈ blocks, ∀ ms es, lookupAll src b.members = some ms →
      lookupAll out b.emitted = some es → sem f es = sem f ms)
    (h : checkMerge src out blocks segs = true) : sem f out = sem f src :=
  checkMerge_sound f hcomm src out blocks segs hblk h

/-- **positions.**  An accepted witness exhibits the compiled circuit as a dependency-respecting
reordering of "source with every block made contiguous and replaced by its emitted commands": every
non-Gaussian command keeps its place relative to the blocks on its wires. -/
theorem mergeCert_positions (src out : List Cmd) (blocks : List MergeBlock) (segs : List Seg)
    (h : checkMerge src out blocks segs = true) :
    ∃ ss os, segs.mapM (segSrc src blocks) = some ss ∧ segs.mapM (segOut out blocks) = some os ∧
      Legal src ss.flatten ∧ Legal os.flatten out :=
  checkMerge_legal src out blocks segs h

/-! ### non-vacuity -/

/-- a rotation-like integer block and its inverse, a shear and its inverse -/
def rot : Mat Int := fun i j => if i = 0 ∧ j = 1 then -1 else if i = 1 ∧ j = 0 then 1 else 0
def roti : Mat Int := fun i j => if i = 0 ∧ j = 1 then 1 else if i = 1 ∧ j = 0 then -1 else 0
/-- a 4×4 block mixing two modes (CX-like): x₂ += x₁, p₁ −= p₂ -/
def cx : Mat Int := fun i j => if i = j then 1 else if i = 1 ∧ j = 0 then 1 else if i = 2 ∧ j = 3 then -1 else 0
def cxi : Mat Int := fun i j => if i = j then 1 else if i = 1 ∧ j = 0 then -1 else if i = 2 ∧ j = 3 then 1 else 0


/-! ### the blocks are the documented ones (`Model/GaussBlocks.lean`)

Since the deepening round the blocks of `Dgate Rgate Sgate BSgate S2gate MZgate sMZgate` are built by the model
from the parameter atoms (`Gate.cmd`); only `Interferometer` / `GaussianTransform` / `PassiveChannel` matrices,
which *are* user data, still enter as data. -/

/-- **inverse blocks.**  The block the model uses for a daggered gate (negated first parameter for rotation,
squeezing, beamsplitter, two-mode squeezing; adjoint unitary for the Mach-Zehnder gates, for which "negate the
first parameter" would be wrong) is the inverse of the gate's block — i.e. what `np.linalg.inv` / `.conj().T`
return — for all parameter values. -/
theorem documented_inverses {K : Type} [CommRing K] :
    (∀ c s : K, c * c + s * s = 1 → LeftInv 2 (rotBlock c (-s)) (rotBlock c s)) ∧
    (∀ c s ch sh : K, c * c + s * s = 1 → ch * ch - sh * sh = 1 →
      LeftInv 2 (sqBlock c s ch (-sh)) (sqBlock c s ch sh)) ∧
    (∀ ct st c s : K, c * c + s * s = 1 → ct * ct + st * st = 1 →
      LeftInv 4 (bsBlock ct (-st) c s) (bsBlock ct st c s)) ∧
    (∀ c s ch sh : K, c * c + s * s = 1 → ch * ch - sh * sh = 1 →
      LeftInv 4 (s2Block c s ch (-sh)) (s2Block c s ch sh)) ∧
    (∀ (h : K) (v u : Cx K), h + h = 1 → v.re * v.re + v.im * v.im = 1 → u.re * u.re + u.im * u.im = 1 →
      LeftInv 4 (ofU (adjU (mzU h v u))) (ofU (mzU h v u))) ∧
    (∀ (es : Cx K) (cd sd : K), es.re * es.re + es.im * es.im = 1 → cd * cd + sd * sd = 1 →
      LeftInv 4 (ofU (adjU (smzU es cd sd))) (ofU (smzU es cd sd))) :=
  ⟨rot_inv, sq_inv, fun ct st c s h1 h2 => bs_inv ct st c s h1 h2, s2_inv,
   fun h v u hh hv hu => ofU_adj_inv _ (mz_unitary h v u hh hv hu),
   fun es cd sd he hd => ofU_adj_inv _ (smz_unitary es cd sd he hd)⟩

/-- **embedded blocks = documented rows.**  For every register size and position the rotation, squeezing and
beamsplitter blocks, embedded by `expand`, are entry by entry the matrices of the documented rows `rotRows`,
`squeezeRows`, `bsRows` of `Model/PhaseSpace.lean` (which the Gaussian simulator is proved to refine, C01, and
which are proved symplectic, C07); `BSgate(θ, φ)` is the simulator's `beamsplitter(−θ, −φ)`. -/
theorem blocks_are_documented_rows {K : Type} [CommRing K] (n k l : Nat) (hk : k < n) (hl : l < n) (hkl : k ≠ l)
    (i j : Nat) (hi : i < 2 * n) (hj : j < 2 * n) :
    (∀ c s : K, embedRows (xpRows [k] n) (rotBlock c s) i j = rowsMat n (rotRows k c s) i j) ∧
    (∀ c s ch sh : K, embedRows (xpRows [k] n) (sqBlock c s ch sh) i j = rowsMat n (squeezeRows k c s ch sh) i j) ∧
    (∀ ct st c s : K,
      embedRows (xpRows [k, l] n) (bsBlock ct st c s) i j = rowsMat n (bsRows k l c (-s) ct (-st)) i j) :=
  ⟨fun c s => rot_rows n k hk c s i j hi hj, fun c s ch sh => sq_rows n k hk c s ch sh i j hi hj,
   fun ct st c s => bs_rows n k l hk hl hkl ct st c s i j hi hj⟩

/-- **net_symplectic, documented form.**  For every circuit of (possibly daggered) rotations, squeezers and
beamsplitters on any index set, the emitted matrix — as a Mathlib matrix over the quadratures of the emitted
registers — is the ordered product of the matrices of the documented rows. -/
theorem net_symplectic_documented {K : Type} [CommRing K] [DecidableEq K] (registers : List Nat)
    (l : List (Applied K)) (hreg : ∀ a ∈ l, ∀ m ∈ a.regs, m ∈ registers) (hrows : ∀ a ∈ l, a.hasRows) :
    toMat (compileGU registers (l.map Applied.cmd)).n (compileGU registers (l.map Applied.cmd)).S =
      (l.map fun a => rowsMatrix (compileGU registers (l.map Applied.cmd)).n
        (a.rows fun m => (compileGU registers (l.map Applied.cmd)).regs.idxOf m)).foldl (fun P M => M * P) 1 :=
  compileGU_documented registers l hreg hrows

/-- **compiled = source on the Gaussian simulator's specification.**  Running the source gates (modes relabelled
by their position in the emitted register list) through the phase-space specification that `GaussianModes`
refines (`applyXP`, C01) transforms a symmetric covariance `V` into `S_net V S_netᵀ` with the emitted matrix. -/
theorem compiled_is_source_on_simulator {K : Type} [CommRing K] [DecidableEq K] (registers : List Nat)
    (l : List (Applied K)) (hreg : ∀ a ∈ l, ∀ m ∈ a.regs, m ∈ registers) (hrows : ∀ a ∈ l, a.hasRows)
    (V : XP K) (hxx : ∀ i j, V.xx i j = V.xx j i) (hpp : ∀ i j, V.pp i j = V.pp j i) :
    covMatrix (compileGU registers (l.map Applied.cmd)).n
        ((l.map (Applied.gop fun m => (compileGU registers (l.map Applied.cmd)).regs.idxOf m)).foldl applyXP V) =
      toMat (compileGU registers (l.map Applied.cmd)).n (compileGU registers (l.map Applied.cmd)).S *
        covMatrix (compileGU registers (l.map Applied.cmd)).n V *
        (toMat (compileGU registers (l.map Applied.cmd)).n (compileGU registers (l.map Applied.cmd)).S)ᵀ :=
  compileGU_source_cov registers l hreg hrows V hxx hpp

/-- **compiled = source, full affine statement.**  Rotations, squeezers, beamsplitters *and displacements*, any
dagger pattern, any index set: the source gates run through the simulator's specification take `(μ, V)` to
`(S_net μ + r_net, S_net V S_netᵀ)` with the emitted matrix and displacement vector. -/
theorem compiled_is_source_on_simulator_affine {K : Type} [CommRing K] [DecidableEq K] (registers : List Nat)
    (l : List (Applied K)) (hreg : ∀ a ∈ l, ∀ m ∈ a.regs, m ∈ registers)
    (hok : ∀ a ∈ l, a.hasRows ∨ a.isD = true) (V : XP K)
    (hxx : ∀ i j, V.xx i j = V.xx j i) (hpp : ∀ i j, V.pp i j = V.pp j i) :
    covMatrix (compileGU registers (l.map Applied.cmd)).n
        ((l.map (Applied.gop' fun m => (compileGU registers (l.map Applied.cmd)).regs.idxOf m)).foldl applyXP V) =
      toMat (compileGU registers (l.map Applied.cmd)).n (compileGU registers (l.map Applied.cmd)).S *
        covMatrix (compileGU registers (l.map Applied.cmd)).n V *
        (toMat (compileGU registers (l.map Applied.cmd)).n (compileGU registers (l.map Applied.cmd)).S)ᵀ ∧
    meanVec (compileGU registers (l.map Applied.cmd)).n
        ((l.map (Applied.gop' fun m => (compileGU registers (l.map Applied.cmd)).regs.idxOf m)).foldl applyXP V) =
      toMat (compileGU registers (l.map Applied.cmd)).n (compileGU registers (l.map Applied.cmd)).S *ᵥ
        meanVec (compileGU registers (l.map Applied.cmd)).n V +
      toVec (compileGU registers (l.map Applied.cmd)).n (compileGU registers (l.map Applied.cmd)).r :=
  compileGU_source_aff registers l hreg hok V hxx hpp

/-- **compiled = source on the Gaussian back end's model.**  With C01's refinement (`applyNM_program`): the
entrywise `nmat / mmat / mean` updates of `GaussianModes`, run on the source gates (atoms with `c² + s² = 1`,
`ch² − sh² = 1`, distinct beamsplitter modes) from any state satisfying its invariant, produce exactly the state
the emitted `GaussianTransform` + `Dgate`s describe. -/
theorem compiled_is_source_on_gaussian_backend {K : Type} [CommRing K] [DecidableEq K] (registers : List Nat)
    (l : List (Applied K)) (hreg : ∀ a ∈ l, ∀ m ∈ a.regs, m ∈ registers)
    (hok : ∀ a ∈ l, a.hasRows ∨ a.isD = true)
    (hatoms : ∀ a ∈ l, (a.gop' fun m => (compileGU registers (l.map Applied.cmd)).regs.idxOf m).ok)
    (st : GS K) (hI : NMInv st) :
    covMatrix (compileGU registers (l.map Applied.cmd)).n (toXP
        ((l.map (Applied.gop' fun m => (compileGU registers (l.map Applied.cmd)).regs.idxOf m)).foldl applyNM st)) =
      toMat (compileGU registers (l.map Applied.cmd)).n (compileGU registers (l.map Applied.cmd)).S *
        covMatrix (compileGU registers (l.map Applied.cmd)).n (toXP st) *
        (toMat (compileGU registers (l.map Applied.cmd)).n (compileGU registers (l.map Applied.cmd)).S)ᵀ ∧
    meanVec (compileGU registers (l.map Applied.cmd)).n (toXP
        ((l.map (Applied.gop' fun m => (compileGU registers (l.map Applied.cmd)).regs.idxOf m)).foldl applyNM st)) =
      toMat (compileGU registers (l.map Applied.cmd)).n (compileGU registers (l.map Applied.cmd)).S *ᵥ
        meanVec (compileGU registers (l.map Applied.cmd)).n (toXP st) +
      toVec (compileGU registers (l.map Applied.cmd)).n (compileGU registers (l.map Applied.cmd)).r :=
  compileGU_source_backend registers l hreg hok hatoms st hI

/-! ### the code before the `fix:` commits -/

/-- the pre-fix accumulation (`used_modes` in hash order `ord`, dagger flags ignored) is right only when the hash
order is the ascending order and nothing is daggered -/
theorem net_symplectic_old_partial {K : Type} [CommRing K] [DecidableEq K] (registers : List Nat)
    (cmds : List (GCmd K)) (hd : ∀ c ∈ cmds, c.dagger = false) :
    compileGUOld (usedModes cmds) registers cmds = compileGU registers cmds :=
  compileGUOld_eq registers cmds hd

/-- hash order `[8, 1]`: a rotation of mode 8 ends up in the rows of the first emitted register, mode 1 -/
theorem net_symplectic_old_hashorder_counterexample :
    (compileGUOld [8, 1] (List.range 10) [({ regs := [8], op := .blk1 rot roti } : GCmd Int)]).regs = [1, 8] ∧
    (compileGUOld [8, 1] (List.range 10) [({ regs := [8], op := .blk1 rot roti } : GCmd Int)]).S 0 2 = -1 ∧
    (netSpecGU (fun m => [1, 8].idxOf m) 2 [({ regs := [8], op := .blk1 rot roti } : GCmd Int)]).S 0 2 = 0 := by
  decide

/-- a daggered gate was merged as if it were not inverted -/
theorem net_symplectic_old_dagger_counterexample :
    (compileGUOld [0] [0] [({ regs := [0], dagger := true, op := .blk1 rot roti } : GCmd Int)]).S 0 1 = -1 ∧
    (netSpecGU (fun m => [0].idxOf m) 1 [({ regs := [0], dagger := true, op := .blk1 rot roti } : GCmd Int)]).S 0 1 = 1 := by
  decide

/-! ### gaussian_merge: the repaired graph surgery -/

/-- **surgery, order relative to the block.**  `surgeryEdges l ms g ds` is the edge set of `new_DAG` after
`merge_a_gaussian_op` replaced the commands `ms` of the circuit `l` by `g :: ds` (compared with the real graph
on every merge step).  In *every* list in which these edges point forward — every topological sort NetworkX may
return — two commands that stay and share a wire keep their order, and a command that stays and shares a wire
with a merged command that follows (precedes) it comes before (after) the first emitted command. -/
theorem merge_surgery_order (l ms ds : List Cmd) (g : Cmd) (out : List Cmd)
    (hf : forward (surgeryEdges l ms g ds) out = true) (a b : Cmd) (hb : Before l a b) (hd : dep a b) :
    (a ∉ ms → b ∉ ms → out.idxOf a < out.idxOf b) ∧
    (a ∉ ms → b ∈ ms → out.idxOf a < out.idxOf g) ∧
    (a ∈ ms → b ∉ ms → out.idxOf g < out.idxOf b) := by
  have h := surgery_order l ms ds g out hf hb hd
  refine ⟨fun ha hb' => ?_, fun ha hb' => ?_, fun ha hb' => ?_⟩ <;>
    rcases h with h | ⟨h1, h2⟩ <;> first | (simpa [cpos, ha, hb'] using h) | exact absurd h1 ha | exact absurd h2 hb'

/-- **surgery, predecessors precede everything that is emitted** — also when the block reduces to displacement
gates alone (`g` is then the first `Dgate`, `ds` the others; seeded change C11-b1 dropped the edges `g → d`): a
command that stays and shares a wire with a merged command that follows it comes before `g` and before every
`d ∈ ds`. -/
theorem merge_surgery_pred_before_all_emitted (l ms ds : List Cmd) (g : Cmd) (out : List Cmd)
    (hf : forward (surgeryEdges l ms g ds) out = true) (a b : Cmd) (hb : Before l a b) (hd : dep a b)
    (ha : a ∉ ms) (hbm : b ∈ ms) : ∀ e ∈ g :: ds, out.idxOf a < out.idxOf e := by
  have hg : out.idxOf a < out.idxOf g := by
    rcases surgery_order l ms ds g out hf hb hd with h | ⟨h1, _⟩
    · simpa [cpos, ha, hbm] using h
    · exact absurd h1 ha
  intro e he
  rcases List.mem_cons.1 he with rfl | he
  · exact hg
  · have : out.idxOf g < out.idxOf e := by
      simp only [forward, List.all_eq_true, decide_eq_true_eq] at hf
      refine hf (g, e) ?_
      simp only [surgeryEdges, List.mem_append, List.mem_map]
      exact Or.inr ⟨e, he, rfl⟩
    omega

/-- without the edges `g → d` (C11-b1) `Sgate|1; Kgate|1; BS|(0,1); D|0; D|1; BS.H|(0,1)` admits the order in
which the displacement of mode 1 is emitted before the Kerr gate of mode 1 -/
def dSrc : List Cmd :=
  [ { id := 0, cls := "Sgate", regs := [1] }, { id := 1, cls := "Kgate", regs := [1] },
    { id := 2, cls := "BSgate", regs := [0, 1] }, { id := 3, cls := "Dgate", regs := [0] },
    { id := 4, cls := "Dgate", regs := [1] }, { id := 5, cls := "BSgate", regs := [0, 1] } ]
def dD0 : Cmd := { id := 10, cls := "Dgate", regs := [0] }
def dD1 : Cmd := { id := 11, cls := "Dgate", regs := [1] }
theorem merge_displacements_only_counterexample :
    forward (surgeryEdges dSrc (dSrc.drop 2) dD0 []) [dD1, dSrc[0]!, dSrc[1]!, dD0] = true ∧
    forward (surgeryEdges dSrc (dSrc.drop 2) dD0 [dD1]) [dD1, dSrc[0]!, dSrc[1]!, dD0] = false ∧
    forward (surgeryEdges dSrc (dSrc.drop 2) dD0 [dD1]) [dSrc[0]!, dSrc[1]!, dD0, dD1] = true ∧
    checkMerge dSrc [dD1, dSrc[0]!, dSrc[1]!, dD0] [⟨[2, 3, 4, 5], [10, 11]⟩] [.keep 0, .keep 1, .block 0] = false := by
  decide

/-- **surgery, order relative to an emitted displacement gate** on mode `q` (no measured-parameter
dependencies on `q`): a command that stays, acts on `q` and follows a merged command on `q` comes after it. -/
theorem merge_surgery_order_disp (l ms ds : List Cmd) (g d : Cmd) (out : List Cmd) (q : Nat)
    (hf : forward (surgeryEdges l ms g ds) out = true) (hd : d ∈ ds) (hq : q ∈ d.regs)
    (hregs : ∀ c ∈ l, q ∈ c.wires → q ∈ c.regs)
    (a b : Cmd) (hb : Before l a b) (ha : q ∈ a.wires) (hbq : q ∈ b.wires) (ham : a ∈ ms) (hbm : b ∉ ms) :
    out.idxOf d < out.idxOf b :=
  surgery_order_disp l ms ds g d out q hf hd hq hregs hb ha hbq ham hbm

/-- **the surgery is sound (all three order theorems packaged).**  Under `SurgeryHyp` — `out` consists of exactly
the staying and the emitted commands, all edges of `surgeryEdges l ms g ds` point forward in it, the emitted `ds`
are displacement gates on different modes that merged commands act on, no measured-parameter dependencies — the
output is obtained by two legal reorderings around "merged commands made adjacent and replaced by the emitted ones",
for every circuit, every member set and every topological sort. -/
theorem merge_surgery_legal (l ms ds : List Cmd) (g : Cmd) (out : List Cmd) (h : SurgeryHyp l ms ds g out) :
    Legal l (preOf g ds out ++ membersOf l ms ++ postOf g ds out) ∧
    Legal (preOf g ds out ++ (g :: ds) ++ postOf g ds out) out :=
  ⟨h.legal_src, h.legal_out⟩

/-- … hence, if the emitted commands mean the ordered product of the merged ones (`net_symplectic` for the inner
`GaussianUnitary.compile`), the result of a merge step means the same as the circuit before it, in every monoid
interpretation in which commands without a common wire commute. -/
theorem merge_surgery_sound {M : Type} [Monoid M] (f : Cmd → M)
    (hcomm : ∀ a b, ¬ dep a b → f a * f b = f b * f a) (l ms ds : List Cmd) (g : Cmd) (out : List Cmd)
    (h : SurgeryHyp l ms ds g out) (hblk : sem f (g :: ds) = sem f (membersOf l ms)) :
    sem f out = sem f l :=
  h.sem_eq f hcomm hblk

/-- **surgery, cancelling block.**  When the merged commands compose to the identity nothing is emitted and
`new_DAG` has the edges `surgeryEdgesNil l ms` (staying edges, and every predecessor of a merged command connected
to every successor of one).  In every list in which these edges point forward, two commands that stay and share a
wire keep their order — for all circuits and all member sets. -/
theorem merge_surgery_cancelled_order (l ms out : List Cmd) (hf : forward (surgeryEdgesNil l ms) out = true)
    (a b : Cmd) (hb : Before l a b) (hd : dep a b) (ha : a ∉ ms) (hbm : b ∉ ms) :
    out.idxOf a < out.idxOf b :=
  surgeryNil_order l ms out hf hb hd ha hbm

/-- the predecessor → successor edges are needed: with only the staying edges (the merged nodes "simply removed")
`Vgate | q0; CKgate | (q0,q1); Rgate(a) | q1; Rgate(−a) | q1; Vgate | q1` admits the order in which the last
`Vgate` is emitted before the `CKgate` it does not commute with (seeded change C11-a2) -/
def cSrc : List Cmd :=
  [ { id := 0, cls := "Vgate", regs := [0] }, { id := 1, cls := "CKgate", regs := [0, 1] },
    { id := 2, cls := "Rgate", regs := [1] }, { id := 3, cls := "Rgate", regs := [1] },
    { id := 4, cls := "Vgate", regs := [1] } ]
theorem merge_cancelled_without_bridging_counterexample :
    forward ((dagEdges cSrc).filter fun e => !([cSrc[2]!, cSrc[3]!].contains e.1) && !([cSrc[2]!, cSrc[3]!].contains e.2))
      [cSrc[4]!, cSrc[0]!, cSrc[1]!] = true ∧
    forward (surgeryEdgesNil cSrc [cSrc[2]!, cSrc[3]!]) [cSrc[4]!, cSrc[0]!, cSrc[1]!] = false ∧
    forward (surgeryEdgesNil cSrc [cSrc[2]!, cSrc[3]!]) [cSrc[0]!, cSrc[1]!, cSrc[4]!] = true ∧
    checkMerge cSrc [cSrc[4]!, cSrc[0]!, cSrc[1]!] [⟨[2, 3], []⟩] [.keep 4, .keep 0, .keep 1, .block 0] = false := by
  decide

/-- the pre-fix surgery on `sMZgate | (4,1); Dgate | 4; MeasureFock | (1,3)`: the block emitted displacement
gates, so the measurement got no edge from it and was sorted in front — rejected by the checker for either
placement of the block -/
def oSrc : List Cmd :=
  [ { id := 0, cls := "sMZgate", regs := [4, 1] }, { id := 1, cls := "Dgate", regs := [4] },
    { id := 2, cls := "MeasureFock", regs := [1, 3] } ]
def oOut : List Cmd :=
  [ { id := 2, cls := "MeasureFock", regs := [1, 3] }, { id := 10, cls := "GaussianTransform", regs := [1, 4] },
    { id := 11, cls := "Dgate", regs := [4] } ]
theorem merge_old_surgery_counterexample :
    checkMerge oSrc oOut [⟨[0, 1], [10, 11]⟩] [.keep 2, .block 0] = false ∧
    forward (surgeryEdges oSrc [oSrc[0]!, oSrc[1]!] oOut[1]! [oOut[2]!]) oOut = false := by decide

/-- modes {8, 1} (hash order ≠ numeric order), descending pair, daggered gates, a displacement -/
def exCmds : List (GCmd Int) :=
  [ { regs := [8], op := .blk1 rot roti },
    { regs := [1], op := .disp 2 3, dagger := true },
    { regs := [8, 1], op := .blk2 cx cxi, dagger := true },
    { regs := [1], op := .blk1 rot roti, dagger := true } ]

theorem exCmds_wf : ∀ c ∈ exCmds, c.wf := by
  intro c hc
  simp only [exCmds, List.mem_cons, List.not_mem_nil, or_false] at hc
  rcases hc with rfl | rfl | rfl | rfl <;> simp [GCmd.wf]

example : (∀ c ∈ exCmds, ∀ m ∈ c.regs, m ∈ List.range 10) ∧ (∀ c ∈ exCmds, c.wf) :=
  ⟨by decide, exCmds_wf⟩
/-- the emitted registers are `[1, 8]`; row 0 (x of mode 1) is not an identity row -/
example : (compileGU (List.range 10) exCmds).regs = [1, 8] ∧ (compileGU (List.range 10) exCmds).n = 2 ∧
    (compileGU (List.range 10) exCmds).hasGT = true ∧
    (List.range 4).map ((compileGU (List.range 10) exCmds).S 0) = [0, 0, 1, 0] ∧
    (List.range 4).map (compileGU (List.range 10) exCmds).r = [-3, 0, 2, -3] ∧
    (compileGU (List.range 10) exCmds).dgates = [(1, -3, 2), (8, 0, -3)] := by decide

example : compileGUFast (List.range 10) exCmds = compileGU (List.range 10) exCmds :=
  (driver_runs_the_model (List.range 10) exCmds ([] : List (PCmd Int))).1

def exP : List (PCmd Int) :=
  [ { regs := [8], op := .one 2 3 }, { regs := [8, 1], op := .two cx cxi, dagger := true },
    { regs := [1], op := .one 5 7, dagger := true } ]
example : (∀ c ∈ exP, ∀ m ∈ c.regs, m ∈ List.range 10) ∧ (∀ c ∈ exP, c.wf) :=
  ⟨by decide, by
    intro c hc
    simp only [exP, List.mem_cons, List.not_mem_nil, or_false] at hc
    rcases hc with rfl | rfl | rfl <;> simp [PCmd.wf]⟩
example : (compileP (List.range 10) exP).regs = [1, 8] ∧
    (List.range 2).map ((compileP (List.range 10) exP).T 0) = [7, -14] := by decide

/-- hybrid circuit `R(q0) R(q1) BS(q0,q1) K(q1) R(q1) D(q1)`: the two blocks, the Kerr gate kept in between -/
def mSrc : List Cmd :=
  [ { id := 0, cls := "Rgate", regs := [0] }, { id := 1, cls := "Rgate", regs := [1] },
    { id := 2, cls := "BSgate", regs := [0, 1] }, { id := 3, cls := "Kgate", regs := [1] },
    { id := 4, cls := "Rgate", regs := [1] }, { id := 5, cls := "Dgate", regs := [1] } ]
def mOut : List Cmd :=
  [ { id := 10, cls := "GaussianTransform", regs := [0, 1] }, { id := 3, cls := "Kgate", regs := [1] },
    { id := 11, cls := "GaussianTransform", regs := [1] }, { id := 12, cls := "Dgate", regs := [1] } ]
def mBlocks : List MergeBlock := [⟨[0, 1, 2], [10]⟩, ⟨[4, 5], [11, 12]⟩]
example : checkMerge mSrc mOut mBlocks [.block 0, .keep 3, .block 1] = true := by decide
/-- moving the Kerr gate in front of the block that precedes it on its wire is rejected -/
example : checkMerge mSrc [mOut[1]!, mOut[0]!, mOut[2]!, mOut[3]!] mBlocks [.keep 3, .block 0, .block 1] = false := by
  decide

/-- documented gates at rational atoms on modes {8, 1}: `R(3/5, 4/5) | 8`, `BS.H | (8, 1)`, `S | 1` -/
def exApplied : List (Applied Rat) :=
  [ { g := .R (3/5) (4/5), regs := [8] }, { g := .BS (4/5) (3/5) (5/13) (12/13), regs := [8, 1], dagger := true },
    { g := .S (3/5) (4/5) (5/4) (3/4), regs := [1] } ]
example : (∀ a ∈ exApplied, ∀ m ∈ a.regs, m ∈ List.range 10) ∧ (∀ a ∈ exApplied, a.hasRows) := by
  refine ⟨by decide, ?_⟩
  intro a ha
  simp only [exApplied, List.mem_cons, List.not_mem_nil, or_false] at ha
  rcases ha with rfl | rfl | rfl <;> simp [Applied.hasRows]
/-- with a daggered displacement: hypotheses of the affine theorems, and the vacuum satisfies the invariant -/
def exAffine : List (Applied Rat) := exApplied ++ [{ g := .D (1/2) (-1/3), regs := [8], dagger := true }]
example : (∀ a ∈ exAffine, ∀ m ∈ a.regs, m ∈ List.range 10) ∧ (∀ a ∈ exAffine, a.hasRows ∨ a.isD = true) ∧
    NMInv (vacuum 2 : GS Rat) := by
  refine ⟨by decide, ?_, vacuum_inv 2⟩
  intro a ha
  simp only [exAffine, exApplied, List.cons_append, List.nil_append, List.mem_cons, List.not_mem_nil, or_false] at ha
  rcases ha with rfl | rfl | rfl | rfl <;> simp [Applied.hasRows, Applied.isD]

/-- the surgery edges of the hybrid example: the Kerr gate is connected to the block before and after it -/
example : forward (surgeryEdges mSrc [mSrc[4]!, mSrc[5]!] mOut[2]! [mOut[3]!])
    [mSrc[0]!, mSrc[1]!, mSrc[2]!, mSrc[3]!, mOut[2]!, mOut[3]!] = true := by decide

/-- `SurgeryHyp` is met by the second merge of the hybrid example (`Rgate|1; Dgate|1` after the Kerr gate replaced
by `GaussianTransform|1; Dgate|1`) -/
def hL : List Cmd := [mOut[0]!, mSrc[3]!, mSrc[4]!, mSrc[5]!]
example : SurgeryHyp hL [mSrc[4]!, mSrc[5]!] [mOut[3]!] mOut[2]! mOut where
  nodup := by decide
  fresh := by decide
  outNodup := by decide
  esNodup := by decide
  fwd := by decide
  dsIndep := by decide
  noDeps := by decide
  dsWire := by
    intro d hd
    simp only [List.mem_singleton] at hd
    subst hd
    exact ⟨1, by decide, by decide, mSrc[4]!, by decide, by decide, by decide⟩
  mem_out := by
    intro c
    constructor
    · intro hc
      simp only [mOut, List.mem_cons, List.not_mem_nil, or_false] at hc
      rcases hc with rfl | rfl | rfl | rfl <;> decide
    · rintro (⟨hc, hm⟩ | hc)
      · simp only [hL, List.mem_cons, List.not_mem_nil, or_false] at hc
        rcases hc with rfl | rfl | rfl | rfl
        · decide
        · decide
        · exact absurd (by decide) hm
        · exact absurd (by decide) hm
      · simp only [List.mem_cons, List.not_mem_nil, or_false] at hc
        rcases hc with rfl | rfl <;> decide

end SFV.C11
