import SFV.Proofs.Train
import SFV.Proofs.TrainCalc

/-!
# C20 — trainable-GBS and chemistry numerics are self-consistent

Statements about the model `SFV.Model.Train` (transcription of the logic core of `apps/train/{embed,param,cost}.py`,
`apps/qchem/{vibronic,dynamics,utils}.py`, `apps/similarity.py: prob_orbit_exact / prob_event_exact`).
`harness/props/c20.py` ties every modelled function to the real one at exact rational points and states the
property itself on the real code (finite differences, independent GBS state, Fock back end).

Transcendental values are atoms: a weight `w_k = exp(−f_k·θ)`, `s_k = √w_k`, `cos / sin` of a rotation angle,
singular values `σ_k`.  The theorems use only their algebraic relations, so they hold for the real numbers the
implementation approximates.  The analytic statements (`HasDerivAt`) are over `ℝ`.
The support of the exponential family is an arbitrary *finite* list of patterns with coefficients.
-/
namespace SFV.C20
open SFV SFV.Train SFV.Gauss

/-! ## embedding and `W A W` -/

/-- **Jacobian of the exponential embedding** (`ExpFeatures.jacobian`): for every feature matrix, parameter vector,
mode `k` and coordinate `j < d`, the model entry `J_kj = −F_kj w_k` is the derivative of `θ_j ↦ w_k(θ) = exp(−f_k·θ)` -/
theorem jacobian_exp {d j : Nat} (hj : j < d) (F : Nat → Nat → ℝ) (θ : Nat → ℝ) (k : Nat) (t : ℝ) :
    HasDerivAt (fun x => expWeights d F (Function.update θ j x) k)
      (jacobian F (expWeights d F (Function.update θ j t)) k j) t :=
  expWeights_hasDerivAt hj F θ k t

/-- **`A(θ) = W A W` entrywise**, for every size: the two matrix products of the code scale entry `(i, j)` by
`s_i s_j`; the same sandwich with two different diagonals is the matrix `diag(√ω') U_D diag(1/√ω)` of `gbs_params` -/
theorem WAW_entry {K : Type} [CommRing K] {n i j : Nat} (hi : i < n) (hj : j < n) (s : Nat → K) (A : Nat → Nat → K) :
    vgbsA n s A i j = s i * A i j * s j ∧
    ∀ (a b : Nat → K), duschJ n a A b i j = a i * A i j * b j :=
  ⟨vgbsA_entry hi hj s A, fun a b => dAd_entry hi hj a b A⟩

/-- **symmetry is preserved** by the parametrisation -/
theorem WAW_symmetric {K : Type} [CommRing K] {n : Nat} (s : Nat → K) (A : Nat → Nat → K)
    (hA : ∀ i j, i < n → j < n → A i j = A j i) {i j : Nat} (hi : i < n) (hj : j < n) :
    vgbsA n s A i j = vgbsA n s A j i := vgbsA_symm s A hA hi hj

/-- with `s_k² = w_k`: a product of two entries carries `w_i w_j` (so a perfect matching of the pattern `n`
carries `Π w_k^{n_k}` — the exponential-family form of the GBS distribution in the weights) -/
theorem WAW_weights {K : Type} [CommRing K] {n i j : Nat} (hi : i < n) (hj : j < n) (s w : Nat → K) (A : Nat → Nat → K)
    (hs : ∀ k, k < n → s k * s k = w k) :
    vgbsA n s A i j * vgbsA n s A i j = w i * (A i j * A i j) * w j := vgbsA_sq hi hj s w A hs

/-! ## the exponential family `P_w(n) = c(n) Π_k w_k^{n_k} / Z(w)` -/

/-- **normalisation**: the model probabilities of any finite support sum to one -/
theorem normalisation {K : Type} [Field K] (m : Nat) (w : Nat → K) (S : Support K) (hZ : Z m w S ≠ 0) :
    sumL (S.map (prob m w S)) = 1 := prob_sum_one m w S hZ

/-- the formal derivative of the partition function: `w_k ∂Z/∂w_k = Σ_n n_k c(n) Π w^n = Z ⟨n_k⟩` (all supports) -/
theorem partition_derivative {K : Type} [CommRing K] {m k : Nat} (hk : k < m) (w : Nat → K) (S : Support K) :
    w k * dZ m w S k = M1 m w S k := dZ_mul hk w S

/-- **gradient of the exponential family, algebraic form**: with the formal partial derivatives of the numerator and
of `Z`, the quotient rule gives `∂_{w_k} P_w(n) = P_w(n) (n_k − ⟨n_k⟩_w)/w_k`, for every finite support -/
theorem expfamily_grad_formal {K : Type} [Field K] {m k : Nat} (hk : k < m) (w : Nat → K) (S : Support K)
    (e : List Nat × K) (hZ : Z m w S ≠ 0) (hw : w k ≠ 0) :
    (e.2 * dmono m w e.1 k * Z m w S - e.2 * mono m w e.1 * dZ m w S k) / (Z m w S * Z m w S)
      = prob m w S e * ((cnt e.1 k : K) - meanN m w S k) / w k :=
  prob_formal_derivative hk w S e hZ hw

/-- **`expfamily_grad`**: over `ℝ` the formal derivative is the derivative — for every finite support `S`, every
pattern `n` with coefficient `c ≠ 0`, every mode `k < m` and every weight vector with `w_k ≠ 0`, `Z(w) ≠ 0`,
`P_w(n) ≠ 0`: `∂/∂w_k log P_w(n) = (n_k − ⟨n_k⟩_w) / w_k` -/
theorem expfamily_grad {m k : Nat} (hk : k < m) (w : Nat → ℝ) (S : Support ℝ) (e : List Nat × ℝ)
    (hZ : Z m w S ≠ 0) (hw : w k ≠ 0) (hP : prob m w S e ≠ 0) :
    HasDerivAt (fun x => Real.log (prob m (Function.update w k x) S e))
      (((cnt e.1 k : ℝ) - meanN m w S k) / w k) (w k) :=
  logProb_hasDerivAt hk w S e hZ hw hP

/-- the model mean is the first moment of the model distribution -/
theorem mean_is_first_moment {K : Type} [Field K] (m : Nat) (w : Nat → K) (S : Support K) (k : Nat) :
    meanN m w S k = sumL (S.map fun e => (cnt e.1 k : K) * prob m w S e) := meanN_eq_sum m w S k

/-! ## the reported gradients are the chain-rule images of the reported costs (PNR mode) -/

/-- **`KL.grad`** = `Σ_k ∂KL/∂w_k · ∂w_k/∂θ_j` where `∂KL/∂w_k = −(1/T) Σ_{S ∈ data} (S_k − ⟨n_k⟩)/w_k` is what
`expfamily_grad` gives for `KL = −(1/T) Σ_S log P_w(S)` and `∂w_k/∂θ_j` is `jacobian_exp` — every data set,
feature matrix, weight vector -/
theorem kl_grad_chain_rule {K : Type} [Field K] (m : Nat) (F : Nat → Nat → K) (w nM : Nat → K) (data : List (List Nat))
    (hT : (data.length : K) ≠ 0) (j : Nat) :
    klGrad m F w nM (meanData data) j
      = sumTo m fun k => (-(sumL (data.map fun s => ((cnt s k : K) - nM k) / w k)) / (data.length : K))
          * jacobian F w k j := klGrad_chain m F w nM data hT j

/-- … and over `ℝ` along every coordinate `θ_j`: the derivative of `t ↦ −(1/T) Σ_S log P_{w(θ[j:=t])}(S)` with
`w_k(θ) = exp(−f_k·θ)` is the `j`-th entry of `KL.grad` evaluated with the model means `⟨n_k⟩_{w(θ)}` -/
theorem kl_grad_is_derivative (m d : Nat) (F : Nat → Nat → ℝ) (θ : Nat → ℝ) (S : Support ℝ)
    (data : List (List Nat × ℝ)) {j : Nat} (hj : j < d)
    (hS : ∀ e ∈ S, 0 ≤ e.2) (hdata : ∀ e ∈ data, 0 < e.2) (hsub : ∀ e ∈ data, e ∈ S) (hne : data ≠ []) :
    HasDerivAt (fun t => klCostReal m d F (Function.update θ j t) S data)
      (klGrad m F (expWeights d F θ) (meanN m (expWeights d F θ) S) (meanData (data.map (·.1))) j) (θ j) :=
  klCost_hasDerivAt m d F θ S data hj hS hdata hsub hne

/-- **`Stochastic._gradient_one_sample`** with the weights cancelled: `h(n,θ) Σ_k (n_k − ⟨n_k⟩)(−F_kj)`; it is
`h(n,θ) Σ_k (n_k − ⟨n_k⟩)/w_k · ∂w_k/∂θ_j`, the chain-rule image of `h(n,θ) = h(n) (Z(1)/Z(w)) Π w^n` by
`expfamily_grad_formal` -/
theorem stochastic_one_sample {K : Type} [Field K] (m : Nat) (F : Nat → Nat → K) (w nM : Nat → K) (hrep : K)
    (n : List Nat) (hw : ∀ k, k < m → w k ≠ 0) (j : Nat) :
    gradOne m F w nM hrep n j = hrep * sumTo m fun k => ((cnt n k : K) - nM k) * -(F k j) :=
  gradOne_cancel m F w nM hrep n hw j

/-- … over `ℝ`: the derivative of `t ↦ h · (Z(1)/Z(w(θ[j:=t]))) · Π w(θ[j:=t])^n` is the one-sample gradient -/
theorem stochastic_one_sample_is_derivative (m d : Nat) (F : Nat → Nat → ℝ) (θ : Nat → ℝ) (S : Support ℝ)
    (h : ℝ) (n : List Nat) {j : Nat} (hj : j < d) (hS : ∀ e ∈ S, 0 ≤ e.2) (hpos : ∃ e ∈ S, 0 < e.2) :
    HasDerivAt (fun t => hRepReal m d F (Function.update θ j t) S h n)
      (gradOne m F (expWeights d F θ) (meanN m (expWeights d F θ) S) (hRepReal m d F θ S h n) n j) (θ j) :=
  hRep_hasDerivAt m d F θ S h n hj hS hpos

/-! ## `A_to_cov`, `_Omat` -/

/-- **block form of `(I − O)⁻¹`** for a real matrix `A`: if `Y` inverts `I − A²` on both sides then
`[[Y, A Y], [A Y, Y]]` inverts `I − [[0, A], [A, 0]]`; hence `A_to_cov(A) = ħ([[Y, AY],[AY, Y]] − I/2)` -/
theorem omat_inverse_blocks {n : Type} [Fintype n] [DecidableEq n] (A Y : Matrix n n ℝ)
    (h1 : (1 - A * A) * Y = 1) (h2 : Y * (1 - A * A) = 1) :
    (1 - Matrix.fromBlocks 0 A A 0) * Matrix.fromBlocks Y (A * Y) (A * Y) Y = 1 :=
  one_sub_omat_mul A Y h1 h2

/-- the resulting covariance is symmetric when `A` is -/
theorem atocov_symmetric {n : Type} [Fintype n] [DecidableEq n] (A Y : Matrix n n ℝ) (hA : A.transpose = A)
    (h1 : (1 - A * A) * Y = 1) (h2 : Y * (1 - A * A) = 1) :
    (Matrix.fromBlocks Y (A * Y) (A * Y) Y).transpose = Matrix.fromBlocks Y (A * Y) (A * Y) Y :=
  omat_inverse_symm A Y hA h1 h2

/-! ## chemistry -/

/-- **`timeevolution_passive`**: any sequence of rotations — in particular `TimeEvolution(w, t)` for every number of
modes, all frequencies and times — keeps every `N_kk = ⟨a_k† a_k⟩`, keeps `|⟨a_k⟩|²` (angles on the unit circle),
keeps the mode count and the representation invariant of the simulator -/
theorem timeevolution_passive {K : Type} [CommRing K] (rots : List (K × K)) (st : GS K) (i0 : Nat)
    (hcs : ∀ r ∈ rots, r.1 * r.1 + r.2 * r.2 = 1) (k : Nat) :
    ((timeEvolve st rots i0).N k k).re = (st.N k k).re ∧
    ((timeEvolve st rots i0).mean k).re * ((timeEvolve st rots i0).mean k).re
      + ((timeEvolve st rots i0).mean k).im * ((timeEvolve st rots i0).mean k).im
      = (st.mean k).re * (st.mean k).re + (st.mean k).im * (st.mean k).im ∧
    (timeEvolve st rots i0).n = st.n ∧ (NMInv st → NMInv (timeEvolve st rots i0)) := by
  rw [timeEvolve_eq_rotations]
  exact ⟨rotations_N_diag _ st k, rotations_amp _ (indexed_circle rots hcs i0) st k, rotations_n _ st,
    rotations_inv _ st⟩

/-- the command list of `TimeEvolution` has one rotation per mode, on that mode -/
theorem timeevolution_ops (n : Nat) :
    (timeEvolutionOps n).length = n ∧ ∀ i, i < n → (timeEvolutionOps n)[i]? = some (.rgate i i) := by
  constructor
  · simp [timeEvolutionOps]
  · intro i hi; simp [timeEvolutionOps, hi]

/-- **`doktorov_blocks`**: for all real matrices `U₁ U₂` and every diagonal `σ` with inverse `σ'`, the symplectic
matrix of `R(U₂) S(log σ) R(U₁)` (`R(U) = diag(U, U)` on `(x, p)`, `S(log σ) = diag(σ⁻¹, σ)`) is
`diag(U₂ σ⁻¹ U₁, U₂ σ U₁)`; the momentum block is the matrix `J = U₂ σ U₁` the parameters were derived from, and
for orthogonal `U₁ U₂` the position block is its inverse transpose -/
theorem doktorov_blocks {n : Type} [Fintype n] [DecidableEq n] (U1 U2 : Matrix n n ℝ) (σ σ' : n → ℝ)
    (hσ : ∀ i, σ i * σ' i = 1) (h1 : U1.transpose * U1 = 1) (h2 : U2.transpose * U2 = 1) :
    Matrix.fromBlocks U2 0 0 U2 * Matrix.fromBlocks (Matrix.diagonal σ') 0 0 (Matrix.diagonal σ)
        * Matrix.fromBlocks U1 0 0 U1
      = Matrix.fromBlocks (U2 * Matrix.diagonal σ' * U1) 0 0 (U2 * Matrix.diagonal σ * U1) ∧
    (U2 * Matrix.diagonal σ' * U1).transpose * (U2 * Matrix.diagonal σ * U1) = 1 :=
  ⟨doktorov_product U1 U2 σ σ', doktorov_inverse_transpose U1 U2 σ σ' hσ h1 h2⟩

/-- the model's executable blocks are these matrix products (all sizes) -/
theorem doktorov_block_entry {K : Type} [CommRing K] (n : Nat) (U2 U1 : Nat → Nat → K) (σ : Nat → K) {i j : Nat}
    (_hi : i < n) (_hj : j < n) :
    doktorovBlock n U2 σ U1 i j = sumTo n fun k => (sumTo n fun l => U2 i l * diag σ l k) * U1 k j := rfl

/-- **known finding (partial)**: what holds of the Doktorov circuit built from `gbs_params` is that its *momentum*
block reproduces the Duschinsky matrix `J`.  The full statement — the position quadrature, along which the
displacement `δ` is applied, transforms with `J` (`Q' = J Q + δ`) — fails: -/
theorem doktorov_duschinsky_partial {n : Type} [Fintype n] [DecidableEq n] (U1 U2 J : Matrix n n ℝ) (σ σ' : n → ℝ)
    (hJ : U2 * Matrix.diagonal σ * U1 = J) :
    (Matrix.fromBlocks U2 0 0 U2 * Matrix.fromBlocks (Matrix.diagonal σ') 0 0 (Matrix.diagonal σ)
        * Matrix.fromBlocks U1 0 0 U1).toBlocks₂₂ = J := by
  rw [doktorov_product]; simpa using hJ

/-- the position block is `J⁻ᵀ`, not `J`: already for one mode with `σ = 2` -/
theorem doktorov_position_counterexample :
    ¬ ∀ (U1 U2 : Matrix (Fin 1) (Fin 1) ℝ) (σ σ' : Fin 1 → ℝ), (∀ i, σ i * σ' i = 1) →
      (Matrix.fromBlocks U2 0 0 U2 * Matrix.fromBlocks (Matrix.diagonal σ') 0 0 (Matrix.diagonal σ)
        * Matrix.fromBlocks U1 0 0 U1).toBlocks₁₁ = U2 * Matrix.diagonal σ * U1 :=
  doktorov_position_fails

/-- … and no repair can keep both conventions the existing tests pin (`U₂ e^{r} U₁ = J` for the output of
`gbs_params`, `Sgate(r)` in `VibronicTransition`): the position block equals `J` as well only without squeezing -/
theorem doktorov_no_compatible_parameters {n : Type} [Fintype n] [DecidableEq n] (U1 U2 : Matrix n n ℝ) (σ σ' : n → ℝ)
    (hσ : ∀ i, σ i * σ' i = 1) (h1 : U1 * U1.transpose = 1) (h2 : U2.transpose * U2 = 1)
    (h : U2 * Matrix.diagonal σ' * U1 = U2 * Matrix.diagonal σ * U1) : ∀ i, σ i * σ i = 1 :=
  doktorov_both_blocks U1 U2 σ σ' hσ h1 h2 h

/-! ## bookkeeping -/

/-- **sample store** (`get_A_init_samples`), for every history: the store only grows by appending, the result is the
first `n` stored samples (so earlier samples are returned again, never regenerated), exactly the missing number is
requested from the sampler, and `n` samples come back -/
theorem sample_store {α : Type} (store : List α) (n : Nat) (fresh : Nat → List α) (hf : ∀ k, (fresh k).length = k) :
    (∃ new, (getSamples store n fresh).1 = store ++ new) ∧
    (getSamples store n fresh).2.1 = (getSamples store n fresh).1.take n ∧
    (getSamples store n fresh).2.1.take store.length = store.take n ∧
    (getSamples store n fresh).2.2 = n - store.length ∧
    (getSamples store n fresh).2.1.length = n :=
  ⟨getSamples_store_prefix store n fresh, getSamples_result store n fresh, getSamples_keeps_old store n fresh,
    getSamples_requests store n fresh, getSamples_length store n fresh hf⟩

/-- **exact orbit probability** sums the state's probabilities over exactly the distinct rearrangements of the orbit
padded with zeros, each once; an orbit with more parts than modes has no pattern (probability 0) -/
theorem prob_orbit_patterns {orbit : List Nat} {modes : Nat} :
    (orbit.length ≤ modes → ∀ w, w ∈ orbitPatterns orbit modes ↔ w.Perm (Apps.orbitSample orbit modes)) ∧
    (orbitPatterns orbit modes).Nodup ∧
    (modes < orbit.length → ∀ (K : Type) [CommRing K] (P : List Nat → K), probOrbit P orbit modes = 0) :=
  ⟨fun h w => orbitPatterns_mem h w, orbitPatterns_nodup orbit modes,
    fun h K _ P => by simp [probOrbit, orbitPatterns_short h, sumL]⟩

/-- **exact event probability** is the sum of the orbit probabilities over the orbits of the event -/
theorem prob_event_sum {K : Type} [CommRing K] (P : List Nat → K) (photons maxCount modes : Nat) :
    probEvent P photons maxCount modes =
      sumL (((Apps.orbits photons).filter fun o => Apps.listMax o ≤ maxCount).map fun o =>
        sumL ((orbitPatterns o modes).map P)) := rfl

/-! ## the GBS distribution has the exponential-family form (hafnian homogeneity) -/

/-- **homogeneity of the hafnian** (perfect-matching recursion, every index list with repetitions, every fuel):
`Haf((s_i A_ij s_j)_idx) = Π_{i ∈ idx} s_i · Haf(A_idx)` -/
theorem hafnian_homogeneous {K : Type} [CommRing K] (s : Nat → K) (A : Nat → Nat → K) (fuel : Nat) (idx : List Nat) :
    hafAux (fun i j => s i * A i j * s j) fuel idx = prodL (idx.map s) * hafAux A fuel idx :=
  hafAux_scale s A fuel idx

/-- **`prob_photon_sample` is an exponential family in the weights**: for every matrix, every pattern on at most `m`
modes and `s_k² = w_k`, `|Haf((W A W)_n)|² = Π_k w_k^{n_k} |Haf(A_n)|²` where `W A W` is the matrix the code computes
(`vgbsA`, two matrix products).  So `c(n) = |Haf(A_n)|²/n!` does not depend on `θ`; this is the premise of
`expfamily_grad`, `kl_grad_is_derivative`, `stochastic_one_sample_is_derivative` — now a theorem, not only a tie. -/
theorem gbs_weight_expfamily {K : Type} [CommRing K] (m : Nat) (s w : Nat → K) (A : Nat → Nat → K) (n : List Nat)
    (hm : n.length ≤ m) (hs : ∀ k, k < m → s k * s k = w k) :
    gbsWeight (vgbsA m s A) n = mono m w n * gbsWeight A n := gbsWeight_vgbsA m s w A n hm hs

/-- … and the model family over any pattern list is the truncated distribution of the trained matrix:
numerators and partition function are the GBS weights of `A(θ)` -/
theorem gbs_family_is_trained_distribution {K : Type} [CommRing K] (m : Nat) (s w : Nat → K) (A : Nat → Nat → K)
    (invfact : List Nat → K) (pats : List (List Nat)) (hm : ∀ n ∈ pats, n.length ≤ m)
    (hs : ∀ k, k < m → s k * s k = w k) :
    Z m w (gbsSupport A invfact pats) = sumL (pats.map fun n => gbsWeight (vgbsA m s A) n * invfact n) ∧
    ∀ n ∈ pats, (gbsWeight A n * invfact n) * mono m w n = gbsWeight (vgbsA m s A) n * invfact n :=
  ⟨gbsSupport_Z m s w A invfact pats hm hs, fun n hn => gbsSupport_num m s w A invfact n (hm n hn) hs⟩

/-- the certificate the driver evaluates for its exact inverse is sound: `isInverse = true` means `X M = 1` entrywise -/
theorem inverse_certificate_sound {K : Type} [CommRing K] [DecidableEq K] (n : Nat) (X M : Nat → Nat → K)
    (h : isInverse n X M = true) {i j : Nat} (hi : i < n) (hj : j < n) :
    mm n X M i j = if i = j then 1 else 0 := isInverse_sound n X M h hi hj

/-! ## chemistry helpers -/

/-- `utils.duschinsky`: the product with the diagonal matrix `l⁻¹` scales component `k` of `d` by `l⁻¹_kk` -/
theorem duschinsky_delta_entry {K : Type} [CommRing K] {a M k : Nat} (hk : k < M) (Lf : Nat → Nat → K)
    (sm ri rf linv : Nat → K) :
    duschDelta a M Lf sm ri rf linv k = (sumTo a fun x => Lf x k * sm x * (ri x - rf x)) * linv k :=
  duschDelta_entry hk Lf sm ri rf linv

/-- `vibronic.energies`: a sample `m ++ n` of two halves of equal length has energy `m·ω' − n·ω` -/
theorem energies_split {K : Type} [CommRing K] (a b : List Nat) (h : a.length = b.length) (wp w : Nat → K) :
    energy (a ++ b) wp w = dotCounts a wp 0 - dotCounts b w 0 := energy_split a b h wp w

/-- `utils.marginals` asks for exactly the entries `(mode, i)` with `mode < n_modes`, `i < n_max`, `n_modes · n_max` calls -/
theorem marginals_calls (nModes nMax : Nat) :
    (∀ p, p ∈ marginalCalls nModes nMax ↔ p.1 < nModes ∧ p.2 < nMax) ∧
    (marginalCalls nModes nMax).length = nModes * nMax :=
  ⟨marginalCalls_mem nModes nMax, marginalCalls_length nModes nMax⟩

/-- the sampling programs: `vibronic.sample` ends with one `MeasureFock` on all its modes, loss channels appear exactly
when `loss` is set, one per mode; the `dynamics` core (interferometer, time evolution, interferometer) touches the
first `N` modes only (so in `sample_tmsv` the idler modes `N..2N−1` are only squeezed, lossy and measured) -/
theorem sample_programs (n : Nat) (anyT loss : Bool) :
    (vibSampleOps n anyT loss).getLast? = some (.measureFock (List.range (vibSampleModes n anyT))) ∧
    (∀ o modes, o ∈ lossOps loss modes ↔ loss = true ∧ ∃ k, k < modes ∧ o = .loss k) ∧
    (∀ o ∈ dynCore n, ∀ x ∈ o.modes, x < n) :=
  ⟨vibSampleOps_last n anyT loss, fun o modes => lossOps_mem loss modes o, dynCore_modes n⟩

/-! ## non-vacuity -/

/-- a two-mode support with rational weights: `Z ≠ 0`, the probabilities sum to one -/
example : let S : Support Rat := [([0, 0], 1), ([1, 1], 1 / 2), ([2, 0], 1 / 4)]
    let w : Nat → Rat := fun k => if k = 0 then 1 / 2 else 1 / 3
    Z 2 w S ≠ 0 ∧ sumL (S.map (prob 2 w S)) = 1 ∧ w 0 * dZ 2 w S 0 = M1 2 w S 0 := by
  decide +kernel

/-- `W A W` on a symmetric 2×2 matrix -/
example : vgbsA 2 (fun k => if k = 0 then (2 : Int) else 3) (fun i j => if i = j then 0 else 5) 0 1 = 30 := by decide

/-- a rotation list on the unit circle (3/5, 4/5), (0, 1) acting on a displaced state keeps `N_00` -/
example : ∀ r ∈ [((3 / 5 : Rat), (4 / 5 : Rat)), (0, 1)], r.1 * r.1 + r.2 * r.2 = 1 := by decide +kernel

/-- orthogonal `U`, non-trivial `σ`: the hypotheses of `doktorov_blocks` -/
example : (∀ i : Fin 1, (fun _ => (2 : ℝ)) i * (fun _ => (1 / 2 : ℝ)) i = 1) ∧
    (1 : Matrix (Fin 1) (Fin 1) ℝ).transpose * (1 : Matrix (Fin 1) (Fin 1) ℝ) = 1 := by
  constructor
  · intro i; norm_num
  · simp

/-- a store history: 2 stored, 5 requested, the generator returns what it is asked for -/
example : (getSamples [10, 11] 5 fun k => (List.range k).map (· + 100)) = ([10, 11, 100, 101, 102], [10, 11, 100, 101, 102], 3) := by
  decide

/-- an orbit that fits and one that does not -/
example : orbitPatterns [1, 1] 3 = [[1, 1, 0], [1, 0, 1], [0, 1, 1]] ∧ orbitPatterns [1, 1, 1] 2 = [] := by decide

/-- hafnian of the 4-cycle adjacency on pattern (1,1,1,1) is 2; scaled by s = (2,1,1,3) it is 2·(2·1·1·3) -/
example : let A : Nat → Nat → Int := fun i j => if (i + 1) % 4 = j ∨ (j + 1) % 4 = i then 1 else 0
    let s : Nat → Int := fun k => if k = 0 then 2 else if k = 3 then 3 else 1
    haf A (expand [1, 1, 1, 1] 0) = 2 ∧ haf (fun i j => s i * A i j * s j) (expand [1, 1, 1, 1] 0) = 12 ∧
    gbsWeight A [2, 0, 0, 0] = 0 ∧ expand [2, 0, 1] 0 = [0, 0, 2] := by decide

/-- a sample program with thermal modes and loss; the marginal call list -/
example : (vibSampleOps 1 true true) = [.s2gate 0 0 1, .interferometer 1 [0], .sgate 0 0, .interferometer 2 [0], .dgate 0 0,
    .loss 0, .loss 1, .measureFock [0, 1]] ∧ marginalCalls 2 2 = [(0, 0), (0, 1), (1, 0), (1, 1)] := by decide

/-- the inverse certificate on a 2×2 integer matrix -/
example : isInverse 2 (fun i j => if i = j then (1 : Int) else if i = 0 then -2 else 0)
    (fun i j => if i = j then (1 : Int) else if i = 0 then 2 else 0) = true := by decide

end SFV.C20
