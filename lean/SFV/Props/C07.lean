import SFV.Proofs.GaussNM
import SFV.Proofs.Physical
import SFV.Proofs.FockTensor
import SFV.Proofs.Bridge
import SFV.Proofs.FockLoss
import SFV.Proofs.GaussRegister
import SFV.Proofs.BosonicState
import SFV.Proofs.MsGate
import SFV.Proofs.FockPositive
import SFV.Proofs.PhysicalProgram

/-!
# C07 — every simulated state is physical and gates conserve what they must

* the representation invariant of the Gaussian simulator (`N` Hermitian with real diagonal, `M`
  symmetric — equivalently: the quadrature covariance is real symmetric) holds after every program;
* the documented gate blocks are symplectic (`X Ω Xᵀ = Ω`), and symplectic congruence / Gaussian
  channels with the complete-positivity condition preserve the uncertainty relation `V + iΩ ⪰ 0`
  (Mathlib `Matrix.PosSemidef`);
* passive gates conserve photon number, loss scales it by `T`.
-/
namespace SFV.C07
open SFV.Gauss SFV.Physical Matrix
open scoped ComplexOrder

/-- **the invariant holds after every program** started from vacuum -/
theorem gaussian_invariant {K : Type} [CommRing K] (ops : List (GOp K)) (n : Nat) (hok : ∀ op ∈ ops, op.ok) :
    NMInv (ops.foldl applyNM (vacuum n)) :=
  (applyNM_program ops (vacuum n) (vacuum_inv n) hok).2

/-- under the invariant the quadrature covariance is symmetric: `xx`, `pp` symmetric and the
`px` block is the transpose of `xp` by construction of `scovmatxp` -/
theorem covariance_symmetric {K : Type} [CommRing K] (st : GS K) (hI : NMInv st) (i j : Nat) :
    Vxx st i j = Vxx st j i ∧ Vpp st i j = Vpp st j i := by
  have hMs := NMInv.m_symm st hI
  constructor <;> simp only [Vxx, Vpp] <;> rw [hMs i j] <;>
    by_cases h : i = j <;> simp [h, eq_comm] <;> ring

/-- **gate blocks are symplectic** -/
theorem squeeze_symplectic {K : Type} [CommRing K] (k : Nat) (c s ch sh : K) (hcs : c * c + s * s = 1)
    (hh : ch * ch - sh * sh = 1) (u v : Q) : sympForm (squeezeRows k c s ch sh) u v = sympOmega u v :=
  squeezeRows_symplectic k c s ch sh hcs hh u v

theorem rotation_symplectic {K : Type} [CommRing K] (k : Nat) (c s : K) (hcs : c * c + s * s = 1) (u v : Q) :
    sympForm (rotRows k c s) u v = sympOmega u v := rotRows_symplectic k c s hcs u v

theorem beamsplitter_symplectic {K : Type} [CommRing K] (k l : Nat) (hkl : k ≠ l) (c s ct sn : K)
    (hcs : c * c + s * s = 1) (hts : ct * ct + sn * sn = 1) (u v : Q) :
    sympForm (bsRows k l c s ct sn) u v = sympOmega u v := bsRows_symplectic k l hkl c s ct sn hcs hts u v

/-- **uncertainty relation**: preserved by every symplectic congruence … -/
theorem uncertainty_gate {n : Type} [Fintype n] [DecidableEq n] (V Ω S : Matrix n n ℝ)
    (hS : S * Ω * Sᵀ = Ω) (h : Uncertainty V Ω) : Uncertainty (S * V * Sᵀ) Ω :=
  uncertainty_congr V Ω S hS h

/-- … and by every Gaussian channel `(X, Y)` satisfying the complete-positivity condition -/
theorem uncertainty_channel' {n : Type} [Fintype n] [DecidableEq n] (V Ω X Y : Matrix n n ℝ)
    (hY : (cplx Y + Complex.I • cplx (Ω - X * Ω * Xᵀ)).PosSemidef) (h : Uncertainty V Ω) :
    Uncertainty (X * V * Xᵀ + Y) Ω := uncertainty_channel V Ω X Y hY h

/-- **the uncertainty relation holds after every program**: any list of whole-register channel steps `V ↦ X V Xᵀ + Y`, each
satisfying the complete-positivity condition (gates: `Y = 0`, `X Ω Xᵀ = Ω`, by `gate_step_cp`), takes a physical covariance matrix
to a physical one — induction over the program; no bound on its length or on the register size -/
theorem uncertainty_program {n : Type} [Fintype n] [DecidableEq n] (Ω : Matrix n n ℝ)
    (prog : List (Matrix n n ℝ × Matrix n n ℝ)) (hcp : ∀ s ∈ prog, ChanCP Ω s) (V : Matrix n n ℝ) (h : Uncertainty V Ω) :
    Uncertainty (prog.foldl chanStep V) Ω :=
  SFV.Physical.uncertainty_program Ω prog hcp V h

theorem gate_step_cp {n : Type} [Fintype n] [DecidableEq n] (Ω S : Matrix n n ℝ) (hS : S * Ω * Sᵀ = Ω) : ChanCP Ω (S, 0) :=
  gate_chanCP Ω S hS

/-- **squeezers, rotations and beamsplitters preserve the uncertainty relation** — the chain closed:
the simulator's entrywise update refines `linMap rows` (C01), `linMap rows` is the matrix congruence
`S V Sᵀ` (`covMatrix_linMap`), the rows are symplectic, and symplectic congruence preserves
`V + iΩ ⪰ 0`.  All register sizes `n`, all target positions, all parameter values. -/
theorem squeeze_uncertainty (n k : Nat) (hk : k < n) (c s ch sh : ℝ) (hcs : c * c + s * s = 1)
    (hh : ch * ch - sh * sh = 1) (V : XP ℝ) (hxx : ∀ i j, V.xx i j = V.xx j i) (hpp : ∀ i j, V.pp i j = V.pp j i)
    (h : Uncertainty (covMatrix n V) (omegaMatrix n)) :
    Uncertainty (covMatrix n (linMap (squeezeRows k c s ch sh) V)) (omegaMatrix n) :=
  linMap_uncertainty n _ (rows1_supported n k hk _ _ _ _) (squeezeRows_symplectic k c s ch sh hcs hh) V hxx hpp h

theorem rotation_uncertainty (n k : Nat) (hk : k < n) (c s : ℝ) (hcs : c * c + s * s = 1)
    (V : XP ℝ) (hxx : ∀ i j, V.xx i j = V.xx j i) (hpp : ∀ i j, V.pp i j = V.pp j i)
    (h : Uncertainty (covMatrix n V) (omegaMatrix n)) :
    Uncertainty (covMatrix n (linMap (rotRows k c s) V)) (omegaMatrix n) :=
  linMap_uncertainty n _ (rows1_supported n k hk _ _ _ _) (rotRows_symplectic k c s hcs) V hxx hpp h

theorem beamsplitter_uncertainty (n k l : Nat) (hk : k < n) (hl : l < n) (hkl : k ≠ l) (c s ct sn : ℝ)
    (hcs : c * c + s * s = 1) (hts : ct * ct + sn * sn = 1)
    (V : XP ℝ) (hxx : ∀ i j, V.xx i j = V.xx j i) (hpp : ∀ i j, V.pp i j = V.pp j i)
    (h : Uncertainty (covMatrix n V) (omegaMatrix n)) :
    Uncertainty (covMatrix n (linMap (bsRows k l c s ct sn) V)) (omegaMatrix n) :=
  linMap_uncertainty n _ (bsRows_supported n k l hk hl c s ct sn) (bsRows_symplectic k l hkl c s ct sn hcs hts)
    V hxx hpp h

/-- **loss and thermal loss preserve the uncertainty relation**: with `T = q² ≤ 1` (witness `t² = 1 − q²`)
and thermal noise `e = 2(1 − T)n̄ ≥ 0`, the specification `addNoise (linMap (lossRows k q) V) k (1 − q² + e)`
(which `loss_refines`/`thermalLoss_refines` show the simulator computes) satisfies `V + iΩ ⪰ 0` -/
theorem loss_uncertainty (n k : Nat) (q t e : ℝ) (ht : t * t = 1 - q * q) (he : 0 ≤ e) (V : XP ℝ)
    (hxx : ∀ i j, V.xx i j = V.xx j i) (hpp : ∀ i j, V.pp i j = V.pp j i)
    (hk : k < n) (h : Uncertainty (covMatrix n V) (omegaMatrix n)) :
    Uncertainty (covMatrix n (addNoise (linMap (lossRows k q) V) k (1 - q * q + e))) (omegaMatrix n) :=
  loss_spec_uncertainty n k q t e ht he V hxx hpp hk h

/-- **passive gates conserve photon number**: beamsplitter (second moments and amplitudes) -/
theorem beamsplitter_conserves {K : Type} [CommRing K] (st : GS K) (hI : NMInv st) (c s ct sn : K) (k l : Nat)
    (hkl : k ≠ l) (hcs : c * c + s * s = 1) (hts : ct * ct + sn * sn = 1) :
    ((beamsplitter st c s ct sn k l).N k k).re + ((beamsplitter st c s ct sn k l).N l l).re
      = (st.N k k).re + (st.N l l).re :=
  beamsplitter_photon st hI c s ct sn k l hkl hcs hts

theorem rotation_conserves {K : Type} [CommRing K] (st : GS K) (c s : K) (k i : Nat) :
    ((phaseShift st c s k).N i i).re = (st.N i i).re := by
  rw [phaseShift_photon]; split <;> simp_all

/-- **loss never increases photon number**: `N_kk ↦ T·N_kk`, other diagonal entries fixed -/
theorem loss_scales {K : Type} [CommRing K] (st : GS K) (q : K) (k i : Nat) :
    ((loss st q k).N i i).re = (if i = k then q * (q * (st.N k k).re) else (st.N i i).re) :=
  loss_photon st q k i

/-- **Fock density matrices stay Hermitian**: `ρ ↦ U ρ U†` on any mode of a register of any size
preserves `ρ[j,i] = conj ρ[i,j]` (interleaved row/column axes), for every matrix `U` -/
theorem fock_hermitian_preserved {K : Type} [CommSemiring K] (cj : K →+* K) (hinv : ∀ x, cj (cj x) = x)
    (D : Nat) (mat : Nat → Nat → K) (m : Nat) (ρ : SFV.Fock.Tens K) (hρ : SFV.Fock.Herm cj ρ) :
    SFV.Fock.Herm cj (SFV.Fock.applyAt1 D (fun v b => cj (mat v b)) (2 * m + 1) (SFV.Fock.applyAt1 D mat (2 * m) ρ)) :=
  SFV.Fock.herm_conj1 cj hinv D mat m ρ hρ

/-- **the Fock loss channel is trace preserving on the truncated space, exactly**: with the `D` Kraus operators
`E(0), …, E(D−1)` of `ops.lossChannel(T, D)` (band amplitudes `e k n`, `e² = C(n,k)(1−T)^k T^{n−k}`), tracing the target mode
after `Circuit.loss(T, m)` gives what it gave before — for every cutoff, transmissivity, register size, position and density
tensor, also one that populates the top level `D − 1` (nothing can be truncated by a loss) -/
theorem fock_loss_trace_preserving {K : Type} [CommRing K] (e : Nat → Nat → K) (T : K)
    (he : ∀ k n, e k n * e k n = SFV.Fock.lossSq T k n) (D m : Nat) (ρ : SFV.Fock.Tens K) (idx : SFV.Fock.Idx) :
    (∑ v ∈ Finset.range D, SFV.Fock.applyChannel1 D (SFV.Fock.lossKrausList e D) m ρ
        (SFV.Fock.upd (SFV.Fock.upd idx (2 * m) v) (2 * m + 1) v)) =
      ∑ v ∈ Finset.range D, ρ (SFV.Fock.upd (SFV.Fock.upd idx (2 * m) v) (2 * m + 1) v) :=
  SFV.Fock.loss_trace_preserving e T he D m ρ idx

/-- … because `Σ_k E(k)† E(k) = 1` there, by the binomial theorem; one operator fewer (an off-by-one in the list, seeded change
C07-b1) and the relation fails at the top level (`D = 3`, `T = 1/2`: `3/4`) -/
theorem fock_loss_kraus_complete {K : Type} [CommRing K] (e : Nat → Nat → K) (T : K)
    (he : ∀ k n, e k n * e k n = SFV.Fock.lossSq T k n) (D a b : Nat) (ha : a < D) (hb : b < D) :
    ((SFV.Fock.lossKrausList e D).map fun k => ∑ v ∈ Finset.range D, k.1 v a * k.2 v b).sum = if a = b then 1 else 0 :=
  SFV.Fock.loss_complete e T he D D (Nat.le_refl D) a b ha hb

theorem fock_loss_kraus_incomplete_counterexample (e : Nat → Nat → ℚ)
    (he : ∀ k n, e k n * e k n = SFV.Fock.lossSq (1/2 : ℚ) k n) :
    ((SFV.Fock.lossKrausList e 2).map fun k => ∑ v ∈ Finset.range 3, k.1 v 2 * k.2 v 2).sum = 3 / 4 :=
  SFV.Fock.loss_incomplete_counterexample e he

/-- **Fock loss scales the photon number by `T`**: level `n` goes to the levels `n − k` with weights `|E(k)[n−k,n]|²`, whose
mean is `T · n` -/
theorem fock_loss_photon_number {K : Type} [CommRing K] (T : K) (n : Nat) :
    ∑ k ∈ Finset.range (n + 1), ((n - k : Nat) : K) * SFV.Fock.lossSq T k n = (n : K) * T :=
  SFV.Fock.loss_photon_number T n

/-- **registers that grow and shrink keep the invariant**: after any sequence of gates, channels, `New` and `Del` -/
theorem gaussian_register_invariant {K : Type} [CommRing K] (ops : List (ROp K)) (n : Nat) (hok : ∀ op ∈ ops, op.ok) :
    NMInv (ops.foldl applyNMR (vacuum n)) :=
  (applyNMR_program ops (vacuum n) (vacuum_inv n) hok).2

/-! ### bosonic states are Hermitian operators -/

/-- **the cat state the bosonic back end prepares (complex representation) is Hermitian** — its components come in
complex-conjugate pairs — for every amplitude, phase and parity (also non-integer `p`, where the interference weights are not
real) -/
theorem bosonic_cat_hermitian {K : Type} [Field K] (hb2 s ar ai : K) (c : SFV.Gauss.Cx K) :
    SFV.BosSt.ConjClosed (SFV.BosSt.catComplex hb2 s ar ai c) :=
  SFV.BosSt.cat_conjClosed hb2 s ar ai c

/-- **Gaussian channels and displacements keep a bosonic state Hermitian and its weights untouched**: every register size,
every real `(X, Y, d)`, any number of components -/
theorem bosonic_channel_hermitian {K : Type} [CommRing K] (m : Nat) (X Y : Nat → Nat → K) (d : Nat → K)
    (st : SFV.BosSt.BState K) (h : SFV.BosSt.ConjClosed st) :
    SFV.BosSt.ConjClosed (st.map (SFV.BosSt.Comp.affine m X Y d)) ∧
    (SFV.Gauss.csum (st.map (SFV.BosSt.Comp.affine m X Y d)).N fun k => ((st.map (SFV.BosSt.Comp.affine m X Y d)).comp k).w) =
      SFV.Gauss.csum st.N fun k => (st.comp k).w :=
  ⟨SFV.BosSt.channel_conjClosed m X Y d st h, SFV.BosSt.channel_weights m X Y d st⟩

/-- … as does every componentwise operation that commutes with complex conjugation (measurement updates, re-weightings) -/
theorem bosonic_map_hermitian {K : Type} [CommRing K] (F : SFV.BosSt.Comp K → SFV.BosSt.Comp K)
    (hF : ∀ c, F c.conj = (F c).conj) (st : SFV.BosSt.BState K) (h : SFV.BosSt.ConjClosed st) :
    SFV.BosSt.ConjClosed (st.map F) :=
  SFV.BosSt.map_conjClosed F hF st h

/-- **what Hermiticity buys**: the Wigner function at any point, any quadrature density, any Fock matrix element on the
diagonal — every quantity `Σ_k w_k g(μ_k, Σ_k)` with a conjugation-compatible kernel `g` — is real -/
theorem bosonic_hermitian_real {K : Type} [Field K] [CharZero K]
    (g : (Nat → SFV.Gauss.Cx K) → (Nat → Nat → SFV.Gauss.Cx K) → SFV.Gauss.Cx K)
    (hg : ∀ mu cov, g (fun i => SFV.Gauss.Cx.conj (mu i)) (fun i j => SFV.Gauss.Cx.conj (cov i j)) = SFV.Gauss.Cx.conj (g mu cov))
    (st : SFV.BosSt.BState K) (h : SFV.BosSt.ConjClosed st) : (st.linear g).im = 0 :=
  SFV.BosSt.linear_real g hg st h

/-- with both interference terms weighted by the same complex number (a dropped conjugate, seeded change C07-b2) the pairing
fails: the weights `c/(2+2c)` of components 2 and 3 are not conjugates (`c = i`: both are `(1+i)/4`) -/
theorem bosonic_cat_dropped_conjugate_counterexample :
    SFV.BosSt.cdiv (⟨0, 1⟩ : SFV.Gauss.Cx ℚ) ⟨2, 2⟩ ≠ SFV.Gauss.Cx.conj (SFV.BosSt.cdiv (⟨0, 1⟩ : SFV.Gauss.Cx ℚ) ⟨2, 2⟩) := by
  decide +kernel

/-- **measurement-based squeezing, average map** (`mb_squeeze_avg`): `X = diag(cos θ, 1/cos θ)` on the target mode is symplectic,
so with non-negative noise entries `Y = diag(yx, yp)` the map preserves the uncertainty relation — every register, position,
squeezing, input state -/
theorem bosonic_ms_avg_uncertainty (n k : Nat) (c ci yx yp : ℝ) (hc : c * ci = 1) (hx : 0 ≤ yx) (hp : 0 ≤ yp)
    (V : Matrix (QI n) (QI n) ℝ) (h : Uncertainty V (omegaMatrix n)) :
    Uncertainty (SFV.Bridge.msX n k c ci * V * (SFV.Bridge.msX n k c ci)ᵀ + SFV.Bridge.msY n k yx yp) (omegaMatrix n) :=
  SFV.Bridge.ms_avg_uncertainty n k c ci yx yp hc hx hp V h

/-- the detector-noise entry the back end uses is non-negative for `0 < η ≤ 1`; with the opposite sign (seeded change C07-c1) it
is negative for every lossy detector -/
theorem bosonic_ms_noise_sign (t2 η : ℝ) (ht : 0 < t2) (h0 : 0 < η) (h1 : η < 1) :
    0 ≤ t2 * (1 - η) / η ∧ t2 * (1 - 1 / η) < 0 :=
  ⟨SFV.Bridge.ms_noise_nonneg t2 η (le_of_lt ht) h0 (le_of_lt h1), SFV.Bridge.ms_noise_wrong_sign_negative t2 η ht h0 h1⟩

/-- **Fock density matrices stay positive semidefinite after every program**: on the flattened index space of the register a gate is
`ρ ↦ U ρ U†` and a channel `ρ ↦ Σ_k E_k ρ E_k†`; for every list of such updates — with arbitrary matrices, in particular the
truncated, non-unitary ones a finite cutoff produces and an incomplete Kraus list — a positive semidefinite `ρ` stays so -/
theorem fock_positive_preserved {n : Type} [Fintype n] [DecidableEq n] (ops : List (SFV.FockPos.FOp n)) (ρ : Matrix n n ℂ)
    (hρ : ρ.PosSemidef) : (SFV.FockPos.runOps ops ρ).PosSemidef :=
  SFV.FockPos.runOps_posSemidef ops ρ hρ

/-- … and the trace is preserved by every program whose updates are complete (`U†U = 1`, `Σ_k E_k†E_k = 1` — what
`fock_loss_kraus_complete` establishes for the loss channel on the truncated space) -/
theorem fock_trace_preserved {n : Type} [Fintype n] [DecidableEq n] (ops : List (SFV.FockPos.FOp n))
    (h : ∀ o ∈ ops, o.complete) (ρ : Matrix n n ℂ) : (SFV.FockPos.runOps ops ρ).trace = ρ.trace :=
  SFV.FockPos.runOps_trace ops h ρ

/-- pure states enter as `|ψ⟩⟨ψ|` (`ops.mix`), which is positive semidefinite for every ket -/
theorem fock_pure_positive {n : Type} [Fintype n] [DecidableEq n] (ψ : n → ℂ) : (Matrix.vecMulVec ψ (star ψ)).PosSemidef :=
  SFV.FockPos.pure_posSemidef ψ


/-! ### non-vacuity: the one-mode vacuum satisfies the uncertainty relation's premises -/
example : (3 / 5 : Rat) * (3 / 5) + (4 / 5) * (4 / 5) = 1 ∧ (5 / 4 : Rat) * (5 / 4) - (3 / 4) * (3 / 4) = 1 := by
  norm_num
example : (!![0, 1; -1, 0] : Matrix (Fin 2) (Fin 2) ℝ) * !![0, 1; -1, 0] * (!![0, 1; -1, 0] : Matrix (Fin 2) (Fin 2) ℝ)ᵀ
    = !![0, 1; -1, 0] := by
  ext i j; fin_cases i <;> fin_cases j <;> simp [Matrix.mul_apply, Fin.sum_univ_two]

/-- amplitudes exist: at `T = 1` (no loss) and at `T = 0` (total loss) the squares are 0 or 1, so `e = lossSq` works -/
example : ∀ k ∈ List.range 3, ∀ n ∈ List.range 3,
    SFV.Fock.lossSq (1 : ℚ) k n * SFV.Fock.lossSq (1 : ℚ) k n = SFV.Fock.lossSq (1 : ℚ) k n := by
  decide +kernel

/-- the premises of `fock_positive_preserved` / `fock_trace_preserved` are met by a non-trivial program: the identity density matrix on
two levels, a swap gate (unitary) and the complete Kraus pair `diag(1,0)`, `diag(0,1)` (dephasing) -/
example : (1 : Matrix (Fin 2) (Fin 2) ℂ).PosSemidef ∧
    ∀ o ∈ [SFV.FockPos.FOp.gate (!![0, 1; 1, 0] : Matrix (Fin 2) (Fin 2) ℂ),
           SFV.FockPos.FOp.chan [!![1, 0; 0, 0], !![0, 0; 0, 1]]], o.complete := by
  refine ⟨Matrix.PosSemidef.one, ?_⟩
  intro o ho
  simp only [List.mem_cons, List.not_mem_nil, or_false] at ho
  rcases ho with rfl | rfl
  · show (!![0, 1; 1, 0] : Matrix (Fin 2) (Fin 2) ℂ)ᴴ * !![0, 1; 1, 0] = 1
    ext i j; fin_cases i <;> fin_cases j <;> simp [Matrix.mul_apply, Fin.sum_univ_two]
  · show ([!![1, 0; 0, 0], !![0, 0; 0, 1]].map fun K : Matrix (Fin 2) (Fin 2) ℂ => Kᴴ * K).sum = 1
    ext i j; fin_cases i <;> fin_cases j <;> simp [Matrix.mul_apply, Fin.sum_univ_two]

end SFV.C07
