import SFV.Proofs.IoIR
/-!
# C14 — saving and loading a program preserves its meaning

Statements over the K8 model (`SFV/Model/IoIR.lean`): `toBB`/`toProgramBB`, `toXIR`/`toProgramXIR` are
transcriptions of the SF converters; the library text layer is `reparseBB` (Blackbird recomputes the
mode set) resp. the identity (XIR) — a hypothesis validated through real text on every run.
"Same meaning" is equality of every field of the program (`Prog`: operations, parameters, modes, flags,
options, target, TDM arrays) up to (i) the dagger normal form `normCmd` for Blackbird, which has no
syntax for `.H` (an inverted gate of `NEGATION_INVERTS` *is* the gate with negated first parameter —
the convention of `ops.Gate`), and (ii) trailing unused modes (`n` becomes `usedModes`).
-/
namespace SFV.C14
open SFV.Io

/-- **Blackbird round trip, whole programs.**  For every (non-TDM) program of the expressible fragment
(`ExprBB`: any number of commands on any modes; numeric / array / measured-expression parameters;
`select` / `dark_counts`; inverted gates of `NEGATION_INVERTS`; target with run options), writing with
`to_blackbird`, passing through text and reading with `to_program` succeeds and returns the program
itself in dagger normal form.  No flag, parameter, mode, option is dropped. -/
theorem roundtrip_blackbird (p : Prog) (h : ExprBB p) :
    ∃ bb, toBB p = .ok bb ∧ toProgramBB (reparseBB bb) = .ok (normBB p) :=
  bb_prog_rt p h

def exProg : Prog :=
  { name := "ex", n := 4, target := some "gaussian", shots := some 3, cutoff := some 5,
    cmds := [
      { cls := "Sgate", regs := [2], pars := [.sc (.flt (1/2)), .sc (.flt (1/8))], dagger := true },
      { cls := "BSgate", regs := [2, 0], pars := [.sc (.flt (1/4)), .sc (.int 0)] },
      { cls := "MeasureHomodyne", regs := [0], pars := [.sc (.flt (1/4))], select := some (.sc (.flt (1/2))) },
      { cls := "Zgate", regs := [1], dagger := true,
        pars := [.sym { pos := ⟨"2*q0", "2*q0", false, none⟩, neg := ⟨"-2*q0", "-2*q0", false, none⟩,
                        meas := [0], frees := [] }] },
      { cls := "Interferometer", regs := [1, 2],
        pars := [.arr [2, 2] [.cpx 0 1, .int 0, .int 0, .cpx 0 1]] },
      { cls := "MeasureFock", regs := [2, 1], dark := some (.lst [.flt (1/8), .flt (1/4)]) } ] }

/-- non-vacuity: a 4-mode program with a trailing unused mode, inverted gates, a measured-parameter
expression, an array, post-selection, dark counts, target and options is in the fragment, and the
model really drops nothing on it -/
example : ExprBB exProg := by
  refine ⟨rfl, by decide, (by intro h; cases h), ?_⟩
  intro c hc
  simp only [exProg, List.mem_cons, List.not_mem_nil, or_false] at hc
  rcases hc with rfl | rfl | rfl | rfl | rfl | rfl
  · refine ⟨by decide, rfl, Or.inr ⟨by decide, rfl, rfl, ?_, ?_⟩⟩
    · intro v hv; simp only [List.mem_cons, List.not_mem_nil, or_false] at hv
      rcases hv with rfl | rfl <;> trivial
    · intro _; exact ⟨by decide, _, _, _, rfl, rfl, trivial⟩
  · refine ⟨by decide, rfl, Or.inr ⟨by decide, rfl, rfl, ?_, by intro h; cases h⟩⟩
    intro v hv; simp only [List.mem_cons, List.not_mem_nil, or_false] at hv
    rcases hv with rfl | rfl <;> trivial
  · refine ⟨by decide, rfl, Or.inl ⟨by decide, rfl, ?_, ?_, ?_, Or.inl rfl⟩⟩
    · intro v hv; simp only [List.mem_cons, List.not_mem_nil, or_false] at hv
      subst hv; trivial
    · intro v hv; cases hv; trivial
    · intro v hv; cases hv
  · refine ⟨by decide, rfl, Or.inr ⟨by decide, rfl, rfl, ?_, ?_⟩⟩
    · intro v hv; simp only [List.mem_cons, List.not_mem_nil, or_false] at hv
      subst hv; exact Or.inl ⟨by decide, by decide⟩
    · intro _; exact ⟨by decide, _, _, _, rfl, rfl, Or.inl ⟨by decide, by decide⟩⟩
  · refine ⟨by decide, rfl, Or.inr ⟨by decide, rfl, rfl, ?_, by intro h; cases h⟩⟩
    intro v hv; simp only [List.mem_cons, List.not_mem_nil, or_false] at hv
    subst hv; trivial
  · refine ⟨by decide, rfl, Or.inl ⟨by decide, rfl, ?_, ?_, ?_, Or.inr rfl⟩⟩
    · intro v hv; cases hv
    · intro v hv; cases hv
    · intro v hv; cases hv; trivial

example : (toBB exProg >>= fun bb => toProgramBB (reparseBB bb)) = .ok (normBB exProg) := by rfl
example : normBB exProg ≠ exProg := by decide +kernel

/-- **one command through Blackbird**, the lemma the program theorem is an induction over: the written
operation carries the command's modes and reads back as the command in dagger normal form. -/
theorem roundtrip_blackbird_command (n k : Nat) (c : Cmd) (h : CmdBB false n k c) :
    ∃ o, toBBOp false c = .ok o ∧ o.modes = c.regs ∧ fromBBOp n o = .ok (normCmd c) :=
  bb_cmd_rt h

example : CmdBB false 3 0
    { cls := "BSgate", regs := [2, 0], dagger := true, pars := [.sc (.flt (1/4)), .sc (.flt (1/8))] } :=
  ⟨by decide, rfl, Or.inr ⟨by decide, rfl, rfl, by
    intro v hv; simp only [List.mem_cons, List.not_mem_nil, or_false] at hv
    rcases hv with rfl | rfl <;> trivial, fun _ => ⟨by decide, _, _, _, rfl, rfl, trivial⟩⟩⟩

/-- **the inverse flag is never silently dropped by the Blackbird writer**: for *every* command
(no fragment hypothesis), an inverted non-measurement either makes the writer raise, or is written
with its first parameter negated. -/
theorem dagger_never_dropped (tdm : Bool) (c : Cmd) (hd : c.dagger = true) (hm : isMeasure c.cls = false)
    (o : BBOp) (h : toBBOp tdm c = .ok o) :
    ∃ a as b, c.pars = a :: as ∧ a.neg = some b ∧ o.args = (b :: as).map (bbArg tdm) := by
  unfold toBBOp at h
  simp only [hm, Bool.false_eq_true, ↓reduceIte, hd] at h
  split at h
  · cases hp : c.pars with
    | nil => simp [hp, negFirst, bind, Except.bind] at h
    | cons a as =>
      cases hb : a.neg with
      | none => simp [hp, negFirst, hb, bind, Except.bind] at h
      | some b =>
        simp only [hp, negFirst, hb, bind, Except.bind, Except.ok.injEq] at h
        exact ⟨a, as, b, rfl, hb, by rw [← h]⟩
  · simp [bind, Except.bind] at h

def exS : Cmd := { cls := "Sgate", regs := [1], dagger := true, pars := [.sc (.flt (1/2)), .sc (.int 0)] }

example : ∃ o, toBBOp false exS = .ok o ∧ o.args = [.sc (.flt (-1/2)), .sc (.int 0)] :=
  ⟨_, rfl, by decide +kernel⟩

/-- **the XIR writer and reader carry the inverse flag of every command** (no hypothesis on the
command beyond "the reader accepts it"). -/
theorem xir_inverse_flag (tdm : Bool) (n : Nat) (c c' : Cmd)
    (h : fromXStmt n (toXStmt tdm c) = .ok c') : c'.dagger = c.dagger := by
  have hb : ∀ cls regs args kws inv (r : Cmd), build cls regs args kws inv = .ok r → r.dagger = inv := by
    intro cls regs args kws inv r hr
    unfold build at hr
    split at hr
    · cases hr
    · split at hr
      · cases hr
      · cases hr; rfl
  have hinv : (toXStmt tdm c).inverse = c.dagger := by unfold toXStmt; split <;> rfl
  unfold fromXStmt at h
  split at h
  · rw [← hinv]; exact hb _ _ _ _ _ _ h
  · rw [← hinv]; exact hb _ _ _ _ _ _ h
  · simp only [bind, Except.bind] at h
    split at h
    · cases h
    · rw [← hinv]; exact hb _ _ _ _ _ _ h
  · simp only [bind, Except.bind] at h
    split at h
    · cases h
    · split at h
      · cases h
      · rw [← hinv]; exact hb _ _ _ _ _ _ h

example : fromXStmt 3 (toXStmt false exS) = .ok exS := by rfl

/- Full statement for XIR (not yet proved in Lean; evaluated against the real code on every run by the
correspondence pairs `toXIR` / `toProgramXIR` and checked by the oracle):
  `roundtrip_xir : ExprX p → toProgramXIR (toXIR p) = .ok { p with n := usedModes p }`
for ordinary and TDM programs (exact equality, including `dagger`), and the TDM Blackbird variant
  `roundtrip_blackbird_tdm : ExprBBTdm p → ∃ bb, toBB p = .ok bb ∧ toProgramBB (reparseBB bb) = .ok (normBB p)`.
Missing: the measurement-statement case (keyword parameters `phi/select/dark_counts`) of the XIR command
lemma, the TDM command lemmas (value lemmas `bb_val_rt_tdm`, `phi_bb_rt_tdm` exist) and the two
list inductions.  Proved part: -/

/-- **one gate / preparation / channel command through XIR**: for every such command with numeric and
array parameters (1-D arrays: shape = length), any modes, any inverse flag, `from_xir (to_xir c)` returns
the command itself — nothing normalised, the `dagger` flag included. -/
theorem roundtrip_xir_command_partial (n : Nat) (c : Cmd) (hF : c.cls ≠ "Fouriergate") (hkw : c.kw = [])
    (hm : isMeasure c.cls = false) (hs : c.select = none) (hd : c.dark = none)
    (hv : ∀ v ∈ c.pars, ValX false 0 v) : fromXStmt n (toXStmt false c) = .ok c :=
  xir_gate_rt hF hkw hm hs hd hv

def exI : Cmd := { cls := "Interferometer", regs := [3, 1], pars := [.arr [2, 2] [.cpx 0 1, .int 0, .int 0, .cpx 0 1]] }

example : exI.cls ≠ "Fouriergate" ∧ isMeasure exI.cls = false ∧ (∀ v ∈ exI.pars, ValX false 0 v) ∧
    fromXStmt 4 (toXStmt false exI) = .ok exI := by
  refine ⟨by decide, by decide, ?_, by rfl⟩
  intro v hv
  simp only [exI, List.mem_cons, List.not_mem_nil, or_false] at hv
  subst hv
  intro m hm; cases hm

/-- **`_factor_out_pi`**: for every integer `m`, the term `c*np.pi/d` printed for `m·π/12` denotes it
(`c/d = m/12`, `d > 0`).  (With the truncating `int(p / factor)` of the original code this is false.) -/
theorem factor_out_pi_denotes (m : Int) :
    (piTerm m).1 * 12 = m * ((piTerm m).2 : Int) ∧ 0 < (piTerm m).2 :=
  piTerm_denotes m

example : piTerm 60 = (5, 1) ∧ piString 60 = "5*np.pi" ∧ piTerm 63 = (21, 4) ∧ piTerm (-2) = (-1, 6) := by
  decide +kernel

/-! ### known findings: what the converters do outside the fragment (model = code) -/

/-- a symbolic parameter without measured atoms (a free parameter, an expression of free parameters or
of TDM loop variables) comes back from Blackbird as a *string*, for every such expression -/
theorem free_parameter_blackbird_counterexample (n : Nat) (e : Sym) (h : e.meas = [])
    (hl : e.pos.loop = none) :
    convert n (unPname (bbArg false (.sym e))) = .ok (.str e.pos.text) ∧
    convert n (tdmArg (bbArg true (.sym e))) = .ok (.str e.pos.text) := by
  simp [bbArg, h, hl, unPname, tdmArg, convert]

/-- a string parameter (free parameter name, expression, measured parameter) makes the non-TDM XIR
reader raise `TypeError`, for every symbolic parameter -/
theorem symbolic_parameter_xir_counterexample (e : Sym) :
    xirReadArg (xirArg false (.sym e)) = .error .typeError := by
  simp only [xirArg]
  rfl

/-- run options of a program without target are not written to Blackbird -/
theorem options_without_target_counterexample (p : Prog) (h : p.target = none) (bb : BB)
    (hb : toBB p = .ok bb) : bb.shots = none ∧ bb.cutoff = none := by
  unfold toBB at hb
  simp only [bind, Except.bind] at hb
  split at hb
  · cases hb
  · simp only [h, Option.isSome_none, Bool.false_eq_true, ↓reduceIte, Except.ok.injEq] at hb
    rw [← hb]; exact ⟨rfl, rfl⟩

/-- constructor keyword options outside `op.p` are lost by the readers (both IRs) -/
theorem constructor_kwargs_counterexample (cls : String) (regs : List Nat) (args : List Val)
    (kws : List (String × Val)) (inv : Bool) (c : Cmd) (h : build cls regs args kws inv = .ok c) :
    c.kw = [] := by
  unfold build at h
  split at h
  · cases h
  · split at h
    · cases h
    · cases h; rfl

end SFV.C14
