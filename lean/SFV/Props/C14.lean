import SFV.Proofs.IoIR
import SFV.Proofs.IoPi
/-!
# C14 — saving and loading a program preserves its meaning

Statements over the K8 model (`SFV/Model/IoIR.lean`): `toBB`/`toProgramBB`, `toXIR`/`toProgramXIR` are
transcriptions of the SF converters.  Two library layers enter as explicit data / hypotheses, validated
on every run against the installed libraries: the text layer (`reparseBB`: Blackbird recomputes the mode
set and text carries no held values; XIR: identity) and SymPy's parser as the table
`P : String → Option Sym` (the fragment predicates demand `P (printed form of e) = some e`).
"Same meaning" is equality of every field of the program (`Prog`: operations, parameters, modes, flags,
options, target, TDM arrays) up to (i) the dagger normal form `normCmd` for Blackbird, which has no
syntax for `.H` (an inverted gate of `NEGATION_INVERTS` *is* the gate with negated first parameter —
the convention of `ops.Gate`), (ii) trailing unused modes (`n` becomes what a reader can infer) and
(iii) the values parameters happen to hold (`clearCmd`: a freshly loaded program holds none).
-/
namespace SFV.C14
open SFV.Io

/-- **Blackbird round trip, whole programs, ordinary and TDM.**  For every program of the expressible
fragment `ExprBB` (any number of commands on any modes; numbers, arrays, strings, expressions of measured
parameters, expressions of free parameters, TDM loop variables and expressions of them; `select` /
`dark_counts`; inverted gates of `NEGATION_INVERTS`; `Fouriergate`; target with shots / cutoff; TDM arrays
with `N = [modes]`), `to_blackbird` succeeds and text + `to_program` return the program itself in dagger
normal form.  Nothing is dropped: flags, parameters, modes, options, per-bin arrays. -/
theorem roundtrip_blackbird (P : String → Option ISym) (p : Prog) (h : ExprBB P p) :
    ∃ bb, toBB p = .ok bb ∧ toProgramBB P (reparseBB bb) = .ok (normBB p) :=
  bb_prog_rt P p h

/-- `2*q0` with its negation, as SymPy reports it; currently evaluating to 1/2 (measured in an earlier run) -/
def exMeas : Sym :=
  { pos := ⟨"2*q0", "2*q0", false, none⟩, neg := ⟨"-2*q0", "-2*q0", false, none⟩, meas := [0], frees := [],
    val := some (.flt (1/2)) }

/-- `2*{x} + 1`, bound to 3/2 -/
def exFree : Sym :=
  { pos := ⟨"2*{x} + 1", "2*x + 1", false, none⟩, neg := ⟨"-2*{x} - 1", "-2*x - 1", false, none⟩, meas := [],
    frees := ["x"], val := some (.flt (3/2)) }

/-- SymPy's parser on the strings involved -/
def exP : String → Option ISym := fun s =>
  if s = "2*{x} + 1" ∨ s = "2*x + 1" then some { toI exFree with val := none }
  else if s = "-2*{x} - 1" ∨ s = "-2*x - 1" then some { toI exFree.negate with val := none }
  else if s = "2*q0" then some { toI exMeas with val := none } else none

def exProg : Prog :=
  { name := "ex", n := 4, target := some "gaussian", shots := some 3, cutoff := some 5,
    cmds := [
      { cls := "Sgate", regs := [2], pars := [.sc (.flt (1/2)), .sc (.flt (1/8))], dagger := true },
      { cls := "BSgate", regs := [2, 0], pars := [.sym exFree, .sc (.int 0)], dagger := true },
      { cls := "MeasureHomodyne", regs := [0], pars := [.sc (.flt (1/4))], select := some (.sc (.flt (1/2))) },
      { cls := "Zgate", regs := [1], dagger := true, pars := [.sym exMeas] },
      { cls := "Fouriergate", regs := [1], pars := [halfPi] },
      { cls := "Interferometer", regs := [1, 2],
        pars := [.arr [2, 2] [.cpx 0 1, .int 0, .int 0, .cpx 0 1]] },
      { cls := "MeasureFock", regs := [2, 1], dark := some (.lst [.flt (1/8), .flt (1/4)]) } ] }

/-- non-vacuity: on a 4-mode program with a trailing unused mode, inverted gates with numeric, free and
measured first parameters (holding values), `Fouriergate`, a complex array, post-selection, dark counts,
target and options, the composed model functions return the normal form, and the normal form differs
from the program (dagger, values, `n`) -/
example : (toBB exProg >>= fun bb => toProgramBB exP (reparseBB bb)) = .ok (normBB exProg) := by decide +kernel
example : normBB exProg ≠ exProg := by decide +kernel

/-- **XIR round trip, whole programs, ordinary and TDM.**  For every program of the fragment `ExprX`
(numbers, arrays, expressions of free and measured parameters, TDM loop variables and expressions of
them, measurement phase / `select` / `dark_counts`, *any* inverse flags, `Fouriergate`, name, target,
shots, cutoff, `N` and the per-bin arrays), `to_program (to_xir p)` returns `p` itself — `dagger`
included, nothing normalised except the held values and `n` (highest used mode + 1, for TDM `sum N`). -/
theorem roundtrip_xir (P : String → Option ISym) (p : Prog) (h : ExprX P p) :
    toProgramXIR P (toXIR p) = .ok (normX p) :=
  xir_prog_rt P p h

def exTdm : Prog :=
  { name := "t", n := 3, target := some "TD2", shots := some 5, cutoff := some 4,
    tdm := some { N := [1, 2], params := [[.flt (1/8), .flt (1/4)], [.int 1, .int 2]] },
    cmds := [
      { cls := "BSgate", regs := [1, 2], pars := [.sym (loopSym 0), .sc (.flt (1/2))], dagger := true },
      { cls := "Rgate", regs := [1], pars := [.sym (loopSym 1)] },
      { cls := "MeasureHomodyne", regs := [0], pars := [.sym (loopSym 1)], select := some (.sc (.flt 0)) } ] }

example : toProgramXIR exP (toXIR exTdm) = .ok (normX exTdm) ∧ normX exTdm = exTdm := by decide +kernel
example : toProgramXIR exP (toXIR exProg) = .ok (normX exProg) ∧ (normX exProg).cmds.map (·.dagger) =
    exProg.cmds.map (·.dagger) := by decide +kernel

/-- the TDM program with `N = [3]` also goes through Blackbird (the loop variable of the inverted gate
comes back negated: `-{p0}` is written as a string and parsed) -/
def exTdmBB : Prog := { exTdm with tdm := some { N := [3], params := [[.flt (1/8), .flt (1/4)], [.int 1, .int 2]] } }
def exPT : String → Option ISym := fun s => if s = "-{p0}" then some (toI (loopSym 0).negate) else none
example : (toBB exTdmBB >>= fun bb => toProgramBB exPT (reparseBB bb)) = .ok (normBB exTdmBB) := by decide +kernel

/-- **one command through Blackbird**, the lemma the program theorem is an induction over. -/
theorem roundtrip_blackbird_command (P : String → Option ISym) (tdm : Bool) (n : Nat) (c : Cmd)
    (h : CmdBB P tdm n c) :
    ∃ o, toBBOp tdm c = .ok o ∧ o.modes = c.regs ∧ rdBBOp P tdm n (textOp o) = .ok (clearCmd (normCmd c)) :=
  bb_cmd_rt h

example : CmdBB exP false 3 { cls := "BSgate", regs := [2, 0], dagger := true, pars := [.sym exFree, .sc (.flt (1/8))] } :=
  ⟨by decide, rfl, by
    intro v hv; simp only [List.mem_cons, List.not_mem_nil, or_false] at hv
    rcases hv with rfl | rfl
    · exact Or.inr (Or.inr (Or.inr ⟨by decide, rfl, Or.inl rfl, by decide, by decide⟩))
    · trivial,
   Or.inr ⟨by decide, rfl, rfl, Or.inr ⟨by decide, fun _ => ⟨by decide, _, _, _, rfl, rfl,
     Or.inr (Or.inr (Or.inr ⟨by decide, rfl, Or.inl rfl, by decide, by decide⟩))⟩⟩⟩⟩

/-- **one command through XIR** (gates, preparations, channels, measurements; ordinary and TDM): returned
unchanged, inverse flag included. -/
theorem roundtrip_xir_command (P : String → Option ISym) (tdm : Bool) (k n : Nat) (c : Cmd)
    (h : CmdX P tdm k n c) : rdXStmt P tdm n k (toXStmt tdm c) = .ok (clearCmd c) :=
  xir_cmd_rt h

example : CmdX exP true 2 3 { cls := "MeasureHomodyne", regs := [0], pars := [.sym (loopSym 1)], select := some (.sc (.flt 0)) } :=
  ⟨by decide, rfl, Or.inl ⟨by decide, by decide, Or.inr ⟨_, rfl, Or.inr (Or.inl ⟨rfl, 1, by decide, rfl⟩)⟩,
    (by intro v hv; cases hv; trivial), (by intro v hv; cases hv), Or.inl rfl⟩⟩

/-- **subsystem indices survive their decimal names**: `int(str(n)) = n` for every `n` (any number of
digits), on the digit-list model of the printing in `MeasuredParameter` and the parsing in `par_convert`. -/
theorem index_roundtrip (n : Nat) : parseIndex (printIndex n) = some n :=
  parseIndex_printIndex n

example : printIndex 1203 = ['1', '2', '0', '3'] ∧ parseIndex ['0', '1', '0'] = some 10 ∧ parseIndex [] = none ∧
    parseIndex ['1', 'x'] = none ∧ measuredIndex "q10" = some 10 ∧ measuredIndex "q1x" = none ∧
    measuredIndex "quality" = none ∧ measuredIndex "q" = none := by decide +kernel

/-- **TDM loop-variable names**: the index the readers take from the name `p<i>` (`is_ptype`, `int(name[1:])`) is
`i`, for every `i`; likewise `q<i>` for measured parameters. -/
theorem loop_variable_name_roundtrip (i : Nat) : ptypeIndex (pName i) = some i ∧ measuredIndex (qName i) = some i :=
  ⟨ptypeIndex_pName i, measuredIndex_qName i⟩

example : pName 12 = "p12" ∧ ptypeIndex "p12" = some 12 ∧ ptypeIndex "p" = none ∧ ptypeIndex "p1x" = none ∧
    ptypeIndex "q1" = none ∧ qName 10 = "q10" := by decide +kernel

/-- **`par_convert` inverts the writers' naming of atoms**: an expression written under the names of its atoms
(measured parameter of subsystem `i` ↦ `q<i>`, free parameter ↦ its name) is mapped back to itself, for all
subsystem indices, provided no free parameter is itself named `q<digits>` (`WellNamed`). -/
theorem par_convert_inverts_naming (e : Sym) (hw : WellNamed e) : fromI (toI e) = e.noVal :=
  fromI_toI e hw

def exMix : Sym :=
  { pos := ⟨"q1 - q10 + {q1x}", "q1 - q10 + q1x", false, none⟩, neg := ⟨"-q1 + q10 - {q1x}", "-q1 + q10 - q1x", false, none⟩,
    meas := [1, 10], frees := ["q1x"], val := some (.flt (1/2)) }

example : WellNamed exMix ∧ (toI exMix).names = ["q1", "q10", "q1x"] ∧ fromI (toI exMix) = exMix.noVal ∧
    exMix.noVal ≠ exMix := by decide +kernel

/-- (finding, by construction of the IRs) a free parameter that is itself named `q<digits>` cannot be told from a
measured parameter: it comes back as the measured parameter of that subsystem -/
theorem free_parameter_named_like_measured_counterexample :
    fromI (toI { pos := ⟨"{q1}", "q1", true, none⟩, neg := ⟨"-{q1}", "-q1", false, none⟩, meas := [], frees := ["q1"] }) =
      { pos := ⟨"{q1}", "q1", true, none⟩, neg := ⟨"-{q1}", "-q1", false, none⟩, meas := [1], frees := [] } := by
  decide +kernel

/-- **the inverse flag is never silently dropped by the Blackbird writer**: for *every* command
(no fragment hypothesis), an inverted non-measurement either makes the writer raise, or is written
with its first parameter negated. -/
theorem dagger_never_dropped (tdm : Bool) (c : Cmd) (hd : c.dagger = true) (hm : isMeasure c.cls = false)
    (o : BBOp) (h : toBBOp tdm c = .ok o) :
    ∃ a as b, ctorParams c = a :: as ∧ a.neg = some b ∧ o.args = (b :: as).map (bbArg tdm) := by
  unfold toBBOp at h
  simp only [hm, Bool.false_eq_true, ↓reduceIte, hd] at h
  split at h
  · cases hp : ctorParams c with
    | nil => simp [hp, negFirst, bind, Except.bind] at h
    | cons a as =>
      cases hb : a.neg with
      | none => simp [hp, negFirst, hb, bind, Except.bind] at h
      | some b =>
        simp only [hp, negFirst, hb, bind, Except.bind, Except.ok.injEq] at h
        exact ⟨a, as, b, rfl, hb, by rw [← h]⟩
  · simp [bind, Except.bind] at h

def exS : Cmd := { cls := "Sgate", regs := [1], dagger := true, pars := [.sc (.flt (1/2)), .sc (.int 0)] }

example : ∃ o, toBBOp false exS = .ok o ∧ o.args = [.sc (.flt (-1/2)), .sc (.int 0)] :=
  ⟨_, rfl, by decide +kernel⟩

/-- **the XIR writer and reader carry the inverse flag of every command** (no hypothesis on the
command beyond "the reader accepts it"). -/
theorem xir_inverse_flag (P : String → Option ISym) (tdm : Bool) (n : Nat) (c c' : Cmd)
    (h : fromXStmt P n (toXStmt tdm c) = .ok c') : c'.dagger = c.dagger := by
  have hb : ∀ cls regs args kws inv (r : Cmd), build cls regs args kws inv = .ok r → r.dagger = inv := by
    intro cls regs args kws inv r hr
    unfold build at hr
    split at hr
    · cases hr
    · split at hr
      · cases hr
      · cases hr; rfl
  have hinv : (toXStmt tdm c).inverse = c.dagger := by unfold toXStmt; split <;> rfl
  unfold fromXStmt at h
  simp only [bind, Except.bind] at h
  split at h
  · cases h
  split at h
  · rw [← hinv]; exact hb _ _ _ _ _ _ h
  · rw [← hinv]; exact hb _ _ _ _ _ _ h
  · split at h
    · cases h
    · split at h
      · cases h
      · rw [← hinv]; exact hb _ _ _ _ _ _ h
  · split at h
    · cases h
    · split at h
      · cases h
      · rw [← hinv]; exact hb _ _ _ _ _ _ h

example : fromXStmt exP 3 (toXStmt false exS) = .ok exS := by decide +kernel

/-- **no state between calls (XIR writer)**: whatever values the symbolic parameters of a program hold
(bound by `bind_params`, measured in an earlier run), `to_xir` produces the same XIR program.
(Before the fix the writer evaluated every parameter that had a value: the model's writer had to read
`Sym.val`, and this statement was false.) -/
theorem to_xir_ignores_held_values (f : Sym → Option Sc) (p : Prog) : toXIR (p.reval f) = toXIR p :=
  toXIR_reval f p

example : exProg.reval (fun _ => none) ≠ exProg ∧ toXIR (exProg.reval fun _ => none) = toXIR exProg := by
  decide +kernel

/-- **no state between calls (Blackbird writer)**: the text written for any command (inverted or not,
measurement or not) does not depend on the values its symbolic parameters hold; the whole program is
written command by command (`List.mapM`). -/
theorem to_blackbird_text_ignores_held_values (f : Sym → Option Sc) (tdm : Bool) (c : Cmd) :
    (toBBOp tdm (c.reval f)).map textOp = (toBBOp tdm c).map textOp :=
  toBBOp_reval f tdm c

example : (exProg.cmds.map fun c => (toBBOp false (c.reval fun _ => none)).map textOp) =
    exProg.cmds.map (fun c => (toBBOp false c).map textOp) ∧
    (exProg.cmds.map fun c => toBBOp false (c.reval fun _ => none)) ≠ exProg.cmds.map (toBBOp false) := by
  decide +kernel

/-- **the source tables the model transcribes are today's tables** (regenerated from `ops.py` and
`blackbird_io.py` on every build): `NEGATION_INVERTS` is exactly the list of gates for which the `ops.Gate`
convention "inverse = negated first parameter" is assumed (adding `MZgate`, a channel or a preparation
breaks the build), every member is an operation class the readers accept, and the only constructors
without arguments are those of `Fouriergate` (fixed parameter) and `Vacuum` (no parameter). -/
theorem source_tables_agree :
    SFV.Gen.ioNegationInverts = ["BSgate", "CKgate", "CXgate", "CZgate", "Dgate", "Kgate", "Pgate", "Rgate",
      "S2gate", "Sgate", "Vgate", "Xgate", "Zgate"] ∧
    (∀ cls ∈ SFV.Gen.ioClassNames ++ SFV.Gen.ioShorthands, negInverts cls = SFV.Gen.ioNegationInverts.contains cls) ∧
    (∀ cls ∈ SFV.Gen.ioNegationInverts, SFV.Gen.ioClassNames.contains cls = true) ∧
    SFV.Gen.ioNoArgCtors = ["Fouriergate", "Vacuum"] := by decide +kernel

example : SFV.Gen.ioClassNames.length = 39 ∧ negInverts "MZgate" = false ∧ negInverts "LossChannel" = false := by
  decide +kernel

/-- **`_factor_out_pi`**: for every integer `m`, the term `c*np.pi/d` printed for `m·π/12` denotes it
(`c/d = m/12`, `d > 0`).  (With the truncating `int(p / factor)` of the original code this is false.) -/
theorem factor_out_pi_denotes (m : Int) :
    (piTerm m).1 * 12 = m * ((piTerm m).2 : Int) ∧ 0 < (piTerm m).2 :=
  piTerm_denotes m

example : piTerm 60 = (5, 1) ∧ piString 60 = "5*np.pi" ∧ piTerm 63 = (21, 4) ∧ piTerm (-2) = (-1, 6) := by
  decide +kernel

/-- **`generate_code`: executing the printed code rebuilds the program.**  For every program whose
parameters are numbers or TDM loop variables (any classes, modes, inverse flags, `select`, `dark_counts`,
`Fouriergate`, TDM `N` and per-bin arrays), the meaning of the printed text (`evalCode`: literals, multiples of
`np.pi`, `p[i]`, keyword options, `.H`) is the program itself (`codeNorm`: without name / target / options,
which the code does not state) with every number replaced by what its printed form denotes. -/
theorem generate_code_rebuilds (p : Prog) (h : ExprCode p) : evalCode (genCode p) = .ok (codeNorm p) :=
  code_prog_rt p h

/-- `5π/12` as a float: printed `5*np.pi/12` -/
def exPi : Sc := .flt (5895198126690367 / 4503599627370496)

def exCode : Prog :=
  { name := "c", n := 3, tdm := some { N := [1, 2], params := [[exPi, .flt (1/4)], [.int 1, .int 2]] },
    cmds := [
      { cls := "BSgate", regs := [1, 2], pars := [.sym (loopSym 0), exPi |> Val.sc], dagger := true },
      { cls := "MeasureHomodyne", regs := [0], pars := [.sym (loopSym 1)], select := some (.sc (.flt 0)) } ] }

example : genNum exPi = .piMul 5 12 ∧ genNum (.flt (1/4)) = .lit (.flt (1/4)) ∧
    evalCode (genCode exCode) = .ok (codeNorm exCode) ∧ (codeNorm exCode).cmds.map (·.dagger) = [true, false] ∧
    codeNorm exCode ≠ { exCode with name := "" } := by
  decide +kernel

/-- **every printed number denotes its parameter**: what `codeNorm` puts in place of a number `q` is `q`
itself or the value of `c*np.pi/d`, within `3e-6 + 1e-15·|q|` of `q` (`np.isclose` tolerance of
`_factor_out_pi`; with the truncating original the error was up to `π/12`). -/
theorem generated_numbers_denote (s : Sc) : ScClose s (denSc s) :=
  genNum_close s

example : denSc exPi ≠ exPi ∧ denSc (.flt (1/4)) = .flt (1/4) := by decide +kernel

/-- **the window of `_factor_out_pi`**: a number is printed as the multiple `m` of `π/12` only if it lies within
`2.7e-6` of it. -/
theorem factor_out_pi_window (q : Rat) (m : Int) (h : piMultiple q = some m) :
    |q - (m : Rat) * piF| ≤ 27 / 10000000 :=
  piMultiple_close q m h

example : piMultiple (5895198126690367 / 4503599627370496) = some 5 ∧ piMultiple (13 / 10) = none := by
  decide +kernel

/-! ### known findings: what the converters do outside the fragment (model = code) -/

/-- run options of a program without target are not written to Blackbird -/
theorem options_without_target_counterexample (p : Prog) (h : p.target = none) (bb : BB)
    (hb : toBB p = .ok bb) : bb.shots = none ∧ bb.cutoff = none ∧ bb.extra = [] := by
  unfold toBB at hb
  simp only [bind, Except.bind] at hb
  split at hb
  · cases hb
  · simp only [h, Option.isSome_none, Bool.false_eq_true, ↓reduceIte, Except.ok.injEq] at hb
    rw [← hb]; exact ⟨rfl, rfl, rfl⟩

/-- run / backend options other than `shots` and `cutoff_dim` are restored by no reader, and never
written to XIR -/
theorem other_options_counterexample (P : String → Option ISym) (bb : BB) (x : XIR) (p : Prog) :
    (toProgramBB P bb = .ok p → p.extra = []) ∧ (toProgramXIR P x = .ok p → p.extra = []) := by
  constructor
  · intro h
    unfold toProgramBB at h
    split at h
    · cases h
    · split at h
      · simp only [fromBBTdm, bind, Except.bind] at h
        split at h
        · cases h
        · cases h; rfl
      · simp only [fromBB, bind, Except.bind] at h
        split at h
        · cases h
        · cases h; rfl
  · intro h
    unfold toProgramXIR at h
    split at h
    · unfold fromXIRTdm at h
      split at h
      · cases h
      · cases h
      · simp only [bind, Except.bind] at h
        split at h
        · cases h
        · cases h; rfl
    · unfold fromXIR at h
      split at h
      · cases h
      · simp only [bind, Except.bind] at h
        split at h
        · cases h
        · cases h; rfl

/-- constructor keyword options outside `op.p` are lost by the readers (both IRs) -/
theorem constructor_kwargs_counterexample (cls : String) (regs : List Nat) (args : List Val)
    (kws : List (String × Val)) (inv : Bool) (c : Cmd) (h : build cls regs args kws inv = .ok c) :
    c.kw = [] := by
  unfold build at h
  split at h
  · cases h
  · split at h
    · cases h
    · cases h; rfl

/-- XIR has no string values: a string parameter never comes back as a string (it is read as an expression
over symbols, or the reader raises) -/
theorem string_parameter_xir_counterexample (P : String → Option ISym) (tdm : Bool) (k : Nat) (s : String)
    (v : Val) (h : rdX P tdm k (xirArg tdm (.str s)) = .ok v) : ∃ e, v = .rrt e := by
  cases tdm
  · simp only [rdX, Bool.false_eq_true, ↓reduceIte, xirArg, xirReadArg, xirExpr] at h
    split at h
    · cases h; exact ⟨_, rfl⟩
    · cases h
  · simp only [rdX, ↓reduceIte, xirArg, xirReadArgTdm, xirExpr] at h
    split at h
    · cases h; exact ⟨_, rfl⟩
    · cases h

end SFV.C14
