import SFV.AuditCmd
import SFV.Props.C03
#sfv_audit SFV.C03
