import SFV.AuditCmd
import SFV.Props.C10
#sfv_audit SFV.C10
