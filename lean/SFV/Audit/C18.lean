import SFV.AuditCmd
import SFV.Props.C18
#sfv_audit SFV.C18
