import SFV.AuditCmd
import SFV.Props.C15
#sfv_audit SFV.C15
