import SFV.AuditCmd
import SFV.Props.C02
#sfv_audit SFV.C02
