import SFV.AuditCmd
import SFV.Props.C11
#sfv_audit SFV.C11
