import SFV.AuditCmd
import SFV.Props.C07
#sfv_audit SFV.C07
