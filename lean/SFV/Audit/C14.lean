import SFV.AuditCmd
import SFV.Props.C14
#sfv_audit SFV.C14
