import SFV.AuditCmd
import SFV.Props.C16
#sfv_audit SFV.C16
