import SFV.AuditCmd
import SFV.Props.C06
#sfv_audit SFV.C06
