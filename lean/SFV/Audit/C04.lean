import SFV.AuditCmd
import SFV.Props.C04
#sfv_audit SFV.C04
