import SFV.AuditCmd
import SFV.Props.C12
#sfv_audit SFV.C12
