import SFV.AuditCmd
import SFV.Props.C01
#sfv_audit SFV.C01
