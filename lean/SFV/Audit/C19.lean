import SFV.AuditCmd
import SFV.Props.C19
#sfv_audit SFV.C19
