import SFV.AuditCmd
import SFV.Props.C20
#sfv_audit SFV.C20
