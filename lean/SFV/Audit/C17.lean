import SFV.AuditCmd
import SFV.Props.C17
#sfv_audit SFV.C17
