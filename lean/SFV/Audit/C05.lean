import SFV.AuditCmd
import SFV.Props.C05
#sfv_audit SFV.C05
