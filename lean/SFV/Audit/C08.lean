import SFV.AuditCmd
import SFV.Props.C08
#sfv_audit SFV.C08
