import SFV.AuditCmd
import SFV.Props.C09
#sfv_audit SFV.C09
