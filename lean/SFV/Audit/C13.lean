import SFV.AuditCmd
import SFV.Props.C13
#sfv_audit SFV.C13
