import Lean
/-! `#sfv_audit NS` prints, for every theorem whose name starts with `NS`, the axioms it depends on,
and the list of theorems of this library (`SFV.*`) it transitively uses.  Output is parsed by the
harness (`AUDIT-THM`, `AUDIT-DEP` lines). -/
open Lean Elab Command

namespace SFV.Audit

partial def collectDeps (env : Environment) (root : Name) : NameSet := Id.run do
  let mut seen : NameSet := {}
  let mut todo : Array Name := #[root]
  while !todo.isEmpty do
    let n := todo.back!
    todo := todo.pop
    if seen.contains n then continue
    seen := seen.insert n
    match env.find? n with
    | none => pure ()
    | some ci =>
      let used := ci.type.getUsedConstants ++ (match ci.value? (allowOpaque := true) with
        | some v => v.getUsedConstants | none => #[])
      for u in used do
        -- only walk inside this library
        if (`SFV).isPrefixOf u && !seen.contains u then todo := todo.push u
  return seen

elab "#sfv_audit " ns:ident : command => do
  let env ← getEnv
  let nsName := ns.getId
  let mut thms : Array Name := #[]
  for (n, ci) in env.constants.toList do
    if nsName.isPrefixOf n && !n.isInternalDetail then
      match ci with
      | .thmInfo _ => thms := thms.push n
      | _ => pure ()
  let thmsSorted := thms.qsort (fun a b => a.toString < b.toString)
  let mut allDeps : NameSet := {}
  for t in thmsSorted do
    let axs ← liftCoreM <| collectAxioms t
    let axStr := ", ".intercalate (axs.toList.map toString)
    logInfo m!"AUDIT-THM {t} : [{axStr}]"
    for d in (collectDeps env t).toList do
      match env.find? d with
      | some (.thmInfo _) =>
        let s := d.toString
        let auto := d.isInternalDetail || (s.splitOn "._").length > 1 || (s.splitOn ".eq_").length > 1
          || (s.splitOn ".match_").length > 1 || (s.splitOn ".inst").length > 1
        if !nsName.isPrefixOf d && !auto then allDeps := allDeps.insert d
      | _ => pure ()
  for d in allDeps.toList do
    let axs ← liftCoreM <| collectAxioms d
    let axStr := ", ".intercalate (axs.toList.map toString)
    logInfo m!"AUDIT-DEP {d} : [{axStr}]"

end SFV.Audit
