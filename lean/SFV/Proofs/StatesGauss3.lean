import SFV.Proofs.StatesGauss2
import SFV.Proofs.StatesFock2

/-! Third batch: the index layout of Gaussian `dm()` / `reduced_dm`. -/
namespace SFV.States
open SFV.Fock

namespace G3

theorem flat_idxOf (k : Nat) : ∀ (len s : Nat), s + len ≤ k →
    ((List.range' s len).flatMap fun m => [m, m + k]).length = 2 * len ∧
    ∀ a, s ≤ a → a < s + len →
      ((List.range' s len).flatMap fun m => [m, m + k]).idxOf a = 2 * (a - s) ∧
      ((List.range' s len).flatMap fun m => [m, m + k]).idxOf (a + k) = 2 * (a - s) + 1 := by
  intro len
  induction len with
  | zero => intro s _; exact ⟨by simp, fun a h1 h2 => by omega⟩
  | succ len ih =>
    intro s hs
    obtain ⟨ihl, ihi⟩ := ih (s + 1) (by omega)
    rw [List.range'_succ, List.flatMap_cons]
    refine ⟨by simp only [List.length_append, ihl, List.length_cons, List.length_nil]; omega, ?_⟩
    intro a h1 h2
    simp only [List.cons_append, List.nil_append, List.idxOf_cons]
    by_cases hsa : a = s
    · subst hsa
      have c : (a == a + k) = false := by simp; omega
      simp [c]
    · obtain ⟨e1, e2⟩ := ihi a (by omega) (by omega)
      have c1 : (s == a) = false := by simp; omega
      have c2 : (s + k == a) = false := by simp; omega
      have c3 : (s == a + k) = false := by simp; omega
      have c4 : (s + k == a + k) = false := by simp; omega
      rw [c1, c2, c3, c4, e1, e2]
      simp only [cond_false]
      omega

end G3

/-- `dmAxes k` is a permutation of `range (2k)` with `2m ↦ m`, `2m+1 ↦ m + k` -/
theorem dmAxes_idxOf (k a : Nat) (ha : a < k) :
    (dmAxes k).idxOf a = 2 * a ∧ (dmAxes k).idxOf (a + k) = 2 * a + 1 ∧ (dmAxes k).length = 2 * k := by
  obtain ⟨hl, hi⟩ := G3.flat_idxOf k k 0 (by omega)
  obtain ⟨e1, e2⟩ := hi a (by omega) (by omega)
  rw [← List.range_eq_range'] at hl e1 e2
  exact ⟨by simpa [dmAxes] using e1, by simpa [dmAxes] using e2, by simpa [dmAxes] using hl⟩

/-- **the transposition of `|ψ⟩⟨ψ|` by `dmAxes` is the documented interleaved layout, for every number of modes** -/
theorem dm_layout {K : Type} [Mul K] (k : Nat) (cj : K → K) (ψ : Tens K) (idx : Idx) :
    trList (dmAxes k) (outerKet k cj ψ) idx = dmSpec k cj ψ idx := by
  simp only [trList, tr, outerKet, dmSpec]
  congr 2
  · funext a
    split
    · rename_i h
      obtain ⟨e1, e2, e3⟩ := dmAxes_idxOf k a h
      rw [if_pos (by omega), e1]
    · rfl
  · congr 1
    funext a
    split
    · rename_i h
      obtain ⟨e1, e2, e3⟩ := dmAxes_idxOf k a h
      rw [if_pos (by omega), e2]
    · rfl

/-- the "evens + odds" list (`[0, 2, 4, …, 1, 3, 5, …]`, right for `all_fock_probs`) is the *inverse* permutation: it agrees with
`dmAxes` for one and two modes and differs from three modes on -/
theorem evensOdds_ne_dmAxes (k : Nat) (hk : 3 ≤ k) :
    ((List.range k).map (2 * ·) ++ (List.range k).map (2 * · + 1)) ≠ dmAxes k := by
  obtain ⟨j, rfl⟩ : ∃ j, k = j + 3 := ⟨k - 3, by omega⟩
  intro h
  have h' := congrArg (fun l => l.getD 1 0) h
  simp only [dmAxes, List.range_eq_range', List.range'_succ, List.map_cons, List.flatMap_cons, List.cons_append,
    List.getD_cons_succ, List.getD_cons_zero] at h'
  omega

/-- `reduced_dm(modes)` of a Gaussian state, ascending in-range list: the full list of a pure state gives the documented layout of
`|ψ⟩⟨ψ|`, everything else thewalrus' density matrix of the reduced `(μ, V)` -/
theorem gaussReducedDm_ok {K : Type} [Mul K] (cj : K → K) (n : Nat) (modes : List Nat) (isPure : Bool) (ψ T : Tens K)
    (hs : modes.Pairwise (· < ·)) (hr : ∀ m ∈ modes, m < n) :
    ∃ R, gaussReducedDm cj n modes isPure ψ T = .ok (modes.length, R) ∧
      ∀ idx, R idx = (if isPure ∧ modes.length = n then dmSpec modes.length cj ψ idx else T idx) := by
  have h1 : isSortedLe modes = true := (GaussAux.isSortedLe_iff modes).2 (GaussAux.pairwise_le_of_lt hs)
  have h2 : ¬ modes.length > n := Nat.not_lt.2 (GaussAux.length_le_of_lt hs hr)
  have h3 : (gaussInd n modes).any (fun i => decide (2 * n ≤ i)) = false := by
    rw [List.any_eq_false]
    intro x hx
    simp only [gaussInd, List.mem_append, List.mem_map] at hx
    simp only [decide_eq_true_eq]
    rcases hx with hx | ⟨m, hm, rfl⟩
    · have := hr x hx; omega
    · have := hr m hm; omega
  by_cases hp : isPure = true ∧ modes.length = n
  · refine ⟨trList (dmAxes modes.length) (outerKet modes.length cj ψ), ?_, ?_⟩
    · obtain ⟨hp1, hp2⟩ := hp
      simp [gaussReducedDm, h1, h3, hp1, hp2]
    · intro idx
      rw [if_pos hp, dm_layout]
  · refine ⟨T, ?_, ?_⟩
    · have h4 : (isPure && modes.length == n) = false := by
        rw [Bool.and_eq_false_iff]
        by_cases hq : isPure = true
        · right
          simpa using fun e => hp ⟨hq, e⟩
        · left; simpa using hq
      simp only [gaussReducedDm, h1, h2, h3, h4]
      simp
    · intro idx
      rw [if_neg hp]

end SFV.States
