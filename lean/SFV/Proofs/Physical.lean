import Mathlib.LinearAlgebra.Matrix.PosDef
import Mathlib.Data.Complex.Basic
import Mathlib.Analysis.Complex.Basic

/-! The uncertainty relation `V + iΩ ⪰ 0` is preserved by symplectic congruence and by Gaussian
channels `(X, Y)` whose noise dominates `i(Ω − XΩXᵀ)` (C07). -/
namespace SFV.Physical
open Matrix
open scoped ComplexOrder

variable {n : Type} [Fintype n] [DecidableEq n]

/-- complexification of a real matrix -/
noncomputable def cplx (A : Matrix n n ℝ) : Matrix n n ℂ := A.map Complex.ofRealHom

theorem cplx_mul (A B : Matrix n n ℝ) : cplx (A * B) = cplx A * cplx B := by
  unfold cplx; exact Matrix.map_mul

theorem cplx_add (A B : Matrix n n ℝ) : cplx (A + B) = cplx A + cplx B := by
  ext i j; simp [cplx]

theorem cplx_sub (A B : Matrix n n ℝ) : cplx (A - B) = cplx A - cplx B := by
  ext i j; simp [cplx]

theorem cplx_conjTranspose (A : Matrix n n ℝ) : (cplx A)ᴴ = cplx Aᵀ := by
  ext i j; simp [cplx, Matrix.conjTranspose_apply]

/-- the uncertainty relation for covariance `V` and symplectic form `Ω` -/
def Uncertainty (V Ω : Matrix n n ℝ) : Prop := (cplx V + Complex.I • cplx Ω).PosSemidef

/-- **symplectic gates preserve the uncertainty relation** -/
theorem uncertainty_congr (V Ω S : Matrix n n ℝ) (hS : S * Ω * Sᵀ = Ω) (h : Uncertainty V Ω) :
    Uncertainty (S * V * Sᵀ) Ω := by
  unfold Uncertainty at *
  have e : cplx (S * V * Sᵀ) + Complex.I • cplx Ω = cplx S * (cplx V + Complex.I • cplx Ω) * (cplx S)ᴴ := by
    rw [cplx_conjTranspose, Matrix.mul_add, Matrix.add_mul, Matrix.mul_smul, Matrix.smul_mul,
      ← cplx_mul, ← cplx_mul, ← cplx_mul, ← cplx_mul, hS]
  rw [e]
  exact h.mul_mul_conjTranspose_same _

/-- **Gaussian channels**: `V ↦ X V Xᵀ + Y` preserves the uncertainty relation whenever
`Y + i(Ω − XΩXᵀ) ⪰ 0` (the complete-positivity condition) -/
theorem uncertainty_channel (V Ω X Y : Matrix n n ℝ)
    (hY : (cplx Y + Complex.I • cplx (Ω - X * Ω * Xᵀ)).PosSemidef) (h : Uncertainty V Ω) :
    Uncertainty (X * V * Xᵀ + Y) Ω := by
  unfold Uncertainty at *
  have e : cplx (X * V * Xᵀ + Y) + Complex.I • cplx Ω =
      cplx X * (cplx V + Complex.I • cplx Ω) * (cplx X)ᴴ + (cplx Y + Complex.I • cplx (Ω - X * Ω * Xᵀ)) := by
    rw [cplx_conjTranspose, Matrix.mul_add, Matrix.add_mul, Matrix.mul_smul, Matrix.smul_mul,
      ← cplx_mul, ← cplx_mul, ← cplx_mul, ← cplx_mul]
    rw [cplx_add, cplx_sub, smul_sub]
    abel
  rw [e]
  exact (h.mul_mul_conjTranspose_same _).add hY

/-- symmetric covariances stay symmetric -/
theorem symm_congr (V X Y : Matrix n n ℝ) (hV : Vᵀ = V) (hY : Yᵀ = Y) : (X * V * Xᵀ + Y)ᵀ = X * V * Xᵀ + Y := by
  rw [Matrix.transpose_add, Matrix.transpose_mul, Matrix.transpose_mul, Matrix.transpose_transpose, hV, hY,
    Matrix.mul_assoc]

end SFV.Physical
