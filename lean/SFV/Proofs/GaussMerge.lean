import SFV.Proofs.GaussCompile

/-! The graph surgery of `merge_a_gaussian_op` is sound: every topological sort of the graph after the surgery
is a legal reordering of "circuit with the merged commands made adjacent and replaced by the emitted commands". -/
namespace SFV.GC

/-! ### small list facts -/

theorem before_total {l : List Cmd} {a b : Cmd} (ha : a ∈ l) (hb : b ∈ l) (hne : a ≠ b) :
    Before l a b ∨ Before l b a := by
  have h : l.idxOf a ≠ l.idxOf b := fun e => hne (idxOf_inj' ha e)
  rcases Nat.lt_or_gt_of_ne h with h | h
  · exact Or.inl (idxOf_lt_before hb h)
  · exact Or.inr (idxOf_lt_before ha h)
where
  idxOf_inj' {l : List Cmd} {a b : Cmd} (ha : a ∈ l) (h : l.idxOf a = l.idxOf b) : a = b :=
    (List.idxOf_inj (l := l) (x := a) (y := b) ha).1 h

theorem before_idx : ∀ {l : List Cmd}, l.Nodup → ∀ {a b : Cmd}, Before l a b → l.idxOf a < l.idxOf b := by
  intro l
  induction l with
  | nil => intro _ a b h; simp at h
  | cons x xs ih =>
    intro hn a b h
    have hx := (List.nodup_cons.1 hn)
    cases h with
    | cons _ h' =>
      have hm := before_mem h'
      have ha : x ≠ a := fun e => hx.1 (e ▸ hm.1)
      have hb : x ≠ b := fun e => hx.1 (e ▸ hm.2)
      rw [List.idxOf_cons_ne _ ha, List.idxOf_cons_ne _ hb]
      have := ih hx.2 h'
      omega
    | cons_cons _ h' =>
      have hbm : b ∈ xs := h'.subset (by simp)
      have hb : x ≠ b := fun e => hx.1 (e ▸ hbm)
      rw [List.idxOf_cons_ne _ hb]
      simp

theorem before_filter {l : List Cmd} {a b : Cmd} (p : Cmd → Bool) (h : Before l a b) (ha : p a = true)
    (hb : p b = true) : Before (l.filter p) a b := by
  have := h.filter p
  simpa [ha, hb] using this

theorem before_of_filter {l : List Cmd} {a b : Cmd} (p : Cmd → Bool) (h : Before (l.filter p) a b) :
    Before l a b := h.trans List.filter_sublist

theorem before_append_left {A B : List Cmd} {a b : Cmd} (h : Before A a b) : Before (A ++ B) a b :=
  h.trans (List.sublist_append_left A B)

theorem before_append_right {A B : List Cmd} {a b : Cmd} (h : Before B a b) : Before (A ++ B) a b :=
  h.trans (List.sublist_append_right A B)

theorem before_append_cross {A B : List Cmd} {a b : Cmd} (ha : a ∈ A) (hb : b ∈ B) : Before (A ++ B) a b :=
  List.Sublist.append (List.singleton_sublist.2 ha) (List.singleton_sublist.2 hb)

theorem before_append_inv {A B : List Cmd} {a b : Cmd} (h : Before (A ++ B) a b) :
    Before A a b ∨ (a ∈ A ∧ b ∈ B) ∨ Before B a b := by
  rcases List.sublist_append_iff.1 h with ⟨l1, l2, e, h1, h2⟩
  match l1, e with
  | [], e =>
    simp at e; subst e
    exact Or.inr (Or.inr h2)
  | [x], e =>
    simp at e
    obtain ⟨rfl, rfl⟩ := e
    exact Or.inr (Or.inl ⟨h1.subset (by simp), h2.subset (by simp)⟩)
  | x :: y :: r, e =>
    simp at e
    obtain ⟨rfl, rfl, rfl, rfl⟩ := e
    exact Or.inl h1

/-! ### the setting -/

/-- what is known about a merge step: `l` the circuit, `ms` the merged commands, `g :: ds` the emitted ones
(fresh objects; every `d ∈ ds` a displacement gate on one mode that some merged command acts on, the `ds` on
different modes), `out` a list of exactly the staying and the emitted commands in which all edges of the graph
after the surgery point forward; no measured-parameter dependencies. -/
structure SurgeryHyp (l ms ds : List Cmd) (g : Cmd) (out : List Cmd) : Prop where
  nodup : l.Nodup
  fresh : ∀ e ∈ g :: ds, e ∉ l
  outNodup : out.Nodup
  mem_out : ∀ c, c ∈ out ↔ (c ∈ l ∧ c ∉ ms) ∨ c ∈ g :: ds
  fwd : forward (surgeryEdges l ms g ds) out = true
  esNodup : (g :: ds).Nodup
  dsWire : ∀ d ∈ ds, ∃ q, d.regs = [q] ∧ d.deps = [] ∧ ∃ m ∈ l, m ∈ ms ∧ q ∈ m.wires
  dsIndep : ds.Pairwise fun d d' => ¬ dep d d'
  noDeps : ∀ c ∈ l, c.deps = []

/-- staying commands emitted before / after the first emitted command, in output order -/
def preOf (g : Cmd) (ds out : List Cmd) : List Cmd :=
  out.filter fun c => !(g :: ds).contains c && decide (out.idxOf c < out.idxOf g)
def postOf (g : Cmd) (ds out : List Cmd) : List Cmd :=
  out.filter fun c => !(g :: ds).contains c && decide (out.idxOf g < out.idxOf c)
/-- the merged commands in circuit order -/
def membersOf (l ms : List Cmd) : List Cmd := l.filter fun c => ms.contains c

section
variable {l ms ds : List Cmd} {g : Cmd} {out : List Cmd}

theorem mem_membersOf {c : Cmd} : c ∈ membersOf l ms ↔ c ∈ l ∧ c ∈ ms := by
  simp [membersOf]

theorem SurgeryHyp.mem_pre (h : SurgeryHyp l ms ds g out) {c : Cmd} :
    c ∈ preOf g ds out ↔ (c ∈ l ∧ c ∉ ms) ∧ out.idxOf c < out.idxOf g := by
  simp only [preOf, List.mem_filter, Bool.and_eq_true, Bool.not_eq_true', decide_eq_true_eq]
  constructor
  · rintro ⟨hc, hs, hlt⟩
    have hs' : c ∉ g :: ds := by simpa using hs
    rcases (h.mem_out c).1 hc with h1 | h1
    · exact ⟨h1, hlt⟩
    · exact absurd h1 hs'
  · rintro ⟨h1, hlt⟩
    have hs' : c ∉ g :: ds := fun he => h.fresh c he h1.1
    exact ⟨(h.mem_out c).2 (Or.inl h1), by simpa using hs', hlt⟩

theorem SurgeryHyp.mem_post (h : SurgeryHyp l ms ds g out) {c : Cmd} :
    c ∈ postOf g ds out ↔ (c ∈ l ∧ c ∉ ms) ∧ out.idxOf g < out.idxOf c := by
  simp only [postOf, List.mem_filter, Bool.and_eq_true, Bool.not_eq_true', decide_eq_true_eq]
  constructor
  · rintro ⟨hc, hs, hlt⟩
    have hs' : c ∉ g :: ds := by simpa using hs
    rcases (h.mem_out c).1 hc with h1 | h1
    · exact ⟨h1, hlt⟩
    · exact absurd h1 hs'
  · rintro ⟨h1, hlt⟩
    have hs' : c ∉ g :: ds := fun he => h.fresh c he h1.1
    exact ⟨(h.mem_out c).2 (Or.inl h1), by simpa using hs', hlt⟩

theorem SurgeryHyp.g_mem (h : SurgeryHyp l ms ds g out) : g ∈ out := (h.mem_out g).2 (Or.inr (by simp))

theorem SurgeryHyp.idx_ne (h : SurgeryHyp l ms ds g out) {c : Cmd} (hc : c ∈ l) :
    out.idxOf c ≠ out.idxOf g := by
  intro e
  by_cases hco : c ∈ out
  · have : c = g := (List.idxOf_inj (l := out) hco).1 e
    exact h.fresh g (by simp) (this ▸ hc)
  · have h1 : out.idxOf c = out.length := List.idxOf_eq_length_iff.2 hco
    have h2 := List.idxOf_lt_length_of_mem h.g_mem
    omega

theorem SurgeryHyp.edge_g_d (h : SurgeryHyp l ms ds g out) {d : Cmd} (hd : d ∈ ds) :
    out.idxOf g < out.idxOf d := by
  have hf := h.fwd
  simp only [forward, List.all_eq_true, decide_eq_true_eq] at hf
  refine hf (g, d) ?_
  simp only [surgeryEdges, List.mem_append, List.mem_map]
  exact Or.inr ⟨d, hd, rfl⟩

/-- **first half**: making the merged commands adjacent (in the place of the first emitted command) is a legal
reordering of the circuit -/
theorem SurgeryHyp.legal_src (h : SurgeryHyp l ms ds g out) :
    Legal l (preOf g ds out ++ membersOf l ms ++ postOf g ds out) := by
  refine respects_legal h.nodup ⟨?_, ?_⟩
  · -- same commands
    refine (List.perm_ext_iff_of_nodup ?_ h.nodup).2 ?_
    · rw [List.nodup_append, List.nodup_append]
      refine ⟨⟨h.outNodup.filter _, h.nodup.filter _, ?_⟩, h.outNodup.filter _, ?_⟩
      · intro a ha b hb e
        subst e
        exact (h.mem_pre.1 ha).1.2 (mem_membersOf.1 hb).2
      · intro a ha b hb e
        subst e
        rcases List.mem_append.1 ha with ha | ha
        · have := (h.mem_pre.1 ha).2
          have := (h.mem_post.1 hb).2
          omega
        · exact (h.mem_post.1 hb).1.2 (mem_membersOf.1 ha).2
    · intro c
      simp only [List.mem_append, h.mem_pre, h.mem_post, mem_membersOf]
      constructor
      · rintro ((⟨h1, _⟩ | h1) | ⟨h1, _⟩)
        · exact h1.1
        · exact h1.1
        · exact h1.1
      · intro hc
        by_cases hm : c ∈ ms
        · exact Or.inl (Or.inr ⟨hc, hm⟩)
        · rcases Nat.lt_or_gt_of_ne (h.idx_ne hc) with h1 | h1
          · exact Or.inl (Or.inl ⟨⟨hc, hm⟩, h1⟩)
          · exact Or.inr ⟨⟨hc, hm⟩, h1⟩
  · -- dependent pairs keep their order
    intro a b hd hb
    have hmem := before_mem hb
    have hord := surgery_order l ms ds g out h.fwd hb hd
    by_cases ha : a ∈ ms <;> by_cases hbm : b ∈ ms
    · refine before_append_left (before_append_right ?_)
      exact before_filter _ hb (by simpa using ha) (by simpa using hbm)
    · have hk : out.idxOf g < out.idxOf b := by
        rcases hord with h1 | ⟨_, h2⟩
        · simpa [cpos, ha, hbm] using h1
        · exact absurd h2 hbm
      exact before_append_cross (List.mem_append_right _ (mem_membersOf.2 ⟨hmem.1, ha⟩))
        (h.mem_post.2 ⟨⟨hmem.2, hbm⟩, hk⟩)
    · have hk : out.idxOf a < out.idxOf g := by
        rcases hord with h1 | ⟨h2, _⟩
        · simpa [cpos, ha, hbm] using h1
        · exact absurd h2 ha
      exact before_append_left (before_append_cross (h.mem_pre.2 ⟨⟨hmem.1, ha⟩, hk⟩)
        (mem_membersOf.2 ⟨hmem.2, hbm⟩))
    · have hlt : out.idxOf a < out.idxOf b := by
        rcases hord with h1 | ⟨h2, _⟩
        · simpa [cpos, ha, hbm] using h1
        · exact absurd h2 ha
      have hbo : b ∈ out := (h.mem_out b).2 (Or.inl ⟨hmem.2, hbm⟩)
      have hbout : Before out a b := idxOf_lt_before hbo hlt
      rcases Nat.lt_or_gt_of_ne (h.idx_ne hmem.1) with ka | ka <;>
        rcases Nat.lt_or_gt_of_ne (h.idx_ne hmem.2) with kb | kb
      · refine before_append_left (before_append_left ?_)
        have ea : a ∉ g :: ds := fun he => h.fresh a he hmem.1
        have eb : b ∉ g :: ds := fun he => h.fresh b he hmem.2
        exact before_filter _ hbout (by simpa [ka] using ea) (by simpa [kb] using eb)
      · exact before_append_cross (List.mem_append_left _ (h.mem_pre.2 ⟨⟨hmem.1, ha⟩, ka⟩))
          (h.mem_post.2 ⟨⟨hmem.2, hbm⟩, kb⟩)
      · omega
      · refine before_append_right ?_
        have ea : a ∉ g :: ds := fun he => h.fresh a he hmem.1
        have eb : b ∉ g :: ds := fun he => h.fresh b he hmem.2
        exact before_filter _ hbout (by simpa [ka] using ea) (by simpa [kb] using eb)

/-- **second half**: the output is a legal reordering of the circuit in which the adjacent merged commands are
replaced by the emitted ones -/
theorem SurgeryHyp.legal_out (h : SurgeryHyp l ms ds g out) :
    Legal (preOf g ds out ++ (g :: ds) ++ postOf g ds out) out := by
  have hmid : (preOf g ds out ++ (g :: ds) ++ postOf g ds out).Nodup := by
    rw [List.nodup_append, List.nodup_append]
    refine ⟨⟨h.outNodup.filter _, h.esNodup, ?_⟩, h.outNodup.filter _, ?_⟩
    · intro a ha b hb e
      subst e
      exact h.fresh a hb (h.mem_pre.1 ha).1.1
    · intro a ha b hb e
      subst e
      rcases List.mem_append.1 ha with ha | ha
      · have := (h.mem_pre.1 ha).2
        have := (h.mem_post.1 hb).2
        omega
      · exact h.fresh a ha (h.mem_post.1 hb).1.1
  refine respects_legal hmid ⟨?_, ?_⟩
  · refine (List.perm_ext_iff_of_nodup h.outNodup hmid).2 ?_
    intro c
    simp only [List.mem_append, h.mem_pre, h.mem_post, h.mem_out c]
    constructor
    · rintro (h1 | h1)
      · rcases Nat.lt_or_gt_of_ne (h.idx_ne h1.1) with k1 | k1
        · exact Or.inl (Or.inl ⟨h1, k1⟩)
        · exact Or.inr ⟨h1, k1⟩
      · exact Or.inl (Or.inr h1)
    · rintro ((⟨h1, _⟩ | h1) | ⟨h1, _⟩)
      · exact Or.inl h1
      · exact Or.inr h1
      · exact Or.inl h1
  · intro x y hd hb
    -- it suffices to compare positions in `out`
    have hout_of_lt : ∀ {x y : Cmd}, y ∈ out → out.idxOf x < out.idxOf y → Before out x y :=
      fun hy hlt => idxOf_lt_before hy hlt
    rcases before_append_inv hb with h1 | ⟨hx, hy⟩ | h1
    · rcases before_append_inv h1 with h2 | ⟨hx, hy⟩ | h2
      · exact before_of_filter _ h2
      · have kx := (h.mem_pre.1 hx).2
        have hyo : y ∈ out := (h.mem_out y).2 (Or.inr hy)
        rcases List.mem_cons.1 hy with rfl | hy
        · exact hout_of_lt hyo kx
        · have := h.edge_g_d hy
          exact hout_of_lt hyo (by omega)
      · cases h2 with
        | cons _ h3 =>
          exact absurd hd ((List.pairwise_iff_forall_sublist.1 h.dsIndep) h3)
        | cons_cons _ h3 =>
          have hy : y ∈ ds := h3.subset (by simp)
          exact hout_of_lt ((h.mem_out y).2 (Or.inr (by simp [hy]))) (h.edge_g_d hy)
    · have hy' := h.mem_post.1 hy
      have hyo : y ∈ out := (h.mem_out y).2 (Or.inl hy'.1)
      rcases List.mem_append.1 hx with hx | hx
      · have := (h.mem_pre.1 hx).2
        exact hout_of_lt hyo (by omega)
      · rcases List.mem_cons.1 hx with rfl | hx
        · exact hout_of_lt hyo hy'.2
        · -- an emitted displacement gate and a staying command on its mode that comes after the block
          obtain ⟨q, hregs, hdeps, m, hml, hmm, hqm⟩ := h.dsWire x hx
          have hxw : x.wires = [q] := by simp [Cmd.wires, hregs, hdeps]
          obtain ⟨w, hwx, hwy⟩ := hd
          have hwq : w = q := by simpa [hxw] using hwx
          subst hwq
          have hne : m ≠ y := fun e => hy'.1.2 (e ▸ hmm)
          have hwire : ∀ c ∈ l, w ∈ c.wires → w ∈ c.regs := by
            intro c hc hw
            simpa [Cmd.wires, h.noDeps c hc] using hw
          rcases before_total hml hy'.1.1 hne with hmy | hym
          · exact hout_of_lt hyo (surgery_order_disp l ms ds g x out w h.fwd hx (by simp [hregs]) hwire hmy
              hqm hwy hmm hy'.1.2)
          · exfalso
            have hord := surgery_order l ms ds g out h.fwd hym ⟨w, hwy, hqm⟩
            rcases hord with h1 | ⟨h2, _⟩
            · have : out.idxOf y < out.idxOf g := by simpa [cpos, hy'.1.2, hmm] using h1
              have := hy'.2
              omega
            · exact hy'.1.2 h2
    · exact before_of_filter _ h1

/-- **the surgery is sound**: in every monoid interpretation in which commands without a common wire commute,
if the emitted commands mean the ordered product of the merged ones, every topological sort of the graph after
the surgery means the same as the circuit. -/
theorem SurgeryHyp.sem_eq {M : Type} [Monoid M] (f : Cmd → M)
    (hcomm : ∀ a b, ¬ dep a b → f a * f b = f b * f a) (h : SurgeryHyp l ms ds g out)
    (hblk : sem f (g :: ds) = sem f (membersOf l ms)) : sem f out = sem f l := by
  rw [legal_sem f hcomm h.legal_out, ← legal_sem f hcomm h.legal_src]
  simp only [sem_append, hblk]

end

end SFV.GC
