import SFV.Model.Measure
import Mathlib.Data.List.Sort
import Mathlib.Data.List.Nodup
import Mathlib.Data.List.Range
import Mathlib.Algebra.BigOperators.Group.List.Basic
import Mathlib.Tactic.Ring
import Mathlib.Tactic.FieldSimp

/-! Lemmas for C06, discrete part: the outcome permutation of `measure_fock` (`argsort`, scatter loop),
the sample bookkeeping of the engine (`samples_dict` updates, `_combine_and_sort_samples`) and the weight
arithmetic of the bosonic threshold measurement. -/
namespace SFV.Meas
open List

/-! ### sorted lists and ranks -/

theorem filter_lt_sorted (s : List Nat) (hs : s.Pairwise (· < ·)) (i : Nat) (hi : i < s.length) :
    (s.filter (· < s[i])).length = i := by
  induction s generalizing i with
  | nil => simp at hi
  | cons a t ih =>
    rw [List.pairwise_cons] at hs
    obtain ⟨ha, ht⟩ := hs
    cases i with
    | zero =>
      have : (a :: t).filter (· < a) = [] := by
        rw [List.filter_eq_nil_iff]
        intro x hx
        rcases List.mem_cons.mp hx with rfl | hx
        · simp
        · have := ha x hx; simp; omega
      simpa using congrArg List.length this
    | succ i =>
      have hi' : i < t.length := by simpa using hi
      have hlt : a < t[i] := ha _ (List.getElem_mem hi')
      simp only [List.getElem_cons_succ]
      rw [List.filter_cons_of_pos (by simpa using hlt)]
      simp [ih ht i hi']

/-- the ascending list of the measured modes -/
def sortedOf (l : List Nat) : List Nat := l.mergeSort (fun a b => decide (a ≤ b))

theorem sortedOf_perm (l : List Nat) : (sortedOf l).Perm l := List.mergeSort_perm l _

theorem sortedOf_strict (l : List Nat) (hnd : l.Nodup) : (sortedOf l).Pairwise (· < ·) := by
  have h1 : (sortedOf l).Pairwise (fun a b => decide (a ≤ b) = true) :=
    List.pairwise_mergeSort (by intro a b c; simp; omega) (by intro a b; simp; omega) l
  have h2 : (sortedOf l).Nodup := (sortedOf_perm l).nodup_iff.mpr hnd
  exact (h1.and h2).imp (by intro a b h; have := h.1; simp at this; have := h.2; omega)

theorem rank_sortedOf (l : List Nat) (hnd : l.Nodup) (i : Nat) (hi : i < (sortedOf l).length) :
    rank l (sortedOf l)[i] = i := by
  unfold rank
  rw [← ((sortedOf_perm l).filter _).length_eq]
  exact filter_lt_sorted _ (sortedOf_strict l hnd) i hi

/-- the `i`-th entry of `argsort l` is the position in `l` of the `i`-th smallest value -/
theorem argsort_getD (l : List Nat) (i : Nat) (hi : i < l.length) :
    (argsort l).getD i 0 = l.idxOf ((sortedOf l)[i]'(by rw [(sortedOf_perm l).length_eq]; exact hi)) := by
  have hi' : i < (sortedOf l).length := by rw [(sortedOf_perm l).length_eq]; exact hi
  unfold argsort
  rw [List.getD_eq_getElem?_getD]
  simp [sortedOf, List.getElem?_map, hi'] at *
  rw [List.getElem?_eq_getElem (by simpa [sortedOf] using hi')]
  simp

/-- `argsort` is the inverse of the rank: the entry at place `rank l l[j]` is `j` -/
theorem argsort_rank (l : List Nat) (hnd : l.Nodup) (j : Nat) (hj : j < l.length) :
    rank l l[j] < l.length ∧ (argsort l).getD (rank l l[j]) 0 = j := by
  have hmem : l[j] ∈ sortedOf l := (sortedOf_perm l).mem_iff.mpr (List.getElem_mem hj)
  obtain ⟨i, hi, hval⟩ := List.getElem_of_mem hmem
  have hr : rank l l[j] = i := by rw [← hval]; exact rank_sortedOf l hnd i hi
  have hil : i < l.length := by rw [← (sortedOf_perm l).length_eq]; exact hi
  refine ⟨by omega, ?_⟩
  rw [hr, argsort_getD l i hil, hval]
  exact List.Nodup.idxOf_getElem hnd j hj

/-! ### the scatter loop -/

/-- the loop body folded over a list of positions -/
def scatterOver (perm p : List Nat) (is : List Nat) (out : List Nat) : List Nat :=
  is.foldl (fun out i => out.set (perm.getD i 0) (p.getD i 0)) out

theorem scatterOver_length (perm p is out) : (scatterOver perm p is out).length = out.length := by
  induction is generalizing out with
  | nil => rfl
  | cons x xs ih => simp [scatterOver, List.foldl_cons] at *; rw [ih]; simp

theorem scatterOver_untouched (perm p : List Nat) (is out : List Nat) (t : Nat)
    (h : ∀ x ∈ is, perm.getD x 0 ≠ t) : (scatterOver perm p is out)[t]? = out[t]? := by
  induction is generalizing out with
  | nil => rfl
  | cons x xs ih =>
    simp only [scatterOver, List.foldl_cons]
    have := ih (out.set (perm.getD x 0) (p.getD x 0)) (fun y hy => h y (List.mem_cons_of_mem _ hy))
    simp only [scatterOver] at this
    rw [this, List.getElem?_set_ne (h x List.mem_cons_self)]

theorem scatterOver_written (perm p : List Nat) (is out : List Nat) (hnd : is.Nodup)
    (hinj : ∀ x ∈ is, ∀ y ∈ is, perm.getD x 0 = perm.getD y 0 → x = y)
    (hlt : ∀ x ∈ is, perm.getD x 0 < out.length) (i : Nat) (hi : i ∈ is) :
    (scatterOver perm p is out)[perm.getD i 0]? = some (p.getD i 0) := by
  induction is generalizing out with
  | nil => cases hi
  | cons x xs ih =>
    rw [List.nodup_cons] at hnd
    simp only [scatterOver, List.foldl_cons]
    by_cases hx : i ∈ xs
    · have := ih (out.set (perm.getD x 0) (p.getD x 0)) hnd.2
        (fun a ha b hb => hinj a (List.mem_cons_of_mem _ ha) b (List.mem_cons_of_mem _ hb))
        (fun a ha => by simpa using hlt a (List.mem_cons_of_mem _ ha)) hx
      simpa [scatterOver] using this
    · have hix : i = x := by rcases List.mem_cons.mp hi with h | h; exact h; exact absurd h hx
      subst hix
      have hun := scatterOver_untouched perm p xs (out.set (perm.getD i 0) (p.getD i 0)) (perm.getD i 0)
        (fun y hy hEq => hnd.1 (by
          have := hinj y (List.mem_cons_of_mem _ hy) i List.mem_cons_self hEq
          exact this ▸ hy))
      simp only [scatterOver] at hun
      rw [hun, List.getElem?_set_self (hlt i List.mem_cons_self)]

/-- **outcome order**: the list reported for the modes `measure` (any order, no repetition) holds at place
`j` the entry of the ascending-order outcome that belongs to `measure[j]` -/
theorem scatter_argsort (measure p : List Nat) (hnd : measure.Nodup) (hlen : p.length = measure.length)
    (j : Nat) (hj : j < measure.length) :
    (scatter (argsort measure) p)[j]? = some (p.getD (rank measure measure[j]) 0) := by
  obtain ⟨hr, harg⟩ := argsort_rank measure hnd j hj
  have key := scatterOver_written (argsort measure) p (List.range p.length) (List.replicate p.length 0)
    List.nodup_range
    (by
      intro x hx y hy hEq
      have hx' : x < measure.length := by rw [← hlen]; exact List.mem_range.mp hx
      have hy' : y < measure.length := by rw [← hlen]; exact List.mem_range.mp hy
      rw [argsort_getD measure x hx', argsort_getD measure y hy'] at hEq
      have hsx : x < (sortedOf measure).length := by rw [(sortedOf_perm measure).length_eq]; exact hx'
      have hsy : y < (sortedOf measure).length := by rw [(sortedOf_perm measure).length_eq]; exact hy'
      have m1 : (sortedOf measure)[x] ∈ measure := (sortedOf_perm measure).mem_iff.mp (List.getElem_mem hsx)
      have m2 : (sortedOf measure)[y] ∈ measure := (sortedOf_perm measure).mem_iff.mp (List.getElem_mem hsy)
      have e : (sortedOf measure)[x] = (sortedOf measure)[y] := by
        have a1 := List.getElem_idxOf (List.idxOf_lt_length_iff.mpr m1)
        have a2 := List.getElem_idxOf (List.idxOf_lt_length_iff.mpr m2)
        rw [← a1, ← a2]; simp [hEq]
      exact ((sortedOf_perm measure).nodup_iff.mpr hnd).getElem_inj_iff.mp e)
    (by
      intro x hx
      have hx' : x < measure.length := by rw [← hlen]; exact List.mem_range.mp hx
      have hsx : x < (sortedOf measure).length := by rw [(sortedOf_perm measure).length_eq]; exact hx'
      rw [argsort_getD measure x hx', List.length_replicate, hlen]
      exact List.idxOf_lt_length_iff.mpr ((sortedOf_perm measure).mem_iff.mp (List.getElem_mem hsx)))
    (rank measure measure[j]) (List.mem_range.mpr (by omega))
  rw [harg] at key
  exact key

/-- the rank of a measured mode is its axis in the reduced density matrix `partial_trace(state, n, unmeasured)` -/
theorem rank_eq_keptPos (n : Nat) (measure : List Nat) (hnd : measure.Nodup)
    (m : Nat) (hm : m < n) : rank measure m = Fock.keptPos (unmeasured n measure) m := by
  unfold rank Fock.keptPos
  apply List.Perm.length_eq
  rw [List.perm_ext_iff_of_nodup (hnd.filter _) (List.nodup_range.filter _)]
  intro a
  simp only [List.mem_filter, List.mem_range, unmeasured, decide_eq_true_eq, Bool.not_eq_true',
    List.contains_eq_mem, decide_eq_false_iff_not, not_and, Bool.not_eq_eq_eq_not, Bool.not_true]
  constructor
  · rintro ⟨h1, h2⟩
    exact ⟨h2, fun _ => by simpa using h1⟩
  · rintro ⟨h1, h2⟩
    refine ⟨?_, h1⟩
    by_contra hc
    have := h2 (by omega)
    simp [hc] at this

/-! ### flat index of the sampled distribution ↔ multi-index -/

theorem flatIndex_append (D : Nat) (q : List Nat) (v : Nat) : flatIndex D (q ++ [v]) = flatIndex D q * D + v := by
  simp [flatIndex, List.foldl_append]

/-- `unIndex` decodes the C-order flat index of every multi-index below the cutoff -/
theorem unIndex_flatIndex (D : Nat) (p : List Nat) (hp : ∀ v ∈ p, v < D) :
    unIndex (flatIndex D p) p.length D = p := by
  induction p using List.reverseRecOn with
  | nil => rfl
  | append_singleton q v ih =>
    have hv : v < D := hp v (by simp)
    have hD : 0 < D := by omega
    have ihq := ih (fun x hx => hp x (by simp [hx]))
    rw [flatIndex_append]
    simp only [unIndex, List.length_append, List.length_singleton, List.range_succ, List.map_append, List.map_cons,
      List.map_nil]
    congr 1
    · refine Eq.trans ?_ ihq
      simp only [unIndex]
      apply List.map_congr_left
      intro m hm
      have hm' : m < q.length := List.mem_range.mp hm
      have e1 : q.length + 1 - 1 - m = (q.length - 1 - m) + 1 := by omega
      have e3 : (flatIndex D q * D + v) / D = flatIndex D q := by
        rw [Nat.mul_comm, Nat.mul_add_div hD, Nat.div_eq_of_lt hv]; simp
      rw [e1, pow_succ, Nat.mul_comm (D ^ _) D, ← Nat.div_div_eq_div_mul, e3]
    · have e2 : q.length + 1 - 1 - q.length = 0 := by omega
      rw [e2]
      simp [Nat.mul_add_mod_of_lt hv]

/-! ### engine: `samples_dict` updates -/

section engine
variable {α : Type}

theorem sdAppend_cons_ne (x : Nat × List (List α)) (t : SDict α) (k : Nat) (col : List α) (h : x.1 ≠ k) :
    sdAppend (x :: t) k col = x :: sdAppend t k col := by
  have hb : (x.1 == k) = false := by simpa using h
  unfold sdAppend
  simp only [List.any_cons, hb, Bool.false_or]
  by_cases ha : t.any (fun e => e.1 == k) = true
  · simp [ha, h]
  · simp [ha]

theorem lookup_sdAppend_self (d : SDict α) (k : Nat) (col : List α) :
    (sdAppend d k col).lookup k = some ((d.lookup k).getD [] ++ [col]) := by
  induction d with
  | nil => simp [sdAppend, List.lookup]
  | cons x t ih =>
    by_cases h : x.1 = k
    · obtain ⟨k0, v0⟩ := x
      simp only at h; subst h
      simp [sdAppend, List.lookup]
    · rw [sdAppend_cons_ne x t k col h]
      obtain ⟨k0, v0⟩ := x
      have hb : (k == k0) = false := by simpa using fun e : k = k0 => h e.symm
      simp only [List.lookup, hb]
      exact ih

theorem lookup_map_other (t : SDict α) (k k' : Nat) (col : List α) (hne : k' ≠ k) :
    (t.map fun e => if e.1 == k then (e.1, e.2 ++ [col]) else e).lookup k' = t.lookup k' := by
  induction t with
  | nil => rfl
  | cons y t ih =>
    obtain ⟨k1, v1⟩ := y
    by_cases e : k1 = k
    · subst e
      have hb : (k' == k1) = false := by simpa using hne
      simp only [List.map_cons, beq_self_eq_true, if_true, List.lookup, hb]
      exact ih
    · have hb1 : (k1 == k) = false := by simpa using e
      simp only [List.map_cons, hb1, Bool.false_eq_true, if_false, List.lookup]
      rw [ih]

theorem lookup_sdAppend_ne (d : SDict α) (k k' : Nat) (col : List α) (hne : k' ≠ k) :
    (sdAppend d k col).lookup k' = d.lookup k' := by
  induction d with
  | nil =>
    have hb : (k' == k) = false := by simpa using hne
    simp [sdAppend, List.lookup, hb]
  | cons x t ih =>
    by_cases h : x.1 = k
    · have hany : (x :: t).any (fun e => e.1 == k) = true := by simp [h]
      unfold sdAppend
      rw [if_pos hany]
      exact lookup_map_other (x :: t) k k' col hne
    · rw [sdAppend_cons_ne x t k col h]
      obtain ⟨k0, v0⟩ := x
      by_cases e : k' = k0
      · subst e; simp [List.lookup]
      · have hb : (k' == k0) = false := by simpa using e
        simp only [List.lookup, hb]
        exact ih

/-- appending a list of (mode, column) pairs -/
def appendAll (d : SDict α) (ps : List (Nat × List α)) : SDict α := ps.foldl (fun d p => sdAppend d p.1 p.2) d

theorem recordCmd_eq_appendAll [Inhabited α] (d : SDict α) (regs : List Nat) (val : List (List α)) :
    recordCmd d regs val = appendAll d (regVals regs val) := by
  unfold recordCmd appendAll regVals
  rw [List.foldl_map]

theorem lookup_appendAll_not_mem (d : SDict α) (ps : List (Nat × List α)) (k : Nat)
    (h : ∀ p ∈ ps, p.1 ≠ k) : (appendAll d ps).lookup k = d.lookup k := by
  induction ps generalizing d with
  | nil => rfl
  | cons p ps ih =>
    simp only [appendAll, List.foldl_cons]
    have := ih (sdAppend d p.1 p.2) (fun q hq => h q (List.mem_cons_of_mem _ hq))
    simp only [appendAll] at this
    rw [this, lookup_sdAppend_ne d p.1 k p.2 (fun e => h p List.mem_cons_self e.symm)]

theorem lookup_appendAll_mem (d : SDict α) (ps : List (Nat × List α)) (hnd : (ps.map (·.1)).Nodup)
    (p : Nat × List α) (hp : p ∈ ps) :
    (appendAll d ps).lookup p.1 = some ((d.lookup p.1).getD [] ++ [p.2]) := by
  induction ps generalizing d with
  | nil => cases hp
  | cons q ps ih =>
    simp only [List.map_cons, List.nodup_cons] at hnd
    simp only [appendAll, List.foldl_cons]
    rcases List.mem_cons.mp hp with rfl | hp'
    · have := lookup_appendAll_not_mem (sdAppend d p.1 p.2) ps p.1
        (fun r hr e => hnd.1 (by rw [← e]; exact List.mem_map_of_mem hr))
      simp only [appendAll] at this
      rw [this, lookup_sdAppend_self]
    · have hne : p.1 ≠ q.1 := fun e => hnd.1 (by rw [← e]; exact List.mem_map_of_mem hp')
      have := ih (sdAppend d q.1 q.2) hnd.2 hp'
      simp only [appendAll] at this
      rw [this, lookup_sdAppend_ne d q.1 p.1 q.2 hne]

theorem regVals_keys [Inhabited α] (regs : List Nat) (val : List (List α)) :
    (regVals regs val).map (·.1) = regs := by
  unfold regVals
  rw [List.map_map]
  apply List.ext_getElem
  · simp
  · intro i h1 h2
    simp only [List.getElem_map, List.getElem_range, Function.comp]
    rw [List.getD_eq_getElem?_getD, List.getElem?_eq_getElem (by simpa using h1)]
    rfl

theorem mem_regVals [Inhabited α] (regs : List Nat) (val : List (List α)) (j : Nat) (hj : j < regs.length) :
    (regs[j], column val j) ∈ regVals regs val := by
  unfold regVals
  refine List.mem_map.mpr ⟨j, List.mem_range.mpr hj, ?_⟩
  rw [List.getD_eq_getElem?_getD, List.getElem?_eq_getElem hj]
  rfl

theorem sdAppend_keys_nodup (d : SDict α) (k : Nat) (col : List α) (h : (d.map (·.1)).Nodup) :
    ((sdAppend d k col).map (·.1)).Nodup := by
  unfold sdAppend
  by_cases ha : d.any (fun e => e.1 == k) = true
  · rw [if_pos ha]
    have : (d.map fun e => if e.1 == k then (e.1, e.2 ++ [col]) else e).map (·.1) = d.map (·.1) := by
      rw [List.map_map]
      apply List.map_congr_left
      intro e _
      simp only [Function.comp]
      split <;> rfl
    rw [this]; exact h
  · rw [if_neg ha]
    simp only [List.map_append, List.map_cons, List.map_nil]
    rw [List.nodup_append]
    refine ⟨h, by simp, ?_⟩
    intro a ha' b hb
    simp only [List.mem_singleton] at hb
    subst hb
    intro e
    subst e
    apply ha
    obtain ⟨x, hx, hx1⟩ := List.mem_map.mp ha'
    exact List.any_eq_true.mpr ⟨x, hx, by simp [hx1]⟩

theorem appendAll_keys_nodup (d : SDict α) (ps : List (Nat × List α)) (h : (d.map (·.1)).Nodup) :
    ((appendAll d ps).map (·.1)).Nodup := by
  induction ps generalizing d with
  | nil => exact h
  | cons p ps ih => exact ih _ (sdAppend_keys_nodup d p.1 p.2 h)

theorem runSamples_keys_nodup [Inhabited α] (evs : List (List Nat × List (List α))) :
    ((runSamples evs).map (·.1)).Nodup := by
  unfold runSamples
  suffices H : ∀ d : SDict α, (d.map (·.1)).Nodup →
      ((evs.foldl (fun d e => recordCmd d e.1 e.2) d).map (·.1)).Nodup from H [] (by simp)
  induction evs with
  | nil => intro d h; exact h
  | cons e es ih =>
    intro d h
    simp only [List.foldl_cons]
    apply ih
    rw [recordCmd_eq_appendAll]
    exact appendAll_keys_nodup d _ h

/-! ### `_combine_and_sort_samples` -/

theorem sortByKey_eq_insertionSort (l : List (Nat × List α)) :
    sortByKey l = l.insertionSort (fun a b => a.1 ≤ b.1) := by
  unfold sortByKey
  induction l with
  | nil => rfl
  | cons x xs ih =>
    simp only [List.foldr_cons, List.insertionSort_cons, ih]
    generalize xs.insertionSort (fun a b => a.1 ≤ b.1) = s
    induction s with
    | nil => rfl
    | cons y ys ih2 =>
      simp only [insertKey, List.orderedInsert]
      by_cases h : x.1 ≤ y.1
      · simp [h]
      · simp [h, ih2]

theorem sortByKey_perm (l : List (Nat × List α)) : (sortByKey l).Perm l := by
  rw [sortByKey_eq_insertionSort]; exact List.perm_insertionSort _ l

instance : Std.Total (fun a b : Nat × List α => a.1 ≤ b.1) := ⟨fun a b => Nat.le_total a.1 b.1⟩
instance : IsTrans (Nat × List α) (fun a b => a.1 ≤ b.1) := ⟨fun _ _ _ h1 h2 => Nat.le_trans h1 h2⟩

theorem sortByKey_sorted (l : List (Nat × List α)) : (sortByKey l).Pairwise (fun a b => a.1 ≤ b.1) := by
  rw [sortByKey_eq_insertionSort]; exact List.pairwise_insertionSort _ l

/-- with distinct keys the columns come out in strictly ascending mode order -/
theorem sortByKey_strict (l : List (Nat × List α)) (hnd : (l.map (·.1)).Nodup) :
    ((sortByKey l).map (·.1)).Pairwise (· < ·) := by
  have h1 : ((sortByKey l).map (·.1)).Pairwise (· ≤ ·) := by
    rw [List.pairwise_map]; exact sortByKey_sorted l
  have h2 : ((sortByKey l).map (·.1)).Nodup := ((sortByKey_perm l).map _).nodup_iff.mpr hnd
  exact (h1.and h2).imp (by intro a b h; have := h.1; have := h.2; omega)

theorem transposeCols_length [Inhabited α] (c : List α) (cs : List (List α)) :
    (transposeCols (c :: cs)).length = c.length := by simp [transposeCols]

theorem transposeCols_row [Inhabited α] (c : List α) (cs : List (List α)) (s : Nat) (hs : s < c.length) :
    (transposeCols (c :: cs))[s]? = some ((c :: cs).map fun col => col.getD s default) := by
  simp [transposeCols, hs]

end engine

/-! ### bosonic threshold measurement: the click weights sum to one -/

section weights
variable {K : Type} [Field K]

theorem sum_map_div (l : List K) (a : K) : (l.map (· / a)).sum = l.sum / a := by
  induction l with
  | nil => simp
  | cons x xs ih => simp [ih, add_div]

theorem sum_zipWith_click (w rw : List K) (c d : K) :
    (List.zipWith (fun wi ri => wi * (ri * c / d)) w rw).sum = c * (List.zipWith (· * ·) w rw).sum / d := by
  induction w generalizing rw with
  | nil => simp
  | cons x xs ih =>
    cases rw with
    | nil => simp
    | cons r rs => simp [ih, mul_add, add_div]; ring

theorem thresholdClickWeights_sum (w rw : List K) (c p0 : K) :
    (thresholdClickWeights w rw c p0).sum = (w.sum - c * (List.zipWith (· * ·) w rw).sum) / (1 - p0) := by
  unfold thresholdClickWeights
  rw [List.sum_append, sum_map_div, sum_zipWith_click]
  have h2 : p0 - 1 = -(1 - p0) := by ring
  rw [h2, div_neg, ← sub_eq_add_neg, ← sub_div]

theorem reweight_sum (w rw : List K) (h : (List.zipWith (· * ·) w rw).sum ≠ 0) : (reweight w rw).sum = 1 := by
  unfold reweight
  simp only [← List.sum_eq_foldl]
  rw [sum_map_div, div_self h]

end weights

end SFV.Meas
