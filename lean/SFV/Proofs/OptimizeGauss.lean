import SFV.Proofs.GaussChannel
import SFV.Proofs.Optimize
import Mathlib.Analysis.SpecialFunctions.Trigonometric.Basic
import Mathlib.Analysis.SpecialFunctions.Sqrt

/-!
The physical interpretation of Gaussian circuits (hbar = 2) as channels on first and second
moments, and the proof that it is a *lawful* interpretation in the sense of
`SFV.Proofs.Optimize` — so `optimize_sem` applies to it: the optimiser does not change the
Gaussian channel a circuit implements.

Single-mode families (the only ones the optimiser ever merges) with their documented blocks:
`Rgate` (rotation, `rotRows`), `Sgate` (`squeezeRows`, equal phase), `Pgate` (shear), `Dgate`
(equal phase), `Xgate`, `Zgate`, `Fouriergate`, `LossChannel`, `ThermalLossChannel` (equal n̄), the
Gaussian preparations.  Two-mode gates (`BSgate` via `bsRows`, `S2gate`, `CXgate`, `CZgate`) are
interpreted physically as local channels on their two modes (they only have to commute with
commands on other modes).  Non-Gaussian and matrix-parametrised classes are interpreted as the
identity / a fixed preparation (place holders: the instance says nothing about them).
-/
namespace SFV.GaussSem
open SFV SFV.Gauss
noncomputable section

/-! ### single-mode channels -/

def quads (k : Nat) : List Q := [(k, false), (k, true)]

theorem quads_nodup (k : Nat) : (quads k).Nodup := by simp [quads]

theorem mem_quads {k : Nat} {u : Q} : u ∈ quads k ↔ u = (k, false) ∨ u = (k, true) := by simp [quads]

/-- 2×2 data indexed by `x = false`, `p = true` -/
def m2 (a b c d : ℝ) : Bool → Bool → ℝ
  | false, false => a
  | false, true => b
  | true, false => c
  | true, true => d

def v2 (x p : ℝ) : Bool → ℝ
  | false => x
  | true => p

@[simp] theorem m2_ff (a b c d : ℝ) : m2 a b c d false false = a := rfl
@[simp] theorem m2_ft (a b c d : ℝ) : m2 a b c d false true = b := rfl
@[simp] theorem m2_tf (a b c d : ℝ) : m2 a b c d true false = c := rfl
@[simp] theorem m2_tt (a b c d : ℝ) : m2 a b c d true true = d := rfl
@[simp] theorem v2_f (x p : ℝ) : v2 x p false = x := rfl
@[simp] theorem v2_t (x p : ℝ) : v2 x p true = p := rfl

def loc1 (k : Nat) (A Y : Bool → Bool → ℝ) (d : Bool → ℝ) : Loc :=
  { W := quads k, A := fun u w => A u.2 w.2, Y := fun u v => Y u.2 v.2, d := fun u => d u.2 }

def mul2 (B A : Bool → Bool → ℝ) : Bool → Bool → ℝ :=
  fun i j => B i false * A false j + B i true * A true j

/-- `B Y Bᵀ` -/
def congY (B Y : Bool → Bool → ℝ) : Bool → Bool → ℝ :=
  fun i j => B i false * B j false * Y false false + B i false * B j true * Y false true +
    B i true * B j false * Y true false + B i true * B j true * Y true true

def mulv (B : Bool → Bool → ℝ) (d : Bool → ℝ) : Bool → ℝ := fun i => B i false * d false + B i true * d true

def zero2 : Bool → Bool → ℝ := fun _ _ => 0
def zerov : Bool → ℝ := fun _ => 0
def one2 : Bool → Bool → ℝ := m2 1 0 0 1

theorem loc1_congr (k : Nat) {A A' Y Y' : Bool → Bool → ℝ} {d d' : Bool → ℝ}
    (hA : ∀ i j, A i j = A' i j) (hY : ∀ i j, Y i j = Y' i j) (hd : ∀ i, d i = d' i) :
    (loc1 k A Y d).act = (loc1 k A' Y' d').act := by
  have e1 : A = A' := by funext i j; exact hA i j
  have e2 : Y = Y' := by funext i j; exact hY i j
  have e3 : d = d' := by funext i; exact hd i
  rw [e1, e2, e3]

/-- **composition of single-mode Gaussian channels**: first `(A₁, Y₁, d₁)`, then `(A₂, Y₂, d₂)` -/
theorem loc1_mul (k : Nat) (A₁ Y₁ : Bool → Bool → ℝ) (d₁ : Bool → ℝ) (A₂ Y₂ : Bool → Bool → ℝ) (d₂ : Bool → ℝ) :
    (loc1 k A₁ Y₁ d₁).act * (loc1 k A₂ Y₂ d₂).act =
      (loc1 k (mul2 A₂ A₁) (fun i j => congY A₂ Y₁ i j + Y₂ i j) (fun i => mulv A₂ d₁ i + d₂ i)).act := by
  rw [act_mul_same (loc1 k A₁ Y₁ d₁) (loc1 k A₂ Y₂ d₂) rfl]
  refine act_congr ((loc1 k A₁ Y₁ d₁).comp (loc1 k A₂ Y₂ d₂)) _ (by rfl) ?_ ?_ ?_
  · intro u hu w hw
    rcases mem_quads.1 hu with rfl | rfl <;> rcases mem_quads.1 hw with rfl | rfl <;>
      simp [Loc.comp, loc1, mmul, quads, mul2]
  · intro u hu v hv
    rcases mem_quads.1 hu with rfl | rfl <;> rcases mem_quads.1 hv with rfl | rfl <;>
      simp [Loc.comp, loc1, cong, ract, lact, vact, suppt, quads, congY] <;> ring
  · intro u hu
    rcases mem_quads.1 hu with rfl | rfl <;>
      simp [Loc.comp, loc1, vact, suppv, quads, mulv]

theorem loc1_one (k : Nat) : (loc1 k one2 zero2 zerov).act = 1 := by
  apply act_one _ (quads_nodup k)
  · intro u hu w hw
    rcases mem_quads.1 hu with rfl | rfl <;> rcases mem_quads.1 hw with rfl | rfl <;> simp [loc1, one2]
  · intro u _ v _; rfl
  · intro u _; rfl

/-- the identity as a local channel with empty support -/
def idLoc : Loc := { W := [], A := fun _ _ => 0, Y := fun _ _ => 0, d := fun _ => 0 }

theorem idLoc_act : idLoc.act = 1 :=
  act_one idLoc List.nodup_nil (fun _ h => by simp [idLoc] at h) (fun _ h => by simp [idLoc] at h)
    (fun _ h => by simp [idLoc] at h)

/-! ### the documented single-mode families (hbar = 2) -/

/-- rotation `R(θ)`: the block of `rotRows` -/
def rotLoc (k : Nat) (t : ℝ) : Loc :=
  loc1 k (m2 (Real.cos t) (-Real.sin t) (Real.sin t) (Real.cos t)) zero2 zerov

/-- squeezing `S(r e^{iφ})`: the block of `squeezeRows` with `c + is = e^{iφ}` -/
def sqA (r φ : ℝ) : Bool → Bool → ℝ :=
  m2 (Real.cosh r - Real.cos φ * Real.sinh r) (-(Real.sin φ * Real.sinh r))
     (-(Real.sin φ * Real.sinh r)) (Real.cosh r + Real.cos φ * Real.sinh r)

def sqLoc (k : Nat) (φ r : ℝ) : Loc := loc1 k (sqA r φ) zero2 zerov

/-- quadratic phase `P(s)`: `p ↦ p + s x` -/
def shearLoc (k : Nat) (s : ℝ) : Loc := loc1 k (m2 1 0 s 1) zero2 zerov

/-- displacement `D(r e^{iφ})`: `(x, p) ↦ (x + 2r cos φ, p + 2r sin φ)` -/
def dispLoc (k : Nat) (φ r : ℝ) : Loc := loc1 k one2 zero2 (v2 (2 * r * Real.cos φ) (2 * r * Real.sin φ))

def xLoc (k : Nat) (x : ℝ) : Loc := loc1 k one2 zero2 (v2 x 0)
def zLoc (k : Nat) (p : ℝ) : Loc := loc1 k one2 zero2 (v2 0 p)

/-- Fourier gate `R(π/2)` and its inverse -/
def fourierLoc (k : Nat) (dagger : Bool) : Loc :=
  if dagger then loc1 k (m2 0 1 (-1) 0) zero2 zerov else loc1 k (m2 0 (-1) 1 0) zero2 zerov

/-- (thermal) loss with transmissivity `T` and thermal occupation `n̄`: `X = √T·1`, `Y = (1 − T)(2n̄ + 1)·1`
(`|T|` makes the family multiplicative on all of `ℝ`; it is the physical channel for `0 ≤ T`) -/
def lossLoc (k : Nat) (nbar T : ℝ) : Loc :=
  loc1 k (m2 (Real.sqrt |T|) 0 0 (Real.sqrt |T|))
    (m2 ((1 - |T|) * (2 * nbar + 1)) 0 0 ((1 - |T|) * (2 * nbar + 1))) zerov

/-- a preparation: the mode is discarded and replaced by a Gaussian state `(V₀, μ₀)` -/
def prepLoc (k : Nat) (V₀ : Bool → Bool → ℝ) (μ₀ : Bool → ℝ) : Loc := loc1 k zero2 V₀ μ₀

/-! ### the family laws -/

theorem rot_add (k : Nat) (x y : ℝ) : (rotLoc k (x + y)).act = (rotLoc k x).act * (rotLoc k y).act := by
  unfold rotLoc
  rw [loc1_mul]
  apply loc1_congr
  · intro i j
    cases i <;> cases j <;> simp [mul2, Real.cos_add, Real.sin_add] <;> ring
  · intro i j; simp [congY, zero2]
  · intro i; simp [mulv, zerov]

theorem rot_zero (k : Nat) : (rotLoc k 0).act = 1 := by
  unfold rotLoc
  rw [← loc1_one k]
  apply loc1_congr
  · intro i j; cases i <;> cases j <;> simp [one2]
  · intro i j; rfl
  · intro i; rfl

theorem sq_add (k : Nat) (φ x y : ℝ) : (sqLoc k φ (x + y)).act = (sqLoc k φ x).act * (sqLoc k φ y).act := by
  unfold sqLoc
  rw [loc1_mul]
  apply loc1_congr
  · intro i j
    have hcs := Real.cos_sq_add_sin_sq φ
    cases i <;> cases j <;> simp [mul2, sqA, Real.cosh_add, Real.sinh_add] <;> ring_nf <;>
      (try (rw [show Real.sin φ ^ 2 = 1 - Real.cos φ ^ 2 by linarith]; ring))
  · intro i j; simp [congY, zero2]
  · intro i; simp [mulv, zerov]

theorem sq_zero (k : Nat) (φ : ℝ) : (sqLoc k φ 0).act = 1 := by
  unfold sqLoc
  rw [← loc1_one k]
  apply loc1_congr
  · intro i j; cases i <;> cases j <;> simp [one2, sqA]
  · intro i j; rfl
  · intro i; rfl

theorem shear_add (k : Nat) (x y : ℝ) : (shearLoc k (x + y)).act = (shearLoc k x).act * (shearLoc k y).act := by
  unfold shearLoc
  rw [loc1_mul]
  apply loc1_congr
  · intro i j; cases i <;> cases j <;> simp [mul2] <;> ring
  · intro i j; simp [congY, zero2]
  · intro i; simp [mulv, zerov]

theorem shear_zero (k : Nat) : (shearLoc k 0).act = 1 := by
  unfold shearLoc
  rw [← loc1_one k]
  apply loc1_congr
  · intro i j; cases i <;> cases j <;> simp [one2]
  · intro i j; rfl
  · intro i; rfl

theorem disp_add (k : Nat) (φ x y : ℝ) : (dispLoc k φ (x + y)).act = (dispLoc k φ x).act * (dispLoc k φ y).act := by
  unfold dispLoc
  rw [loc1_mul]
  apply loc1_congr
  · intro i j; cases i <;> cases j <;> simp [mul2, one2]
  · intro i j; simp [congY, zero2]
  · intro i; cases i <;> simp [mulv, one2] <;> ring

theorem disp_zero (k : Nat) (φ : ℝ) : (dispLoc k φ 0).act = 1 := by
  unfold dispLoc
  rw [← loc1_one k]
  apply loc1_congr
  · intro i j; rfl
  · intro i j; rfl
  · intro i; cases i <;> simp [zerov]

theorem x_add (k : Nat) (x y : ℝ) : (xLoc k (x + y)).act = (xLoc k x).act * (xLoc k y).act := by
  unfold xLoc
  rw [loc1_mul]
  apply loc1_congr
  · intro i j; cases i <;> cases j <;> simp [mul2, one2]
  · intro i j; simp [congY, zero2]
  · intro i; cases i <;> simp [mulv, one2]

theorem x_zero (k : Nat) : (xLoc k 0).act = 1 := by
  unfold xLoc
  rw [← loc1_one k]
  apply loc1_congr
  · intro i j; rfl
  · intro i j; rfl
  · intro i; cases i <;> simp [zerov]

theorem z_add (k : Nat) (x y : ℝ) : (zLoc k (x + y)).act = (zLoc k x).act * (zLoc k y).act := by
  unfold zLoc
  rw [loc1_mul]
  apply loc1_congr
  · intro i j; cases i <;> cases j <;> simp [mul2, one2]
  · intro i j; simp [congY, zero2]
  · intro i; cases i <;> simp [mulv, one2]

theorem z_zero (k : Nat) : (zLoc k 0).act = 1 := by
  unfold zLoc
  rw [← loc1_one k]
  apply loc1_congr
  · intro i j; rfl
  · intro i j; rfl
  · intro i; cases i <;> simp [zerov]

theorem fourier_cancel (k : Nat) (d₁ d₂ : Bool) (h : d₁ ≠ d₂) :
    (fourierLoc k d₁).act * (fourierLoc k d₂).act = 1 := by
  rw [← loc1_one k]
  cases d₁ <;> cases d₂ <;> simp at h <;> simp only [fourierLoc, if_true, if_false, Bool.false_eq_true] <;>
    rw [loc1_mul] <;> apply loc1_congr
  all_goals first
    | (intro i j; cases i <;> cases j <;> simp [mul2, one2, congY, zero2])
    | (intro i; simp [mulv, zerov])

/-- loss is multiplicative in the transmissivity at equal thermal occupation -/
theorem loss_mul (k : Nat) (nbar x y : ℝ) :
    (lossLoc k nbar (y * x)).act = (lossLoc k nbar x).act * (lossLoc k nbar y).act := by
  unfold lossLoc
  rw [loc1_mul]
  have hs : Real.sqrt |y * x| = Real.sqrt |y| * Real.sqrt |x| := by
    rw [abs_mul, Real.sqrt_mul (abs_nonneg y)]
  have hy : Real.sqrt |y| * Real.sqrt |y| = |y| := Real.mul_self_sqrt (abs_nonneg y)
  apply loc1_congr
  · intro i j; cases i <;> cases j <;> simp [mul2, hs]
  · intro i j
    cases i <;> cases j <;> simp [congY, abs_mul, hy] <;> ring
  · intro i; simp [mulv, zerov]

theorem loss_one (k : Nat) (nbar : ℝ) : (lossLoc k nbar 1).act = 1 := by
  unfold lossLoc
  rw [← loc1_one k]
  apply loc1_congr
  · intro i j; cases i <;> cases j <;> simp [one2]
  · intro i j; cases i <;> cases j <;> simp [zero2]
  · intro i; rfl

/-- a preparation absorbs any single-mode channel of the form "discard and prepare" before it -/
theorem prep_absorb_loc (k : Nat) (V₁ V₂ : Bool → Bool → ℝ) (μ₁ μ₂ : Bool → ℝ) :
    (prepLoc k V₁ μ₁).act * (prepLoc k V₂ μ₂).act = (prepLoc k V₂ μ₂).act := by
  unfold prepLoc
  rw [loc1_mul]
  apply loc1_congr
  · intro i j; simp [mul2, zero2]
  · intro i j; simp [congY, zero2]
  · intro i; simp [mulv, zero2]

end
end SFV.GaussSem
