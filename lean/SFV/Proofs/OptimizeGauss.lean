import SFV.Proofs.GaussChannel
import SFV.Proofs.Optimize
import Mathlib.Analysis.SpecialFunctions.Trigonometric.Basic
import Mathlib.Analysis.SpecialFunctions.Sqrt

/-!
The physical interpretation of Gaussian circuits (hbar = 2) as channels on first and second
moments, and the proof that it is a *lawful* interpretation in the sense of
`SFV.Proofs.Optimize` — so `optimize_sem` applies to it: the optimiser does not change the
Gaussian channel a circuit implements.

Single-mode families (the only ones the optimiser ever merges) with their documented blocks:
`Rgate` (rotation, `rotRows`), `Sgate` (`squeezeRows`, equal phase), `Pgate` (shear), `Dgate`
(equal phase), `Xgate`, `Zgate`, `Fouriergate`, `LossChannel`, `ThermalLossChannel` (equal n̄), the
Gaussian preparations.  Two-mode gates (`BSgate` via `bsRows`, `S2gate`, `CXgate`, `CZgate`) are
interpreted physically as local channels on their two modes (they only have to commute with
commands on other modes).  Non-Gaussian and matrix-parametrised classes are interpreted as the
identity / a fixed preparation (place holders: the instance says nothing about them).
-/
set_option linter.unusedSimpArgs false
set_option linter.unusedTactic false
set_option linter.unnecessarySeqFocus false
set_option linter.unreachableTactic false
namespace SFV.GaussSem
open SFV SFV.Gauss
noncomputable section

/-! ### single-mode channels -/

def quads (k : Nat) : List Q := [(k, false), (k, true)]

theorem quads_nodup (k : Nat) : (quads k).Nodup := by simp [quads]

theorem mem_quads {k : Nat} {u : Q} : u ∈ quads k ↔ u = (k, false) ∨ u = (k, true) := by simp [quads]

/-- 2×2 data indexed by `x = false`, `p = true` -/
def m2 (a b c d : ℝ) : Bool → Bool → ℝ
  | false, false => a
  | false, true => b
  | true, false => c
  | true, true => d

def v2 (x p : ℝ) : Bool → ℝ
  | false => x
  | true => p

@[simp] theorem m2_ff (a b c d : ℝ) : m2 a b c d false false = a := rfl
@[simp] theorem m2_ft (a b c d : ℝ) : m2 a b c d false true = b := rfl
@[simp] theorem m2_tf (a b c d : ℝ) : m2 a b c d true false = c := rfl
@[simp] theorem m2_tt (a b c d : ℝ) : m2 a b c d true true = d := rfl
@[simp] theorem v2_f (x p : ℝ) : v2 x p false = x := rfl
@[simp] theorem v2_t (x p : ℝ) : v2 x p true = p := rfl

def loc1 (k : Nat) (A Y : Bool → Bool → ℝ) (d : Bool → ℝ) : Loc :=
  { W := quads k, A := fun u w => A u.2 w.2, Y := fun u v => Y u.2 v.2, d := fun u => d u.2 }

def mul2 (B A : Bool → Bool → ℝ) : Bool → Bool → ℝ :=
  fun i j => B i false * A false j + B i true * A true j

/-- `B Y Bᵀ` -/
def congY (B Y : Bool → Bool → ℝ) : Bool → Bool → ℝ :=
  fun i j => B i false * B j false * Y false false + B i false * B j true * Y false true +
    B i true * B j false * Y true false + B i true * B j true * Y true true

def mulv (B : Bool → Bool → ℝ) (d : Bool → ℝ) : Bool → ℝ := fun i => B i false * d false + B i true * d true

def zero2 : Bool → Bool → ℝ := fun _ _ => 0
def zerov : Bool → ℝ := fun _ => 0
def one2 : Bool → Bool → ℝ := m2 1 0 0 1

theorem loc1_congr (k : Nat) {A A' Y Y' : Bool → Bool → ℝ} {d d' : Bool → ℝ}
    (hA : ∀ i j, A i j = A' i j) (hY : ∀ i j, Y i j = Y' i j) (hd : ∀ i, d i = d' i) :
    (loc1 k A Y d).act = (loc1 k A' Y' d').act := by
  have e1 : A = A' := by funext i j; exact hA i j
  have e2 : Y = Y' := by funext i j; exact hY i j
  have e3 : d = d' := by funext i; exact hd i
  rw [e1, e2, e3]

/-- **composition of single-mode Gaussian channels**: first `(A₁, Y₁, d₁)`, then `(A₂, Y₂, d₂)` -/
theorem loc1_mul (k : Nat) (A₁ Y₁ : Bool → Bool → ℝ) (d₁ : Bool → ℝ) (A₂ Y₂ : Bool → Bool → ℝ) (d₂ : Bool → ℝ) :
    (loc1 k A₁ Y₁ d₁).act * (loc1 k A₂ Y₂ d₂).act =
      (loc1 k (mul2 A₂ A₁) (fun i j => congY A₂ Y₁ i j + Y₂ i j) (fun i => mulv A₂ d₁ i + d₂ i)).act := by
  rw [act_mul_same (loc1 k A₁ Y₁ d₁) (loc1 k A₂ Y₂ d₂) rfl]
  refine act_congr ((loc1 k A₁ Y₁ d₁).comp (loc1 k A₂ Y₂ d₂)) _ (by rfl) ?_ ?_ ?_
  · intro u hu w hw
    rcases mem_quads.1 hu with rfl | rfl <;> rcases mem_quads.1 hw with rfl | rfl <;>
      simp [Loc.comp, loc1, mmul, quads, mul2]
  · intro u hu v hv
    rcases mem_quads.1 hu with rfl | rfl <;> rcases mem_quads.1 hv with rfl | rfl <;>
      simp [Loc.comp, loc1, cong, ract, lact, vact, suppt, quads, congY] <;> ring
  · intro u hu
    rcases mem_quads.1 hu with rfl | rfl <;>
      simp [Loc.comp, loc1, vact, suppv, quads, mulv]

theorem loc1_one (k : Nat) : (loc1 k one2 zero2 zerov).act = 1 := by
  apply act_one _ (quads_nodup k)
  · intro u hu w hw
    rcases mem_quads.1 hu with rfl | rfl <;> rcases mem_quads.1 hw with rfl | rfl <;> simp [loc1, one2]
  · intro u _ v _; rfl
  · intro u _; rfl

/-- the identity as a local channel with empty support -/
def idLoc : Loc := { W := [], A := fun _ _ => 0, Y := fun _ _ => 0, d := fun _ => 0 }

theorem idLoc_act : idLoc.act = 1 :=
  act_one idLoc List.nodup_nil (fun _ h => by simp [idLoc] at h) (fun _ h => by simp [idLoc] at h)
    (fun _ h => by simp [idLoc] at h)

/-! ### the documented single-mode families (hbar = 2) -/

/-- rotation `R(θ)`: the block of `rotRows` -/
def rotLoc (k : Nat) (t : ℝ) : Loc :=
  loc1 k (m2 (Real.cos t) (-Real.sin t) (Real.sin t) (Real.cos t)) zero2 zerov

/-- squeezing `S(r e^{iφ})`: the block of `squeezeRows` with `c + is = e^{iφ}` -/
def sqA (r φ : ℝ) : Bool → Bool → ℝ :=
  m2 (Real.cosh r - Real.cos φ * Real.sinh r) (-(Real.sin φ * Real.sinh r))
     (-(Real.sin φ * Real.sinh r)) (Real.cosh r + Real.cos φ * Real.sinh r)

def sqLoc (k : Nat) (φ r : ℝ) : Loc := loc1 k (sqA r φ) zero2 zerov

/-- quadratic phase `P(s)`: `p ↦ p + s x` -/
def shearLoc (k : Nat) (s : ℝ) : Loc := loc1 k (m2 1 0 s 1) zero2 zerov

/-- displacement `D(r e^{iφ})`: `(x, p) ↦ (x + 2r cos φ, p + 2r sin φ)` -/
def dispLoc (k : Nat) (φ r : ℝ) : Loc := loc1 k one2 zero2 (v2 (2 * r * Real.cos φ) (2 * r * Real.sin φ))

def xLoc (k : Nat) (x : ℝ) : Loc := loc1 k one2 zero2 (v2 x 0)
def zLoc (k : Nat) (p : ℝ) : Loc := loc1 k one2 zero2 (v2 0 p)

/-- Fourier gate `R(π/2)` and its inverse -/
def fourierLoc (k : Nat) (dagger : Bool) : Loc :=
  if dagger then loc1 k (m2 0 1 (-1) 0) zero2 zerov else loc1 k (m2 0 (-1) 1 0) zero2 zerov

/-- (thermal) loss with transmissivity `T` and thermal occupation `n̄`: `X = √T·1`, `Y = (1 − T)(2n̄ + 1)·1`
(`|T|` makes the family multiplicative on all of `ℝ`; it is the physical channel for `0 ≤ T`) -/
def lossLoc (k : Nat) (nbar T : ℝ) : Loc :=
  loc1 k (m2 (Real.sqrt |T|) 0 0 (Real.sqrt |T|))
    (m2 ((1 - |T|) * (2 * nbar + 1)) 0 0 ((1 - |T|) * (2 * nbar + 1))) zerov

/-- a preparation: the mode is discarded and replaced by a Gaussian state `(V₀, μ₀)` -/
def prepLoc (k : Nat) (V₀ : Bool → Bool → ℝ) (μ₀ : Bool → ℝ) : Loc := loc1 k zero2 V₀ μ₀

/-! ### the family laws -/

theorem rot_add (k : Nat) (x y : ℝ) : (rotLoc k (x + y)).act = (rotLoc k x).act * (rotLoc k y).act := by
  unfold rotLoc
  rw [loc1_mul]
  apply loc1_congr
  · intro i j
    cases i <;> cases j <;> simp [mul2, Real.cos_add, Real.sin_add] <;> ring
  · intro i j; simp [congY, zero2]
  · intro i; simp [mulv, zerov]

theorem rot_zero (k : Nat) : (rotLoc k 0).act = 1 := by
  unfold rotLoc
  rw [← loc1_one k]
  apply loc1_congr
  · intro i j; cases i <;> cases j <;> simp [one2]
  · intro i j; rfl
  · intro i; rfl

theorem sq_add (k : Nat) (φ x y : ℝ) : (sqLoc k φ (x + y)).act = (sqLoc k φ x).act * (sqLoc k φ y).act := by
  unfold sqLoc
  rw [loc1_mul]
  apply loc1_congr
  · intro i j
    have hcs := Real.cos_sq_add_sin_sq φ
    cases i <;> cases j <;> simp [mul2, sqA, Real.cosh_add, Real.sinh_add] <;> ring_nf <;>
      (try (rw [show Real.sin φ ^ 2 = 1 - Real.cos φ ^ 2 by linarith]; ring))
  · intro i j; simp [congY, zero2]
  · intro i; simp [mulv, zerov]

theorem sq_zero (k : Nat) (φ : ℝ) : (sqLoc k φ 0).act = 1 := by
  unfold sqLoc
  rw [← loc1_one k]
  apply loc1_congr
  · intro i j; cases i <;> cases j <;> simp [one2, sqA]
  · intro i j; rfl
  · intro i; rfl

theorem shear_add (k : Nat) (x y : ℝ) : (shearLoc k (x + y)).act = (shearLoc k x).act * (shearLoc k y).act := by
  unfold shearLoc
  rw [loc1_mul]
  apply loc1_congr
  · intro i j; cases i <;> cases j <;> simp [mul2] <;> ring
  · intro i j; simp [congY, zero2]
  · intro i; simp [mulv, zerov]

theorem shear_zero (k : Nat) : (shearLoc k 0).act = 1 := by
  unfold shearLoc
  rw [← loc1_one k]
  apply loc1_congr
  · intro i j; cases i <;> cases j <;> simp [one2]
  · intro i j; rfl
  · intro i; rfl

theorem disp_add (k : Nat) (φ x y : ℝ) : (dispLoc k φ (x + y)).act = (dispLoc k φ x).act * (dispLoc k φ y).act := by
  unfold dispLoc
  rw [loc1_mul]
  apply loc1_congr
  · intro i j; cases i <;> cases j <;> simp [mul2, one2]
  · intro i j; simp [congY, zero2]
  · intro i; cases i <;> simp [mulv, one2] <;> ring

theorem disp_zero (k : Nat) (φ : ℝ) : (dispLoc k φ 0).act = 1 := by
  unfold dispLoc
  rw [← loc1_one k]
  apply loc1_congr
  · intro i j; rfl
  · intro i j; rfl
  · intro i; cases i <;> simp [zerov]

theorem x_add (k : Nat) (x y : ℝ) : (xLoc k (x + y)).act = (xLoc k x).act * (xLoc k y).act := by
  unfold xLoc
  rw [loc1_mul]
  apply loc1_congr
  · intro i j; cases i <;> cases j <;> simp [mul2, one2]
  · intro i j; simp [congY, zero2]
  · intro i; cases i <;> simp [mulv, one2]

theorem x_zero (k : Nat) : (xLoc k 0).act = 1 := by
  unfold xLoc
  rw [← loc1_one k]
  apply loc1_congr
  · intro i j; rfl
  · intro i j; rfl
  · intro i; cases i <;> simp [zerov]

theorem z_add (k : Nat) (x y : ℝ) : (zLoc k (x + y)).act = (zLoc k x).act * (zLoc k y).act := by
  unfold zLoc
  rw [loc1_mul]
  apply loc1_congr
  · intro i j; cases i <;> cases j <;> simp [mul2, one2]
  · intro i j; simp [congY, zero2]
  · intro i; cases i <;> simp [mulv, one2]

theorem z_zero (k : Nat) : (zLoc k 0).act = 1 := by
  unfold zLoc
  rw [← loc1_one k]
  apply loc1_congr
  · intro i j; rfl
  · intro i j; rfl
  · intro i; cases i <;> simp [zerov]

theorem fourier_cancel (k : Nat) (d₁ d₂ : Bool) (h : d₁ ≠ d₂) :
    (fourierLoc k d₁).act * (fourierLoc k d₂).act = 1 := by
  rw [← loc1_one k]
  cases d₁ <;> cases d₂ <;> simp at h <;> simp only [fourierLoc, if_true, if_false, Bool.false_eq_true] <;>
    rw [loc1_mul] <;> apply loc1_congr
  all_goals first
    | (intro i j; cases i <;> cases j <;> simp [mul2, one2, congY, zero2])
    | (intro i; simp [mulv, zerov])

/-- loss is multiplicative in the transmissivity at equal thermal occupation -/
theorem loss_mul (k : Nat) (nbar x y : ℝ) :
    (lossLoc k nbar (y * x)).act = (lossLoc k nbar x).act * (lossLoc k nbar y).act := by
  unfold lossLoc
  rw [loc1_mul]
  have hs : Real.sqrt |y * x| = Real.sqrt |y| * Real.sqrt |x| := by
    rw [abs_mul, Real.sqrt_mul (abs_nonneg y)]
  have hy : Real.sqrt |y| * Real.sqrt |y| = |y| := Real.mul_self_sqrt (abs_nonneg y)
  apply loc1_congr
  · intro i j; cases i <;> cases j <;> simp [mul2, hs]
  · intro i j
    cases i <;> cases j <;> simp [congY, abs_mul, hy] <;> ring
  · intro i; simp [mulv, zerov]

theorem loss_one (k : Nat) (nbar : ℝ) : (lossLoc k nbar 1).act = 1 := by
  unfold lossLoc
  rw [← loc1_one k]
  apply loc1_congr
  · intro i j; cases i <;> cases j <;> simp [one2]
  · intro i j; cases i <;> cases j <;> simp [zero2]
  · intro i; rfl

/-- a preparation absorbs any single-mode channel of the form "discard and prepare" before it -/
theorem prep_absorb_loc (k : Nat) (V₁ V₂ : Bool → Bool → ℝ) (μ₁ μ₂ : Bool → ℝ) :
    (prepLoc k V₁ μ₁).act * (prepLoc k V₂ μ₂).act = (prepLoc k V₂ μ₂).act := by
  unfold prepLoc
  rw [loc1_mul]
  apply loc1_congr
  · intro i j; simp [mul2, zero2]
  · intro i j; simp [congY, zero2]
  · intro i; simp [mulv, zero2]

/-! ### tie to the K3 specification: a single-mode block acts as `linMap (rows1 …)` -/

/-- the moments of xp data -/
def ofXP (V : XP ℝ) : St := ⟨V.mean, V.cov⟩

/-- **the channel of a single-mode block is the K3 specification `linMap (rows1 k a b c d)`** on
symmetric xp data (so `rotLoc`, `sqLoc`, `lossLoc`'s linear part are `rotRows`, `squeezeRows`,
`lossRows` of `SFV.Model.PhaseSpace`, which `SFV.Proofs.GaussNM` ties to the simulator's updates) -/
theorem loc1_eq_linMap (k : Nat) (a b c d : ℝ) (V : XP ℝ) (hxx : ∀ i j, V.xx i j = V.xx j i)
    (hpp : ∀ i j, V.pp i j = V.pp j i) :
    (loc1 k (m2 a b c d) zero2 zerov).act.run (ofXP V) = ofXP (linMap (rows1 k a b c d) V) := by
  apply St.ext'
  · intro u
    obtain ⟨i, q⟩ := u
    by_cases hi : i = k
    · subst hi
      cases q <;> simp [Loc.act, ofXP, loc1, vact, suppv, quads, zerov, linMap, XP.mean, rows1, lsum]
    · have h1 : ((i, q) : Q) ∉ quads k := by simp [quads, hi]
      cases q <;> simp [Loc.act, ofXP, loc1, vact, suppv, h1, linMap, XP.mean, rows1, idRow, lsum, hi]
  · intro u v
    simp only [ofXP, linMap_cov (rows1 k a b c d) V hxx hpp, covLin]
    obtain ⟨i, q⟩ := u
    obtain ⟨j, r⟩ := v
    by_cases hi : i = k <;> by_cases hj : j = k
    · subst hi; subst hj
      cases q <;> cases r <;>
        simp [Loc.act, loc1, cong, ract, lact, vact, suppt, quads, zero2, rows1, lsum] <;> ring
    · subst hi
      have h1 : ((j, r) : Q) ∉ quads i := by simp [quads, hj]
      cases q <;> cases r <;>
        simp [Loc.act, loc1, cong, ract, lact, vact, suppt, h1, quads, zero2, rows1, idRow, lsum, hj] <;> ring
    · subst hj
      have h1 : ((i, q) : Q) ∉ quads j := by simp [quads, hi]
      cases q <;> cases r <;>
        simp [Loc.act, loc1, cong, ract, lact, vact, suppt, h1, quads, zero2, rows1, idRow, lsum, hi] <;> ring
    · have h1 : ((i, q) : Q) ∉ quads k := by simp [quads, hi]
      have h2 : ((j, r) : Q) ∉ quads k := by simp [quads, hj]
      cases q <;> cases r <;>
        simp [Loc.act, loc1, cong, ract, lact, vact, suppt, h1, h2, rows1, idRow, lsum, hi, hj]

/-! ### two-mode gates as local channels (no merge law is needed for them) -/

/-- a linear gate given by sparse rows, restricted to the support `W` -/
def rowsLoc (W : List Q) (R : Q → List (Q × ℝ)) : Loc :=
  { W := W, A := fun u w => coef (R u) w, Y := fun _ _ => 0, d := fun _ => 0 }

/-- documented `CX(s)`: `x_l ↦ x_l + s x_k`, `p_k ↦ p_k − s p_l` -/
def cxRows (k l : Nat) (s : ℝ) : Q → List (Q × ℝ)
  | (i, false) => if i = l then [((l, false), 1), ((k, false), s)] else idRow (i, false)
  | (i, true) => if i = k then [((k, true), 1), ((l, true), -s)] else idRow (i, true)

/-- documented `CZ(s)`: `p_k ↦ p_k + s x_l`, `p_l ↦ p_l + s x_k` -/
def czRows (k l : Nat) (s : ℝ) : Q → List (Q × ℝ)
  | (i, false) => idRow (i, false)
  | (i, true) => if i = k then [((k, true), 1), ((l, false), s)]
                 else if i = l then [((l, true), 1), ((k, false), s)] else idRow (i, true)

/-- documented `S2(r e^{iφ})`: `a_k ↦ ch·a_k + sh·e^{iφ}·a_l†`, `a_l ↦ ch·a_l + sh·e^{iφ}·a_k†` -/
def s2Rows (k l : Nat) (c s ch sh : ℝ) : Q → List (Q × ℝ)
  | (i, false) =>
    if i = k then [((k, false), ch), ((l, false), sh * c), ((l, true), sh * s)]
    else if i = l then [((l, false), ch), ((k, false), sh * c), ((k, true), sh * s)]
    else idRow (i, false)
  | (i, true) =>
    if i = k then [((k, true), ch), ((l, false), sh * s), ((l, true), -(sh * c))]
    else if i = l then [((l, true), ch), ((k, false), sh * s), ((k, true), -(sh * c))]
    else idRow (i, true)

/-! ### matrix-parametrised single-mode operations -/

theorem matMul_length (n : Nat) (X Y : List Rat) : (matMul n X Y).length = n * n := by
  simp [matMul, List.length_flatMap]

/-- real value of the `i`-th entry of a row-major matrix -/
def me (A : List Rat) (i : Nat) : ℝ := ((A.getD i 0 : ℚ) : ℝ)

theorem matMul2_entries (B A : List Rat) :
    me (matMul 2 B A) 0 = me B 0 * me A 0 + me B 1 * me A 2 ∧
    me (matMul 2 B A) 1 = me B 0 * me A 1 + me B 1 * me A 3 ∧
    me (matMul 2 B A) 2 = me B 2 * me A 0 + me B 3 * me A 2 ∧
    me (matMul 2 B A) 3 = me B 2 * me A 1 + me B 3 * me A 3 := by
  simp [me, matMul, List.range_succ]

theorem matMul1_entries (B A : List Rat) : me (matMul 1 B A) 0 = me B 0 * me A 0 := by
  simp [me, matMul, List.range_succ]

/-- `GaussianTransform(S)` with a 2×2 symplectic `S` acting on `(x, p)`; `PassiveChannel([[t]])`: amplitude
`t`, i.e. `X = t·1`, `Y = (1 − t²)·1`; `Interferometer([[t]])` with a real 1×1 unitary (`t = ±1`): `X = t·1` -/
def D1 (cls : String) (k : Nat) (A : List Rat) : Loc :=
  if Nat.sqrt A.length = 2 then
    (if cls = "GaussianTransform" then loc1 k (m2 (me A 0) (me A 1) (me A 2) (me A 3)) zero2 zerov else idLoc)
  else if Nat.sqrt A.length = 1 then
    (if cls = "PassiveChannel" then
      loc1 k (m2 (me A 0) 0 0 (me A 0)) (m2 (1 - me A 0 * me A 0) 0 0 (1 - me A 0 * me A 0)) zerov
     else if cls = "Interferometer" then loc1 k (m2 (me A 0) 0 0 (me A 0)) zero2 zerov
     else idLoc)
  else idLoc

theorem D1_W (cls : String) (k : Nat) (A : List Rat) : ∀ u ∈ (D1 cls k A).W, u.1 = k := by
  intro u hu
  unfold D1 at hu
  split_ifs at hu <;>
    first
    | (have hu' : u ∈ quads k := hu
       rcases mem_quads.1 hu' with rfl | rfl <;> rfl)
    | (simp [idLoc] at hu)

theorem D1_mul (cls : String) (k : Nat) (A B : List Rat) (hlen : A.length = B.length) :
    (D1 cls k (matMul (Nat.sqrt A.length) B A)).act = (D1 cls k A).act * (D1 cls k B).act := by
  have hB : Nat.sqrt B.length = Nat.sqrt A.length := by rw [hlen]
  by_cases h2 : Nat.sqrt A.length = 2
  · have hr : Nat.sqrt (matMul 2 B A).length = 2 := by rw [matMul_length]; exact Nat.sqrt_eq 2
    obtain ⟨e0, e1, e2, e3⟩ := matMul2_entries B A
    rw [h2]
    unfold D1
    rw [hr, h2, hB, h2]
    simp only [if_true]
    split_ifs
    · rw [loc1_mul]
      apply loc1_congr
      · intro i j; cases i <;> cases j <;> simp [mul2, e0, e1, e2, e3]
      · intro i j; simp [congY, zero2]
      · intro i; simp [mulv, zerov]
    · simp [idLoc_act]
  · by_cases h1 : Nat.sqrt A.length = 1
    · have hr : Nat.sqrt (matMul 1 B A).length = 1 := by rw [matMul_length]; exact Nat.sqrt_eq 1
      have e0 := matMul1_entries B A
      rw [h1]
      unfold D1
      rw [hr, h1, hB, h1]
      simp only [if_true, show ¬ (1 = 2) by decide, if_false]
      split_ifs
      · rw [loc1_mul]
        apply loc1_congr
        · intro i j; cases i <;> cases j <;> simp [mul2, e0]
        · intro i j; cases i <;> cases j <;> simp [congY, e0] <;> ring
        · intro i; simp [mulv, zerov]
      · rw [loc1_mul]
        apply loc1_congr
        · intro i j; cases i <;> cases j <;> simp [mul2, e0]
        · intro i j; simp [congY, zero2]
        · intro i; simp [mulv, zerov]
      · simp [idLoc_act]
    · have hr : Nat.sqrt (matMul (Nat.sqrt A.length) B A).length = Nat.sqrt A.length := by
        rw [matMul_length]; exact Nat.sqrt_eq _
      unfold D1
      rw [hr, hB]
      simp only [h2, h1, if_false, idLoc_act, mul_one]

theorem identMat_length (n : Nat) : (identMat n).length = n * n := by
  simp [identMat, List.length_flatMap]

theorem D1_one (cls : String) (k n : Nat) : (D1 cls k (identMat n)).act = 1 := by
  unfold D1
  rw [identMat_length, Nat.sqrt_eq n]
  by_cases h2 : n = 2
  · subst h2
    simp only [if_true]
    split_ifs
    · rw [← loc1_one k]
      apply loc1_congr
      · intro i j; cases i <;> cases j <;> simp [one2, me, identMat, List.range_succ]
      · intro i j; rfl
      · intro i; rfl
    · exact idLoc_act
  · by_cases h1 : n = 1
    · subst h1
      simp only [show ¬ (1 = 2) by decide, if_false, if_true]
      split_ifs
      · rw [← loc1_one k]
        apply loc1_congr
        · intro i j; cases i <;> cases j <;> simp [one2, me, identMat, List.range_succ]
        · intro i j; cases i <;> cases j <;> simp [zero2, me, identMat, List.range_succ]
        · intro i; rfl
      · rw [← loc1_one k]
        apply loc1_congr
        · intro i j; cases i <;> cases j <;> simp [one2, me, identMat, List.range_succ]
        · intro i j; rfl
        · intro i; rfl
      · exact idLoc_act
    · simp only [h2, h1, if_false, idLoc_act]

/-! ### the interpretation of commands -/

/-- real value of a parameter -/
def rv (θ : Nat → Rat) (p : Par) : ℝ := ((p.val θ : ℚ) : ℝ)

def tailv (θ : Nat → Rat) (t : List Par) (i : Nat) : ℝ :=
  match t[i]? with
  | some p => rv θ p
  | none => 0

/-- single-target gate families at first parameter `x` -/
def G1 (θ : Nat → Rat) (cls : String) (k : Nat) (t : List Par) (x : ℝ) : Loc :=
  if cls = "Rgate" then rotLoc k x
  else if cls = "Sgate" then sqLoc k (tailv θ t 0) x
  else if cls = "Dgate" then dispLoc k (tailv θ t 0) x
  else if cls = "Xgate" then xLoc k x
  else if cls = "Zgate" then zLoc k x
  else if cls = "Pgate" then shearLoc k x
  else idLoc

/-- single-target channel families at first parameter `x` -/
def C1 (θ : Nat → Rat) (cls : String) (k : Nat) (t : List Par) (x : ℝ) : Loc :=
  if cls = "LossChannel" then lossLoc k 0 x
  else if cls = "ThermalLossChannel" then lossLoc k (tailv θ t 0) x
  else idLoc

/-- covariance of the prepared state -/
def prepV (θ : Nat → Rat) (cls : String) (p : List Par) : Bool → Bool → ℝ :=
  if cls = "Squeezed" then congY (sqA (tailv θ p 0) (tailv θ p 1)) one2
  else if cls = "DisplacedSqueezed" then congY (sqA (tailv θ p 2) (tailv θ p 3)) one2
  else if cls = "Thermal" then m2 (2 * tailv θ p 0 + 1) 0 0 (2 * tailv θ p 0 + 1)
  else one2

/-- mean of the prepared state -/
def prepMu (θ : Nat → Rat) (cls : String) (p : List Par) : Bool → ℝ :=
  if cls = "Coherent" ∨ cls = "DisplacedSqueezed" then
    v2 (2 * tailv θ p 0 * Real.cos (tailv θ p 1)) (2 * tailv θ p 0 * Real.sin (tailv θ p 1))
  else zerov

def quads2 (k l : Nat) : List Q := quads k ++ quads l

theorem mem_quads2 {k l : Nat} {u : Q} :
    u ∈ quads2 k l ↔ u = (k, false) ∨ u = (k, true) ∨ u = (l, false) ∨ u = (l, true) := by
  simp [quads2, quads]

theorem quads2_nodup {k l : Nat} (h : k ≠ l) : (quads2 k l).Nodup := by
  simp [quads2, quads, h, Ne.symm h]

/-- `BSgate(θ, φ)` on `(k, l)`: `a_k ↦ cos θ·a_k − e^{−iφ} sin θ·a_l` (`bsRows` at `(−θ, −φ)`, which is how
the Gaussian back end calls it) -/
def bsLoc (k l : Nat) (φ x : ℝ) : Loc :=
  rowsLoc (quads2 k l) (bsRows k l (Real.cos φ) (-Real.sin φ) (Real.cos x) (-Real.sin x))

def s2Loc (k l : Nat) (φ x : ℝ) : Loc :=
  rowsLoc (quads2 k l) (s2Rows k l (Real.cos φ) (Real.sin φ) (Real.cosh x) (Real.sinh x))

def cxLoc (k l : Nat) (x : ℝ) : Loc := rowsLoc (quads2 k l) (cxRows k l x)
def czLoc (k l : Nat) (x : ℝ) : Loc := rowsLoc (quads2 k l) (czRows k l x)

/-- two-target gate families at first parameter `x` -/
def G2 (θ : Nat → Rat) (cls : String) (k l : Nat) (t : List Par) (x : ℝ) : Loc :=
  if cls = "BSgate" then bsLoc k l (tailv θ t 0) x
  else if cls = "S2gate" then s2Loc k l (tailv θ t 0) x
  else if cls = "CXgate" then cxLoc k l x
  else if cls = "CZgate" then czLoc k l x
  else idLoc

/-- the local channel a command implements -/
def gloc (θ : Nat → Rat) (c : Cmd) : Loc :=
  match c.regs with
  | [k] =>
    match ruleOf c.cls with
    | .gate =>
      match c.pars with
      | p :: t => G1 θ c.cls k t (((sg c.dagger * p.val θ : ℚ)) : ℝ)
      | [] => idLoc
    | .channel =>
      match c.pars with
      | .num x :: t => C1 θ c.cls k t ((x : ℚ) : ℝ)
      | _ => idLoc
    | .prep => prepLoc k (prepV θ c.cls c.pars) (prepMu θ c.cls c.pars)
    | .fourier => fourierLoc k c.dagger
    | .matrix =>
      match parsNums c.pars with
      | some A => D1 c.cls k A
      | none => idLoc
    | _ => idLoc
  | [k, l] =>
    match ruleOf c.cls with
    | .gate =>
      match c.pars with
      | p :: t => G2 θ c.cls k l t (((sg c.dagger * p.val θ : ℚ)) : ℝ)
      | [] => idLoc
    | _ => idLoc
  | _ => idLoc

/-- **the Gaussian interpretation**: the channel on first and second moments that a command
implements, for the values `θ` of the symbolic parameters -/
def gf (θ : Nat → Rat) (c : Cmd) : Ch := (gloc θ c).act

/-! ### it is supported on the targets, hence independent commands commute -/

theorem loc1_W (k : Nat) (A Y : Bool → Bool → ℝ) (d : Bool → ℝ) : (loc1 k A Y d).W = quads k := rfl

theorem G1_W (θ : Nat → Rat) (cls : String) (k : Nat) (t : List Par) (x : ℝ) :
    ∀ u ∈ (G1 θ cls k t x).W, u.1 = k := by
  intro u hu
  unfold G1 at hu
  split_ifs at hu <;>
    first
    | (simp only [rotLoc, sqLoc, dispLoc, xLoc, zLoc, shearLoc, loc1_W] at hu
       rcases mem_quads.1 hu with rfl | rfl <;> rfl)
    | (simp [idLoc] at hu)

theorem C1_W (θ : Nat → Rat) (cls : String) (k : Nat) (t : List Par) (x : ℝ) :
    ∀ u ∈ (C1 θ cls k t x).W, u.1 = k := by
  intro u hu
  unfold C1 at hu
  split_ifs at hu <;>
    first
    | (simp only [lossLoc, loc1_W] at hu
       rcases mem_quads.1 hu with rfl | rfl <;> rfl)
    | (simp [idLoc] at hu)

theorem G2_W (θ : Nat → Rat) (cls : String) (k l : Nat) (t : List Par) (x : ℝ) :
    ∀ u ∈ (G2 θ cls k l t x).W, u.1 = k ∨ u.1 = l := by
  intro u hu
  unfold G2 at hu
  split_ifs at hu <;>
    first
    | (simp only [bsLoc, s2Loc, cxLoc, czLoc, rowsLoc] at hu
       rcases mem_quads2.1 hu with rfl | rfl | rfl | rfl <;> simp)
    | (simp [idLoc] at hu)

theorem gloc_W (θ : Nat → Rat) (c : Cmd) : ∀ u ∈ (gloc θ c).W, u.1 ∈ c.regs := by
  intro u hu
  unfold gloc at hu
  split at hu
  · rename_i k hk
    rw [hk]
    have : u.1 = k := by
      split at hu
      · split at hu
        · exact G1_W _ _ _ _ _ u hu
        · simp [idLoc] at hu
      · split at hu
        · exact C1_W _ _ _ _ _ u hu
        · simp [idLoc] at hu
      · simp only [prepLoc, loc1_W] at hu
        rcases mem_quads.1 hu with rfl | rfl <;> rfl
      · unfold fourierLoc at hu
        split_ifs at hu <;> (simp only [loc1_W] at hu; rcases mem_quads.1 hu with rfl | rfl <;> rfl)
      · split at hu
        · exact D1_W _ _ _ u hu
        · simp [idLoc] at hu
      · simp [idLoc] at hu
    simp [this]
  · rename_i k l hk
    rw [hk]
    have : u.1 = k ∨ u.1 = l := by
      split at hu
      · split at hu
        · exact G2_W _ _ _ _ _ _ u hu
        · simp [idLoc] at hu
      · simp [idLoc] at hu
    rcases this with h | h <;> simp [h]
  · simp [idLoc] at hu

/-- **independent commands commute** in the Gaussian interpretation -/
theorem gf_comm (θ : Nat → Rat) (a b : Cmd) (h : ¬ dep a b) : gf θ a * gf θ b = gf θ b * gf θ a := by
  unfold gf
  apply act_comm
  intro u hu hu'
  apply h
  exact ⟨u.1, by simp [Cmd.wires, gloc_W θ a u hu], by simp [Cmd.wires, gloc_W θ b u hu']⟩

/-- a vacuum preparation is **not** the identity channel: it overwrites the mean of its mode (so an
optimiser may not drop a `Vacuum` that is first on its wire — the register need not be in the vacuum) -/
theorem vacuum_ne_one (θ : Nat → Rat) (k i : Nat) :
    gf θ { id := i, cls := "Vacuum", regs := [k] } ≠ 1 := by
  intro h
  have hr : ruleOf "Vacuum" = .prep := by decide
  have h2 := congrArg (fun c : Ch => (c.run ⟨fun _ => 1, fun _ _ => 0⟩).mu (k, false)) h
  simp [gf, gloc, hr, prepLoc, prepMu, Loc.act, loc1, vact, suppv, quads, zero2, zerov, Ch.one_run] at h2

/-! ### two-mode families: composition and the additive laws -/

theorem vact_zero (W : List Q) (A : Q → Q → ℝ) : vact W A (fun _ => (0 : ℝ)) = fun _ => 0 := by
  funext x
  unfold vact
  split
  · exact (wsum_congr fun w _ => by simp).trans (wsum_zero W)
  · rfl

/-- linear channels given by rows on the same support compose by the matrix product on the support -/
theorem rowsLoc_mul (W : List Q) (R₁ R₂ R : Q → List (Q × ℝ))
    (h : ∀ u ∈ W, ∀ w ∈ W, mmul W (fun u w => coef (R₂ u) w) (fun u w => coef (R₁ u) w) u w = coef (R u) w) :
    (rowsLoc W R₁).act * (rowsLoc W R₂).act = (rowsLoc W R).act := by
  rw [act_mul_same (rowsLoc W R₁) (rowsLoc W R₂) rfl]
  refine act_congr ((rowsLoc W R₁).comp (rowsLoc W R₂)) _ (by rfl) ?_ ?_ ?_
  · intro u hu w hw
    exact h u hu w hw
  · intro u _ v _
    have h0 : suppt W (fun _ _ => (0 : ℝ)) = fun _ _ => 0 := by funext a b; simp [suppt]
    simp only [Loc.comp, rowsLoc, h0, cong, ract, lact, vact_zero, add_zero]
  · intro u _
    have h0 : suppv W (fun _ => (0 : ℝ)) = fun _ => 0 := by funext a; simp [suppv]
    simp only [Loc.comp, rowsLoc, h0, vact_zero, add_zero]

theorem rowsLoc_one (W : List Q) (hn : W.Nodup) (R : Q → List (Q × ℝ))
    (h : ∀ u ∈ W, ∀ w ∈ W, coef (R u) w = if u = w then 1 else 0) : (rowsLoc W R).act = 1 :=
  act_one _ hn h (fun _ _ _ _ => rfl) (fun _ _ => rfl)

theorem cx_add (k l : Nat) (hkl : k ≠ l) (x y : ℝ) :
    (cxLoc k l (x + y)).act = (cxLoc k l x).act * (cxLoc k l y).act := by
  symm
  apply rowsLoc_mul
  intro u hu w hw
  have hlk : l ≠ k := Ne.symm hkl
  rcases mem_quads2.1 hu with rfl | rfl | rfl | rfl <;> rcases mem_quads2.1 hw with rfl | rfl | rfl | rfl <;>
    simp [mmul, quads2, quads, cxRows, idRow, coef, hkl, hlk] <;> ring

theorem cx_zero (k l : Nat) (hkl : k ≠ l) : (cxLoc k l 0).act = 1 := by
  apply rowsLoc_one _ (quads2_nodup hkl)
  intro u hu w hw
  have hlk : l ≠ k := Ne.symm hkl
  rcases mem_quads2.1 hu with rfl | rfl | rfl | rfl <;> rcases mem_quads2.1 hw with rfl | rfl | rfl | rfl <;>
    simp [cxRows, idRow, coef, hkl, hlk]

theorem cz_add (k l : Nat) (hkl : k ≠ l) (x y : ℝ) :
    (czLoc k l (x + y)).act = (czLoc k l x).act * (czLoc k l y).act := by
  symm
  apply rowsLoc_mul
  intro u hu w hw
  have hlk : l ≠ k := Ne.symm hkl
  rcases mem_quads2.1 hu with rfl | rfl | rfl | rfl <;> rcases mem_quads2.1 hw with rfl | rfl | rfl | rfl <;>
    simp [mmul, quads2, quads, czRows, idRow, coef, hkl, hlk] <;> ring

theorem cz_zero (k l : Nat) (hkl : k ≠ l) : (czLoc k l 0).act = 1 := by
  apply rowsLoc_one _ (quads2_nodup hkl)
  intro u hu w hw
  have hlk : l ≠ k := Ne.symm hkl
  rcases mem_quads2.1 hu with rfl | rfl | rfl | rfl <;> rcases mem_quads2.1 hw with rfl | rfl | rfl | rfl <;>
    simp [czRows, idRow, coef, hkl, hlk]

/-- beamsplitters at equal phase: the mixing angles add -/
theorem bs_add (k l : Nat) (hkl : k ≠ l) (φ x y : ℝ) :
    (bsLoc k l φ (x + y)).act = (bsLoc k l φ x).act * (bsLoc k l φ y).act := by
  symm
  apply rowsLoc_mul
  intro u hu w hw
  have hlk : l ≠ k := Ne.symm hkl
  have hcs := Real.cos_sq_add_sin_sq φ
  have hs2 : Real.sin φ ^ 2 = 1 - Real.cos φ ^ 2 := by linarith
  rcases mem_quads2.1 hu with rfl | rfl | rfl | rfl <;> rcases mem_quads2.1 hw with rfl | rfl | rfl | rfl <;>
    simp [mmul, quads2, quads, bsRows, idRow, coef, hkl, hlk, Real.cos_add, Real.sin_add] <;> ring_nf <;>
    (try (rw [hs2]; ring))

theorem bs_zero (k l : Nat) (hkl : k ≠ l) (φ : ℝ) : (bsLoc k l φ 0).act = 1 := by
  apply rowsLoc_one _ (quads2_nodup hkl)
  intro u hu w hw
  have hlk : l ≠ k := Ne.symm hkl
  rcases mem_quads2.1 hu with rfl | rfl | rfl | rfl <;> rcases mem_quads2.1 hw with rfl | rfl | rfl | rfl <;>
    simp [bsRows, idRow, coef, hkl, hlk]

/-- two-mode squeezers at equal phase: the squeezing parameters add -/
theorem s2_add (k l : Nat) (hkl : k ≠ l) (φ x y : ℝ) :
    (s2Loc k l φ (x + y)).act = (s2Loc k l φ x).act * (s2Loc k l φ y).act := by
  symm
  apply rowsLoc_mul
  intro u hu w hw
  have hlk : l ≠ k := Ne.symm hkl
  have hcs := Real.cos_sq_add_sin_sq φ
  have hs2 : Real.sin φ ^ 2 = 1 - Real.cos φ ^ 2 := by linarith
  rcases mem_quads2.1 hu with rfl | rfl | rfl | rfl <;> rcases mem_quads2.1 hw with rfl | rfl | rfl | rfl <;>
    simp [mmul, quads2, quads, s2Rows, idRow, coef, hkl, hlk, Real.cosh_add, Real.sinh_add] <;> ring_nf <;>
    (try (rw [hs2]; ring))

theorem s2_zero (k l : Nat) (hkl : k ≠ l) (φ : ℝ) : (s2Loc k l φ 0).act = 1 := by
  apply rowsLoc_one _ (quads2_nodup hkl)
  intro u hu w hw
  have hlk : l ≠ k := Ne.symm hkl
  rcases mem_quads2.1 hu with rfl | rfl | rfl | rfl <;> rcases mem_quads2.1 hw with rfl | rfl | rfl | rfl <;>
    simp [s2Rows, idRow, coef, hkl, hlk]

/-- target lists on which the laws are proved: one mode, or two different modes -/
def Dom2 (r : List Nat) : Prop := r.length = 1 ∨ ∃ k l, r = [k, l] ∧ k ≠ l

/-! ### it is lawful on single-target and two-target commands -/

/-- **the Gaussian interpretation is a lawful interpretation** on commands with one target or two
different targets -/
def gaussLawful2 (θ : Nat → Rat) : Lawful Dom2 (gf θ) where
  θ := θ
  G := fun cls r t x => match r with
    | [k] => (G1 θ cls k t ((x : ℚ) : ℝ)).act
    | [k, l] => (G2 θ cls k l t ((x : ℚ) : ℝ)).act
    | _ => 1
  C := fun cls r t x => match r with
    | [k] => (C1 θ cls k t ((x : ℚ) : ℝ)).act
    | _ => 1
  D := fun cls r A => match r with
    | [k] => (D1 cls k A).act
    | _ => 1
  f_id := fun _ _ => rfl
  gate_f := by
    intro c p t hd hr _ hp
    rcases hd with hd | ⟨k, l, hk, _⟩
    · obtain ⟨k, hk⟩ := List.length_eq_one_iff.1 hd
      simp only [gf, gloc, hk, hr, hp]
    · simp only [gf, gloc, hk, hr, hp]
  gate_add := by
    intro cls r t x y hd
    rcases hd with hd | ⟨k, l, rfl, hkl⟩
    · obtain ⟨k, rfl⟩ := List.length_eq_one_iff.1 hd
      simp only [Rat.cast_add]
      unfold G1
      split_ifs
      · exact rot_add k _ _
      · exact sq_add k _ _ _
      · exact disp_add k _ _ _
      · exact x_add k _ _
      · exact z_add k _ _
      · exact shear_add k _ _
      · simp [idLoc_act]
    · simp only [Rat.cast_add]
      unfold G2
      split_ifs
      · exact bs_add k l hkl _ _ _
      · exact s2_add k l hkl _ _ _
      · exact cx_add k l hkl _ _
      · exact cz_add k l hkl _ _
      · simp [idLoc_act]
  gate_zero := by
    intro cls r t hd
    rcases hd with hd | ⟨k, l, rfl, hkl⟩
    · obtain ⟨k, rfl⟩ := List.length_eq_one_iff.1 hd
      simp only [Rat.cast_zero]
      unfold G1
      split_ifs
      · exact rot_zero k
      · exact sq_zero k _
      · exact disp_zero k _
      · exact x_zero k
      · exact z_zero k
      · exact shear_zero k
      · exact idLoc_act
    · simp only [Rat.cast_zero]
      unfold G2
      split_ifs
      · exact bs_zero k l hkl _
      · exact s2_zero k l hkl _
      · exact cx_zero k l hkl
      · exact cz_zero k l hkl
      · exact idLoc_act
  chan_f := by
    intro c x t hd hr hp
    rcases hd with hd | ⟨k, l, hk, _⟩
    · obtain ⟨k, hk⟩ := List.length_eq_one_iff.1 hd
      simp only [gf, gloc, hk, hr, hp]
    · simp only [gf, gloc, hk, hr, idLoc_act]
  chan_mul := by
    intro cls r t x y hd
    rcases hd with hd | ⟨k, l, rfl, _⟩
    · obtain ⟨k, rfl⟩ := List.length_eq_one_iff.1 hd
      simp only [Rat.cast_mul]
      unfold C1
      split_ifs
      · exact loss_mul k _ _ _
      · exact loss_mul k _ _ _
      · simp [idLoc_act]
    · simp
  chan_one := by
    intro cls r t hd
    rcases hd with hd | ⟨k, l, rfl, _⟩
    · obtain ⟨k, rfl⟩ := List.length_eq_one_iff.1 hd
      simp only [Rat.cast_one]
      unfold C1
      split_ifs
      · exact loss_one k _
      · exact loss_one k _
      · exact idLoc_act
    · rfl
  mat_f := by
    intro c A hd hr hp
    rcases hd with hd | ⟨k, l, hk, _⟩
    · obtain ⟨k, hk⟩ := List.length_eq_one_iff.1 hd
      simp only [gf, gloc, hk, hr, hp]
    · simp only [gf, gloc, hk, hr, idLoc_act]
  mat_mul := by
    intro cls r A B hd hlen
    rcases hd with hd | ⟨k, l, rfl, _⟩
    · obtain ⟨k, rfl⟩ := List.length_eq_one_iff.1 hd
      exact D1_mul cls k A B hlen
    · simp
  mat_one := by
    intro cls r n hd
    rcases hd with hd | ⟨k, l, rfl, _⟩
    · obtain ⟨k, rfl⟩ := List.length_eq_one_iff.1 hd
      exact D1_one cls k n
    · rfl
  prep_absorb := by
    intro a b hd ha hb hr _ _
    rcases hd with hd | ⟨k, l, hk, _⟩
    · obtain ⟨k, hk⟩ := List.length_eq_one_iff.1 hd
      have hkb : b.regs = [k] := by rw [← hr, hk]
      simp only [gf, gloc, hk, hkb, ha, hb]
      exact prep_absorb_loc k _ _ _ _
    · have hkb : b.regs = [k, l] := by rw [← hr, hk]
      simp only [gf, gloc, hk, hkb, ha, hb, idLoc_act, mul_one]
  fourier_inv := by
    intro a b hd ha hcls hr hdg
    have hb : ruleOf b.cls = .fourier := hcls ▸ ha
    rcases hd with hd | ⟨k, l, hk, _⟩
    · obtain ⟨k, hk⟩ := List.length_eq_one_iff.1 hd
      have hkb : b.regs = [k] := by rw [← hr, hk]
      simp only [gf, gloc, hk, hkb, ha, hb]
      exact fourier_cancel k _ _ hdg
    · have hkb : b.regs = [k, l] := by rw [← hr, hk]
      simp only [gf, gloc, hk, hkb, ha, hb, idLoc_act, mul_one]

/-- the instance `optimize_sem` needs -/
def gaussLawful (θ : Nat → Rat) : Lawful (fun r => r.length = 1) (gf θ) :=
  (gaussLawful2 θ).mono fun _ h => Or.inl h

end
end SFV.GaussSem
