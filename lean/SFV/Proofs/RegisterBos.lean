import SFV.Proofs.RegisterSim
/-! Bosonic back end, first non-empty segment: `run_prog` = `init_circuit` (new simulator + all `New`s of the segment
up front) followed by the main loop that skips `New`.  Hoisting the `New`s does not change the result of any command
sequence the abstract rows accept.  Core Lean only. -/
set_option linter.unusedSectionVars false
set_option linter.unusedSimpArgs false
namespace SFV.Reg
section Bos
variable {D : Type} [DataSem D]

/-- number of modes the `New`s of a circuit create -/
def newCount : List Cmd → Nat
  | [] => 0
  | c :: cs => (match c.op with | .newModes _ => c.reg.length | _ => 0) + newCount cs

theorem liveAt_append_left (r e : Rows D) (m : Nat) (h : Rows.liveAt r m = true) :
    Rows.liveAt (r ++ e) m = true ∧ m < r.length := by
  unfold Rows.liveAt at h ⊢
  cases hm : r[m]? with
  | none => simp [hm] at h
  | some o =>
    have hlt := (List.getElem?_eq_some_iff.1 hm).1
    rw [List.getElem?_append_left hlt, hm]
    rw [hm] at h
    exact ⟨h, hlt⟩

theorem all_live_append (r e : Rows D) (ms : List Nat) (h : ms.all (Rows.liveAt r) = true) :
    ms.all (Rows.liveAt (r ++ e)) = true ∧ ∀ m ∈ ms, m < r.length := by
  rw [List.all_eq_true] at h ⊢
  exact ⟨fun m hm => (liveAt_append_left r e m (h m hm)).1, fun m hm => (liveAt_append_left r e m (h m hm)).2⟩

theorem okSel_append (r e : Rows D) (ms : List Nat) (h : r.okSel ms = true) : (r ++ e).okSel ms = true := by
  simp only [Rows.okSel, Bool.and_eq_true] at h ⊢
  exact ⟨⟨h.1.1, (all_live_append r e ms h.1.2).1⟩, h.2⟩

theorem clear_append : ∀ (ms : List Nat) (r e : Rows D), (∀ m ∈ ms, m < r.length) →
    Rows.clear ms (r ++ e) = Rows.clear ms r ++ e := by
  intro ms
  induction ms with
  | nil => intro r e _; rfl
  | cons m ms ih =>
    intro r e hb
    have hm := hb m (by simp)
    simp only [Rows.clear, List.foldl_cons]
    rw [List.set_append_left _ _ hm]
    exact ih (r.set m none) e (by intro x hx; simpa using hb x (by simp [hx]))

theorem writeBack_append : ∀ (ms : List Nat) (vs : List (Option D)) (r e : Rows D), (∀ m ∈ ms, m < r.length) →
    writeBack ms vs (r ++ e) = writeBack ms vs r ++ e := by
  intro ms
  induction ms with
  | nil => intro vs r e _; simp [writeBack]
  | cons m ms ih =>
    intro vs r e hb
    cases vs with
    | nil => simp [writeBack]
    | cons v vs =>
      have hm := hb m (by simp)
      simp only [writeBack]
      rw [List.set_append_left _ _ hm]
      exact ih vs (r.set m v) e (by intro x hx; simpa using hb x (by simp [hx]))

theorem readAll_append (r e : Rows D) : ∀ (ms : List Nat), (∀ m ∈ ms, m < r.length) →
    readAll (r ++ e) ms = readAll r ms := by
  intro ms
  induction ms with
  | nil => intro _; rfl
  | cons m ms ih =>
    intro hb
    have hm := hb m (by simp)
    have := ih (fun x hx => hb x (by simp [hx]))
    simp only [readAll, List.filterMap_cons, List.getElem?_append_left hm] at this ⊢
    rw [this]

theorem upd_append (f : List D → List D) (ms : List Nat) (r e : Rows D) (hb : ∀ m ∈ ms, m < r.length) :
    Rows.upd f ms (r ++ e) = Rows.upd f ms r ++ e := by
  unfold Rows.upd
  rw [readAll_append r e ms hb, writeBack_append ms _ r e hb]

/-- a command other than `New` that the rows accept is accepted with extra (not yet announced) modes at the end,
with the same effect -/
theorem cmd_append (r r' e : Rows D) (c : Cmd) (hn : ∀ k, c.op ≠ .newModes k) (h : Rows.cmd r c = some r') :
    Rows.cmd (r ++ e) c = some (r' ++ e) := by
  unfold Rows.cmd at h ⊢
  cases hop : c.op with
  | newModes k => exact absurd hop (hn k)
  | delete =>
    simp only [hop] at h ⊢
    split at h
    · rename_i hs; cases h
      have hb := (all_live_append r e c.reg (okSel_all hs)).2
      simp [okSel_append r e c.reg hs, clear_append c.reg r e hb]
    · cases h
  | gate k =>
    simp only [hop] at h ⊢
    split at h
    · rename_i hs; cases h
      have hb := (all_live_append r e c.reg (okSel_all hs)).2
      simp [okSel_append r e c.reg hs, upd_append _ c.reg r e hb]
    · cases h
  | measure =>
    simp only [hop] at h ⊢
    split at h
    · rename_i hs; cases h
      have hb := (all_live_append r e c.reg (okSel_all hs)).2
      simp [okSel_append r e c.reg hs, upd_append _ c.reg r e hb]
    · cases h

/-- main loop with the remaining `New`s already performed -/
theorem bosLoop_refines : ∀ (cs : List Cmd) (s : PS D) (r r' : Rows D), PSInv s →
    s.abs = r ++ List.replicate (newCount cs) (some DataSem.vac) → Rows.run cs r = some r' →
    ∃ s', PS.bosLoop cs s = .ok s' ∧ PSInv s' ∧ s'.abs = r' := by
  intro cs
  induction cs with
  | nil =>
    intro s r r' hs ha hr
    cases hr
    exact ⟨s, rfl, hs, by simpa [newCount] using ha⟩
  | cons c cs ih =>
    intro s r r' hs ha hr
    unfold Rows.run at hr
    split at hr
    · cases hr
    · rename_i r1 h1
      cases hop : c.op with
      | newModes k =>
        have hr1 : r1 = r ++ List.replicate c.reg.length (some DataSem.vac) := by
          simp only [Rows.cmd, hop, Option.some.injEq] at h1; exact h1.symm
        have ha' : s.abs = r1 ++ List.replicate (newCount cs) (some DataSem.vac) := by
          rw [ha, hr1]
          simp [newCount, hop, List.replicate_append_replicate]
        unfold PS.bosLoop
        simp only [hop]
        exact ih s r1 r' hs ha' hr
      | delete =>
        have hn : ∀ k, c.op ≠ .newModes k := by intro k; rw [hop]; exact fun h => by cases h
        have hcnt : newCount (c :: cs) = newCount cs := by simp [newCount, hop]
        rw [hcnt] at ha
        obtain ⟨s1, e1, i1, a1⟩ := PS.applyCmd_refines s hs c _ (by rw [ha]; exact cmd_append r r1 _ c hn h1)
        unfold PS.bosLoop
        simp only [hop, e1]
        exact ih s1 r1 r' i1 a1 hr
      | gate k =>
        have hn : ∀ k', c.op ≠ .newModes k' := by intro k'; rw [hop]; exact fun h => by cases h
        have hcnt : newCount (c :: cs) = newCount cs := by simp [newCount, hop]
        rw [hcnt] at ha
        obtain ⟨s1, e1, i1, a1⟩ := PS.applyCmd_refines s hs c _ (by rw [ha]; exact cmd_append r r1 _ c hn h1)
        unfold PS.bosLoop
        simp only [hop, e1]
        exact ih s1 r1 r' i1 a1 hr
      | measure =>
        have hn : ∀ k, c.op ≠ .newModes k := by intro k; rw [hop]; exact fun h => by cases h
        have hcnt : newCount (c :: cs) = newCount cs := by simp [newCount, hop]
        rw [hcnt] at ha
        obtain ⟨s1, e1, i1, a1⟩ := PS.applyCmd_refines s hs c _ (by rw [ha]; exact cmd_append r r1 _ c hn h1)
        unfold PS.bosLoop
        simp only [hop, e1]
        exact ih s1 r1 r' i1 a1 hr

/-- `init_circuit`: all the `New`s of the segment on a new simulator -/
theorem bosInit_spec (n : Nat) : ∀ (cs : List Cmd) (s : PS D), PSInv s →
    PSInv (cs.foldl (fun s c => match c.op with | .newModes _ => s.addMode c.reg.length | _ => s) s) ∧
    (cs.foldl (fun s c => match c.op with | .newModes _ => s.addMode c.reg.length | _ => s) s).abs
      = s.abs ++ List.replicate (newCount cs) (some DataSem.vac) := by
  intro cs
  induction cs with
  | nil => intro s hs; exact ⟨hs, by simp [newCount]⟩
  | cons c cs ih =>
    intro s hs
    simp only [List.foldl_cons]
    cases hop : c.op with
    | newModes k =>
      obtain ⟨h1, h2⟩ := ih (s.addMode c.reg.length) (PS.addMode_inv s _ hs)
      refine ⟨h1, ?_⟩
      rw [h2, PS.addMode_abs s _ hs]
      simp [newCount, hop, List.replicate_append_replicate]
    | delete => simpa [newCount, hop] using ih s hs
    | gate k => simpa [newCount, hop] using ih s hs
    | measure => simpa [newCount, hop] using ih s hs

/-- the initialisation pass followed by the main loop, for any command sequence the rows accept from `n` vacuum modes -/
theorem bosLoop_first (n : Nat) (cs : List Cmd) (r' : Rows D)
    (hr : Rows.run cs (List.replicate n (some (DataSem.vac : D))) = some r') :
    ∃ s', PS.bosLoop cs (PS.bosInit n cs : PS D) = .ok s' ∧ PSInv s' ∧ s'.abs = r' := by
  obtain ⟨h1, h2⟩ := bosInit_spec n cs (PS.begin n : PS D) (PS.begin_inv n)
  rw [PS.begin_abs] at h2
  exact bosLoop_refines cs _ _ r' h1 h2 hr

/-- invariant of (bosonic simulator, "a non-empty segment was run since `begin_circuit`"): as long as nothing was run the
simulator holds vacuum modes only (so that the initialisation pass of the first non-empty segment, which starts from a
new simulator, loses nothing) -/
def BosInv (b : PS D × Bool) : Prop :=
  PSInv b.1 ∧ (b.2 = false → ∃ k, b.1.abs = List.replicate k (some (DataSem.vac : D)))

/-- **the bosonic back end refines the rows** (after the fix of the per-segment re-initialisation): first non-empty
segment through `init_circuit` with the `New`s hoisted, later segments command by command, empty programs do nothing -/
theorem bosRefines : Refines (bosOps D) (fun b => PS.abs b.1) (BosInv (D := D)) where
  begin_inv := fun n => ⟨PS.begin_inv n, fun _ => ⟨n, PS.begin_abs n⟩⟩
  begin_abs := PS.begin_abs
  getModes := fun b hb => PS.getModes_live b.1 hb.1
  state := fun b hb => PS.stateNone_exact b.1 hb.1
  run := by
    intro n cs b r' hb hn hr
    obtain ⟨s, c⟩ := b
    simp only [bosOps, PS.bosRun]
    by_cases he : cs.isEmpty = true
    · have : cs = [] := by cases cs <;> simp_all
      subst this
      simp only [Rows.run, Option.some.injEq] at hr
      exact ⟨(s, c), by simp, hb, hr⟩
    · simp only [he, Bool.false_eq_true, if_false]
      cases c with
      | true =>
        obtain ⟨s', h1, h2, h3⟩ := PS.runCircuit_refines cs s hb.1 r' hr
        exact ⟨(s', true), by simp [h1], ⟨h2, by simp⟩, h3⟩
      | false =>
        obtain ⟨k, hk⟩ := hb.2 rfl
        have hnk : n = k := by
          simp only at hn
          rw [hn, hk, live_replicate_length]
        simp only at hr
        rw [hk, ← hnk] at hr
        obtain ⟨s', h1, h2, h3⟩ := bosLoop_first n cs r' hr
        exact ⟨(s', true), by simp [h1], ⟨h2, by simp⟩, h3⟩
/-- **`MSgate(avg=False)`**: the ancilla that `mb_squeeze_single_shot` adds, measures and removes leaves the mode
bookkeeping exactly as it was — `nlen`, `active` (deleted modes stay deleted) and the stored rows — for every live
target on every simulator state; a deleted or unknown target is rejected -/
theorem PS.msSingleShot_ok (s : PS D) (h : PSInv s) (k : Nat) (hl : Rows.liveAt s.abs k = true) :
    s.msSingleShot k = .ok s := by
  have hc := (PS.check_iff s h k).2 hl
  obtain ⟨ini, nlen, active, rows⟩ := s
  have hla : active.length = nlen := h.la
  have hlr : rows.length = nlen := h.lr
  have hchk : PS.check (⟨ini, nlen + 1, active ++ [some nlen], rows ++ [DataSem.vac]⟩ : PS D) nlen = .ok () := by
    simp [PS.check, List.getElem?_append_right, hla]
  simp only [PS.msSingleShot, hc]
  simp [PS.delMode, PS.addMode, hchk, hla, hlr, List.take_append_of_le_length, List.set_append_right,
    List.take_of_length_le]

theorem PS.msSingleShot_rejects (s : PS D) (h : PSInv s) (k : Nat) (hd : Rows.liveAt s.abs k = false) :
    ∃ e, s.msSingleShot k = .error e := by
  cases hc : s.check k with
  | error e => exact ⟨e, by simp [PS.msSingleShot, hc]⟩
  | ok u => rw [(PS.check_iff s h k).1 hc] at hd; cases hd
end Bos
end SFV.Reg
