import SFV.Proofs.Decompose
/-! C02: list semantics, dagger handling, the recursive driver, mesh emission lemmas. -/
namespace SFV.Decompose
open SFV.Gauss

/-! ### generic: commands acting on a state space -/
section generic
variable {C S : Type}

/-- a command list acts in order (first command first) -/
def semL (I : C → S → S) (l : List C) (s : S) : S := l.foldl (fun w c => I c w) s

@[simp] theorem semL_nil (I : C → S → S) (s : S) : semL I [] s = s := rfl
@[simp] theorem semL_cons (I : C → S → S) (c : C) (l : List C) (s : S) : semL I (c :: l) s = semL I l (I c s) := rfl
theorem semL_append (I : C → S → S) (l1 l2 : List C) (s : S) : semL I (l1 ++ l2) s = semL I l2 (semL I l1 s) := by
  simp [semL, List.foldl_append]

/-- **dagger handling**: reversing the list and flipping every flag inverts the action, given the
inverse law of every member -/
theorem semL_flip_reverse (I : C → S → S) (flip : C → C) (l : List C)
    (hinv : ∀ c ∈ l, ∀ s, I (flip c) (I c s) = s) (s : S) :
    semL I ((l.map flip).reverse) (semL I l s) = s := by
  induction l generalizing s with
  | nil => rfl
  | cons c l ih =>
    simp only [List.map_cons, List.reverse_cons, semL_cons, semL_append, semL_nil]
    rw [ih (fun c' hc' => hinv c' (by simp [hc'])) (I c s)]
    exact hinv c (by simp) s

variable (name : C → String) (noDecomp : C → Bool) (dec : C → Option (List C)) (prims decs : List String)

/-- the driver returns primitives only, and preserves the action when every decomposition does -/
theorem compileWith_sound (I : C → S → S) (Good : C → Prop)
    (hdec : ∀ c kids, Good c → dec c = some kids → (∀ k ∈ kids, Good k) ∧ ∀ s, semL I kids s = I c s) :
    ∀ (fuel : Nat) (l out : List C), (∀ c ∈ l, Good c) → compileWith name noDecomp dec prims decs fuel l = .ok out →
      (∀ s, semL I out s = semL I l s) ∧ (∀ c ∈ out, Good c ∧ name c ∈ prims) := by
  intro fuel
  induction fuel with
  | zero =>
    intro l out _ h
    cases l with
    | nil => simp [compileWith] at h; subst h; simp
    | cons c rest => simp [compileWith] at h
  | succ fuel ihf =>
    intro l
    induction l with
    | nil => intro out _ h; simp [compileWith] at h; subst h; simp
    | cons c rest ihl =>
      intro out hg h
      have hgc : Good c := hg c (by simp)
      have hgr : ∀ c' ∈ rest, Good c' := fun c' hc' => hg c' (by simp [hc'])
      simp only [compileWith] at h
      -- analyse the head
      split at h
      · exact absurd h (by simp)
      · rename_i o1 hhead
        split at h
        · exact absurd h (by simp)
        · rename_i o2 hrest
          injection h with h
          subst h
          obtain ⟨hr1, hr2⟩ := ihl o2 hgr hrest
          have hhd : (∀ s, semL I o1 s = I c s) ∧ (∀ c' ∈ o1, Good c' ∧ name c' ∈ prims) := by
            split at hhead
            · split at hhead
              · split at hhead
                · injection hhead with hhead; subst hhead
                  rename_i hp
                  exact ⟨fun s => rfl, fun c' hc' => by simp at hc'; subst hc'; exact ⟨hgc, by simpa using hp⟩⟩
                · exact absurd hhead (by simp)
              · split at hhead
                · exact absurd hhead (by simp)
                · rename_i kids hk
                  obtain ⟨hk1, hk2⟩ := hdec c kids hgc hk
                  obtain ⟨a, b⟩ := ihf kids o1 hk1 hhead
                  exact ⟨fun s => by rw [a, hk2], b⟩
            · split at hhead
              · injection hhead with hhead; subst hhead
                rename_i hp
                exact ⟨fun s => rfl, fun c' hc' => by simp at hc'; subst hc'; exact ⟨hgc, by simpa using hp⟩⟩
              · exact absurd hhead (by simp)
          refine ⟨fun s => ?_, fun c' hc' => ?_⟩
          · rw [semL_append, hhd.1, hr1]; rfl
          · rcases List.mem_append.mp hc' with h' | h'
            · exact hhd.2 c' h'
            · exact hr2 c' h'

/-- **termination**: with a rank that strictly decreases along decompositions the recursion depth is
bounded by the rank, i.e. the driver never runs out of fuel -/
theorem compileWith_fuel (rank : C → Nat)
    (hr : ∀ c kids, dec c = some kids → ∀ k ∈ kids, rank k < rank c) :
    ∀ (fuel : Nat) (l : List C), (∀ c ∈ l, rank c < fuel) →
      compileWith name noDecomp dec prims decs fuel l ≠ .error .fuel := by
  intro fuel
  induction fuel with
  | zero =>
    intro l hl
    cases l with
    | nil => simp [compileWith]
    | cons c rest => exact absurd (hl c (by simp)) (by omega)
  | succ fuel ihf =>
    intro l
    induction l with
    | nil => intro _; simp [compileWith]
    | cons c rest ihl =>
      intro hl
      have hrest := ihl (fun c' hc' => hl c' (by simp [hc']))
      have hc : rank c < fuel + 1 := hl c (by simp)
      simp only [compileWith]
      split
      · rename_i e hhead
        intro he
        injection he with he
        subst he
        split at hhead
        · split at hhead
          · split at hhead <;> simp at hhead
          · split at hhead
            · simp at hhead
            · rename_i kids hk
              exact ihf kids (fun k hk' => by have := hr c kids hk k hk'; omega) hhead
        · split at hhead <;> simp at hhead
      · split
        · rename_i e he
          intro h
          injection h with h
          subst h
          exact hrest he
        · simp

end generic

/-! ### the scalar decompositions inside the driver -/
section scalar
variable {K : Type} [CommRing K]

/-- a well-formed gate command: atoms constrained, distinct targets of the right number -/
def Cmd.ok (c : Cmd K) : Prop :=
  c.op.ok ∧ c.op.isGate = true ∧
    ((c.op.arity = 1 ∧ ∃ k, c.regs = [k]) ∨ (c.op.arity = 2 ∧ ∃ k l, k ≠ l ∧ c.regs = [k, l]))

theorem semList_eq_semL (C : Consts K) (l : List (Cmd K)) (v : Vec K) : semList C l v = semL (semCmd C) l v := rfl

theorem Cmd.flip_ok (c : Cmd K) (h : c.ok) : c.flip.ok := h

theorem semCmd_flip_inv (C : Consts K) (hC : C.ok) (c : Cmd K) (h : c.ok) (v : Vec K) :
    semCmd C c.flip (semCmd C c v) = v := by
  obtain ⟨hop, _, hr⟩ := h
  rcases hr with ⟨ha, k, hk⟩ | ⟨ha, k, l, hkl, hk⟩
  · have := inv_one C c.op hop k ha
    cases hd : c.dagger <;> simp [semCmd, Cmd.flip, hd, hk, this]
  · have := inv_two C hC c.op hop k l hkl ha
    cases hd : c.dagger <;> simp [semCmd, Cmd.flip, hd, hk, this]

/-- every command a template emits is again well formed -/
theorem decompose1_kids_ok (C : Consts K) (hC : C.ok) (c : Cmd K) (h : c.ok) (seq : List (Cmd K))
    (hd : decompose1 C c.op c.regs = some seq) : ∀ k ∈ seq, k.ok := by
  obtain ⟨hq, hh⟩ := hC
  obtain ⟨op, regs, dg⟩ := c
  obtain ⟨hop, hg, hr⟩ := h
  simp only at hop hg hr hd
  cases op <;> simp only [decompose1, Option.some.injEq, reduceCtorEq] at hd <;> subst hd <;>
    simp only [Op.ok] at hop <;> simp [Op.arity] at hr <;> (try (simp [Op.isGate] at hg; done))
  all_goals
    intro k hk
    simp only [List.mem_cons, List.not_mem_nil, or_false] at hk
  all_goals (first | (obtain ⟨k0, rfl⟩ := hr) | (obtain ⟨k0, l0, hkl, rfl⟩ := hr))
  all_goals
    rcases hk with rfl | rfl | rfl | rfl | rfl <;>
      simp [Cmd.ok, Op.ok, Op.isGate, Op.arity, rg, *] <;> grind

/-- the template of every decomposable gate acts as documented -/
theorem decompose1_sem (C : Consts K) (hC : C.ok) (c : Cmd K) (h : c.ok) (seq : List (Cmd K))
    (hd : decompose1 C c.op c.regs = some seq) : semList C seq = docAct C c.op c.regs := by
  obtain ⟨op, regs, dg⟩ := c
  obtain ⟨hop, hg, hr⟩ := h
  simp only at hop hg hr hd
  cases op <;> simp only [decompose1, Option.some.injEq, reduceCtorEq] at hd <;> subst hd <;>
    simp [Op.arity] at hr <;> (try (simp [Op.isGate] at hg; done))
  all_goals (first | (obtain ⟨k0, rfl⟩ := hr) | (obtain ⟨k0, l0, hkl, rfl⟩ := hr))
  · exact dec_X C hC _ _
  · exact dec_Z C hC _ _
  · exact dec_P C _ _ _ _ _ hop
  · exact dec_CX C _ _ _ _ _ _ hkl hop
  · exact dec_CZ C _ _ _ _ _ _ hkl
  · exact dec_S2 C hC _ _ _ _ _ _ hkl hop
  · exact dec_MZ C hC _ _ _ _ _ _ hkl
  · exact dec_sMZ C hC _ _ _ _ _ _ hkl
  · exact dec_F C _

theorem semCmd_right_inv (C : Consts K) (hC : C.ok) (c : Cmd K) (h : c.ok) (v : Vec K) :
    docAct C c.op c.regs (docActInv C c.op c.regs v) = v := by
  obtain ⟨hop, _, hr⟩ := h
  rcases hr with ⟨ha, k, hk⟩ | ⟨ha, k, l, hkl, hk⟩
  · rw [hk]; exact (inv_one C c.op hop k ha v).2
  · rw [hk]; exact (inv_two C hC c.op hop k l hkl ha v).2

/-- **`Gate.decompose` is faithful, daggered or not** -/
theorem decompose_sem (C : Consts K) (hC : C.ok) (c : Cmd K) (h : c.ok) (seq : List (Cmd K))
    (hd : decompose C c = some seq) : (∀ k ∈ seq, k.ok) ∧ ∀ v, semList C seq v = semCmd C c v := by
  unfold decompose at hd
  split at hd
  · exact absurd hd (by simp)
  · rename_i seq0 h0
    have hk := decompose1_kids_ok C hC c h seq0 h0
    have hs := decompose1_sem C hC c h seq0 h0
    have hg : c.op.isGate = true := h.2.1
    cases hdg : c.dagger
    · simp [hdg] at hd; subst hd
      exact ⟨hk, fun v => by simp [semCmd, hdg, hs]⟩
    · simp [hdg, hg] at hd; subst hd
      refine ⟨fun k hk' => ?_, fun v => ?_⟩
      · simp only [List.mem_reverse, List.mem_map] at hk'
        obtain ⟨k', hk'', rfl⟩ := hk'
        exact Cmd.flip_ok k' (hk k' hk'')
      · have hinv : ∀ w, semList C ((seq0.map Cmd.flip).reverse) (semList C seq0 w) = w := fun w =>
          semL_flip_reverse (semCmd C) Cmd.flip seq0 (fun c' hc' s => semCmd_flip_inv C hC c' (hk c' hc') s) w
        have hv : v = semList C seq0 (docActInv C c.op c.regs v) := by
          rw [hs]; exact (semCmd_right_inv C hC c h v).symm
        simp only [semCmd, hdg, if_true]
        conv_lhs => rw [hv]
        exact hinv _

/-- ranks strictly decrease along the templates -/
theorem decompose_rank (C : Consts K) (c : Cmd K) (seq : List (Cmd K)) (hd : decompose C c = some seq) :
    ∀ k ∈ seq, k.op.rank < c.op.rank := by
  obtain ⟨op, regs, dg⟩ := c
  unfold decompose at hd
  cases op <;> simp only [decompose1, reduceCtorEq] at hd
  all_goals
    split at hd <;> simp only [Option.some.injEq] at hd <;> subst hd <;> intro k hk <;>
      simp at hk <;> (rcases hk with rfl | rfl | rfl | rfl | rfl <;> simp [Op.rank, Cmd.flip])

end scalar

/-! ### mesh emission -/
section mesh
variable {A S : Type}

theorem semL_flatMap_congr {E : Type} (I : MCmd A → S → S) (f g : E → List (MCmd A)) (l : List E)
    (h : ∀ e ∈ l, ∀ s, semL I (f e) s = semL I (g e) s) (s : S) :
    semL I (l.flatMap f) s = semL I (l.flatMap g) s := by
  induction l generalizing s with
  | nil => rfl
  | cons e l ih =>
    simp only [List.flatMap_cons, semL_append]
    rw [h e (by simp) s]
    exact ih (fun e' he' => h e' (by simp [he'])) _

variable [DecidableEq A] [Neg A]

/-- **`drop_identity`** only removes commands that act as the identity: the emitted list with
`drop_identity=True` acts like the one with `drop_identity=False`, for all factor lists of every size -/
theorem interferometer_drop_identity (I : MCmd A → S → S) (zero : A) (clip mod2pi : A → A)
    (hR : ∀ rs s, I ⟨.R zero, rs⟩ s = s) (hBS : ∀ rs s, I ⟨.BS zero zero, rs⟩ s = s)
    (hneg : -zero = zero) (hmod : mod2pi zero = zero)
    (symmetric : Bool) (reg : List Nat) (BS1 : List (Nat × Nat × A × A)) (R : List (Option A))
    (BS2 : Option (List (Nat × Nat × A × A))) (s : S) :
    semL I (interferometerCmds zero clip mod2pi false true symmetric reg BS1 R BS2) s =
      semL I (interferometerCmds zero clip mod2pi false false symmetric reg BS1 R BS2) s := by
  simp only [interferometerCmds, Bool.not_false, Bool.true_or, if_true, semL_append]
  have h1 : ∀ s, semL I (BS1.flatMap (bs1Cmds zero clip mod2pi symmetric true reg)) s =
      semL I (BS1.flatMap (bs1Cmds zero clip mod2pi symmetric false reg)) s := fun s =>
    semL_flatMap_congr I _ _ BS1 (fun e _ s => by
      obtain ⟨n, m, θ, φ⟩ := e
      cases symmetric
      · by_cases h1 : clip φ = zero <;> by_cases h2 : clip θ = zero <;>
          simp [bs1Cmds, h1, h2, semL_append, hR, hBS]
      · simp [bs1Cmds]) s
  have h2 : ∀ s, semL I (phaseCmds zero mod2pi true reg R) s = semL I (phaseCmds zero mod2pi false reg R) s := fun s => by
    unfold phaseCmds
    exact semL_flatMap_congr I _ _ _ (fun e _ s => by
      obtain ⟨qo, n⟩ := e
      by_cases h : qo.getD zero = zero <;> simp [h, hmod, hR]) s
  rw [h1, h2]
  cases BS2 with
  | none => rfl
  | some l =>
    exact semL_flatMap_congr I _ _ _ (fun e _ s => by
      obtain ⟨n, m, θ, φ⟩ := e
      by_cases h1 : clip φ = zero <;> by_cases h2 : clip θ = zero <;>
        simp [bs2Cmds, h1, h2, semL_append, hR, hBS, hneg]) _

/-- without `drop_identity` the emitted list is, block by block, the documented factor order:
`T(θ,φ) = BS(θ,0)·R(φ)` for every entry of `BS1` in list order, then the local phases, then
`T⁻¹ = R(−φ)·BS(−θ,0)` for the entries of `BS2` in reverse order -/
theorem interferometer_cmds_structure (zero : A) (clip mod2pi : A → A) (identity : Bool) (reg : List Nat)
    (BS1 : List (Nat × Nat × A × A)) (R : List (Option A)) (BS2 : List (Nat × Nat × A × A)) :
    interferometerCmds zero clip mod2pi identity false false reg BS1 R (some BS2) =
      BS1.flatMap (fun e => [⟨.R (clip e.2.2.2), [rg reg e.1]⟩, ⟨.BS (clip e.2.2.1) zero, [rg reg e.1, rg reg e.2.1]⟩]) ++
      (R.zipIdx.map fun qn => ⟨.R (mod2pi (qn.1.getD zero)), [rg reg qn.2]⟩) ++
      BS2.reverse.flatMap (fun e => [⟨.BS (-(clip e.2.2.1)) zero, [rg reg e.1, rg reg e.2.1]⟩, ⟨.R (-(clip e.2.2.2)), [rg reg e.1]⟩]) := by
  simp only [interferometerCmds, Bool.not_false, Bool.or_true, if_true]
  have hp : phaseCmds zero mod2pi false reg R =
      R.zipIdx.map fun qn => ⟨.R (mod2pi (qn.1.getD zero)), [rg reg qn.2]⟩ := by
    unfold phaseCmds
    generalize R.zipIdx = l
    induction l with
    | nil => rfl
    | cons e l ih => obtain ⟨qo, n⟩ := e; simp only [List.flatMap_cons, List.map_cons, ih]; simp
  have h1 : bs1Cmds zero clip mod2pi false false reg = fun e =>
      [⟨.R (clip e.2.2.2), [rg reg e.1]⟩, ⟨.BS (clip e.2.2.1) zero, [rg reg e.1, rg reg e.2.1]⟩] := by
    funext e; obtain ⟨n, m, θ, φ⟩ := e; simp [bs1Cmds]
  have h2 : bs2Cmds zero clip false reg = fun e =>
      [⟨.BS (-(clip e.2.2.1)) zero, [rg reg e.1, rg reg e.2.1]⟩, ⟨.R (-(clip e.2.2.2)), [rg reg e.1]⟩] := by
    funext e; obtain ⟨n, m, θ, φ⟩ := e; simp [bs2Cmds]
  rw [hp, h1, h2]

/-- `_sun_compact_cmds` returns the build order reversed: the factor built last acts first -/
theorem sunCompact_go (half : A → A) (zero : A) (reg : List Nat) :
    ∀ (params : List ((Nat × Nat) × (A × A × A))) (acc : List (MCmd A)),
      (∀ p ∈ params, p.1.2 = p.1.1 + 1) →
      sunCompactCmds.go half zero reg params acc =
        some (acc ++ params.flatMap fun p => su2Cmds half zero reg p.1.1 p.1.2 p.2.1 p.2.2.1 p.2.2.2) := by
  intro params
  induction params with
  | nil => intro acc _; simp [sunCompactCmds.go]
  | cons p rest ih =>
    intro acc h
    obtain ⟨⟨md1, md2⟩, a, b, g⟩ := p
    have h1 : md2 = md1 + 1 := h ((md1, md2), a, b, g) (by simp)
    simp only [sunCompactCmds.go, h1, ne_eq, not_true_eq_false, if_false]
    rw [ih _ (fun p hp => h p (by simp [hp]))]
    simp [h1]

theorem sunCompact_order (half divn : A → A) (zero : A) (reg : List Nat)
    (params : List ((Nat × Nat) × (A × A × A))) (gp : Option A) (h : ∀ p ∈ params, p.1.2 = p.1.1 + 1) :
    ∃ built, sunCompactCmds half divn zero reg params gp = some built.reverse ∧
      built = (match gp with | some g => reg.map fun mode => ⟨.R (divn g), [mode]⟩ | none => []) ++
        params.flatMap fun p => su2Cmds half zero reg p.1.1 p.1.2 p.2.1 p.2.2.1 p.2.2.2 := by
  refine ⟨_, ?_, rfl⟩
  simp only [sunCompactCmds]
  rw [sunCompact_go half zero reg params _ h]
  rfl

end mesh

end SFV.Decompose
