import Mathlib.LinearAlgebra.Matrix.PosDef
import Mathlib.LinearAlgebra.Matrix.Trace
import Mathlib.Analysis.Complex.Basic

/-!
# Positivity and trace of the mixed-state Fock update rules (specification level)

`Circuit.apply_gate_BLAS` / `ops.apply_gate_einsum` on a density matrix compute `ρ ↦ U ρ U†` for the (truncated, hence in general
NOT unitary) matrix `U` of the gate; `Circuit.apply_channel` computes `ρ ↦ Σ_k E_k ρ E_k†`.  On the flattened index space of the
whole register both are matrix congruences, so positivity of the density matrix is preserved by *every* matrix `U` and every
Kraus list — no unitarity and no completeness is needed — while the trace is preserved exactly when `Σ_k E_k† E_k = 1` and can
only shrink when `Σ_k E_k† E_k ≤ 1` (truncated gates).  The tensor-level model (`SFV.Fock.applyAt1` on the row axis followed by
the conjugate on the column axis) is tied to these matrix forms by `SFV.Fock.herm_conj1` / the loss theorems of `Proofs/FockLoss`.
-/
namespace SFV.FockPos
open Matrix
open scoped ComplexOrder

set_option linter.unusedSectionVars false
variable {n : Type} [Fintype n] [DecidableEq n]

/-- `ρ ↦ U ρ U†` keeps a positive semidefinite matrix positive semidefinite, for every `U` -/
theorem gate_posSemidef (U ρ : Matrix n n ℂ) (hρ : ρ.PosSemidef) : (U * ρ * Uᴴ).PosSemidef :=
  hρ.mul_mul_conjTranspose_same U

/-- `ρ ↦ Σ_k E_k ρ E_k†` keeps a positive semidefinite matrix positive semidefinite, for every family `E` -/
theorem kraus_posSemidef {ι : Type} (s : Finset ι) (E : ι → Matrix n n ℂ) (ρ : Matrix n n ℂ) (hρ : ρ.PosSemidef) :
    (∑ k ∈ s, E k * ρ * (E k)ᴴ).PosSemidef :=
  posSemidef_sum s fun k _ => hρ.mul_mul_conjTranspose_same (E k)

/-- the trace of a Kraus map is the trace against `Σ_k E_k† E_k` -/
theorem kraus_trace {ι : Type} (s : Finset ι) (E : ι → Matrix n n ℂ) (ρ : Matrix n n ℂ) :
    (∑ k ∈ s, E k * ρ * (E k)ᴴ).trace = ((∑ k ∈ s, (E k)ᴴ * E k) * ρ).trace := by
  rw [trace_sum, Finset.sum_mul, trace_sum]
  refine Finset.sum_congr rfl fun k _ => ?_
  rw [Matrix.mul_assoc (E k) ρ, trace_mul_comm (E k), Matrix.mul_assoc ρ, trace_mul_comm ρ]

/-- a complete Kraus family preserves the trace -/
theorem kraus_trace_preserving {ι : Type} (s : Finset ι) (E : ι → Matrix n n ℂ) (ρ : Matrix n n ℂ)
    (hE : ∑ k ∈ s, (E k)ᴴ * E k = 1) : (∑ k ∈ s, E k * ρ * (E k)ᴴ).trace = ρ.trace := by
  rw [kraus_trace, hE, Matrix.one_mul]

/-- a gate whose matrix is unitary on the register space preserves the trace -/
theorem gate_trace_preserving (U ρ : Matrix n n ℂ) (hU : Uᴴ * U = 1) : (U * ρ * Uᴴ).trace = ρ.trace := by
  rw [Matrix.mul_assoc, trace_mul_comm, Matrix.mul_assoc, trace_mul_comm, hU, Matrix.one_mul]

/-- a pure state's density matrix `|ψ⟩⟨ψ|` is positive semidefinite (what `ops.mix` produces) -/
theorem pure_posSemidef (ψ : n → ℂ) : (Matrix.vecMulVec ψ (star ψ)).PosSemidef :=
  Matrix.posSemidef_vecMulVec_self_star ψ

/-- one update of the mixed-state Fock register on its flattened index space: a gate matrix or a list of Kraus matrices -/
inductive FOp (n : Type) where
  | gate (U : Matrix n n ℂ)
  | chan (E : List (Matrix n n ℂ))

/-- what the update does to the density matrix -/
noncomputable def FOp.act : FOp n → Matrix n n ℂ → Matrix n n ℂ
  | .gate U, ρ => U * ρ * Uᴴ
  | .chan E, ρ => (E.map fun K => K * ρ * Kᴴ).sum

/-- a whole program: the updates in order -/
noncomputable def runOps (ops : List (FOp n)) (ρ : Matrix n n ℂ) : Matrix n n ℂ := ops.foldl (fun r o => o.act r) ρ

theorem list_sum_posSemidef (l : List (Matrix n n ℂ)) (h : ∀ M ∈ l, M.PosSemidef) : l.sum.PosSemidef := by
  induction l with
  | nil => simpa using (PosSemidef.zero : (0 : Matrix n n ℂ).PosSemidef)
  | cons a l ih =>
    rw [List.sum_cons]
    exact (h a (by simp)).add (ih fun M hM => h M (by simp [hM]))

theorem act_posSemidef (o : FOp n) (ρ : Matrix n n ℂ) (hρ : ρ.PosSemidef) : (o.act ρ).PosSemidef := by
  cases o with
  | gate U => exact hρ.mul_mul_conjTranspose_same U
  | chan E =>
    refine list_sum_posSemidef _ fun M hM => ?_
    obtain ⟨K, _, rfl⟩ := List.mem_map.1 hM
    exact hρ.mul_mul_conjTranspose_same K

/-- **every program keeps the density matrix positive semidefinite**, whatever (truncated) gate matrices and Kraus lists it uses -/
theorem runOps_posSemidef (ops : List (FOp n)) (ρ : Matrix n n ℂ) (hρ : ρ.PosSemidef) : (runOps ops ρ).PosSemidef := by
  induction ops generalizing ρ with
  | nil => exact hρ
  | cons o ops ih => exact ih _ (act_posSemidef o ρ hρ)

/-- the trace after one update, when the update is complete (`U†U = 1`, `Σ E†E = 1`) -/
def FOp.complete : FOp n → Prop
  | .gate U => Uᴴ * U = 1
  | .chan E => (E.map fun K => Kᴴ * K).sum = 1

theorem list_kraus_trace (E : List (Matrix n n ℂ)) (ρ : Matrix n n ℂ) :
    (E.map fun K => K * ρ * Kᴴ).sum.trace = ((E.map fun K => Kᴴ * K).sum * ρ).trace := by
  induction E with
  | nil => simp
  | cons K E ih =>
    simp only [List.map_cons, List.sum_cons, trace_add, Matrix.add_mul, ih]
    congr 1
    rw [Matrix.mul_assoc K ρ, trace_mul_comm K, Matrix.mul_assoc ρ, trace_mul_comm ρ]

theorem act_trace (o : FOp n) (ho : o.complete) (ρ : Matrix n n ℂ) : (o.act ρ).trace = ρ.trace := by
  cases o with
  | gate U => exact gate_trace_preserving U ρ ho
  | chan E =>
    show (E.map fun K => K * ρ * Kᴴ).sum.trace = ρ.trace
    rw [list_kraus_trace, show (E.map fun K => Kᴴ * K).sum = 1 from ho, Matrix.one_mul]

/-- **a program of complete updates preserves the trace** -/
theorem runOps_trace (ops : List (FOp n)) (h : ∀ o ∈ ops, o.complete) (ρ : Matrix n n ℂ) : (runOps ops ρ).trace = ρ.trace := by
  induction ops generalizing ρ with
  | nil => rfl
  | cons o ops ih =>
    show (runOps ops (o.act ρ)).trace = ρ.trace
    rw [ih (fun o' ho' => h o' (by simp [ho'])), act_trace o (h o (by simp))]

/-! ### pure and mixed representation agree -/

/-- one gate: the density matrix of the updated ket is the updated density matrix, for every matrix `U` (unitary or truncated) -/
theorem pure_mixed_gate (U : Matrix n n ℂ) (ψ : n → ℂ) :
    Matrix.vecMulVec (U.mulVec ψ) (star (U.mulVec ψ)) = U * Matrix.vecMulVec ψ (star ψ) * Uᴴ := by
  rw [Matrix.star_mulVec, ← Matrix.mul_vecMulVec, ← Matrix.vecMulVec_mul, Matrix.mul_assoc]

/-- **a program of gates gives the same state in the pure and in the mixed representation**: running the gate matrices on the
ket and then forming `|ψ⟩⟨ψ|` equals running `ρ ↦ UρU†` on `|ψ⟩⟨ψ|` — any number of gates, any matrices -/
theorem pure_mixed_program (Us : List (Matrix n n ℂ)) (ψ : n → ℂ) :
    (let φ := Us.foldl (fun v U => U.mulVec v) ψ; Matrix.vecMulVec φ (star φ)) =
      runOps (Us.map FOp.gate) (Matrix.vecMulVec ψ (star ψ)) := by
  induction Us generalizing ψ with
  | nil => rfl
  | cons U Us ih =>
    simp only [List.foldl_cons, List.map_cons, runOps] at ih ⊢
    rw [ih (U.mulVec ψ), pure_mixed_gate]
    rfl

end SFV.FockPos
