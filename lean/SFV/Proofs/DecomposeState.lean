import SFV.Proofs.DecomposeDriver
import SFV.Proofs.Bridge
/-! C02: lift of the decomposition theorems from the quadrature vector to Gaussian states
`(μ, V)`: the mean transforms by the vector action itself, the covariance by the congruence with the
linear part (`linMap` of `SFV.Model.PhaseSpace`, which `Bridge.covMatrix_linMap` identifies with the
matrix congruence `X V Xᵀ`). -/
namespace SFV.Decompose
open SFV.Gauss

variable {K : Type} [CommRing K]

/-! ### composition of sparse row maps -/

def scaleRow (c : K) (l : List (Q × K)) : List (Q × K) := l.map fun t => (t.1, c * t.2)

/-- rows of `X₂ X₁` -/
def compRows (R2 R1 : Q → List (Q × K)) (u : Q) : List (Q × K) := (R2 u).flatMap fun t => scaleRow t.2 (R1 t.1)

theorem lsum_append (l1 l2 : List (Q × K)) (f : Q → K) : lsum (l1 ++ l2) f = lsum l1 f + lsum l2 f := by
  induction l1 with
  | nil => simp [lsum_nil]
  | cons t l ih => simp only [List.cons_append, lsum_cons, ih]; ring

theorem lsum_scaleRow (c : K) (l : List (Q × K)) (f : Q → K) : lsum (scaleRow c l) f = c * lsum l f := by
  induction l with
  | nil => simp [scaleRow, lsum_nil]
  | cons t l ih =>
    have : scaleRow c (t :: l) = (t.1, c * t.2) :: scaleRow c l := rfl
    rw [this, lsum_cons, lsum_cons, ih]; ring

theorem lsum_compRows (R2 R1 : Q → List (Q × K)) (u : Q) (f : Q → K) :
    lsum (compRows R2 R1 u) f = lsum (R2 u) fun w => lsum (R1 w) f := by
  unfold compRows
  induction R2 u with
  | nil => simp [lsum_nil]
  | cons t l ih => simp only [List.flatMap_cons, lsum_append, lsum_scaleRow, lsum_cons, ih]

theorem actRows_compRows (R2 R1 : Q → List (Q × K)) (v : Vec K) :
    actRows (compRows R2 R1) v = actRows R2 (actRows R1 v) := by
  funext u; exact lsum_compRows R2 R1 u v

theorem lsum_idRow (u : Q) (f : Q → K) : lsum (idRow u) f = f u := by simp [idRow, lsum]

theorem actRows_idRow (v : Vec K) : actRows (idRow : Q → List (Q × K)) v = v := by
  funext u; simp [actRows, lsum_idRow]

/-- symmetric covariance data -/
def SymXP (V : XP K) : Prop := (∀ i j, V.xx i j = V.xx j i) ∧ (∀ i j, V.pp i j = V.pp j i)

theorem linMap_congr (R R' : Q → List (Q × K)) (h : ∀ u f, lsum (R u) f = lsum (R' u) f) (V : XP K) :
    linMap R V = linMap R' V := by
  have h1 : ∀ u, lsum (R u) = lsum (R' u) := fun u => funext (h u)
  simp only [linMap, h1]

theorem covLin_symm (R : Q → List (Q × K)) (V : XP K) (hV : SymXP V) (a b : Q) : covLin R V a b = covLin R V b a := by
  simp only [covLin]
  rw [lsum_comm]
  congr 1; funext u; congr 1; funext v
  exact cov_symm V hV.1 hV.2 v u

theorem linMap_sym (R : Q → List (Q × K)) (V : XP K) (hV : SymXP V) : SymXP (linMap R V) :=
  ⟨fun i j => covLin_symm R V hV (i, false) (j, false), fun i j => covLin_symm R V hV (i, true) (j, true)⟩

theorem linMap_mean (R : Q → List (Q × K)) (V : XP K) (u : Q) : (linMap R V).mean u = lsum (R u) V.mean := by
  obtain ⟨i, b⟩ := u; cases b <;> rfl

/-- **two congruences compose to the congruence with the product** -/
theorem linMap_linMap (R2 R1 : Q → List (Q × K)) (V : XP K) (hV : SymXP V) :
    linMap R2 (linMap R1 V) = linMap (compRows R2 R1) V := by
  have hc : ∀ a b, (linMap R1 V).cov a b = covLin R1 V a b := linMap_cov R1 V hV.1 hV.2
  have key : ∀ a b : Q, (lsum (R2 a) fun u => lsum (R2 b) fun v => (linMap R1 V).cov u v) =
      lsum (compRows R2 R1 a) fun u => lsum (compRows R2 R1 b) fun v => V.cov u v := by
    intro a b
    simp only [hc, covLin, lsum_compRows]
    congr 1; funext u
    rw [lsum_comm]
  have hm : ∀ a : Q, lsum (R2 a) (linMap R1 V).mean = lsum (compRows R2 R1 a) V.mean := by
    intro a
    rw [lsum_compRows]; congr 1; funext w; exact linMap_mean R1 V w
  apply XP.eq_of_Eq
  refine ⟨fun i j => key (i, false) (j, false), fun i j => key (i, false) (j, true), fun i j => key (i, true) (j, true),
    fun i => hm (i, false), fun i => hm (i, true)⟩

theorem linMap_idRow (V : XP K) : linMap (idRow : Q → List (Q × K)) V = V := by
  apply XP.eq_of_Eq
  refine ⟨fun i j => ?_, fun i j => ?_, fun i j => ?_, fun i => ?_, fun i => ?_⟩ <;>
    simp [linMap, lsum_idRow, XP.cov, XP.mean]

/-! ### linear part of every command -/

/-- rows of the linear part `X` of the documented action (`idRow` for displacements and non-gates) -/
def linRows (C : Consts K) (c : Cmd K) : Q → List (Q × K) :=
  let rs := c.regs
  match c.op, c.dagger with
  | .Rg cc s, false => rotRows (rg rs 0) cc s
  | .Rg cc s, true => rotRows (rg rs 0) cc (-s)
  | .Sg ch sh cc s, false => squeezeRows (rg rs 0) cc s ch sh
  | .Sg ch sh cc s, true => squeezeRows (rg rs 0) cc s ch (-sh)
  | .BSg ct sn cc s, false => bsDocRows (rg rs 0) (rg rs 1) ct sn cc s
  | .BSg ct sn cc s, true => bsDocRows (rg rs 0) (rg rs 1) ct (-sn) cc s
  | .Pg t _ _ _, false => rows1 (rg rs 0) 1 0 (t + t) 1
  | .Pg t _ _ _, true => rows1 (rg rs 0) 1 0 (-(t + t)) 1
  | .CXg _ sh _ _, false => cxDocRows (rg rs 0) (rg rs 1) (-(sh + sh))
  | .CXg _ sh _ _, true => cxDocRows (rg rs 0) (rg rs 1) (sh + sh)
  | .CZg _ sh _ _, false => czDocRows (rg rs 0) (rg rs 1) (-(sh + sh))
  | .CZg _ sh _ _, true => czDocRows (rg rs 0) (rg rs 1) (sh + sh)
  | .S2g ch sh cc s, false => s2DocRows (rg rs 0) (rg rs 1) ch sh cc s
  | .S2g ch sh cc s, true => s2DocRows (rg rs 0) (rg rs 1) ch (-sh) cc s
  | .MZg ci si ce se, false => mzRows C (rg rs 0) (rg rs 1) ci si ce se
  | .MZg ci si ce se, true => mzInvRows C (rg rs 0) (rg rs 1) ci si ce se
  | .sMZg c1 s1 c2 s2, false => smzRows C (rg rs 0) (rg rs 1) c1 s1 c2 s2
  | .sMZg c1 s1 c2 s2, true => smzInvRows C (rg rs 0) (rg rs 1) c1 s1 c2 s2
  | .Fg, false => rotRows (rg rs 0) 0 1
  | .Fg, true => rotRows (rg rs 0) 0 (-1)
  | _, _ => idRow

/-- displacement gates (their linear part is the identity) -/
def Op.isDisp : Op K → Bool
  | .Dg .. => true | .Xg .. => true | .Zg .. => true
  | _ => false

/-- for every command that is not a displacement the vector action *is* its linear part -/
theorem linRows_act (C : Consts K) (c : Cmd K) (h : c.op.isDisp = false) (v : Vec K) :
    actRows (linRows C c) v = semCmd C c v := by
  obtain ⟨op, rs, dg⟩ := c
  cases op <;> cases dg <;> simp [Op.isDisp] at h <;>
    first
      | rfl
      | (simp only [linRows, semCmd, docAct, docActInv, actRows_idRow, Bool.false_eq_true, if_false, if_true, id])

/-- covariance (and mean) update by the linear part -/
def covStep (C : Consts K) (V : XP K) (c : Cmd K) : XP K := linMap (linRows C c) V
def covList (C : Consts K) (l : List (Cmd K)) (V : XP K) : XP K := l.foldl (covStep C) V

/-- rows of the product of the linear parts of a list (first command first) -/
def listRows (C : Consts K) (l : List (Cmd K)) (R0 : Q → List (Q × K)) : Q → List (Q × K) :=
  l.foldl (fun R c => compRows (linRows C c) R) R0

theorem covList_eq (C : Consts K) (l : List (Cmd K)) (R0 : Q → List (Q × K)) (V : XP K) (hV : SymXP V) :
    covList C l (linMap R0 V) = linMap (listRows C l R0) V := by
  induction l generalizing R0 with
  | nil => rfl
  | cons c l ih =>
    simp only [covList, listRows, List.foldl_cons, covStep]
    rw [linMap_linMap _ _ V hV]
    exact ih _

theorem listRows_act (C : Consts K) (l : List (Cmd K)) (hl : ∀ c ∈ l, c.op.isDisp = false)
    (R0 : Q → List (Q × K)) (v : Vec K) :
    actRows (listRows C l R0) v = semList C l (actRows R0 v) := by
  induction l generalizing R0 with
  | nil => rfl
  | cons c l ih =>
    simp only [listRows, List.foldl_cons, semList]
    have := ih (fun c' hc' => hl c' (by simp [hc'])) (compRows (linRows C c) R0)
    simp only [listRows, semList] at this
    rw [this, actRows_compRows, linRows_act C c (hl c (by simp))]

/-! ### the decomposition theorems on Gaussian states -/

theorem kids_not_disp (C : Consts K) (c : Cmd K) (hok : c.ok) (hnd : c.op.isDisp = false) (seq : List (Cmd K))
    (hd : decompose C c = some seq) : ∀ k ∈ seq, k.op.isDisp = false := by
  obtain ⟨op, regs, dg⟩ := c
  have hg : op.isGate = true := hok.2.1
  unfold decompose at hd
  cases op <;> simp only [decompose1, reduceCtorEq] at hd <;> simp [Op.isDisp] at hnd <;> simp [Op.isGate] at hg
  all_goals
    split at hd <;> simp only [Option.some.injEq] at hd <;> subst hd <;> intro k hk <;>
      simp at hk <;> (rcases hk with rfl | rfl | rfl | rfl | rfl <;> simp [Op.isDisp, Cmd.flip])

/-- **covariances**: the decomposition of every gate, daggered or not, transforms the covariance data by the same
congruence as the documented gate, for every symmetric `V`, register size and target choice -/
theorem decompose_cov (C : Consts K) (hC : C.ok) (c : Cmd K) (hok : c.ok) (seq : List (Cmd K))
    (hd : decompose C c = some seq) (V : XP K) (hV : SymXP V) : covList C seq V = covStep C V c := by
  cases hdisp : c.op.isDisp
  · -- linear gate: all members are linear, use the vector theorem
    have hk := kids_not_disp C c hok hdisp seq hd
    have hsem := (decompose_sem C hC c hok seq hd).2
    have h0 : covList C seq V = covList C seq (linMap idRow V) := by rw [linMap_idRow]
    rw [h0, covList_eq C seq idRow V hV]
    apply linMap_congr
    intro u f
    have h1 := congrFun (listRows_act C seq hk idRow f) u
    have h2 := congrFun (linRows_act C c hdisp f) u
    simp only [actRows] at h1 h2
    rw [h1, h2]
    rw [actRows_idRow]
    exact congrFun (hsem f) u
  · -- displacement gate: both sides are the identity congruence
    obtain ⟨op, regs, dg⟩ := c
    unfold decompose at hd
    cases op <;> simp [Op.isDisp] at hdisp <;> simp only [decompose1, reduceCtorEq] at hd
    all_goals
      split at hd <;> simp only [Option.some.injEq] at hd <;> subst hd <;> rfl

/-- Gaussian state update of one command: covariance by the congruence with the linear part, mean by the
(affine) vector action -/
def stateStep (C : Consts K) (V : XP K) (c : Cmd K) : XP K :=
  { covStep C V c with
    mx := fun i => semCmd C c V.mean (i, false)
    mp := fun i => semCmd C c V.mean (i, true) }

def stateList (C : Consts K) (l : List (Cmd K)) (V : XP K) : XP K := l.foldl (stateStep C) V

theorem mean_eta (v : Vec K) (W : XP K) :
    ({ W with mx := fun i => v (i, false), mp := fun i => v (i, true) } : XP K).mean = v := by
  funext ⟨i, b⟩; cases b <;> rfl

/-- same covariance data -/
def CovEq (V W : XP K) : Prop := V.xx = W.xx ∧ V.xp = W.xp ∧ V.pp = W.pp

theorem CovEq.cov {V W : XP K} (h : CovEq V W) : V.cov = W.cov := by
  funext ⟨i, a⟩ ⟨j, b⟩
  cases a <;> cases b <;> simp [XP.cov, h.1, h.2.1, h.2.2]

theorem covStep_covEq (C : Consts K) (c : Cmd K) {V W : XP K} (h : CovEq V W) : CovEq (covStep C V c) (covStep C W c) := by
  simp only [CovEq, covStep, linMap, h.cov]
  exact ⟨trivial, trivial, trivial⟩

theorem covList_covEq (C : Consts K) (l : List (Cmd K)) {V W : XP K} (h : CovEq V W) :
    CovEq (covList C l V) (covList C l W) := by
  induction l generalizing V W with
  | nil => exact h
  | cons c l ih => exact ih (covStep_covEq C c h)

theorem stateList_split (C : Consts K) (l : List (Cmd K)) (V : XP K) :
    stateList C l V = { covList C l V with
      mx := fun i => semList C l V.mean (i, false)
      mp := fun i => semList C l V.mean (i, true) } := by
  induction l generalizing V with
  | nil => cases V; rfl
  | cons c l ih =>
    simp only [stateList, List.foldl_cons] at ih ⊢
    rw [ih (stateStep C V c)]
    have hce : CovEq (stateStep C V c) (covStep C V c) := ⟨rfl, rfl, rfl⟩
    obtain ⟨h1, h2, h3⟩ := covList_covEq C l hce
    simp only [stateStep, mean_eta] at h1 h2 h3 ⊢
    simp only [covList, List.foldl_cons, semList] at h1 h2 h3 ⊢
    rw [XP.mk.injEq]
    exact ⟨h1, h2, h3, rfl, rfl⟩

/-- **Gaussian states**: mean and covariance after the decomposition = mean and covariance after the documented gate -/
theorem decompose_state (C : Consts K) (hC : C.ok) (c : Cmd K) (hok : c.ok) (seq : List (Cmd K))
    (hd : decompose C c = some seq) (V : XP K) (hV : SymXP V) : stateList C seq V = stateStep C V c := by
  rw [stateList_split, decompose_cov C hC c hok seq hd V hV]
  have hsem := (decompose_sem C hC c hok seq hd).2 V.mean
  simp only [stateStep, hsem]

/-! ### tie to the specification of C01 and the preparation `DisplacedSqueezed` -/

/-- the BSgate docstring rows are the `bsRows` of `SFV.Model.PhaseSpace` at `(−θ, −φ)` — the convention with
which the Gaussian back end calls its `beamsplitter` (C01 proves that simulator step equal to `linMap bsRows`) -/
theorem bsDocRows_spec (k l : Nat) (ct sn c s : K) (u : Q) (f : Q → K) :
    lsum (bsDocRows k l ct sn c s u) f = lsum (bsRows k l c (-s) ct (-sn) u) f := by
  obtain ⟨i, b⟩ := u
  by_cases hik : i = k
  · subst hik; cases b <;> simp [bsDocRows, bsRows, lsum] <;> ring
  · by_cases hil : i = l
    · subst hil; cases b <;> simp [bsDocRows, bsRows, lsum, hik] <;> ring
    · cases b <;> simp [bsDocRows, bsRows, lsum, idRow, hik, hil]

/-- the covariance step of the primitive gates is the independent phase-space calculation `applyXP` of C01 -/
theorem covStep_R (C : Consts K) (c s : K) (k : Nat) (V : XP K) :
    covStep C V ⟨.Rg c s, [k], false⟩ = applyXP V (.phase c s k) := rfl
theorem covStep_S (C : Consts K) (ch sh c s : K) (k : Nat) (V : XP K) :
    covStep C V ⟨.Sg ch sh c s, [k], false⟩ = applyXP V (.squeeze c s ch sh k) := rfl
theorem covStep_BS (C : Consts K) (ct sn c s : K) (k l : Nat) (V : XP K) :
    covStep C V ⟨.BSg ct sn c s, [k, l], false⟩ = applyXP V (.bs c (-s) ct (-sn) k l) :=
  linMap_congr _ _ (fun u f => bsDocRows_spec k l ct sn c s u f) V

/-- the documented state of a preparation on mode `k`: block `[[a, b], [b, d]]`, mean `(mx, mp)`, no correlation
with the other modes, which keep their reduced state -/
def prepMode (V : XP K) (k : Nat) (a b d mx mp : K) : XP K :=
  { xx := fun i j => if i = k ∧ j = k then a else if i = k ∨ j = k then 0 else V.xx i j
    xp := fun i j => if i = k ∧ j = k then b else if i = k ∨ j = k then 0 else V.xp i j
    pp := fun i j => if i = k ∧ j = k then d else if i = k ∨ j = k then 0 else V.pp i j
    mx := fun i => if i = k then mx else V.mx i
    mp := fun i => if i = k then mp else V.mp i }

/-- what the template `[Squeezed(r_s, φ_s), Dgate(r_d, φ_d)]` does to the state: reset mode `k` to vacuum, squeeze,
displace (`applyXP` steps of C01: `initThermal 0`, `squeeze`, `displace`) -/
def dsqTemplateState (C : Consts K) (V : XP K) (k : Nat) (r c s ch sh c2 s2 : K) : XP K :=
  shift (linMap (squeezeRows k c2 s2 ch sh) (addNoise (linMap (lossRows k 0) V) k 1)) k (C.h * (r * c)) (C.h * (r * s))

/-- **`DisplacedSqueezed`**: its template prepares the documented state `D(α) S(z) |0⟩` — covariance block
`R(φ/2) diag(e^{−2r}, e^{2r}) R(φ/2)ᵀ = [[cosh 2r − cos φ sinh 2r, −sin φ sinh 2r], [·, cosh 2r + cos φ sinh 2r]]`
(with `cosh 2r = ch² + sh²`, `sinh 2r = 2 ch sh`), mean `√(2ħ) (Re α, Im α)`, product with the rest -/
theorem displacedSqueezed_doc (C : Consts K) (V : XP K) (k : Nat) (r c s ch sh c2 s2 : K)
    (hcs : c2 * c2 + s2 * s2 = 1) :
    dsqTemplateState C V k r c s ch sh c2 s2 =
      prepMode V k ((ch * ch + sh * sh) - c2 * (2 * ch * sh)) (-(s2 * (2 * ch * sh)))
        ((ch * ch + sh * sh) + c2 * (2 * ch * sh)) (C.h * (r * c)) (C.h * (r * s)) := by
  apply XP.eq_of_Eq
  refine ⟨fun i j => ?_, fun i j => ?_, fun i j => ?_, fun i => ?_, fun i => ?_⟩
  all_goals by_cases hi : i = k
  all_goals (first | (by_cases hj : j = k) | skip)
  all_goals
    simp [dsqTemplateState, prepMode, shift, linMap, addNoise, squeezeRows, lossRows, rows1, idRow, lsum, XP.cov, XP.mean, *] <;>
      grind

end SFV.Decompose
