import SFV.Model.IoCode
import SFV.Proofs.IoIR
/-! Lemmas for the `generate_code` model: executing the printed code rebuilds the program. -/
namespace SFV.Io

/-- the number a printed number denotes (`genNum` prints a literal or a multiple of `np.pi`) -/
def denSc (s : Sc) : Sc := (denNum (genNum s)).getD s

theorem denNum_genNum (s : Sc) : denNum (genNum s) = some (denSc s) := by
  unfold denSc genNum
  cases scRat s with
  | none => rfl
  | some q =>
    simp only
    cases piMultiple q with
    | none => rfl
    | some m => rfl

/-- a parameter as the executed code has it -/
def Val.den : Val → Val
  | .sc s => .sc (denSc s)
  | v => v

/-- parameters `generate_code` prints as valid code: numbers and (TDM, `k` arrays) the loop variables -/
def CodeVal (tdm : Bool) (k : Nat) : Val → Prop
  | .sc _ => True
  | .sym e => tdm = true ∧ ∃ i, i < k ∧ e = loopSym i
  | _ => False

theorem code_val_rt {tdm : Bool} {k : Nat} {v : Val} (h : CodeVal tdm k v) :
    denArg k (genArg tdm v) = .ok v.den := by
  cases v with
  | sc s =>
    have := denNum_genNum s
    simp only [genArg, Val.den]
    unfold denArg
    cases hg : genNum s with
    | lit x => simp only [hg] at this ⊢; rw [this]
    | piMul c d => simp only [hg] at this ⊢; rw [this]
    | loopIdx i => rw [hg] at this; cases this
    | text x => rw [hg] at this; cases this
    | other => rw [hg] at this; cases this
  | sym e =>
    obtain ⟨rfl, i, hi, rfl⟩ := h
    simp [genArg, loopSym_loop, denArg, hi, Val.den]
  | str s => cases h
  | lst l => cases h
  | arr sh d => cases h
  | rrt e => cases h
  | pname i => cases h

/-- commands `generate_code` prints as code that rebuilds them -/
def CmdCode (tdm : Bool) (k : Nat) (c : Cmd) : Prop :=
  SFV.Gen.ioClassNames.contains c.cls = true ∧ c.kw = [] ∧ OptSel c.select ∧ OptSel c.dark ∧
  ((c.cls = "Fouriergate" ∧ c.pars = [halfPi]) ∨ (c.cls ≠ "Fouriergate" ∧ ∀ v ∈ c.pars, CodeVal tdm k v))

def Cmd.den (c : Cmd) : Cmd := { c with pars := c.pars.map Val.den }

theorem halfPi_den : halfPi.den = halfPi := by decide +kernel

theorem code_line_rt {tdm : Bool} {k : Nat} {c : Cmd} (h : CmdCode tdm k c) :
    evalLine k (genLine tdm c) = .ok c.den := by
  obtain ⟨cls, regs, pars, dagger, select, dark, kw⟩ := c
  obtain ⟨_, hkw, hs, hd, h⟩ := h
  simp only at hkw hs hd h
  subst hkw
  rcases h with ⟨rfl, rfl⟩ | ⟨hF, hv⟩
  · simp only [evalLine, genLine, ctorParams, ↓reduceIte, List.map_nil, List.mapM_nil, bind, Except.bind, pure,
      Except.pure]
    have hb : build "Fouriergate" regs [] (optKw "select" select ++ optKw "dark_counts" dark) dagger =
        .ok { cls := "Fouriergate", regs := regs, pars := [halfPi], dagger := dagger, select := select,
              dark := dark, kw := [] } := by
      obtain ⟨_, _, _, h5, h6, h7⟩ := kw_facts (fun _ => none) false 0 select dark hs hd
      unfold build
      rw [if_neg (fun h => h.2 rfl), h7]
      simp only [Bool.false_eq_true, ↓reduceIte, h5, h6]
    rw [hb]
    simp only [Cmd.den, List.map_cons, List.map_nil, halfPi_den]
  · have hm := mapM_map_ok (genArg tdm) (denArg k) Val.den pars (fun v hv' => code_val_rt (hv v hv'))
    simp only [evalLine, genLine, ctorParams, if_neg hF, hm, bind, Except.bind]
    rw [build_ok hF hs hd]
    rfl

/-- what executing the generated code builds: the program without name / target / options, its numbers
replaced by what their printed forms denote -/
def codeNorm (p : Prog) : Prog :=
  { name := "", n := p.n,
    tdm := p.tdm.map fun t => ({ N := t.N, params := t.params.map (fun row => row.map denSc) } : Tdm)
    cmds := p.cmds.map Cmd.den }

/-- the numeric fragment of `generate_code` -/
def ExprCode (p : Prog) : Prop := ∀ c ∈ p.cmds, CmdCode p.tdm.isSome (loopCount p) c

theorem code_prog_rt (p : Prog) (h : ExprCode p) : evalCode (genCode p) = .ok (codeNorm p) := by
  obtain ⟨name, n, target, shots, cutoff, tdm, extra, cmds⟩ := p
  simp only [ExprCode] at h
  have hrow : ∀ row : List Sc, denRow (row.map genNum) = .ok (row.map denSc) := by
    intro row
    exact mapM_map_ok genNum _ denSc row (fun s _ => by simp only [denNum_genNum])
  have hlen : (genCtx ⟨name, n, target, shots, cutoff, tdm, extra, cmds⟩).length =
      loopCount ⟨name, n, target, shots, cutoff, tdm, extra, cmds⟩ := by
    cases tdm <;> simp [loopCount, genCtx]
  have hlines := mapM_map_ok (genLine tdm.isSome)
    (evalLine (loopCount ⟨name, n, target, shots, cutoff, tdm, extra, cmds⟩)) Cmd.den cmds
    (fun c hc => code_line_rt (h c hc))
  simp only [evalCode, genCode, hlen, hlines, bind, Except.bind]
  cases tdm with
  | none => rfl
  | some t =>
    have hctx := mapM_map_ok (fun row : List Sc => row.map genNum) denRow (fun row => row.map denSc) t.params
      (fun row _ => hrow row)
    simp only [genCtx, hctx]
    rfl

end SFV.Io
