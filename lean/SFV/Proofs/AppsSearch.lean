import SFV.Proofs.AppsSubgraph
import Mathlib.Algebra.Order.Ring.Unbundled.Rat

/-!
# K6 — subgraph.py: invariants of the dictionary returned by `search`
-/
namespace SFV.Apps

/-! ## a sorted duplicate-free node list is its own normal form -/

theorem srch_distinct_of_nodup : ∀ {l : List Nat}, l.Nodup → distinct l = l
  | [], _ => rfl
  | x :: xs, h => by
    have hx := List.nodup_cons.mp h
    simp only [distinct]
    rw [srch_distinct_of_nodup hx.2]
    congr 1
    rw [List.filter_eq_self]
    intro a ha
    have : a ≠ x := fun hax => hx.1 (hax ▸ ha)
    simpa using this

theorem srch_sortAsc_of_sorted : ∀ {l : List Nat}, l.Pairwise (· ≤ ·) → sortAsc l = l
  | [], _ => rfl
  | x :: xs, h => by
    have hx := List.pairwise_cons.mp h
    show insertAsc x (sortAsc xs) = x :: xs
    rw [srch_sortAsc_of_sorted hx.2]
    cases xs with
    | nil => rfl
    | cons y ys =>
      unfold insertAsc
      rw [if_pos (hx.1 y (by simp))]

theorem srch_normal {T : List Nat} (hnd : T.Nodup) (hs : T.Pairwise (· ≤ ·)) :
    sortAsc (distinct T) = T := by
  rw [srch_distinct_of_nodup hnd, srch_sortAsc_of_sorted hs]

/-! ## per-entry and per-list predicates -/

def srch_TOK (g : Graph) (size : Nat) (t : Rat × List Nat) : Prop :=
  t.1 = density g t.2 ∧ t.2.length = size ∧ t.2.Nodup ∧ t.2.Pairwise (· ≤ ·) ∧ ∀ v ∈ t.2, v ∈ g.nodes

def srch_LOK (g : Graph) (maxCount size : Nat) (l : List (Rat × List Nat)) : Prop :=
  SortedDesc l ∧ NoDupSets l ∧ l.length ≤ max maxCount 1 ∧ ∀ t ∈ l, srch_TOK g size t

theorem srch_updateList_ok {g : Graph} {maxCount size : Nat} {l : List (Rat × List Nat)}
    {t : Rat × List Nat} (coin : Bool) (hl : srch_LOK g maxCount size l) (ht : srch_TOK g size t) :
    srch_LOK g maxCount size (updateList l t maxCount coin).1 := by
  obtain ⟨h1, h2, h3, h4⟩ := hl
  refine ⟨updateList_sorted t maxCount coin h1, updateList_nodup t maxCount coin h2, ?_, ?_⟩
  · have := updateList_length l t maxCount coin
    omega
  · intro e he
    rcases updateList_subset l t maxCount coin e he with h | h
    · exact h4 e h
    · obtain ⟨a, b, c, d, e'⟩ := ht
      rw [srch_normal c d] at h
      subst h
      exact ⟨a, b, c, d, e'⟩

theorem srch_updateList_ne_nil {l : List (Rat × List Nat)} (t : Rat × List Nat) (maxCount : Nat)
    (coin : Bool) (hl : l ≠ []) : (updateList l t maxCount coin).1 ≠ [] := by
  have hse : ∀ l' : List (Rat × List Nat), sortEntries (l' ++ [(t.1, sortAsc (distinct t.2))]) ≠ [] := by
    intro l' h
    have := (sub_sortEntries_perm (l' ++ [(t.1, sortAsc (distinct t.2))])).length_eq
    rw [h] at this
    simp at this
  rcases sub_updateList_cases l t maxCount coin with ⟨-, hr⟩ | ⟨-, ⟨-, hr⟩ | ⟨-, -, hr⟩ |
    ⟨last, -, -, ⟨-, hr⟩ | ⟨-, hr⟩ | ⟨-, hr⟩⟩⟩ <;> rw [hr]
  · exact hl
  · exact hse l
  · exact hl
  · intro h
    have h1 : (sortEntries (l ++ [(t.1, sortAsc (distinct t.2))])).dropLast.length = l.length := by
      rw [List.length_dropLast, (sub_sortEntries_perm _).length_eq]; simp
    rw [h] at h1
    exact hl (List.eq_nil_of_length_eq_zero h1.symm)
  · exact hse _
  · exact hl

/-! ## the dictionary invariant -/

/-- what holds for every dictionary `search` can return -/
def DenseOK (g : Graph) (minS maxS maxCount : Nat) (d : Dense) : Prop :=
  (d.map (·.1)).Nodup ∧
  ∀ e ∈ d, minS ≤ e.1 ∧ e.1 ≤ maxS ∧
    SortedDesc e.2 ∧ NoDupSets e.2 ∧ e.2.length ≤ max maxCount 1 ∧
    ∀ t ∈ e.2, t.1 = density g t.2 ∧ t.2.length = e.1 ∧ t.2.Nodup ∧ t.2.Pairwise (· ≤ ·) ∧ ∀ v ∈ t.2, v ∈ g.nodes

/-- `DenseOK` plus: no per-size list is empty -/
def srch_Inv (g : Graph) (minS maxS maxCount : Nat) (d : Dense) : Prop :=
  (d.map (·.1)).Nodup ∧ ∀ e ∈ d, minS ≤ e.1 ∧ e.1 ≤ maxS ∧ srch_LOK g maxCount e.1 e.2 ∧ e.2 ≠ []

theorem srch_Inv_DenseOK {g : Graph} {minS maxS maxCount : Nat} {d : Dense}
    (h : srch_Inv g minS maxS maxCount d) : DenseOK g minS maxS maxCount d :=
  ⟨h.1, fun e he => ⟨(h.2 e he).1, (h.2 e he).2.1, (h.2 e he).2.2.1⟩⟩

theorem srch_LOK_singleton {g : Graph} {maxCount size : Nat} {t : Rat × List Nat} (ht : srch_TOK g size t) :
    srch_LOK g maxCount size [t] := by
  refine ⟨by simp [SortedDesc], by simp [NoDupSets], by simp, ?_⟩
  intro e he
  rw [List.mem_singleton] at he
  exact he ▸ ht

theorem srch_updateDict1 {g : Graph} {minS maxS maxCount : Nat} {d : Dense} (pick : Pick) (step : Nat)
    {size : Nat} {t : Rat × List Nat} (hInv : srch_Inv g minS maxS maxCount d)
    (h1 : minS ≤ size) (h2 : size ≤ maxS) (ht : srch_TOK g size t) :
    srch_Inv g minS maxS maxCount (updateDict1 d size t maxCount pick step).1 ∧
    (∀ s, s ∈ d.map (·.1) → s ∈ (updateDict1 d size t maxCount pick step).1.map (·.1)) ∧
    size ∈ (updateDict1 d size t maxCount pick step).1.map (·.1) := by
  unfold updateDict1
  split
  · rename_i hf
    have hnone : ∀ e ∈ d, e.1 ≠ size := by
      intro e he
      have := List.find?_eq_none.mp hf e he
      simpa using this
    simp only []
    refine ⟨⟨?_, ?_⟩, ?_, ?_⟩
    · rw [List.map_append, List.nodup_append]
      refine ⟨hInv.1, by simp, ?_⟩
      intro a ha b hb
      obtain ⟨e, he, rfl⟩ := List.mem_map.mp ha
      have : b = size := by simpa using hb
      rw [this]
      exact hnone e he
    · intro e he
      rcases List.mem_append.mp he with he | he
      · exact hInv.2 e he
      · rw [List.mem_singleton] at he
        subst he
        exact ⟨h1, h2, srch_updateList_ok _ (srch_LOK_singleton ht) ht,
          srch_updateList_ne_nil _ _ _ (by simp)⟩
    · intro s hs
      rw [List.map_append]
      exact List.mem_append_left _ hs
    · simp
  · rename_i k l hf
    have hmem : (k, l) ∈ d := List.mem_of_find?_eq_some hf
    have hk : k = size := by simpa using List.find?_some hf
    subst hk
    obtain ⟨-, -, hl, hlne⟩ := hInv.2 _ hmem
    simp only []
    have hkeys : (d.map (fun e => if e.1 == k then
        (k, (updateList l t maxCount (pick step 2 == 1)).1) else e)).map (·.1) = d.map (·.1) := by
      rw [List.map_map]
      apply List.map_congr_left
      intro e _
      simp only [Function.comp]
      split
      · rename_i h; exact (by simpa using h : e.1 = k).symm
      · rfl
    refine ⟨⟨?_, ?_⟩, ?_, ?_⟩
    · rw [hkeys]; exact hInv.1
    · intro e' he'
      obtain ⟨e, he, rfl⟩ := List.mem_map.mp he'
      split
      · exact ⟨h1, h2, srch_updateList_ok _ hl ht, srch_updateList_ne_nil _ _ _ hlne⟩
      · exact hInv.2 e he
    · intro s hs; rw [hkeys]; exact hs
    · rw [hkeys]; exact List.mem_map.mpr ⟨(k, l), hmem, rfl⟩

theorem srch_updateDict {g : Graph} {minS maxS maxCount : Nat} (pick : Pick) :
    ∀ (r : List (Nat × Rat × List Nat)) (d : Dense) (step : Nat), srch_Inv g minS maxS maxCount d →
      (∀ e ∈ r, minS ≤ e.1 ∧ e.1 ≤ maxS ∧ srch_TOK g e.1 e.2) →
      srch_Inv g minS maxS maxCount (updateDict d r maxCount pick step).1 ∧
      (∀ s, s ∈ d.map (·.1) → s ∈ (updateDict d r maxCount pick step).1.map (·.1)) ∧
      (∀ e ∈ r, e.1 ∈ (updateDict d r maxCount pick step).1.map (·.1)) := by
  intro r
  induction r with
  | nil =>
    intro d step hInv _
    exact ⟨hInv, fun s hs => hs, by simp⟩
  | cons x xs ih =>
    intro d step hInv hr
    obtain ⟨hx1, hx2, hx3⟩ := hr x (by simp)
    obtain ⟨hI, hK, hN⟩ := srch_updateDict1 pick step hInv hx1 hx2 hx3
    have hstep : updateDict d (x :: xs) maxCount pick step =
        updateDict (updateDict1 d x.1 x.2 maxCount pick step).1 xs maxCount pick
          (updateDict1 d x.1 x.2 maxCount pick step).2 := rfl
    rw [hstep]
    obtain ⟨hI', hK', hN'⟩ := ih _ (updateDict1 d x.1 x.2 maxCount pick step).2 hI
      (fun e he => hr e (List.mem_cons_of_mem _ he))
    refine ⟨hI', fun s hs => hK' s (hK s hs), ?_⟩
    intro e he
    rcases List.mem_cons.mp he with rfl | he
    · exact hK' _ hN
    · exact hN' e he

/-! ## `resizeFrom` at an arbitrary start step -/

theorem srch_resizeFrom_spec {g : Graph} (hn : g.nodes.Nodup) {pick : Pick} (hp : sub_Lawful pick)
    {sub : List Nat} {minS maxS : Nat} {sel : Sel} {step0 : Nat} {r : List (Nat × List Nat) × Nat}
    (h : resizeFrom g sub minS maxS sel pick step0 = .ok r) :
    (∀ s, minS ≤ s → s ≤ maxS → s ∈ r.1.map (·.1)) ∧
    (∀ e ∈ r.1, sub_EntryOK g (g.nodes.filter fun v => sub.contains v) minS maxS e) := by
  cases hv : validateResize g sub minS maxS sel with
  | error e =>
    rw [sub_resizeFrom_error _ _ _ _ _ _ _ _ hv] at h
    cases h
  | ok ws =>
    rw [sub_resizeFrom_ok _ _ _ _ _ _ _ _ hv] at h
    obtain ⟨hsubn, hmin1, hmaxn, hmm, -⟩ := (sub_validate_ok_iff _ _ _ _ _ _).mp hv
    have hS0nd : (g.nodes.filter fun v => sub.contains v).Nodup := hn.filter _
    have hS0n : ∀ v ∈ (g.nodes.filter fun v => sub.contains v), v ∈ g.nodes :=
      fun v hv => (List.mem_filter.mp hv).1
    have hS0len : (g.nodes.filter fun v => sub.contains v).length ≤ g.nodes.length :=
      List.length_filter_le _ _
    generalize (g.nodes.filter fun v => sub.contains v) = S0 at h hS0nd hS0n hS0len ⊢
    generalize hacc0 : (if minS ≤ S0.length ∧ S0.length ≤ maxS then [(S0.length, sortAsc S0)] else []) = acc0
      at h
    obtain ⟨extG, hG, hGk, hGok⟩ := sub_resizeGrow_spec hn hp ws S0 minS maxS hmaxn
      (g.nodes.length + 1) step0 S0 acc0 (by omega) hS0nd hS0n (fun v hv => hv) (Nat.le_refl _)
    obtain ⟨extS, hS, hSk, hSok⟩ := sub_resizeShrink_spec g hp ws S0 minS maxS hS0n (S0.length + 1)
      (resizeGrow g ws pick minS maxS (g.nodes.length + 1) step0 S0 acc0).2 S0
      (resizeGrow g ws pick minS maxS (g.nodes.length + 1) step0 S0 acc0).1 (by omega) hS0nd
      (fun v hv => hv) (Nat.le_refl _)
    have hr : r.1 = acc0 ++ extG ++ extS := by
      rw [← hG, ← hS]
      injection h with h
      rw [← h]
    have hkeys : r.1.map (·.1) = acc0.map (·.1) ++ extG.map (·.1) ++ extS.map (·.1) := by
      rw [hr]; simp
    have hk0 : acc0.map (·.1) = if minS ≤ S0.length ∧ S0.length ≤ maxS then [S0.length] else [] := by
      rw [← hacc0]; split <;> rfl
    have hmG : ∀ s, s ∈ extG.map (·.1) ↔ (S0.length < s ∧ s ≤ maxS ∧ minS ≤ s) := by
      intro s; rw [hGk]; simp [List.mem_filter, List.mem_range'_1]; omega
    have hmS : ∀ s, s ∈ extS.map (·.1) ↔ (minS ≤ s ∧ s < S0.length ∧ s ≤ maxS) := by
      intro s; rw [hSk]; simp [List.mem_filter, List.mem_range'_1]; omega
    have hm0 : ∀ s, s ∈ acc0.map (·.1) ↔ (s = S0.length ∧ minS ≤ s ∧ s ≤ maxS) := by
      intro s; rw [hk0]
      by_cases hc : minS ≤ S0.length ∧ S0.length ≤ maxS
      · rw [if_pos hc]; simp; omega
      · rw [if_neg hc]; simp; omega
    refine ⟨?_, ?_⟩
    · intro s h1 h2
      rw [hkeys, List.mem_append, List.mem_append, hm0, hmG, hmS]
      omega
    · intro e he
      rw [hr] at he
      rcases List.mem_append.mp he with he | he
      · rcases List.mem_append.mp he with he | he
        · rw [← hacc0] at he
          by_cases hc : minS ≤ S0.length ∧ S0.length ≤ maxS
          · rw [if_pos hc, List.mem_singleton] at he
            subst he
            exact sub_entryOK_of_set g S0 minS maxS S0 hc.1 hc.2 hS0nd hS0n (fun _ v hv => hv)
              (fun _ v hv => hv)
          · rw [if_neg hc] at he; cases he
        · exact hGok e he
      · exact hSok e he

/-! ## `searchFrom` / `search` -/

theorem srch_searchFrom_cons (g : Graph) (minS maxS maxCount : Nat) (sel : Sel) (pick : Pick)
    (s : List Nat) (rest : List (List Nat)) (d : Dense) (step : Nat) (r : List (Nat × List Nat)) (step' : Nat)
    (hr : resizeFrom g s minS maxS sel pick step = .ok (r, step')) :
    searchFrom g minS maxS maxCount sel pick (s :: rest) d step =
      searchFrom g minS maxS maxCount sel pick rest
        (updateDict d (r.map fun e => (e.1, density g e.2, e.2)) maxCount pick step').1
        (updateDict d (r.map fun e => (e.1, density g e.2, e.2)) maxCount pick step').2 := by
  simp only [searchFrom, hr]

theorem srch_searchFrom {g : Graph} (hn : g.nodes.Nodup) {pick : Pick} (hp : sub_Lawful pick)
    {minS maxS maxCount : Nat} {sel : Sel} :
    ∀ (subs : List (List Nat)) (d : Dense) (step : Nat) (d' : Dense), srch_Inv g minS maxS maxCount d →
      searchFrom g minS maxS maxCount sel pick subs d step = .ok d' →
      srch_Inv g minS maxS maxCount d' ∧
      (∀ s, s ∈ d.map (·.1) → s ∈ d'.map (·.1)) ∧
      (subs ≠ [] → ∀ s, minS ≤ s → s ≤ maxS → s ∈ d'.map (·.1)) := by
  intro subs
  induction subs with
  | nil =>
    intro d step d' hInv h
    simp only [searchFrom] at h
    injection h with h
    subst h
    exact ⟨hInv, fun s hs => hs, fun h => absurd rfl h⟩
  | cons s rest ih =>
    intro d step d' hInv h
    cases hr : resizeFrom g s minS maxS sel pick step with
    | error e =>
      simp only [searchFrom, hr] at h
      cases h
    | ok p =>
      obtain ⟨r, step'⟩ := p
      rw [srch_searchFrom_cons g minS maxS maxCount sel pick s rest d step r step' hr] at h
      obtain ⟨hcov, hok⟩ := srch_resizeFrom_spec hn hp hr
      have hr' : ∀ e ∈ (r.map fun e => (e.1, density g e.2, e.2)),
          minS ≤ e.1 ∧ e.1 ≤ maxS ∧ srch_TOK g e.1 e.2 := by
        intro e he
        obtain ⟨e0, he0, rfl⟩ := List.mem_map.mp he
        obtain ⟨a1, a2, a3, a4, a5, a6, -, -⟩ := hok e0 he0
        exact ⟨a1, a2, rfl, a3, a4, a5, a6⟩
      obtain ⟨hI, hK, hN⟩ := srch_updateDict pick _ d step' hInv hr'
      obtain ⟨hI', hK', -⟩ := ih _ _ d' hI h
      refine ⟨hI', fun s hs => hK' s (hK s hs), ?_⟩
      intro _ s h1 h2
      apply hK'
      obtain ⟨e0, he0, hes⟩ := List.mem_map.mp (hcov s h1 h2)
      have := hN (e0.1, density g e0.2, e0.2) (List.mem_map.mpr ⟨e0, he0, rfl⟩)
      rw [← hes]
      exact this

theorem srch_Inv_nil (g : Graph) (minS maxS maxCount : Nat) : srch_Inv g minS maxS maxCount [] :=
  ⟨by simp, by simp⟩

theorem search_spec {g : Graph} (hn : g.nodes.Nodup) {pick : Pick} (hp : sub_Lawful pick) {subs : List (List Nat)}
    {minS maxS maxCount : Nat} {sel : Sel} {d : Dense} (h : search g subs minS maxS maxCount sel pick = .ok d) :
    DenseOK g minS maxS maxCount d :=
  srch_Inv_DenseOK (srch_searchFrom hn hp subs [] 0 d (srch_Inv_nil g minS maxS maxCount) h).1

/-- with at least one seed subgraph, every requested size has a non-empty list -/
theorem search_covers {g : Graph} (hn : g.nodes.Nodup) {pick : Pick} (hp : sub_Lawful pick) {subs : List (List Nat)}
    {minS maxS maxCount : Nat} {sel : Sel} {d : Dense} (hne : subs ≠ [])
    (h : search g subs minS maxS maxCount sel pick = .ok d) :
    ∀ s, minS ≤ s → s ≤ maxS → ∃ l, (s, l) ∈ d ∧ l ≠ [] := by
  intro s h1 h2
  obtain ⟨hI, -, hC⟩ := srch_searchFrom hn hp subs [] 0 d (srch_Inv_nil g minS maxS maxCount) h
  obtain ⟨e, he, hes⟩ := List.mem_map.mp (hC hne s h1 h2)
  refine ⟨e.2, ?_, (hI.2 e he).2.2.2⟩
  have : (s, e.2) = e := by rw [← hes]
  rw [this]; exact he

end SFV.Apps
