import SFV.Model.FockTensor
import Mathlib.Algebra.BigOperators.Group.Finset.Basic
import Mathlib.Algebra.BigOperators.Group.Finset.Piecewise
import Mathlib.Algebra.BigOperators.Intervals
import Mathlib.Algebra.BigOperators.Ring.Finset
import Mathlib.Algebra.Ring.Int.Defs
import Mathlib.Tactic.Ring
import Mathlib.Data.List.GetD

/-! Lemmas for K4: transposition algebra, equivariance of embedded operators, selection-rule
kernels equal the full contraction. -/
namespace SFV.Fock
open Finset

variable {K : Type}

/-- validity of an index assignment for cutoff `D` -/
def Valid (D : Nat) (idx : Idx) : Prop := ∀ a, idx a < D

/-- two tensors agree on every valid index -/
def EqOn (D : Nat) (ψ φ : Tens K) : Prop := ∀ idx, Valid D idx → ψ idx = φ idx

theorem EqOn.refl (D : Nat) (ψ : Tens K) : EqOn D ψ ψ := fun _ _ => rfl
theorem EqOn.symm {D : Nat} {ψ φ : Tens K} (h : EqOn D ψ φ) : EqOn D φ ψ := fun i hi => (h i hi).symm
theorem EqOn.trans {D : Nat} {ψ φ χ : Tens K} (h : EqOn D ψ φ) (h' : EqOn D φ χ) : EqOn D ψ χ :=
  fun i hi => (h i hi).trans (h' i hi)

theorem valid_upd {D : Nat} {idx : Idx} (h : Valid D idx) (p : Nat) {a : Nat} (ha : a < D) :
    Valid D (upd idx p a) := by
  intro x; unfold upd; split <;> [exact ha; exact h x]

theorem valid_comp {D : Nat} {idx : Idx} (h : Valid D idx) (σ : Nat → Nat) :
    Valid D (fun a => idx (σ a)) := fun a => h (σ a)

/-! ### sums -/

section sums
variable [AddCommMonoid K]

theorem sumTo_eq_sum (D : Nat) (f : Nat → K) : sumTo D f = ∑ a ∈ range D, f a := by
  induction D with
  | zero => simp [sumTo]
  | succ D ih => simp [sumTo, ih, Finset.sum_range_succ]

theorem sumTo_congr {D : Nat} {f g : Nat → K} (h : ∀ a, a < D → f a = g a) : sumTo D f = sumTo D g := by
  rw [sumTo_eq_sum, sumTo_eq_sum]
  exact Finset.sum_congr rfl fun a ha => h a (Finset.mem_range.mp ha)

theorem sumRange_eq_sum (lo hi : Nat) (f : Nat → K) : sumRange lo hi f = ∑ k ∈ Ico lo hi, f k := by
  unfold sumRange
  rw [sumTo_eq_sum, Finset.sum_Ico_eq_sum_range]

end sums

/-! ### transpositions -/

theorem tr_tr (σ τ : Nat → Nat) (ψ : Tens K) : tr σ (tr τ ψ) = tr (fun a => σ (τ a)) ψ := rfl

theorem tr_id (ψ : Tens K) : tr (fun a => a) ψ = ψ := rfl

theorem tr_eqOn {D : Nat} (σ : Nat → Nat) {ψ φ : Tens K} (h : EqOn D ψ φ) : EqOn D (tr σ ψ) (tr σ φ) :=
  fun idx hi => h _ (valid_comp hi σ)

theorem swp_swp (a b x : Nat) : swp a b (swp a b x) = x := by
  unfold swp; grind

theorem swp_left (a b : Nat) : swp a b a = b := by simp [swp]
theorem swp_right (a b : Nat) : swp a b b = a := by unfold swp; grind
theorem swp_of_ne {a b x : Nat} (h1 : x ≠ a) (h2 : x ≠ b) : swp a b x = x := by simp [swp, h1, h2]

theorem swpPair_swpPair (t : Nat) (ht : t ≠ 1) (x : Nat) : swpPair t (swpPair t x) = x := by
  unfold swpPair; grind

/-! ### equivariance: transposing, applying at a position, transposing back -/

section equiv
variable [Zero K] [Add K] [Mul K]

theorem upd_comp (idx : Idx) (σ σ' : Nat → Nat) (h1 : ∀ x, σ' (σ x) = x) (h2 : ∀ x, σ (σ' x) = x)
    (p a : Nat) : (fun x => upd (fun y => idx (σ' y)) p a (σ x)) = upd idx (σ' p) a := by
  funext x
  unfold upd
  by_cases h : σ x = p
  · have hx : x = σ' p := by rw [← h, h1]
    rw [if_pos h, if_pos hx]
  · have hx : x ≠ σ' p := by intro hx; apply h; rw [hx, h2]
    rw [if_neg h, if_neg hx]; show idx (σ' (σ x)) = idx x; rw [h1]

theorem upd_comp' (idx : Idx) (σ σ' : Nat → Nat) (h2 : ∀ x, σ (σ' x) = x)
    (p a : Nat) : (fun y => upd idx (σ' p) a (σ' y)) = upd (fun y => idx (σ' y)) p a := by
  funext y
  unfold upd
  by_cases h : y = p
  · rw [if_pos h, if_pos (by rw [h])]
  · have : σ' y ≠ σ' p := by
      intro he; apply h; have := congrArg σ he; rwa [h2, h2] at this
    rw [if_neg h, if_neg this]

/-- `tr σ' ∘ applyAt2 p q ∘ tr σ = applyAt2 (σ' p) (σ' q)` for mutually inverse `σ`, `σ'` -/
theorem applyAt2_equivariant (D : Nat) (mat : Nat → Nat → Nat → Nat → K) (σ σ' : Nat → Nat)
    (h1 : ∀ x, σ' (σ x) = x) (h2 : ∀ x, σ (σ' x) = x) (p q : Nat) (ψ : Tens K) :
    tr σ' (applyAt2 D mat p q (tr σ ψ)) = applyAt2 D mat (σ' p) (σ' q) ψ := by
  funext idx
  simp only [tr, applyAt2]
  congr 1; funext a; congr 1; funext b
  congr 2
  have e2 := upd_comp (upd idx (σ' p) a) σ σ' h1 h2 q b
  rw [upd_comp' idx σ σ' h2 p a] at e2
  exact e2

theorem applyAt1_equivariant (D : Nat) (mat : Nat → Nat → K) (σ σ' : Nat → Nat)
    (h1 : ∀ x, σ' (σ x) = x) (h2 : ∀ x, σ (σ' x) = x) (p : Nat) (ψ : Tens K) :
    tr σ' (applyAt1 D mat p (tr σ ψ)) = applyAt1 D mat (σ' p) ψ := by
  funext idx
  simp only [tr, applyAt1]
  congr 1; funext a
  congr 2
  exact upd_comp idx σ σ' h1 h2 p a

end equiv

section congr
variable [AddCommMonoid K] [Mul K]

theorem applyAt2_eqOn {D : Nat} (mat : Nat → Nat → Nat → Nat → K) (p q : Nat) {ψ φ : Tens K}
    (h : EqOn D ψ φ) : EqOn D (applyAt2 D mat p q ψ) (applyAt2 D mat p q φ) := by
  intro idx hi
  simp only [applyAt2]
  refine sumTo_congr fun a ha => sumTo_congr fun b hb => ?_
  rw [h _ (valid_upd (valid_upd hi p ha) q hb)]

theorem applyAt1_eqOn {D : Nat} (mat : Nat → Nat → K) (p : Nat) {ψ φ : Tens K}
    (h : EqOn D ψ φ) : EqOn D (applyAt1 D mat p ψ) (applyAt1 D mat p φ) := by
  intro idx hi
  simp only [applyAt1]
  refine sumTo_congr fun a ha => ?_
  rw [h _ (valid_upd hi p ha)]

end congr

/-! ### `apply_twomode_gate`, pure branch -/

section twomode
variable [Zero K] [Add K] [Mul K]

theorem twoModePure_applyAt2 (D : Nat) (mat : Nat → Nat → Nat → Nat → K) (t1 t2 : Nat) (h12 : t1 ≠ t2)
    (ψ : Tens K) :
    twoModePure (applyAt2 D mat 0 1) t1 t2 ψ = applyAt2 D mat t1 t2 ψ := by
  unfold twoModePure
  simp only [tr_tr]
  set p2 := if t2 = 0 then t1 else t2 with hp2
  have hp0 : p2 ≠ 0 := by
    rw [hp2]; split
    · rename_i h; intro h'; exact h12 (h'.trans h.symm)
    · assumption
  rw [applyAt2_equivariant D mat (fun a => swp 1 p2 (swp 0 t1 a)) (fun a => swp 0 t1 (swp 1 p2 a))
    (by intro x; simp [swp_swp]) (by intro x; simp [swp_swp])]
  have e0 : swp 0 t1 (swp 1 p2 0) = t1 := by
    rw [swp_of_ne (by omega) (Ne.symm hp0), swp_left]
  have e1 : swp 0 t1 (swp 1 p2 1) = t2 := by
    rw [swp_left, hp2]
    split
    · rename_i h; rw [swp_right, h]
    · rename_i h; exact swp_of_ne h (Ne.symm h12)
  rw [e0, e1]

/-- the pre-fix pure branch is only right when the second target is not axis 0 -/
theorem twoModePureOld_applyAt2_partial (D : Nat) (mat : Nat → Nat → Nat → Nat → K) (t1 t2 : Nat)
    (h12 : t1 ≠ t2) (h20 : t2 ≠ 0) (ψ : Tens K) :
    twoModePureOld (applyAt2 D mat 0 1) t1 t2 ψ = applyAt2 D mat t1 t2 ψ := by
  unfold twoModePureOld
  simp only [tr_tr]
  rw [applyAt2_equivariant D mat (fun a => swp 1 t2 (swp 0 t1 a)) (fun a => swp 0 t1 (swp 1 t2 a))
    (by intro x; simp [swp_swp]) (by intro x; simp [swp_swp])]
  have e0 : swp 0 t1 (swp 1 t2 0) = t1 := by
    rw [swp_of_ne (by omega) (Ne.symm h20), swp_left]
  have e1 : swp 0 t1 (swp 1 t2 1) = t2 := by
    rw [swp_left]; exact swp_of_ne h20 (Ne.symm h12)
  rw [e0, e1]

/-! ### mixed branch -/

theorem twoModeMixed_applyAt2 (D : Nat) (mat matc : Nat → Nat → Nat → Nat → K) (m1 m2 : Nat)
    (h12 : m1 ≠ m2) (ψ : Tens K) :
    twoModeMixed (applyAt2 D mat 0 1) (applyAt2 D matc 0 1) m1 m2 ψ =
      applyAt2 D matc (2 * m1 + 1) (2 * m2 + 1) (applyAt2 D mat (2 * m1) (2 * m2) ψ) := by
  unfold twoModeMixed
  simp only [tr_tr]
  have hs1 : ∀ x, swpPair (2 * m1) (swpPair (2 * m1) x) = x := swpPair_swpPair _ (by omega)
  have hs2 : ∀ x, swpPair (2 * m2) (swpPair (2 * m2) x) = x := swpPair_swpPair _ (by omega)
  have hT : ∀ x, swp (2 * m1 + 1) (2 * m2) (swp (2 * m1 + 1) (2 * m2) x) = x := swp_swp _ _
  -- first contraction
  have step1 := applyAt2_equivariant D mat
    (fun a => swpPair (2 * m1) (swp (2 * m1 + 1) (2 * m2) a))
    (fun a => swp (2 * m1 + 1) (2 * m2) (swpPair (2 * m1) a))
    (by intro x; simp [hs1, hT]) (by intro x; simp [hs1, hT]) 0 1 ψ
  -- rewrite the state after the first kernel as a transposition of the embedded operator
  have hY : applyAt2 D mat 0 1 (tr (fun a => swpPair (2 * m1) (swp (2 * m1 + 1) (2 * m2) a)) ψ)
      = tr (fun a => swpPair (2 * m1) (swp (2 * m1 + 1) (2 * m2) a))
          (applyAt2 D mat (swp (2 * m1 + 1) (2 * m2) (swpPair (2 * m1) 0))
            (swp (2 * m1 + 1) (2 * m2) (swpPair (2 * m1) 1)) ψ) := by
    rw [← step1]
    simp only [tr_tr]
    funext idx
    simp [tr, hs1, hT]
  rw [hY]
  simp only [tr_tr]
  have hcomp : (fun a => swpPair (2 * m2) (swpPair (2 * m1)
      (swpPair (2 * m1) (swp (2 * m1 + 1) (2 * m2) a)))) =
      fun a => swpPair (2 * m2) (swp (2 * m1 + 1) (2 * m2) a) := by
    funext a; rw [hs1]
  rw [hcomp]
  rw [applyAt2_equivariant D matc (fun a => swpPair (2 * m2) (swp (2 * m1 + 1) (2 * m2) a))
    (fun a => swp (2 * m1 + 1) (2 * m2) (swpPair (2 * m2) a))
    (by intro x; simp [hs2, hT]) (by intro x; simp [hs2, hT])]
  have a0 : swp (2 * m1 + 1) (2 * m2) (swpPair (2 * m1) 0) = 2 * m1 := by
    unfold swpPair swp; grind
  have a1 : swp (2 * m1 + 1) (2 * m2) (swpPair (2 * m1) 1) = 2 * m2 := by
    unfold swpPair swp; grind
  have b0 : swp (2 * m1 + 1) (2 * m2) (swpPair (2 * m2) 0) = 2 * m1 + 1 := by
    unfold swpPair swp; grind
  have b1 : swp (2 * m1 + 1) (2 * m2) (swpPair (2 * m2) 1) = 2 * m2 + 1 := by
    unfold swpPair swp; grind
  rw [a0, a1, b0, b1]

end twomode

/-! ### selection-rule kernels -/

section kernels
variable [Semiring K]

/-- `_apply_two_mode_passive` equals the full contraction when `mat[i,k,j,l] = 0` unless `i+j = k+l` -/
theorem passiveKernel_eq (D : Nat) (mat : Nat → Nat → Nat → Nat → K)
    (hsel : ∀ i k j l, i + j ≠ k + l → mat i k j l = 0) (ψ : Tens K) :
    EqOn D (passiveKernel D mat ψ) (applyAt2 D mat 0 1 ψ) := by
  intro idx hv
  have hi := hv 0
  have hj := hv 1
  simp only [passiveKernel, applyAt2]
  rw [sumRange_eq_sum, sumTo_eq_sum]
  set i := idx 0
  set j := idx 1
  -- inner sum collapses to the single admissible `l`
  have inner : ∀ a ∈ range D, (sumTo D fun b => mat i a j b * ψ (upd (upd idx 0 a) 1 b)) =
      if a ≤ i + j ∧ i + j - a < D then mat i a j (i + j - a) * ψ (upd (upd idx 0 a) 1 (i + j - a)) else 0 := by
    intro a _
    rw [sumTo_eq_sum]
    split
    · rename_i h
      rw [Finset.sum_eq_single_of_mem (i + j - a) (Finset.mem_range.mpr h.2)]
      intro b _ hb
      rw [hsel i a j b (by omega), zero_mul]
    · rename_i h
      apply Finset.sum_eq_zero
      intro b hb
      have hb' := Finset.mem_range.mp hb
      rw [hsel i a j b (by omega), zero_mul]
  rw [Finset.sum_congr rfl inner, ← Finset.sum_filter]
  apply Finset.sum_congr
  · ext k
    simp only [Finset.mem_Ico, Finset.mem_filter, Finset.mem_range]
    omega
  · intro k _; rfl

/-- `_apply_S2` equals the full contraction when `mat[i,j,k,l] = 0` unless `i + l = j + k` -/
theorem s2Kernel_eq (D : Nat) (mat : Nat → Nat → Nat → Nat → K)
    (hsel : ∀ i j k l, i + l ≠ j + k → mat i j k l = 0) (ψ : Tens K) :
    EqOn D (s2Kernel D mat ψ) (applyAt2 D mat 0 1 ψ) := by
  intro idx hv
  have hi := hv 0
  have hk := hv 1
  simp only [s2Kernel, applyAt2]
  set i := idx 0
  set k := idx 1
  refine sumTo_congr fun j hj => ?_
  rw [sumTo_eq_sum]
  by_cases h : s2Cond D i j k
  · rw [if_pos h]
    unfold s2Cond at h
    have hl : k + j - i < D := by omega
    rw [Finset.sum_eq_single_of_mem (k + j - i) (Finset.mem_range.mpr hl)]
    intro b _ hb
    rw [hsel i j k b (by omega), zero_mul]
  · rw [if_neg h]
    unfold s2Cond at h
    symm
    apply Finset.sum_eq_zero
    intro b hb
    have hb' := Finset.mem_range.mp hb
    rw [hsel i j k b (by omega), zero_mul]

end kernels

/-! ### `apply_gate_BLAS`: axis lists -/

section blas
variable [Zero K] [Add K] [Mul K]

theorem isPermList_spec {l : List Nat} {n : Nat} (h : isPermList l n = true) :
    l.length = n ∧ (∀ a ∈ l, a < n) ∧ (∀ a, a < n → a ∈ l) ∧ l.Nodup := by
  simp only [isPermList, Bool.and_eq_true, beq_iff_eq, List.all_eq_true, decide_eq_true_eq,
    List.mem_range, List.contains_iff_mem] at h
  obtain ⟨⟨⟨h1, h2⟩, h3⟩, h4⟩ := h
  exact ⟨h1, fun a ha => by simpa using h2 a ha, h3, h4⟩

/-- the two maps used by `trList`/`untrList` are mutually inverse for a permutation list -/
theorem permList_inv {l : List Nat} {n : Nat} (h : isPermList l n = true) :
    (∀ x, (fun a => if a < l.length then l.idxOf a else a) (l.getD x x) = x) ∧
    (∀ x, l.getD ((fun a => if a < l.length then l.idxOf a else a) x)
      ((fun a => if a < l.length then l.idxOf a else a) x) = x) := by
  obtain ⟨hlen, hlt, hmem, hnd⟩ := isPermList_spec h
  constructor
  · intro x
    by_cases hx : x < l.length
    · have hg : l.getD x x = l[x] := by simp [List.getD, hx]
      have : l[x] < l.length := by rw [hlen]; exact hlt _ (List.getElem_mem hx)
      simp only [hg, this, if_true]
      exact hnd.idxOf_getElem x hx
    · have hg : l.getD x x = x := by
        have : l[x]? = none := List.getElem?_eq_none (by omega)
        simp [List.getD, this]
      simp only [hg, hx, if_false]
  · intro x
    by_cases hx : x < l.length
    · simp only [hx, if_true]
      have hm : x ∈ l := hmem x (hlen ▸ hx)
      have hi : l.idxOf x < l.length := List.idxOf_lt_length_of_mem hm
      simp [List.getD, hi]
    · simp only [hx, if_false]
      have : l[x]? = none := List.getElem?_eq_none (by omega)
      simp [List.getD, this]

theorem blasPure2_applyAt2 (D n : Nat) (mat : Nat → Nat → Nat → Nat → K) (m1 m2 : Nat)
    (hp : isPermList (blasList n [m1, m2]) n = true)
    (h1 : (blasList n [m1, m2]).getD (n - 2) (n - 2) = m1)
    (h2 : (blasList n [m1, m2]).getD (n - 1) (n - 1) = m2) (ψ : Tens K) :
    blasPure2 D n mat m1 m2 ψ = applyAt2 D mat m1 m2 ψ := by
  unfold blasPure2 untrList trList
  obtain ⟨i1, i2⟩ := permList_inv hp
  rw [applyAt2_equivariant D mat _ _ i2 i1, h1, h2]

theorem blasPure1_applyAt1 (D n : Nat) (mat : Nat → Nat → K) (m : Nat) (hn : n ≠ 1)
    (hp : isPermList (blasList n [m]) n = true)
    (h1 : (blasList n [m]).getD (n - 1) (n - 1) = m) (ψ : Tens K) :
    blasPure1 D n mat m ψ = applyAt1 D mat m ψ := by
  unfold blasPure1 untrList trList
  obtain ⟨i1, i2⟩ := permList_inv hp
  rw [if_neg hn, applyAt1_equivariant D mat _ _ i2 i1, h1]

theorem applyAt_comm_tr (D : Nat) (mat : Nat → Nat → K) (σ σ' : Nat → Nat)
    (h1 : ∀ x, σ' (σ x) = x) (h2 : ∀ x, σ (σ' x) = x) (p : Nat) (ψ : Tens K) :
    applyAt1 D mat p (tr σ ψ) = tr σ (applyAt1 D mat (σ' p) ψ) := by
  rw [← applyAt1_equivariant D mat σ σ' h1 h2]
  funext idx
  simp [tr, h2]

theorem applyAt2_comm_tr (D : Nat) (mat : Nat → Nat → Nat → Nat → K) (σ σ' : Nat → Nat)
    (h1 : ∀ x, σ' (σ x) = x) (h2 : ∀ x, σ (σ' x) = x) (p q : Nat) (ψ : Tens K) :
    applyAt2 D mat p q (tr σ ψ) = tr σ (applyAt2 D mat (σ' p) (σ' q) ψ) := by
  rw [← applyAt2_equivariant D mat σ σ' h1 h2]
  funext idx
  simp [tr, h2]

theorem blasMixed1_applyAt1 (D n : Nat) (mat matc : Nat → Nat → K) (m : Nat) (hn : n ≠ 1)
    (hp : isPermList (blasListMixed n [m]) (2 * n) = true)
    (h1 : (blasListMixed n [m]).getD (2 * n - 2) (2 * n - 2) = 2 * m)
    (h2 : (blasListMixed n [m]).getD (2 * n - 1) (2 * n - 1) = 2 * m + 1) (ψ : Tens K) :
    blasMixed1 D n mat matc m ψ = applyAt1 D matc (2 * m + 1) (applyAt1 D mat (2 * m) ψ) := by
  unfold blasMixed1 untrList trList
  obtain ⟨i1, i2⟩ := permList_inv hp
  simp only []
  rw [if_neg hn, applyAt_comm_tr D mat _ _ i2 i1, applyAt1_equivariant D matc _ _ i2 i1, h1, h2]

theorem blasMixed2_applyAt2 (D n : Nat) (mat matc : Nat → Nat → Nat → Nat → K) (m1 m2 : Nat)
    (hp : isPermList (blasListMixed n [m1, m2]) (2 * n) = true)
    (h1 : (blasListMixed n [m1, m2]).getD (2 * n - 4) (2 * n - 4) = 2 * m1)
    (h2 : (blasListMixed n [m1, m2]).getD (2 * n - 3) (2 * n - 3) = 2 * m2)
    (h3 : (blasListMixed n [m1, m2]).getD (2 * n - 2) (2 * n - 2) = 2 * m1 + 1)
    (h4 : (blasListMixed n [m1, m2]).getD (2 * n - 1) (2 * n - 1) = 2 * m2 + 1) (ψ : Tens K) :
    blasMixed2 D n mat matc m1 m2 ψ =
      applyAt2 D matc (2 * m1 + 1) (2 * m2 + 1) (applyAt2 D mat (2 * m1) (2 * m2) ψ) := by
  unfold blasMixed2 untrList trList
  obtain ⟨i1, i2⟩ := permList_inv hp
  simp only []
  rw [applyAt2_comm_tr D mat _ _ i2 i1, applyAt2_equivariant D matc _ _ i2 i1, h1, h2, h3, h4]

end blas

end SFV.Fock

/-! ### the axis lists of `apply_gate_BLAS` are permutations with the targets at the back -/
namespace SFV.Fock

theorem isPermList_of_perm {l : List Nat} {n : Nat} (h : l.Perm (List.range n)) : isPermList l n = true := by
  simp only [isPermList, Bool.and_eq_true, beq_iff_eq, List.all_eq_true, decide_eq_true_eq,
    List.mem_range, List.contains_iff_mem]
  refine ⟨⟨⟨by simpa using h.length_eq, ?_⟩, ?_⟩, ?_⟩
  · intro a ha; simpa using (h.mem_iff.mp ha)
  · intro a ha; exact h.mem_iff.mpr (List.mem_range.mpr ha)
  · exact h.nodup_iff.mpr List.nodup_range

theorem blasList_perm (n : Nat) (modes : List Nat) (hnd : modes.Nodup) (hlt : ∀ m ∈ modes, m < n) :
    (blasList n modes).Perm (List.range n) := by
  unfold blasList
  have h1 : ((List.range n).filter (fun i => !modes.contains i) ++
      (List.range n).filter (fun i => !(!modes.contains i))).Perm (List.range n) :=
    List.filter_append_perm _ _
  refine List.Perm.trans (List.Perm.append_left _ ?_) h1
  apply (List.perm_ext_iff_of_nodup hnd (List.nodup_range.filter _)).mpr
  intro a
  simp only [Bool.not_not, List.mem_filter, List.mem_range, List.contains_iff_mem]
  constructor
  · intro ha; exact ⟨hlt a ha, by simpa using ha⟩
  · intro ha; simpa using ha.2

theorem blasList_length_filter (n : Nat) (modes : List Nat) (hnd : modes.Nodup) (hlt : ∀ m ∈ modes, m < n) :
    ((List.range n).filter (fun i => !modes.contains i)).length + modes.length = n := by
  have := (blasList_perm n modes hnd hlt).length_eq
  simpa [blasList] using this

theorem blasList2_facts (n m1 m2 : Nat) (h12 : m1 ≠ m2) (h1 : m1 < n) (h2 : m2 < n) :
    isPermList (blasList n [m1, m2]) n = true ∧
    (blasList n [m1, m2]).getD (n - 2) (n - 2) = m1 ∧
    (blasList n [m1, m2]).getD (n - 1) (n - 1) = m2 := by
  have hnd : [m1, m2].Nodup := by simp [h12]
  have hlt : ∀ m ∈ [m1, m2], m < n := by intro m hm; simp at hm; rcases hm with rfl | rfl <;> assumption
  have hlen := blasList_length_filter n [m1, m2] hnd hlt
  simp only [List.length_cons, List.length_nil] at hlen
  refine ⟨isPermList_of_perm (blasList_perm n _ hnd hlt), ?_, ?_⟩
  · unfold blasList
    rw [List.getD_append_right _ _ _ _ (by omega)]
    have : n - 2 - ((List.range n).filter (fun i => !([m1, m2] : List Nat).contains i)).length = 0 := by omega
    rw [this]; rfl
  · unfold blasList
    rw [List.getD_append_right _ _ _ _ (by omega)]
    have : n - 1 - ((List.range n).filter (fun i => !([m1, m2] : List Nat).contains i)).length = 1 := by omega
    rw [this]; rfl

theorem blasList1_facts (n m : Nat) (h1 : m < n) :
    isPermList (blasList n [m]) n = true ∧ (blasList n [m]).getD (n - 1) (n - 1) = m := by
  have hnd : [m].Nodup := by simp
  have hlt : ∀ x ∈ [m], x < n := by intro x hx; simp at hx; rw [hx]; exact h1
  have hlen := blasList_length_filter n [m] hnd hlt
  simp only [List.length_cons, List.length_nil] at hlen
  refine ⟨isPermList_of_perm (blasList_perm n _ hnd hlt), ?_⟩
  unfold blasList
  rw [List.getD_append_right _ _ _ _ (by omega)]
  have : n - 1 - ((List.range n).filter (fun i => !([m] : List Nat).contains i)).length = 0 := by omega
  rw [this]; rfl

theorem blasListMixed_perm (n : Nat) (modes : List Nat) (hnd : modes.Nodup) (hlt : ∀ m ∈ modes, m < n) :
    (blasListMixed n modes).Perm (List.range (2 * n)) := by
  unfold blasListMixed
  have h1 : ((List.range (2 * n)).filter (fun i => !modes.contains (i / 2)) ++
      (List.range (2 * n)).filter (fun i => !(!modes.contains (i / 2)))).Perm (List.range (2 * n)) :=
    List.filter_append_perm _ _
  rw [List.append_assoc]
  refine List.Perm.trans (List.Perm.append_left _ ?_) h1
  have hnd2 : (modes.map (2 * ·) ++ modes.map (2 * · + 1)).Nodup := by
    rw [List.nodup_append]
    refine ⟨hnd.map (fun a b h => by simpa using h), hnd.map (fun a b h => by simpa using h), ?_⟩
    intro a ha b hb
    simp only [List.mem_map] at ha hb
    obtain ⟨x, _, rfl⟩ := ha
    obtain ⟨y, _, rfl⟩ := hb
    omega
  apply (List.perm_ext_iff_of_nodup hnd2 (List.nodup_range.filter _)).mpr
  intro a
  simp only [Bool.not_not, List.mem_filter, List.mem_range, List.contains_iff_mem, List.mem_append,
    List.mem_map]
  constructor
  · rintro (⟨x, hx, rfl⟩ | ⟨x, hx, rfl⟩)
    · have := hlt x hx
      refine ⟨by omega, ?_⟩
      have : 2 * x / 2 = x := by omega
      simpa [this] using hx
    · have := hlt x hx
      refine ⟨by omega, ?_⟩
      have : (2 * x + 1) / 2 = x := by omega
      simpa [this] using hx
  · rintro ⟨_, ha⟩
    have ha' : a / 2 ∈ modes := by simpa using ha
    rcases Nat.mod_two_eq_zero_or_one a with h | h
    · left; exact ⟨a / 2, ha', by omega⟩
    · right; exact ⟨a / 2, ha', by omega⟩

theorem blasListMixed_length_filter (n : Nat) (modes : List Nat) (hnd : modes.Nodup)
    (hlt : ∀ m ∈ modes, m < n) :
    ((List.range (2 * n)).filter (fun i => !modes.contains (i / 2))).length + 2 * modes.length = 2 * n := by
  have := (blasListMixed_perm n modes hnd hlt).length_eq
  simp only [blasListMixed, List.length_append, List.length_map, List.length_range] at this
  omega

theorem blasListMixed2_facts (n m1 m2 : Nat) (h12 : m1 ≠ m2) (h1 : m1 < n) (h2 : m2 < n) :
    isPermList (blasListMixed n [m1, m2]) (2 * n) = true ∧
    (blasListMixed n [m1, m2]).getD (2 * n - 4) (2 * n - 4) = 2 * m1 ∧
    (blasListMixed n [m1, m2]).getD (2 * n - 3) (2 * n - 3) = 2 * m2 ∧
    (blasListMixed n [m1, m2]).getD (2 * n - 2) (2 * n - 2) = 2 * m1 + 1 ∧
    (blasListMixed n [m1, m2]).getD (2 * n - 1) (2 * n - 1) = 2 * m2 + 1 := by
  have hnd : [m1, m2].Nodup := by simp [h12]
  have hlt : ∀ m ∈ [m1, m2], m < n := by intro m hm; simp at hm; rcases hm with rfl | rfl <;> assumption
  have hlen := blasListMixed_length_filter n [m1, m2] hnd hlt
  simp only [List.length_cons, List.length_nil] at hlen
  refine ⟨isPermList_of_perm (blasListMixed_perm n _ hnd hlt), ?_, ?_, ?_, ?_⟩ <;>
  · unfold blasListMixed
    rw [List.append_assoc, List.getD_append_right _ _ _ _ (by omega)]
    generalize hF : ((List.range (2 * n)).filter (fun i => !([m1, m2] : List Nat).contains (i / 2))).length = F at hlen ⊢
    first
      | (have : 2 * n - 4 - F = 0 := by omega); rw [this]; rfl
      | (have : 2 * n - 3 - F = 1 := by omega); rw [this]; rfl
      | (have : 2 * n - 2 - F = 2 := by omega); rw [this]; rfl
      | (have : 2 * n - 1 - F = 3 := by omega); rw [this]; rfl

theorem blasListMixed1_facts (n m : Nat) (h1 : m < n) :
    isPermList (blasListMixed n [m]) (2 * n) = true ∧
    (blasListMixed n [m]).getD (2 * n - 2) (2 * n - 2) = 2 * m ∧
    (blasListMixed n [m]).getD (2 * n - 1) (2 * n - 1) = 2 * m + 1 := by
  have hnd : [m].Nodup := by simp
  have hlt : ∀ x ∈ [m], x < n := by intro x hx; simp at hx; rw [hx]; exact h1
  have hlen := blasListMixed_length_filter n [m] hnd hlt
  simp only [List.length_cons, List.length_nil] at hlen
  refine ⟨isPermList_of_perm (blasListMixed_perm n _ hnd hlt), ?_, ?_⟩ <;>
  · unfold blasListMixed
    rw [List.append_assoc, List.getD_append_right _ _ _ _ (by omega)]
    generalize hF : ((List.range (2 * n)).filter (fun i => !([m] : List Nat).contains (i / 2))).length = F at hlen ⊢
    first
      | (have : 2 * n - 2 - F = 0 := by omega); rw [this]; rfl
      | (have : 2 * n - 1 - F = 1 := by omega); rw [this]; rfl

end SFV.Fock

/-! ### locality in the Fock representation (C05) and Hermiticity (C07) -/
namespace SFV.Fock
open Finset

section local1
variable {K : Type} [CommSemiring K]

theorem upd_upd_same (idx : Idx) (p a b : Nat) : upd (upd idx p a) p b = upd idx p b := by
  funext x; unfold upd; split <;> rfl

theorem upd_comm (idx : Idx) {p q : Nat} (h : p ≠ q) (a b : Nat) :
    upd (upd idx p a) q b = upd (upd idx q b) p a := by
  funext x; unfold upd
  by_cases h1 : x = q <;> by_cases h2 : x = p
  · exact absurd (h2.symm.trans h1) h
  · simp [h1, h2]; intro hq; exact absurd hq.symm h
  · simp [h1, h2]; intro hq; exact absurd hq h
  · simp [h1, h2]

theorem upd_self_p (idx : Idx) (p a : Nat) : upd idx p a p = a := by simp [upd]
theorem upd_other (idx : Idx) {p q : Nat} (h : q ≠ p) (a : Nat) : upd idx p a q = idx q := by simp [upd, h]

/-- entry of `U ρ U†` on mode `m` (row axis `2m`, column axis `2m+1`) -/
theorem conj1_entry (D : Nat) (mat matc : Nat → Nat → K) (m : Nat) (ρ : Tens K) (idx : Idx) :
    applyAt1 D matc (2 * m + 1) (applyAt1 D mat (2 * m) ρ) idx =
      ∑ b ∈ range D, ∑ a ∈ range D,
        matc (idx (2 * m + 1)) b * (mat (idx (2 * m)) a * ρ (upd (upd idx (2 * m) a) (2 * m + 1) b)) := by
  simp only [applyAt1, sumTo_eq_sum]
  refine Finset.sum_congr rfl fun b _ => ?_
  rw [Finset.mul_sum]
  refine Finset.sum_congr rfl fun a _ => ?_
  rw [upd_other idx (by omega : 2 * m ≠ 2 * m + 1) b, upd_comm idx (by omega : 2 * m + 1 ≠ 2 * m) b a]

/-- **locality**: if `U†U = 1` on the truncated space (`Σ_v U[v,a]·conj U[v,b] = δ_ab`), then tracing
out the target mode after `ρ ↦ U ρ U†` gives the same reduced state of all other modes as before. -/
theorem trace_conj1 (D : Nat) (mat matc : Nat → Nat → K) (m : Nat)
    (hiso : ∀ a b, a < D → b < D → (∑ v ∈ range D, mat v a * matc v b) = if a = b then 1 else 0)
    (ρ : Tens K) (idx : Idx) :
    (∑ v ∈ range D, applyAt1 D matc (2 * m + 1) (applyAt1 D mat (2 * m) ρ)
        (upd (upd idx (2 * m) v) (2 * m + 1) v)) =
      ∑ v ∈ range D, ρ (upd (upd idx (2 * m) v) (2 * m + 1) v) := by
  have h01 : 2 * m ≠ 2 * m + 1 := by omega
  have key : ∀ v a b, upd (upd (upd (upd idx (2 * m) v) (2 * m + 1) v) (2 * m) a) (2 * m + 1) b
      = upd (upd idx (2 * m) a) (2 * m + 1) b := by
    intro v a b
    rw [upd_comm (upd idx (2 * m) v) h01.symm v a, upd_upd_same, upd_upd_same]
  simp only [conj1_entry, key, upd_self_p, upd_other _ h01.symm, upd_other _ h01]
  -- Σ_v Σ_b Σ_a  →  Σ_b Σ_a (Σ_v …)
  rw [Finset.sum_comm]
  have : ∀ b ∈ range D, (∑ v ∈ range D, ∑ a ∈ range D,
      matc v b * (mat v a * ρ (upd (upd idx (2 * m) a) (2 * m + 1) b)))
      = ρ (upd (upd idx (2 * m) b) (2 * m + 1) b) := by
    intro b hb
    rw [Finset.sum_comm]
    have inner : ∀ a ∈ range D, (∑ v ∈ range D, matc v b * (mat v a * ρ (upd (upd idx (2 * m) a) (2 * m + 1) b)))
        = (if a = b then 1 else 0) * ρ (upd (upd idx (2 * m) a) (2 * m + 1) b) := by
      intro a ha
      rw [← hiso a b (Finset.mem_range.mp ha) (Finset.mem_range.mp hb), Finset.sum_mul]
      refine Finset.sum_congr rfl fun v _ => ?_
      ring
    rw [Finset.sum_congr rfl inner]
    simp [Finset.sum_ite_eq', hb]
  rw [Finset.sum_congr rfl this]

end local1

end SFV.Fock

/-! ### locality for two-mode operators in the mixed representation -/
namespace SFV.Fock
open Finset

section local2
variable {K : Type} [CommSemiring K]

/-- the algebraic heart of locality: `Σ_v Σ_b Σ_a conj U[v,b]·(U[v,a]·R[a,b]) = Σ_v R[v,v]` for an
isometry `U` over any finite index set -/
theorem trace_generic {ι : Type} [DecidableEq ι] (P : Finset ι) (U Uc R : ι → ι → K)
    (hiso : ∀ a ∈ P, ∀ b ∈ P, (∑ v ∈ P, U v a * Uc v b) = if a = b then 1 else 0) :
    (∑ v ∈ P, ∑ b ∈ P, ∑ a ∈ P, Uc v b * (U v a * R a b)) = ∑ v ∈ P, R v v := by
  rw [Finset.sum_comm]
  refine Finset.sum_congr rfl fun b hb => ?_
  rw [Finset.sum_comm]
  have inner : ∀ a ∈ P, (∑ v ∈ P, Uc v b * (U v a * R a b)) = (if a = b then 1 else 0) * R a b := by
    intro a ha
    rw [← hiso a ha b hb, Finset.sum_mul]
    refine Finset.sum_congr rfl fun v _ => ?_
    ring
  rw [Finset.sum_congr rfl inner]
  simp [Finset.sum_ite_eq', hb]

/-- entry of `U ρ U†` for a two-mode operator on modes `m1 ≠ m2` -/
theorem conj2_entry (D : Nat) (mat matc : Nat → Nat → Nat → Nat → K) (m1 m2 : Nat) (h12 : m1 ≠ m2)
    (ρ : Tens K) (idx : Idx) :
    applyAt2 D matc (2 * m1 + 1) (2 * m2 + 1) (applyAt2 D mat (2 * m1) (2 * m2) ρ) idx =
      ∑ b1 ∈ range D, ∑ b2 ∈ range D, ∑ a1 ∈ range D, ∑ a2 ∈ range D,
        matc (idx (2 * m1 + 1)) b1 (idx (2 * m2 + 1)) b2 *
          (mat (idx (2 * m1)) a1 (idx (2 * m2)) a2 *
            ρ (upd (upd (upd (upd idx (2 * m1) a1) (2 * m2) a2) (2 * m1 + 1) b1) (2 * m2 + 1) b2)) := by
  simp only [applyAt2, sumTo_eq_sum]
  refine Finset.sum_congr rfl fun b1 _ => Finset.sum_congr rfl fun b2 _ => ?_
  rw [Finset.mul_sum]
  refine Finset.sum_congr rfl fun a1 _ => ?_
  rw [Finset.mul_sum]
  refine Finset.sum_congr rfl fun a2 _ => ?_
  have e1 : upd (upd idx (2 * m1 + 1) b1) (2 * m2 + 1) b2 (2 * m1) = idx (2 * m1) := by
    simp only [upd]; rw [if_neg (by omega), if_neg (by omega)]
  have e2 : upd (upd idx (2 * m1 + 1) b1) (2 * m2 + 1) b2 (2 * m2) = idx (2 * m2) := by
    simp only [upd]; rw [if_neg (by omega), if_neg (by omega)]
  have e3 : upd (upd (upd (upd idx (2 * m1 + 1) b1) (2 * m2 + 1) b2) (2 * m1) a1) (2 * m2) a2 =
      upd (upd (upd (upd idx (2 * m1) a1) (2 * m2) a2) (2 * m1 + 1) b1) (2 * m2 + 1) b2 := by
    funext x
    simp only [upd]
    by_cases h1 : x = 2 * m2 <;> by_cases h2 : x = 2 * m1 <;> by_cases h3 : x = 2 * m2 + 1 <;>
      by_cases h4 : x = 2 * m1 + 1 <;> simp [h1, h2, h3, h4] <;> omega
  rw [e1, e2, e3]

/-- the index with the row and column axes of modes `m1`, `m2` set to `(v1, v2)` -/
def diag2 (idx : Idx) (m1 m2 v1 v2 : Nat) : Idx :=
  upd (upd (upd (upd idx (2 * m1) v1) (2 * m2) v2) (2 * m1 + 1) v1) (2 * m2 + 1) v2

/-- **locality, two-mode version**: an isometric two-mode matrix leaves the state traced over its
two targets unchanged — for every pair of distinct positions and every index of the other modes -/
theorem trace_conj2 (D : Nat) (mat matc : Nat → Nat → Nat → Nat → K) (m1 m2 : Nat) (h12 : m1 ≠ m2)
    (hiso : ∀ a b : Nat × Nat, a ∈ range D ×ˢ range D → b ∈ range D ×ˢ range D →
      (∑ v ∈ range D ×ˢ range D, mat v.1 a.1 v.2 a.2 * matc v.1 b.1 v.2 b.2) = if a = b then 1 else 0)
    (ρ : Tens K) (idx : Idx) :
    (∑ v ∈ range D ×ˢ range D,
      applyAt2 D matc (2 * m1 + 1) (2 * m2 + 1) (applyAt2 D mat (2 * m1) (2 * m2) ρ) (diag2 idx m1 m2 v.1 v.2)) =
      ∑ v ∈ range D ×ˢ range D, ρ (diag2 idx m1 m2 v.1 v.2) := by
  set R : Nat × Nat → Nat × Nat → K := fun a b =>
    ρ (upd (upd (upd (upd idx (2 * m1) a.1) (2 * m2) a.2) (2 * m1 + 1) b.1) (2 * m2 + 1) b.2) with hR
  have key : ∀ v1 v2 a1 a2 b1 b2,
      upd (upd (upd (upd (diag2 idx m1 m2 v1 v2) (2 * m1) a1) (2 * m2) a2) (2 * m1 + 1) b1) (2 * m2 + 1) b2
      = upd (upd (upd (upd idx (2 * m1) a1) (2 * m2) a2) (2 * m1 + 1) b1) (2 * m2 + 1) b2 := by
    intro v1 v2 a1 a2 b1 b2
    funext x
    simp only [upd, diag2]
    by_cases h1 : x = 2 * m2 <;> by_cases h2 : x = 2 * m1 <;> by_cases h3 : x = 2 * m2 + 1 <;>
      by_cases h4 : x = 2 * m1 + 1 <;> simp [h1, h2, h3, h4]
  have q1 : ∀ v1 v2, diag2 idx m1 m2 v1 v2 (2 * m1 + 1) = v1 := by
    intro v1 v2; simp only [diag2, upd]; split_ifs <;> first | rfl | (exfalso; omega)
  have q2 : ∀ v1 v2, diag2 idx m1 m2 v1 v2 (2 * m2 + 1) = v2 := by
    intro v1 v2; simp only [diag2, upd]; split_ifs <;> first | rfl | (exfalso; omega)
  have q3 : ∀ v1 v2, diag2 idx m1 m2 v1 v2 (2 * m1) = v1 := by
    intro v1 v2; simp only [diag2, upd]; split_ifs <;> first | rfl | (exfalso; omega)
  have q4 : ∀ v1 v2, diag2 idx m1 m2 v1 v2 (2 * m2) = v2 := by
    intro v1 v2; simp only [diag2, upd]; split_ifs <;> first | rfl | (exfalso; omega)
  have lhs : ∀ v : Nat × Nat,
      applyAt2 D matc (2 * m1 + 1) (2 * m2 + 1) (applyAt2 D mat (2 * m1) (2 * m2) ρ) (diag2 idx m1 m2 v.1 v.2) =
      ∑ b ∈ range D ×ˢ range D, ∑ a ∈ range D ×ˢ range D,
        matc v.1 b.1 v.2 b.2 * (mat v.1 a.1 v.2 a.2 * R a b) := by
    intro v
    rw [conj2_entry D mat matc m1 m2 h12, Finset.sum_product]
    refine Finset.sum_congr rfl fun b1 _ => Finset.sum_congr rfl fun b2 _ => ?_
    rw [Finset.sum_product]
    refine Finset.sum_congr rfl fun a1 _ => Finset.sum_congr rfl fun a2 _ => ?_
    simp only [q1, q2, q3, q4, key, hR]
  have rhs : ∀ v : Nat × Nat, ρ (diag2 idx m1 m2 v.1 v.2) = R v v := by
    intro v; rfl
  simp only [lhs, rhs]
  exact trace_generic (range D ×ˢ range D) (fun v a => mat v.1 a.1 v.2 a.2) (fun v b => matc v.1 b.1 v.2 b.2) R
    (fun a ha b hb => hiso a b ha hb)

end local2
end SFV.Fock

/-! ### Hermiticity is preserved by `ρ ↦ U ρ U†` (C07) -/
namespace SFV.Fock
open Finset

section herm
variable {K : Type} [CommSemiring K]

/-- exchange the row and column axis of every mode -/
def flipAx (a : Nat) : Nat := if a % 2 = 0 then a + 1 else a - 1

/-- `ρ` is Hermitian w.r.t. the conjugation `cj`: `ρ[j₀,i₀,j₁,i₁,…] = conj ρ[i₀,j₀,i₁,j₁,…]` -/
def Herm (cj : K →+* K) (ρ : Tens K) : Prop := ∀ idx, ρ (fun a => idx (flipAx a)) = cj (ρ idx)

theorem flipAx_even (m : Nat) : flipAx (2 * m) = 2 * m + 1 := by unfold flipAx; rw [if_pos (by omega)]
theorem flipAx_odd (m : Nat) : flipAx (2 * m + 1) = 2 * m := by unfold flipAx; rw [if_neg (by omega)]; omega
theorem flipAx_flipAx (a : Nat) : flipAx (flipAx a) = a := by
  unfold flipAx; split <;> split <;> omega

theorem flip_upd2 (idx : Idx) (m a b : Nat) :
    (fun x => upd (upd idx (2 * m) b) (2 * m + 1) a (flipAx x)) =
      upd (upd (fun x => idx (flipAx x)) (2 * m) a) (2 * m + 1) b := by
  funext x
  simp only [upd]
  by_cases h1 : x = 2 * m + 1
  · subst h1; rw [flipAx_odd]; simp
  · by_cases h2 : x = 2 * m
    · subst h2; rw [flipAx_even]; simp
    · have e1 : flipAx x ≠ 2 * m + 1 := by
        intro h; have := congrArg flipAx h; rw [flipAx_flipAx, flipAx_odd] at this; exact h2 this
      have e2 : flipAx x ≠ 2 * m := by
        intro h; have := congrArg flipAx h; rw [flipAx_flipAx, flipAx_even] at this; exact h1 this
      simp [h1, h2, e1, e2]

/-- **Hermiticity is preserved** by a one-mode `ρ ↦ U ρ U†` at any position, for any conjugation
that is an involutive ring homomorphism -/
theorem herm_conj1 (cj : K →+* K) (hinv : ∀ x, cj (cj x) = x) (D : Nat) (mat : Nat → Nat → K) (m : Nat)
    (ρ : Tens K) (hρ : Herm cj ρ) :
    Herm cj (applyAt1 D (fun v b => cj (mat v b)) (2 * m + 1) (applyAt1 D mat (2 * m) ρ)) := by
  intro idx
  rw [conj1_entry, conj1_entry]
  simp only [flipAx_even, flipAx_odd, map_sum, map_mul, hinv]
  rw [Finset.sum_comm]
  refine Finset.sum_congr rfl fun a _ => Finset.sum_congr rfl fun b _ => ?_
  have := hρ (upd (upd idx (2 * m) b) (2 * m + 1) a)
  rw [flip_upd2 idx m a b] at this
  rw [this]
  ring

end herm
end SFV.Fock

/-! ### Kraus channels: locality and trace preservation (C05, C07) -/
namespace SFV.Fock
open Finset

section kraus
variable {K : Type} [CommSemiring K]

/-- rearrangement used for every Kraus term: `Σ_v Σ_b Σ_a conj U[v,b]·(U[v,a]·R[a,b]) = Σ_b Σ_a (Σ_v U[v,a]·conj U[v,b])·R[a,b]` -/
theorem trace_rearrange {ι : Type} (P : Finset ι) (U Uc R : ι → ι → K) :
    (∑ v ∈ P, ∑ b ∈ P, ∑ a ∈ P, Uc v b * (U v a * R a b)) =
      ∑ b ∈ P, ∑ a ∈ P, (∑ v ∈ P, U v a * Uc v b) * R a b := by
  rw [Finset.sum_comm]
  refine Finset.sum_congr rfl fun b _ => ?_
  rw [Finset.sum_comm]
  refine Finset.sum_congr rfl fun a _ => ?_
  rw [Finset.sum_mul]
  refine Finset.sum_congr rfl fun v _ => ?_
  ring

theorem applyChannel1_nil (D : Nat) (m : Nat) (ρ : Tens K) (idx : Idx) :
    applyChannel1 D ([] : List ((Nat → Nat → K) × (Nat → Nat → K))) m ρ idx = 0 := rfl

theorem applyChannel1_cons (D : Nat) (k : (Nat → Nat → K) × (Nat → Nat → K)) (ks : List _) (m : Nat)
    (ρ : Tens K) (idx : Idx) :
    applyChannel1 D (k :: ks) m ρ idx =
      applyAt1 D k.2 (2 * m + 1) (applyAt1 D k.1 (2 * m) ρ) idx + applyChannel1 D ks m ρ idx := rfl

/-- the trace over the target mode after a Kraus channel, in terms of the Gram sums `Σ_k Σ_v K_k[v,a]·conj K_k[v,b]` -/
theorem trace_channel1_gram (D : Nat) (ks : List ((Nat → Nat → K) × (Nat → Nat → K))) (m : Nat)
    (ρ : Tens K) (idx : Idx) :
    (∑ v ∈ range D, applyChannel1 D ks m ρ (upd (upd idx (2 * m) v) (2 * m + 1) v)) =
      ∑ b ∈ range D, ∑ a ∈ range D,
        (ks.map fun k => ∑ v ∈ range D, k.1 v a * k.2 v b).sum * ρ (upd (upd idx (2 * m) a) (2 * m + 1) b) := by
  have h01 : 2 * m ≠ 2 * m + 1 := by omega
  have key : ∀ v a b, upd (upd (upd (upd idx (2 * m) v) (2 * m + 1) v) (2 * m) a) (2 * m + 1) b
      = upd (upd idx (2 * m) a) (2 * m + 1) b := by
    intro v a b
    rw [upd_comm (upd idx (2 * m) v) h01.symm v a, upd_upd_same, upd_upd_same]
  induction ks with
  | nil => simp [applyChannel1_nil]
  | cons k ks ih =>
    simp only [applyChannel1_cons, Finset.sum_add_distrib, ih, List.map_cons, List.sum_cons, add_mul]
    congr 1
    simp only [conj1_entry, key, upd_self_p, upd_other _ h01.symm, upd_other _ h01]
    exact trace_rearrange (range D) k.1 k.2 (fun a b => ρ (upd (upd idx (2 * m) a) (2 * m + 1) b))

/-- **Kraus channels are local and trace preserving**: if `Σ_k K_k† K_k = 1` on the truncated space, the
state traced over the target mode (hence every reduced state of the other modes, and the total trace)
is unchanged by `_apply_channel` — every position, every register size, any number of Kraus operators -/
theorem trace_channel1 (D : Nat) (ks : List ((Nat → Nat → K) × (Nat → Nat → K))) (m : Nat)
    (hcomplete : ∀ a b, a < D → b < D →
      (ks.map fun k => ∑ v ∈ range D, k.1 v a * k.2 v b).sum = if a = b then 1 else 0)
    (ρ : Tens K) (idx : Idx) :
    (∑ v ∈ range D, applyChannel1 D ks m ρ (upd (upd idx (2 * m) v) (2 * m + 1) v)) =
      ∑ v ∈ range D, ρ (upd (upd idx (2 * m) v) (2 * m + 1) v) := by
  rw [trace_channel1_gram]
  refine Finset.sum_congr rfl fun b hb => ?_
  have : ∀ a ∈ range D, (ks.map fun k => ∑ v ∈ range D, k.1 v a * k.2 v b).sum *
      ρ (upd (upd idx (2 * m) a) (2 * m + 1) b) = (if a = b then 1 else 0) * ρ (upd (upd idx (2 * m) a) (2 * m + 1) b) := by
    intro a ha
    rw [hcomplete a b (Finset.mem_range.mp ha) (Finset.mem_range.mp hb)]
  rw [Finset.sum_congr rfl this]
  simp [Finset.sum_ite_eq', hb]

end kraus
end SFV.Fock

namespace SFV.Fock

/-- counting kept modes: one more after a kept mode, never fewer -/
theorem keptPos_succ (traced : List Nat) (i : Nat) :
    keptPos traced (i + 1) = keptPos traced i + (if traced.contains i then 0 else 1) := by
  unfold keptPos
  rw [List.range_succ, List.filter_append, List.length_append]
  by_cases h : i ∈ traced <;> simp [List.filter_cons, h]

theorem keptPos_mono (traced : List Nat) {i j : Nat} (hij : i ≤ j) : keptPos traced i ≤ keptPos traced j := by
  induction hij with
  | refl => exact Nat.le_refl _
  | step _ ih => rw [keptPos_succ]; omega

/-- **deletion keeps the remaining modes in index order**: the new axis positions of two kept modes are ordered like their
indices (so after `Del` the state's `j`-th mode is the `j`-th live subsystem, for every register and every set of deleted modes) -/
theorem keptPos_strictMono (traced : List Nat) {i j : Nat} (hij : i < j) (hi : traced.contains i = false) :
    keptPos traced i < keptPos traced j := by
  have hi' : i ∉ traced := by simpa using hi
  have h1 : keptPos traced (i + 1) = keptPos traced i + 1 := by rw [keptPos_succ]; simp [hi']
  have h2 := keptPos_mono traced (show i + 1 ≤ j from hij)
  omega

end SFV.Fock
