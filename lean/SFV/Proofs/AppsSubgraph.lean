import SFV.Model.Apps
import Mathlib.Data.List.Perm.Subperm
import Mathlib.Data.List.Nodup
import Mathlib.Order.Defs.LinearOrder
import Mathlib.Data.Prod.Lex
import Mathlib.Data.List.Lex

/-!
# K6 — subgraph.py / sample.py: `resize`, `updateList`, sample post-processing
-/
namespace SFV.Apps

/-! ## local copies of the basic lemmas (the shared ones live in `Proofs/AppsClique.lean`) -/

def sub_Lawful (pick : Pick) : Prop := ∀ step n, 0 < n → pick step n < n

theorem sub_choose_mem {α : Type} {pick : Pick} (hp : sub_Lawful pick) (step : Nat) {l : List α}
    (hl : l ≠ []) (d : α) : choose pick step l d ∈ l := by
  unfold choose
  have h : pick step l.length < l.length := hp _ _ (List.length_pos_iff.mpr hl)
  rw [List.getD_eq_getElem?_getD, List.getElem?_eq_getElem h]
  exact List.getElem_mem h

theorem sub_mem_argmaxs (key : Nat → Int) (l : List Nat) (v : Nat) :
    v ∈ argmaxs key l ↔ v ∈ l ∧ ∀ u ∈ l, key u ≤ key v := by
  simp [argmaxs, List.mem_filter, List.all_eq_true]

theorem sub_mem_argmins (key : Nat → Int) (l : List Nat) (v : Nat) :
    v ∈ argmins key l ↔ v ∈ l ∧ ∀ u ∈ l, key v ≤ key u := by
  simp [argmins, List.mem_filter, List.all_eq_true]

private theorem sub_exists_max (key : Nat → Int) : ∀ {l : List Nat}, l ≠ [] →
    ∃ v ∈ l, ∀ u ∈ l, key u ≤ key v
  | [x], _ => ⟨x, by simp, by simp⟩
  | x :: y :: ys, _ => by
    obtain ⟨v, hv, hmax⟩ := sub_exists_max key (l := y :: ys) (by simp)
    by_cases h : key v ≤ key x
    · refine ⟨x, by simp, ?_⟩
      intro u hu
      rcases List.mem_cons.mp hu with rfl | hu
      · exact Int.le_refl _
      · exact Int.le_trans (hmax u hu) h
    · refine ⟨v, List.mem_cons_of_mem _ hv, ?_⟩
      intro u hu
      rcases List.mem_cons.mp hu with rfl | hu
      · omega
      · exact hmax u hu

theorem sub_argmaxs_ne_nil (key : Nat → Int) {l : List Nat} (hl : l ≠ []) : argmaxs key l ≠ [] := by
  obtain ⟨v, hv, hmax⟩ := sub_exists_max key hl
  exact List.ne_nil_of_mem ((sub_mem_argmaxs key l v).mpr ⟨hv, hmax⟩)

theorem sub_argmins_ne_nil (key : Nat → Int) {l : List Nat} (hl : l ≠ []) : argmins key l ≠ [] := by
  obtain ⟨v, hv, hmax⟩ := sub_exists_max (fun u => - key u) hl
  refine List.ne_nil_of_mem ((sub_mem_argmins key l v).mpr ⟨hv, ?_⟩)
  intro u hu
  have := hmax u hu
  omega

theorem sub_insertAsc_perm (x : Nat) (l : List Nat) : (insertAsc x l).Perm (x :: l) := by
  induction l with
  | nil => exact List.Perm.refl _
  | cons y ys ih =>
    unfold insertAsc
    split
    · exact List.Perm.refl _
    · exact ((List.Perm.cons y ih).trans (List.Perm.swap x y ys))

theorem sub_sortAsc_perm (l : List Nat) : (sortAsc l).Perm l := by
  induction l with
  | nil => exact List.Perm.refl _
  | cons x xs ih =>
    show (insertAsc x (sortAsc xs)).Perm (x :: xs)
    exact (sub_insertAsc_perm x _).trans (List.Perm.cons x ih)

theorem sub_mem_sortAsc (x : Nat) (l : List Nat) : x ∈ sortAsc l ↔ x ∈ l :=
  (sub_sortAsc_perm l).mem_iff

theorem sub_insertAsc_sorted (x : Nat) (l : List Nat) (h : l.Pairwise (· ≤ ·)) :
    (insertAsc x l).Pairwise (· ≤ ·) := by
  induction l with
  | nil => simp [insertAsc]
  | cons y ys ih =>
    unfold insertAsc
    have hy := List.pairwise_cons.mp h
    split
    · rename_i hxy
      refine List.pairwise_cons.mpr ⟨?_, h⟩
      intro z hz
      rcases List.mem_cons.mp hz with rfl | hz
      · exact hxy
      · exact Nat.le_trans hxy (hy.1 z hz)
    · rename_i hxy
      refine List.pairwise_cons.mpr ⟨?_, ih hy.2⟩
      intro z hz
      rcases List.mem_cons.mp ((sub_insertAsc_perm x ys).mem_iff.mp hz) with rfl | hz
      · omega
      · exact hy.1 z hz

theorem sub_sortAsc_sorted (l : List Nat) : (sortAsc l).Pairwise (· ≤ ·) := by
  induction l with
  | nil => simp [sortAsc]
  | cons x xs ih => exact sub_insertAsc_sorted x _ ih

theorem sub_sortAsc_length (l : List Nat) : (sortAsc l).length = l.length :=
  (sub_sortAsc_perm l).length_eq

theorem sub_sortAsc_nodup {l : List Nat} (h : l.Nodup) : (sortAsc l).Nodup :=
  (sub_sortAsc_perm l).nodup_iff.mpr h

/-! ## Topic A: `resize` -/

/-- rule of the growth phase: the node added is outside S, of maximum degree relative to S, and with
weights of maximum weight among those -/
theorem resizeGrowCands_spec (g : Graph) (ws : Option (List Int)) (S : List Nat) (v : Nat)
    (hv : v ∈ resizeGrowCands g ws S) :
    v ∈ g.nodes ∧ v ∉ S ∧ (∀ u ∈ g.nodes, u ∉ S → degIn g S u ≤ degIn g S v) ∧
    (∀ w, ws = some w → ∀ u ∈ g.nodes, u ∉ S → degIn g S u = degIn g S v →
      weightOf g w u ≤ weightOf g w v) := by
  have hcomp : ∀ u, u ∈ (g.nodes.filter fun v => !S.contains v) ↔ u ∈ g.nodes ∧ u ∉ S := by
    intro u; simp [List.mem_filter]
  cases ws with
  | none =>
    simp only [resizeGrowCands] at hv
    obtain ⟨h1, h2⟩ := (sub_mem_argmaxs _ _ _).mp hv
    obtain ⟨h3, h4⟩ := (hcomp v).mp h1
    refine ⟨h3, h4, ?_, ?_⟩
    · intro u hu hnu
      have := h2 u ((hcomp u).mpr ⟨hu, hnu⟩)
      omega
    · intro w hw; cases hw
  | some w0 =>
    simp only [resizeGrowCands] at hv
    obtain ⟨h0, h5⟩ := (sub_mem_argmaxs _ _ _).mp hv
    obtain ⟨h1, h2⟩ := (sub_mem_argmaxs _ _ _).mp h0
    obtain ⟨h3, h4⟩ := (hcomp v).mp h1
    refine ⟨h3, h4, ?_, ?_⟩
    · intro u hu hnu
      have := h2 u ((hcomp u).mpr ⟨hu, hnu⟩)
      omega
    · intro w hw u hu hnu hdeg
      cases hw
      apply h5
      refine (sub_mem_argmaxs _ _ _).mpr ⟨(hcomp u).mpr ⟨hu, hnu⟩, ?_⟩
      intro u' hu'
      have := h2 u' hu'
      omega

theorem resizeGrowCands_ne_nil (g : Graph) (ws : Option (List Int)) {S : List Nat}
    (h : ∃ v ∈ g.nodes, v ∉ S) : resizeGrowCands g ws S ≠ [] := by
  obtain ⟨v, hv, hvS⟩ := h
  have hcomp : (g.nodes.filter fun v => !S.contains v) ≠ [] := by
    apply List.ne_nil_of_mem (a := v)
    simp [List.mem_filter, hv, hvS]
  cases ws with
  | none => exact sub_argmaxs_ne_nil _ hcomp
  | some w => exact sub_argmaxs_ne_nil _ (sub_argmaxs_ne_nil _ hcomp)

theorem sub_shrinkCands_mem (g : Graph) (ws : Option (List Int)) (S : List Nat) (v : Nat)
    (hv : v ∈ shrinkCands g ws S) : v ∈ S := by
  cases ws with
  | none => exact ((sub_mem_argmins _ _ _).mp hv).1
  | some w => exact ((sub_mem_argmins _ _ _).mp ((sub_mem_argmins _ _ _).mp hv).1).1

theorem sub_shrinkCands_ne_nil (g : Graph) (ws : Option (List Int)) {S : List Nat} (h : S ≠ []) :
    shrinkCands g ws S ≠ [] := by
  cases ws with
  | none => exact sub_argmins_ne_nil _ h
  | some w => exact sub_argmins_ne_nil _ (sub_argmins_ne_nil _ h)

/-- entry predicate, relative to the starting node set `S0` -/
def sub_EntryOK (g : Graph) (S0 : List Nat) (minS maxS : Nat) (e : Nat × List Nat) : Prop :=
  minS ≤ e.1 ∧ e.1 ≤ maxS ∧ e.2.length = e.1 ∧ e.2.Nodup ∧ e.2.Pairwise (· ≤ ·) ∧
    (∀ v ∈ e.2, v ∈ g.nodes) ∧ (S0.length ≤ e.1 → ∀ v ∈ S0, v ∈ e.2) ∧
    (e.1 ≤ S0.length → ∀ v ∈ e.2, v ∈ S0)

theorem sub_entryOK_of_set (g : Graph) (S0 : List Nat) (minS maxS : Nat) (S' : List Nat)
    (h1 : minS ≤ S'.length) (h2 : S'.length ≤ maxS) (hnd : S'.Nodup) (hsub : ∀ v ∈ S', v ∈ g.nodes)
    (hge : S0.length ≤ S'.length → ∀ v ∈ S0, v ∈ S') (hle : S'.length ≤ S0.length → ∀ v ∈ S', v ∈ S0) :
    sub_EntryOK g S0 minS maxS (S'.length, sortAsc S') := by
  refine ⟨h1, h2, sub_sortAsc_length _, sub_sortAsc_nodup hnd, sub_sortAsc_sorted _, ?_, ?_, ?_⟩
  · intro v hv; exact hsub v ((sub_mem_sortAsc _ _).mp hv)
  · intro h v hv; exact (sub_mem_sortAsc _ _).mpr (hge h v hv)
  · intro h v hv; exact hle h v ((sub_mem_sortAsc _ _).mp hv)

theorem sub_exists_outside {nodes S : List Nat} (hn : nodes.Nodup) (h : S.length < nodes.length) :
    ∃ v ∈ nodes, v ∉ S := by
  apply Classical.byContradiction
  intro hcon
  have hsub : nodes ⊆ S := by
    intro v hv
    apply Classical.byContradiction
    intro hvS
    exact hcon ⟨v, hv, hvS⟩
  have := (hn.subperm hsub).length_le
  omega

theorem sub_resizeGrow_succ (g : Graph) (ws : Option (List Int)) (pick : Pick) (minS maxS f step : Nat)
    (S : List Nat) (acc : List (Nat × List Nat)) :
    resizeGrow g ws pick minS maxS (f + 1) step S acc =
      if S.length < maxS then
        resizeGrow g ws pick minS maxS f (step + 1) (S ++ [choose pick step (resizeGrowCands g ws S) 0])
          (if minS ≤ (S ++ [choose pick step (resizeGrowCands g ws S) 0]).length ∧
              (S ++ [choose pick step (resizeGrowCands g ws S) 0]).length ≤ maxS then
            acc ++ [((S ++ [choose pick step (resizeGrowCands g ws S) 0]).length,
              sortAsc (S ++ [choose pick step (resizeGrowCands g ws S) 0]))]
          else acc)
      else (acc, step) := rfl

theorem sub_resizeShrink_succ (g : Graph) (ws : Option (List Int)) (pick : Pick) (minS maxS f step : Nat)
    (S : List Nat) (acc : List (Nat × List Nat)) :
    resizeShrink g ws pick minS maxS (f + 1) step S acc =
      if minS < S.length then
        resizeShrink g ws pick minS maxS f (step + 1) (S.erase (choose pick step (shrinkCands g ws S) 0))
          (if minS ≤ (S.erase (choose pick step (shrinkCands g ws S) 0)).length ∧
              (S.erase (choose pick step (shrinkCands g ws S) 0)).length ≤ maxS then
            acc ++ [((S.erase (choose pick step (shrinkCands g ws S) 0)).length,
              sortAsc (S.erase (choose pick step (shrinkCands g ws S) 0)))]
          else acc)
      else (acc, step) := rfl

/-- growth phase: the recorded entries are appended to `acc`; their sizes are exactly
`S.length+1, …, maxS` restricted to `≥ minS`, in this order, and every entry is a genuine superset of `S0` -/
theorem sub_resizeGrow_spec {g : Graph} (hn : g.nodes.Nodup) {pick : Pick} (hp : sub_Lawful pick)
    (ws : Option (List Int)) (S0 : List Nat) (minS maxS : Nat) (hmax : maxS < g.nodes.length) :
    ∀ (f step : Nat) (S : List Nat) (acc : List (Nat × List Nat)), maxS - S.length ≤ f → S.Nodup →
      (∀ v ∈ S, v ∈ g.nodes) → (∀ v ∈ S0, v ∈ S) → S0.length ≤ S.length →
      ∃ ext, (resizeGrow g ws pick minS maxS f step S acc).1 = acc ++ ext ∧
        ext.map (·.1) = (List.range' (S.length + 1) (maxS - S.length)).filter (fun s => decide (minS ≤ s)) ∧
        ∀ e ∈ ext, sub_EntryOK g S0 minS maxS e := by
  intro f
  induction f with
  | zero =>
    intro step S acc hf _ _ _ _
    have h0 : maxS - S.length = 0 := by omega
    exact ⟨[], by simp [resizeGrow], by simp [h0], by simp⟩
  | succ f ih =>
    intro step S acc hf hnd hsub hS0 hlen
    rw [sub_resizeGrow_succ]
    by_cases hlt : S.length < maxS
    · rw [if_pos hlt]
      have hcne : resizeGrowCands g ws S ≠ [] :=
        resizeGrowCands_ne_nil g ws (sub_exists_outside hn (by omega))
      have hc := resizeGrowCands_spec g ws S _ (sub_choose_mem hp step hcne 0)
      generalize choose pick step (resizeGrowCands g ws S) 0 = c at hc ⊢
      obtain ⟨hcn, hcS, -, -⟩ := hc
      have hlen' : (S ++ [c]).length = S.length + 1 := by simp
      have hnd' : (S ++ [c]).Nodup := by
        rw [List.nodup_append]
        refine ⟨hnd, by simp, ?_⟩
        intro a ha b hb
        rw [List.mem_singleton] at hb
        subst hb
        intro hab
        exact hcS (hab ▸ ha)
      have hsub' : ∀ v ∈ S ++ [c], v ∈ g.nodes := by
        intro v hv
        rcases List.mem_append.mp hv with hv | hv
        · exact hsub v hv
        · rw [List.mem_singleton] at hv; exact hv ▸ hcn
      have hS0' : ∀ v ∈ S0, v ∈ S ++ [c] := fun v hv => List.mem_append_left _ (hS0 v hv)
      obtain ⟨ext, hext, hkeys, hok⟩ := ih (step + 1) (S ++ [c])
        (if minS ≤ (S ++ [c]).length ∧ (S ++ [c]).length ≤ maxS then
            acc ++ [((S ++ [c]).length, sortAsc (S ++ [c]))] else acc)
        (by omega) hnd' hsub' hS0' (by omega)
      have hrange : List.range' (S.length + 1) (maxS - S.length) =
          (S.length + 1) :: List.range' (S.length + 1 + 1) (maxS - (S.length + 1)) := by
        have : maxS - S.length = (maxS - (S.length + 1)) + 1 := by omega
        rw [this, List.range'_succ]
      by_cases hmin : minS ≤ S.length + 1
      · have hcond : minS ≤ (S ++ [c]).length ∧ (S ++ [c]).length ≤ maxS := by omega
        rw [if_pos hcond] at hext ⊢
        refine ⟨((S ++ [c]).length, sortAsc (S ++ [c])) :: ext, ?_, ?_, ?_⟩
        · rw [hext]; simp
        · rw [hrange, List.filter_cons_of_pos (by simpa using hmin), List.map_cons, hkeys, hlen']
        · intro e he
          rcases List.mem_cons.mp he with rfl | he
          · exact sub_entryOK_of_set g S0 minS maxS _ hcond.1 hcond.2 hnd' hsub' (fun _ => hS0')
              (fun h => by omega)
          · exact hok e he
      · have hcond : ¬ (minS ≤ (S ++ [c]).length ∧ (S ++ [c]).length ≤ maxS) := by omega
        rw [if_neg hcond] at hext ⊢
        refine ⟨ext, hext, ?_, hok⟩
        rw [hrange, List.filter_cons_of_neg (by simpa using hmin), hkeys, hlen']
    · rw [if_neg hlt]
      have h0 : maxS - S.length = 0 := by omega
      exact ⟨[], by simp, by simp [h0], by simp⟩

/-- shrinking phase: sizes recorded are exactly `S.length-1, …, minS` restricted to `≤ maxS`, in this order,
and every entry is a genuine subset of `S0` -/
theorem sub_resizeShrink_spec (g : Graph) {pick : Pick} (hp : sub_Lawful pick)
    (ws : Option (List Int)) (S0 : List Nat) (minS maxS : Nat) (hS0n : ∀ v ∈ S0, v ∈ g.nodes) :
    ∀ (f step : Nat) (S : List Nat) (acc : List (Nat × List Nat)), S.length - minS ≤ f → S.Nodup →
      (∀ v ∈ S, v ∈ S0) → S.length ≤ S0.length →
      ∃ ext, (resizeShrink g ws pick minS maxS f step S acc).1 = acc ++ ext ∧
        ext.map (·.1) = ((List.range' minS (S.length - minS)).reverse).filter (fun s => decide (s ≤ maxS)) ∧
        ∀ e ∈ ext, sub_EntryOK g S0 minS maxS e := by
  intro f
  induction f with
  | zero =>
    intro step S acc hf _ _ _
    have h0 : S.length - minS = 0 := by omega
    exact ⟨[], by simp [resizeShrink], by simp [h0], by simp⟩
  | succ f ih =>
    intro step S acc hf hnd hS0 hlen
    rw [sub_resizeShrink_succ]
    by_cases hlt : minS < S.length
    · rw [if_pos hlt]
      have hSne : S ≠ [] := by intro h; rw [h] at hlt; simp at hlt
      have hc := sub_shrinkCands_mem g ws S _ (sub_choose_mem hp step (sub_shrinkCands_ne_nil g ws hSne) 0)
      generalize choose pick step (shrinkCands g ws S) 0 = c at hc ⊢
      have hlen' : (S.erase c).length = S.length - 1 := List.length_erase_of_mem hc
      have hnd' : (S.erase c).Nodup := hnd.erase c
      have hsubS : ∀ v ∈ S.erase c, v ∈ S := fun v hv => List.mem_of_mem_erase hv
      have hS0' : ∀ v ∈ S.erase c, v ∈ S0 := fun v hv => hS0 v (hsubS v hv)
      obtain ⟨ext, hext, hkeys, hok⟩ := ih (step + 1) (S.erase c)
        (if minS ≤ (S.erase c).length ∧ (S.erase c).length ≤ maxS then
            acc ++ [((S.erase c).length, sortAsc (S.erase c))] else acc)
        (by omega) hnd' hS0' (by omega)
      have hrange : (List.range' minS (S.length - minS)).reverse =
          (S.length - 1) :: (List.range' minS ((S.length - 1) - minS)).reverse := by
        have : S.length - minS = ((S.length - 1) - minS) + 1 := by omega
        rw [this, List.range'_concat, List.reverse_append]
        simp
        omega
      have hmin : minS ≤ (S.erase c).length := by omega
      by_cases hmx : S.length - 1 ≤ maxS
      · have hcond : minS ≤ (S.erase c).length ∧ (S.erase c).length ≤ maxS := by omega
        rw [if_pos hcond] at hext ⊢
        refine ⟨((S.erase c).length, sortAsc (S.erase c)) :: ext, ?_, ?_, ?_⟩
        · rw [hext]; simp
        · rw [hrange, List.filter_cons_of_pos (by simpa using hmx), List.map_cons, hkeys, hlen']
        · intro e he
          rcases List.mem_cons.mp he with rfl | he
          · exact sub_entryOK_of_set g S0 minS maxS _ hcond.1 hcond.2 hnd'
              (fun v hv => hS0n v (hS0' v hv)) (fun h => by omega) (fun _ => hS0')
          · exact hok e he
      · have hcond : ¬ (minS ≤ (S.erase c).length ∧ (S.erase c).length ≤ maxS) := by omega
        rw [if_neg hcond] at hext ⊢
        refine ⟨ext, hext, ?_, hok⟩
        rw [hrange, List.filter_cons_of_neg (by simpa using hmx), hkeys, hlen']
    · rw [if_neg hlt]
      have h0 : S.length - minS = 0 := by omega
      exact ⟨[], by simp, by simp [h0], by simp⟩


theorem sub_validate_ok_iff (g : Graph) (sub : List Nat) (minS maxS : Nat) (sel : Sel)
    (ws : Option (List Int)) :
    validateResize g sub minS maxS sel = .ok ws ↔
      ((∀ v ∈ sub, v ∈ g.nodes) ∧ 1 ≤ minS ∧ maxS < g.nodes.length ∧ minS ≤ maxS ∧
        ((sel = .uniform ∧ ws = none) ∨
          ∃ w, sel = .weight w ∧ w.length = g.nodes.length ∧ ws = some w)) := by
  unfold validateResize
  have hall : (sub.all fun v => g.nodes.contains v) = true ↔ ∀ v ∈ sub, v ∈ g.nodes := by
    simp [List.all_eq_true]
  constructor
  · intro h
    split at h
    · cases h
    · rename_i h1
      split at h
      · cases h
      · rename_i h2
        split at h
        · cases h
        · rename_i h3
          split at h
          · cases h
          · rename_i h4
            have h1' : ∀ v ∈ sub, v ∈ g.nodes := hall.mp (by simpa using h1)
            refine ⟨h1', by omega, by omega, by omega, ?_⟩
            split at h
            · split at h
              · rename_i h5
                right
                exact ⟨_, rfl, by simpa using h5, by cases h; rfl⟩
              · cases h
            · left; exact ⟨rfl, by cases h; rfl⟩
            · cases h
  · rintro ⟨h1, h2, h3, h4, h5⟩
    have h1b := hall.mpr h1
    rw [if_neg (by rw [h1b]; decide), if_neg (by omega), if_neg (by omega), if_neg (by omega)]
    rcases h5 with ⟨rfl, rfl⟩ | ⟨w, rfl, hw, rfl⟩
    · rfl
    · simp [hw]

theorem sub_resizeFrom_error (g : Graph) (sub : List Nat) (minS maxS : Nat) (sel : Sel) (pick : Pick)
    (step0 : Nat) (e : Err) (h : validateResize g sub minS maxS sel = .error e) :
    resizeFrom g sub minS maxS sel pick step0 = .error e := by
  unfold resizeFrom; rw [h]

theorem sub_resizeFrom_ok (g : Graph) (sub : List Nat) (minS maxS : Nat) (sel : Sel) (pick : Pick)
    (step0 : Nat) (ws : Option (List Int)) (h : validateResize g sub minS maxS sel = .ok ws) :
    resizeFrom g sub minS maxS sel pick step0 =
        .ok (resizeShrink g ws pick minS maxS ((g.nodes.filter fun v => sub.contains v).length + 1)
          (resizeGrow g ws pick minS maxS (g.nodes.length + 1) step0
            (g.nodes.filter fun v => sub.contains v)
            (if minS ≤ (g.nodes.filter fun v => sub.contains v).length ∧
                (g.nodes.filter fun v => sub.contains v).length ≤ maxS then
              [((g.nodes.filter fun v => sub.contains v).length,
                sortAsc (g.nodes.filter fun v => sub.contains v))] else [])).2
          (g.nodes.filter fun v => sub.contains v)
          (resizeGrow g ws pick minS maxS (g.nodes.length + 1) step0
            (g.nodes.filter fun v => sub.contains v)
            (if minS ≤ (g.nodes.filter fun v => sub.contains v).length ∧
                (g.nodes.filter fun v => sub.contains v).length ≤ maxS then
              [((g.nodes.filter fun v => sub.contains v).length,
                sortAsc (g.nodes.filter fun v => sub.contains v))] else [])).1) := by
  unfold resizeFrom; rw [h]

/-- `resize` in terms of an arbitrary duplicate-free start set: structure of the result -/
theorem sub_resize_struct {g : Graph} (hn : g.nodes.Nodup) {pick : Pick} (hp : sub_Lawful pick)
    {sub : List Nat} {minS maxS : Nat} {sel : Sel} {r : List (Nat × List Nat)}
    (h : resize g sub minS maxS sel pick = .ok r) :
    ∃ acc0 extG extS, r = acc0 ++ extG ++ extS ∧
      acc0 = (if minS ≤ (g.nodes.filter fun v => sub.contains v).length ∧
                (g.nodes.filter fun v => sub.contains v).length ≤ maxS then
              [((g.nodes.filter fun v => sub.contains v).length,
                sortAsc (g.nodes.filter fun v => sub.contains v))] else []) ∧
      extG.map (·.1) = (List.range' ((g.nodes.filter fun v => sub.contains v).length + 1)
          (maxS - (g.nodes.filter fun v => sub.contains v).length)).filter (fun s => decide (minS ≤ s)) ∧
      extS.map (·.1) = ((List.range' minS
          ((g.nodes.filter fun v => sub.contains v).length - minS)).reverse).filter
            (fun s => decide (s ≤ maxS)) ∧
      (∀ e ∈ r, sub_EntryOK g (g.nodes.filter fun v => sub.contains v) minS maxS e) ∧
      (∀ v ∈ sub, v ∈ g.nodes) := by
  unfold resize at h
  cases hv : validateResize g sub minS maxS sel with
  | error e =>
    rw [sub_resizeFrom_error _ _ _ _ _ _ _ _ hv] at h
    cases h
  | ok ws =>
    rw [sub_resizeFrom_ok _ _ _ _ _ _ _ _ hv] at h
    obtain ⟨hsubn, hmin1, hmaxn, hmm, -⟩ := (sub_validate_ok_iff _ _ _ _ _ _).mp hv
    have hS0nd : (g.nodes.filter fun v => sub.contains v).Nodup := hn.filter _
    have hS0n : ∀ v ∈ (g.nodes.filter fun v => sub.contains v), v ∈ g.nodes :=
      fun v hv => (List.mem_filter.mp hv).1
    have hS0len : (g.nodes.filter fun v => sub.contains v).length ≤ g.nodes.length :=
      List.length_filter_le _ _
    generalize (g.nodes.filter fun v => sub.contains v) = S0 at h hS0nd hS0n hS0len ⊢
    generalize hacc0 : (if minS ≤ S0.length ∧ S0.length ≤ maxS then [(S0.length, sortAsc S0)] else []) = acc0
      at h
    obtain ⟨extG, hG, hGk, hGok⟩ := sub_resizeGrow_spec hn hp ws S0 minS maxS hmaxn
      (g.nodes.length + 1) 0 S0 acc0 (by omega) hS0nd hS0n (fun v hv => hv) (Nat.le_refl _)
    obtain ⟨extS, hS, hSk, hSok⟩ := sub_resizeShrink_spec g hp ws S0 minS maxS hS0n (S0.length + 1)
      (resizeGrow g ws pick minS maxS (g.nodes.length + 1) 0 S0 acc0).2 S0
      (resizeGrow g ws pick minS maxS (g.nodes.length + 1) 0 S0 acc0).1 (by omega) hS0nd
      (fun v hv => hv) (Nat.le_refl _)
    have hr : r = acc0 ++ extG ++ extS := by
      rw [← hG, ← hS]
      simpa [Except.map] using h.symm
    refine ⟨acc0, extG, extS, hr, rfl, hGk, hSk, ?_, hsubn⟩
    intro e he
    rw [hr] at he
    rcases List.mem_append.mp he with he | he
    · rcases List.mem_append.mp he with he | he
      · rw [← hacc0] at he
        by_cases hc : minS ≤ S0.length ∧ S0.length ≤ maxS
        · rw [if_pos hc, List.mem_singleton] at he
          subst he
          exact sub_entryOK_of_set g S0 minS maxS S0 hc.1 hc.2 hS0nd hS0n (fun _ v hv => hv)
            (fun _ v hv => hv)
        · rw [if_neg hc] at he; cases he
      · exact hGok e he
    · exact hSok e he

/-- resize: with S the input node set (in graph order), every size in [minS, maxS] is present exactly
once, and each entry is a sorted duplicate-free set of graph nodes of exactly that size, containing S
when larger and contained in S when smaller -/
theorem resize_spec {g : Graph} (hn : g.nodes.Nodup) {pick : Pick} (hp : sub_Lawful pick) {sub : List Nat}
    {minS maxS : Nat} {sel : Sel} {r : List (Nat × List Nat)}
    (h : resize g sub minS maxS sel pick = .ok r) :
    (∀ s, minS ≤ s → s ≤ maxS → ∃ T, (s, T) ∈ r) ∧
    (r.map (·.1)).Nodup ∧
    (∀ e ∈ r, minS ≤ e.1 ∧ e.1 ≤ maxS ∧ e.2.length = e.1 ∧ e.2.Nodup ∧ e.2.Pairwise (· ≤ ·) ∧
      (∀ v ∈ e.2, v ∈ g.nodes) ∧
      ((g.nodes.filter fun v => sub.contains v).length ≤ e.1 → ∀ v ∈ sub, v ∈ e.2) ∧
      (e.1 ≤ (g.nodes.filter fun v => sub.contains v).length → ∀ v ∈ e.2, v ∈ sub)) := by
  obtain ⟨acc0, extG, extS, hr, hacc0, hGk, hSk, hok, hsubn⟩ := sub_resize_struct hn hp h
  have hmemS0 : ∀ v, v ∈ (g.nodes.filter fun v => sub.contains v) ↔ v ∈ sub := by
    intro v
    constructor
    · intro hv; simpa using (List.mem_filter.mp hv).2
    · intro hv; exact List.mem_filter.mpr ⟨hsubn v hv, by simpa using hv⟩
  generalize (g.nodes.filter fun v => sub.contains v) = S0 at hacc0 hGk hSk hok hmemS0 ⊢
  have hkeys : r.map (·.1) = acc0.map (·.1) ++ extG.map (·.1) ++ extS.map (·.1) := by
    rw [hr]; simp
  have hk0 : acc0.map (·.1) = if minS ≤ S0.length ∧ S0.length ≤ maxS then [S0.length] else [] := by
    rw [hacc0]; split <;> rfl
  have hmG : ∀ s, s ∈ extG.map (·.1) ↔ (S0.length < s ∧ s ≤ maxS ∧ minS ≤ s) := by
    intro s; rw [hGk]; simp [List.mem_filter, List.mem_range'_1]; omega
  have hmS : ∀ s, s ∈ extS.map (·.1) ↔ (minS ≤ s ∧ s < S0.length ∧ s ≤ maxS) := by
    intro s; rw [hSk]; simp [List.mem_filter, List.mem_range'_1]; omega
  have hm0 : ∀ s, s ∈ acc0.map (·.1) ↔ (s = S0.length ∧ minS ≤ s ∧ s ≤ maxS) := by
    intro s; rw [hk0]
    by_cases hc : minS ≤ S0.length ∧ S0.length ≤ maxS
    · rw [if_pos hc]; simp; omega
    · rw [if_neg hc]; simp; omega
  refine ⟨?_, ?_, ?_⟩
  · intro s h1 h2
    have hs : s ∈ r.map (·.1) := by
      rw [hkeys, List.mem_append, List.mem_append, hm0, hmG, hmS]
      omega
    obtain ⟨e, he, hes⟩ := List.mem_map.mp hs
    refine ⟨e.2, ?_⟩
    have : (s, e.2) = e := by rw [← hes]
    rw [this]; exact he
  · rw [hkeys, List.nodup_append, List.nodup_append]
    refine ⟨⟨?_, ?_, ?_⟩, ?_, ?_⟩
    · rw [hk0]; split <;> simp
    · rw [hGk]; exact (List.nodup_range' 1).filter _
    · intro a ha b hb hab
      rw [hm0] at ha; rw [hmG] at hb; omega
    · rw [hSk]; exact ((List.reverse_perm _).nodup_iff.mpr (List.nodup_range' 1)).filter _
    · intro a ha b hb hab
      rw [hmS] at hb
      rcases List.mem_append.mp ha with ha | ha
      · rw [hm0] at ha; omega
      · rw [hmG] at ha; omega
  · intro e he
    obtain ⟨h1, h2, h3, h4, h5, h6, h7, h8⟩ := hok e he
    refine ⟨h1, h2, h3, h4, h5, h6, ?_, ?_⟩
    · intro hle v hv; exact h7 hle v ((hmemS0 v).mpr hv)
    · intro hle v hv; exact (hmemS0 v).mp (h8 hle v hv)

/-- resize accepts exactly the documented inputs -/
theorem resize_ok_iff (g : Graph) (pick : Pick) (sub : List Nat) (minS maxS : Nat) (sel : Sel) :
    (∃ r, resize g sub minS maxS sel pick = .ok r) ↔
      ((∀ v ∈ sub, v ∈ g.nodes) ∧ 1 ≤ minS ∧ maxS < g.nodes.length ∧ minS ≤ maxS ∧
        selOk g sel = true ∧ sel ≠ .degree) := by
  unfold resize
  constructor
  · rintro ⟨r, h⟩
    cases hv : validateResize g sub minS maxS sel with
    | error e =>
      rw [sub_resizeFrom_error _ _ _ _ _ _ _ _ hv] at h
      cases h
    | ok ws =>
      obtain ⟨h1, h2, h3, h4, h5⟩ := (sub_validate_ok_iff _ _ _ _ _ _).mp hv
      refine ⟨h1, h2, h3, h4, ?_⟩
      rcases h5 with ⟨rfl, -⟩ | ⟨w, rfl, hw, -⟩
      · exact ⟨rfl, by intro h; cases h⟩
      · exact ⟨by simpa [selOk] using hw, by intro h; cases h⟩
  · rintro ⟨h1, h2, h3, h4, h5, h6⟩
    have : ∃ ws, validateResize g sub minS maxS sel = .ok ws := by
      cases sel with
      | uniform => exact ⟨none, (sub_validate_ok_iff _ _ _ _ _ _).mpr ⟨h1, h2, h3, h4, Or.inl ⟨rfl, rfl⟩⟩⟩
      | degree => exact absurd rfl h6
      | weight w =>
        exact ⟨some w, (sub_validate_ok_iff _ _ _ _ _ _).mpr
          ⟨h1, h2, h3, h4, Or.inr ⟨w, rfl, by simpa [selOk] using h5, rfl⟩⟩⟩
    obtain ⟨ws, hv⟩ := this
    rw [sub_resizeFrom_ok _ _ _ _ _ _ _ _ hv]
    exact ⟨_, rfl⟩


/-! ## Topic C: sample post-processing -/

theorem mem_postselect (samples : List (List Nat)) (a b : Nat) (s : List Nat) :
    s ∈ postselect samples a b ↔ s ∈ samples ∧ a ≤ s.sum ∧ s.sum ≤ b := by
  simp [postselect, List.mem_filter]

theorem postselect_sublist (samples : List (List Nat)) (a b : Nat) :
    (postselect samples a b).Sublist samples := List.filter_sublist

theorem modesFromCounts_sorted (s : List Nat) : (modesFromCounts s).Pairwise (· ≤ ·) :=
  sub_sortAsc_sorted _

theorem sub_modesAux_length (i : Nat) (s : List Nat) : (modesFromCountsAux i s).length = s.sum := by
  induction s generalizing i with
  | nil => simp [modesFromCountsAux]
  | cons c cs ih => simp [modesFromCountsAux, ih]

theorem modesFromCounts_length (s : List Nat) : (modesFromCounts s).length = s.sum := by
  unfold modesFromCounts
  rw [sub_sortAsc_length, sub_modesAux_length]

theorem sub_getD_cons_succ (c : Nat) (cs : List Nat) (k : Nat) :
    (c :: cs).getD (k + 1) 0 = cs.getD k 0 := by simp

theorem sub_modesAux_count (i j : Nat) (s : List Nat) :
    (modesFromCountsAux j s).count i = if i < j then 0 else s.getD (i - j) 0 := by
  induction s generalizing j with
  | nil => simp [modesFromCountsAux]
  | cons c cs ih =>
    simp only [modesFromCountsAux, List.count_append, List.count_replicate, ih]
    by_cases h1 : i < j
    · have h2 : i < j + 1 := by omega
      have h3 : ¬ (j == i) = true := by simp; omega
      simp [h1, h2, h3]
    · by_cases h2 : i = j
      · subst h2; simp
      · have h3 : ¬ (j == i) = true := by simp; omega
        have h4 : ¬ i < j + 1 := by omega
        have h5 : i - j = (i - (j + 1)) + 1 := by omega
        rw [if_neg h3, if_neg h4, if_neg h1, h5, sub_getD_cons_succ]
        simp

theorem modesFromCounts_count (s : List Nat) (i : Nat) : (modesFromCounts s).count i = s.getD i 0 := by
  unfold modesFromCounts
  rw [(sub_sortAsc_perm _).count_eq, sub_modesAux_count]
  simp

theorem sub_mem_distinct (v : Nat) (l : List Nat) : v ∈ distinct l ↔ v ∈ l := by
  induction l with
  | nil => simp [distinct]
  | cons x xs ih =>
    simp only [distinct, List.mem_cons, List.mem_filter, ih]
    by_cases h : v = x
    · simp [h]
    · simp [h]

theorem sub_distinct_nodup (l : List Nat) : (distinct l).Nodup := by
  induction l with
  | nil => simp [distinct]
  | cons x xs ih =>
    simp only [distinct]
    rw [List.nodup_cons]
    refine ⟨?_, ih.filter _⟩
    simp [List.mem_filter]

theorem sub_mem_modesFromCounts (s : List Nat) (i : Nat) : i ∈ modesFromCounts s ↔ 0 < s.getD i 0 := by
  rw [← modesFromCounts_count, List.count_pos_iff]

theorem sub_lt_length_of_getD_pos {s : List Nat} {i : Nat} (h : 0 < s.getD i 0) : i < s.length := by
  apply Classical.byContradiction
  intro hi
  have : s.getD i 0 = 0 := by
    rw [List.getD_eq_getElem?_getD, List.getElem?_eq_none (by omega)]
    rfl
  omega

theorem sub_range_getD (l : List Nat) (n : Nat) (h : l = List.range n) (i : Nat) (hi : i < n) :
    l.getD i 0 = i := by
  subst h; simp [hi]

/-- the subgraph of a sample is the set of nodes whose mode clicked -/
theorem mem_toSubgraph {g : Graph} (hn : g.nodes.Nodup) {s : List Nat} (hlen : s.length = g.nodes.length)
    (v : Nat) :
    v ∈ toSubgraph g s ↔ ∃ i, i < s.length ∧ 0 < s.getD i 0 ∧ g.nodes.getD i 0 = v := by
  have _ := hn
  unfold toSubgraph
  simp only []
  split
  · rename_i hr
    have hr' : g.nodes = List.range g.nodes.length := by simpa using hr
    rw [sub_mem_distinct, sub_mem_modesFromCounts]
    constructor
    · intro hv
      have hvl := sub_lt_length_of_getD_pos hv
      exact ⟨v, hvl, hv, sub_range_getD _ _ hr' v (by omega)⟩
    · rintro ⟨i, hi, hpos, heq⟩
      rw [sub_range_getD _ _ hr' i (by omega)] at heq
      exact heq ▸ hpos
  · rw [sub_mem_sortAsc, List.mem_map]
    constructor
    · rintro ⟨i, hi, heq⟩
      rw [sub_mem_distinct, sub_mem_modesFromCounts] at hi
      exact ⟨i, sub_lt_length_of_getD_pos hi, hi, heq⟩
    · rintro ⟨i, _, hpos, heq⟩
      exact ⟨i, by rw [sub_mem_distinct, sub_mem_modesFromCounts]; exact hpos, heq⟩

theorem toSubgraph_nodup {g : Graph} (hn : g.nodes.Nodup) {s : List Nat} (hlen : s.length = g.nodes.length) :
    (toSubgraph g s).Nodup := by
  unfold toSubgraph
  simp only []
  split
  · exact sub_distinct_nodup _
  · apply sub_sortAsc_nodup
    apply List.Nodup.map_on _ (sub_distinct_nodup _)
    intro x hx y hy hxy
    rw [sub_mem_distinct, sub_mem_modesFromCounts] at hx hy
    have hx' : x < g.nodes.length := hlen ▸ sub_lt_length_of_getD_pos hx
    have hy' : y < g.nodes.length := hlen ▸ sub_lt_length_of_getD_pos hy
    rw [List.getD_eq_getElem?_getD, List.getD_eq_getElem?_getD, List.getElem?_eq_getElem hx',
      List.getElem?_eq_getElem hy'] at hxy
    exact (hn.getElem_inj_iff).mp (by simpa using hxy)


/-! ## Topic B: the top-list bookkeeping `updateList` -/

theorem sub_listLt_iff (a b : List Nat) : listLt a b = true ↔ a < b := by
  induction a generalizing b with
  | nil => cases b <;> simp [listLt]
  | cons x xs ih =>
    cases b with
    | nil => simp [listLt]
    | cons y ys => simp [listLt, ih, List.cons_lt_cons_iff]

section TopList
variable {D : Type} [LinearOrder D]

/-- the model's tuple comparison is the lexicographic order on `D × List Nat` -/
theorem sub_entryLt_iff (a b : D × List Nat) : entryLt a b = true ↔ toLex a < toLex b := by
  simp [entryLt, Prod.Lex.toLex_lt_toLex, sub_listLt_iff]

/-- entries sorted in non-increasing tuple order -/
def SortedDesc (l : List (D × List Nat)) : Prop := l.Pairwise (fun a b => ¬ entryLt a b = true)

/-- no two entries with the same node list -/
def NoDupSets (l : List (D × List Nat)) : Prop := (l.map (·.2)).Nodup

theorem sub_sortedDesc_iff (l : List (D × List Nat)) :
    SortedDesc l ↔ l.Pairwise (fun a b => toLex b ≤ toLex a) := by
  simp only [SortedDesc, sub_entryLt_iff, not_lt]

theorem sub_insertDesc_perm (x : D × List Nat) (l : List (D × List Nat)) :
    (insertDesc x l).Perm (x :: l) := by
  induction l with
  | nil => exact List.Perm.refl _
  | cons y ys ih =>
    unfold insertDesc
    split
    · exact ((List.Perm.cons y ih).trans (List.Perm.swap x y ys))
    · exact List.Perm.refl _

theorem sub_insertDesc_sorted (x : D × List Nat) (l : List (D × List Nat))
    (h : l.Pairwise (fun a b => toLex b ≤ toLex a)) :
    (insertDesc x l).Pairwise (fun a b => toLex b ≤ toLex a) := by
  induction l with
  | nil => simp [insertDesc]
  | cons y ys ih =>
    unfold insertDesc
    have hy := List.pairwise_cons.mp h
    split
    · rename_i hxy
      rw [sub_entryLt_iff] at hxy
      refine List.pairwise_cons.mpr ⟨?_, ih hy.2⟩
      intro z hz
      rcases List.mem_cons.mp ((sub_insertDesc_perm x ys).mem_iff.mp hz) with rfl | hz
      · exact le_of_lt hxy
      · exact hy.1 z hz
    · rename_i hxy
      rw [sub_entryLt_iff, not_lt] at hxy
      refine List.pairwise_cons.mpr ⟨?_, h⟩
      intro z hz
      rcases List.mem_cons.mp hz with rfl | hz
      · exact hxy
      · exact le_trans (hy.1 z hz) hxy

theorem sub_sortEntries_perm (l : List (D × List Nat)) : (sortEntries l).Perm l := by
  induction l with
  | nil => exact List.Perm.refl _
  | cons x xs ih =>
    show (insertDesc x (sortEntries xs)).Perm (x :: xs)
    exact (sub_insertDesc_perm x _).trans (List.Perm.cons x ih)

theorem sub_sortEntries_sorted' (l : List (D × List Nat)) :
    (sortEntries l).Pairwise (fun a b => toLex b ≤ toLex a) := by
  induction l with
  | nil => simp [sortEntries]
  | cons x xs ih => exact sub_insertDesc_sorted x _ ih

theorem sub_sortEntries_sorted (l : List (D × List Nat)) : SortedDesc (sortEntries l) :=
  (sub_sortedDesc_iff _).mpr (sub_sortEntries_sorted' l)

theorem sub_mem_sortEntries (e : D × List Nat) (l : List (D × List Nat)) : e ∈ sortEntries l ↔ e ∈ l :=
  (sub_sortEntries_perm l).mem_iff

theorem sub_fst_le_of_lex_le {a b : D × List Nat} (h : toLex a ≤ toLex b) : a.1 ≤ b.1 := by
  rcases Prod.Lex.toLex_le_toLex.mp h with h | h
  · exact le_of_lt h
  · exact le_of_eq h.1

/-- in a sorted list, an element that is not among all-but-the-last is below all of those -/
theorem sub_dropLast_spec {M : List (D × List Nat)} (hM : M.Pairwise (fun a b => toLex b ≤ toLex a))
    {e : D × List Nat} (he : e ∈ M) (hne : e ∉ M.dropLast) : ∀ k ∈ M.dropLast, toLex e ≤ toLex k := by
  have hMne : M ≠ [] := List.ne_nil_of_mem he
  obtain ⟨A, z, rfl⟩ : ∃ A z, M = A ++ [z] :=
    ⟨M.dropLast, M.getLast hMne, (List.dropLast_concat_getLast hMne).symm⟩
  rw [List.dropLast_concat] at hne ⊢
  have hez : e = z := by
    rcases List.mem_append.mp he with h | h
    · exact absurd h hne
    · simpa using h
  subst hez
  intro k hk
  exact (List.pairwise_append.mp hM).2.2 k hk e (by simp)

omit [LinearOrder D] in
theorem sub_concat_of_getLast? {l : List (D × List Nat)} {last : D × List Nat}
    (h : l.getLast? = some last) : ∃ A, l = A ++ [last] :=
  ⟨l.dropLast, (List.dropLast_append_getLast? last h).symm⟩

theorem sub_updateList_cases (l : List (D × List Nat)) (t : D × List Nat) (maxCount : Nat) (coin : Bool) :
    ((∃ e ∈ l, e.2 = sortAsc (distinct t.2)) ∧ (updateList l t maxCount coin).1 = l) ∨
    ((∀ e ∈ l, e.2 ≠ sortAsc (distinct t.2)) ∧
      ((l.length < maxCount ∧
          (updateList l t maxCount coin).1 = sortEntries (l ++ [(t.1, sortAsc (distinct t.2))])) ∨
       (maxCount ≤ l.length ∧ l = [] ∧ (updateList l t maxCount coin).1 = l) ∨
       (∃ last, maxCount ≤ l.length ∧ l.getLast? = some last ∧
          ((last.1 < t.1 ∧ (updateList l t maxCount coin).1 =
              (sortEntries (l ++ [(t.1, sortAsc (distinct t.2))])).dropLast) ∨
           (t.1 = last.1 ∧ (updateList l t maxCount coin).1 =
              sortEntries (l.dropLast ++ [(t.1, sortAsc (distinct t.2))])) ∨
           (t.1 ≤ last.1 ∧ (updateList l t maxCount coin).1 = l))))) := by
  unfold updateList
  simp only []
  split
  · rename_i h1
    left
    exact ⟨by simpa using h1, rfl⟩
  · rename_i h1
    right
    have h1' : ∀ e ∈ l, e.2 ≠ sortAsc (distinct t.2) := by
      intro e he heq
      apply h1
      rw [List.any_eq_true]
      exact ⟨e, he, by simpa using heq⟩
    refine ⟨h1', ?_⟩
    split
    · rename_i h2
      left; exact ⟨h2, rfl⟩
    · rename_i h2
      right
      split
      · rename_i h3
        left
        exact ⟨by omega, by simpa using h3, rfl⟩
      · rename_i last h3
        right
        refine ⟨last, by omega, h3, ?_⟩
        split
        · rename_i h4
          left; exact ⟨h4, rfl⟩
        · rename_i h4
          right
          split
          · rename_i h5
            cases coin
            · right; exact ⟨le_of_eq h5, rfl⟩
            · left; exact ⟨h5, rfl⟩
          · right; exact ⟨not_lt.mp h4, rfl⟩

theorem updateList_subset (l : List (D × List Nat)) (t : D × List Nat) (maxCount : Nat) (coin : Bool) :
    ∀ e ∈ (updateList l t maxCount coin).1, e ∈ l ∨ e = (t.1, sortAsc (distinct t.2)) := by
  intro e he
  have hperm : ∀ l' : List (D × List Nat), l'.Sublist l →
      e ∈ sortEntries (l' ++ [(t.1, sortAsc (distinct t.2))]) → e ∈ l ∨ e = (t.1, sortAsc (distinct t.2)) := by
    intro l' hl' h
    rw [sub_mem_sortEntries, List.mem_append, List.mem_singleton] at h
    exact h.imp (fun h => hl'.subset h) id
  rcases sub_updateList_cases l t maxCount coin with ⟨-, hr⟩ | ⟨-, ⟨-, hr⟩ | ⟨-, -, hr⟩ |
    ⟨last, -, -, ⟨-, hr⟩ | ⟨-, hr⟩ | ⟨-, hr⟩⟩⟩
  · rw [hr] at he; exact Or.inl he
  · rw [hr] at he; exact hperm l (List.Sublist.refl _) he
  · rw [hr] at he; exact Or.inl he
  · rw [hr] at he; exact hperm l (List.Sublist.refl _) ((List.dropLast_sublist _).subset he)
  · rw [hr] at he; exact hperm _ (List.dropLast_sublist _) he
  · rw [hr] at he; exact Or.inl he

theorem updateList_sorted {l : List (D × List Nat)} (t : D × List Nat) (maxCount : Nat) (coin : Bool)
    (hl : SortedDesc l) : SortedDesc (updateList l t maxCount coin).1 := by
  rcases sub_updateList_cases l t maxCount coin with ⟨-, hr⟩ | ⟨-, ⟨-, hr⟩ | ⟨-, -, hr⟩ |
    ⟨last, -, -, ⟨-, hr⟩ | ⟨-, hr⟩ | ⟨-, hr⟩⟩⟩ <;> rw [hr]
  · exact hl
  · exact sub_sortEntries_sorted _
  · exact hl
  · exact List.Pairwise.sublist (List.dropLast_sublist _) (sub_sortEntries_sorted _)
  · exact sub_sortEntries_sorted _
  · exact hl

theorem sub_noDupSets_concat {l l' : List (D × List Nat)} (hsub : l'.Sublist l) (hl : NoDupSets l)
    (d : D) {T : List Nat} (hT : ∀ e ∈ l, e.2 ≠ T) : NoDupSets (sortEntries (l' ++ [(d, T)])) := by
  unfold NoDupSets at hl ⊢
  rw [((sub_sortEntries_perm _).map _).nodup_iff, List.map_append, List.nodup_append]
  refine ⟨List.Nodup.sublist (hsub.map _) hl, by simp, ?_⟩
  intro a ha b hb
  obtain ⟨e, he, rfl⟩ := List.mem_map.mp ha
  have : b = T := by simpa using hb
  rw [this]
  exact hT e (hsub.subset he)

theorem updateList_nodup {l : List (D × List Nat)} (t : D × List Nat) (maxCount : Nat) (coin : Bool)
    (hl : NoDupSets l) : NoDupSets (updateList l t maxCount coin).1 := by
  rcases sub_updateList_cases l t maxCount coin with ⟨-, hr⟩ | ⟨h1, ⟨-, hr⟩ | ⟨-, -, hr⟩ |
    ⟨last, -, -, ⟨-, hr⟩ | ⟨-, hr⟩ | ⟨-, hr⟩⟩⟩ <;> rw [hr]
  · exact hl
  · exact sub_noDupSets_concat (List.Sublist.refl _) hl _ h1
  · exact hl
  · exact List.Nodup.sublist ((List.dropLast_sublist _).map _)
      (sub_noDupSets_concat (List.Sublist.refl _) hl _ h1)
  · exact sub_noDupSets_concat (List.dropLast_sublist _) hl _ h1
  · exact hl

theorem updateList_length (l : List (D × List Nat)) (t : D × List Nat) (maxCount : Nat) (coin : Bool) :
    (updateList l t maxCount coin).1.length ≤ max l.length maxCount := by
  rcases sub_updateList_cases l t maxCount coin with ⟨-, hr⟩ | ⟨-, ⟨h2, hr⟩ | ⟨-, -, hr⟩ |
    ⟨last, -, h3, ⟨-, hr⟩ | ⟨-, hr⟩ | ⟨-, hr⟩⟩⟩ <;> rw [hr]
  · exact Nat.le_max_left _ _
  · rw [(sub_sortEntries_perm _).length_eq]; simp; omega
  · exact Nat.le_max_left _ _
  · rw [List.length_dropLast, (sub_sortEntries_perm _).length_eq]; simp
  · obtain ⟨A, rfl⟩ := sub_concat_of_getLast? h3
    rw [(sub_sortEntries_perm _).length_eq]; simp
  · exact Nat.le_max_left _ _

/-- top-k property: anything dropped is no denser than everything kept -/
theorem updateList_keeps_top {l : List (D × List Nat)} (t : D × List Nat) (maxCount : Nat) (coin : Bool)
    (hl : SortedDesc l) :
    ∀ e, (e ∈ l ∨ e = (t.1, sortAsc (distinct t.2))) → e ∉ (updateList l t maxCount coin).1 →
      (∃ e' ∈ l, e'.2 = sortAsc (distinct t.2)) ∨ ∀ k ∈ (updateList l t maxCount coin).1, e.1 ≤ k.1 := by
  intro e he hne
  rw [sub_sortedDesc_iff] at hl
  have hin : e ∈ sortEntries (l ++ [(t.1, sortAsc (distinct t.2))]) := by
    rw [sub_mem_sortEntries, List.mem_append, List.mem_singleton]; exact he
  rcases sub_updateList_cases l t maxCount coin with ⟨h1, -⟩ | ⟨-, ⟨-, hr⟩ | ⟨-, h3, hr⟩ |
    ⟨last, -, h3, ⟨-, hr⟩ | ⟨h4, hr⟩ | ⟨h4, hr⟩⟩⟩
  · exact Or.inl h1
  · rw [hr] at hne; exact absurd hin hne
  · right; intro k hk; rw [hr, h3] at hk; cases hk
  · right
    rw [hr] at hne ⊢
    intro k hk
    exact sub_fst_le_of_lex_le (sub_dropLast_spec (sub_sortEntries_sorted' _) hin hne k hk)
  · right
    rw [hr] at hne ⊢
    obtain ⟨A, rfl⟩ := sub_concat_of_getLast? h3
    rw [List.dropLast_concat] at hne ⊢
    rw [sub_mem_sortEntries, List.mem_append, List.mem_singleton, not_or] at hne
    have hel : e = last := by
      rcases he with he | he
      · rcases List.mem_append.mp he with h | h
        · exact absurd h hne.1
        · simpa using h
      · exact absurd he hne.2
    subst hel
    intro k hk
    rw [sub_mem_sortEntries, List.mem_append, List.mem_singleton] at hk
    rcases hk with hk | hk
    · exact sub_fst_le_of_lex_le ((List.pairwise_append.mp hl).2.2 k hk e (by simp))
    · rw [hk]; exact le_of_eq h4.symm
  · right
    rw [hr] at hne ⊢
    obtain ⟨A, rfl⟩ := sub_concat_of_getLast? h3
    have het : e = (t.1, sortAsc (distinct t.2)) := by
      rcases he with he | he
      · exact absurd he hne
      · exact he
    intro k hk
    have hlast : last.1 ≤ k.1 := by
      rcases List.mem_append.mp hk with h | h
      · exact sub_fst_le_of_lex_le ((List.pairwise_append.mp hl).2.2 k h last (by simp))
      · have : k = last := by simpa using h
        rw [this]
    rw [het]
    exact le_trans h4 hlast

/-- a strictly denser new candidate always enters (room or not), when max_count ≥ 1 -/
theorem updateList_inserts {l : List (D × List Nat)} (t : D × List Nat) (maxCount : Nat) (coin : Bool)
    (hl : SortedDesc l) (hm : 1 ≤ maxCount) (hlen : l.length ≤ maxCount)
    (hnew : ∀ e ∈ l, e.2 ≠ sortAsc (distinct t.2)) (hd : ∀ e ∈ l, e.1 < t.1) :
    (t.1, sortAsc (distinct t.2)) ∈ (updateList l t maxCount coin).1 := by
  have _ := hl
  have _ := hlen
  have hin : (t.1, sortAsc (distinct t.2)) ∈ sortEntries (l ++ [(t.1, sortAsc (distinct t.2))]) := by
    rw [sub_mem_sortEntries, List.mem_append, List.mem_singleton]; exact Or.inr rfl
  rcases sub_updateList_cases l t maxCount coin with ⟨⟨e, he, h1⟩, -⟩ | ⟨-, ⟨-, hr⟩ | ⟨h2, h3, hr⟩ |
    ⟨last, -, h3, ⟨-, hr⟩ | ⟨h4, hr⟩ | ⟨h4, hr⟩⟩⟩
  · exact absurd h1 (hnew e he)
  · rw [hr]; exact hin
  · rw [h3] at h2; simp at h2; omega
  · rw [hr]
    apply Classical.byContradiction
    intro hne
    have hspec := sub_dropLast_spec (sub_sortEntries_sorted' _) hin hne
    obtain ⟨A, hA⟩ := sub_concat_of_getLast? h3
    have hlenM : (sortEntries (l ++ [(t.1, sortAsc (distinct t.2))])).dropLast.length = l.length := by
      rw [List.length_dropLast, (sub_sortEntries_perm _).length_eq]; simp
    have hlpos : 0 < l.length := by rw [hA]; simp
    obtain ⟨k, hk⟩ := List.exists_mem_of_length_pos (by rw [hlenM]; exact hlpos)
    have hk1 := sub_fst_le_of_lex_le (hspec k hk)
    have hkM := (List.dropLast_sublist _).subset hk
    rw [sub_mem_sortEntries, List.mem_append, List.mem_singleton] at hkM
    rcases hkM with hkl | hkt
    · exact absurd (hd k hkl) (not_lt.mpr hk1)
    · exact hne (hkt ▸ hk)
  · obtain ⟨A, hA⟩ := sub_concat_of_getLast? h3
    have := hd last (by rw [hA]; simp)
    rw [h4] at this
    exact absurd this (lt_irrefl _)
  · obtain ⟨A, hA⟩ := sub_concat_of_getLast? h3
    have := hd last (by rw [hA]; simp)
    exact absurd this (not_lt.mpr h4)

end TopList

end SFV.Apps
