import SFV.Proofs.Bosonic
import SFV.Proofs.GaussNM
import Mathlib.Tactic.IntervalCases

/-! ### single-mode symplectic/affine blocks on the bosonic simulator refine the sparse-row
specification (so Gaussian simulator = bosonic simulator = independent calculation, C01) -/
namespace SFV.Bos
open SFV.Fock SFV.Gauss Finset

variable {K : Type} [CommRing K]

/-- the 2×2 block `[[a, b], [c, d]]` as the `S` argument of `expand` for the mode list `[k]`
(`S[0,0] = a`, `S[0,1] = b`, `S[1,0] = c`, `S[1,1] = d`) -/
def block2 (a b c d : K) : Nat → Nat → K := fun i j =>
  if i = 0 then (if j = 0 then a else b) else (if j = 0 then c else d)

/-- xpxp data of one component as `XP` blocks -/
def toXPb (μ : Nat → K) (V : Nat → Nat → K) : XP K :=
  { xx := fun i j => V (2 * i) (2 * j), xp := fun i j => V (2 * i) (2 * j + 1),
    pp := fun i j => V (2 * i + 1) (2 * j + 1), mx := fun i => μ (2 * i), mp := fun i => μ (2 * i + 1) }

theorem fromXp_even (n i : Nat) : fromXp n (2 * i) = i := by
  unfold fromXp; have : 2 * i / 2 = i := by omega
  have h2 : 2 * i % 2 = 0 := by omega
  rw [this, h2]; simp
theorem fromXp_odd (n i : Nat) : fromXp n (2 * i + 1) = i + n := by
  unfold fromXp; have : (2 * i + 1) / 2 = i := by omega
  have h2 : (2 * i + 1) % 2 = 1 := by omega
  rw [this, h2]; simp

/-- entries of the expanded, permuted single-mode block in a target row -/
theorem permBoth_expand_target (n k : Nat) (hk : k < n) (a b c d : K) (q : Nat) (hq : q < 2) (col : Nat)
    (hcol : col < 2 * n) :
    permBoth n (expand n [k] (block2 a b c d)) (2 * k + q) col =
      if col = 2 * k then block2 a b c d q 0 else if col = 2 * k + 1 then block2 a b c d q 1 else 0 := by
  have hn : 0 < n := by omega
  unfold permBoth expand
  have hr : fromXp n (2 * k + q) % n = k := by
    rw [fromXp_mode hn (by omega)]; omega
  have hrq : fromXp n (2 * k + q) / n = q := by
    interval_cases q
    · rw [show 2 * k + 0 = 2 * k by rfl, fromXp_even]; exact Nat.div_eq_of_lt hk
    · rw [fromXp_odd]; rw [Nat.add_div_right _ hn, Nat.div_eq_of_lt hk]
  have hpk : posOf [k] k = some 0 := by simp [posOf]
  rw [hr, hpk]
  by_cases hc : col / 2 = k
  · have hcm : fromXp n col % n = k := by rw [fromXp_mode hn hcol]; exact hc
    rw [hcm, hpk]
    simp only [List.length_cons, List.length_nil, Nat.zero_add, Nat.mul_one, hrq]
    rcases Nat.mod_two_eq_zero_or_one col with h | h
    · have hce : col = 2 * k := by omega
      subst hce
      rw [fromXp_even, Nat.div_eq_of_lt hk]; simp
    · have hce : col = 2 * k + 1 := by omega
      subst hce
      rw [fromXp_odd, Nat.add_div_right _ hn, Nat.div_eq_of_lt hk]; simp
  · have hcm : fromXp n col % n ≠ k := by rw [fromXp_mode hn hcol]; exact hc
    have : posOf [k] (fromXp n col % n) = none := by simp [posOf, hcm]
    rw [this]
    have h1 : col ≠ 2 * k := by omega
    have h2 : col ≠ 2 * k + 1 := by omega
    simp [h1, h2]

/-- a sum against a target row has two terms -/
theorem sum_target_row (n k : Nat) (hk : k < n) (a b c d : K) (q : Nat) (hq : q < 2) (f : Nat → K) :
    (∑ col ∈ range (2 * n), permBoth n (expand n [k] (block2 a b c d)) (2 * k + q) col * f col) =
      block2 a b c d q 0 * f (2 * k) + block2 a b c d q 1 * f (2 * k + 1) := by
  have h0 : 2 * k ∈ range (2 * n) := Finset.mem_range.mpr (by omega)
  have h1 : 2 * k + 1 ∈ range (2 * n) := Finset.mem_range.mpr (by omega)
  rw [← Finset.add_sum_erase _ _ h0, ← Finset.add_sum_erase _ _ (Finset.mem_erase.mpr ⟨by omega, h1⟩)]
  rw [permBoth_expand_target n k hk a b c d q hq (2 * k) (by omega),
    permBoth_expand_target n k hk a b c d q hq (2 * k + 1) (by omega)]
  have hrest : ∑ x ∈ ((range (2 * n)).erase (2 * k)).erase (2 * k + 1),
      permBoth n (expand n [k] (block2 a b c d)) (2 * k + q) x * f x = 0 := by
    apply Finset.sum_eq_zero
    intro x hx
    simp only [Finset.mem_erase, Finset.mem_range] at hx
    rw [permBoth_expand_target n k hk a b c d q hq x hx.2.2]
    simp [hx.1, hx.2.1]
  rw [hrest]
  simp

/-- a sum against a spectator row has one term -/
theorem sum_spectator_row (n : Nat) (hn : 0 < n) (modes : List Nat) (S : Nat → Nat → K) (r : Nat) (hr : r < 2 * n)
    (hspec : ¬ (r / 2) ∈ modes) (f : Nat → K) :
    (∑ col ∈ range (2 * n), permBoth n (expand n modes S) r col * f col) = f r := by
  rw [Finset.sum_eq_single_of_mem r (Finset.mem_range.mpr hr)]
  · rw [permBoth_expand_spectator n hn modes S hr hr hspec]; simp
  · intro c hc hne
    rw [permBoth_expand_spectator n hn modes S hr (Finset.mem_range.mp hc) hspec]; simp [Ne.symm hne]

/-- **means**: the bosonic update with a single-mode block is the sparse-row map -/
theorem updateMeans_rows1 (n k : Nat) (hk : k < n) (a b c d : K) (μ : Nat → K) (V : Nat → Nat → K) (i : Nat)
    (hi : i < n) :
    (toXPb (updateMeans n (expand n [k] (block2 a b c d)) μ) V).mx i = (linMap (rows1 k a b c d) (toXPb μ V)).mx i ∧
    (toXPb (updateMeans n (expand n [k] (block2 a b c d)) μ) V).mp i = (linMap (rows1 k a b c d) (toXPb μ V)).mp i := by
  have hn : 0 < n := by omega
  simp only [toXPb, updateMeans, sumTo_eq_sum, linMap, rows1]
  by_cases hik : i = k
  · subst hik
    have e0 := sum_target_row n i hk a b c d 0 (by omega) μ
    have e1 := sum_target_row n i hk a b c d 1 (by omega) μ
    simp only [Nat.add_zero] at e0
    rw [e0, e1]
    simp [lsum, XP.mean, block2]
  · have s0 := sum_spectator_row n hn [k] (block2 a b c d) (2 * i) (by omega) (by simp; omega) μ
    have s1 := sum_spectator_row n hn [k] (block2 a b c d) (2 * i + 1) (by omega) (by simp; omega) μ
    rw [s0, s1]
    simp [lsum, XP.mean, idRow, hik]

theorem cov_double_sum (n : Nat) (X : Nat → Nat → K) (V : Nat → Nat → K) (r s : Nat) :
    (∑ c ∈ range (2 * n), ∑ d ∈ range (2 * n), permBoth n X r c * V c d * permBoth n X s d) =
      ∑ c ∈ range (2 * n), permBoth n X r c * (∑ d ∈ range (2 * n), permBoth n X s d * V c d) := by
  refine Finset.sum_congr rfl fun c _ => ?_
  rw [Finset.mul_sum]
  refine Finset.sum_congr rfl fun d _ => ?_
  ring

/-- value of one entry of the updated covariance: rows `r`, `s` each either a target row (two terms)
or a spectator row (one term) -/
theorem updateCovs_entry (n k : Nat) (hk : k < n) (a b c d : K) (V : Nat → Nat → K) (r s : Nat)
    (hr : r < 2 * n) (hs : s < 2 * n) :
    updateCovs n (expand n [k] (block2 a b c d)) (fun _ _ => 0) V r s =
      (let row := fun (t : Nat) (f : Nat → K) =>
        if t / 2 = k then block2 a b c d (t % 2) 0 * f (2 * k) + block2 a b c d (t % 2) 1 * f (2 * k + 1) else f t
       row r fun c' => row s fun d' => V c' d') := by
  have hn : 0 < n := by omega
  unfold updateCovs
  simp only [sumTo_eq_sum]
  have hY : permBoth n (fun _ _ => (0 : K)) r s = 0 := rfl
  rw [hY, add_zero, cov_double_sum]
  -- inner sums
  have inner : ∀ c', (∑ d' ∈ range (2 * n), permBoth n (expand n [k] (block2 a b c d)) s d' * V c' d') =
      (if s / 2 = k then block2 a b c d (s % 2) 0 * V c' (2 * k) + block2 a b c d (s % 2) 1 * V c' (2 * k + 1)
       else V c' s) := by
    intro c'
    by_cases hsk : s / 2 = k
    · have : s = 2 * k + s % 2 := by omega
      rw [if_pos hsk]
      conv_lhs => rw [this]
      exact sum_target_row n k hk a b c d (s % 2) (Nat.mod_lt _ (by omega)) (fun d' => V c' d')
    · rw [if_neg hsk]
      exact sum_spectator_row n hn [k] (block2 a b c d) s hs (by simp; exact hsk) (fun d' => V c' d')
  simp only [inner]
  by_cases hrk : r / 2 = k
  · have : r = 2 * k + r % 2 := by omega
    simp only [hrk, if_true]
    conv_lhs => rw [this]
    exact sum_target_row n k hk a b c d (r % 2) (Nat.mod_lt _ (by omega)) _
  · simp only [hrk, if_false]
    exact sum_spectator_row n hn [k] (block2 a b c d) r hr (by simp; exact hrk) _

/-- **covariances**: the bosonic update of every component with a single-mode block is the sparse-row
congruence `linMap (rows1 k a b c d)` — all register sizes, target positions, blocks (symmetric `V`) -/
theorem updateCovs_rows1 (n k : Nat) (hk : k < n) (a b c d : K) (μ : Nat → K) (V : Nat → Nat → K)
    (hV : ∀ x y, V x y = V y x) (i j : Nat) (hi : i < n) (hj : j < n) :
    let V' := updateCovs n (expand n [k] (block2 a b c d)) (fun _ _ => 0) V
    (toXPb μ V').xx i j = (linMap (rows1 k a b c d) (toXPb μ V)).xx i j ∧
    (toXPb μ V').xp i j = (linMap (rows1 k a b c d) (toXPb μ V)).xp i j ∧
    (toXPb μ V').pp i j = (linMap (rows1 k a b c d) (toXPb μ V)).pp i j := by
  intro V'
  have e00 := updateCovs_entry n k hk a b c d V (2 * i) (2 * j) (by omega) (by omega)
  have e01 := updateCovs_entry n k hk a b c d V (2 * i) (2 * j + 1) (by omega) (by omega)
  have e11 := updateCovs_entry n k hk a b c d V (2 * i + 1) (2 * j + 1) (by omega) (by omega)
  have d0 : ∀ t, 2 * t / 2 = t := fun t => by omega
  have d1 : ∀ t, (2 * t + 1) / 2 = t := fun t => by omega
  have m0 : ∀ t, 2 * t % 2 = 0 := fun t => by omega
  have m1 : ∀ t, (2 * t + 1) % 2 = 1 := fun t => by omega
  have hV1 := hV (2 * k + 1) (2 * k)
  refine ⟨?_, ?_, ?_⟩
  · simp only [toXPb, V', e00, d0, m0]
    by_cases hik : i = k <;> by_cases hjk : j = k <;>
      simp [linMap, lsum, XP.cov, rows1, idRow, block2, hik, hjk] <;> (try subst hik) <;> (try subst hjk) <;>
      (try rw [hV (2 * i + 1) (2 * j)]) <;> (try rw [hV1]) <;> ring_nf
  · simp only [toXPb, V', e01, d0, d1, m0, m1]
    by_cases hik : i = k <;> by_cases hjk : j = k <;>
      simp [linMap, lsum, XP.cov, rows1, idRow, block2, hik, hjk] <;> (try subst hik) <;> (try subst hjk) <;>
      (try rw [hV (2 * i + 1) (2 * j)]) <;> (try rw [hV1]) <;> ring_nf
  · simp only [toXPb, V', e11, d1, m1]
    by_cases hik : i = k <;> by_cases hjk : j = k <;>
      simp [linMap, lsum, XP.cov, rows1, idRow, block2, hik, hjk] <;> (try subst hik) <;> (try subst hjk) <;>
      (try rw [hV (2 * i + 1) (2 * j)]) <;> (try rw [hV1]) <;> ring_nf

end SFV.Bos
