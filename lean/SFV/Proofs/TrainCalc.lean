import SFV.Proofs.Train
import Mathlib.Analysis.SpecialFunctions.ExpDeriv
import Mathlib.Analysis.SpecialFunctions.Log.Deriv
import Mathlib.Analysis.Calculus.Deriv.Pow
import Mathlib.Data.Matrix.Block
/-!
Lemmas about `SFV.Model.Train`, analytic part (over `ℝ`, Mathlib `HasDerivAt`) and block-matrix part
(Mathlib `Matrix.fromBlocks`): the formal derivatives of the exponential family are derivatives, the reported
gradients are the derivatives of the reported costs along every coordinate `θ_j`, `(I − O)⁻¹` in blocks,
the symplectic matrix of the Doktorov circuit.
-/
namespace SFV.Train

/-! ### differentiation of finite sums -/

theorem hasDerivAt_sumL {α : Type} (l : List α) (f : α → ℝ → ℝ) (f' : α → ℝ) (x : ℝ)
    (h : ∀ e ∈ l, HasDerivAt (f e) (f' e) x) :
    HasDerivAt (fun y => sumL (l.map fun e => f e y)) (sumL (l.map f')) x := by
  induction l with
  | nil => simpa [sumL] using hasDerivAt_const x (0 : ℝ)
  | cons a as ih =>
    simp only [List.map_cons, sumL]
    exact (h a (List.mem_cons_self ..)).add (ih fun e he => h e (List.mem_cons_of_mem _ he))

theorem hasDerivAt_sumTo (n : Nat) (f : Nat → ℝ → ℝ) (f' : Nat → ℝ) (x : ℝ)
    (h : ∀ k, k < n → HasDerivAt (f k) (f' k) x) :
    HasDerivAt (fun y => sumTo n fun k => f k y) (sumTo n f') x := by
  induction n with
  | zero => simpa [sumTo] using hasDerivAt_const x (0 : ℝ)
  | succ n ih =>
    simp only [sumTo]
    exact (ih fun k hk => h k (Nat.lt_succ_of_lt hk)).add (h n (Nat.lt_succ_self n))

theorem pw_eq_pow (x : ℝ) (c : Nat) : pw x c = x ^ c := by
  induction c with
  | zero => simp [pw]
  | succ c ih => simp [pw, ih, pow_succ]

/-! ### one weight varies: the formal partial derivatives are derivatives -/

section oneWeight
variable {m k : Nat} (hk : k < m) (w : Nat → ℝ)
include hk

theorem mono_update (n : List Nat) (x : ℝ) :
    mono m (Function.update w k x) n
      = x ^ (cnt n k) * prodTo m (fun j => if j = k then 1 else pw (w j) (cnt n j)) := by
  rw [mono_split hk, Function.update_self, pw_eq_pow]
  congr 1
  apply prodTo_congr
  intro j _
  by_cases h : j = k
  · simp [h]
  · simp [h]

theorem mono_hasDerivAt (n : List Nat) :
    HasDerivAt (fun x => mono m (Function.update w k x) n) (dmono m w n k) (w k) := by
  have h : (fun x => mono m (Function.update w k x) n)
      = fun x => x ^ (cnt n k) * prodTo m (fun j => if j = k then 1 else pw (w j) (cnt n j)) := by
    funext x; exact mono_update hk w n x
  rw [h]
  have := (hasDerivAt_pow (cnt n k) (w k)).mul_const (prodTo m (fun j => if j = k then 1 else pw (w j) (cnt n j)))
  refine this.congr_deriv ?_
  unfold dmono
  rw [pw_eq_pow]; ring

theorem Z_hasDerivAt (S : Support ℝ) :
    HasDerivAt (fun x => Z m (Function.update w k x) S) (dZ m w S k) (w k) := by
  unfold Z dZ
  exact hasDerivAt_sumL S (fun e x => e.2 * mono m (Function.update w k x) e.1) (fun e => e.2 * dmono m w e.1 k) (w k)
    fun e _ => (mono_hasDerivAt hk w e.1).const_mul e.2

/-- **the gradient of the exponential family**: `∂/∂w_k log P_w(n) = (n_k − ⟨n_k⟩_w)/w_k` -/
theorem logProb_hasDerivAt (S : Support ℝ) (e : List Nat × ℝ)
    (hZ : Z m w S ≠ 0) (hw : w k ≠ 0) (hP : prob m w S e ≠ 0) :
    HasDerivAt (fun x => Real.log (prob m (Function.update w k x) S e))
      (((cnt e.1 k : ℝ) - meanN m w S k) / w k) (w k) := by
  have hself : Function.update w k (w k) = w := Function.update_eq_self k w
  have hnum := (mono_hasDerivAt hk w e.1).const_mul e.2
  have hden := Z_hasDerivAt hk w S
  have hZ' : Z m (Function.update w k (w k)) S ≠ 0 := by rw [hself]; exact hZ
  have hq : HasDerivAt (fun x => prob m (Function.update w k x) S e)
      ((e.2 * dmono m w e.1 k * Z m (Function.update w k (w k)) S
        - e.2 * mono m (Function.update w k (w k)) e.1 * dZ m w S k) / Z m (Function.update w k (w k)) S ^ 2) (w k) :=
    hnum.div hden hZ'
  have hP' : prob m (Function.update w k (w k)) S e ≠ 0 := by rw [hself]; exact hP
  have hlog := hq.log hP'
  refine hlog.congr_deriv ?_
  rw [hself]
  have hf := prob_formal_derivative hk w S e hZ hw
  rw [sq, hf]
  field_simp

end oneWeight

/-! ### the weights as functions of the parameters -/

/-- `ExpFeatures.weights`: `w_k(θ) = exp(−f_k·θ)` -/
noncomputable def expWeights (d : Nat) (F : Nat → Nat → ℝ) (θ : Nat → ℝ) : Nat → ℝ :=
  fun k => Real.exp (-(sumTo d fun i => F k i * θ i))

theorem expWeights_pos (d : Nat) (F : Nat → Nat → ℝ) (θ : Nat → ℝ) (k : Nat) : 0 < expWeights d F θ k :=
  Real.exp_pos _

/-- one-variable special case used in the property file -/
theorem jacobian_hasDerivAt (F : Nat → Nat → ℝ) (i j : Nat) (b t : ℝ) :
    HasDerivAt (fun x => Real.exp (-(b + F i j * x)))
      (jacobian F (fun _ => Real.exp (-(b + F i j * t))) i j) t := by
  have h0 : HasDerivAt (fun x => b + F i j * x) (F i j) t := by
    simpa using ((hasDerivAt_id' t).const_mul (F i j)).const_add b
  have h1 : HasDerivAt (fun x => -(b + F i j * x)) (-(F i j)) t := h0.neg
  have := h1.exp
  refine this.congr_deriv ?_
  unfold jacobian; ring

theorem dot_update_hasDerivAt {d j : Nat} (hj : j < d) (g θ : Nat → ℝ) (t : ℝ) :
    HasDerivAt (fun x => sumTo d fun i => g i * Function.update θ j x i) (g j) t := by
  have h := hasDerivAt_sumTo d (fun i x => g i * Function.update θ j x i) (fun i => if i = j then g i else 0) t
    (fun i _ => by
      by_cases hi : i = j
      · subst hi
        simpa using (hasDerivAt_id' t).const_mul (g i)
      · simpa [hi, Function.update_of_ne hi] using hasDerivAt_const t (g i * θ i))
  rwa [sumTo_single hj] at h

/-- **Jacobian of the embedding**: `∂w_k/∂θ_j = −F_kj w_k` -/
theorem expWeights_hasDerivAt {d j : Nat} (hj : j < d) (F : Nat → Nat → ℝ) (θ : Nat → ℝ) (k : Nat) (t : ℝ) :
    HasDerivAt (fun x => expWeights d F (Function.update θ j x) k)
      (jacobian F (expWeights d F (Function.update θ j t)) k j) t := by
  have h1 : HasDerivAt (fun x => -(sumTo d fun i => F k i * Function.update θ j x i)) (-(F k j)) t :=
    (dot_update_hasDerivAt hj (F k) θ t).neg
  have h2 : HasDerivAt (fun x => expWeights d F (Function.update θ j x) k)
      (Real.exp (-(sumTo d fun i => F k i * Function.update θ j t i)) * -(F k j)) t := h1.exp
  refine h2.congr_deriv ?_
  unfold jacobian expWeights; ring

/-! ### all weights vary with `θ_j`: the reported gradients are derivatives of the reported costs -/

theorem mono_exp (m : Nat) (a : Nat → ℝ) (n : List Nat) :
    mono m (fun k => Real.exp (-(a k))) n = Real.exp (-(sumTo m fun k => (cnt n k : ℝ) * a k)) := by
  unfold mono
  induction m with
  | zero => simp [prodTo, sumTo]
  | succ m ih =>
    simp only [prodTo, sumTo]
    rw [ih, pw_eq_pow, ← Real.exp_nat_mul, ← Real.exp_add]
    congr 1; ring

/-- the exponent of `Π w(θ)^n`: `Σ_k n_k f_k·θ` -/
noncomputable def Eof (m d : Nat) (F : Nat → Nat → ℝ) (θ : Nat → ℝ) (n : List Nat) : ℝ :=
  sumTo m fun k => (cnt n k : ℝ) * sumTo d fun i => F k i * θ i

/-- its derivative along `θ_j`: `Σ_k n_k F_kj` -/
def Gof (m : Nat) (F : Nat → Nat → ℝ) (j : Nat) (n : List Nat) : ℝ := sumTo m fun k => (cnt n k : ℝ) * F k j

theorem mono_expWeights (m d : Nat) (F : Nat → Nat → ℝ) (θ : Nat → ℝ) (n : List Nat) :
    mono m (expWeights d F θ) n = Real.exp (-(Eof m d F θ n)) :=
  mono_exp m (fun k => sumTo d fun i => F k i * θ i) n

section alongTheta
variable {d j : Nat} (hj : j < d) (m : Nat) (F : Nat → Nat → ℝ) (θ : Nat → ℝ)
include hj

theorem Eof_hasDerivAt (n : List Nat) (t : ℝ) :
    HasDerivAt (fun x => Eof m d F (Function.update θ j x) n) (Gof m F j n) t := by
  unfold Eof Gof
  exact hasDerivAt_sumTo m _ _ t fun k _ => (dot_update_hasDerivAt hj (F k) θ t).const_mul (cnt n k : ℝ)

theorem monoθ_hasDerivAt (n : List Nat) (t : ℝ) :
    HasDerivAt (fun x => mono m (expWeights d F (Function.update θ j x)) n)
      (-(Gof m F j n) * mono m (expWeights d F (Function.update θ j t)) n) t := by
  have hfun : (fun x => mono m (expWeights d F (Function.update θ j x)) n)
      = fun x => Real.exp (-(Eof m d F (Function.update θ j x) n)) := by
    funext x; exact mono_expWeights m d F _ n
  rw [hfun, mono_expWeights]
  have h1 : HasDerivAt (fun x => -(Eof m d F (Function.update θ j x) n)) (-(Gof m F j n)) t :=
    (Eof_hasDerivAt hj m F θ n t).neg
  have h2 : HasDerivAt (fun x => Real.exp (-(Eof m d F (Function.update θ j x) n)))
      (Real.exp (-(Eof m d F (Function.update θ j t) n)) * -(Gof m F j n)) t := h1.exp
  exact h2.congr_deriv (by ring)

omit hj in
/-- `Σ_n c(n) (−Σ_k n_k F_kj) Π w^n = Σ_k (−F_kj) Σ_n n_k c(n) Π w^n` -/
theorem Zderiv_eq (w : Nat → ℝ) (S : Support ℝ) :
    sumL (S.map fun e => e.2 * (-(Gof m F j e.1) * mono m w e.1)) = sumTo m fun k => -(F k j) * M1 m w S k := by
  have h1 : ∀ e : List Nat × ℝ, e.2 * (-(Gof m F j e.1) * mono m w e.1)
      = sumTo m fun k => -(F k j) * ((cnt e.1 k : ℝ) * (e.2 * mono m w e.1)) := by
    intro e
    unfold Gof
    have : sumTo m (fun k => -(F k j) * ((cnt e.1 k : ℝ) * (e.2 * mono m w e.1)))
        = sumTo m (fun k => (-(e.2 * mono m w e.1)) * ((cnt e.1 k : ℝ) * F k j)) :=
      sumTo_congr fun k _ => by ring
    rw [this, sumTo_mul_left]; ring
  have h2 : (S.map fun e => e.2 * (-(Gof m F j e.1) * mono m w e.1))
      = S.map fun e => sumTo m fun k => -(F k j) * ((cnt e.1 k : ℝ) * (e.2 * mono m w e.1)) :=
    List.map_congr_left fun e _ => h1 e
  rw [h2, sumL_sumTo]
  apply sumTo_congr
  intro k _
  unfold M1
  exact sumL_map_mul_left S (-(F k j)) _

theorem Zθ_hasDerivAt (S : Support ℝ) (t : ℝ) :
    HasDerivAt (fun x => Z m (expWeights d F (Function.update θ j x)) S)
      (sumTo m fun k => -(F k j) * M1 m (expWeights d F (Function.update θ j t)) S k) t := by
  rw [← Zderiv_eq]
  unfold Z
  exact hasDerivAt_sumL S (fun e x => e.2 * mono m (expWeights d F (Function.update θ j x)) e.1) _ t
    fun e _ => (monoθ_hasDerivAt hj m F θ e.1 t).const_mul e.2

/-- the common core: `d/dθ_j [Π w^n / Z] = [Π w^n / Z] Σ_k (n_k − ⟨n_k⟩)(−F_kj)` -/
theorem ratio_hasDerivAt (S : Support ℝ) (n : List Nat) (t : ℝ)
    (hZ : Z m (expWeights d F (Function.update θ j t)) S ≠ 0) :
    HasDerivAt (fun x => mono m (expWeights d F (Function.update θ j x)) n / Z m (expWeights d F (Function.update θ j x)) S)
      (mono m (expWeights d F (Function.update θ j t)) n / Z m (expWeights d F (Function.update θ j t)) S
        * sumTo m fun k => ((cnt n k : ℝ) - meanN m (expWeights d F (Function.update θ j t)) S k) * -(F k j)) t := by
  have hq := (monoθ_hasDerivAt hj m F θ n t).div (Zθ_hasDerivAt hj m F θ S t) hZ
  refine hq.congr_deriv ?_
  set w := expWeights d F (Function.update θ j t) with hw
  have hsum : (sumTo m fun k => ((cnt n k : ℝ) - meanN m w S k) * -(F k j))
      = -(Gof m F j n) - (sumTo m fun k => -(F k j) * M1 m w S k) / Z m w S := by
    have : (sumTo m fun k => ((cnt n k : ℝ) - meanN m w S k) * -(F k j))
        = sumTo m fun k => (-1) * ((cnt n k : ℝ) * F k j) + (-1 / Z m w S) * (-(F k j) * M1 m w S k) := by
      apply sumTo_congr
      intro k _
      unfold meanN
      field_simp
      ring
    rw [this, sumTo_add, sumTo_mul_left, sumTo_mul_left]
    unfold Gof
    ring
  rw [hsum]
  field_simp

end alongTheta

theorem mono_pos (m : Nat) (w : Nat → ℝ) (hw : ∀ k, 0 < w k) (n : List Nat) : 0 < mono m w n := by
  unfold mono
  induction m with
  | zero => simp [prodTo]
  | succ m ih =>
    simp only [prodTo]
    rw [pw_eq_pow]
    exact mul_pos ih (pow_pos (hw m) _)

theorem sumL_nonneg {α : Type} (l : List α) (f : α → ℝ) (h : ∀ e ∈ l, 0 ≤ f e) : 0 ≤ sumL (l.map f) := by
  induction l with
  | nil => simp [sumL]
  | cons a as ih =>
    simp only [List.map_cons, sumL]
    exact add_nonneg (h a (List.mem_cons_self ..)) (ih fun e he => h e (List.mem_cons_of_mem _ he))

theorem sumL_pos_of_mem {α : Type} (l : List α) (f : α → ℝ) (h : ∀ e ∈ l, 0 ≤ f e) {a : α} (ha : a ∈ l)
    (hpos : 0 < f a) : 0 < sumL (l.map f) := by
  induction l with
  | nil => cases ha
  | cons b bs ih =>
    simp only [List.map_cons, sumL]
    rcases List.mem_cons.mp ha with rfl | hmem
    · exact add_pos_of_pos_of_nonneg hpos (sumL_nonneg bs f fun e he => h e (List.mem_cons_of_mem _ he))
    · exact add_pos_of_nonneg_of_pos (h b (List.mem_cons_self ..))
        (ih (fun e he => h e (List.mem_cons_of_mem _ he)) hmem)

theorem Z_pos (m : Nat) (w : Nat → ℝ) (hw : ∀ k, 0 < w k) (S : Support ℝ) (hS : ∀ e ∈ S, 0 ≤ e.2)
    (hpos : ∃ e ∈ S, 0 < e.2) : 0 < Z m w S := by
  obtain ⟨a, ha, hap⟩ := hpos
  unfold Z
  exact sumL_pos_of_mem S (fun e => e.2 * mono m w e.1)
    (fun e he => mul_nonneg (hS e he) (le_of_lt (mono_pos m w hw e.1))) ha (mul_pos hap (mono_pos m w hw a.1))

/-- `KL.evaluate` as a function of `θ` (PNR mode, finite support): `−(1/T) Σ_{S ∈ data} log P_{w(θ)}(S)` -/
noncomputable def klCostReal (m d : Nat) (F : Nat → Nat → ℝ) (θ : Nat → ℝ) (S : Support ℝ)
    (data : List (List Nat × ℝ)) : ℝ :=
  -(sumL (data.map fun e => Real.log (prob m (expWeights d F θ) S e))) / (data.length : ℝ)

/-- `Stochastic.h_reparametrized` as a function of `θ`: `h · (Z(1)/Z(w(θ))) · Π w(θ)^n` -/
noncomputable def hRepReal (m d : Nat) (F : Nat → Nat → ℝ) (θ : Nat → ℝ) (S : Support ℝ) (h : ℝ) (n : List Nat) : ℝ :=
  hRep m h (Z m (fun _ => 1) S / Z m (expWeights d F θ) S) (expWeights d F θ) n

theorem hRep_hasDerivAt (m d : Nat) (F : Nat → Nat → ℝ) (θ : Nat → ℝ) (S : Support ℝ) (h : ℝ) (n : List Nat)
    {j : Nat} (hj : j < d) (hS : ∀ e ∈ S, 0 ≤ e.2) (hpos : ∃ e ∈ S, 0 < e.2) :
    HasDerivAt (fun t => hRepReal m d F (Function.update θ j t) S h n)
      (gradOne m F (expWeights d F θ) (meanN m (expWeights d F θ) S) (hRepReal m d F θ S h n) n j) (θ j) := by
  have hself : Function.update θ j (θ j) = θ := Function.update_eq_self j θ
  have hZ : Z m (expWeights d F (Function.update θ j (θ j))) S ≠ 0 :=
    ne_of_gt (Z_pos m _ (expWeights_pos d F _) S hS hpos)
  have hr := (ratio_hasDerivAt hj m F θ S n (θ j) hZ).const_mul (h * Z m (fun _ => 1) S)
  have hfun : (fun t => hRepReal m d F (Function.update θ j t) S h n)
      = fun x => h * Z m (fun _ => 1) S * (mono m (expWeights d F (Function.update θ j x)) n
          / Z m (expWeights d F (Function.update θ j x)) S) := by
    funext x; unfold hRepReal hRep; ring
  rw [hfun]
  refine hr.congr_deriv ?_
  rw [hself, gradOne_cancel m F _ _ _ n (fun k _ => ne_of_gt (expWeights_pos d F θ k)) j]
  unfold hRepReal hRep
  ring

theorem klCost_hasDerivAt (m d : Nat) (F : Nat → Nat → ℝ) (θ : Nat → ℝ) (S : Support ℝ)
    (data : List (List Nat × ℝ)) {j : Nat} (hj : j < d)
    (hS : ∀ e ∈ S, 0 ≤ e.2) (hdata : ∀ e ∈ data, 0 < e.2) (hsub : ∀ e ∈ data, e ∈ S) (hne : data ≠ []) :
    HasDerivAt (fun t => klCostReal m d F (Function.update θ j t) S data)
      (klGrad m F (expWeights d F θ) (meanN m (expWeights d F θ) S) (meanData (data.map (·.1))) j) (θ j) := by
  have hself : Function.update θ j (θ j) = θ := Function.update_eq_self j θ
  obtain ⟨e0, he0⟩ := List.exists_mem_of_ne_nil data hne
  have hpos : ∃ e ∈ S, 0 < e.2 := ⟨e0, hsub e0 he0, hdata e0 he0⟩
  have hZpos : 0 < Z m (expWeights d F (Function.update θ j (θ j))) S :=
    Z_pos m _ (expWeights_pos d F _) S hS hpos
  have hZ := ne_of_gt hZpos
  set tgt : List Nat → ℝ := fun n =>
    sumTo m fun k => ((cnt n k : ℝ) - meanN m (expWeights d F (Function.update θ j (θ j))) S k) * -(F k j) with htgt
  -- each log-probability
  have hlog : ∀ e ∈ data, HasDerivAt (fun x => Real.log (prob m (expWeights d F (Function.update θ j x)) S e))
      (tgt e.1) (θ j) := by
    intro e he
    have hr := (ratio_hasDerivAt hj m F θ S e.1 (θ j) hZ).const_mul e.2
    have hfun : (fun x => prob m (expWeights d F (Function.update θ j x)) S e)
        = fun x => e.2 * (mono m (expWeights d F (Function.update θ j x)) e.1
            / Z m (expWeights d F (Function.update θ j x)) S) := by
      funext x; unfold prob; ring
    have hne0 : e.2 * (mono m (expWeights d F (Function.update θ j (θ j))) e.1
        / Z m (expWeights d F (Function.update θ j (θ j))) S) ≠ 0 :=
      ne_of_gt (mul_pos (hdata e he) (div_pos (mono_pos m _ (expWeights_pos d F _) e.1) hZpos))
    have hpf : HasDerivAt (fun x => prob m (expWeights d F (Function.update θ j x)) S e)
        (e.2 * (mono m (expWeights d F (Function.update θ j (θ j))) e.1 / Z m (expWeights d F (Function.update θ j (θ j))) S
          * sumTo m fun k => ((cnt e.1 k : ℝ) - meanN m (expWeights d F (Function.update θ j (θ j))) S k) * -(F k j)))
        (θ j) := by
      rw [hfun]; exact hr
    have hval : prob m (expWeights d F (Function.update θ j (θ j))) S e
        = e.2 * (mono m (expWeights d F (Function.update θ j (θ j))) e.1
            / Z m (expWeights d F (Function.update θ j (θ j))) S) := congrFun hfun (θ j)
    have hne1 : prob m (expWeights d F (Function.update θ j (θ j))) S e ≠ 0 := by
      rw [hval]; exact hne0
    refine (hpf.log hne1).congr_deriv ?_
    rw [hval]
    have hm := ne_of_gt (mono_pos m (expWeights d F (Function.update θ j (θ j))) (expWeights_pos d F _) e.1)
    have he2 := ne_of_gt (hdata e he)
    field_simp
    simp only [htgt]
    exact sumTo_congr fun k _ => by ring
  have hsum := hasDerivAt_sumL data (fun e x => Real.log (prob m (expWeights d F (Function.update θ j x)) S e))
    (fun e => tgt e.1) (θ j) hlog
  have hcost := (hsum.neg).div_const (data.length : ℝ)
  have hfun : (fun t => klCostReal m d F (Function.update θ j t) S data)
      = fun x => -(sumL (data.map fun e => Real.log (prob m (expWeights d F (Function.update θ j x)) S e)))
          / (data.length : ℝ) := rfl
  rw [hfun]
  refine hcost.congr_deriv ?_
  -- the derivative is KL.grad
  have hT : (data.length : ℝ) ≠ 0 := by
    have : data.length ≠ 0 := fun h => hne (List.length_eq_zero_iff.mp h)
    exact_mod_cast this
  have hT' : (((data.map (·.1)).length : Nat) : ℝ) ≠ 0 := by simpa using hT
  rw [klGrad_cancel m F _ _ _ (fun k _ => ne_of_gt (expWeights_pos d F θ k)) j]
  rw [htgt, hself]
  have hx : sumL (data.map fun e => sumTo m fun k => ((cnt e.1 k : ℝ) - meanN m (expWeights d F θ) S k) * -(F k j))
      = sumTo m fun k => -(F k j) * ((data.length : ℝ) * (meanData (data.map (·.1)) k - meanN m (expWeights d F θ) S k)) := by
    rw [sumL_sumTo]
    apply sumTo_congr
    intro k _
    have h1 : sumL (data.map fun e => ((cnt e.1 k : ℝ) - meanN m (expWeights d F θ) S k) * -(F k j))
        = -(F k j) * sumL (data.map fun e => ((cnt e.1 k : ℝ) - meanN m (expWeights d F θ) S k)) := by
      rw [← sumL_map_mul_left]
      congr 1
      exact List.map_congr_left fun e _ => by ring
    have h2 := meanData_spec (K := ℝ) (data.map (·.1)) k (meanN m (expWeights d F θ) S k) hT'
    rw [List.map_map] at h2
    rw [h1]
    simp only [Function.comp_def] at h2
    rw [h2]
    simp
  rw [hx]
  have hfin : (sumTo m fun k => -(F k j) * ((data.length : ℝ) * (meanData (data.map (·.1)) k - meanN m (expWeights d F θ) S k)))
      = (data.length : ℝ) * sumTo m fun k => -((meanN m (expWeights d F θ) S k - meanData (data.map (·.1)) k) * -(F k j)) := by
    rw [← sumTo_mul_left]
    exact sumTo_congr fun k _ => by ring
  rw [hfin]
  have hneg : (sumTo m fun k => -((meanN m (expWeights d F θ) S k - meanData (data.map (·.1)) k) * -(F k j)))
      = -(sumTo m fun k => (meanN m (expWeights d F θ) S k - meanData (data.map (·.1)) k) * -(F k j)) := by
    have := sumTo_mul_left (K := ℝ) m (-1) fun k => (meanN m (expWeights d F θ) S k - meanData (data.map (·.1)) k) * -(F k j)
    simp only [neg_one_mul] at this
    exact this
  rw [hneg]
  field_simp

/-! ### block matrices -/
section blocks
open Matrix
variable {n : Type} [Fintype n] [DecidableEq n]

theorem one_sub_omat_mul (A Y : Matrix n n ℝ) (h1 : (1 - A * A) * Y = 1) (h2 : Y * (1 - A * A) = 1) :
    (1 - fromBlocks 0 A A 0) * fromBlocks Y (A * Y) (A * Y) Y = 1 := by
  have hone : (1 : Matrix (n ⊕ n) (n ⊕ n) ℝ) = fromBlocks 1 0 0 1 := fromBlocks_one.symm
  have hcomm : A * Y = Y * A := by
    calc A * Y = (Y * (1 - A * A)) * (A * Y) := by rw [h2, one_mul]
      _ = Y * (A * ((1 - A * A) * Y)) := by noncomm_ring
      _ = Y * A := by rw [h1, mul_one]
  have hY : Y - A * (A * Y) = 1 := by
    calc Y - A * (A * Y) = (1 - A * A) * Y := by noncomm_ring
      _ = 1 := h1
  have hsub : (1 : Matrix (n ⊕ n) (n ⊕ n) ℝ) - fromBlocks 0 A A 0 = fromBlocks 1 (-A) (-A) 1 := by
    rw [sub_eq_add_neg, hone, fromBlocks_neg, fromBlocks_add]
    simp
  have b11 : 1 * Y + -A * (A * Y) = 1 := by
    rw [Matrix.one_mul, Matrix.neg_mul, ← sub_eq_add_neg]; exact hY
  have b12 : 1 * (A * Y) + -A * Y = 0 := by
    rw [Matrix.one_mul, Matrix.neg_mul]; exact add_neg_cancel _
  have b21 : -A * Y + 1 * (A * Y) = 0 := by
    rw [Matrix.one_mul, Matrix.neg_mul]; exact neg_add_cancel _
  have b22 : -A * (A * Y) + 1 * Y = 1 := by
    rw [Matrix.one_mul, Matrix.neg_mul, neg_add_eq_sub]; exact hY
  rw [hsub, fromBlocks_multiply, b11, b12, b21, b22]
  exact hone.symm

theorem omat_inverse_symm (A Y : Matrix n n ℝ) (hA : Aᵀ = A) (h1 : (1 - A * A) * Y = 1) (h2 : Y * (1 - A * A) = 1) :
    (fromBlocks Y (A * Y) (A * Y) Y)ᵀ = fromBlocks Y (A * Y) (A * Y) Y := by
  have hYt : Yᵀ = Y := by
    -- Yᵀ is also a two-sided inverse of the symmetric matrix 1 - A A
    have hS : (1 - A * A)ᵀ = 1 - A * A := by
      rw [transpose_sub, transpose_one, transpose_mul, hA]
    have h3 : Yᵀ * (1 - A * A) = 1 := by
      have := congrArg transpose h1
      rwa [transpose_mul, hS, transpose_one] at this
    calc Yᵀ = Yᵀ * ((1 - A * A) * Y) := by rw [h1, mul_one]
      _ = (Yᵀ * (1 - A * A)) * Y := by rw [mul_assoc]
      _ = Y := by rw [h3, one_mul]
  have hcomm : A * Y = Y * A := by
    calc A * Y = (Y * (1 - A * A)) * (A * Y) := by rw [h2, one_mul]
      _ = Y * (A * ((1 - A * A) * Y)) := by noncomm_ring
      _ = Y * A := by rw [h1, mul_one]
  rw [fromBlocks_transpose, transpose_mul, hYt, hA, ← hcomm]

theorem doktorov_product (U1 U2 : Matrix n n ℝ) (σ σ' : n → ℝ) :
    fromBlocks U2 0 0 U2 * fromBlocks (diagonal σ') 0 0 (diagonal σ) * fromBlocks U1 0 0 U1
      = fromBlocks (U2 * diagonal σ' * U1) 0 0 (U2 * diagonal σ * U1) := by
  rw [fromBlocks_multiply, fromBlocks_multiply]
  simp only [Matrix.mul_zero, Matrix.zero_mul, add_zero, zero_add]

theorem doktorov_inverse_transpose (U1 U2 : Matrix n n ℝ) (σ σ' : n → ℝ) (hσ : ∀ i, σ i * σ' i = 1)
    (h1 : U1ᵀ * U1 = 1) (h2 : U2ᵀ * U2 = 1) :
    (U2 * diagonal σ' * U1)ᵀ * (U2 * diagonal σ * U1) = 1 := by
  have hd : diagonal σ' * diagonal σ = (1 : Matrix n n ℝ) := by
    rw [diagonal_mul_diagonal]
    have : (fun i => σ' i * σ i) = fun _ => (1 : ℝ) := by funext i; rw [mul_comm]; exact hσ i
    rw [this, diagonal_one]
  calc (U2 * diagonal σ' * U1)ᵀ * (U2 * diagonal σ * U1)
      = U1ᵀ * (diagonal σ' * ((U2ᵀ * U2) * (diagonal σ * U1))) := by
        simp only [transpose_mul, diagonal_transpose, Matrix.mul_assoc]
    _ = U1ᵀ * ((diagonal σ' * diagonal σ) * U1) := by rw [h2, Matrix.one_mul, Matrix.mul_assoc]
    _ = 1 := by rw [hd, Matrix.one_mul, h1]

/-- no choice of parameters satisfies both pinned conventions *and* the Duschinsky relation: if the momentum block is
`J` (what `test_duschinsky` demands of `gbs_params`) and the position block of the same circuit is `J` too, then every
singular value is `±1` (no squeezing at all) -/
theorem doktorov_both_blocks (U1 U2 : Matrix n n ℝ) (σ σ' : n → ℝ) (hσ : ∀ i, σ i * σ' i = 1)
    (h1 : U1 * U1ᵀ = 1) (h2 : U2ᵀ * U2 = 1) (h : U2 * diagonal σ' * U1 = U2 * diagonal σ * U1) :
    ∀ i, σ i * σ i = 1 := by
  have hd : diagonal σ' = diagonal σ := by
    calc diagonal σ' = (U2ᵀ * U2) * diagonal σ' * (U1 * U1ᵀ) := by rw [h1, h2, Matrix.one_mul, Matrix.mul_one]
      _ = U2ᵀ * (U2 * diagonal σ' * U1) * U1ᵀ := by simp only [Matrix.mul_assoc]
      _ = U2ᵀ * (U2 * diagonal σ * U1) * U1ᵀ := by rw [h]
      _ = (U2ᵀ * U2) * diagonal σ * (U1 * U1ᵀ) := by simp only [Matrix.mul_assoc]
      _ = diagonal σ := by rw [h1, h2, Matrix.one_mul, Matrix.mul_one]
  intro i
  have := congrFun (diagonal_injective hd) i
  rw [← hσ i, this]

theorem doktorov_position_fails :
    ¬ ∀ (U1 U2 : Matrix (Fin 1) (Fin 1) ℝ) (σ σ' : Fin 1 → ℝ), (∀ i, σ i * σ' i = 1) →
      (fromBlocks U2 0 0 U2 * fromBlocks (diagonal σ') 0 0 (diagonal σ) * fromBlocks U1 0 0 U1).toBlocks₁₁
        = U2 * diagonal σ * U1 := by
  intro h
  have := h 1 1 (fun _ => 2) (fun _ => 1 / 2) (fun _ => by norm_num)
  rw [doktorov_product] at this
  have h00 := congrFun (congrFun this 0) 0
  simp [toBlocks₁₁] at h00
  norm_num at h00

end blocks

end SFV.Train
