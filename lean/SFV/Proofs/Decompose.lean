import SFV.Model.Decompose
import Mathlib.Tactic.Ring
import Mathlib.Tactic.LinearCombination
/-! Lemmas for C02 (decompositions). -/
namespace SFV.Decompose
open SFV.Gauss

variable {K : Type} [CommRing K]

def Consts.ok (C : Consts K) : Prop := C.q * C.q + C.q * C.q = 1 ∧ C.h * C.ih = 1

/-- the atoms satisfy the relations the source's functions guarantee -/
def Op.ok : Op K → Prop
  | .Rg c s => c * c + s * s = 1
  | .Sg ch sh c s => ch * ch - sh * sh = 1 ∧ c * c + s * s = 1
  | .BSg ct sn c s => ct * ct + sn * sn = 1 ∧ c * c + s * s = 1
  | .Pg t ch ich sg => ch * ich = 1 ∧ ch * ch = 1 + t * t ∧ sg * sg * sg = sg ∧ sg * sg * t = t
  | .CXg ch sh ct st => ch * ch - sh * sh = 1 ∧ ct * ct + st * st = 1 ∧ ch * (ct * ct - st * st) = -sh ∧
      ch * (ct * st + ct * st) = -1
  | .CZg ch sh ct st => ch * ch - sh * sh = 1 ∧ ct * ct + st * st = 1 ∧ ch * (ct * ct - st * st) = -sh ∧
      ch * (ct * st + ct * st) = -1
  | .S2g ch sh c s => ch * ch - sh * sh = 1 ∧ c * c + s * s = 1
  | .MZg ci si ce se => ci * ci + si * si = 1 ∧ ce * ce + se * se = 1
  | .sMZg c1 s1 c2 s2 => c1 * c1 + s1 * s1 = 1 ∧ c2 * c2 + s2 * s2 = 1
  | .Sq ch sh c s => ch * ch - sh * sh = 1 ∧ c * c + s * s = 1
  | .DSq _ _ _ ch sh c2 s2 => ch * ch - sh * sh = 1 ∧ c2 * c2 + s2 * s2 = 1
  | _ => True

theorem dec_X (C : Consts K) (hC : C.ok) (x : K) (k : Nat) :
    semList C [⟨.Dg (x * C.ih) 1 0, [k], false⟩] = docAct C (.Xg x) [k] := by
  obtain ⟨_, hh⟩ := hC
  funext v ⟨i, b⟩
  cases b <;> by_cases hi : i = k <;>
    simp [semList, semCmd, docAct, shiftV, rg, hi] <;> grind

theorem dec_P (C : Consts K) (t ch ich sg : K) (k : Nat) (h : (Op.Pg t ch ich sg).ok) :
    semList C [⟨.Sg ch (sg * t) ((1 - sg * sg) * ich - sg * (t * ich)) (-(sg * ich + (1 - sg * sg) * (t * ich))), [k], false⟩,
          ⟨.Rg ich (t * ich), [k], false⟩] = docAct C (.Pg t ch ich sg) [k] := by
  obtain ⟨h1, h2, h3, h4⟩ := h
  funext v ⟨i, b⟩
  cases b <;> by_cases hi : i = k <;>
    simp [semList, semCmd, docAct, actRows, lsum, rotRows, squeezeRows, rows1, idRow, rg, hi] <;> grind

theorem dec_Z (C : Consts K) (hC : C.ok) (p : K) (k : Nat) :
    semList C [⟨.Dg (p * C.ih) 0 1, [k], false⟩] = docAct C (.Zg p) [k] := by
  obtain ⟨_, hh⟩ := hC
  funext v ⟨i, b⟩
  cases b <;> by_cases hi : i = k <;>
    simp [semList, semCmd, docAct, shiftV, rg, hi] <;> grind

theorem dec_F (C : Consts K) (k : Nat) :
    semList C [⟨.Rg 0 1, [k], false⟩] = docAct C (.Fg) [k] := by
  funext v ⟨i, b⟩
  cases b <;> simp [semList, semCmd, docAct]

macro "two_mode_tac" : tactic => `(tactic|
  (simp [semList, semCmd, docAct, docActInv, actRows, lsum, rotRows, squeezeRows, rows1, idRow, rg, bsDocRows, cxDocRows,
    czDocRows, s2DocRows, passive2Rows, mzRows, smzRows, mzInvRows, smzInvRows, *] <;> grind))

theorem dec_CX (C : Consts K) (ch sh ct st : K) (k l : Nat) (hkl : k ≠ l) (h : (Op.CXg ch sh ct st).ok) :
    semList C [⟨.BSg ct st 1 0, [k, l], false⟩, ⟨.Sg ch sh 1 0, [k], false⟩, ⟨.Sg ch (-sh) 1 0, [l], false⟩,
          ⟨.BSg (-st) ct 1 0, [k, l], false⟩] = docAct C (.CXg ch sh ct st) [k, l] := by
  obtain ⟨h1, h2, h3, h4⟩ := h
  have hlk : l ≠ k := Ne.symm hkl
  funext v ⟨i, b⟩
  by_cases hik : i = k
  · subst hik; cases b <;> two_mode_tac
  · by_cases hil : i = l
    · subst hil; cases b <;> two_mode_tac
    · cases b <;> two_mode_tac

theorem dec_CZ (C : Consts K) (ch sh ct st : K) (k l : Nat) (hkl : k ≠ l) :
    semList C [⟨.Rg 0 (-1), [l], false⟩, ⟨.CXg ch sh ct st, [k, l], false⟩, ⟨.Rg 0 1, [l], false⟩]
      = docAct C (.CZg ch sh ct st) [k, l] := by
  have hlk : l ≠ k := Ne.symm hkl
  funext v ⟨i, b⟩
  by_cases hik : i = k
  · subst hik; cases b <;> two_mode_tac
  · by_cases hil : i = l
    · subst hil; cases b <;> two_mode_tac
    · cases b <;> two_mode_tac

theorem dec_S2 (C : Consts K) (hC : C.ok) (ch sh c s : K) (k l : Nat) (hkl : k ≠ l) (h : (Op.S2g ch sh c s).ok) :
    semList C [⟨.BSg C.q C.q 1 0, [k, l], false⟩, ⟨.Sg ch sh c s, [k], false⟩, ⟨.Sg ch sh c s, [l], true⟩,
          ⟨.BSg C.q C.q 1 0, [k, l], true⟩] = docAct C (.S2g ch sh c s) [k, l] := by
  obtain ⟨h1, h2⟩ := h
  obtain ⟨hq, _⟩ := hC
  have hlk : l ≠ k := Ne.symm hkl
  funext v ⟨i, b⟩
  by_cases hik : i = k
  · subst hik; cases b <;> two_mode_tac
  · by_cases hil : i = l
    · subst hil; cases b <;> two_mode_tac
    · cases b <;> two_mode_tac

theorem dec_MZ (C : Consts K) (hC : C.ok) (ci si ce se : K) (k l : Nat) (hkl : k ≠ l) :
    semList C [⟨.Rg ce se, [k], false⟩, ⟨.BSg C.q C.q 0 1, [k, l], false⟩, ⟨.Rg ci si, [k], false⟩,
          ⟨.BSg C.q C.q 0 1, [k, l], false⟩] = docAct C (.MZg ci si ce se) [k, l] := by
  obtain ⟨hq, _⟩ := hC
  have hlk : l ≠ k := Ne.symm hkl
  funext v ⟨i, b⟩
  by_cases hik : i = k
  · subst hik; cases b <;> two_mode_tac
  · by_cases hil : i = l
    · subst hil; cases b <;> two_mode_tac
    · cases b <;> two_mode_tac

theorem dec_sMZ (C : Consts K) (hC : C.ok) (c1 s1 c2 s2 : K) (k l : Nat) (hkl : k ≠ l) :
    semList C [⟨.BSg C.q C.q 0 1, [k, l], false⟩, ⟨.Rg s2 (-c2), [l], false⟩, ⟨.Rg s1 (-c1), [k], false⟩,
          ⟨.BSg C.q C.q 0 1, [k, l], false⟩] = docAct C (.sMZg c1 s1 c2 s2) [k, l] := by
  obtain ⟨hq, _⟩ := hC
  have hlk : l ≠ k := Ne.symm hkl
  funext v ⟨i, b⟩
  by_cases hik : i = k
  · subst hik; cases b <;> two_mode_tac
  · by_cases hil : i = l
    · subst hil; cases b <;> two_mode_tac
    · cases b <;> two_mode_tac

/-! ### inverse laws: the daggered action is the two-sided inverse of the documented action -/

def Op.arity : Op K → Nat
  | .BSg .. => 2 | .CXg .. => 2 | .CZg .. => 2 | .S2g .. => 2 | .MZg .. => 2 | .sMZg .. => 2
  | _ => 1

macro "one_mode_tac" : tactic => `(tactic|
  (simp [docAct, docActInv, shiftV, actRows, lsum, rotRows, squeezeRows, rows1, idRow, rg, *] <;> grind))

theorem inv_one (C : Consts K) (op : Op K) (hop : op.ok) (k : Nat) (ha : op.arity = 1) (v : Vec K) :
    docActInv C op [k] (docAct C op [k] v) = v ∧ docAct C op [k] (docActInv C op [k] v) = v := by
  cases op <;> simp [Op.arity] at ha <;> simp only [Op.ok] at hop
  all_goals
    constructor <;> funext ⟨i, b⟩ <;> by_cases hik : i = k
    all_goals (first | subst hik | skip)
    all_goals cases b
    all_goals (first | rfl | one_mode_tac)

theorem inv_two (C : Consts K) (hC : C.ok) (op : Op K) (hop : op.ok) (k l : Nat) (hkl : k ≠ l) (ha : op.arity = 2)
    (v : Vec K) :
    docActInv C op [k, l] (docAct C op [k, l] v) = v ∧ docAct C op [k, l] (docActInv C op [k, l] v) = v := by
  obtain ⟨hq, _⟩ := hC
  have hlk : l ≠ k := Ne.symm hkl
  cases op <;> simp [Op.arity] at ha <;> simp only [Op.ok] at hop
  all_goals
    constructor <;> funext ⟨i, b⟩ <;> by_cases hik : i = k
    all_goals (first | subst hik | skip)
    all_goals by_cases hil : i = l
    all_goals (first | subst hil | skip)
    all_goals (first | (exfalso; exact hkl rfl) | skip)
    all_goals cases b
    all_goals two_mode_tac
