import SFV.Model.Param
/-! Lemmas about the K5 model (`SFV.Model.Param`).  Core Lean only. -/
namespace SFV.Param
variable {V : Type} [ValOps V]
set_option linter.unusedSectionVars false

/-! ### evaluation and substitution -/

/-- hypotheses tying a substitution `σ` (evaluated in `env`) to the environment `ρ` that binds the
substituted atoms to the values of their images -/
structure Pulls (env ρ : Env V) (σ : Subst) : Prop where
  free_some : ∀ n e', σ.free n = some e' → ∃ v, eval env e' = .ok v ∧ ρ.free n = some v
  free_none : ∀ n, σ.free n = none → ρ.free n = env.free n
  meas_some : ∀ m e', σ.meas m = some e' → ∃ v, eval env e' = .ok v ∧ ρ.meas m = some v
  meas_none : ∀ m, σ.meas m = none → ρ.meas m = env.meas m

theorem eval_subst_gen (env ρ : Env V) (σ : Subst) (h : Pulls env ρ σ) (e : Expr) :
    eval env (subst σ e) = eval ρ e := by
  induction e with
  | num q => rfl
  | free n =>
    cases hs : σ.free n with
    | none => simp [subst, hs, eval, h.free_none n hs]
    | some e' =>
      obtain ⟨v, hv, hr⟩ := h.free_some n e' hs
      simp [subst, hs, eval, hv, hr]
  | meas m =>
    cases hs : σ.meas m with
    | none => simp [subst, hs, eval, h.meas_none m hs]
    | some e' =>
      obtain ⟨v, hv, hr⟩ := h.meas_some m e' hs
      simp [subst, hs, eval, hv, hr]
  | add a b iha ihb => simp [subst, eval, iha, ihb]
  | mul a b iha ihb => simp [subst, eval, iha, ihb]
  | neg a iha => simp [subst, eval, iha]
  | pow a b iha ihb => simp [subst, eval, iha, ihb]
  | fn1 f a iha => simp [subst, eval, iha]
  | fn2 f a b iha ihb => simp [subst, eval, iha, ihb]

/-- evaluation only looks at the atoms of the expression -/
theorem eval_congr (env₁ env₂ : Env V) (e : Expr)
    (hm : ∀ m ∈ measAtoms e, env₁.meas m = env₂.meas m)
    (hf : ∀ n ∈ freeAtoms e, env₁.free n = env₂.free n) : eval env₁ e = eval env₂ e := by
  induction e with
  | num q => rfl
  | free n => simp [eval, hf n (by simp [freeAtoms])]
  | meas m => simp [eval, hm m (by simp [measAtoms])]
  | add a b iha ihb | mul a b iha ihb | pow a b iha ihb | fn2 f a b iha ihb =>
    simp only [measAtoms, freeAtoms, List.mem_append] at hm hf
    simp [eval, iha (fun m h => hm m (.inl h)) (fun n h => hf n (.inl h)),
      ihb (fun m h => hm m (.inr h)) (fun n h => hf n (.inr h))]
  | neg a iha | fn1 f a iha =>
    simp only [measAtoms, freeAtoms] at hm hf
    simp [eval, iha hm hf]

/-- evaluation succeeds exactly when every atom has a value -/
theorem eval_ok_iff (env : Env V) (e : Expr) :
    (∃ v, eval env e = .ok v) ↔
      (∀ n ∈ freeAtoms e, (env.free n).isSome) ∧ (∀ m ∈ measAtoms e, (env.meas m).isSome) := by
  induction e with
  | num q => simp [eval, freeAtoms, measAtoms]
  | free n =>
    cases h : env.free n <;> simp [eval, freeAtoms, measAtoms, h]
  | meas m =>
    cases h : env.meas m <;> simp [eval, freeAtoms, measAtoms, h]
  | add a b iha ihb | mul a b iha ihb | pow a b iha ihb | fn2 f a b iha ihb =>
    simp only [freeAtoms, measAtoms, List.mem_append]
    constructor
    · rintro ⟨v, hv⟩
      cases ha : eval env a with
      | error err => simp [eval, ha] at hv; cases hv
      | ok x =>
        cases hb : eval env b with
        | error err => simp [eval, ha, hb] at hv; cases hv
        | ok y =>
          have h1 := iha.1 ⟨x, ha⟩
          have h2 := ihb.1 ⟨y, hb⟩
          exact ⟨fun n h => h.elim (h1.1 n) (h2.1 n), fun m h => h.elim (h1.2 m) (h2.2 m)⟩
    · rintro ⟨h1, h2⟩
      obtain ⟨x, hx⟩ := iha.2 ⟨fun n h => h1 n (.inl h), fun m h => h2 m (.inl h)⟩
      obtain ⟨y, hy⟩ := ihb.2 ⟨fun n h => h1 n (.inr h), fun m h => h2 m (.inr h)⟩
      exact ⟨_, by simp [eval, hx, hy]; rfl⟩
  | neg a iha | fn1 f a iha =>
    simp only [freeAtoms, measAtoms]
    constructor
    · rintro ⟨v, hv⟩
      cases ha : eval env a with
      | error err => simp [eval, ha] at hv; cases hv
      | ok x => exact iha.1 ⟨x, ha⟩
    · intro h
      obtain ⟨x, hx⟩ := iha.2 h
      exact ⟨_, by simp [eval, hx]; rfl⟩

/-- an error names an atom of the expression that has no value -/
theorem eval_error (env : Env V) (e : Expr) (err : PErr) (h : eval env e = .error err) :
    (∃ n ∈ freeAtoms e, env.free n = none ∧ err = .unbound n) ∨
    (∃ m ∈ measAtoms e, env.meas m = none ∧ err = .unmeasured m) := by
  induction e with
  | num q => simp [eval] at h
  | free n =>
    cases hn : env.free n with
    | some v => simp [eval, hn] at h
    | none =>
      simp [eval, hn] at h
      exact .inl ⟨n, by simp [freeAtoms], hn, h.symm⟩
  | meas m =>
    cases hn : env.meas m with
    | some v => simp [eval, hn] at h
    | none =>
      simp [eval, hn] at h
      exact .inr ⟨m, by simp [measAtoms], hn, h.symm⟩
  | add a b iha ihb | mul a b iha ihb | pow a b iha ihb | fn2 f a b iha ihb =>
    simp only [freeAtoms, measAtoms, List.mem_append]
    cases ha : eval env a with
    | error e1 =>
      have : e1 = err := by simpa [eval, ha, bind, Except.bind] using h
      rcases iha (this ▸ ha) with ⟨n, hn, h1, h2⟩ | ⟨m, hm, h1, h2⟩
      · exact .inl ⟨n, .inl hn, h1, h2⟩
      · exact .inr ⟨m, .inl hm, h1, h2⟩
    | ok x =>
      cases hb : eval env b with
      | error e1 =>
        have : e1 = err := by simpa [eval, ha, hb, bind, Except.bind] using h
        rcases ihb (this ▸ hb) with ⟨n, hn, h1, h2⟩ | ⟨m, hm, h1, h2⟩
        · exact .inl ⟨n, .inr hn, h1, h2⟩
        · exact .inr ⟨m, .inr hm, h1, h2⟩
      | ok y => simp [eval, ha, hb, bind, Except.bind, pure, Except.pure] at h
  | neg a iha | fn1 f a iha =>
    simp only [freeAtoms, measAtoms]
    cases ha : eval env a with
    | error e1 =>
      have : e1 = err := by simpa [eval, ha, bind, Except.bind] using h
      exact iha (this ▸ ha)
    | ok x => simp [eval, ha, bind, Except.bind, pure, Except.pure] at h

/-! ### free-parameter table -/

theorem FreeTab.lookup_set_same (t : FreeTab V) (n : String) (s : FreeSt V) :
    (t.set n s).lookup n = (match s.val with | some v => some v | none => s.default) := by
  cases h : s.val <;> simp [FreeTab.lookup, FreeTab.get, FreeTab.set, h]

theorem FreeTab.lookup_set_other (t : FreeTab V) (n k : String) (s : FreeSt V) (h : k ≠ n) :
    (t.set n s).lookup k = t.lookup k := by
  simp [FreeTab.lookup, FreeTab.get, FreeTab.set, h]

/-- last binding of `n` in a binding list -/
def lastBinding (n : String) : List (String × V) → Option V
  | [] => none
  | (k, v) :: rest => match lastBinding n rest with
    | some w => some w
    | none => if k = n then some v else none

theorem bindParams_owned (t : FreeTab V) (p : ProgFree) (bs : List (String × V))
    (h : ∀ b ∈ bs, p.owned.contains b.1 = true) (n : String) :
    (bindParams t p bs).2 = none ∧
    (bindParams t p bs).1.lookup n = (match lastBinding n bs with | some v => some v | none => t.lookup n) := by
  induction bs generalizing t with
  | nil => simp [bindParams, lastBinding]
  | cons b rest ih =>
    obtain ⟨k, v⟩ := b
    have hk : p.owned.contains k = true := h (k, v) (by simp)
    have hrest : ∀ b ∈ rest, p.owned.contains b.1 = true := fun b hb => h b (by simp [hb])
    simp only [bindParams, hk, if_true]
    obtain ⟨h1, h2⟩ := ih (t.set k { (t.get k).getD {} with val := some v }) hrest
    refine ⟨h1, ?_⟩
    rw [h2]
    simp only [lastBinding]
    cases hl : lastBinding n rest with
    | some w => rfl
    | none =>
      by_cases hkn : k = n
      · subst hkn; simp [FreeTab.lookup_set_same]
      · simp [hkn, FreeTab.lookup_set_other _ _ _ _ (Ne.symm hkn)]

theorem bindParams_unknown (t : FreeTab V) (p : ProgFree) (pre : List (String × V)) (k : String) (v : V)
    (post : List (String × V)) (hpre : ∀ b ∈ pre, p.owned.contains b.1 = true)
    (hk : p.owned.contains k = false) :
    (bindParams t p (pre ++ (k, v) :: post)).2 = some (.unknown k) := by
  induction pre generalizing t with
  | nil =>
    have : k ∉ p.owned := by simpa using hk
    simp [bindParams, this]
  | cons b rest ih =>
    obtain ⟨k', v'⟩ := b
    have hk' : p.owned.contains k' = true := hpre (k', v') (by simp)
    simp only [List.cons_append, bindParams, hk', if_true]
    exact ih _ (fun b hb => hpre b (by simp [hb]))

/-! ### templates -/

theorem mapM_eval_subst (env ρ : Env V) (σ : Subst) (h : Pulls env ρ σ) (ps : List Expr) :
    (ps.map (subst σ)).mapM (eval env) = ps.mapM (eval ρ) := by
  induction ps with
  | nil => rfl
  | cons a l ih => simp [List.mapM_cons, eval_subst_gen env ρ σ h, ih]


/-! ### numeric substitution, parameters (scalars / arrays) -/

theorem pulls_numSubst (env : Env V) (bf : String → Option Rat) (bm : Nat → Option Rat) :
    Pulls env (env.override bf bm) (numSubst bf bm) where
  free_some := by
    intro n e' h
    cases hb : bf n with
    | none => simp [numSubst, hb] at h
    | some q =>
      simp [numSubst, hb] at h
      subst h
      exact ⟨ValOps.ofRat q, rfl, by simp [Env.override, hb]⟩
  free_none := by
    intro n h
    cases hb : bf n with
    | none => simp [Env.override, hb]
    | some q => simp [numSubst, hb] at h
  meas_some := by
    intro n e' h
    cases hb : bm n with
    | none => simp [numSubst, hb] at h
    | some q =>
      simp [numSubst, hb] at h
      subst h
      exact ⟨ValOps.ofRat q, rfl, by simp [Env.override, hb]⟩
  meas_none := by
    intro n h
    cases hb : bm n with
    | none => simp [Env.override, hb]
    | some q => simp [numSubst, hb] at h

theorem scalar_eval_subst (env ρ : Env V) (σ : Subst) (h : Pulls env ρ σ) (s : Scalar) :
    (s.subst σ).eval env = s.eval ρ := by
  cases s with
  | lit q => rfl
  | sym e => exact eval_subst_gen env ρ σ h e

theorem scalars_eval_subst (env ρ : Env V) (σ : Subst) (h : Pulls env ρ σ) (xs : List Scalar) :
    (xs.map (Scalar.subst σ)).mapM (Scalar.eval env) = xs.mapM (Scalar.eval ρ) := by
  induction xs with
  | nil => rfl
  | cons a l ih => simp [List.mapM_cons, scalar_eval_subst env ρ σ h, ih]

theorem param_eval_subst (env ρ : Env V) (σ : Subst) (h : Pulls env ρ σ) (p : Param) :
    (p.subst σ).eval env = p.eval ρ := by
  cases p with
  | one s => simp [Param.subst, Param.eval, scalar_eval_subst env ρ σ h]
  | arr xs => simp [Param.subst, Param.eval, scalars_eval_subst env ρ σ h]
  | arr2 xss =>
    have : (xss.map fun xs => xs.map (Scalar.subst σ)).mapM (fun xs => xs.mapM (Scalar.eval env))
        = xss.mapM (fun xs => xs.mapM (Scalar.eval ρ)) := by
      induction xss with
      | nil => rfl
      | cons a l ih => simp [List.mapM_cons, scalars_eval_subst env ρ σ h, ih]
    simp [Param.subst, Param.eval, this]

theorem scalar_eval_congr (env₁ env₂ : Env V) (s : Scalar)
    (hm : ∀ m ∈ s.deps, env₁.meas m = env₂.meas m) (hf : env₁.free = env₂.free) :
    s.eval env₁ = s.eval env₂ := by
  cases s with
  | lit q => rfl
  | sym e => exact eval_congr env₁ env₂ e hm (fun n _ => by rw [hf])

theorem scalars_eval_congr (env₁ env₂ : Env V) (xs : List Scalar)
    (hm : ∀ m ∈ xs.flatMap Scalar.deps, env₁.meas m = env₂.meas m) (hf : env₁.free = env₂.free) :
    xs.mapM (Scalar.eval env₁) = xs.mapM (Scalar.eval env₂) := by
  induction xs with
  | nil => rfl
  | cons a l ih =>
    simp only [List.flatMap_cons, List.mem_append] at hm
    have h1 := scalar_eval_congr env₁ env₂ a (fun m h => hm m (.inl h)) hf
    have h2 := ih (fun m h => hm m (.inr h))
    simp [List.mapM_cons, h1, h2]

theorem param_eval_congr (env₁ env₂ : Env V) (p : Param)
    (hm : ∀ m ∈ p.deps, env₁.meas m = env₂.meas m) (hf : env₁.free = env₂.free) :
    p.eval env₁ = p.eval env₂ := by
  cases p with
  | one s => simp [Param.eval, scalar_eval_congr env₁ env₂ s hm hf]
  | arr xs => simp [Param.eval, scalars_eval_congr env₁ env₂ xs hm hf]
  | arr2 xss =>
    have : xss.mapM (fun xs => xs.mapM (Scalar.eval env₁)) = xss.mapM (fun xs => xs.mapM (Scalar.eval env₂)) := by
      simp only [Param.deps] at hm
      induction xss with
      | nil => rfl
      | cons a l ih =>
        simp only [List.flatMap_cons, List.mem_append] at hm
        have h1 := scalars_eval_congr env₁ env₂ a (fun m h => hm m (.inl h)) hf
        have h2 := ih (fun m h => hm m (.inr h))
        simp [List.mapM_cons, h1, h2]
    simp [Param.eval, this]

theorem scalar_nonsymbolic (env : Env V) (s : Scalar) (h : s.isSymbolic = false) :
    ∃ q, s = .lit q ∧ s.eval env = .ok (ValOps.ofRat q) := by
  cases s with
  | lit q => exact ⟨q, rfl, rfl⟩
  | sym e => simp [Scalar.isSymbolic] at h

/-- the value a list of non-symbolic scalars evaluates to -/
def litVals (xs : List Scalar) : List V := xs.map fun s => match s with
  | .lit q => ValOps.ofRat q | .sym _ => ValOps.ofRat 0

theorem scalars_nonsymbolic (env : Env V) (xs : List Scalar) (h : ∀ x ∈ xs, x.isSymbolic = false) :
    xs.mapM (Scalar.eval env) = .ok (litVals xs) := by
  induction xs with
  | nil => rfl
  | cons a l ih =>
    obtain ⟨q, rfl, _⟩ := scalar_nonsymbolic env a (h a (by simp))
    have := ih (fun x hx => h x (by simp [hx]))
    simp [List.mapM_cons, Scalar.eval, this, litVals]
    rfl

theorem param_nonsymbolic (env₁ env₂ : Env V) (p : Param) (h : p.isSymbolic = false) :
    p.eval env₁ = p.eval env₂ ∧ ∃ v, p.eval env₁ = .ok v := by
  cases p with
  | one s =>
    obtain ⟨q, rfl, _⟩ := scalar_nonsymbolic env₁ s h
    exact ⟨rfl, _, rfl⟩
  | arr xs =>
    simp only [Param.isSymbolic, List.any_eq_false] at h
    have h' : ∀ x ∈ xs, x.isSymbolic = false := fun x hx => by simpa using h x hx
    have := fun env : Env V => scalars_nonsymbolic env xs h'
    exact ⟨by simp [Param.eval, this], _, by simp [Param.eval, this]; rfl⟩
  | arr2 xss =>
    simp only [Param.isSymbolic, List.any_eq_false] at h
    have : ∀ env : Env V, xss.mapM (fun xs => xs.mapM (Scalar.eval env)) = .ok (xss.map litVals) := by
      intro env
      induction xss with
      | nil => rfl
      | cons a l ih =>
        have ha : ∀ x ∈ a, x.isSymbolic = false := fun x hx => by
          have := h a (by simp)
          simp only [List.any_eq_true, not_exists, not_and] at this
          simpa using this x hx
        have := ih (fun x hx => h x (by simp [hx]))
        simp [List.mapM_cons, scalars_nonsymbolic env a ha, this]
        rfl
    exact ⟨by simp [Param.eval, this], _, by simp [Param.eval, this]; rfl⟩

/-! ### par_convert -/

theorem toOption_bind2 {α β γ : Type} (a : Except PErr α) (b : Except PErr β) (f : α → β → γ) :
    (do let x ← a; let y ← b; pure (f x y) : Except PErr γ).toOption =
      (do let x ← a.toOption; let y ← b.toOption; pure (f x y)) := by
  cases a <;> cases b <;> rfl

theorem toOption_bind1 {α γ : Type} (a : Except PErr α) (f : α → γ) :
    (do let x ← a; pure (f x) : Except PErr γ).toOption = (do let x ← a.toOption; pure (f x)) := by
  cases a <;> rfl

/-- the converted expression has the value the Blackbird expression has when `q<i>` stands for the
outcome of subsystem `i` and every other symbol for the free parameter of that name (and fails
exactly when that one fails) -/
theorem eval_convert (env : Env V) (e e' : Expr) (h : convert e = some e') :
    (eval env e').toOption = (eval env.blackbird e).toOption := by
  induction e generalizing e' with
  | num q => simp [convert] at h; subst h; rfl
  | free n =>
    simp only [convert] at h
    cases e' with
    | meas m => simp only [eval, Env.blackbird, h]; cases env.meas m <;> rfl
    | free k => simp only [eval, Env.blackbird, h]; cases env.free k <;> rfl
    | _ =>
      exfalso
      unfold atomOfName at h
      cases hc : classify n.toList <;> simp [hc] at h
  | meas m => simp [convert] at h; subst h; rfl
  | add a b iha ihb | mul a b iha ihb | pow a b iha ihb | fn2 f a b iha ihb =>
    simp only [convert] at h
    cases ha : convert a with
    | none => simp [ha] at h
    | some x =>
      cases hb : convert b with
      | none => simp [ha, hb] at h
      | some y =>
        simp [ha, hb] at h
        subst h
        simp only [eval]
        rw [toOption_bind2, toOption_bind2, iha x ha, ihb y hb]
  | neg a iha | fn1 f a iha =>
    simp only [convert] at h
    cases ha : convert a with
    | none => simp [ha] at h
    | some x =>
      simp [ha] at h
      subst h
      simp only [eval]
      rw [toOption_bind1, toOption_bind1, iha x ha]

/-! ### holes -/

theorem holeLookup_mapM (env : Env V) (ps : List Expr) (vs : List V) (i : Nat)
    (h : ps.mapM (eval env) = .ok vs) (n : String) :
    (match holeLookupFrom i ps n with
     | some e' => ∃ v, eval env e' = .ok v ∧ holeLookupFrom i vs n = some v
     | none => holeLookupFrom i vs n = none) := by
  induction ps generalizing vs i with
  | nil =>
    simp [List.mapM_nil, pure, Except.pure] at h
    subst h
    simp [holeLookupFrom]
  | cons a l ih =>
    rw [List.mapM_cons] at h
    cases ha : eval env a with
    | error err => simp [ha, bind, Except.bind] at h
    | ok x =>
      cases hl : l.mapM (eval env) with
      | error err => simp [ha, hl, bind, Except.bind] at h
      | ok ys =>
        simp [ha, hl, bind, Except.bind, pure, Except.pure] at h
        subst h
        simp only [holeLookupFrom]
        by_cases hn : (n == s!"#{i}") = true
        · simp only [hn, if_true]
          exact ⟨x, ha, rfl⟩
        · simp only [hn]
          exact ih ys (i + 1) hl

theorem pulls_holeEnv (env : Env V) (ps : List Expr) (vs : List V)
    (h : ps.mapM (eval env) = .ok vs) : Pulls env (holeEnv env vs) (holeSubst ps) where
  free_some := by
    intro n e' hs
    have := holeLookup_mapM env ps vs 0 h n
    simp only [holeSubst] at hs
    rw [hs] at this
    obtain ⟨v, hv, hl⟩ := this
    exact ⟨v, hv, by simp [holeEnv, hl]⟩
  free_none := by
    intro n hs
    have := holeLookup_mapM env ps vs 0 h n
    simp only [holeSubst] at hs
    rw [hs] at this
    simp [holeEnv, this]
  meas_some := by intro m e' hs; simp [holeSubst] at hs
  meas_none := by intro m _; rfl

theorem sem_inst (env ρ : Env V) (σ : Subst) (h : Pulls env ρ σ) (c : TCmd) :
    (c.inst σ).sem env = c.sem ρ := by
  simp [TCmd.sem, TCmd.inst, TCmd.evalPars, mapM_eval_subst env ρ σ h]

theorem sem_orient (env : Env V) (seq : List TCmd) (d : Bool) :
    (orient seq d).map (TCmd.sem env) =
      (if d then ((seq.map (TCmd.sem env)).map fun x => (x.1, x.2.1, !x.2.2.1, x.2.2.2)).reverse
       else seq.map (TCmd.sem env)) := by
  cases d <;> simp [orient, TCmd.sem, TCmd.evalPars, List.map_reverse, Function.comp_def]

/-! ### measured values -/

theorem store_lookup (r : Regs V) (ms : List Nat) (vs : List V) (m : Nat) :
    (r.store ms vs) m =
      (match ((ms.zip vs).reverse.find? (fun p => p.1 == m)).map (·.2) with
       | some v => some v
       | none => r m) := by
  induction ms generalizing r vs with
  | nil => simp [Regs.store]
  | cons a ms ih =>
    cases vs with
    | nil => simp [Regs.store]
    | cons v vs =>
      simp only [Regs.store, List.zip_cons_cons, List.reverse_cons, List.find?_append, ih]
      cases hf : (ms.zip vs).reverse.find? (fun p => p.1 == m) with
      | some x => simp
      | none =>
        by_cases ham : a = m
        · subst ham; simp
        · have : m ≠ a := Ne.symm ham
          simp [ham, this]

theorem runCmds_append (free : String → Option V) (r : Regs V) (a b : List (Cmd V)) :
    runCmds free r (a ++ b) =
      (match (runCmds free r a).fin with
       | .ok r' => ⟨(runCmds free r a).trace ++ (runCmds free r' b).trace, (runCmds free r' b).fin⟩
       | .error err => ⟨(runCmds free r a).trace, .error err⟩) := by
  induction a generalizing r with
  | nil => simp [runCmds]
  | cons c rest ih =>
    cases c with
    | measure ms vs => simp only [List.cons_append, runCmds, ih]
    | prepare m => simp only [List.cons_append, runCmds, ih]
    | use e =>
      simp only [List.cons_append, runCmds]
      cases he : eval ⟨free, r⟩ e with
      | error err => simp
      | ok v =>
        simp only [ih]
        cases (runCmds free r rest).fin <;> simp
    | useArr es =>
      simp only [List.cons_append, runCmds]
      cases he : es.mapM (eval ⟨free, r⟩) with
      | error err => simp
      | ok vs =>
        simp only [ih]
        cases (runCmds free r rest).fin <;> simp

/-- the register after an error-free run holds, for every subsystem, its most recent outcome (or
what it held before, when the subsystem was not measured) -/
theorem runCmds_fin (free : String → Option V) (r r' : Regs V) (cs : List (Cmd V))
    (h : (runCmds free r cs).fin = .ok r') (m : Nat) :
    r' m = (match lastOutcome m cs with | some v => some v | none => r m) := by
  induction cs generalizing r with
  | nil =>
    simp only [runCmds] at h
    cases h
    simp [lastOutcome]
  | cons c rest ih =>
    cases c with
    | measure ms vs =>
      simp only [runCmds] at h
      rw [ih _ h]
      simp only [lastOutcome]
      cases lastOutcome m rest with
      | some v => rfl
      | none => simp [store_lookup]
    | prepare k =>
      simp only [runCmds] at h
      rw [ih _ h]
      simp only [lastOutcome]
      cases lastOutcome m rest <;> rfl
    | use e =>
      simp only [runCmds] at h
      cases he : eval ⟨free, r⟩ e with
      | error err => simp [he] at h
      | ok v =>
        simp only [he] at h
        rw [ih _ h]
        simp only [lastOutcome]
        cases lastOutcome m rest <;> rfl
    | useArr es =>
      simp only [runCmds] at h
      cases he : es.mapM (eval ⟨free, r⟩) with
      | error err => simp [he] at h
      | ok vs =>
        simp only [he] at h
        rw [ih _ h]
        simp only [lastOutcome]
        cases lastOutcome m rest <;> rfl

theorem runSegs_started (free : String → Option V) (e : Eng V) (he : e.started = true)
    (segs : List (Regs V × List (Cmd V))) :
    runSegs free e segs = runCmds free e.vals (segs.flatMap (·.2)) := by
  induction segs generalizing e with
  | nil => simp [runSegs, runCmds]
  | cons s rest ih =>
    obtain ⟨own, cmds⟩ := s
    simp only [runSegs, runSeg, he, if_true, List.flatMap_cons, runCmds_append]
    cases hf : (runCmds free e.vals cmds).fin with
    | error err => simp [hf]
    | ok r => simp [hf, ih ⟨true, r⟩ rfl]

theorem runSegs_fresh (free : String → Option V) (own : Regs V) (cmds : List (Cmd V))
    (rest : List (Regs V × List (Cmd V))) :
    runSegs free {} ((own, cmds) :: rest) = runCmds free own (((own, cmds) :: rest).flatMap (·.2)) := by
  simp only [runSegs, runSeg, List.flatMap_cons, runCmds_append]
  cases hf : (runCmds free own cmds).fin with
  | error err => simp [hf]
  | ok r => simp [hf, runSegs_started free ⟨true, r⟩ rfl]

/-! ### recursive decomposition commutes with substitution -/

theorem holeLookup_map {α β : Type} (f : α → β) (xs : List α) (i : Nat) (n : String) :
    holeLookupFrom i (xs.map f) n = (holeLookupFrom i xs n).map f := by
  induction xs generalizing i with
  | nil => rfl
  | cons a l ih =>
    simp only [List.map_cons, holeLookupFrom]
    split
    · rfl
    · exact ih (i + 1)

/-- substituting into an instantiated template expression = instantiating with the substituted
parameters, when the substitution leaves the template's own atoms alone -/
theorem subst_inst (σ : Subst) (ps : List Expr) (t : Expr) (hm : measAtoms t = [])
    (hf : ∀ n ∈ freeAtoms t, σ.free n = none) :
    subst σ (subst (holeSubst ps) t) = subst (holeSubst (ps.map (subst σ))) t := by
  induction t with
  | num q => rfl
  | free n =>
    simp only [subst, holeSubst, holeLookup_map]
    cases hl : holeLookupFrom 0 ps n with
    | some e' => simp
    | none => simp [subst, hf n (by simp [freeAtoms])]
  | meas m => simp [measAtoms] at hm
  | add a b iha ihb | mul a b iha ihb | pow a b iha ihb | fn2 f a b iha ihb =>
    simp only [measAtoms, List.append_eq_nil_iff] at hm
    simp only [freeAtoms, List.mem_append] at hf
    simp [subst, iha hm.1 (fun n h => hf n (.inl h)), ihb hm.2 (fun n h => hf n (.inr h))]
  | neg a iha | fn1 f a iha =>
    simp only [measAtoms] at hm
    simp only [freeAtoms] at hf
    simp [subst, iha hm hf]

/-- the substitution does not touch what the templates of the table are made of -/
def TblOK (tbl : List (String × List TCmd)) (σ : Subst) : Prop :=
  ∀ p ∈ tbl, ∀ c ∈ p.2, ∀ e ∈ c.pars, measAtoms e = [] ∧ ∀ n ∈ freeAtoms e, σ.free n = none

theorem tblOK_of (tbl : List (String × List TCmd)) (σ : Subst) (hc : closedTable tbl = true)
    (ha : ∀ n ∈ tableAtoms tbl, σ.free n = none) : TblOK tbl σ := by
  intro p hp c hcm e he
  refine ⟨?_, fun n hn => ha n ?_⟩
  · simp only [closedTable, List.all_eq_true] at hc
    simpa using hc p hp c hcm e he
  · simp only [tableAtoms, List.mem_flatMap]
    exact ⟨p, hp, c, hcm, e, he, hn⟩

theorem lookupT_mem (tbl : List (String × List TCmd)) (cls : String) (t : List TCmd)
    (h : lookupT tbl cls = some t) : ∃ p ∈ tbl, p.2 = t := by
  unfold lookupT at h
  cases hf : tbl.find? (·.1 == cls) with
  | none => simp [hf] at h
  | some p =>
    simp [hf] at h
    exact ⟨p, List.mem_of_find?_eq_some hf, h⟩

theorem stepCmd_subst (tbl : List (String × List TCmd)) (σ : Subst) (h : TblOK tbl σ) (c : PCmd) :
    stepCmd tbl (c.subst σ) = (stepCmd tbl c).map (·.map (PCmd.subst σ)) := by
  unfold stepCmd
  simp only [PCmd.subst]
  cases hl : lookupT tbl c.cls with
  | none => rfl
  | some t =>
    obtain ⟨p, hp, rfl⟩ := lookupT_mem tbl c.cls t hl
    simp only [Option.map_some, Option.some.injEq]
    unfold decomposeWith orient
    have key : (p.2.map (TCmd.inst (holeSubst (c.pars.map (subst σ))))) =
        (p.2.map (TCmd.inst (holeSubst c.pars))).map (fun x => { x with pars := x.pars.map (subst σ) }) := by
      rw [List.map_map]
      apply List.map_congr_left
      intro tc htc
      simp only [TCmd.inst, Function.comp, List.map_map]
      congr 1
      apply List.map_congr_left
      intro e he
      exact (subst_inst σ c.pars e (h p hp tc htc e he).1 (h p hp tc htc e he).2).symm
    rw [key]
    cases c.dagger <;> simp [placeCmd, List.map_reverse, Function.comp_def, PCmd.subst]

theorem expand_subst (tbl : List (String × List TCmd)) (dec : String → Bool) (σ : Subst) (h : TblOK tbl σ)
    (fuel : Nat) (cs : List PCmd) :
    expand tbl dec fuel (cs.map (PCmd.subst σ)) = (expand tbl dec fuel cs).map (PCmd.subst σ) := by
  induction fuel generalizing cs with
  | zero => rfl
  | succ k ih =>
    simp only [expand, List.flatMap_map, List.map_flatMap]
    congr 1
    funext c
    have hcls : (c.subst σ).cls = c.cls := rfl
    rw [hcls]
    cases dec c.cls with
    | false => simp
    | true =>
      simp only [if_true]
      rw [stepCmd_subst tbl σ h c]
      cases stepCmd tbl c with
      | none => simp
      | some l => simp [ih l]

theorem pcmd_sem_subst (env ρ : Env V) (σ : Subst) (hp : Pulls env ρ σ) (c : PCmd) :
    (c.subst σ).sem env = c.sem ρ := by
  simp [PCmd.sem, PCmd.subst, mapM_eval_subst env ρ σ hp]

/-! ### calls -/

theorem runCall_fst (free : String → Option V) (e : Eng V) (segs : List (Regs V × List (Cmd V))) :
    (runCall free e segs).1 = runSegs free e segs := by
  induction segs generalizing e with
  | nil => rfl
  | cons s rest ih =>
    obtain ⟨own, cmds⟩ := s
    simp only [runCall, runSegs]
    cases hf : (runSeg free e own cmds).1.fin with
    | error err => simp [hf]
    | ok r => simp [hf, ih]

/-- after a successful call the engine holds the final register -/
theorem runCall_vals (free : String → Option V) (e : Eng V) (segs : List (Regs V × List (Cmd V))) (r : Regs V)
    (h : (runCall free e segs).1.fin = .ok r) : (runCall free e segs).2.vals = r := by
  induction segs generalizing e with
  | nil => simp [runCall] at h ⊢; exact h
  | cons s rest ih =>
    obtain ⟨own, cmds⟩ := s
    simp only [runCall] at h ⊢
    cases hf : (runSeg free e own cmds).1.fin with
    | error err => simp [hf] at h
    | ok r' =>
      simp only [hf] at h ⊢
      exact ih _ h

theorem runCall_append (free : String → Option V) (e : Eng V) (a b : List (Regs V × List (Cmd V))) :
    runCall free e (a ++ b) =
      (match (runCall free e a).1.fin with
       | .ok _ =>
         (⟨(runCall free e a).1.trace ++ (runCall free (runCall free e a).2 b).1.trace,
           (runCall free (runCall free e a).2 b).1.fin⟩, (runCall free (runCall free e a).2 b).2)
       | .error err => (⟨(runCall free e a).1.trace, .error err⟩, (runCall free e a).2)) := by
  induction a generalizing e with
  | nil => simp [runCall]
  | cons s rest ih =>
    obtain ⟨own, cmds⟩ := s
    simp only [List.cons_append, runCall]
    cases hf : (runSeg free e own cmds).1.fin with
    | error err => simp
    | ok r =>
      simp only [ih]
      cases (runCall free (runSeg free e own cmds).2 rest).1.fin <;> simp

/-- a failing segment leaves the engine as it was before the segment -/
theorem runSeg_error (free : String → Option V) (e : Eng V) (own : Regs V) (cmds : List (Cmd V)) (err : PErr)
    (h : (runSeg free e own cmds).1.fin = .error err) : (runSeg free e own cmds).2 = e := by
  unfold runSeg at h ⊢
  simp only at h ⊢
  split <;> simp_all

end SFV.Param
